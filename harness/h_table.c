/* harness/h_table.c — engine `table` (C02): runs op files on the real Table of /repo (unity build, white box).
 *
 * Eight table variables (0..7), all `new_raw(Table, Int, Int)` at start.  Ops (one per line):
 *   new <t> <kind>           tables[t] = new_raw(Table, K, V)      (old one deleted); kinds: I Int,Int  S String,Int  P PKey,PVal (24/16 bytes)
 *                            V Int,String (a value that owns memory)  W String,String  J Int,PVal (ksize 8 < vsize 16)
 *                            Q QKey,Int (a key type of 12 bytes: Table_Size_Round makes it 16).  Values are integers in the op file;
 *                            a String value is its decimal text.  Key tokens of V, J are those of I; of W those of S; of Q those of P.
 *   newm <t> <kind>          the same with new(Table, K, V): the table is managed by the collector
 *   gc                       GC_Mark + GC_Sweep of the collector, then every table is verified against its map
 *   set <t> <key> <val>      key: kind I `<int>`, kinds S/P `<text>:<hash>`   (P: text = decimal id, hash = what its Hash returns;
 *   rem|get|mem <t> <key>                                                      S: hash must be the real hash(text), it is checked;
 *                            S text: letters, digits, `_`, and `~hh` (two lower-case hex digits) for any other non-zero byte, so that
 *                            keys can differ in case, in bit 7, in the last byte, or be prefixes of one another: one spelling per byte string)
 *   len|iter|riter|check <t>
 *   resize <t> <n>           assign <dst> <src> (dst == src allowed)    copy <dst> <src>  (tables[dst] = copy(tables[src]))
 *   getk <t> <key>           p = the key object the table stores for <key> (record of v = get(t, key)); get(t, p)   (path of foreach + get)
 *   getv <t> <key>           get(t, get(t, key)): the key argument is the *value* object of one of the table's own records (since fix
 *                            bc940bb it is read like any other object: cast to the key type, hashed, probed)
 *   seta <t> <kref> <vref>   set(t, K, V) / rem(t, K) / mem(t, K) / get(t, K) where the argument objects may live in the table's OWN slot array:
 *   rema|mema|geta <t> <kref>  kref = o=<key> (an object outside, as in set/rem/mem/get) | k=<key> (the key object the table stores for <key>:
 *                            what foreach hands out) | v=<key> (the VALUE object of the record of <key>, read as a key);  vref = o=<int> | v=<key>
 *                            (the value object of that record: what get returned) | k=<key> (its stored key object, read as a value).
 *                            k= / v= of an unbound key name no object: `bad-op`, nothing is called.  An object read as the other type goes
 *                            through the cast (ValueError) — kinds whose key and value types are the same: I (looked up), W (`bad-op`: the op
 *                            file cannot say what the text hashes to).
 *   newp <t> <I|S|P> k1 v1 ... kn vn [k]   tables[t] = new(Table, K, V, k1, v1, ...)  (a trailing single token: odd count, FormatError)
 *   assignm <t> <I|S|P> k1 v1 ... kn vn    assign(tables[t], m) for a map m that is not a Table: a probe type (Len, Iter, Get with key_type/val_type)
 *                            whose foreach yields the keys in the order given and whose get answers the value paired with the key object (n <= 30)
 *   ideal <a> <b>            Table_Ideal_Size on [a,b)
 *   mark <t>                 mark(tables[t], gc, f) with a recording f (what a collection that reaches the table is told): `O mark n=<calls>
 *                            cs=<checksum> <slot>.k:<key> <slot>.v:<val> ...` — every reported pointer is classified by its address (record, key or
 *                            value object); oracle: every bound key object exactly once, followed by the value object of the same record, nothing
 *                            from an empty record or from outside the array
 *   hash <t>                 hash(tables[t]) (Table_Hash); printed for tables whose values are Int (kinds I S Q; `n/a` otherwise: the driver has no
 *                            hash of a String / PVal value); oracle: xor over the map's bindings of hash(key) ^ hash(value) (kinds I S Q V W)
 * After every op: `O <op> [result] | <nslots> <nitems> | <slots>` — every slot `idx:storedhash:key:val` when nslots <= 200, else a
 * 32-slot window starting 4 slots before the key's home, plus `cs=` (checksum of the whole slot array) whenever nslots changed.
 * Direct oracle: a separate map per table kept here (chained buckets over an unrelated string hash), compared through the public
 * interface (len/get/mem/foreach/KeyError) + white-box invariants of the slot array.  Failures: `X sig=table-... line=<n> what=...`. */
#include "common.h"
#include <inttypes.h>
#include <errno.h>

#define NT 8
#define FULL 200
#define WIN 32
#define ITERMAX 100
#define MAXW 72
#define MAXPAIRS 32

enum { KI, KS, KP, KV, KW, KJ, KQ, NKIND };
enum { CINT, CSTR, CPROBE, CQ };          /* key / value classes */
static const char KINDCH[] = "ISPVWJQ";
static int kcls(int kind) { return kind == KS || kind == KW ? CSTR : kind == KP ? CPROBE : kind == KQ ? CQ : CINT; }
static int vcls(int kind) { return kind == KV || kind == KW ? CSTR : kind == KP || kind == KJ ? CPROBE : CINT; }
static int kind_of_char(char c) { const char* p = c ? strchr(KINDCH, c) : NULL; return p ? (int)(p - KINDCH) : -1; }

/* ------------------------------------------------------------------ probe element types (own Assign / destructor / Cmp / Hash) */
struct PKey { int64_t id; uint64_t hash; char* tok; };
struct PVal { int64_t v; char* tok; };
static long probe_live = 0, probe_double = 0;

static void PKey_Assign(var self, var obj) {
  struct PKey* a = self; struct PKey* b = obj;
  a->id = b->id; a->hash = b->hash;
  if (!a->tok) { a->tok = malloc(1); probe_live++; }
}
static void PKey_Del(var self) {
  struct PKey* a = self;
  if (a->tok) { free(a->tok); a->tok = NULL; probe_live--; } else probe_double++;
}
static int PKey_Cmp(var self, var obj) {
  struct PKey* a = self; struct PKey* b = obj;
  return a->id < b->id ? -1 : a->id > b->id ? 1 : 0;
}
static uint64_t PKey_Hash(var self) { return ((struct PKey*)self)->hash; }
static void PVal_Assign(var self, var obj) {
  struct PVal* a = self; struct PVal* b = obj;
  a->v = b->v;
  if (!a->tok) { a->tok = malloc(1); probe_live++; }
}
static void PVal_Del(var self) {
  struct PVal* a = self;
  if (a->tok) { free(a->tok); a->tok = NULL; probe_live--; } else probe_double++;
}
static void Probe_New(var self, var args) { }
/* a key type whose size is not a multiple of 8 (12 bytes -> Table_Size_Round 16); the hash is (uint32) h */
struct QKey { int32_t id; uint32_t h; int32_t pad; };
static void QKey_Assign(var self, var obj) { struct QKey* a = self; struct QKey* b = obj; a->id = b->id; a->h = b->h; a->pad = 0x5a5a5a5a; }
static int QKey_Cmp(var self, var obj) { struct QKey* a = self; struct QKey* b = obj; return a->id < b->id ? -1 : a->id > b->id ? 1 : 0; }
static uint64_t QKey_Hash(var self) { return ((struct QKey*)self)->h; }
var QKey = Cello(QKey, Instance(New, Probe_New, NULL), Instance(Assign, QKey_Assign), Instance(Cmp, QKey_Cmp), Instance(Hash, QKey_Hash));
var PKey = Cello(PKey, Instance(New, Probe_New, PKey_Del), Instance(Assign, PKey_Assign), Instance(Cmp, PKey_Cmp), Instance(Hash, PKey_Hash));
var PVal = Cello(PVal, Instance(New, Probe_New, PVal_Del), Instance(Assign, PVal_Assign));

/* a map that is not a Table: pairs in a fixed order (source of `assign(table, m)`) */
struct PMap { var kt; var vt; size_t n; var* ks; var* vs; };
static size_t PMap_Len(var self) { return ((struct PMap*)self)->n; }
static var PMap_Iter_Init(var self) { struct PMap* m = self; return m->n ? m->ks[0] : Terminal; }
static var PMap_Iter_Next(var self, var cur) {
  struct PMap* m = self;
  for (size_t i = 0; i < m->n; i++) if (m->ks[i] == cur) return i + 1 < m->n ? m->ks[i + 1] : Terminal;
  return Terminal;
}
static var PMap_Iter_Type(var self) { return ((struct PMap*)self)->kt; }
static var PMap_Get(var self, var key) {
  struct PMap* m = self;
  for (size_t i = 0; i < m->n; i++) if (m->ks[i] == key) return m->vs[i];
  for (size_t i = 0; i < m->n; i++) if (eq(m->ks[i], key)) return m->vs[i];
  return throw(KeyError, "Key %$ not in PMap!", key);
}
static var PMap_Key_Type(var self) { return ((struct PMap*)self)->kt; }
static var PMap_Val_Type(var self) { return ((struct PMap*)self)->vt; }
var PMap = Cello(PMap, Instance(Len, PMap_Len), Instance(Iter, PMap_Iter_Init, PMap_Iter_Next, NULL, NULL, PMap_Iter_Type),
  Instance(Get, PMap_Get, NULL, NULL, NULL, PMap_Key_Type, PMap_Val_Type));

/* ------------------------------------------------------------------ oracle: one map per table variable */
typedef struct ONode { char name[40]; uint64_t hash; int64_t val; uint64_t stamp; struct ONode* next; } ONode;
#define NB 65536
typedef struct { ONode** b; size_t count; } OMap;
static OMap omap[NT];
static uint64_t epoch = 0;

static uint64_t strh(const char* s) { uint64_t h = 1469598103934665603ULL; while (*s) { h ^= (unsigned char)*s++; h *= 1099511628211ULL; } return h ^ (h >> 29); }
static void map_init(OMap* m) { if (!m->b) m->b = calloc(NB, sizeof(ONode*)); }
static void map_clear(OMap* m) {
  map_init(m);
  for (size_t i = 0; i < NB; i++) { ONode* n = m->b[i]; while (n) { ONode* x = n->next; free(n); n = x; } m->b[i] = NULL; }
  m->count = 0;
}
static ONode* map_find(OMap* m, const char* name) {
  map_init(m);
  for (ONode* n = m->b[strh(name) % NB]; n; n = n->next) if (strcmp(n->name, name) == 0) return n;
  return NULL;
}
static void map_set(OMap* m, const char* name, uint64_t hash, int64_t val) {
  ONode* n = map_find(m, name);
  if (n) { n->val = val; n->hash = hash; return; }
  n = calloc(1, sizeof(ONode)); snprintf(n->name, sizeof n->name, "%s", name); n->hash = hash; n->val = val;
  size_t b = strh(name) % NB; n->next = m->b[b]; m->b[b] = n; m->count++;
}
static int map_rem(OMap* m, const char* name) {
  map_init(m);
  ONode** p = &m->b[strh(name) % NB];
  while (*p) { if (strcmp((*p)->name, name) == 0) { ONode* x = *p; *p = x->next; free(x); m->count--; return 1; } p = &(*p)->next; }
  return 0;
}
static void map_copy(OMap* dst, OMap* src) {
  if (dst == src) return;
  map_clear(dst); map_init(src);
  for (size_t i = 0; i < NB; i++) for (ONode* n = src->b[i]; n; n = n->next) map_set(dst, n->name, n->hash, n->val);
}

/* one hash per key name and kind (a hash *function*): same rule as the Lean driver */
static OMap seen;
static int seen_ok(int kind, const char* name, uint64_t hash) {
  char tag[48]; snprintf(tag, sizeof tag, "%c%s", kcls(kind) == CINT ? 'I' : kcls(kind) == CSTR ? 'S' : kcls(kind) == CPROBE ? 'P' : 'Q', name);
  ONode* n = map_find(&seen, tag);
  if (n) return n->hash == hash;
  map_set(&seen, tag, hash, 0); return 1;
}

/* ------------------------------------------------------------------ white-box access */
static int kinds[NT]; static int managed[NT];
static size_t cur_line = 0;

/* String key text <-> bytes: plain = [0-9A-Za-z_]; every other non-zero byte is `~hh`; the escape is required for exactly those */
static int plain_byte(unsigned char c) { return (c >= '0' && c <= '9') || (c >= 'a' && c <= 'z') || (c >= 'A' && c <= 'Z') || c == '_'; }
static int lhex(char c) { return c >= '0' && c <= '9' ? c - '0' : c >= 'a' && c <= 'f' ? c - 'a' + 10 : -1; }
static void encode_name(const char* raw, char* out, size_t n) {
  size_t o = 0;
  for (const unsigned char* p = (const unsigned char*)raw; *p; p++) {
    if (plain_byte(*p)) { if (o + 2 > n) break; out[o++] = (char)*p; }
    else { if (o + 4 > n) break; snprintf(out + o, 4, "~%02x", (unsigned)*p); o += 3; }
  }
  out[o < n ? o : n - 1] = 0;
}
/* -> number of bytes, or -1 when `txt` is not a well-formed key text */
static int decode_name(const char* txt, size_t len, char* raw, size_t n) {
  size_t o = 0;
  for (size_t i = 0; i < len; ) {
    if (o + 1 >= n) return -1;
    if (txt[i] == '~') {
      if (i + 2 >= len) return -1;
      int a = lhex(txt[i + 1]), b = lhex(txt[i + 2]);
      if (a < 0 || b < 0) return -1;
      int v = a * 16 + b;
      if (v == 0 || plain_byte((unsigned char)v)) return -1;
      raw[o++] = (char)v; i += 3;
    } else if (plain_byte((unsigned char)txt[i])) raw[o++] = txt[i++];
    else return -1;
  }
  raw[o] = 0; return (int)o;
}
static void obj_key_name(int kind, var k, char* out, size_t n) {
  if (kcls(kind) == CINT) snprintf(out, n, "%" PRId64, (int64_t)c_int(k));
  else if (kcls(kind) == CSTR) encode_name(c_str(k), out, n);
  else if (kcls(kind) == CQ) snprintf(out, n, "%" PRId64, (int64_t)((struct QKey*)k)->id);
  else snprintf(out, n, "%" PRId64, ((struct PKey*)k)->id);
}
static void slot_key_name(struct Table* t, int kind, size_t i, char* out, size_t n) { obj_key_name(kind, Table_Key(t, i), out, n); }
static int64_t val_int(int kind, var v) {
  if (vcls(kind) == CPROBE) return ((struct PVal*)v)->v;
  if (vcls(kind) == CSTR) return (int64_t)strtoll(c_str(v), NULL, 10);
  return (int64_t)c_int(v);
}
static int64_t slot_val(struct Table* t, int kind, size_t i) { return val_int(kind, Table_Val(t, i)); }

#define FNVP 1099511628211ULL
#define FNV0 1469598103934665603ULL
static uint64_t mix(uint64_t c, uint64_t x) { return (c ^ x) * FNVP; }

static uint64_t checksum(struct Table* t, int kind) {
  uint64_t c = FNV0;
  for (size_t i = 0; i < t->nslots; i++) {
    uint64_t h = Table_Key_Hash(t, i);
    if (h) c = mix(mix(mix(mix(c, i + 1), h), hash(Table_Key(t, i))), (uint64_t)slot_val(t, kind, i));
  }
  return c;
}

static char* dbuf = NULL; static size_t dcap = 0, dlen = 0;
static void dput(const char* fmt, ...) {
  va_list va; va_start(va, fmt);
  if (dcap - dlen < 256) { dcap = dcap ? dcap * 2 : 1 << 16; dbuf = realloc(dbuf, dcap); }
  dlen += vsnprintf(dbuf + dlen, dcap - dlen, fmt, va); va_end(va);
}
static void dump_entry(struct Table* t, int kind, size_t i) {
  char nm[40]; slot_key_name(t, kind, i, nm, sizeof nm);
  dput(" %zu:%" PRIu64 ":%s:%" PRId64, i, Table_Key_Hash(t, i), nm, slot_val(t, kind, i));
}
/* canonical dump (same text as Driver/Table.lean `dump`) */
static const char* dump(struct Table* t, int kind, int have_key, uint64_t keyhash, int with_cs) {
  dlen = 0; dput("%zu %zu |", t->nslots, t->nitems);
  if (t->nslots <= FULL) {
    for (size_t i = 0; i < t->nslots; i++) if (Table_Key_Hash(t, i)) dump_entry(t, kind, i);
  } else {
    if (have_key) {
      size_t start = (keyhash % t->nslots + t->nslots - 4) % t->nslots;
      dput(" w%zu", start);
      for (size_t d = 0; d < WIN; d++) { size_t i = (start + d) % t->nslots; if (Table_Key_Hash(t, i)) dump_entry(t, kind, i); }
    }
    if (with_cs) dput(" | cs=%" PRIu64, checksum(t, kind));
  }
  return dbuf;
}

/* ------------------------------------------------------------------ key / value objects for the calls */
typedef struct { char name[40]; char raw[40]; uint64_t hash; int64_t id; } KeyTok;     /* raw: the bytes of a String key (name = its text) */

static int parse_i64(const char* s, int64_t* out) {
  if (!*s) return 0; char* e; errno = 0; long long v = strtoll(s, &e, 10);
  if (*e || errno) return 0;
  const char* p = s; if (*p == '-') p++; if (!*p) return 0; for (; *p; p++) if (*p < '0' || *p > '9') return 0;
  *out = v; return 1;
}
static int parse_u64(const char* s, uint64_t* out) {
  if (!*s) return 0; for (const char* p = s; *p; p++) if (*p < '0' || *p > '9') return 0;
  char* e; errno = 0; unsigned long long v = strtoull(s, &e, 10); if (*e || errno) return 0; *out = v; return 1;
}
static int parse_key(int kind, const char* tok, KeyTok* k) {
  memset(k, 0, sizeof *k);
  const char* colon = strchr(tok, ':');
  if (kcls(kind) == CINT) {
    if (colon) return 0;
    if (!parse_i64(tok, &k->id)) return 0;
    snprintf(k->name, sizeof k->name, "%" PRId64, k->id); k->hash = (uint64_t)k->id; return 1;
  }
  if (!colon || strchr(colon + 1, ':')) return 0;
  size_t nl = colon - tok; if (nl == 0 || nl >= 32) return 0;
  char nm[40]; memcpy(nm, tok, nl); nm[nl] = 0;
  if (!parse_u64(colon + 1, &k->hash)) return 0;
  if (kcls(kind) == CSTR) {
    if (decode_name(nm, nl, k->raw, sizeof k->raw) <= 0) return 0;
    snprintf(k->name, sizeof k->name, "%s", nm); return 1;
  }
  if (!parse_i64(nm, &k->id)) return 0;
  if (kcls(kind) == CQ && (k->id < INT32_MIN || k->id > INT32_MAX || k->hash > UINT32_MAX)) return 0;
  snprintf(k->name, sizeof k->name, "%" PRId64, k->id); return 1;
}
static char valtxt_buf[32];
static char* valtxt(int64_t v) { snprintf(valtxt_buf, sizeof valtxt_buf, "%" PRId64, v); return valtxt_buf; }
/* an argument object of seta / rema / mema / geta */
typedef struct { char form; KeyTok k; int64_t v; } RefTok;
static int parse_key(int kind, const char* tok, KeyTok* k);
static int parse_ref(int kind, const char* tok, int valpos, RefTok* r) {
  if (strlen(tok) < 3 || tok[1] != '=' || !strchr("okv", tok[0])) return 0;
  r->form = tok[0];
  if (tok[0] == 'o' && valpos) return parse_i64(tok + 2, &r->v);
  return parse_key(kind, tok + 2, &r->k);
}
#define KEYOBJ(kind, k) (kcls(kind) == CINT ? (var)$I((k).id) : kcls(kind) == CSTR ? (var)$S((k).raw) : kcls(kind) == CQ ? (var)$(QKey, (int32_t)(k).id, (uint32_t)(k).hash, 0) : (var)$(PKey, (k).id, (k).hash, NULL))
#define VALOBJ(kind, v) (vcls(kind) == CPROBE ? (var)$(PVal, (v), NULL) : vcls(kind) == CSTR ? (var)$S(valtxt(v)) : (var)$I(v))
static var ktype_of(int kind) { return kcls(kind) == CINT ? Int : kcls(kind) == CSTR ? String : kcls(kind) == CQ ? QKey : PKey; }
static var vtype_of(int kind) { return vcls(kind) == CPROBE ? PVal : vcls(kind) == CSTR ? String : Int; }

static var make_table(int kind) { return new_raw(Table, ktype_of(kind), vtype_of(kind)); }

/* ------------------------------------------------------------------ oracle checks */
static long n_full = 0, n_x = 0;
#define XF(sig, ...) do { if (++n_x <= 200) { char xb_[600]; snprintf(xb_, sizeof xb_, __VA_ARGS__); X("sig=%s line=%zu what=%s", sig, cur_line, xb_); } } while (0)

/* len, iteration, every binding through get/mem, then the white-box invariants of the slot array; O(nslots) */
static void verify(var tab, int ti) {
  struct Table* t = tab; int kind = kinds[ti]; OMap* m = &omap[ti]; map_init(m);
  n_full++;
  /* (1) public interface */
  if (len(tab) != m->count) XF("table-len", "len %zu want %zu", len(tab), m->count);
  /* public interface: foreach yields each key exactly once, get/mem agree for every binding */
  epoch++; size_t seen_n = 0;
  foreach (k in tab) {
    char nm[40]; obj_key_name(kind, k, nm, sizeof nm);
    ONode* n = map_find(m, nm); seen_n++;
    if (!n) XF("table-iter", "iteration yields key %s which is not bound", nm);
    else if (n->stamp == epoch) XF("table-iter", "iteration yields key %s twice", nm);
    else n->stamp = epoch;
    if (seen_n > m->count + t->nslots + 4) { XF("table-iter", "iteration does not end"); break; }
  }
  if (seen_n != m->count) XF("table-iter", "iteration yields %zu keys want %zu", seen_n, m->count);
  for (size_t b = 0; b < NB; b++) for (ONode* n = m->b[b]; n; n = n->next) {
    KeyTok k; memset(&k, 0, sizeof k); snprintf(k.name, sizeof k.name, "%s", n->name); k.hash = n->hash;
    if (kcls(kind) != CSTR) k.id = strtoll(n->name, NULL, 10); else decode_name(n->name, strlen(n->name), k.raw, sizeof k.raw);
    var exc; var r = NULL; V_TRY(exc, r = get(tab, KEYOBJ(kind, k)));
    if (exc) XF("table-get", "get of bound key %s raised %s", n->name, v_exc_name(exc));
    else if (val_int(kind, r) != n->val) XF("table-get", "get %s = %" PRId64 " want %" PRId64, n->name, val_int(kind, r), n->val);
    if (!mem(tab, KEYOBJ(kind, k))) XF("table-mem", "mem of bound key %s is false", n->name);
  }
  /* (2) white box */
  size_t occ = 0; epoch++;
  for (size_t i = 0; i < t->nslots; i++) {
    uint64_t h = Table_Key_Hash(t, i);
    if (!h) continue;
    occ++;
    char nm[40]; slot_key_name(t, kind, i, nm, sizeof nm);
    if (h - 1 >= t->nslots || h - 1 != hash(Table_Key(t, i)) % t->nslots) XF("table-wb-home", "slot %zu key %s stores home %" PRIu64 " but hash %% nslots = %" PRIu64, i, nm, h - 1, hash(Table_Key(t, i)) % t->nslots);
    uint64_t d = Table_Probe(t, i, h);
    if (d > 0) {
      size_t pi = (i + t->nslots - 1) % t->nslots; uint64_t ph = Table_Key_Hash(t, pi);
      if (!ph) XF("table-wb-order", "slot %zu key %s at distance %" PRIu64 " follows an empty slot", i, nm, d);
      else if (Table_Probe(t, pi, ph) + 1 < d) XF("table-wb-order", "slot %zu key %s at distance %" PRIu64 " follows an entry at distance %" PRIu64, i, nm, d, Table_Probe(t, pi, ph));
    }
    ONode* n = map_find(m, nm);
    if (!n) XF("table-wb-stray", "slot %zu holds key %s which is not bound", i, nm);
    else if (n->stamp == epoch) XF("table-wb-dup", "key %s is stored in two slots", nm);
    else { n->stamp = epoch; if (n->val != slot_val(t, kind, i)) XF("table-wb-val", "key %s stored with value %" PRId64 " want %" PRId64, nm, slot_val(t, kind, i), n->val); }
  }
  if (occ != t->nitems) XF("table-wb-count", "nitems %zu but %zu occupied slots", t->nitems, occ);
  if (t->nslots ? t->nitems >= t->nslots : t->nitems != 0) XF("table-wb-full", "nitems %zu nslots %zu: no empty slot", t->nitems, t->nslots);
}

static void probe_ledger(var* tabs) {
  long want = 0;
  for (int i = 0; i < NT; i++) want += ((kcls(kinds[i]) == CPROBE) + (vcls(kinds[i]) == CPROBE)) * (long)((struct Table*)tabs[i])->nitems;
  if (probe_live != want) XF("table-probe-live", "%ld live probe elements, tables hold %ld", probe_live, want);
  if (probe_double) { XF("table-probe-double", "%ld elements destructed twice", probe_double); probe_double = 0; }
}

/* ------------------------------------------------------------------ Table_Mark with a recording callback */
#define MARKMAX 400000
static var* mark_rec = NULL; static size_t mark_n = 0; static int mark_gc_bad = 0;
static var MARK_GC_TOKEN = (var)&mark_n;
static void mark_cb(var gc, void* p) {
  if (gc != MARK_GC_TOKEN) mark_gc_bad++;
  if (!mark_rec) mark_rec = malloc(MARKMAX * sizeof(var));
  if (mark_n < MARKMAX) mark_rec[mark_n] = p;
  mark_n++;
}
static long st_mark_calls = 0, st_mark_empty_tables = 0, st_mark_reports = 0, st_mark_skipped = 0, st_mark_wrapped = 0;
static long st_hash_calls = 0, st_hash_empty = 0, st_hash_entries = 0, st_hash_na = 0;

static void del_table(var* tabs, int i) {
  if (managed[i]) del(tabs[i]); else del_raw(tabs[i]);
  tabs[i] = NULL;
}

int main(int argc, char** argv) {
  v_init();
  if (argc < 2) { fprintf(stderr, "usage: h_table <opfile> | h_table --hashes <file>\n"); return 2; }
  if (strcmp(argv[1], "--hashes") == 0 && argc >= 3) {     /* service for the generator: real hash of each line as a String key */
    size_t n; char** ls = v_read_lines(argv[2], &n);
    for (size_t i = 0; i < n; i++) {       /* a line is a key text (`~hh` escapes); anything else is hashed as it stands */
      char raw[256]; size_t ll = strlen(ls[i]);
      if (ll >= sizeof raw || decode_name(ls[i], ll, raw, sizeof raw) < 0) printf("%" PRIu64 "\n", hash($S(ls[i])));
      else printf("%" PRIu64 "\n", hash($S(raw)));
    }
    return 0;
  }
  size_t n; char** lines = v_read_lines(argv[1], &n);
  var tabs[NT];
  for (int i = 0; i < NT; i++) { tabs[i] = make_table(KI); kinds[i] = KI; managed[i] = 0; map_clear(&omap[i]); }
  map_clear(&seen);
  size_t nops = 0, since_full[NT]; memset(since_full, 0, sizeof since_full);
  for (size_t li = 0; li < n; li++) {
    char* l = lines[li]; cur_line = li + 1;
    if (v_skippable(l)) continue;
    alarm(60);
    char buf[8192]; snprintf(buf, sizeof buf, "%s", l);
    char* w[MAXW]; int nw = 0; int toomany = 0;
    for (char* p = strtok(buf, " "); p; p = strtok(NULL, " ")) { if (nw < MAXW) w[nw++] = p; else toomany = 1; }
    if (toomany || strlen(l) >= sizeof buf) { O("bad-op"); continue; }
    if (nw == 0) continue;
    if (strcmp(w[0], "ideal") == 0) {
      uint64_t a, b;
      if (nw == 3 && parse_u64(w[1], &a) && parse_u64(w[2], &b) && a <= b && b - a <= 2000000) {
        uint64_t c = FNV0; for (uint64_t x = a; x < b; x++) c = mix(c, Table_Ideal_Size(x));
        O("ideal %" PRIu64 " %" PRIu64 " first=%zu cs=%" PRIu64, a, b, Table_Ideal_Size(a), c);
        for (uint64_t x = a; x < b; x++) if (Table_Ideal_Size(x) <= x) { XF("table-ideal", "Table_Ideal_Size(%" PRIu64 ") = %zu leaves no empty slot", x, Table_Ideal_Size(x)); break; }
      } else O("bad-op");
      continue;
    }
    if (strcmp(w[0], "gc") == 0) {
      if (nw != 1) { O("bad-op"); continue; }
      /* a collection between two operations: managed tables (newm, copy) are reached through `tabs` on this frame and marked through
         Table_Mark; nothing may change */
      nops++;
      var gexc = NULL; V_TRY(gexc, { GC_Mark(current(GC)); GC_Sweep(current(GC)); });
      O("gc %s", gexc ? v_exc_name(gexc) : "ok");
      if (gexc) XF("table-gc", "collection raised %s", v_exc_name(gexc));
      for (int i = 0; i < NT; i++) verify(tabs[i], i);
      probe_ledger(tabs);
      continue;
    }
    uint64_t tu;
    if (nw < 2 || !parse_u64(w[1], &tu) || tu >= NT) { O("bad-op"); continue; }
    int ti = (int)tu; int kind = kinds[ti]; struct Table* t = tabs[ti]; OMap* m = &omap[ti];
    const char* op = w[0];
    int is_key_op = (strcmp(op, "set") == 0 && nw == 4) || ((strcmp(op, "rem") == 0 || strcmp(op, "get") == 0 || strcmp(op, "mem") == 0 || strcmp(op, "getk") == 0 || strcmp(op, "getv") == 0) && nw == 3);
    int is_pair_op = (strcmp(op, "newp") == 0 || strcmp(op, "assignm") == 0) && nw >= 3 && strlen(w[2]) == 1 && kind_of_char(w[2][0]) >= 0;
    int is_ref_op = (strcmp(op, "seta") == 0 && nw == 4) || ((strcmp(op, "rema") == 0 || strcmp(op, "mema") == 0 || strcmp(op, "geta") == 0) && nw == 3);
    RefTok rk, rv; memset(&rk, 0, sizeof rk); memset(&rv, 0, sizeof rv);
    KeyTok k; int64_t v = 0; uint64_t un = 0, src = 0; int nk = -1;
    static KeyTok pk[MAXPAIRS + 1]; static int64_t pv[MAXPAIRS + 1]; int np = 0, odd = 0;
    if (is_key_op) {
      if (!parse_key(kind, w[2], &k)) { O("bad-op"); continue; }
      if (op[0] == 's' && !parse_i64(w[3], &v)) { O("bad-op"); continue; }
      if (!seen_ok(kind, k.name, k.hash)) { O("bad-op"); continue; }
      if (kcls(kind) == CSTR) { uint64_t rh = hash($S(k.raw)); if (rh != k.hash) { XF("table-stale-hash", "op file says hash(%s) = %" PRIu64 ", the library says %" PRIu64, k.name, k.hash, rh); k.hash = rh; } }
    } else if (is_pair_op) {
      nk = kind_of_char(w[2][0]);
      int rest = nw - 3, bad = 0; np = rest / 2; odd = rest % 2;
      if (np > MAXPAIRS - 2 || (odd && op[0] == 'a')) bad = 1;
      for (int i = 0; i < np + odd && !bad; i++) {
        if (!parse_key(nk, w[3 + 2 * i], &pk[i])) bad = 1;
        else if (i < np && !parse_i64(w[4 + 2 * i], &pv[i])) bad = 1;
      }
      if (bad) { O("bad-op"); continue; }
      for (int i = 0; i < np + odd && !bad; i++) if (!seen_ok(nk, pk[i].name, pk[i].hash)) bad = 1;
      if (bad) { O("bad-op"); continue; }
      if (kcls(nk) == CSTR) for (int i = 0; i < np + odd; i++) { uint64_t rh = hash($S(pk[i].raw)); if (rh != pk[i].hash) { XF("table-stale-hash", "op file says hash(%s) = %" PRIu64 ", the library says %" PRIu64, pk[i].name, pk[i].hash, rh); pk[i].hash = rh; } }
    } else if (is_ref_op) {
      if (!parse_ref(kind, w[2], 0, &rk) || (op[0] == 's' && !parse_ref(kind, w[3], 1, &rv))) { O("bad-op"); continue; }
      if (!seen_ok(kind, rk.k.name, rk.k.hash) || (op[0] == 's' && !(rv.form == 'o') && !seen_ok(kind, rv.k.name, rv.k.hash))) { O("bad-op"); continue; }
      /* key and value type are the same but the op file cannot say what the value's text hashes to */
      if (kind == KW && (rk.form == 'v' || (op[0] == 's' && rv.form == 'k'))) { O("bad-op"); continue; }
      if (kcls(kind) == CSTR) {
        uint64_t rh = hash($S(rk.k.raw)); if (rh != rk.k.hash) { XF("table-stale-hash", "op file says hash(%s) = %" PRIu64 ", the library says %" PRIu64, rk.k.name, rk.k.hash, rh); rk.k.hash = rh; }
        if (op[0] == 's' && rv.form != 'o') { rh = hash($S(rv.k.raw)); if (rh != rv.k.hash) { XF("table-stale-hash", "op file says hash(%s) = %" PRIu64 ", the library says %" PRIu64, rv.k.name, rv.k.hash, rh); rv.k.hash = rh; } }
      }
    } else if ((strcmp(op, "new") == 0 || strcmp(op, "newm") == 0) && nw == 3 && strlen(w[2]) == 1 && kind_of_char(w[2][0]) >= 0) { nk = kind_of_char(w[2][0]); }
    else if ((strcmp(op, "len") == 0 || strcmp(op, "iter") == 0 || strcmp(op, "riter") == 0 || strcmp(op, "check") == 0 || strcmp(op, "mark") == 0 || strcmp(op, "hash") == 0) && nw == 2) { }
    else if (strcmp(op, "resize") == 0 && nw == 3 && parse_u64(w[2], &un) && un <= 4000000) { }
    else if ((strcmp(op, "assign") == 0 || strcmp(op, "copy") == 0) && nw == 3 && parse_u64(w[2], &src) && src < NT) { }
    else { O("bad-op"); continue; }
    nops++;
    size_t nslots0 = t->nslots, nitems0 = t->nitems;
    int small0 = t->nslots <= 1300;
    uint64_t cs0 = small0 ? checksum(t, kind) : 0;
    var exc = NULL;
    if (strcmp(op, "set") == 0) {
      V_TRY(exc, set(tabs[ti], KEYOBJ(kind, k), VALOBJ(kind, v)));
      if (exc) O("set %s", v_exc_name(exc)); else O("set | %s", dump(t, kind, 1, k.hash, t->nslots != nslots0));
      if (exc) XF("table-set", "set raised %s", v_exc_name(exc));
      map_set(m, k.name, k.hash, v);
      var r = NULL; var e2; V_TRY(e2, r = get(tabs[ti], KEYOBJ(kind, k)));
      if (e2) XF("table-get", "get after set of %s raised %s", k.name, v_exc_name(e2)); else if (val_int(kind, r) != v) XF("table-get", "get after set %s = %" PRId64 " want %" PRId64, k.name, val_int(kind, r), v);
      if (len(tabs[ti]) != m->count) XF("table-len", "len %zu after set, want %zu", len(tabs[ti]), m->count);
    } else if (strcmp(op, "rem") == 0) {
      V_TRY(exc, rem(tabs[ti], KEYOBJ(kind, k)));
      O("rem %s | %s", exc ? v_exc_name(exc) : "ok", dump(t, kind, 1, k.hash, t->nslots != nslots0));
      int had = map_find(m, k.name) != NULL;
      if (had) { if (exc) XF("table-rem", "rem of bound key %s raised %s", k.name, v_exc_name(exc)); map_rem(m, k.name); }
      else {
        if (exc != KeyError) XF("table-keyerror", "rem of absent key %s: %s, want KeyError", k.name, v_exc_name(exc));
        if (t->nslots != nslots0 || t->nitems != nitems0 || (small0 && checksum(t, kind) != cs0)) XF("table-changed-on-error", "rem of absent key %s changed the table", k.name);
      }
      if (mem(tabs[ti], KEYOBJ(kind, k))) XF("table-mem", "mem %s true after rem", k.name);
      if (len(tabs[ti]) != m->count) XF("table-len", "len %zu after rem, want %zu", len(tabs[ti]), m->count);
    } else if (strcmp(op, "get") == 0) {
      var r = NULL; V_TRY(exc, r = get(tabs[ti], KEYOBJ(kind, k)));
      if (exc) O("get %s", v_exc_name(exc)); else O("get %" PRId64, val_int(kind, r));
      ONode* nd = map_find(m, k.name);
      if (nd) { if (exc) XF("table-get", "get of bound key %s raised %s", k.name, v_exc_name(exc)); else if (val_int(kind, r) != nd->val) XF("table-get", "get %s = %" PRId64 " want %" PRId64, k.name, val_int(kind, r), nd->val); }
      else if (exc != KeyError) XF("table-keyerror", "get of absent key %s: %s, want KeyError", k.name, exc ? v_exc_name(exc) : "a value");
      if (t->nslots != nslots0 || t->nitems != nitems0 || (small0 && checksum(t, kind) != cs0)) XF("table-changed-on-error", "get %s changed the table", k.name);
    } else if (strcmp(op, "getk") == 0 || strcmp(op, "getv") == 0) {
      /* the key argument lives in the table's own slot array: Table_Get's address test answers without probing only for the stored key
         object of an occupied record (fix bc940bb); the value object of a record is read like any other object */
      int viakey = op[3] == 'k';
      if (!viakey && kind == KW) { O("bad-op"); nops--; continue; }      /* String value read as a String key: the op file does not carry its hash */
      var v1 = NULL, r = NULL; V_TRY(exc, v1 = get(tabs[ti], KEYOBJ(kind, k)));
      ONode* nd = map_find(m, k.name);
      if (exc) {
        O("%s %s", op, v_exc_name(exc));
        if (nd) XF("table-get", "get of bound key %s raised %s", k.name, v_exc_name(exc)); else if (exc != KeyError) XF("table-keyerror", "get of absent key %s: %s, want KeyError", k.name, v_exc_name(exc));
      } else {
        size_t si = (size_t)(((char*)v1 - (char*)t->data) / Table_Step(t));
        var arg = viakey ? Table_Key(t, si) : v1;
        var e2 = NULL; V_TRY(e2, r = get(tabs[ti], arg));
        if (e2) O("%s %s", op, v_exc_name(e2)); else O("%s %" PRId64, op, val_int(kind, r));
        if (!nd) XF("table-keyerror", "get of absent key %s answered a value, want KeyError", k.name);
        else if (viakey) {
          if (e2) XF("table-get", "get through the stored key object of %s raised %s", k.name, v_exc_name(e2));
          else if (val_int(kind, r) != nd->val) XF("table-get", "get through the stored key object of %s = %" PRId64 " want %" PRId64, k.name, val_int(kind, r), nd->val);
        } else {
          /* what the map says about the value object read as a key: Int -> Int tables look the number up; otherwise the object is not a key (cast: ValueError) */
          char vn[40]; snprintf(vn, sizeof vn, "%" PRId64, nd->val);
          ONode* n2 = kind == KI ? map_find(m, vn) : NULL;
          if (kind != KI) { if (e2 != ValueError) XF("table-get-slot-object", "get(t, get(t, %s)): the value object is not of the key type, want ValueError, got %s", k.name, e2 ? v_exc_name(e2) : "a value"); }
          else if (!n2) { if (e2 != KeyError) XF("table-get-slot-object", "get(t, get(t, %s)): key %s is not bound, want KeyError, got %s", k.name, vn, e2 ? v_exc_name(e2) : "a value"); }
          else if (e2) XF("table-get-slot-object", "get(t, get(t, %s)): key %s is bound, got %s", k.name, vn, v_exc_name(e2));
          else if (val_int(kind, r) != n2->val) XF("table-get-slot-object", "get(t, get(t, %s)) = %" PRId64 ", the map binds %s to %" PRId64, k.name, val_int(kind, r), vn, n2->val);
        }
      }
      if (t->nslots != nslots0 || t->nitems != nitems0 || (small0 && checksum(t, kind) != cs0)) XF("table-changed-on-error", "%s %s changed the table", op, k.name);
    } else if (is_ref_op) {
      /* argument objects that may live in the table's own slot array.  Locate them first (get does not change the table). */
      var kobj = NULL, vobj = NULL; int noobj = 0;
      /* what the MAP says the objects hold: kerr/verr = the cast must refuse; kname/khash = the key value; vval = the value */
      int kerr = 0, verr = 0; char kname[40]; uint64_t khash = 0; int64_t vval = 0; KeyTok kk; memset(&kk, 0, sizeof kk);
      {
        ONode* nd = map_find(m, rk.k.name);
        if (rk.form == 'o') { kobj = NULL; snprintf(kname, sizeof kname, "%s", rk.k.name); khash = rk.k.hash; kk = rk.k; }
        else {
          var e0 = NULL, v1 = NULL; V_TRY(e0, v1 = get(tabs[ti], KEYOBJ(kind, rk.k)));
          if ((e0 != NULL) != (nd == NULL)) XF("table-get", "get of %s key %s: %s", nd ? "bound" : "absent", rk.k.name, e0 ? v_exc_name(e0) : "a value");
          if (e0 || !nd) noobj = 1;
          else {
            size_t si = (size_t)(((char*)v1 - (char*)t->data) / Table_Step(t));
            if (rk.form == 'k') { kobj = Table_Key(t, si); snprintf(kname, sizeof kname, "%s", rk.k.name); khash = rk.k.hash; kk = rk.k; }
            else {
              kobj = v1;
              if (kind == KI) { snprintf(kname, sizeof kname, "%" PRId64, nd->val); khash = (uint64_t)nd->val; kk.id = nd->val; kk.hash = khash; snprintf(kk.name, sizeof kk.name, "%s", kname); }
              else kerr = 1;
            }
          }
        }
      }
      if (op[0] == 's' && !noobj) {
        if (rv.form == 'o') { vobj = NULL; vval = rv.v; }
        else {
          ONode* nd = map_find(m, rv.k.name);
          var e0 = NULL, v1 = NULL; V_TRY(e0, v1 = get(tabs[ti], KEYOBJ(kind, rv.k)));
          if ((e0 != NULL) != (nd == NULL)) XF("table-get", "get of %s key %s: %s", nd ? "bound" : "absent", rv.k.name, e0 ? v_exc_name(e0) : "a value");
          if (e0 || !nd) noobj = 1;
          else {
            size_t si = (size_t)(((char*)v1 - (char*)t->data) / Table_Step(t));
            if (rv.form == 'v') { vobj = v1; vval = nd->val; }
            else { vobj = Table_Key(t, si); if (kind == KI) vval = rv.k.id; else verr = 1; }
          }
        }
      }
      if (noobj) { O("%s bad-op%s%s", op, op[0] == 's' || op[0] == 'r' ? " | " : "", op[0] == 's' || op[0] == 'r' ? dump(t, kind, 0, 0, 0) : ""); }
      else {
        int refuse = kerr || (op[0] == 's' && verr);
        ONode* bound = refuse ? NULL : map_find(m, kname);
        int64_t bval = bound ? bound->val : 0;
        if (op[0] == 's') {
          /* the outside objects are made here, in this frame; the in-table ones are the pointers found above */
          var ka = kobj ? kobj : KEYOBJ(kind, rk.k);
          var va = vobj ? vobj : VALOBJ(kind, rv.v);
          V_TRY(exc, set(tabs[ti], ka, va));
          t = tabs[ti];
          O("seta %s | %s", exc ? v_exc_name(exc) : "ok", dump(t, kind, !refuse, khash, t->nslots != nslots0));
          if (refuse) {
            if (exc != ValueError) XF("table-own-object", "set with an argument object of the wrong type: %s, want ValueError", exc ? v_exc_name(exc) : "no exception");
            if (t->nslots != nslots0 || t->nitems != nitems0 || (small0 && checksum(t, kind) != cs0)) XF("table-changed-on-error", "refused set changed the table");
          } else {
            if (exc) XF("table-own-object", "set(t, %s, %s) with argument objects of the table's own raised %s", w[2], w[3], v_exc_name(exc));
            map_set(m, kname, khash, vval);
            var r = NULL; var e2; V_TRY(e2, r = get(tabs[ti], KEYOBJ(kind, kk)));
            if (e2) XF("table-own-object", "get after set(t, %s, %s) of key %s raised %s", w[2], w[3], kname, v_exc_name(e2));
            else if (val_int(kind, r) != vval) XF("table-own-object", "get after set(t, %s, %s): %s -> %" PRId64 " want %" PRId64, w[2], w[3], kname, val_int(kind, r), vval);
            if (len(tabs[ti]) != m->count) XF("table-len", "len %zu after seta, want %zu", len(tabs[ti]), m->count);
          }
        } else if (op[0] == 'r') {
          var ka = kobj ? kobj : KEYOBJ(kind, rk.k);
          V_TRY(exc, rem(tabs[ti], ka));
          O("rema %s | %s", exc ? v_exc_name(exc) : "ok", dump(t, kind, !refuse, khash, t->nslots != nslots0));
          if (refuse) { if (exc != ValueError) XF("table-own-object", "rem with a value object that is not of the key type: %s, want ValueError", exc ? v_exc_name(exc) : "no exception"); }
          else if (bound) { if (exc) XF("table-own-object", "rem(t, %s) of bound key %s raised %s", w[2], kname, v_exc_name(exc)); map_rem(m, kname); }
          else if (exc != KeyError) XF("table-keyerror", "rem(t, %s) of absent key %s: %s, want KeyError", w[2], kname, exc ? v_exc_name(exc) : "no exception");
          if ((refuse || !bound) && (t->nslots != nslots0 || t->nitems != nitems0 || (small0 && checksum(t, kind) != cs0))) XF("table-changed-on-error", "refused rem changed the table");
          if (!refuse && mem(tabs[ti], KEYOBJ(kind, kk))) XF("table-mem", "mem %s true after rema", kname);
          if (len(tabs[ti]) != m->count) XF("table-len", "len %zu after rema, want %zu", len(tabs[ti]), m->count);
        } else if (op[0] == 'm') {
          var ka = kobj ? kobj : KEYOBJ(kind, rk.k);
          bool r = false; V_TRY(exc, r = mem(tabs[ti], ka));
          if (exc) O("mema %s", v_exc_name(exc)); else O("mema %d", r ? 1 : 0);
          if (refuse) { if (exc != ValueError) XF("table-own-object", "mem with a value object that is not of the key type: %s, want ValueError", exc ? v_exc_name(exc) : "an answer"); }
          else if (exc) XF("table-own-object", "mem(t, %s) raised %s", w[2], v_exc_name(exc));
          else if (r != (bound != NULL)) XF("table-own-object", "mem(t, %s) = %d, the map says %d for key %s", w[2], (int)r, bound != NULL, kname);
        } else {
          var ka = kobj ? kobj : KEYOBJ(kind, rk.k);
          var r = NULL; V_TRY(exc, r = get(tabs[ti], ka));
          if (exc) O("geta %s", v_exc_name(exc)); else O("geta %" PRId64, val_int(kind, r));
          if (refuse) { if (exc != ValueError) XF("table-get-slot-object", "get with a value object that is not of the key type: %s, want ValueError", exc ? v_exc_name(exc) : "a value"); }
          else if (bound) { if (exc) XF("table-get-slot-object", "get(t, %s): key %s is bound, got %s", w[2], kname, v_exc_name(exc)); else if (val_int(kind, r) != bval) XF("table-get-slot-object", "get(t, %s) = %" PRId64 ", the map binds %s to %" PRId64, w[2], val_int(kind, r), kname, bval); }
          else if (exc != KeyError) XF("table-get-slot-object", "get(t, %s): key %s is not bound, want KeyError, got %s", w[2], kname, exc ? v_exc_name(exc) : "a value");
        }
        if ((op[0] == 'm' || op[0] == 'g') && (t->nslots != nslots0 || t->nitems != nitems0 || (small0 && checksum(t, kind) != cs0))) XF("table-changed-on-error", "%s %s changed the table", op, w[2]);
      }
    } else if (strcmp(op, "mem") == 0) {
      bool r = false; V_TRY(exc, r = mem(tabs[ti], KEYOBJ(kind, k)));
      if (exc) O("mem %s", v_exc_name(exc)); else O("mem %d", r ? 1 : 0);
      if (exc) XF("table-mem", "mem raised %s", v_exc_name(exc)); else if (r != (map_find(m, k.name) != NULL)) XF("table-mem", "mem %s = %d want %d", k.name, (int)r, map_find(m, k.name) != NULL);
    } else if (strcmp(op, "mark") == 0) {
      /* the collector's view: Table_Mark through the public `mark`, with a callback that records the pointers */
      mark_n = 0; mark_gc_bad = 0;
      V_TRY(exc, mark(tabs[ti], MARK_GC_TOKEN, mark_cb));
      st_mark_calls++; if (t->nslots == 0) st_mark_empty_tables++;
      if (exc) { O("mark %s", v_exc_name(exc)); XF("table-mark", "mark raised %s", v_exc_name(exc)); }
      else {
        size_t step = Table_Step(t), koff = sizeof(uint64_t) + sizeof(struct Header), voff = koff + t->ksize + sizeof(struct Header);
        uint64_t c = FNV0; dlen = 0; dput("%s", ""); epoch++;
        size_t shown = 0; long last_key_slot = -1; size_t nrec = mark_n < MARKMAX ? mark_n : MARKMAX;
        if (mark_gc_bad) XF("table-mark", "the callback was given another gc argument %d times", mark_gc_bad);
        for (size_t r = 0; r < nrec; r++) {
          char* p = mark_rec[r];
          if (!t->data || p < (char*)t->data || p >= (char*)t->data + t->nslots * step) {
            c = mix(c, 0); if (shown++ < ITERMAX) dput(" ?"); XF("table-mark", "call %zu reports an address outside the slot array", r); last_key_slot = -1; continue;
          }
          size_t i = (size_t)(p - (char*)t->data) / step, off = (size_t)(p - (char*)t->data) % step;
          int part = off == koff ? 1 : off == voff ? 2 : 0;
          if (!part) { c = mix(c, 0); if (shown++ < ITERMAX) dput(" %zu.?", i); XF("table-mark", "call %zu reports offset %zu of record %zu: neither its key nor its value object", r, off, i); last_key_slot = -1; continue; }
          if (!Table_Key_Hash(t, i)) { c = mix(c, 0); if (shown++ < ITERMAX) dput(" %zu.%c:empty", i, part == 1 ? 'k' : 'v'); XF("table-mark", "call %zu reports the %s object of the EMPTY record %zu (zeroed memory)", r, part == 1 ? "key" : "value", i); last_key_slot = -1; continue; }
          char nm[40]; slot_key_name(t, kind, i, nm, sizeof nm);
          if (part == 1) {
            c = mix(mix(mix(c, i + 1), 1), hash(Table_Key(t, i)));
            if (shown++ < ITERMAX) dput(" %zu.k:%s", i, nm);
            ONode* nd = map_find(m, nm);
            if (!nd) XF("table-mark", "key %s is reported but not bound", nm);
            else if (nd->stamp == epoch) XF("table-mark", "key object %s is reported twice", nm);
            else nd->stamp = epoch;
            last_key_slot = (long)i; st_mark_reports++;
          } else {
            int64_t vv = slot_val(t, kind, i);
            c = mix(mix(mix(c, i + 1), 2), (uint64_t)vv);
            if (shown++ < ITERMAX) dput(" %zu.v:%" PRId64, i, vv);
            if (last_key_slot != (long)i) XF("table-mark", "value object of record %zu is reported without its key object just before", i);
            ONode* nd = map_find(m, nm);
            if (nd && nd->val != vv) XF("table-mark", "value object reported for %s holds %" PRId64 " want %" PRId64, nm, vv, nd->val);
            last_key_slot = -1; st_mark_reports++;
          }
        }
        O("mark n=%zu cs=%" PRIu64 "%s", mark_n, c, dbuf);
        if (mark_n != 2 * m->count) XF("table-mark", "%zu objects reported, the table binds %zu keys (want %zu)", mark_n, m->count, 2 * m->count);
        else for (size_t b = 0; b < NB; b++) for (ONode* nd = m->b[b]; nd; nd = nd->next) if (nd->stamp != epoch) { XF("table-mark", "bound key %s is not reported to the collector", nd->name); break; }
        st_mark_skipped += (long)(t->nslots - t->nitems);
        if (t->nslots && Table_Key_Hash(t, 0) && Table_Probe(t, 0, Table_Key_Hash(t, 0)) > 0) st_mark_wrapped++;
      }
      if (t->nslots != nslots0 || t->nitems != nitems0 || (small0 && checksum(t, kind) != cs0)) XF("table-changed-on-error", "mark changed the table");
    } else if (strcmp(op, "hash") == 0) {
      st_hash_calls++;
      if (vcls(kind) == CPROBE) { O("hash n/a"); st_hash_na++; }      /* PVal has no Hash instance: hash_data over a struct with a pointer in it */
      else {
        uint64_t h = 0; V_TRY(exc, h = hash(tabs[ti]));
        if (exc) { O("hash %s", v_exc_name(exc)); XF("table-hash", "hash raised %s", v_exc_name(exc)); }
        else {
          if (vcls(kind) == CINT) O("hash %" PRIu64, h); else { O("hash n/a"); st_hash_na++; }
          uint64_t want = 0;
          for (size_t b = 0; b < NB; b++) for (ONode* nd = m->b[b]; nd; nd = nd->next)
            want ^= nd->hash ^ (vcls(kind) == CINT ? (uint64_t)nd->val : hash($S(valtxt(nd->val))));
          if (h != want) XF("table-hash", "hash(t) = %" PRIu64 ", the xor over the %zu bindings of hash(key) ^ hash(value) is %" PRIu64, h, m->count, want);
          if (m->count == 0) st_hash_empty++; st_hash_entries += (long)m->count;
        }
      }
      if (t->nslots != nslots0 || t->nitems != nitems0 || (small0 && checksum(t, kind) != cs0)) XF("table-changed-on-error", "hash changed the table");
    } else if (strcmp(op, "len") == 0) {
      O("len %zu", len(tabs[ti]));
      if (len(tabs[ti]) != m->count) XF("table-len", "len %zu want %zu", len(tabs[ti]), m->count);
    } else if (strcmp(op, "check") == 0) {
      O("check %zu %zu cs=%" PRIu64, t->nslots, t->nitems, checksum(t, kind));
      verify(tabs[ti], ti); since_full[ti] = 0;
    } else if (strcmp(op, "iter") == 0 || strcmp(op, "riter") == 0) {
      int fwd = op[0] == 'i'; uint64_t c = FNV0; size_t cnt = 0; dlen = 0; dput("%s", "");
      epoch++;
      var cur = fwd ? iter_init(tabs[ti]) : iter_last(tabs[ti]);
      while (cur != Terminal) {
        char nm[40]; obj_key_name(kind, cur, nm, sizeof nm);
        int64_t vv = val_int(kind, get(tabs[ti], cur));
        c = mix(mix(c, hash(cur)), (uint64_t)vv);
        if (cnt < ITERMAX) dput(" %s:%" PRId64, nm, vv);
        ONode* nd = map_find(m, nm);
        if (!nd) XF("table-iter", "iteration yields key %s which is not bound", nm);
        else if (nd->stamp == epoch) XF("table-iter", "iteration yields key %s twice", nm);
        else { nd->stamp = epoch; if (nd->val != vv) XF("table-iter", "iteration: %s -> %" PRId64 " want %" PRId64, nm, vv, nd->val); }
        cnt++;
        if (cnt > t->nslots + 4) { XF("table-iter", "iteration does not end"); break; }
        cur = fwd ? iter_next(tabs[ti], cur) : iter_prev(tabs[ti], cur);
      }
      O("%s n=%zu cs=%" PRIu64 "%s", op, cnt, c, dbuf);
      if (cnt != m->count) XF("table-iter", "iteration yields %zu keys want %zu", cnt, m->count);
    } else if (strcmp(op, "resize") == 0) {
      V_TRY(exc, resize(tabs[ti], un));
      O("resize %s | %s", exc ? v_exc_name(exc) : "ok", dump(t, kind, 0, 0, 1));
      if (un == 0) { if (exc) XF("table-resize", "resize 0 raised %s", v_exc_name(exc)); map_clear(m); }
      else if (un < m->count) {
        if (exc != FormatError) XF("table-resize", "resize below len: %s, want FormatError", v_exc_name(exc));
        if (t->nslots != nslots0 || t->nitems != nitems0 || (small0 && checksum(t, kind) != cs0)) XF("table-changed-on-error", "refused resize changed the table");
      } else if (exc) XF("table-resize", "resize %" PRIu64 " raised %s", un, v_exc_name(exc));
    } else if (strcmp(op, "new") == 0 || strcmp(op, "newm") == 0) {
      int mg = op[3] == 'm';
      del_table(tabs, ti); tabs[ti] = mg ? new(Table, ktype_of(nk), vtype_of(nk)) : make_table(nk); kinds[ti] = nk; managed[ti] = mg; map_clear(m); t = tabs[ti]; kind = nk;
      O("%s | %s", op, dump(t, kind, 0, 0, 1));
    } else if (strcmp(op, "assign") == 0) {
      V_TRY(exc, assign(tabs[ti], tabs[src]));
      kinds[ti] = kinds[src]; kind = kinds[ti];
      if (exc) O("assign %s", v_exc_name(exc)); else O("assign | %s", dump(t, kind, 0, 0, 1));
      if (exc) XF("table-assign", "assign raised %s", v_exc_name(exc));
      map_copy(m, &omap[src]);      /* dst == src: the map stays as it is; `verify` below compares */
    } else if (strcmp(op, "newp") == 0 || strcmp(op, "assignm") == 0) {
      /* heap key/value objects for the argument list (stack compound literals would not outlive the loop body) */
      var ko[MAXPAIRS + 1], vo[MAXPAIRS + 1];
      for (int i = 0; i < np + odd; i++) {
        if (kcls(nk) == CINT) ko[i] = new_raw(Int, $I(pk[i].id));
        else if (kcls(nk) == CSTR) ko[i] = new_raw(String, $S(pk[i].raw));
        else if (kcls(nk) == CQ) { ko[i] = alloc_raw(QKey); ((struct QKey*)ko[i])->id = (int32_t)pk[i].id; ((struct QKey*)ko[i])->h = (uint32_t)pk[i].hash; ((struct QKey*)ko[i])->pad = 0; }
        else { ko[i] = alloc_raw(PKey); ((struct PKey*)ko[i])->id = pk[i].id; ((struct PKey*)ko[i])->hash = pk[i].hash; ((struct PKey*)ko[i])->tok = NULL; }
        if (i < np) {
          if (vcls(nk) == CPROBE) { vo[i] = alloc_raw(PVal); ((struct PVal*)vo[i])->v = pv[i]; ((struct PVal*)vo[i])->tok = NULL; }
          else if (vcls(nk) == CSTR) vo[i] = new_raw(String, $S(valtxt(pv[i])));
          else vo[i] = new_raw(Int, $I(pv[i]));
        }
      }
      var kt = ktype_of(nk), vt = vtype_of(nk);
      int done = 0;
      if (op[0] == 'n') {
        var items[2 * MAXPAIRS + 4]; int ni = 0;
        items[ni++] = kt; items[ni++] = vt;
        for (int i = 0; i < np; i++) { items[ni++] = ko[i]; items[ni++] = vo[i]; }
        if (odd) items[ni++] = ko[np];
        items[ni] = Terminal;
        var o = alloc_raw(Table);
        V_TRY(exc, construct_with(o, $(Tuple, items)));
        if (exc) dealloc_raw(o);
        else { del_table(tabs, ti); tabs[ti] = o; kinds[ti] = nk; managed[ti] = 0; t = o; kind = nk; done = 1; }
        if (odd ? exc != FormatError : exc != NULL) XF("table-new", "new with %d pairs%s: %s", np, odd ? " and one more argument" : "", exc ? v_exc_name(exc) : "no FormatError");
      } else {
        var src_map = $(PMap, kt, vt, (size_t)np, ko, vo);
        V_TRY(exc, assign(tabs[ti], src_map));
        kinds[ti] = nk; kind = nk; done = !exc;
        if (exc) XF("table-assign", "assign from a map that is not a Table raised %s", v_exc_name(exc));
      }
      if (done) { map_clear(m); for (int i = 0; i < np; i++) map_set(m, pk[i].name, pk[i].hash, pv[i]); }
      for (int i = 0; i < np + odd; i++) {
        if (kcls(nk) == CPROBE || kcls(nk) == CQ) dealloc_raw(ko[i]); else del_raw(ko[i]);
        if (i < np) { if (vcls(nk) == CPROBE) dealloc_raw(vo[i]); else del_raw(vo[i]); }
      }
      O("%s %s | %s", op, exc ? v_exc_name(exc) : "ok", dump(t, kind, 0, 0, 1));
    } else { /* copy */
      var c = NULL; V_TRY(exc, c = copy(tabs[src]));
      if (exc || !c) { O("copy %s", v_exc_name(exc)); XF("table-copy", "copy raised %s", v_exc_name(exc)); }
      else {
        int sk = kinds[src];
        map_copy(m, &omap[src]);
        del_table(tabs, ti); tabs[ti] = c; kinds[ti] = sk; managed[ti] = 1; t = c; kind = sk;
        O("copy | %s", dump(t, kind, 0, 0, 1));
      }
    }
    /* full verification (O(nslots)): every op on small tables, on every rehash / assign / copy / resize / check, otherwise every max(64, nslots/4) ops */
    t = tabs[ti];
    if (strcmp(op, "check") != 0) {
      since_full[ti]++;
      if (t->nslots <= FULL || t->nslots != nslots0 || since_full[ti] >= (t->nslots / 4 > 64 ? t->nslots / 4 : 64) || op[0] == 'a' || op[0] == 'c' || op[0] == 'n' || strcmp(op, "resize") == 0) { verify(tabs[ti], ti); since_full[ti] = 0; }
    }
    probe_ledger(tabs);
  }
  alarm(0);
  for (int i = 0; i < NT; i++) { map_clear(&omap[i]); del_table(tabs, i); }
  if (probe_live != 0) { cur_line = 0; XF("table-probe-live", "%ld probe elements alive after all tables were deleted", probe_live); }
  I("ops=%zu full-verifications=%ld oracle-failures=%ld", nops, n_full, n_x);
  I("mark-calls=%ld mark-on-zero-slot-tables=%ld mark-objects-reported=%ld mark-empty-records-skipped=%ld mark-with-wrapped-cluster=%ld hash-calls=%ld hash-of-empty=%ld hash-bindings-folded=%ld hash-not-printed=%ld",
    st_mark_calls, st_mark_empty_tables, st_mark_reports, st_mark_skipped, st_mark_wrapped, st_hash_calls, st_hash_empty, st_hash_entries, st_hash_na);
  return 0;
}
