/* harness/h_iter.c — engine `iter` (C11): iteration agrees with len and get, forwards and backwards, for views too.
 *
 * op file (same grammar as lean/Driver/Iter.lean):
 *   W <expr>           build the iterable on the real library, walk it with `foreach` (iter_init / iter_next) and backwards
 *                      (iter_last / iter_prev), ask len and get(0 … len-1).  Prints
 *                        O f=[items] fe=<term|exc|fuel> b=[items] be=<…> len=<n|-> get=[values|!]     or  O construct=<Exception>
 *                      (when a walk is cut by the cap only its first 16 items are printed)
 *   V <expr>           as W, the top-level view constructed with the stack macros range(…) slice(…) reverse(…) zip(…)
 *                      enumerate(…) filter(…) map(…) of Cello.h
 *   S <n> <a> <b> <c>  slice_stack on an Array of n items: prints  O range=<start>,<stop>,<step> len=<Slice_Len>
 *   expr ::= (array v*) | (list v*) | (tuple id*) | (table s*)  s = `.` | key   — slot array written white-box
 *          | (tree S)  S = `.` | (S k S)  — nodes linked white-box | (rtree k*)  — built with set()
 *          | (range a*) | (slice E a*) | (reverse E) | (zip E*) | (enum E) | (filter E m r) | (map E a b)     a = int | `_`
 *
 * Every op runs in a forked worker (a Slice hands `Terminal` to the underlying iterable as a cursor — undefined
 * behaviour for most containers): when the worker dies (ASan / UBSan report, signal, alarm) the parent prints `O crash`
 * for that op, classifies it and starts a new worker at the next op.
 *
 * Direct oracle (independent of the Lean model): the reference item sequence is computed from the DEFINITION of every
 * node (container contents in order; Table = occupied slots in slot order; Tree = in-order; Range = start, start+step, …
 * below stop, for a negative step stop-1, stop-1+step, … not below start; Slice = the elements of the underlying
 * sequence at the positions of Range(start', stop', step) with start'/stop' normalised (negative = from the end) and
 * clamped to [0, n]; Zip = tuples up to the shortest input; enumerate = (i, x_i); Filter = the accepted elements;
 * Map = the images).  Checked: foreach yields exactly the reference and ends with Terminal; the backward walk yields
 * its reverse; len = its length; get(i) = its i-th element.
 * Deviations inside known-finding territory carry the KF signature, everything else a distinct one:
 *   kf-c11-tuple-dup    walk over a Tuple holding the same object twice (F13)
 *   kf-c11-slice        Slice iteration outside the parameter region in which it is right (F11) — region: slice_in_region()
 *   kf-c11-zip-back     backward walk over a Zip of inputs of unequal length (F12)
 *   c11-forward c11-backward c11-len c11-get c11-crash c11-construct   anything else */
#include "common.h"
#include <sys/mman.h>
#include <signal.h>

/* a worker that leaves the protocol is expected to die under the sanitizers: keep its report cheap (no symbolizer) */
const char* __asan_default_options(void) { return "symbolize=0:fast_unwind_on_fatal=1:print_legend=0:print_summary=0:malloc_context_size=0"; }
const char* __ubsan_default_options(void) { return "symbolize=0:fast_unwind_on_fatal=1:print_summary=0"; }

#define CAP 1000
#define SHOWN_ON_FUEL 16

/* ------------------------------------------------------------------------------------------------ expressions */
enum { K_ARRAY, K_LIST, K_TUPLE, K_TABLE, K_TREE, K_RTREE, K_RANGE, K_SLICE, K_ZIP, K_ENUM, K_FILTER, K_MAP };
typedef struct TN { struct TN *l, *r; int64_t k; } TN;
typedef struct Node {
  int kind;
  int64_t* v; int* has; size_t nv;       /* atoms; has[i] == 0: `_` / `.` */
  struct Node* kid[8]; size_t nk;
  TN* tree;
  int64_t p1, p2;
} Node;

static char** toks; static size_t ntoks, tpos;

static void tokenize(const char* s) {
  size_t cap = 64; toks = malloc(cap * sizeof(char*)); ntoks = 0; tpos = 0;
  while (*s) {
    if (*s == ' ') { s++; continue; }
    if (ntoks == cap) { cap *= 2; toks = realloc(toks, cap * sizeof(char*)); }
    if (*s == '(' || *s == ')') { char b[2] = { *s, 0 }; toks[ntoks++] = strdup(b); s++; continue; }
    const char* e = s; while (*e && *e != ' ' && *e != '(' && *e != ')') e++;
    toks[ntoks++] = strndup(s, e - s); s = e;
  }
}
static const char* peek(void) { return tpos < ntoks ? toks[tpos] : ""; }
static const char* nextt(void) { return tpos < ntoks ? toks[tpos++] : ""; }
static int is_int(const char* t) { if (*t == '-') t++; if (!*t) return 0; while (*t) { if (*t < '0' || *t > '9') return 0; t++; } return 1; }

/* atoms up to `)`; `hole` = the token that stands for "absent" (NULL: none allowed); nat: no sign allowed */
static int parse_atoms(Node* n, const char* hole, int nat) {
  size_t cap = 8; n->v = malloc(cap * sizeof(int64_t)); n->has = malloc(cap * sizeof(int)); n->nv = 0;
  for (;;) {
    const char* t = nextt();
    if (!*t) return 0;
    if (strcmp(t, ")") == 0) return 1;
    if (n->nv == cap) { cap *= 2; n->v = realloc(n->v, cap * sizeof(int64_t)); n->has = realloc(n->has, cap * sizeof(int)); }
    if (hole && strcmp(t, hole) == 0) { n->v[n->nv] = 0; n->has[n->nv++] = 0; continue; }
    if (!is_int(t) || (nat && *t == '-')) return 0;
    n->v[n->nv] = strtoll(t, NULL, 10); n->has[n->nv++] = 1;
  }
}
static int parse_tree(TN** out) {
  const char* t = nextt();
  if (strcmp(t, ".") == 0) { *out = NULL; return 1; }
  if (strcmp(t, "(") != 0) return 0;
  TN* n = calloc(1, sizeof(TN));
  if (!parse_tree(&n->l)) return 0;
  t = nextt(); if (!is_int(t)) return 0; n->k = strtoll(t, NULL, 10);
  if (!parse_tree(&n->r)) return 0;
  if (strcmp(nextt(), ")") != 0) return 0;
  *out = n; return 1;
}
static Node* parse_expr(void) {
  if (strcmp(nextt(), "(") != 0) return NULL;
  const char* h = nextt();
  Node* n = calloc(1, sizeof(Node));
  if (!strcmp(h, "array")) { n->kind = K_ARRAY; return parse_atoms(n, NULL, 0) ? n : NULL; }
  if (!strcmp(h, "list"))  { n->kind = K_LIST;  return parse_atoms(n, NULL, 0) ? n : NULL; }
  if (!strcmp(h, "tuple")) { n->kind = K_TUPLE; return parse_atoms(n, NULL, 1) ? n : NULL; }
  if (!strcmp(h, "table")) { n->kind = K_TABLE; return parse_atoms(n, ".", 0) ? n : NULL; }
  if (!strcmp(h, "rtree")) { n->kind = K_RTREE; return parse_atoms(n, NULL, 0) ? n : NULL; }
  if (!strcmp(h, "range")) { n->kind = K_RANGE; return parse_atoms(n, "_", 0) ? n : NULL; }
  if (!strcmp(h, "tree"))  { n->kind = K_TREE; if (!parse_tree(&n->tree)) return NULL; return strcmp(nextt(), ")") == 0 ? n : NULL; }
  if (!strcmp(h, "slice")) { n->kind = K_SLICE; n->kid[0] = parse_expr(); n->nk = 1; if (!n->kid[0]) return NULL; return parse_atoms(n, "_", 0) ? n : NULL; }
  if (!strcmp(h, "reverse")) {
    n->kind = K_SLICE; n->kid[0] = parse_expr(); n->nk = 1; if (!n->kid[0]) return NULL;
    if (strcmp(nextt(), ")") != 0) return NULL;
    n->v = malloc(3 * sizeof(int64_t)); n->has = malloc(3 * sizeof(int)); n->nv = 3;
    n->has[0] = 0; n->has[1] = 0; n->has[2] = 1; n->v[0] = n->v[1] = 0; n->v[2] = -1; return n;
  }
  if (!strcmp(h, "enum")) { n->kind = K_ENUM; n->kid[0] = parse_expr(); n->nk = 1; if (!n->kid[0]) return NULL; return strcmp(nextt(), ")") == 0 ? n : NULL; }
  if (!strcmp(h, "filter") || !strcmp(h, "map")) {
    n->kind = !strcmp(h, "filter") ? K_FILTER : K_MAP; n->kid[0] = parse_expr(); n->nk = 1; if (!n->kid[0]) return NULL;
    const char* a = nextt(); const char* b = nextt();
    if (!is_int(a) || !is_int(b)) return NULL;
    n->p1 = strtoll(a, NULL, 10); n->p2 = strtoll(b, NULL, 10);
    return strcmp(nextt(), ")") == 0 ? n : NULL;
  }
  if (!strcmp(h, "zip")) {
    n->kind = K_ZIP;
    while (strcmp(peek(), ")") != 0) { if (n->nk >= 8) return NULL; Node* k = parse_expr(); if (!k) return NULL; n->kid[n->nk++] = k; }
    nextt(); return n;
  }
  return NULL;
}
static Node* parse_line(const char* s) {
  tokenize(s);
  Node* n = parse_expr();
  if (n && tpos != ntoks) n = NULL;
  return n;
}

/* ------------------------------------------------------------------------------------------------ test callables */
static int64_t emod(int64_t a, int64_t m) { if (m < 0) m = -m; int64_t r = a % m; return r < 0 ? r + m : r; }

static int64_t key_of(var x) {   /* the number a test predicate / function sees: the Int, or the sum over a Tuple */
  if (type_of(x) is Int) return c_int(x);
  if (type_of(x) is Tuple) { int64_t s = 0; struct Tuple* t = x; for (size_t i = 0; t->items[i] isnt Terminal; i++) s += key_of(t->items[i]); return s; }
  return 0;
}
#define NCLOS 16
static int64_t clos_a[NCLOS], clos_b[NCLOS]; static size_t nclos_p, nclos_f;
static int64_t fclos_a[NCLOS], fclos_b[NCLOS];
static var pred_apply(size_t i, var x) { int64_t m = clos_a[i], r = clos_b[i]; return (m != 0 && emod(key_of(x), m) == r) ? x : NULL; }
static var fun_apply(size_t i, var x) { return new_raw(Int, $I(fclos_a[i] * key_of(x) + fclos_b[i])); }
#define PF(i) static var pred_##i(var x) { return pred_apply(i, x); } static var fun_##i(var x) { return fun_apply(i, x); }
PF(0) PF(1) PF(2) PF(3) PF(4) PF(5) PF(6) PF(7) PF(8) PF(9) PF(10) PF(11) PF(12) PF(13) PF(14) PF(15)
static var (*preds[NCLOS])(var) = { pred_0, pred_1, pred_2, pred_3, pred_4, pred_5, pred_6, pred_7, pred_8, pred_9, pred_10, pred_11, pred_12, pred_13, pred_14, pred_15 };
static var (*funs[NCLOS])(var) = { fun_0, fun_1, fun_2, fun_3, fun_4, fun_5, fun_6, fun_7, fun_8, fun_9, fun_10, fun_11, fun_12, fun_13, fun_14, fun_15 };

static var mkobj(var type, size_t sz) { return header_init(calloc(1, sizeof(struct Header) + sz), type, AllocHeap); }

/* ------------------------------------------------------------------------------------------------ building the real objects */
#define NIDS 4096
static var idobj[NIDS];
static var id_object(int64_t id) { if (id < 0 || id >= NIDS) id = NIDS - 1; if (!idobj[id]) idobj[id] = new_raw(Int, $I(id)); return idobj[id]; }

static var tbuild(struct Tree* m, TN* t, var parent, size_t* cnt) {
  if (!t) return NULL;
  var node = Tree_Alloc(m);
  ((struct Int*)Tree_Key(m, node))->val = t->k;
  ((struct Int*)Tree_Val(m, node))->val = t->k * 10;
  if (t->k & 1) Tree_Set_Red(m, node); else Tree_Set_Black(m, node);
  Tree_Set_Parent(m, node, parent);
  (*cnt)++;
  *Tree_Left(m, node) = tbuild(m, t->l, node, cnt);
  *Tree_Right(m, node) = tbuild(m, t->r, node, cnt);
  return node;
}

static var build(Node* n);
static var args_tuple(var first, Node* n, var* arr) {   /* (first?, atoms…) as a Tuple living in the caller's frame */
  size_t k = 0;
  if (first) arr[k++] = first;
  for (size_t i = 0; i < n->nv; i++) arr[k++] = n->has[i] ? (var)new_raw(Int, $I(n->v[i])) : _;
  arr[k] = Terminal;
  return NULL;
}

static var build(Node* n) {
  switch (n->kind) {
    case K_ARRAY: { var a = new_raw(Array, Int); for (size_t i = 0; i < n->nv; i++) push(a, $I(n->v[i])); return a; }
    case K_LIST:  { var a = new_raw(List, Int);  for (size_t i = 0; i < n->nv; i++) push(a, $I(n->v[i])); return a; }
    case K_TUPLE: {
      var t = mkobj(Tuple, sizeof(struct Tuple)); var* items = malloc((n->nv + 1) * sizeof(var));
      for (size_t i = 0; i < n->nv; i++) items[i] = id_object(n->v[i]);
      items[n->nv] = Terminal; ((struct Tuple*)t)->items = items; return t;
    }
    case K_TABLE: {
      struct Table* t = new_raw(Table, Int, Int);
      free(t->data); t->nslots = n->nv; t->nitems = 0;
      size_t step = Table_Step(t);
      t->data = n->nv ? calloc(n->nv, step) : NULL;
      for (size_t i = 0; i < n->nv; i++) if (n->has[i]) {
        char* slot = (char*)t->data + i * step;
        *(uint64_t*)slot = 1 + (uint64_t)(n->v[i] & 0xffff);
        header_init(slot + sizeof(uint64_t), Int, AllocData);
        header_init(slot + sizeof(uint64_t) + sizeof(struct Header) + t->ksize, Int, AllocData);
        ((struct Int*)Table_Key(t, i))->val = n->v[i];
        ((struct Int*)Table_Val(t, i))->val = n->v[i] * 10;
        t->nitems++;
      }
      return t;
    }
    case K_TREE: {
      struct Tree* m = new_raw(Tree, Int, Int); size_t cnt = 0;
      m->root = tbuild(m, n->tree, NULL, &cnt); m->nitems = cnt; return m;
    }
    case K_RTREE: { var m = new_raw(Tree, Int, Int); for (size_t i = 0; i < n->nv; i++) set(m, $I(n->v[i]), $I(n->v[i] * 10)); return m; }
    case K_RANGE: { var arr[16]; if (n->nv > 12) return throw(FormatError, "too many"); args_tuple(NULL, n, arr); return new_raw_with(Range, $(Tuple, arr)); }
    case K_SLICE: { var arr[16]; if (n->nv > 12) return throw(FormatError, "too many"); var e = build(n->kid[0]); args_tuple(e, n, arr); return new_raw_with(Slice, $(Tuple, arr)); }
    case K_ZIP: { var arr[16]; for (size_t i = 0; i < n->nk; i++) arr[i] = build(n->kid[i]); arr[n->nk] = Terminal; return new_raw_with(Zip, $(Tuple, arr)); }
    case K_ENUM: { var e = build(n->kid[0]); var arr[3] = { new_raw(Range), e, Terminal }; var z = new_raw_with(Zip, $(Tuple, arr)); return enumerate_stack(z); }
    case K_FILTER: {
      var e = build(n->kid[0]); if (nclos_p >= NCLOS) return throw(FormatError, "too many closures");
      clos_a[nclos_p] = n->p1; clos_b[nclos_p] = n->p2;
      struct Function* f = mkobj(Function, sizeof(struct Function)); f->func = preds[nclos_p++];
      return new_raw(Filter, e, f);
    }
    case K_MAP: {
      var e = build(n->kid[0]); if (nclos_f >= NCLOS) return throw(FormatError, "too many closures");
      fclos_a[nclos_f] = n->p1; fclos_b[nclos_f] = n->p2;
      struct Function* f = mkobj(Function, sizeof(struct Function)); f->func = funs[nclos_f++];
      return new_raw(Map, e, f);
    }
  }
  return NULL;
}

/* ------------------------------------------------------------------------------------------------ showing elements */
static size_t show_into(var x, char* b, size_t cap) {
  if (x is NULL) return snprintf(b, cap, "NULL");
  if (x is Terminal) return snprintf(b, cap, "Terminal");
  var ty = type_of(x);
  if (ty is Int) return snprintf(b, cap, "%lld", (long long)c_int(x));
  if (ty is Tuple) {
    size_t l = snprintf(b, cap, "("); struct Tuple* t = x;
    for (size_t i = 0; t->items[i] isnt Terminal && l + 32 < cap; i++) { if (i) l += snprintf(b + l, cap - l, ","); l += show_into(t->items[i], b + l, cap - l); }
    l += snprintf(b + l, cap - l, ")"); return l;
  }
  return snprintf(b, cap, "?");
}
static char* show_dup(var x) { char b[512]; show_into(x, b, sizeof b); return strdup(b); }

/* ------------------------------------------------------------------------------------------------ the reference (definition) */
typedef struct { int64_t key; char* s; } RV;
typedef struct { RV* v; size_t n; } RL;
static void rl_push(RL* l, int64_t key, const char* s) { l->v = realloc(l->v, (l->n + 1) * sizeof(RV)); l->v[l->n].key = key; l->v[l->n].s = strdup(s); l->n++; }
static void rl_int(RL* l, int64_t k) { char b[32]; snprintf(b, sizeof b, "%lld", (long long)k); rl_push(l, k, b); }

static void tn_inorder(TN* t, RL* out) { if (!t) return; tn_inorder(t->l, out); rl_int(out, t->k); tn_inorder(t->r, out); }
static int cmp_i64(const void* a, const void* b) { int64_t x = *(const int64_t*)a, y = *(const int64_t*)b; return x < y ? -1 : x > y; }

/* Range by definition: step>0: start, start+step, … < stop;  step<0: stop-1, stop-1+step, … >= start;  step 0: nothing */
static size_t range_positions(int64_t a, int64_t b, int64_t c, int64_t* out, size_t cap) {
  size_t k = 0;
  if (c > 0) for (int64_t p = a; p < b && k < cap; p += c) out[k++] = p;
  if (c < 0) for (int64_t p = b - 1; p >= a && k < cap; p += c) out[k++] = p;
  return k;
}
static int64_t clamp_intended(int64_t a, int64_t n) { if (a < 0) a += n; if (a < 0) a = 0; if (a > n) a = n; return a; }
static void slice_params(Node* n, int64_t len, int64_t* a, int64_t* b, int64_t* c) {   /* slice_stack by its documentation */
  *a = 0; *b = len; *c = 1;
  if (n->nv == 1) { if (n->has[0]) *b = clamp_intended(n->v[0], len); }
  if (n->nv >= 2) { if (n->has[0]) *a = clamp_intended(n->v[0], len); if (n->has[1]) *b = clamp_intended(n->v[1], len); }
  if (n->nv >= 3) { if (n->has[2]) *c = n->v[2]; }
}
static int range_params(Node* n, int64_t* a, int64_t* b, int64_t* c) {
  *a = 0; *b = 0; *c = 1;
  if (n->nv == 0) return 1;
  if (n->nv == 1) { *b = n->v[0]; return n->has[0]; }
  if (n->nv == 2) { if (n->has[0]) *a = n->v[0]; *b = n->v[1]; return n->has[1]; }
  if (n->nv == 3) { if (n->has[0]) *a = n->v[0]; *b = n->v[1]; if (n->has[2]) *c = n->v[2]; return n->has[1]; }
  return 0;
}

static RL ref_of(Node* n) {
  RL out = { NULL, 0 };
  switch (n->kind) {
    case K_ARRAY: case K_LIST: case K_TUPLE: for (size_t i = 0; i < n->nv; i++) rl_int(&out, n->v[i]); break;
    case K_TABLE: for (size_t i = 0; i < n->nv; i++) if (n->has[i]) rl_int(&out, n->v[i]); break;
    case K_TREE: tn_inorder(n->tree, &out); break;
    case K_RTREE: {
      int64_t* s = malloc((n->nv + 1) * sizeof(int64_t)); memcpy(s, n->v, n->nv * sizeof(int64_t)); qsort(s, n->nv, sizeof(int64_t), cmp_i64);
      /* Tree_Set keeps the GREATER key in the left subtree (cmp(node, key) < 0 -> left): left-to-right order is descending */
      for (size_t i = n->nv; i-- > 0; ) if (i + 1 == n->nv || s[i] != s[i+1]) rl_int(&out, s[i]);
      free(s); break;
    }
    case K_RANGE: {
      int64_t a, b, c; range_params(n, &a, &b, &c);
      static int64_t pos[CAP + 8]; size_t k = range_positions(a, b, c, pos, CAP + 4);
      for (size_t i = 0; i < k; i++) rl_int(&out, pos[i]); break;
    }
    case K_SLICE: {
      RL u = ref_of(n->kid[0]); int64_t a, b, c; slice_params(n, (int64_t)u.n, &a, &b, &c);
      static int64_t pos[CAP + 8]; size_t k = range_positions(a, b, c, pos, CAP + 4);
      for (size_t i = 0; i < k; i++) if (pos[i] >= 0 && (size_t)pos[i] < u.n) rl_push(&out, u.v[pos[i]].key, u.v[pos[i]].s);
      break;
    }
    case K_ZIP: case K_ENUM: {
      RL inp[9]; size_t m = 0, shortest = (size_t)-1;
      if (n->kind == K_ENUM) { RL u = ref_of(n->kid[0]); RL r = { NULL, 0 }; for (size_t i = 0; i < u.n; i++) rl_int(&r, (int64_t)i); inp[0] = r; inp[1] = u; m = 2; }
      else for (size_t i = 0; i < n->nk; i++) inp[m++] = ref_of(n->kid[i]);
      for (size_t i = 0; i < m; i++) if (inp[i].n < shortest) shortest = inp[i].n;
      if (m == 0) shortest = 0;
      for (size_t j = 0; j < shortest; j++) {
        char b[512]; size_t l = snprintf(b, sizeof b, "("); int64_t key = 0;
        for (size_t i = 0; i < m; i++) { l += snprintf(b + l, sizeof b - l, "%s%s", i ? "," : "", inp[i].v[j].s); key += inp[i].v[j].key; }
        snprintf(b + l, sizeof b - l, ")"); rl_push(&out, key, b);
      }
      break;
    }
    case K_FILTER: { RL u = ref_of(n->kid[0]); for (size_t i = 0; i < u.n; i++) if (n->p1 != 0 && emod(u.v[i].key, n->p1) == n->p2) rl_push(&out, u.v[i].key, u.v[i].s); break; }
    case K_MAP: { RL u = ref_of(n->kid[0]); for (size_t i = 0; i < u.n; i++) rl_int(&out, n->p1 * u.v[i].key + n->p2); break; }
  }
  return out;
}
/* which types implement Len / a positional Get (by the Instance lists of the sources) */
static int def_has_len(Node* n) {
  switch (n->kind) {
    case K_FILTER: return 0;
    case K_MAP: case K_ENUM: case K_SLICE: return def_has_len(n->kid[0]);
    case K_ZIP: for (size_t i = 0; i < n->nk; i++) if (!def_has_len(n->kid[i])) return 0; return 1;
    default: return 1;
  }
}
static int def_has_get(Node* n) {
  switch (n->kind) {
    case K_FILTER: case K_TABLE: case K_TREE: case K_RTREE: return 0;
    case K_MAP: case K_ENUM: case K_SLICE: return def_has_get(n->kid[0]);
    case K_ZIP: for (size_t i = 0; i < n->nk; i++) if (!def_has_get(n->kid[i])) return 0; return 1;
    default: return 1;
  }
}

/* ------------------------------------------------------------------------------------------------ known-finding territory */
static int has_dup_tuple(Node* n) {
  if (n->kind == K_TUPLE) for (size_t i = 0; i < n->nv; i++) for (size_t j = 0; j < i; j++) if (n->v[i] == n->v[j]) return 1;
  for (size_t i = 0; i < n->nk; i++) if (has_dup_tuple(n->kid[i])) return 1;
  return 0;
}
/* the parameter region in which Slice iteration is right in BOTH directions for every underlying iterable
   (theorem C11_slice_partial; a, b already clamped to [0, n]) */
static int slice_in_region(int64_t n, int64_t a, int64_t b, int64_t c) {
  if (c == 0) return 1;
  if (c > 0) {
    int fwd = (a == n) || ((n - a) % c == 0 && n - c < b);
    int bwd = (b == 0) || (b % c == 0 && a == c - 1);
    return fwd && bwd;
  } else {
    int64_t k = -c;
    int fwd = (b == 0) || (b % k == 0 && a <= k - 1);
    int bwd = (a == n) || ((n - a) % k == 0 && b == n - k + 1);
    return fwd && bwd;
  }
}
static int slice_territory(Node* n) {
  if (n->kind == K_SLICE) {
    int64_t len = (int64_t)ref_of(n->kid[0]).n, a, b, c; slice_params(n, len, &a, &b, &c);
    if (!slice_in_region(len, a, b, c)) return 1;
  }
  for (size_t i = 0; i < n->nk; i++) if (slice_territory(n->kid[i])) return 1;
  return 0;
}
/* a Zip of inputs of unequal length; under_slice: only those below a Slice (whose forward walk may step the Zip backwards) */
static int zip_unequal_in(Node* n, int need_slice, int under_slice) {
  if (n->kind == K_ZIP && n->nk >= 2 && (!need_slice || under_slice)) { size_t l0 = ref_of(n->kid[0]).n; for (size_t i = 1; i < n->nk; i++) if (ref_of(n->kid[i]).n != l0) return 1; }
  for (size_t i = 0; i < n->nk; i++) if (zip_unequal_in(n->kid[i], need_slice, under_slice || n->kind == K_SLICE)) return 1;
  return 0;
}
enum { A_FWD, A_BWD, A_LEN, A_GET, A_CRASH, A_CONSTRUCT };
static const char* sig_for(Node* n, int aspect) {
  int walk = aspect == A_FWD || aspect == A_BWD || aspect == A_CRASH;
  if (walk && has_dup_tuple(n)) return "kf-c11-tuple-dup";
  if (walk && slice_territory(n)) return "kf-c11-slice";
  if (aspect == A_BWD && zip_unequal_in(n, 0, 0)) return "kf-c11-zip-back";
  if (walk && zip_unequal_in(n, 1, 0)) return "kf-c11-zip-back";
  switch (aspect) { case A_FWD: return "c11-forward"; case A_BWD: return "c11-backward"; case A_LEN: return "c11-len";
                    case A_GET: return "c11-get"; case A_CRASH: return "c11-crash"; default: return "c11-construct"; }
}

/* ------------------------------------------------------------------------------------------------ walking */
static char* got[CAP + 1]; static size_t ngot; static const char* gend;
static void do_fwd(var obj) {
  ngot = 0; gend = "term";
  foreach (x in obj) { got[ngot++] = show_dup(x); if (ngot >= CAP) { gend = "fuel"; break; } }
}
static void do_bwd(var obj) {
  ngot = 0; gend = "term";
  var x = iter_last(obj);
  while (x isnt Terminal) { got[ngot++] = show_dup(x); if (ngot >= CAP) { gend = "fuel"; break; } x = iter_prev(obj, x); }
}
static size_t glen; static int glen_ok;
static void do_len(var obj) { glen = len(obj); glen_ok = 1; }
static var gitem;
static void do_get(var obj, size_t i) { gitem = get(obj, $I((int64_t)i)); }

static char line[1 << 17]; static size_t ll;
#define LP(...) do { if (ll < sizeof line - 600) ll += snprintf(line + ll, sizeof line - ll, __VA_ARGS__); } while (0)
static void print_items(void) {
  size_t shown = (!strcmp(gend, "fuel") && ngot > SHOWN_ON_FUEL) ? SHOWN_ON_FUEL : ngot;
  LP("["); for (size_t i = 0; i < shown; i++) LP("%s%s", i ? " " : "", got[i]); LP("]");
}

static size_t st_ops, st_items, st_dev, st_kf;
static void deviation(Node* n, int aspect, size_t lineno, const char* what) {
  const char* sig = sig_for(n, aspect);
  st_dev++; if (!strncmp(sig, "kf-", 3)) st_kf++;
  X("sig=%s line=%zu what=%s", sig, lineno, what);
}

static void walk_obj(Node* n, var obj, size_t lineno);

static void op_walk(Node* n, size_t lineno) {
  nclos_p = nclos_f = 0;
  var exc; volatile var obj = NULL;
  V_TRY(exc, obj = build(n));
  if (exc) { O("construct=%s", v_exc_name(exc)); return; }   /* construction failures are compared with the model only */
  walk_obj(n, obj, lineno);
}

/* `V <expr>`: as `W`, but the TOP-LEVEL view is constructed with the stack macros of Cello.h (range / slice / reverse /
   zip / enumerate / filter / map), which go through range_stack, slice_stack, zip_stack, enumerate_stack and `$(T, …)`
   instead of the New instances; the object lives in this frame while it is walked. */
static var A_(Node* n, size_t i) { return n->has[i] ? (var)new_raw(Int, $I(n->v[i])) : _; }
static void op_walk_macro_inner(Node* n, size_t lineno) {
  var k[8] = {0};
  for (size_t i = 0; i < n->nk; i++) k[i] = build(n->kid[i]);
  switch (n->kind) {
    case K_RANGE:
      switch (n->nv) {
        case 0: walk_obj(n, range(), lineno); return;
        case 1: walk_obj(n, range(A_(n, 0)), lineno); return;
        case 2: walk_obj(n, range(A_(n, 0), A_(n, 1)), lineno); return;
        case 3: walk_obj(n, range(A_(n, 0), A_(n, 1), A_(n, 2)), lineno); return;
        default: walk_obj(n, range(A_(n, 0), A_(n, 1), A_(n, 2), A_(n, 3)), lineno); return;
      }
    case K_SLICE:
      if (n->nv == 3 && !n->has[0] && !n->has[1] && n->has[2] && n->v[2] == -1) { walk_obj(n, reverse(k[0]), lineno); return; }
      switch (n->nv) {
        case 0: walk_obj(n, slice(k[0]), lineno); return;
        case 1: walk_obj(n, slice(k[0], A_(n, 0)), lineno); return;
        case 2: walk_obj(n, slice(k[0], A_(n, 0), A_(n, 1)), lineno); return;
        case 3: walk_obj(n, slice(k[0], A_(n, 0), A_(n, 1), A_(n, 2)), lineno); return;
        default: walk_obj(n, slice(k[0], A_(n, 0), A_(n, 1), A_(n, 2), A_(n, 3)), lineno); return;
      }
    case K_ZIP:
      switch (n->nk) {
        case 1: walk_obj(n, zip(k[0]), lineno); return;
        case 2: walk_obj(n, zip(k[0], k[1]), lineno); return;
        case 3: walk_obj(n, zip(k[0], k[1], k[2]), lineno); return;
        case 4: walk_obj(n, zip(k[0], k[1], k[2], k[3]), lineno); return;
        default: walk_obj(n, build(n), lineno); return;
      }
    case K_ENUM: walk_obj(n, enumerate(k[0]), lineno); return;
    case K_FILTER: {
      clos_a[nclos_p] = n->p1; clos_b[nclos_p] = n->p2;
      var (*f)(var) = preds[nclos_p++];
      walk_obj(n, filter(k[0], $(Function, f)), lineno); return;
    }
    case K_MAP: {
      fclos_a[nclos_f] = n->p1; fclos_b[nclos_f] = n->p2;
      var (*f)(var) = funs[nclos_f++];
      walk_obj(n, map(k[0], $(Function, f)), lineno); return;
    }
    default: walk_obj(n, build(n), lineno); return;
  }
}
static void op_walk_macro(Node* n, size_t lineno) {
  nclos_p = nclos_f = 0;
  var exc;
  V_TRY(exc, op_walk_macro_inner(n, lineno));
  if (exc) O("construct=%s", v_exc_name(exc));
}

static void walk_obj(Node* n, var obj, size_t lineno) {
  static char what[1024];
  var exc;
  RL ref = ref_of(n);
  ll = 0;
  /* forward */
  V_TRY(exc, do_fwd(obj)); if (exc) gend = "exc";
  LP("f="); print_items(); LP(" fe=%s", gend);
  st_items += ngot;
  int bad = strcmp(gend, "term") != 0 || ngot != ref.n;
  for (size_t i = 0; !bad && i < ngot; i++) if (strcmp(got[i], ref.v[i].s)) bad = 1;
  if (bad) { snprintf(what, sizeof what, "foreach yields %zu items ending %s, the definition selects %zu%s%s", ngot, gend, ref.n, ngot ? "; first got " : "", ngot ? got[0] : "");
    deviation(n, A_FWD, lineno, what); }
  for (size_t i = 0; i < ngot; i++) free(got[i]);
  /* backward */
  V_TRY(exc, do_bwd(obj)); if (exc) gend = "exc";
  LP(" b="); print_items(); LP(" be=%s", gend);
  st_items += ngot;
  bad = strcmp(gend, "term") != 0 || ngot != ref.n;
  for (size_t i = 0; !bad && i < ngot; i++) if (strcmp(got[i], ref.v[ref.n - 1 - i].s)) bad = 1;
  if (bad) { snprintf(what, sizeof what, "backward walk yields %zu items ending %s, the reverse of the definition has %zu%s%s", ngot, gend, ref.n, ngot ? "; first got " : "", ngot ? got[0] : "");
    deviation(n, A_BWD, lineno, what); }
  for (size_t i = 0; i < ngot; i++) free(got[i]);
  /* len */
  glen_ok = 0; V_TRY(exc, do_len(obj));
  if (glen_ok) LP(" len=%zu", glen); else LP(" len=-");
  if (def_has_len(n)) {
    if (!glen_ok) { snprintf(what, sizeof what, "len raises %s", v_exc_name(exc)); deviation(n, A_LEN, lineno, what); }
    else if (glen != ref.n) { snprintf(what, sizeof what, "len = %zu, the definition selects %zu", glen, ref.n); deviation(n, A_LEN, lineno, what); }
  } else if (glen_ok) { snprintf(what, sizeof what, "len = %zu on a type without Len", glen); deviation(n, A_LEN, lineno, what); }
  /* get */
  if (glen_ok && def_has_get(n) && glen <= CAP) {
    LP(" get=["); int gbad = 0;
    for (size_t i = 0; i < glen; i++) {
      char b[512];
      V_TRY(exc, do_get(obj, i));
      if (exc) snprintf(b, sizeof b, "!"); else show_into(gitem, b, sizeof b);
      LP("%s%s", i ? " " : "", b);
      if (!gbad && (i >= ref.n || strcmp(b, ref.v[i].s))) { gbad = 1; snprintf(what, sizeof what, "get(%zu) = %s, the definition has %s", i, b, i < ref.n ? ref.v[i].s : "nothing"); }
    }
    LP("]");
    if (gbad) deviation(n, A_GET, lineno, what);
  } else LP(" get=-");
  O("%s", line);
}

static void op_slice_arg(const char* l, size_t lineno) {
  long long nn; char t[3][32]; int k = sscanf(l, "%lld %31s %31s %31s", &nn, t[0], t[1], t[2]);
  if (k < 1 || nn < 0 || nn > 100000) { O("bad-op"); return; }
  for (int i = 0; i < k - 1; i++) if (strcmp(t[i], "_") && !is_int(t[i])) { O("bad-op"); return; }
  var a = new_raw(Array, Int); for (long long i = 0; i < nn; i++) push(a, $I(i));
  var arr[8]; size_t m = 0; arr[m++] = a;
  for (int i = 0; i < k - 1; i++) arr[m++] = strcmp(t[i], "_") ? (var)new_raw(Int, $I(strtoll(t[i], NULL, 10))) : _;
  arr[m] = Terminal;
  var exc; volatile var s = NULL;
  V_TRY(exc, s = new_raw_with(Slice, $(Tuple, arr)));
  if (exc) { O("construct=%s", v_exc_name(exc)); return; }
  struct Range* r = ((struct Slice*)s)->range;
  O("range=%lld,%lld,%lld len=%zu", (long long)r->start, (long long)r->stop, (long long)r->step, len(s));
  (void)lineno;
}

/* ------------------------------------------------------------------------------------------------ worker / parent */
typedef struct { volatile size_t cur; volatile int done; volatile size_t ops, items, dev, kf; } Shared;
static Shared* sh;

static void worker(char** lines, size_t n, size_t from) {
  for (size_t li = from; li < n; li++) {
    char* l = lines[li];
    if (v_skippable(l)) continue;
    sh->cur = li; alarm(20);
    st_ops++;
    if (l[0] == 'W' && l[1] == ' ') { Node* e = parse_line(l + 2); if (!e) O("bad-op"); else op_walk(e, li + 1); }
    else if (l[0] == 'V' && l[1] == ' ') { Node* e = parse_line(l + 2); if (!e) O("bad-op"); else op_walk_macro(e, li + 1); }
    else if (l[0] == 'S' && l[1] == ' ') op_slice_arg(l + 2, li + 1);
    else O("bad-op");
    sh->ops += 1; sh->items = st_items; sh->dev = st_dev; sh->kf = st_kf;
  }
  alarm(0);
  sh->done = 1;
}

int main(int argc, char** argv) {
  v_init();
  if (argc < 2) { fprintf(stderr, "usage: h_iter <opfile>\n"); return 2; }
  size_t n; char** lines = v_read_lines(argv[1], &n);
  stop(current(GC));     /* the objects under test are referenced from harness structures the collector does not scan */
  sh = mmap(NULL, sizeof(Shared), PROT_READ | PROT_WRITE, MAP_SHARED | MAP_ANONYMOUS, -1, 0);
  if (sh == MAP_FAILED) { perror("mmap"); return 2; }
  memset((void*)sh, 0, sizeof *sh);
  size_t from = 0, crashes = 0, items = 0, dev = 0, kf = 0;
  while (from < n) {
    fflush(stdout);
    sh->cur = (size_t)-1; sh->items = sh->dev = sh->kf = 0;
    pid_t pid = fork();
    if (pid < 0) { perror("fork"); return 2; }
    if (pid == 0) { worker(lines, n, from); fflush(stdout); _exit(0); }
    int st = 0; waitpid(pid, &st, 0);
    items += sh->items; dev += sh->dev; kf += sh->kf;
    if (sh->done) break;
    size_t k = sh->cur;
    if (k == (size_t)-1) { fprintf(stderr, "worker died before its first op\n"); return 3; }
    crashes++;
    O("crash");
    Node* e = (lines[k][0] == 'W' || lines[k][0] == 'V') ? parse_line(lines[k] + 2) : NULL;
    const char* sig = e ? sig_for(e, A_CRASH) : "c11-crash";
    dev++; if (!strncmp(sig, "kf-", 3)) kf++;
    X("sig=%s line=%zu what=the library left the iteration protocol: worker %s %d", sig, k + 1,
      WIFSIGNALED(st) ? "killed by signal" : "exited with status", WIFSIGNALED(st) ? WTERMSIG(st) : WEXITSTATUS(st));
    from = k + 1;
  }
  I("ops=%zu items=%zu deviations=%zu in-known-territory=%zu crashes=%zu", (size_t)sh->ops, items, dev, kf, crashes);
  return 0;
}
