/* harness/h_iter.c — engine `iter` (C11): iteration agrees with len and get, forwards and backwards, for views too.
 *
 * op file (same grammar as lean/Driver/Iter.lean):
 *   W <expr>           build the iterable on the real library, walk it with `foreach` (iter_init / iter_next) and backwards
 *                      (iter_last / iter_prev), ask len and get(0 … len-1).  Prints
 *                        O f=[items] fe=<term|exc|fuel|stray> b=[items] be=<…> len=<n|-> get=[values|!] gx=[get(-1) get(-len) get(-len-1) get(len)]
 *                      or  O construct=<Exception>
 *                      (when a walk is cut by the cap only its first 16 items are printed)
 *   V <expr>           as W, the top-level view constructed with the stack macros range(…) slice(…) reverse(…) zip(…)
 *                      enumerate(…) filter(…) map(…) of Cello.h
 *   S <n> <a> <b> <c>  slice_stack on an Array of n items: prints  O range=<start>,<stop>,<step> len=<Slice_Len>
 *   G <i> <k> <expr>   `foreach` whose body calls get(obj, k) right after item number i (from 0; an exception of that get is
 *                      swallowed): prints  O g=[items] ge=<term|exc|fuel>
 *   Z <k> <expr>       zip(x, …, x): ONE object x = <expr>, k times (1 <= k <= 6) in a Zip; walked as W (without get)
 *   M <k> <expr>       mem(obj, $I(k)) on a Range, a Slice, a Filter or a Map whose elements are Ints (Range_Mem, Slice_Mem,
 *                      Filter_Mem, Map_Mem of src/Iter.c): prints  O mem=<1|0|exc>;  oracle: k occurs in the defined sequence
 *   R <a> <b> <c>      the Range (a, b, c), any int64_t values, walked as W without get (the model side is the Range on int64_t);
 *                      a walk that needs a value outside int64_t (one step beyond the last element included) is UB: the worker
 *                      dies under UBSan (`O crash`)
 *   expr ::= (array v*) | (list v*) | (tuple id*) | (table s*)  s = `.` | key   — slot array written white-box
 *          | (tree S)  S = `.` | (S k S)  — nodes linked white-box | (rtree k*)  — built with set()
 *          | (range a*) | (slice E a*) | (reverse E) | (zip E*) | (enum E) | (filter E m r) | (map E a b)     a = int | `_`
 *          | (mut list (v*) sop*) | (mut array (v*) sop*) | (mut table (k*) kop*) | (mut tree (k*) kop*)
 *              — a container that is MUTATED through the public interface before it is iterated:
 *              sop ::= (push v) | (pop) | (push_at v i) | (pop_at i) | (rem v) | (put i v) | (concat v*) | (resize n)
 *              kop ::= (set k) | (rem k) | (resize n)          (the value stored with key k is 10*k)
 *              a mutation that raises is caught and the history goes on
 *   L <mut expr>       white-box layout after the history, with the outcome of every mutation (`.` ok, I V K F = exception):
 *                        O links out=:… nitems= head= tail= vals=[…] prev=[…]   List: the chain from head along next; head, tail and
 *                                                                               every prev word by POSITION in that chain (`-` NULL, `?` elsewhere)
 *                        O store out=:… nitems= nslots= vals=[…]                Array
 *                        O slots out=:… nitems= nslots= [i:key …]               Table
 *                        O tree out=:… nitems= keys=[…]                         Tree: in-order over the child pointers
 *
 * Every op runs in a forked worker (a Slice hands `Terminal` to the underlying iterable as a cursor — undefined
 * behaviour for most containers): when the worker dies (ASan / UBSan report, signal, alarm) the parent prints `O crash`
 * for that op, classifies it and starts a new worker at the next op.
 *
 * Direct oracle (independent of the Lean model): the reference item sequence is computed from the DEFINITION of every
 * node (container contents in order; Table = occupied slots in slot order; Tree = in-order; Range = start, start+step, …
 * below stop, for a negative step stop-1, stop-1+step, … not below start; Slice = the elements of the underlying
 * sequence at the positions of Range(start', stop', step) with start'/stop' normalised (negative = from the end) and
 * clamped to [0, n]; Zip = tuples up to the shortest input; enumerate = (i, x_i); Filter = the accepted elements;
 * Map = the images).  Checked: foreach yields exactly the reference and ends with Terminal; the backward walk yields
 * its reverse; len = its length; get(i) = its i-th element.
 * Deviations inside known-finding territory carry the KF signature, everything else a distinct one:
 *   kf-c11-tuple-dup    walk over a Tuple holding the same object twice (F13)
 *   kf-c11-slice        Slice iteration outside the parameter region in which it is right (F11) — region: walk_cause():
 *                       over an iterable that answers Terminal to a Terminal cursor (Tuple, Range, Map / Filter / Slice over
 *                       them) the positions visited must be the positions selected; over any other the stride must fit
 *   kf-c11-zip-back     backward walk over / get at a negative index of a Zip of inputs of unequal length (F12)
 *   kf-c11-get-walk     `G`: get on a Range / Map / Zip / enumerate (or a Slice over one) during a walk overwrites its cursor
 *   kf-c11-zip-alias    `Z`: one Range / Map / Zip object (or a Slice / Filter over one) several times in a Zip shares one cursor
 *   kf-c11-slice-mem    `M` on a Slice with a key that is NOT in it: Slice_Mem loops `while (curr)`, Terminal is not NULL: it is
 *                       compared with the key (stray ValueError) instead of ending the loop — never answers false
 *   kf-c11-range-mem    `M` on a Range with a NEGATIVE key: Range_Mem normalises the key as if it were an index (key + len) and
 *                       tests that value (the signature is given only when the answer is the membership of key + len)
 *   kf-c11-range-overflow  a walk over a Range that needs a value outside int64_t: Range_Iter_Next / _Prev add the step BEFORE
 *                       they compare (one step beyond the last element), Range_Len subtracts start from stop-1
 *   c11-forward c11-backward c11-len c11-get c11-get-walk c11-mem c11-crash c11-construct   anything else
 * A deviation carries a kf- signature only where NO theorem covers that walk (the same case analysis as `dirOf` in
 * lean/CelloProofs/Lemmas/IterCompose.lean, per direction): a wrong forward walk of a view over a Zip of unequal inputs, or
 * of a stepped Slice over a Tuple, is c11-forward.
 * For a container at the top level of a `W` line the cursors are checked BEFORE they are dereferenced: the k-th forward
 * cursor of an Array / List must be the pointer get(k) returns, the k-th backward cursor must be the (n-1-k)-th forward one;
 * a cursor that is neither ends the walk as `stray` (c11-forward / c11-backward) without being read.
 * Mutated containers: the reference sequence comes from a shadow (a plain C array of values / set of keys updated by the
 * documented meaning of every mutation; Tree = the keys in descending order; Table = the occupied slots in slot order,
 * whose keys must be exactly the shadow's); the outcome of every mutation is compared with the shadow's (c11-mutation);
 * `L` also checks the representation directly (c11-representation): List prev(head) = next(tail) = NULL, prev(next(x)) = x,
 * tail = last node, nitems = number of nodes; Tree child / parent links, key order and nitems; Table occupied slots = nitems;
 * Array nitems <= nslots. */
#include "common.h"
#include <sys/mman.h>
#include <signal.h>
#include <errno.h>

/* a worker that leaves the protocol is expected to die under the sanitizers: keep its report cheap (no symbolizer) */
const char* __asan_default_options(void) { return "symbolize=0:fast_unwind_on_fatal=1:print_legend=0:print_summary=0:malloc_context_size=0"; }
const char* __ubsan_default_options(void) { return "symbolize=0:fast_unwind_on_fatal=1:print_summary=0"; }

#define CAP 1000
#define SHOWN_ON_FUEL 16

/* ------------------------------------------------------------------------------------------------ expressions */
enum { K_ARRAY, K_LIST, K_TUPLE, K_TABLE, K_TREE, K_RTREE, K_RANGE, K_SLICE, K_ZIP, K_ENUM, K_FILTER, K_MAP, K_MUT };
enum { M_LIST, M_ARRAY, M_TABLE, M_TREE };
enum { OP_PUSH, OP_POP, OP_PUSH_AT, OP_POP_AT, OP_REM, OP_PUT, OP_CONCAT, OP_RESIZE, OP_SET };
typedef struct { int op; int64_t a, b; int64_t* vs; size_t nvs; } MOp;
typedef struct TN { struct TN *l, *r; int64_t k; } TN;
typedef struct Node {
  int kind;
  int mkind; MOp* ops; size_t nops; char* out;      /* K_MUT: the history and, once built, the outcome of every mutation */
  int64_t* slotkeys; size_t nslotkeys; int has_slotkeys;   /* K_MUT table, once built: the keys in slot order */
  int64_t* v; int* has; size_t nv;       /* atoms; has[i] == 0: `_` / `.` */
  struct Node* kid[8]; size_t nk;
  TN* tree;
  int64_t p1, p2;
} Node;

static char** toks; static size_t ntoks, tpos;

static void tokenize(const char* s) {
  size_t cap = 64; toks = malloc(cap * sizeof(char*)); ntoks = 0; tpos = 0;
  while (*s) {
    if (*s == ' ') { s++; continue; }
    if (ntoks == cap) { cap *= 2; toks = realloc(toks, cap * sizeof(char*)); }
    if (*s == '(' || *s == ')') { char b[2] = { *s, 0 }; toks[ntoks++] = strdup(b); s++; continue; }
    const char* e = s; while (*e && *e != ' ' && *e != '(' && *e != ')') e++;
    toks[ntoks++] = strndup(s, e - s); s = e;
  }
}
static const char* peek(void) { return tpos < ntoks ? toks[tpos] : ""; }
static const char* nextt(void) { return tpos < ntoks ? toks[tpos++] : ""; }
static int is_int(const char* t) { if (*t == '-') t++; if (!*t) return 0; while (*t) { if (*t < '0' || *t > '9') return 0; t++; } return 1; }

/* atoms up to `)`; `hole` = the token that stands for "absent" (NULL: none allowed); nat: no sign allowed */
static int parse_atoms(Node* n, const char* hole, int nat) {
  size_t cap = 8; n->v = malloc(cap * sizeof(int64_t)); n->has = malloc(cap * sizeof(int)); n->nv = 0;
  for (;;) {
    const char* t = nextt();
    if (!*t) return 0;
    if (strcmp(t, ")") == 0) return 1;
    if (n->nv == cap) { cap *= 2; n->v = realloc(n->v, cap * sizeof(int64_t)); n->has = realloc(n->has, cap * sizeof(int)); }
    if (hole && strcmp(t, hole) == 0) { n->v[n->nv] = 0; n->has[n->nv++] = 0; continue; }
    if (!is_int(t) || (nat && *t == '-')) return 0;
    n->v[n->nv] = strtoll(t, NULL, 10); n->has[n->nv++] = 1;
  }
}
static int parse_tree(TN** out) {
  const char* t = nextt();
  if (strcmp(t, ".") == 0) { *out = NULL; return 1; }
  if (strcmp(t, "(") != 0) return 0;
  TN* n = calloc(1, sizeof(TN));
  if (!parse_tree(&n->l)) return 0;
  t = nextt(); if (!is_int(t)) return 0; n->k = strtoll(t, NULL, 10);
  if (!parse_tree(&n->r)) return 0;
  if (strcmp(nextt(), ")") != 0) return 0;
  *out = n; return 1;
}
static int parse_mop(int keyed, MOp* o) {     /* after `(`: name args `)` */
  const char* h = nextt(); memset(o, 0, sizeof *o);
  int need = -1;
  if (!keyed) {
    if (!strcmp(h, "push")) { o->op = OP_PUSH; need = 1; } else if (!strcmp(h, "pop")) { o->op = OP_POP; need = 0; }
    else if (!strcmp(h, "push_at")) { o->op = OP_PUSH_AT; need = 2; } else if (!strcmp(h, "pop_at")) { o->op = OP_POP_AT; need = 1; }
    else if (!strcmp(h, "rem")) { o->op = OP_REM; need = 1; } else if (!strcmp(h, "put")) { o->op = OP_PUT; need = 2; }
    else if (!strcmp(h, "resize")) { o->op = OP_RESIZE; need = 1; }
    else if (!strcmp(h, "concat")) {
      o->op = OP_CONCAT; size_t cap = 8; o->vs = malloc(cap * sizeof(int64_t));
      for (;;) { const char* t = nextt(); if (!*t) return 0; if (!strcmp(t, ")")) return 1; if (!is_int(t)) return 0;
        if (o->nvs == cap) { cap *= 2; o->vs = realloc(o->vs, cap * sizeof(int64_t)); } o->vs[o->nvs++] = strtoll(t, NULL, 10); }
    } else return 0;
  } else {
    if (!strcmp(h, "set")) { o->op = OP_SET; need = 1; } else if (!strcmp(h, "rem")) { o->op = OP_REM; need = 1; }
    else if (!strcmp(h, "resize")) { o->op = OP_RESIZE; need = 1; } else return 0;
  }
  int64_t* dst[2] = { &o->a, &o->b };
  for (int i = 0; i < need; i++) { const char* t = nextt(); if (!is_int(t) || (o->op == OP_RESIZE && *t == '-')) return 0; *dst[i] = strtoll(t, NULL, 10); }
  return strcmp(nextt(), ")") == 0;
}
static Node* parse_expr(void) {
  if (strcmp(nextt(), "(") != 0) return NULL;
  const char* h = nextt();
  Node* n = calloc(1, sizeof(Node));
  if (!strcmp(h, "mut")) {
    n->kind = K_MUT; const char* k = nextt();
    if (!strcmp(k, "list")) n->mkind = M_LIST; else if (!strcmp(k, "array")) n->mkind = M_ARRAY;
    else if (!strcmp(k, "table")) n->mkind = M_TABLE; else if (!strcmp(k, "tree")) n->mkind = M_TREE; else return NULL;
    if (strcmp(nextt(), "(") != 0 || !parse_atoms(n, NULL, 0)) return NULL;
    size_t cap = 8; n->ops = malloc(cap * sizeof(MOp));
    for (;;) {
      const char* t = nextt();
      if (!strcmp(t, ")")) break;
      if (strcmp(t, "(") != 0) return NULL;
      if (n->nops == cap) { cap *= 2; n->ops = realloc(n->ops, cap * sizeof(MOp)); }
      if (!parse_mop(n->mkind >= M_TABLE, &n->ops[n->nops])) return NULL;
      n->nops++;
    }
    n->out = calloc(n->nops + 1, 1);
    return n;
  }
  if (!strcmp(h, "array")) { n->kind = K_ARRAY; return parse_atoms(n, NULL, 0) ? n : NULL; }
  if (!strcmp(h, "list"))  { n->kind = K_LIST;  return parse_atoms(n, NULL, 0) ? n : NULL; }
  if (!strcmp(h, "tuple")) { n->kind = K_TUPLE; return parse_atoms(n, NULL, 1) ? n : NULL; }
  if (!strcmp(h, "table")) { n->kind = K_TABLE; return parse_atoms(n, ".", 0) ? n : NULL; }
  if (!strcmp(h, "rtree")) { n->kind = K_RTREE; return parse_atoms(n, NULL, 0) ? n : NULL; }
  if (!strcmp(h, "range")) { n->kind = K_RANGE; return parse_atoms(n, "_", 0) ? n : NULL; }
  if (!strcmp(h, "tree"))  { n->kind = K_TREE; if (!parse_tree(&n->tree)) return NULL; return strcmp(nextt(), ")") == 0 ? n : NULL; }
  if (!strcmp(h, "slice")) { n->kind = K_SLICE; n->kid[0] = parse_expr(); n->nk = 1; if (!n->kid[0]) return NULL; return parse_atoms(n, "_", 0) ? n : NULL; }
  if (!strcmp(h, "reverse")) {
    n->kind = K_SLICE; n->kid[0] = parse_expr(); n->nk = 1; if (!n->kid[0]) return NULL;
    if (strcmp(nextt(), ")") != 0) return NULL;
    n->v = malloc(3 * sizeof(int64_t)); n->has = malloc(3 * sizeof(int)); n->nv = 3;
    n->has[0] = 0; n->has[1] = 0; n->has[2] = 1; n->v[0] = n->v[1] = 0; n->v[2] = -1; return n;
  }
  if (!strcmp(h, "enum")) { n->kind = K_ENUM; n->kid[0] = parse_expr(); n->nk = 1; if (!n->kid[0]) return NULL; return strcmp(nextt(), ")") == 0 ? n : NULL; }
  if (!strcmp(h, "filter") || !strcmp(h, "map")) {
    n->kind = !strcmp(h, "filter") ? K_FILTER : K_MAP; n->kid[0] = parse_expr(); n->nk = 1; if (!n->kid[0]) return NULL;
    const char* a = nextt(); const char* b = nextt();
    if (!is_int(a) || !is_int(b)) return NULL;
    n->p1 = strtoll(a, NULL, 10); n->p2 = strtoll(b, NULL, 10);
    return strcmp(nextt(), ")") == 0 ? n : NULL;
  }
  if (!strcmp(h, "zip")) {
    n->kind = K_ZIP;
    while (strcmp(peek(), ")") != 0) { if (n->nk >= 8) return NULL; Node* k = parse_expr(); if (!k) return NULL; n->kid[n->nk++] = k; }
    nextt(); return n;
  }
  return NULL;
}
static Node* parse_line(const char* s) {
  tokenize(s);
  Node* n = parse_expr();
  if (n && tpos != ntoks) n = NULL;
  return n;
}

/* ------------------------------------------------------------------------------------------------ test callables */
static int64_t emod(int64_t a, int64_t m) { if (m < 0) m = -m; int64_t r = a % m; return r < 0 ? r + m : r; }

static int64_t key_of(var x) {   /* the number a test predicate / function sees: the Int, or the sum over a Tuple */
  if (type_of(x) is Int) return c_int(x);
  if (type_of(x) is Tuple) { int64_t s = 0; struct Tuple* t = x; for (size_t i = 0; t->items[i] isnt Terminal; i++) s += key_of(t->items[i]); return s; }
  return 0;
}
#define NCLOS 16
static int64_t clos_a[NCLOS], clos_b[NCLOS]; static size_t nclos_p, nclos_f;
static int64_t fclos_a[NCLOS], fclos_b[NCLOS];
static var pred_apply(size_t i, var x) { int64_t m = clos_a[i], r = clos_b[i]; return (m != 0 && emod(key_of(x), m) == r) ? x : NULL; }
static var fun_apply(size_t i, var x) { return new_raw(Int, $I(fclos_a[i] * key_of(x) + fclos_b[i])); }
#define PF(i) static var pred_##i(var x) { return pred_apply(i, x); } static var fun_##i(var x) { return fun_apply(i, x); }
PF(0) PF(1) PF(2) PF(3) PF(4) PF(5) PF(6) PF(7) PF(8) PF(9) PF(10) PF(11) PF(12) PF(13) PF(14) PF(15)
static var (*preds[NCLOS])(var) = { pred_0, pred_1, pred_2, pred_3, pred_4, pred_5, pred_6, pred_7, pred_8, pred_9, pred_10, pred_11, pred_12, pred_13, pred_14, pred_15 };
static var (*funs[NCLOS])(var) = { fun_0, fun_1, fun_2, fun_3, fun_4, fun_5, fun_6, fun_7, fun_8, fun_9, fun_10, fun_11, fun_12, fun_13, fun_14, fun_15 };

static var mkobj(var type, size_t sz) { return header_init(calloc(1, sizeof(struct Header) + sz), type, AllocHeap); }

/* ------------------------------------------------------------------------------------------------ building the real objects */
#define NIDS 4096
static var idobj[NIDS];
static var id_object(int64_t id) { if (id < 0 || id >= NIDS) id = NIDS - 1; if (!idobj[id]) idobj[id] = new_raw(Int, $I(id)); return idobj[id]; }

static var tbuild(struct Tree* m, TN* t, var parent, size_t* cnt) {
  if (!t) return NULL;
  var node = Tree_Alloc(m);
  ((struct Int*)Tree_Key(m, node))->val = t->k;
  ((struct Int*)Tree_Val(m, node))->val = t->k * 10;
  if (t->k & 1) Tree_Set_Red(m, node); else Tree_Set_Black(m, node);
  Tree_Set_Parent(m, node, parent);
  (*cnt)++;
  *Tree_Left(m, node) = tbuild(m, t->l, node, cnt);
  *Tree_Right(m, node) = tbuild(m, t->r, node, cnt);
  return node;
}


/* ------------------------------------------------------------------------------------------------ mutated containers */
/* the shadow: a plain array of values (List, Array) or set of keys (Table, Tree) updated by the documented meaning of
   every mutation; `exp` receives the expected outcome of each (`.` or the initial of the exception) */
typedef struct { int64_t* v; size_t n, cap; } Sh;
static void sh_ins(Sh* s, size_t at, int64_t x) {
  if (s->n == s->cap) { s->cap = s->cap ? 2 * s->cap : 8; s->v = realloc(s->v, s->cap * sizeof(int64_t)); }
  memmove(s->v + at + 1, s->v + at, (s->n - at) * sizeof(int64_t)); s->v[at] = x; s->n++;
}
static void sh_del(Sh* s, size_t at) { memmove(s->v + at, s->v + at + 1, (s->n - at - 1) * sizeof(int64_t)); s->n--; }
static char sh_apply(Sh* s, int mkind, const MOp* o) {
  int64_t n = (int64_t)s->n;
  if (mkind == M_LIST || mkind == M_ARRAY) {
    switch (o->op) {
      case OP_PUSH: sh_ins(s, s->n, o->a); return '.';
      case OP_POP: if (!n) return 'I'; s->n--; return '.';
      case OP_PUSH_AT: {
        int64_t i = o->b;
        if (mkind == M_LIST) {           /* key 0: in front; otherwise before the EXISTING element i (negative: from the end) */
          if (i == 0) { sh_ins(s, 0, o->a); return '.'; }
          if (i < 0) i += n;
          if (i < 0 || i >= n) return 'I';
        } else {                         /* Array: any position 0..n, negative counted from the end of the result */
          if (i < 0) i += n + 1;
          if (i < 0 || i > n) return 'I';
        }
        sh_ins(s, (size_t)i, o->a); return '.';
      }
      case OP_POP_AT: { int64_t i = o->a; if (i < 0) i += n; if (i < 0 || i >= n) return 'I'; sh_del(s, (size_t)i); return '.'; }
      case OP_REM: for (size_t i = 0; i < s->n; i++) if (s->v[i] == o->a) { sh_del(s, i); return '.'; } return 'V';
      case OP_PUT: { int64_t i = o->a; if (i < 0) i += n; if (i < 0 || i >= n) return 'I'; s->v[i] = o->b; return '.'; }
      case OP_CONCAT: for (size_t i = 0; i < o->nvs; i++) sh_ins(s, s->n, o->vs[i]); return '.';
      case OP_RESIZE:
        if ((int64_t)o->a < n) s->n = (size_t)o->a;                         /* both: drop the elements beyond n (0 empties) */
        else if (mkind == M_LIST) while ((int64_t)s->n < o->a) sh_ins(s, s->n, 0);   /* List pads with zeroed elements; Array only reserves */
        return '.';
    }
  } else {
    size_t at = s->n; for (size_t i = 0; i < s->n; i++) if (s->v[i] == o->a) at = i;
    switch (o->op) {
      case OP_SET: if (at == s->n) sh_ins(s, s->n, o->a); return '.';
      case OP_REM: if (at == s->n) return 'K'; sh_del(s, at); return '.';
      case OP_RESIZE:
        if (o->a == 0) { s->n = 0; return '.'; }
        if (mkind == M_TREE) return 'F';
        return (int64_t)o->a < n ? 'F' : '.';
    }
  }
  return '?';
}
static Sh shadow_of(Node* n, char* exp) {
  Sh s = { NULL, 0, 0 };
  for (size_t i = 0; i < n->nv; i++) {
    MOp o = { (n->mkind >= M_TABLE) ? OP_SET : OP_PUSH, n->v[i], 0, NULL, 0 };
    sh_apply(&s, n->mkind, &o);
  }
  for (size_t i = 0; i < n->nops; i++) { char c = sh_apply(&s, n->mkind, &n->ops[i]); if (exp) exp[i] = c; }
  if (exp) exp[n->nops] = 0;
  return s;
}
static int cmp_i64(const void* a, const void* b);

static char exc_char(var e) {
  if (e is NULL) return '.';
  if (e is IndexOutOfBoundsError) return 'I';
  if (e is ValueError) return 'V';
  if (e is KeyError) return 'K';
  if (e is FormatError) return 'F';
  return '?';
}
static void mut_apply(int mkind, var c, const MOp* o) {
  switch (o->op) {
    case OP_PUSH: push(c, $I(o->a)); break;
    case OP_POP: pop(c); break;
    case OP_PUSH_AT: push_at(c, $I(o->a), $I(o->b)); break;
    case OP_POP_AT: pop_at(c, $I(o->a)); break;
    case OP_REM: rem(c, $I(o->a)); break;
    case OP_PUT: set(c, $I(o->a), $I(o->b)); break;
    case OP_CONCAT: { var t = new_raw(Array, Int); for (size_t i = 0; i < o->nvs; i++) push(t, $I(o->vs[i])); concat(c, t); del_raw(t); break; }
    case OP_RESIZE: resize(c, (size_t)o->a); break;
    case OP_SET: set(c, $I(o->a), $I(10 * o->a)); break;
  }
  (void)mkind;
}
static var build_mut(Node* n) {
  var c = NULL;
  switch (n->mkind) {
    case M_LIST: c = new_raw(List, Int); break;
    case M_ARRAY: c = new_raw(Array, Int); break;
    case M_TABLE: c = new_raw(Table, Int, Int); break;
    default: c = new_raw(Tree, Int, Int); break;
  }
  for (size_t i = 0; i < n->nv; i++) { if (n->mkind >= M_TABLE) set(c, $I(n->v[i]), $I(10 * n->v[i])); else push(c, $I(n->v[i])); }
  for (size_t i = 0; i < n->nops; i++) { var exc; V_TRY(exc, mut_apply(n->mkind, c, &n->ops[i])); n->out[i] = exc_char(exc); }
  n->out[n->nops] = 0;
  if (n->mkind == M_TABLE) {
    struct Table* t = c; n->slotkeys = malloc((t->nslots + 1) * sizeof(int64_t)); n->nslotkeys = 0;
    for (size_t i = 0; i < t->nslots; i++) if (Table_Key_Hash(t, i) isnt 0) n->slotkeys[n->nslotkeys++] = ((struct Int*)Table_Key(t, i))->val;
    n->has_slotkeys = 1;
  }
  return c;
}

static var build(Node* n);
static var args_tuple(var first, Node* n, var* arr) {   /* (first?, atoms…) as a Tuple living in the caller's frame */
  size_t k = 0;
  if (first) arr[k++] = first;
  for (size_t i = 0; i < n->nv; i++) arr[k++] = n->has[i] ? (var)new_raw(Int, $I(n->v[i])) : _;
  arr[k] = Terminal;
  return NULL;
}

static var build(Node* n) {
  switch (n->kind) {
    case K_ARRAY: { var a = new_raw(Array, Int); for (size_t i = 0; i < n->nv; i++) push(a, $I(n->v[i])); return a; }
    case K_LIST:  { var a = new_raw(List, Int);  for (size_t i = 0; i < n->nv; i++) push(a, $I(n->v[i])); return a; }
    case K_TUPLE: {
      var t = mkobj(Tuple, sizeof(struct Tuple)); var* items = malloc((n->nv + 1) * sizeof(var));
      for (size_t i = 0; i < n->nv; i++) items[i] = id_object(n->v[i]);
      items[n->nv] = Terminal; ((struct Tuple*)t)->items = items; return t;
    }
    case K_TABLE: {
      struct Table* t = new_raw(Table, Int, Int);
      free(t->data); t->nslots = n->nv; t->nitems = 0;
      size_t step = Table_Step(t);
      t->data = n->nv ? calloc(n->nv, step) : NULL;
      for (size_t i = 0; i < n->nv; i++) if (n->has[i]) {
        char* slot = (char*)t->data + i * step;
        *(uint64_t*)slot = 1 + (uint64_t)(n->v[i] & 0xffff);
        header_init(slot + sizeof(uint64_t), Int, AllocData);
        header_init(slot + sizeof(uint64_t) + sizeof(struct Header) + t->ksize, Int, AllocData);
        ((struct Int*)Table_Key(t, i))->val = n->v[i];
        ((struct Int*)Table_Val(t, i))->val = n->v[i] * 10;
        t->nitems++;
      }
      return t;
    }
    case K_TREE: {
      struct Tree* m = new_raw(Tree, Int, Int); size_t cnt = 0;
      m->root = tbuild(m, n->tree, NULL, &cnt); m->nitems = cnt; return m;
    }
    case K_RTREE: { var m = new_raw(Tree, Int, Int); for (size_t i = 0; i < n->nv; i++) set(m, $I(n->v[i]), $I(n->v[i] * 10)); return m; }
    case K_RANGE: { var arr[16]; if (n->nv > 12) return throw(FormatError, "too many"); args_tuple(NULL, n, arr); return new_raw_with(Range, $(Tuple, arr)); }
    case K_SLICE: { var arr[16]; if (n->nv > 12) return throw(FormatError, "too many"); var e = build(n->kid[0]); args_tuple(e, n, arr); return new_raw_with(Slice, $(Tuple, arr)); }
    case K_ZIP: { var arr[16]; for (size_t i = 0; i < n->nk; i++) arr[i] = build(n->kid[i]); arr[n->nk] = Terminal; return new_raw_with(Zip, $(Tuple, arr)); }
    case K_ENUM: { var e = build(n->kid[0]); var arr[3] = { new_raw(Range), e, Terminal }; var z = new_raw_with(Zip, $(Tuple, arr)); return enumerate_stack(z); }
    case K_FILTER: {
      var e = build(n->kid[0]); if (nclos_p >= NCLOS) return throw(FormatError, "too many closures");
      clos_a[nclos_p] = n->p1; clos_b[nclos_p] = n->p2;
      struct Function* f = mkobj(Function, sizeof(struct Function)); f->func = preds[nclos_p++];
      return new_raw(Filter, e, f);
    }
    case K_MAP: {
      var e = build(n->kid[0]); if (nclos_f >= NCLOS) return throw(FormatError, "too many closures");
      fclos_a[nclos_f] = n->p1; fclos_b[nclos_f] = n->p2;
      struct Function* f = mkobj(Function, sizeof(struct Function)); f->func = funs[nclos_f++];
      return new_raw(Map, e, f);
    }
    case K_MUT: return build_mut(n);
  }
  return NULL;
}

/* ------------------------------------------------------------------------------------------------ showing elements */
static size_t show_into(var x, char* b, size_t cap) {
  if (x is NULL) return snprintf(b, cap, "NULL");
  if (x is Terminal) return snprintf(b, cap, "Terminal");
  var ty = type_of(x);
  if (ty is Int) return snprintf(b, cap, "%lld", (long long)c_int(x));
  if (ty is Tuple) {
    size_t l = snprintf(b, cap, "("); struct Tuple* t = x;
    for (size_t i = 0; t->items[i] isnt Terminal && l + 32 < cap; i++) { if (i) l += snprintf(b + l, cap - l, ","); l += show_into(t->items[i], b + l, cap - l); }
    l += snprintf(b + l, cap - l, ")"); return l;
  }
  return snprintf(b, cap, "?");
}
static char* show_dup(var x) { char b[512]; show_into(x, b, sizeof b); return strdup(b); }

/* ------------------------------------------------------------------------------------------------ the reference (definition) */
typedef struct { int64_t key; char* s; } RV;
typedef struct { RV* v; size_t n; } RL;
static void rl_push(RL* l, int64_t key, const char* s) { l->v = realloc(l->v, (l->n + 1) * sizeof(RV)); l->v[l->n].key = key; l->v[l->n].s = strdup(s); l->n++; }
static void rl_int(RL* l, int64_t k) { char b[32]; snprintf(b, sizeof b, "%lld", (long long)k); rl_push(l, k, b); }

static void tn_inorder(TN* t, RL* out) { if (!t) return; tn_inorder(t->l, out); rl_int(out, t->k); tn_inorder(t->r, out); }
static int cmp_i64(const void* a, const void* b) { int64_t x = *(const int64_t*)a, y = *(const int64_t*)b; return x < y ? -1 : x > y; }

/* Range by definition: step>0: start, start+step, … < stop;  step<0: stop-1, stop-1+step, … >= start;  step 0: nothing */
static size_t range_positions(int64_t a, int64_t b, int64_t c, int64_t* out, size_t cap) {
  size_t k = 0;      /* (the loop variable is wider than int64_t: the reference itself must not overflow) */
  if (c > 0) for (__int128 p = a; p < (__int128)b && k < cap; p += c) out[k++] = (int64_t)p;
  if (c < 0) for (__int128 p = (__int128)b - 1; p >= (__int128)a && k < cap; p += c) out[k++] = (int64_t)p;
  return k;
}
static int64_t clamp_intended(int64_t a, int64_t n) { if (a < 0) a += n; if (a < 0) a = 0; if (a > n) a = n; return a; }
static void slice_params(Node* n, int64_t len, int64_t* a, int64_t* b, int64_t* c) {   /* slice_stack by its documentation */
  *a = 0; *b = len; *c = 1;
  if (n->nv == 1) { if (n->has[0]) *b = clamp_intended(n->v[0], len); }
  if (n->nv >= 2) { if (n->has[0]) *a = clamp_intended(n->v[0], len); if (n->has[1]) *b = clamp_intended(n->v[1], len); }
  if (n->nv >= 3) { if (n->has[2]) *c = n->v[2]; }
}
static int range_params(Node* n, int64_t* a, int64_t* b, int64_t* c) {
  *a = 0; *b = 0; *c = 1;
  if (n->nv == 0) return 1;
  if (n->nv == 1) { *b = n->v[0]; return n->has[0]; }
  if (n->nv == 2) { if (n->has[0]) *a = n->v[0]; *b = n->v[1]; return n->has[1]; }
  if (n->nv == 3) { if (n->has[0]) *a = n->v[0]; *b = n->v[1]; if (n->has[2]) *c = n->v[2]; return n->has[1]; }
  return 0;
}

static RL ref_of(Node* n) {
  RL out = { NULL, 0 };
  switch (n->kind) {
    case K_ARRAY: case K_LIST: case K_TUPLE: for (size_t i = 0; i < n->nv; i++) rl_int(&out, n->v[i]); break;
    case K_TABLE: for (size_t i = 0; i < n->nv; i++) if (n->has[i]) rl_int(&out, n->v[i]); break;
    case K_TREE: tn_inorder(n->tree, &out); break;
    case K_RTREE: {
      int64_t* s = malloc((n->nv + 1) * sizeof(int64_t)); memcpy(s, n->v, n->nv * sizeof(int64_t)); qsort(s, n->nv, sizeof(int64_t), cmp_i64);
      /* Tree_Set keeps the GREATER key in the left subtree (cmp(node, key) < 0 -> left): left-to-right order is descending */
      for (size_t i = n->nv; i-- > 0; ) if (i + 1 == n->nv || s[i] != s[i+1]) rl_int(&out, s[i]);
      free(s); break;
    }
    case K_RANGE: {
      int64_t a, b, c; range_params(n, &a, &b, &c);
      static int64_t pos[CAP + 8]; size_t k = range_positions(a, b, c, pos, CAP + 4);
      for (size_t i = 0; i < k; i++) rl_int(&out, pos[i]); break;
    }
    case K_SLICE: {
      RL u = ref_of(n->kid[0]); int64_t a, b, c; slice_params(n, (int64_t)u.n, &a, &b, &c);
      static int64_t pos[CAP + 8]; size_t k = range_positions(a, b, c, pos, CAP + 4);
      for (size_t i = 0; i < k; i++) if (pos[i] >= 0 && (size_t)pos[i] < u.n) rl_push(&out, u.v[pos[i]].key, u.v[pos[i]].s);
      break;
    }
    case K_ZIP: case K_ENUM: {
      RL inp[9]; size_t m = 0, shortest = (size_t)-1;
      if (n->kind == K_ENUM) { RL u = ref_of(n->kid[0]); RL r = { NULL, 0 }; for (size_t i = 0; i < u.n; i++) rl_int(&r, (int64_t)i); inp[0] = r; inp[1] = u; m = 2; }
      else for (size_t i = 0; i < n->nk; i++) inp[m++] = ref_of(n->kid[i]);
      for (size_t i = 0; i < m; i++) if (inp[i].n < shortest) shortest = inp[i].n;
      if (m == 0) shortest = 0;
      for (size_t j = 0; j < shortest; j++) {
        char b[512]; size_t l = snprintf(b, sizeof b, "("); int64_t key = 0;
        for (size_t i = 0; i < m; i++) { l += snprintf(b + l, sizeof b - l, "%s%s", i ? "," : "", inp[i].v[j].s); key += inp[i].v[j].key; }
        snprintf(b + l, sizeof b - l, ")"); rl_push(&out, key, b);
      }
      break;
    }
    case K_FILTER: { RL u = ref_of(n->kid[0]); for (size_t i = 0; i < u.n; i++) if (n->p1 != 0 && emod(u.v[i].key, n->p1) == n->p2) rl_push(&out, u.v[i].key, u.v[i].s); break; }
    case K_MAP: { RL u = ref_of(n->kid[0]); for (size_t i = 0; i < u.n; i++) rl_int(&out, n->p1 * u.v[i].key + n->p2); break; }
    case K_MUT: {
      Sh s = shadow_of(n, NULL);
      if (n->mkind == M_TREE) { if (s.n) qsort(s.v, s.n, sizeof(int64_t), cmp_i64); for (size_t i = s.n; i-- > 0; ) rl_int(&out, s.v[i]); }   /* descending */
      else if (n->mkind == M_TABLE && n->has_slotkeys) { for (size_t i = 0; i < n->nslotkeys; i++) rl_int(&out, n->slotkeys[i]); }
      else for (size_t i = 0; i < s.n; i++) rl_int(&out, s.v[i]);
      free(s.v); break;
    }
  }
  return out;
}
/* which types implement Len / a positional Get (by the Instance lists of the sources) */
static int def_has_len(Node* n) {
  switch (n->kind) {
    case K_FILTER: return 0;
    case K_MAP: case K_ENUM: case K_SLICE: return def_has_len(n->kid[0]);
    case K_ZIP: for (size_t i = 0; i < n->nk; i++) if (!def_has_len(n->kid[i])) return 0; return 1;
    default: return 1;
  }
}
static int def_has_get(Node* n) {
  switch (n->kind) {
    case K_FILTER: case K_TABLE: case K_TREE: case K_RTREE: return 0;
    case K_MUT: return n->mkind == M_LIST || n->mkind == M_ARRAY;
    case K_MAP: case K_ENUM: case K_SLICE: return def_has_get(n->kid[0]);
    case K_ZIP: for (size_t i = 0; i < n->nk; i++) if (!def_has_get(n->kid[i])) return 0; return 1;
    default: return 1;
  }
}

/* ------------------------------------------------------------------------------------------------ known-finding territory */
/* Which walk of which expression is outside every theorem, and why — per direction (dir 0 = forward, 1 = backward).
   absorbs(n, dir): the object answers Terminal again when Terminal is handed back to it as a cursor after a walk in that
   direction (Tuple without a repeated object: the search finds nothing; Range: the arithmetic stays beyond the end;
   inherited by Map and Filter; a Slice over such an object in its region; step 0 is Terminal at once).
   Slice regions (a, b already clamped to [0, n]):
     exact(dir)   the stride lands exactly on Terminal and stop / start cuts nothing off — right over ANY iterable
     visited(dir) over an absorbing iterable: the positions the walk visits (it runs to the end of the underlying sequence)
                  are the positions the definition selects — no divisibility condition */
static int same_positions(const int64_t* p, size_t np, const int64_t* q, size_t nq, int rev) {
  if (np != nq) return 0;
  for (size_t i = 0; i < np; i++) if (p[i] != q[rev ? nq - 1 - i : i]) return 0;
  return 1;
}
static int slice_region_exact(int64_t n, int64_t a, int64_t b, int64_t c, int dir) {
  if (c == 0) return 1;
  if (c > 0) return dir == 0 ? ((a == n) || ((n - a) % c == 0 && n - c < b)) : ((b == 0) || (b % c == 0 && a == c - 1));
  int64_t k = -c;
  return dir == 0 ? ((b == 0) || (b % k == 0 && a <= k - 1)) : ((a == n) || ((n - a) % k == 0 && b == n - k + 1));
}
static int slice_region_visited(int64_t n, int64_t a, int64_t b, int64_t c, int dir) {
  static int64_t sel[CAP + 8], vis[CAP + 8];
  if (c == 0) return 1;
  size_t ns = range_positions(a, b, c, sel, CAP + 4), nv;
  if (dir == 0) { nv = c > 0 ? range_positions(a, n, c, vis, CAP + 4) : range_positions(0, b, c, vis, CAP + 4); return same_positions(vis, nv, sel, ns, 0); }
  nv = c > 0 ? range_positions(0, b, -c, vis, CAP + 4) : range_positions(a, n, -c, vis, CAP + 4);
  return same_positions(vis, nv, sel, ns, 1);
}
/* a walk over the Range stays inside int64_t (dir 0: forward, 1: backward) — the same conditions as RangeFitsFwd / RangeFitsBwd
   of lean/Cello/Iter.lean: forward, the value one step beyond the last element; backward, Range_Len's own arithmetic and the value
   one step before the first element */
static int fits64(__int128 x) { return x >= (__int128)INT64_MIN && x <= (__int128)INT64_MAX; }
static int range_fits(Node* n, int dir) {
  int64_t a, b, c; if (!range_params(n, &a, &b, &c) || c == 0) return 1;
  __int128 A = a, B = b, C = c, len = (B <= A) ? 0 : (B - 1 - A) / (C > 0 ? C : -C) + 1;
  if (dir == 0) return C > 0 ? fits64(A + C * len) : (fits64(B - 1) && fits64(B - 1 + C * len));
  if (!((B <= A) || (fits64(B - 1) && fits64(B - 1 - A) && (C > 0 || fits64(-C))))) return 0;
  if (len == 0) return 1;
  return C > 0 ? fits64(A - C) : fits64(B - 1 - C);
}
static int tuple_has_dup(Node* n) { for (size_t i = 0; i < n->nv; i++) for (size_t j = 0; j < i; j++) if (n->v[i] == n->v[j]) return 1; return 0; }
static const char* walk_cause(Node* n, int dir);
static int absorbs(Node* n, int dir) {
  switch (n->kind) {
    case K_TUPLE: return !tuple_has_dup(n);
    case K_RANGE: return 1;
    case K_MAP: case K_FILTER: return absorbs(n->kid[0], dir);
    case K_SLICE: {
      int64_t len = (int64_t)ref_of(n->kid[0]).n, a, b, c; slice_params(n, len, &a, &b, &c);
      if (c == 0) return 1;
      int cd = c > 0 ? dir : !dir;
      return absorbs(n->kid[0], cd) && slice_region_visited(len, a, b, c, dir);
    }
    default: return 0;
  }
}
/* NULL: a theorem covers this walk of this expression; otherwise the signature of the known finding that excludes it */
static const char* walk_cause(Node* n, int dir) {
  const char* c0;
  switch (n->kind) {
    case K_TUPLE: return tuple_has_dup(n) ? "kf-c11-tuple-dup" : NULL;
    case K_RANGE: return range_fits(n, dir) ? NULL : "kf-c11-range-overflow";
    case K_SLICE: {
      int64_t len = (int64_t)ref_of(n->kid[0]).n, a, b, c; slice_params(n, len, &a, &b, &c);
      if (c == 0) return NULL;
      int cd = c > 0 ? dir : !dir;
      if ((c0 = walk_cause(n->kid[0], cd))) return c0;
      if (absorbs(n->kid[0], cd) && slice_region_visited(len, a, b, c, dir)) return NULL;
      return slice_region_exact(len, a, b, c, dir) ? NULL : "kf-c11-slice";
    }
    case K_ZIP: {
      for (size_t i = 0; i < n->nk; i++) if ((c0 = walk_cause(n->kid[i], dir))) return c0;
      if (dir == 1 && n->nk >= 2) {      /* F12: unequal lengths, none of them 0 (an empty input: Zip_Iter_Last answers Terminal at once) */
        size_t l0 = ref_of(n->kid[0]).n; int uneq = 0, empty = 0;
        for (size_t i = 0; i < n->nk; i++) { size_t li = ref_of(n->kid[i]).n; if (li != l0) uneq = 1; if (li == 0) empty = 1; }
        if (uneq && !empty) return "kf-c11-zip-back";
      }
      return NULL;
    }
    case K_ENUM: case K_FILTER: case K_MAP: return walk_cause(n->kid[0], dir);
    default: return NULL;
  }
}
static int zip_unequal_in(Node* n) {
  if (n->kind == K_ZIP && n->nk >= 2) { size_t l0 = ref_of(n->kid[0]).n; for (size_t i = 1; i < n->nk; i++) if (ref_of(n->kid[i]).n != l0) return 1; }
  for (size_t i = 0; i < n->nk; i++) if (zip_unequal_in(n->kid[i])) return 1;
  return 0;
}
/* get(obj, k) leaves a walk over obj alone: the containers, Slice / Filter over them (Filter has no Get instance) */
static int get_pure(Node* n) {
  switch (n->kind) { case K_RANGE: case K_ZIP: case K_ENUM: case K_MAP: return 0; case K_SLICE: return get_pure(n->kid[0]); default: return 1; }
}
/* the cursor of a walk lives inside the object (not in the pointer the caller holds) */
static int in_object(Node* n) {
  switch (n->kind) { case K_RANGE: case K_ZIP: case K_ENUM: case K_MAP: return 1; case K_SLICE: case K_FILTER: return in_object(n->kid[0]); default: return 0; }
}
static Node* zalias;     /* `Z`: the one object that the Zip under test holds several times (NULL otherwise) */
static int noget;        /* `R`: walks and len only */
enum { A_FWD, A_BWD, A_LEN, A_GET, A_CRASH, A_CONSTRUCT, A_MUT, A_LINKS, A_GETWALK, A_GETNEG };
static const char* sig_for(Node* n, int aspect) {
  const char* c0 = NULL;
  int walk = aspect == A_FWD || aspect == A_BWD || aspect == A_CRASH || aspect == A_GETWALK;
  if (walk && zalias && in_object(zalias)) return "kf-c11-zip-alias";
  if (aspect == A_FWD || aspect == A_GETWALK) c0 = walk_cause(n, 0);
  if (aspect == A_BWD) c0 = walk_cause(n, 1);
  if (aspect == A_CRASH) { c0 = walk_cause(n, 0); if (!c0) c0 = walk_cause(n, 1); }
  if (c0) return c0;
  if (aspect == A_GETWALK && !get_pure(n)) return "kf-c11-get-walk";
  if (aspect == A_GETNEG && zip_unequal_in(n)) return "kf-c11-zip-back";
  switch (aspect) { case A_FWD: return "c11-forward"; case A_BWD: return "c11-backward"; case A_LEN: return "c11-len";
                    case A_GET: case A_GETNEG: return "c11-get"; case A_CRASH: return "c11-crash"; case A_MUT: return "c11-mutation";
                    case A_LINKS: return "c11-representation"; case A_GETWALK: return "c11-get-walk"; default: return "c11-construct"; }
}

/* ------------------------------------------------------------------------------------------------ walking */
static char* got[CAP + 1]; static size_t ngot; static const char* gend;
/* cursor checks for a container at the top level (see the header): `expect` = the pointers the cursors must be, in order
   (NULL: no check); `gptr` records the cursors handed out */
static var gptr[CAP + 1]; static var fptr[CAP + 1]; static size_t nfptr;
static var* expect; static size_t nexpect;
static int cursor_ok(var x) { return !expect || (ngot < nexpect && expect[ngot] is x); }
static void do_fwd(var obj) {
  ngot = 0; gend = "term";
  foreach (x in obj) {
    if (!cursor_ok(x)) { gend = "stray"; break; }
    gptr[ngot] = x; got[ngot++] = show_dup(x); if (ngot >= CAP) { gend = "fuel"; break; }
  }
}
static void do_bwd(var obj) {
  ngot = 0; gend = "term";
  var x = iter_last(obj);
  while (x isnt Terminal) {
    if (!cursor_ok(x)) { gend = "stray"; break; }
    gptr[ngot] = x; got[ngot++] = show_dup(x); if (ngot >= CAP) { gend = "fuel"; break; }
    x = iter_prev(obj, x);
  }
}
static int raw_container(Node* n) {
  return n->kind == K_ARRAY || n->kind == K_LIST || n->kind == K_TABLE || n->kind == K_TREE || n->kind == K_RTREE || n->kind == K_MUT;
}
static int positional(Node* n) { return n->kind == K_ARRAY || n->kind == K_LIST || (n->kind == K_MUT && n->mkind <= M_ARRAY); }
static var getp[CAP + 1]; static size_t ngetp;
static void do_getptrs(var obj) { size_t L = len(obj); ngetp = 0; for (size_t i = 0; i < L && i < CAP; i++) { getp[i] = get(obj, $I((int64_t)i)); ngetp = i + 1; } }
static size_t glen; static int glen_ok;
static void do_len(var obj) { glen = len(obj); glen_ok = 1; }
static var gitem;
static void do_get(var obj, size_t i) { gitem = get(obj, $I((int64_t)i)); }

static char line[1 << 17]; static size_t ll;
#define LP(...) do { if (ll < sizeof line - 600) ll += snprintf(line + ll, sizeof line - ll, __VA_ARGS__); } while (0)
static void print_items(void) {
  size_t shown = (!strcmp(gend, "fuel") && ngot > SHOWN_ON_FUEL) ? SHOWN_ON_FUEL : ngot;
  LP("["); for (size_t i = 0; i < shown; i++) LP("%s%s", i ? " " : "", got[i]); LP("]");
}

static size_t st_ops, st_items, st_dev, st_kf;
/* branch counters of the extension round: Slice_Arg (argument `_` / negative: counted from the end / clamped to len / clamped to 0) */
static size_t st_sa_blank, st_sa_neg, st_sa_hi, st_sa_lo;
static void deviation(Node* n, int aspect, size_t lineno, const char* what) {
  const char* sig = sig_for(n, aspect);
  st_dev++; if (!strncmp(sig, "kf-", 3)) st_kf++;
  X("sig=%s line=%zu what=%s", sig, lineno, what);
}

static void walk_obj(Node* n, var obj, size_t lineno);

static void op_walk(Node* n, size_t lineno) {
  nclos_p = nclos_f = 0;
  var exc; volatile var obj = NULL;
  V_TRY(exc, obj = build(n));
  if (exc) { O("construct=%s", v_exc_name(exc)); return; }   /* construction failures are compared with the model only */
  walk_obj(n, obj, lineno);
}

/* `V <expr>`: as `W`, but the TOP-LEVEL view is constructed with the stack macros of Cello.h (range / slice / reverse /
   zip / enumerate / filter / map), which go through range_stack, slice_stack, zip_stack, enumerate_stack and `$(T, …)`
   instead of the New instances; the object lives in this frame while it is walked. */
static var A_(Node* n, size_t i) { return n->has[i] ? (var)new_raw(Int, $I(n->v[i])) : _; }
static void op_walk_macro_inner(Node* n, size_t lineno) {
  var k[8] = {0};
  for (size_t i = 0; i < n->nk; i++) k[i] = build(n->kid[i]);
  switch (n->kind) {
    case K_RANGE:
      switch (n->nv) {
        case 0: walk_obj(n, range(), lineno); return;
        case 1: walk_obj(n, range(A_(n, 0)), lineno); return;
        case 2: walk_obj(n, range(A_(n, 0), A_(n, 1)), lineno); return;
        case 3: walk_obj(n, range(A_(n, 0), A_(n, 1), A_(n, 2)), lineno); return;
        default: walk_obj(n, range(A_(n, 0), A_(n, 1), A_(n, 2), A_(n, 3)), lineno); return;
      }
    case K_SLICE:
      if (n->nv == 3 && !n->has[0] && !n->has[1] && n->has[2] && n->v[2] == -1) { walk_obj(n, reverse(k[0]), lineno); return; }
      switch (n->nv) {
        case 0: walk_obj(n, slice(k[0]), lineno); return;
        case 1: walk_obj(n, slice(k[0], A_(n, 0)), lineno); return;
        case 2: walk_obj(n, slice(k[0], A_(n, 0), A_(n, 1)), lineno); return;
        case 3: walk_obj(n, slice(k[0], A_(n, 0), A_(n, 1), A_(n, 2)), lineno); return;
        default: walk_obj(n, slice(k[0], A_(n, 0), A_(n, 1), A_(n, 2), A_(n, 3)), lineno); return;
      }
    case K_ZIP:
      switch (n->nk) {
        case 1: walk_obj(n, zip(k[0]), lineno); return;
        case 2: walk_obj(n, zip(k[0], k[1]), lineno); return;
        case 3: walk_obj(n, zip(k[0], k[1], k[2]), lineno); return;
        case 4: walk_obj(n, zip(k[0], k[1], k[2], k[3]), lineno); return;
        default: walk_obj(n, build(n), lineno); return;
      }
    case K_ENUM: walk_obj(n, enumerate(k[0]), lineno); return;
    case K_FILTER: {
      clos_a[nclos_p] = n->p1; clos_b[nclos_p] = n->p2;
      var (*f)(var) = preds[nclos_p++];
      walk_obj(n, filter(k[0], $(Function, f)), lineno); return;
    }
    case K_MAP: {
      fclos_a[nclos_f] = n->p1; fclos_b[nclos_f] = n->p2;
      var (*f)(var) = funs[nclos_f++];
      walk_obj(n, map(k[0], $(Function, f)), lineno); return;
    }
    default: walk_obj(n, build(n), lineno); return;
  }
}
static void op_walk_macro(Node* n, size_t lineno) {
  nclos_p = nclos_f = 0;
  var exc;
  V_TRY(exc, op_walk_macro_inner(n, lineno));
  if (exc) O("construct=%s", v_exc_name(exc));
}

static void walk_obj(Node* n, var obj, size_t lineno) {
  static char what[1024];
  var exc;
  RL ref = ref_of(n);
  ll = 0;
  if (n->kind == K_MUT) {          /* the mutations themselves: outcome of each against the shadow; Table: the stored keys */
    char* exp = malloc(n->nops + 1); Sh sh = shadow_of(n, exp);
    if (strcmp(exp, n->out)) { snprintf(what, sizeof what, "outcomes of the mutations are :%s, by their documented meaning :%s", n->out, exp); deviation(n, A_MUT, lineno, what); }
    if (n->mkind == M_TABLE && n->has_slotkeys) {
      int64_t* a = malloc((n->nslotkeys + 1) * sizeof(int64_t)); memcpy(a, n->slotkeys, n->nslotkeys * sizeof(int64_t));
      if (n->nslotkeys) qsort(a, n->nslotkeys, sizeof(int64_t), cmp_i64); if (sh.n) qsort(sh.v, sh.n, sizeof(int64_t), cmp_i64);
      if (n->nslotkeys != sh.n || (sh.n && memcmp(a, sh.v, sh.n * sizeof(int64_t)))) { snprintf(what, sizeof what, "the slots hold %zu keys, the history leaves %zu (or other keys)", n->nslotkeys, sh.n); deviation(n, A_MUT, lineno, what); }
      free(a);
    }
    free(exp); free(sh.v);
  }
  /* forward */
  expect = NULL;
  if (positional(n)) { V_TRY(exc, do_getptrs(obj)); if (!exc) { expect = getp; nexpect = ngetp; } }
  V_TRY(exc, do_fwd(obj)); if (exc) gend = "exc";
  nfptr = 0; if (raw_container(n) && !strcmp(gend, "term")) { for (size_t i = 0; i < ngot; i++) fptr[ngot - 1 - i] = gptr[i]; nfptr = ngot; }
  LP("f="); print_items(); LP(" fe=%s", gend);
  st_items += ngot;
  int bad = strcmp(gend, "term") != 0 || ngot != ref.n;
  for (size_t i = 0; !bad && i < ngot; i++) if (strcmp(got[i], ref.v[i].s)) bad = 1;
  if (bad) { snprintf(what, sizeof what, "foreach yields %zu items ending %s, the definition selects %zu%s%s", ngot, gend, ref.n, ngot ? "; first got " : "", ngot ? got[0] : "");
    deviation(n, A_FWD, lineno, what); }
  for (size_t i = 0; i < ngot; i++) free(got[i]);
  /* backward */
  expect = NULL;
  if (raw_container(n) && nfptr == ref.n && ref.n < CAP) { expect = fptr; nexpect = nfptr; }
  V_TRY(exc, do_bwd(obj)); if (exc) gend = "exc";
  expect = NULL;
  LP(" b="); print_items(); LP(" be=%s", gend);
  st_items += ngot;
  bad = strcmp(gend, "term") != 0 || ngot != ref.n;
  for (size_t i = 0; !bad && i < ngot; i++) if (strcmp(got[i], ref.v[ref.n - 1 - i].s)) bad = 1;
  if (bad) { snprintf(what, sizeof what, "backward walk yields %zu items ending %s, the reverse of the definition has %zu%s%s", ngot, gend, ref.n, ngot ? "; first got " : "", ngot ? got[0] : "");
    deviation(n, A_BWD, lineno, what); }
  for (size_t i = 0; i < ngot; i++) free(got[i]);
  /* len */
  glen_ok = 0; V_TRY(exc, do_len(obj));
  if (glen_ok) LP(" len=%zu", glen); else LP(" len=-");
  if (def_has_len(n)) {
    if (!glen_ok) { snprintf(what, sizeof what, "len raises %s", v_exc_name(exc)); deviation(n, A_LEN, lineno, what); }
    else if (glen != ref.n) { snprintf(what, sizeof what, "len = %zu, the definition selects %zu", glen, ref.n); deviation(n, A_LEN, lineno, what); }
  } else if (glen_ok) { snprintf(what, sizeof what, "len = %zu on a type without Len", glen); deviation(n, A_LEN, lineno, what); }
  /* get */
  if (glen_ok && def_has_get(n) && glen <= CAP && !zalias && !noget) {
    LP(" get=["); int gbad = 0;
    for (size_t i = 0; i < glen; i++) {
      char b[512];
      V_TRY(exc, do_get(obj, i));
      if (exc) snprintf(b, sizeof b, "!"); else show_into(gitem, b, sizeof b);
      LP("%s%s", i ? " " : "", b);
      if (!gbad && (i >= ref.n || strcmp(b, ref.v[i].s))) { gbad = 1; snprintf(what, sizeof what, "get(%zu) = %s, the definition has %s", i, b, i < ref.n ? ref.v[i].s : "nothing"); }
    }
    LP("]");
    if (gbad) deviation(n, A_GET, lineno, what);
    /* get at and beyond the ends: -1 (the last), -len (the first), -len-1 and len (must raise) */
    int64_t probe[4] = { -1, -(int64_t)glen, -(int64_t)glen - 1, (int64_t)glen };
    /* every type with a positional Get: negative = from the end, outside [-len, len) must raise.  Not judged: a Zip of NO inputs
       (Zip_Get answers the empty tuple for every index; the theorems about Zip have the hypothesis "at least one input") */
    int checked = !(n->kind == K_ZIP && n->nk == 0);
    LP(" gx=["); gbad = 0;
    for (int q = 0; q < 4; q++) {
      char b[512];
      V_TRY(exc, gitem = get(obj, $I(probe[q])));
      if (exc) snprintf(b, sizeof b, "!"); else show_into(gitem, b, sizeof b);
      LP("%s%s", q ? " " : "", b);
      if (checked && !gbad && glen == ref.n) {
        const char* want = (probe[q] >= -(int64_t)ref.n && probe[q] < (int64_t)ref.n) ? ref.v[(probe[q] + (int64_t)ref.n) % (int64_t)ref.n].s : "!";
        if (strcmp(b, want)) { gbad = 1; snprintf(what, sizeof what, "get(%lld) = %s on %zu elements, the definition has %s", (long long)probe[q], b, ref.n, !strcmp(want, "!") ? "no such element (IndexOutOfBoundsError)" : want); }
      }
    }
    LP("]");
    if (gbad) deviation(n, A_GETNEG, lineno, what);
  } else LP(" get=- gx=-");
  O("%s", line);
}


/* ------------------------------------------------------------------------------------------------ `G`: get during a walk */
static void do_fwd_get(var obj, size_t at, int64_t k) {
  ngot = 0; gend = "term";
  foreach (x in obj) {
    got[ngot++] = show_dup(x); if (ngot >= CAP) { gend = "fuel"; break; }
    if (ngot == at + 1) { var e; V_TRY(e, get(obj, $I(k))); (void)e; }
  }
}
static void op_get_walk(Node* n, size_t at, int64_t k, size_t lineno) {
  static char what[1024];
  nclos_p = nclos_f = 0;
  var exc; volatile var obj = NULL;
  V_TRY(exc, obj = build(n));
  if (exc) { O("construct=%s", v_exc_name(exc)); return; }
  RL ref = ref_of(n);
  ll = 0;
  V_TRY(exc, do_fwd_get(obj, at, k)); if (exc) gend = "exc";
  LP("g="); print_items(); LP(" ge=%s", gend);
  st_items += ngot;
  int bad = strcmp(gend, "term") != 0 || ngot != ref.n;
  for (size_t i = 0; !bad && i < ngot; i++) if (strcmp(got[i], ref.v[i].s)) bad = 1;
  if (bad) { snprintf(what, sizeof what, "foreach with get(obj, %lld) after item %zu yields %zu items ending %s, the definition selects %zu", (long long)k, at, ngot, gend, ref.n);
    deviation(n, A_GETWALK, lineno, what); }
  for (size_t i = 0; i < ngot; i++) free(got[i]);
  O("%s", line);
}

/* ------------------------------------------------------------------------------------------------ `Z`: one object k times in a Zip */
static var build_zip_same(Node* e, size_t k) {
  var arr[9]; var x = build(e);
  for (size_t i = 0; i < k; i++) arr[i] = x;
  arr[k] = Terminal;
  return new_raw_with(Zip, $(Tuple, arr));
}
static void op_zip_same(Node* e, size_t k, size_t lineno) {
  nclos_p = nclos_f = 0;
  Node* z = calloc(1, sizeof(Node)); z->kind = K_ZIP; z->nk = k; for (size_t i = 0; i < k; i++) z->kid[i] = e;
  var exc; volatile var obj = NULL;
  V_TRY(exc, obj = build_zip_same(e, k));
  if (exc) { O("construct=%s", v_exc_name(exc)); return; }
  zalias = e;
  walk_obj(z, obj, lineno);
  zalias = NULL;
}

/* ------------------------------------------------------------------------------------------------ `M`: mem */
static int elem_int(Node* n) {
  switch (n->kind) { case K_ZIP: case K_ENUM: return 0; case K_SLICE: case K_FILTER: return elem_int(n->kid[0]); default: return 1; }
}
static int mem_op_kind(Node* n) { return (n->kind == K_RANGE || n->kind == K_SLICE || n->kind == K_FILTER || n->kind == K_MAP) && elem_int(n); }
static int in_ref(RL* ref, int64_t k) { for (size_t i = 0; i < ref->n; i++) if (ref->v[i].key == k) return 1; return 0; }
/* answered: 0 / 1, or -1 when mem left the protocol (exception, worker died) */
static const char* mem_sig(Node* n, int64_t k, int answered, int expected) {
  const char* c0;
  if (n->kind == K_RANGE) {
    RL ref = ref_of(n);
    if (k < 0 && ref.n < CAP && answered == in_ref(&ref, (int64_t)ref.n + k)) return "kf-c11-range-mem";
    return "c11-mem";
  }
  if ((c0 = walk_cause(n, 0))) return c0;
  if (n->kind == K_SLICE && !expected && answered < 0) return "kf-c11-slice-mem";
  return "c11-mem";
}
static volatile int gmem;
static void do_mem(var obj, int64_t k) { gmem = mem(obj, $I(k)) ? 1 : 0; }
static void op_mem(Node* n, int64_t k, size_t lineno) {
  static char what[512];
  nclos_p = nclos_f = 0;
  var exc; volatile var obj = NULL;
  V_TRY(exc, obj = build(n));
  if (exc) { O("construct=%s", v_exc_name(exc)); return; }
  RL ref = ref_of(n); int expected = in_ref(&ref, k);
  V_TRY(exc, do_mem(obj, k));
  int answered = exc ? -1 : gmem;
  if (answered != expected) {
    const char* sig = mem_sig(n, k, answered, expected);
    st_dev++; if (!strncmp(sig, "kf-", 3)) st_kf++;
    if (exc) snprintf(what, sizeof what, "mem(obj, %lld) raises %s, the defined sequence %s the key", (long long)k, v_exc_name(exc), expected ? "contains" : "does not contain");
    else snprintf(what, sizeof what, "mem(obj, %lld) = %d, the defined sequence %s the key", (long long)k, answered, expected ? "contains" : "does not contain");
    X("sig=%s line=%zu what=%s", sig, lineno, what);
  }
  if (exc) O("mem=exc"); else O("mem=%d", answered);
}

/* ------------------------------------------------------------------------------------------------ `R`: a Range of any int64_t values */
static Node* range_node(const char* l) {
  char t[3][40]; int used = 0;
  if (sscanf(l, "%39s %39s %39s %n", t[0], t[1], t[2], &used) < 3 || l[used]) return NULL;
  Node* n = calloc(1, sizeof(Node)); n->kind = K_RANGE; n->nv = 3; n->v = malloc(3 * sizeof(int64_t)); n->has = malloc(3 * sizeof(int));
  for (int i = 0; i < 3; i++) {
    if (!is_int(t[i])) return NULL;
    errno = 0; n->v[i] = strtoll(t[i], NULL, 10); n->has[i] = 1;
    if (errno == ERANGE) return NULL;      /* not an int64_t */
  }
  return n;
}

/* ------------------------------------------------------------------------------------------------ `L`: white-box layout */
static size_t tree_inorder(struct Tree* m, var node, var parent, int64_t* out, size_t k, size_t cap, int* bad) {
  if (node is NULL || k >= cap) return k;
  if (Tree_Get_Parent(m, node) isnt parent) *bad = 1;
  k = tree_inorder(m, *Tree_Left(m, node), node, out, k, cap, bad);
  if (k < cap) out[k++] = ((struct Int*)Tree_Key(m, node))->val;
  return tree_inorder(m, *Tree_Right(m, node), node, out, k, cap, bad);
}
static void pos_str(char* b, size_t cap, var p, var* chain, size_t cnt) {
  if (p is NULL) { snprintf(b, cap, "-"); return; }
  for (size_t i = 0; i < cnt; i++) if (chain[i] is p) { snprintf(b, cap, "%zu", i); return; }
  snprintf(b, cap, "?");
}
static void op_layout_inner(Node* n, size_t lineno) {
  static char what[512];
  var obj = build(n);
  ll = 0;
  switch (n->mkind) {
    case M_LIST: {
      struct List* l = obj; static var chain[CAP + 8]; size_t cnt = 0; char b[32];
      for (var item = l->head; item isnt NULL && cnt < l->nitems + 2 && cnt < CAP; item = *List_Next(l, item)) chain[cnt++] = item;
      LP("links out=:%s nitems=%zu", n->out, l->nitems);
      pos_str(b, sizeof b, l->head, chain, cnt); LP(" head=%s", b);
      pos_str(b, sizeof b, l->tail, chain, cnt); LP(" tail=%s", b);
      LP(" vals=["); for (size_t i = 0; i < cnt; i++) LP("%s%lld", i ? " " : "", (long long)((struct Int*)chain[i])->val); LP("]");
      LP(" prev=["); for (size_t i = 0; i < cnt; i++) { pos_str(b, sizeof b, *List_Prev(l, chain[i]), chain, cnt); LP("%s%s", i ? " " : "", b); } LP("]");
      /* the doubly-linked invariant, directly */
      int bad = cnt != l->nitems;
      if (cnt == 0) bad |= l->head isnt NULL || l->tail isnt NULL;
      else {
        bad |= *List_Prev(l, chain[0]) isnt NULL || l->tail isnt chain[cnt - 1] || (cnt == l->nitems && *List_Next(l, chain[cnt - 1]) isnt NULL);
        for (size_t i = 1; i < cnt; i++) bad |= *List_Prev(l, chain[i]) isnt chain[i - 1];
      }
      if (bad) { snprintf(what, sizeof what, "List links after the history: not prev(head)=NULL, next(tail)=NULL, prev(next(x))=x, tail=last node, nitems=%zu nodes (chain of %zu)", l->nitems, cnt); deviation(n, A_LINKS, lineno, what); }
      break;
    }
    case M_ARRAY: {
      struct Array* a = obj;
      LP("store out=:%s nitems=%zu nslots=%zu vals=[", n->out, a->nitems, a->nslots);
      if (a->nitems > a->nslots) { snprintf(what, sizeof what, "Array nitems=%zu exceeds nslots=%zu", a->nitems, a->nslots); deviation(n, A_LINKS, lineno, what); }
      else for (size_t i = 0; i < a->nitems; i++) LP("%s%lld", i ? " " : "", (long long)((struct Int*)Array_Item(a, i))->val);
      LP("]");
      break;
    }
    case M_TABLE: {
      struct Table* t = obj; size_t occ = 0;
      LP("slots out=:%s nitems=%zu nslots=%zu [", n->out, t->nitems, t->nslots);
      for (size_t i = 0; i < t->nslots; i++) if (Table_Key_Hash(t, i) isnt 0) { LP("%s%zu:%lld", occ ? " " : "", i, (long long)((struct Int*)Table_Key(t, i))->val); occ++; }
      LP("]");
      if (occ != t->nitems) { snprintf(what, sizeof what, "Table nitems=%zu but %zu occupied slots", t->nitems, occ); deviation(n, A_LINKS, lineno, what); }
      break;
    }
    default: {
      struct Tree* m = obj; static int64_t keys[CAP + 8]; int bad = 0;
      size_t k = tree_inorder(m, m->root, NULL, keys, 0, CAP, &bad);
      LP("tree out=:%s nitems=%zu keys=[", n->out, m->nitems);
      for (size_t i = 0; i < k; i++) LP("%s%lld", i ? " " : "", (long long)keys[i]);
      LP("]");
      for (size_t i = 1; i < k; i++) if (keys[i - 1] <= keys[i]) bad = 1;
      if (bad || k != m->nitems) { snprintf(what, sizeof what, "Tree after the history: parent links / key order / nitems=%zu vs %zu nodes", m->nitems, k); deviation(n, A_LINKS, lineno, what); }
      break;
    }
  }
  { char* exp = malloc(n->nops + 1); Sh sh = shadow_of(n, exp);
    if (strcmp(exp, n->out)) { snprintf(what, sizeof what, "outcomes of the mutations are :%s, by their documented meaning :%s", n->out, exp); deviation(n, A_MUT, lineno, what); }
    free(exp); free(sh.v); }
  O("%s", line);
}
static void op_layout(Node* n, size_t lineno) {
  if (n->kind != K_MUT) { O("bad-op"); return; }
  var exc; V_TRY(exc, op_layout_inner(n, lineno));
  if (exc) O("construct=%s", v_exc_name(exc));
}

static void op_slice_arg(const char* l, size_t lineno) {
  long long nn; char t[3][32]; int k = sscanf(l, "%lld %31s %31s %31s", &nn, t[0], t[1], t[2]);
  if (k < 1 || nn < 0 || nn > 100000) { O("bad-op"); return; }
  for (int i = 0; i < k - 1; i++) if (strcmp(t[i], "_") && !is_int(t[i])) { O("bad-op"); return; }
  var a = new_raw(Array, Int); for (long long i = 0; i < nn; i++) push(a, $I(i));
  var arr[8]; size_t m = 0; arr[m++] = a;
  for (int i = 0; i < k - 1; i++) arr[m++] = strcmp(t[i], "_") ? (var)new_raw(Int, $I(strtoll(t[i], NULL, 10))) : _;
  arr[m] = Terminal;
  var exc; volatile var s = NULL;
  V_TRY(exc, s = new_raw_with(Slice, $(Tuple, arr)));
  if (exc) { O("construct=%s", v_exc_name(exc)); return; }
  struct Range* r = ((struct Slice*)s)->range;
  O("range=%lld,%lld,%lld len=%zu", (long long)r->start, (long long)r->stop, (long long)r->step, len(s));
  /* definition-based oracle for Slice_Arg / slice_stack (extension round): `_` = 0 / n / 1; an index counts from the end when
     negative and is clamped into [0, n]; the step is taken as it is.  Computed in __int128: no conversion can interfere. */
  {
    long long want[3] = { 0, nn, 1 }; int have[3] = { 0, 0, 0 }; const char* tk[3] = { NULL, NULL, NULL };
    if (k - 1 == 1) tk[1] = t[0];
    else if (k - 1 >= 2) { tk[0] = t[0]; tk[1] = t[1]; if (k - 1 == 3) tk[2] = t[2]; }
    for (int p = 0; p < 3; p++) {
      if (!tk[p] || !strcmp(tk[p], "_")) { st_sa_blank++; continue; }
      __int128 x = strtoll(tk[p], NULL, 10); have[p] = 1;
      if (p == 2) { want[p] = (long long)x; continue; }
      if (x < 0) { st_sa_neg++; x += nn; }
      if (x > nn) { st_sa_hi++; x = nn; }
      if (x < 0) { st_sa_lo++; x = 0; }
      want[p] = (long long)x;
    }
    (void)have;
    if ((long long)r->start != want[0] || (long long)r->stop != want[1] || (long long)r->step != want[2])
      X("sig=slice-arg line=%zu what=slice_stack stored (%lld,%lld,%lld), the definition (negative = from the end, clamped into [0,len]) gives (%lld,%lld,%lld)",
        lineno, (long long)r->start, (long long)r->stop, (long long)r->step, want[0], want[1], want[2]);
  }
}

/* ------------------------------------------------------------------------------------------------ worker / parent */
typedef struct { volatile size_t cur; volatile int done; volatile size_t ops, items, dev, kf, sa[4]; } Shared;
static Shared* sh;

static void worker(char** lines, size_t n, size_t from) {
  for (size_t li = from; li < n; li++) {
    char* l = lines[li];
    if (v_skippable(l)) continue;
    sh->cur = li; alarm(6);     /* an op takes milliseconds; a library loop that does not end is cut here */
    st_ops++;
    if (l[0] == 'W' && l[1] == ' ') { Node* e = parse_line(l + 2); if (!e) O("bad-op"); else op_walk(e, li + 1); }
    else if (l[0] == 'V' && l[1] == ' ') { Node* e = parse_line(l + 2); if (!e) O("bad-op"); else op_walk_macro(e, li + 1); }
    else if (l[0] == 'L' && l[1] == ' ') { Node* e = parse_line(l + 2); if (!e) O("bad-op"); else op_layout(e, li + 1); }
    else if (l[0] == 'S' && l[1] == ' ') op_slice_arg(l + 2, li + 1);
    else if (l[0] == 'G' && l[1] == ' ') {
      long long at, k; int used = 0;
      if (sscanf(l + 2, "%lld %lld %n", &at, &k, &used) < 2 || at < 0 || !used) O("bad-op");
      else { Node* e = parse_line(l + 2 + used); if (!e) O("bad-op"); else op_get_walk(e, (size_t)at, k, li + 1); }
    }
    else if (l[0] == 'M' && l[1] == ' ') {
      long long k; int used = 0;
      if (sscanf(l + 2, "%lld %n", &k, &used) < 1 || !used) O("bad-op");
      else { Node* e = parse_line(l + 2 + used); if (!e || !mem_op_kind(e)) O("bad-op"); else op_mem(e, k, li + 1); }
    }
    else if (l[0] == 'R' && l[1] == ' ') { Node* e = range_node(l + 2); if (!e) O("bad-op"); else { noget = 1; op_walk(e, li + 1); noget = 0; } }
    else if (l[0] == 'Z' && l[1] == ' ') {
      long long k; int used = 0;
      if (sscanf(l + 2, "%lld %n", &k, &used) < 1 || k < 1 || k > 6 || !used) O("bad-op");
      else { Node* e = parse_line(l + 2 + used); if (!e) O("bad-op"); else op_zip_same(e, (size_t)k, li + 1); }
    }
    else O("bad-op");
    sh->ops += 1; sh->items = st_items; sh->dev = st_dev; sh->kf = st_kf;
    sh->sa[0] = st_sa_blank; sh->sa[1] = st_sa_neg; sh->sa[2] = st_sa_hi; sh->sa[3] = st_sa_lo;
  }
  alarm(0);
  sh->done = 1;
}

int main(int argc, char** argv) {
  v_init();
  if (argc < 2) { fprintf(stderr, "usage: h_iter <opfile>\n"); return 2; }
  size_t n; char** lines = v_read_lines(argv[1], &n);
  stop(current(GC));     /* the objects under test are referenced from harness structures the collector does not scan */
  sh = mmap(NULL, sizeof(Shared), PROT_READ | PROT_WRITE, MAP_SHARED | MAP_ANONYMOUS, -1, 0);
  if (sh == MAP_FAILED) { perror("mmap"); return 2; }
  memset((void*)sh, 0, sizeof *sh);
  size_t from = 0, crashes = 0, items = 0, dev = 0, kf = 0, sa[4] = { 0, 0, 0, 0 };
  while (from < n) {
    fflush(stdout);
    sh->cur = (size_t)-1; sh->items = sh->dev = sh->kf = 0; for (int i = 0; i < 4; i++) sh->sa[i] = 0;
    pid_t pid = fork();
    if (pid < 0) { perror("fork"); return 2; }
    if (pid == 0) { worker(lines, n, from); fflush(stdout); _exit(0); }
    int st = 0; waitpid(pid, &st, 0);
    items += sh->items; dev += sh->dev; kf += sh->kf; for (int i = 0; i < 4; i++) sa[i] += sh->sa[i];
    if (sh->done) break;
    size_t k = sh->cur;
    if (k == (size_t)-1) { fprintf(stderr, "worker died before its first op\n"); return 3; }
    crashes++;
    O("crash");
    Node* e = (lines[k][0] == 'W' || lines[k][0] == 'V' || lines[k][0] == 'L') ? parse_line(lines[k] + 2) : NULL;
    int gz = lines[k][0] == 'G' || lines[k][0] == 'Z';
    if (gz) {   /* skip the leading numbers */
      const char* q = lines[k] + 2; int nnum = lines[k][0] == 'G' ? 2 : 1;
      for (int i = 0; i < nnum; i++) { while (*q && *q != ' ') q++; while (*q == ' ') q++; }
      e = parse_line(q);
      if (e && lines[k][0] == 'Z') zalias = e;
    }
    const char* sig = e ? sig_for(e, lines[k][0] == 'G' ? A_GETWALK : A_CRASH) : "c11-crash";
    zalias = NULL;
    if (lines[k][0] == 'R') { e = range_node(lines[k] + 2); sig = e ? sig_for(e, A_CRASH) : "c11-crash"; }
    if (lines[k][0] == 'M') {
      long long key = 0; int used = 0; sscanf(lines[k] + 2, "%lld %n", &key, &used);
      e = used ? parse_line(lines[k] + 2 + used) : NULL;
      if (e && mem_op_kind(e)) { RL ref = ref_of(e); sig = mem_sig(e, key, -1, in_ref(&ref, key)); } else sig = "c11-crash";
    }
    dev++; if (!strncmp(sig, "kf-", 3)) kf++;
    X("sig=%s line=%zu what=the library left the iteration protocol: worker %s %d", sig, k + 1,
      WIFSIGNALED(st) ? "killed by signal" : "exited with status", WIFSIGNALED(st) ? WTERMSIG(st) : WEXITSTATUS(st));
    from = k + 1;
  }
  I("ops=%zu items=%zu deviations=%zu in-known-territory=%zu crashes=%zu", (size_t)sh->ops, items, dev, kf, crashes);
  I("slice_arg_blank=%zu slice_arg_from_end=%zu slice_arg_clamped_to_len=%zu slice_arg_clamped_to_0=%zu", sa[0], sa[1], sa[2], sa[3]);
  return 0;
}
