/* harness/h_hdr.c — engine `hdr` (C19): objects keep their true type and class; non-heap objects are never freed.
 *
 * Executes an op file on the real library (unity build of /repo's working tree) and prints
 *   O ...  one observation per op, reproduced verbatim by lean/Driver/Hdr.lean (model Cello/Hdr.lean)
 *   X ...  the direct oracle saw the property itself violated (independent of the model; see `oracle_*` below)
 *   I ...  statistics
 *
 * op file (tokens separated by single spaces; objects are named by small integers; targets are `<id>`, `<id>.<i>`
 * (i-th element of an Array/List), `<id>.k<i>` / `<id>.v<i>` (key / value of the i-th entry, in key order, of a Table/Tree)):
 *   int <id> <route> <v> | str <id> <route> <text|-> | tup <id> <route> <id>* | ref <id> <route> <target>
 *   arr|lst <id> <route> <ety> <scalar>* | tab|tre <id> <route> <kty> <vty> (<k> <v>)*
 *                                    ety / vty: Int, String, RT<k>, Tuple (literal `t:<id>,<id>..`: the handles of its items,
 *                                    live Ints / Strings that are not on the heap) and Array (literal `a:<int>,<int>..`: an Array of Int)
 *   rtt <id> <route> <k> <size>      new(Type, "RT<k>", size)          rto <id> <route> <k> <w>   object of run-time type k
 *   sty <id> <Name>                  a built-in static Type object      cpy <id> <src>             copy(src)
 *   obs <target>
 *   dealloc|dealloc_raw|dealloc_root|del|del_raw|del_root|destruct <target>
 *   resize <t> <n> | concat|assign|push|rem <t> <src> | pop <t> | push_at <t> <src> <i> | pop_at <t> <i> | set <t> <key> <val>
 *   iter <id> fwd|back | values <id> | view slice <id> <k> | view reverse|enumerate|filter|map <id> | view zip <a> <b>
 *   view range|hrange <a> <b> <c>
 *   box <id> <route> <target|->      a Box (src/Pointer.c): its destructor `del`s what it points to; new* routes construct it
 *                                    from <target> (a Ref / Box argument is dereferenced by Box_Assign), alloc* routes give NULL,
 *                                    `stack` is `$(Box, target)` (the pointer as it is; not a Box or Ref: Box_Show follows it)
 *   own <id> <target|->              ref(box, target): re-point a Box (this is how rings and chains are built)
 *   sweep <id>* [; <id>*]            a collector run (GC_Sweep) in which exactly these objects are found unreachable; the ids
 *                                    after `;` come first on the pending list, in that order, the others follow in birth order
 *   thr <id>* [; <id>*]              the same collection, run by GC_Set itself: registered objects are allocated until the
 *                                    threshold is exceeded (GC_Mark; GC_Sweep)
 *                                    (a run-time Type object in use among the victims: tried in a forked child first; `exc=UB freed=*`
 *                                    when the Type is released before, or under, a live object of that type — KF-C19-type-outlived)
 *   exit [; <id>*]                   what the teardown at program exit does from here: a forked child calls exit(0)
 *                                    (atexit: Cello_Exit -> GC_Del -> GC_Sweep with nothing marked) and reports its release
 *                                    ledger from a destructor-attribute function; the parent goes on unchanged
 *   kf <name>                        witness of a known finding, run in a forked child
 *   end
 *   route ∈ new new_raw new_root alloc alloc_raw alloc_root stack static
 *
 * Stack objects are made with the real `$` / `tuple` macros in a frame that stays alive while the rest of the file runs
 * (the interpreter recurses at every stack birth).  `free` and `realloc` of the whole library are routed through hooks
 * (macros, no change to /repo): the hooks keep the ledger of released blocks and refuse — with an X line — to free or
 * reallocate memory that belongs to a stack, static or embedded object.
 *
 * Release ledger: every `free` of the block of a heap object is recorded, in order (`rel=` / `freed=` of the O lines: the
 * exact release sequence, which the model predicts); the oracle computes, independently of the model and before the
 * operation runs, the set of objects the operation must release — the object itself (the victims), closed under "a Box
 * that is released deletes its pointee if the collector lists it" on the harness's own shadow of the Box pointers — and
 * compares per object: released exactly once if in the set, not at all otherwise.
 * Pending order and marks of a collection: GC_Sweep's first statement is `realloc(gc->freelist, ..)`; when a collection
 * is expected the realloc hook uses that moment (after GC_Mark, before phase 1) to set the mark bits (everything marked
 * except the victims) and to lay the victims out in the order the op asks for, by exchanging the `ptr` words of the
 * victims' registry entries among themselves — what another assignment of addresses to the same objects would give;
 * phase 1 copies `ptr` to the pending list and removes those entries, nothing else reads them. */
#include <stdlib.h>
#include <stddef.h>
#include <stdint.h>
static void v_hook_free(void* p);
static void* v_hook_realloc(void* p, size_t n);
#define free(p) v_hook_free(p)
#define realloc(p, n) v_hook_realloc(p, n)
#include "common.h"
#undef free
#undef realloc
#include <sanitizer/allocator_interface.h>
#include <sanitizer/common_interface_defs.h>

#define HS ((size_t)sizeof(struct Header))
enum { MAXH = 600, MAXRT = 16, MAXENT = 512 };
enum { R_NEW, R_NEW_RAW, R_NEW_ROOT, R_ALLOC, R_ALLOC_RAW, R_ALLOC_ROOT, R_STACK, R_STATIC, R_BAD };
enum { K_INT, K_STR, K_TUP, K_REF, K_ARR, K_LST, K_TAB, K_TRE, K_RTT, K_RTO, K_STY, K_BOX };

typedef struct {
  int used, live;      /* live: the oracle's own ledger (set false when the block is seen freed) */
  int route, kind;
  var etype;           /* the constructing type: what type_of must return */
  int ecls;            /* class the route must give */
  int ereg;            /* 0 not registered, 1 auto, 2 root */
  int rtk;             /* run-time type number of a K_RTT / K_RTO */
  void* addr;          /* the object pointer (kept after death for pointer -> id) */
  void* block;         /* start of the malloc block of a heap object */
  int frees;           /* how often `block` was passed to free */
  size_t cap;          /* bytes reserved after the header, when the harness made the storage itself */
  int stamp;           /* birth order */
  int owns;            /* K_BOX: the harness's shadow of what the Box points to (-1 = NULL) */
} Meta;
static Meta meta[MAXH];
static var* tab;       /* live handles: lives in main's frame so that the collector sees them */
static size_t cur_line;
static int n_ops, n_refused, n_births, n_x;
static int relseq[1 << 16]; static int nrel;      /* the release ledger: ids in the order their blocks were freed */
static int in_exit_child, exit_pipe = -1, in_kf_child, in_trial_child;

static var rt_type[MAXRT]; static size_t rt_size[MAXRT]; static int rt_defined[MAXRT];
static const char* rt_name[MAXRT] = { "RT0","RT1","RT2","RT3","RT4","RT5","RT6","RT7","RT8","RT9","RT10","RT11","RT12","RT13","RT14","RT15" };

#define XF(sig, ...) do { n_x++; fprintf(vout, "X sig=%s line=%zu what=", sig, cur_line); fprintf(vout, __VA_ARGS__); fputc('\n', vout); } while (0)

/* ------------------------------------------------------------------------------------------- free / realloc hooks */
typedef struct { char* lo; char* hi; const char* what; } Region;
static Region forb[8]; static int nforb;         /* memory of the non-heap target of the current op */
static int forb_hits;
static void* owned_watch; static int owned_freed;  /* buffer owned by an embedded String (witness of a known finding) */

static void v_hook_free(void* p) {
  if (p) {
    for (int i = 0; i < nforb; i++) if ((char*)p >= forb[i].lo && (char*)p < forb[i].hi) {
      forb_hits++; XF("hdr-free-nonheap", "free(%s) of a stack, static or embedded object", forb[i].what); return; }
    if (p == owned_watch) owned_freed++;
    for (int id = 0; id < MAXH; id++) if (meta[id].used && meta[id].block == p) {
      meta[id].frees++; meta[id].live = 0;
      if (nrel < (1 << 16)) relseq[nrel++] = id;
      if (meta[id].frees > 1) { XF("hdr-double-release", "block of object %d freed %d times", id, meta[id].frees); return; }
    }
  }
  free(p);
}
static struct { int armed, fired, all; struct GC* gc; int nv; int vict[MAXH]; int no; int order[64]; } hk;
static void sweep_prepare(struct GC* gc);
static void* v_hook_realloc(void* p, size_t n) {
  if (hk.armed && !hk.fired && hk.gc && p == (void*)hk.gc->freelist && n == sizeof(var) * hk.gc->nitems) { hk.fired = 1; sweep_prepare(hk.gc); }
  if (p) {
    for (int i = 0; i < nforb; i++) if ((char*)p >= forb[i].lo && (char*)p < forb[i].hi) {
      forb_hits++; XF("hdr-realloc-nonheap", "realloc(%s) of a stack, static or embedded object", forb[i].what); return p; }
    for (int id = 0; id < MAXH; id++) if (meta[id].used && meta[id].live && meta[id].block == p)
      XF("hdr-realloc-object", "block of object %d passed to realloc", id);
  }
  return realloc(p, n);
}
static void forbid(void* lo, size_t n, const char* what) { if (nforb < 8 && lo) { forb[nforb].lo = lo; forb[nforb].hi = (char*)lo + (n ? n : 1); forb[nforb].what = what; nforb++; } }

/* ------------------------------------------------------------------------------------------------------ helpers */
static int cls_of(var x) { return (int)(intptr_t)header(x)->alloc; }
static const char* cls_name(int c) {
  static char b[16];
  switch (c) { case AllocStatic: return "static"; case AllocStack: return "stack"; case AllocHeap: return "heap"; case AllocData: return "data"; }
  snprintf(b, sizeof b, "c%d", c); return b;
}
static int magic_ok(var x) { return header(x)->magic == (var)CELLO_MAGIC_NUM; }
static const char* ty_name(var x) { return magic_ok(x) ? c_str(type_of(x)) : "BADMAGIC"; }
static const char* reg_name(var x) {
  struct GC* gc = current(GC);
  for (size_t i = 0; i < gc->nslots; i++) if (gc->entries[i].hash && gc->entries[i].ptr == x) return gc->entries[i].root ? "root" : "auto";
  return "-";
}
static int id_of(var p) { for (int id = 0; id < MAXH; id++) if (meta[id].used && meta[id].addr == p) return id; return -1; }
static int is_live(int id) { return id >= 0 && id < MAXH && meta[id].used && meta[id].live; }
static int usable_arg(int id) { return id >= 0 && id < MAXH && meta[id].used && meta[id].live && meta[id].addr != Terminal; }
/* is the object what some live Box points to (by the harness's shadow)? */
static int owned(int id) { for (int j = 0; j < MAXH; j++) if (meta[j].used && meta[j].live && meta[j].kind == K_BOX && meta[j].owns == id) return 1; return 0; }
static int usable_item(int id) { return usable_arg(id) && !owned(id) && meta[id].kind != K_BOX; }   /* Box_Show follows the pointer: no Boxes inside Tuples */
static int route_is_alloc(int r) { return r == R_ALLOC || r == R_ALLOC_RAW || r == R_ALLOC_ROOT; }
static int route_is_heap(int r) { return r <= R_ALLOC_ROOT; }

static int parse_route(const char* w) {
  static const char* n[] = { "new", "new_raw", "new_root", "alloc", "alloc_raw", "alloc_root", "stack", "static" };
  for (int i = 0; i < 8; i++) if (!strcmp(w, n[i])) return i;
  return R_BAD;
}
static int parse_nat(const char* w, long* out) {
  if (!*w) return 0; for (const char* c = w; *c; c++) if (*c < '0' || *c > '9') return 0;
  if (strlen(w) > 15) return 0; *out = atol(w); return 1;
}
static int parse_int(const char* w, long* out) {
  const char* c = w; if (*c == '-') c++;          /* Lean's String.toInt? accepts a leading '-' only */
  long v; if (!parse_nat(c, &v)) return 0; *out = (c == w) ? v : -v; return 1;
}
static int is_text(const char* w) {
  if (!strcmp(w, "-")) return 1; if (!*w) return 0;
  for (const char* c = w; *c; c++) if (!((*c >= '0' && *c <= '9') || (*c >= 'a' && *c <= 'z') || (*c >= 'A' && *c <= 'Z'))) return 0;
  return 1;
}
static const char* text_of(const char* w) { return strcmp(w, "-") ? w : ""; }

typedef struct { int kind; int id; int i; } Target;      /* kind: 0 obj, 1 elem, 2 key, 3 val */
static int parse_target(const char* w, Target* t) {
  char buf[64]; if (strlen(w) >= sizeof buf) return 0; strcpy(buf, w);
  char* dot = strchr(buf, '.'); long a, b;
  if (!dot) { if (!parse_nat(buf, &a)) return 0; t->kind = 0; t->id = (int)a; t->i = 0; return a < MAXH; }
  *dot = 0; if (strchr(dot + 1, '.')) return 0;
  if (!parse_nat(buf, &a) || a >= MAXH) return 0; t->id = (int)a;
  if (dot[1] == 'k') { if (!parse_nat(dot + 2, &b)) return 0; t->kind = 2; }
  else if (dot[1] == 'v') { if (!parse_nat(dot + 2, &b)) return 0; t->kind = 3; }
  else { if (!parse_nat(dot + 1, &b)) return 0; t->kind = 1; }
  t->i = (int)b; return 1;
}

/* element types: Int, String, RT<k> (live) ; 0 = not an element type, -1 = element type that is not usable now */
static int parse_ety(const char* w, var* ty, int* rtk) {
  *rtk = -1;
  if (!strcmp(w, "Int")) { *ty = Int; return 1; }
  if (!strcmp(w, "String")) { *ty = String; return 1; }
  if (!strcmp(w, "Tuple")) { *ty = Tuple; return 1; }
  if (!strcmp(w, "Array")) { *ty = Array; return 1; }
  if (w[0] == 'R' && w[1] == 'T') { long k; if (!parse_nat(w + 2, &k)) return 0; *rtk = (int)k;
    if (k < MAXRT && rt_defined[k] && is_live(id_of(rt_type[k]))) { *ty = rt_type[k]; return 1; } return -1; }
  return 0;
}
/* `<tag>:` followed by comma-separated numbers (possibly none); returns the count or -1 */
static int parse_tagged(const char* w, char tag, int is_nat, long* out, int max) {
  if (w[0] != tag || w[1] != ':') return -1;
  const char* p = w + 2; int n = 0;
  if (!*p) return 0;
  for (;;) {
    char num[32]; size_t k = 0;
    while (*p && *p != ',' && k < sizeof num - 1) num[k++] = *p++;
    num[k] = 0; long v;
    if (*p && *p != ',') return -1;
    if (is_nat ? !parse_nat(num, &v) : !parse_int(num, &v)) return -1;
    if (n < max) out[n] = v; n++;
    if (!*p) break;
    p++; if (!*p) return -1;
  }
  return n;
}
static int scalar_ok(var ty, const char* w) {
  long v, buf[64];
  if (ty == String) return is_text(w);
  if (ty == Tuple) return parse_tagged(w, 't', 1, buf, 64) >= 0;
  if (ty == Array) return parse_tagged(w, 'a', 0, buf, 64) >= 0;
  return parse_int(w, &v);
}
static int usable_item(int id);
/* can be an item of an embedded Tuple: a live Int or String that is not on the heap and that no live Box owns */
static int fixed_item(int id) {
  return id >= 0 && id < MAXH && usable_item(id) && meta[id].ecls != AllocHeap && (meta[id].kind == K_INT || meta[id].kind == K_STR)
      && !(meta[id].kind == K_STR && ((struct String*)meta[id].addr)->val == NULL);
}
/* a literal that can be stored (model: St.storable) */
static int storable(var ty, const char* w) {
  if (ty != Tuple) return 1;
  long it[64]; int n = parse_tagged(w, 't', 1, it, 64);
  if (n < 0 || n > 6) return 0;
  for (int k = 0; k < n; k++) if (it[k] >= MAXH || !fixed_item((int)it[k])) return 0;
  return 1;
}

/* ------------------------------------------------------------------------------------------------------ dumps */
static char* dump_scalar(char* o, char* end, var x) {
  var ty = type_of(x);
  if (ty == Int) o += snprintf(o, end - o, "i%ld", (long)c_int(x));
  else if (ty == String) { char* v = ((struct String*)x)->val; o += snprintf(o, end - o, "s%s", v ? v : "!freed"); }
  else if (ty == Tuple) {        /* an embedded Tuple: the ids of its items (`items` NULL: poisoned after its destructor freed them) */
    struct Tuple* t = x;
    if (!t->items) o += snprintf(o, end - o, "t!freed");
    else { o += snprintf(o, end - o, "t["); for (size_t i = 0; t->items[i] != Terminal; i++) o += snprintf(o, end - o, i ? ",%d" : "%d", id_of(t->items[i])); o += snprintf(o, end - o, "]"); }
  }
  else if (ty == Array) {        /* an embedded Array of Int */
    struct Array* a = x;
    if (!a->data && a->nitems) o += snprintf(o, end - o, "a!freed");
    else { o += snprintf(o, end - o, "a["); for (size_t i = 0; i < a->nitems; i++) o += snprintf(o, end - o, i ? ",%ld" : "%ld", (long)c_int(get(x, $I(i)))); o += snprintf(o, end - o, "]"); }
  }
  else o += snprintf(o, end - o, "p%ld", (long)*(int64_t*)x);
  return o;
}
typedef struct { var k; var v; } Ent;
static var sort_kty;
static int ent_cmp(const void* a, const void* b) {
  var x = ((const Ent*)a)->k, y = ((const Ent*)b)->k;
  if (sort_kty == Int) { int64_t p = c_int(x), q = c_int(y); return p < q ? -1 : p > q; }
  return strcmp(c_str(x), c_str(y));
}
static size_t map_entries(var m, Ent* out) {
  size_t n = 0;
  foreach (key in m) { if (n < MAXENT) { out[n].k = key; out[n].v = get(m, key); n++; } }
  sort_kty = key_type(m);
  qsort(out, n, sizeof(Ent), ent_cmp);
  return n;
}
static void dump_obj(char* o, char* end, int id) {
  var x = meta[id].addr;
  switch (meta[id].kind) {
    case K_INT: case K_STR: case K_RTO: dump_scalar(o, end, x); break;
    case K_TUP: {
      struct Tuple* t = x; o += snprintf(o, end - o, "t[");
      if (t->items == NULL) { snprintf(o - 2, end - o + 2, "!destroyed"); break; }
      size_t i = 0;
      for (; t->items[i] != Terminal; i++) if (i < 24) { int k = id_of(t->items[i]); o += snprintf(o, end - o, i ? ",%d" : "%d", k); }
      if (i > 24) o += snprintf(o, end - o, ",..+%zu", i - 24);
      snprintf(o, end - o, "]"); break; }
    case K_REF: snprintf(o, end - o, "r%d", id_of(((struct Ref*)x)->val)); break;
    case K_BOX: { var v = ((struct Box*)x)->val; if (v == NULL) snprintf(o, end - o, "b-"); else snprintf(o, end - o, "b%d", id_of(v)); break; }
    case K_ARR: case K_LST: {
      o += snprintf(o, end - o, "%c%s[", meta[id].kind == K_ARR ? 'a' : 'l', c_str(iter_type(x)));
      size_t n = len(x);
      for (size_t i = 0; i < n && i < 24; i++) { if (i) *o++ = ','; o = dump_scalar(o, end, get(x, $I(i))); }
      if (n > 24) o += snprintf(o, end - o, ",..+%zu", n - 24);
      snprintf(o, end - o, "]"); break; }
    case K_TAB: case K_TRE: {
      static Ent ents[MAXENT]; size_t n = map_entries(x, ents);
      o += snprintf(o, end - o, "%c%s,%s{", meta[id].kind == K_TAB ? 'h' : 'm', c_str(key_type(x)), c_str(val_type(x)));
      for (size_t i = 0; i < n && i < 24; i++) { if (i) *o++ = ','; o = dump_scalar(o, end, ents[i].k); *o++ = ':'; o = dump_scalar(o, end, ents[i].v); }
      if (n > 24) o += snprintf(o, end - o, ",..+%zu", n - 24);
      snprintf(o, end - o, "}"); break; }
    case K_RTT: case K_STY: snprintf(o, end - o, "T%s", c_str(x)); break;
  }
}

/* the embedded object a target designates, or NULL */
static var resolve_elem(Target t) {
  if (!is_live(t.id)) return NULL;
  var x = meta[t.id].addr; int k = meta[t.id].kind;
  if (t.kind == 1) { if ((k == K_ARR || k == K_LST) && (size_t)t.i < len(x)) return get(x, $I(t.i)); return NULL; }
  if (k == K_TAB || k == K_TRE) {
    static Ent ents[MAXENT]; size_t n = map_entries(x, ents);
    if ((size_t)t.i < n) return t.kind == 2 ? ents[t.i].k : ents[t.i].v;
  }
  return NULL;
}
static size_t elem_cap(Target t) {
  var x = meta[t.id].addr;
  switch (meta[t.id].kind) {
    case K_ARR: return ((struct Array*)x)->tsize;
    case K_LST: return ((struct List*)x)->tsize;
    case K_TAB: return t.kind == 2 ? ((struct Table*)x)->ksize : ((struct Table*)x)->vsize;
    case K_TRE: return t.kind == 2 ? ((struct Tree*)x)->ksize : ((struct Tree*)x)->vsize;
  }
  return 0;
}
static var elem_decl_type(Target t) {          /* the container's declared type for this element (white box) */
  var x = meta[t.id].addr;
  switch (meta[t.id].kind) {
    case K_ARR: return ((struct Array*)x)->type;
    case K_LST: return ((struct List*)x)->type;
    case K_TAB: return t.kind == 2 ? ((struct Table*)x)->ktype : ((struct Table*)x)->vtype;
    case K_TRE: return t.kind == 2 ? ((struct Tree*)x)->ktype : ((struct Tree*)x)->vtype;
  }
  return NULL;
}
static size_t obj_cap(int id) {
  if (meta[id].block) return __sanitizer_get_allocated_size(meta[id].block) - HS;
  return meta[id].cap;
}

/* ---------------------------------------------------------------------------------------------- the direct oracle */
/* (1) every registered pointer is a heap-class object */
static void oracle_registry(void) {
  struct GC* gc = current(GC);
  for (size_t i = 0; i < gc->nslots; i++) if (gc->entries[i].hash) {
    var p = gc->entries[i].ptr;
    int dead = 0; for (int id = 0; id < MAXH; id++) if (meta[id].used && !meta[id].live && meta[id].addr == p) dead = 1;
    if (dead) { XF("hdr-registry-dangling", "a released object is still registered with the collector"); continue; }
    if (cls_of(p) != AllocHeap) XF("hdr-registry-nonheap", "collector registry holds a %s object of type %s", cls_name(cls_of(p)), ty_name(p));
  }
}
/* (2) an object handed out: true type, class of its route, magic number, size(type) bytes usable */
static void oracle_object(var x, var want_type, int want_cls, const char* how) {
  if (!magic_ok(x)) { XF("hdr-magic", "%s: bad magic number", how); return; }
  var ty = type_of(x);
  if (ty != want_type) XF("hdr-type", "%s: type_of gives %s, the object is a %s", how, c_str(ty), c_str(want_type));
  if (cls_of(x) != want_cls) XF("hdr-class", "%s: allocation class %s, expected %s", how, cls_name(cls_of(x)), cls_name(want_cls));
  size_t n = size(ty);
  if (n > 4096) { XF("hdr-size", "%s: size(type) = %zu", how, n); return; }
  /* size(type) bytes are writable (AddressSanitizer checks the bounds) and the header survives */
  struct Header before = *header(x);
  unsigned char save[4096]; memcpy(save, x, n);
  memset(x, 0x5A, n);
  for (size_t i = 0; i < n; i++) if (((unsigned char*)x)[i] != 0x5A) { XF("hdr-size", "%s: byte %zu of %zu not usable", how, i, n); break; }
  memcpy(x, save, n);
  if (memcmp(&before, header(x), sizeof before)) XF("hdr-size", "%s: writing size(type) bytes changed the header", how);
}
static void oracle_handle(int id, const char* how) {
  var x = meta[id].addr;
  oracle_object(x, meta[id].etype, meta[id].ecls, how);
  const char* r = reg_name(x);
  const char* want = meta[id].ereg == 0 ? "-" : meta[id].ereg == 1 ? "auto" : "root";
  if (strcmp(r, want)) XF("hdr-registration", "%s: registered `%s`, expected `%s`", how, r, want);
}

/* ----------------------------------------------------------------------------------------------- describing targets */
/* the slot level of an Array (Cello/HdrSlots.lean): number of elements, number of slots, and how many element slots do not
   carry (element type, AllocData, magic number) — read straight from the storage, not through get() */
static void array_slots(var x, size_t* n, size_t* cap, int* bad) {
  struct Array* a = x; *n = a->nitems; *cap = a->nslots; *bad = 0;
  for (size_t j = 0; j < a->nitems && j < a->nslots; j++) {
    struct Header* h = (struct Header*)((char*)a->data + (a->tsize + sizeof(struct Header)) * j);
    if (h->magic != (var)CELLO_MAGIC_NUM || h->type != a->type || h->alloc != (var)(intptr_t)AllocData) (*bad)++;
  }
}
static long slot_stat[16];
static const char* slot_stat_name[16] = { "push", "push-grow", "pop", "pop-shrink", "pushat", "pushat-grow", "popat", "popat-shrink", "concat",
  "resize0", "resize-shrink", "resize-same", "resize-grow", "refused", "pushat-end", "pushat-end-fresh" };

static void describe(char* o, char* end, Target t) {
  if (!meta[t.id].used) { snprintf(o, end - o, "gone"); return; }
  if (!meta[t.id].live) { snprintf(o, end - o, "ty=- cls=- reg=- live=0 v=-"); return; }
  if (t.kind == 0) {
    var x = meta[t.id].addr;
    o += snprintf(o, end - o, "ty=%s cls=%s reg=%s live=1 sz=%zu cap=%zu v=", ty_name(x), cls_name(cls_of(x)), reg_name(x),
                  magic_ok(x) ? size(type_of(x)) : (size_t)0, obj_cap(t.id));
    dump_obj(o, end, t.id);
    if (meta[t.id].kind == K_ARR) { size_t n, cap; int bad; array_slots(x, &n, &cap, &bad); o += strlen(o); snprintf(o, end - o, " slots=%zu/%zu/%d", n, cap, bad); }
  } else {
    var e = resolve_elem(t);
    if (!e) { snprintf(o, end - o, "gone"); return; }
    o += snprintf(o, end - o, "ty=%s cls=%s reg=- live=1 sz=%zu cap=%zu v=", ty_name(e), cls_name(cls_of(e)),
                  magic_ok(e) ? size(type_of(e)) : (size_t)0, elem_cap(t));
    dump_scalar(o, end, e);
  }
}

/* ------------------------------------------------------------------------------------------------------- births */
static int new_handle(int id, int route, int kind, var x, var etype, int rtk, size_t cap) {
  Meta* m = &meta[id]; memset(m, 0, sizeof *m);
  m->owns = -1;
  m->used = 1; m->live = 1; m->route = route; m->kind = kind; m->etype = etype; m->rtk = rtk; m->addr = x; m->cap = cap;
  m->ecls = route == R_STACK ? AllocStack : route == R_STATIC ? AllocStatic : AllocHeap;
  m->ereg = (route == R_NEW || route == R_ALLOC) ? 1 : (route == R_NEW_ROOT || route == R_ALLOC_ROOT) ? 2 : 0;
  if (route_is_heap(route)) {
    m->block = (char*)x - HS;
    for (int j = 0; j < MAXH; j++) if (j != id && meta[j].used && !meta[j].live && meta[j].block == m->block) meta[j].block = NULL;
  }
  for (int j = 0; j < MAXH; j++) if (j != id && meta[j].used && !meta[j].live && meta[j].addr == x) meta[j].addr = NULL;
  tab[id] = x; m->stamp = n_births++;
  return id;
}
static void report_birth(int id) {
  char buf[3500]; Target t = { 0, id, 0 };
  describe(buf, buf + sizeof buf, t);
  O("mk %d %s", id, buf);
  oracle_handle(id, "birth");
  oracle_registry();
}
static var by_route(int route, var type, var args) {
  switch (route) {
    case R_NEW: return new_with(type, args);
    case R_NEW_RAW: return new_raw_with(type, args);
    case R_NEW_ROOT: return new_root_with(type, args);
    case R_ALLOC: return alloc(type);
    case R_ALLOC_RAW: return alloc_raw(type);
    case R_ALLOC_ROOT: return alloc_root(type);
  }
  return NULL;
}

/* storage for hand-made static objects (class AllocStatic, as a Cello object living in the data segment has) */
static char spool[64][HS + 16 + 64 + 8 * 8]; static int nspool;

static void exec(char** lines, size_t n, size_t from);

/* stack births: the object lives in this frame, which stays alive while the rest of the file is executed */
static void birth_stack_int(char** lines, size_t n, size_t i, int id, long v) {
  var x = $I(v);
  new_handle(id, R_STACK, K_INT, x, Int, -1, sizeof(struct Int)); report_birth(id);
  exec(lines, n, i + 1);
  meta[id].live = 0; tab[id] = NULL;
}
static void birth_stack_str(char** lines, size_t n, size_t i, int id, const char* text) {
  char buf[72]; snprintf(buf, sizeof buf, "%s", text);
  var x = $S(buf);
  new_handle(id, R_STACK, K_STR, x, String, -1, sizeof(struct String)); report_birth(id);
  exec(lines, n, i + 1);
  meta[id].live = 0; tab[id] = NULL;
}
static void birth_stack_ref(char** lines, size_t n, size_t i, int id, var target) {
  var x = $R(target);
  new_handle(id, R_STACK, K_REF, x, Ref, -1, sizeof(struct Ref)); report_birth(id);
  exec(lines, n, i + 1);
  meta[id].live = 0; tab[id] = NULL;
}
static void birth_stack_box(char** lines, size_t n, size_t i, int id, int target) {
  var x = $(Box, target >= 0 ? meta[target].addr : NULL);
  new_handle(id, R_STACK, K_BOX, x, Box, -1, sizeof(struct Box)); meta[id].owns = target; report_birth(id);
  exec(lines, n, i + 1);
  meta[id].live = 0; tab[id] = NULL;
}
static void birth_stack_tup(char** lines, size_t n, size_t i, int id, var* it, int cnt) {
  var x = NULL;
  switch (cnt) {
    case 0: x = tuple(); break;
    case 1: x = tuple(it[0]); break;
    case 2: x = tuple(it[0], it[1]); break;
    case 3: x = tuple(it[0], it[1], it[2]); break;
    case 4: x = tuple(it[0], it[1], it[2], it[3]); break;
    case 5: x = tuple(it[0], it[1], it[2], it[3], it[4]); break;
    default: x = tuple(it[0], it[1], it[2], it[3], it[4], it[5]); break;
  }
  new_handle(id, R_STACK, K_TUP, x, Tuple, -1, sizeof(struct Tuple)); report_birth(id);
  exec(lines, n, i + 1);
  meta[id].live = 0; tab[id] = NULL;
}

/* push a scalar literal of element type `ty` into a container through the public API */
static void with_scalar(var ty, const char* w, void (*f)(var, var), var cont) {
  if (ty == Int) { long v; parse_int(w, &v); f(cont, $I(v)); }
  else if (ty == String) { char b[72]; snprintf(b, sizeof b, "%s", text_of(w)); f(cont, $S(b)); }
  else if (ty == Tuple) {       /* assign(slot, tuple(items..)): Tuple_Assign copies the pointers into a block of the slot's own */
    long id[8]; int n = parse_tagged(w, 't', 1, id, 6); var it[6];
    for (int k = 0; k < n && k < 6; k++) it[k] = meta[id[k]].addr;
    switch (n) {
      case 0: f(cont, tuple()); break;
      case 1: f(cont, tuple(it[0])); break;
      case 2: f(cont, tuple(it[0], it[1])); break;
      case 3: f(cont, tuple(it[0], it[1], it[2])); break;
      case 4: f(cont, tuple(it[0], it[1], it[2], it[3])); break;
      case 5: f(cont, tuple(it[0], it[1], it[2], it[3], it[4])); break;
      default: f(cont, tuple(it[0], it[1], it[2], it[3], it[4], it[5])); break;
    }
  }
  else if (ty == Array) {       /* assign(slot, array of Int): Array_Assign copies the elements into a store of the slot's own */
    long v[64]; int n = parse_tagged(w, 'a', 0, v, 64);
    var o = new_raw(Array, Int); for (int k = 0; k < n && k < 64; k++) push(o, $I(v[k]));
    f(cont, o); del_raw(o);
  }
  else { long v; parse_int(w, &v); var o = new_raw(ty); *(int64_t*)o = v; f(cont, o); del_raw(o); }
}
static var g_setkey;
static void set_with_key(var cont, var val) { set(cont, g_setkey, val); }
static void keyed(var kty, const char* kw, var vty, const char* vw, var cont) {
  if (kty == Int) { long v; parse_int(kw, &v); g_setkey = $I(v); with_scalar(vty, vw, set_with_key, cont); }
  else { char b[72]; snprintf(b, sizeof b, "%s", text_of(kw)); g_setkey = $S(b); with_scalar(vty, vw, set_with_key, cont); }
}

/* --------------------------------------------------------------------------------------------- freeing operations */
enum { F_DEALLOC, F_DEALLOC_RAW, F_DEALLOC_ROOT, F_DEL, F_DEL_RAW, F_DEL_ROOT, F_DESTRUCT, F_NONE };
static const char* fop_name[] = { "dealloc", "dealloc_raw", "dealloc_root", "del", "del_raw", "del_root", "destruct" };
static int parse_fop(const char* w) { for (int i = 0; i < F_NONE; i++) if (!strcmp(w, fop_name[i])) return i; return F_NONE; }
static void call_fop(int f, var x) {
  switch (f) {
    case F_DEALLOC: dealloc(x); break; case F_DEALLOC_RAW: dealloc_raw(x); break; case F_DEALLOC_ROOT: dealloc_root(x); break;
    case F_DEL: del(x); break; case F_DEL_RAW: del_raw(x); break; case F_DEL_ROOT: del_root(x); break;
    case F_DESTRUCT: destruct(x); break;
  }
}
static int fop_via_collector(int f) { return f == F_DEL || f == F_DEL_ROOT; }

static int type_in_use(int k) {
  for (int id = 0; id < MAXH; id++) if (meta[id].used && meta[id].live) {
    if (meta[id].kind == K_RTO && meta[id].rtk == k) return 1;
    var x = meta[id].addr;
    if ((meta[id].kind == K_ARR || meta[id].kind == K_LST) && iter_type(x) == rt_type[k]) return 1;
    if ((meta[id].kind == K_TAB || meta[id].kind == K_TRE) && (key_type(x) == rt_type[k] || val_type(x) == rt_type[k])) return 1;
  }
  return 0;
}
static int is_type_in_use(int id) { return meta[id].kind == K_RTT && type_in_use(meta[id].rtk); }
static int referenced(int id) {
  var x = meta[id].addr;
  for (int j = 0; j < MAXH; j++) if (meta[j].used && meta[j].live && meta[j].kind == K_TUP) {
    struct Tuple* t = meta[j].addr; if (!t->items) continue;
    for (size_t i = 0; t->items[i] != Terminal; i++) if (t->items[i] == x) return 1;
  }
  return 0;
}
/* memory that must not be freed or reallocated while an operation is applied to the non-heap object x */
static void protect(var x, size_t cap) {
  nforb = 0; forb_hits = 0;
  forbid((char*)x - HS, HS + cap, "the object itself");
  if (cls_of(x) == AllocStack || cls_of(x) == AllocStatic) {
    var ty = magic_ok(x) ? type_of(x) : NULL;
    if (ty == String) { char* v = ((struct String*)x)->val; if (v) forbid(v, strlen(v) + 1, "the characters of a String that is not on the heap"); }
    if (ty == Tuple) { struct Tuple* t = x; if (t->items) { size_t k = 0; while (t->items[k] != Terminal) k++; forbid(t->items, (k + 1) * sizeof(var), "the items of a Tuple that is not on the heap"); } }
  }
}
static void unprotect(void) { nforb = 0; }

/* ----------------------------------------------------------------------------- the release ledger and its oracle */
static int is_registered_in(struct GC* gc, int id) { return meta[id].used && meta[id].live && meta[id].addr && route_is_heap(meta[id].route) && GC_Mem_Ptr(gc, meta[id].addr); }
static int ownable(int u) { return usable_arg(u) && !referenced(u) && meta[u].kind != K_RTT && meta[u].kind != K_STY; }
static int plain_pointee(int u) { return u >= 0 && u < MAXH && meta[u].used && meta[u].kind != K_BOX && meta[u].kind != K_REF; }
static int exp_rel[MAXH], frees_before[MAXH], reg_before[MAXH], nrel0;
static void expect_begin(void) {
  nrel0 = nrel; struct GC* gc = current(GC);
  for (int id = 0; id < MAXH; id++) { exp_rel[id] = 0; frees_before[id] = meta[id].frees; reg_before[id] = meta[id].used ? is_registered_in(gc, id) : 0; }
}
/* a Box whose destructor runs deletes its pointee: released too if the collector lists it (registered when the op began) */
static void expect_closure(void) {
  for (int changed = 1; changed;) {
    changed = 0;
    for (int b = 0; b < MAXH; b++) if (exp_rel[b] && meta[b].used && meta[b].kind == K_BOX && meta[b].owns >= 0) {
      int v = meta[b].owns;
      if (meta[v].used && meta[v].live && !exp_rel[v] && reg_before[v]) { exp_rel[v] = 1; changed = 1; }
      /* a pointee that is not on the heap must survive: the hooks refuse to free it */
      if (meta[v].used && meta[v].live && meta[v].ecls != AllocHeap && nforb < 8) forbid((char*)meta[v].addr - HS, HS + meta[v].cap, "a stack or static object owned by a Box");
    }
  }
}
static void expect_check(const char* opname) {
  for (int id = 0; id < MAXH; id++) if (meta[id].used) {
    int delta = meta[id].frees - frees_before[id];
    if (delta != exp_rel[id])
      XF("hdr-release-count", "%s released object %d (%s, %s) %d times, expected %d", opname, id, cls_name(meta[id].ecls),
         meta[id].ereg ? "registered at birth" : "raw", delta, exp_rel[id]);
  }
}
static const char* rel_since(int n0) {
  static char out[1200]; char* o = out; *o = 0;
  if (nrel == n0) return "-";
  for (int k = n0; k < nrel && o < out + sizeof out - 16; k++) o += snprintf(o, out + sizeof out - o, k > n0 ? ",%d" : "%d", relseq[k]);
  return out;
}
/* runs at the first statement of GC_Sweep (see the realloc hook): marks and pending order of the collection under way */
static void sweep_prepare(struct GC* gc) {
  static size_t slots[MAXH * 2]; static var ptrs[MAXH * 2]; static long keys[MAXH * 2]; size_t ns = 0;
  for (size_t q = 0; q < gc->nslots; q++) if (gc->entries[q].hash) {
    int id = id_of(gc->entries[q].ptr), victim = 0;
    if (hk.all) victim = 1;
    else if (id >= 0) for (int k = 0; k < hk.nv; k++) if (hk.vict[k] == id) victim = 1;
    gc->entries[q].marked = !victim;
    if (!victim || gc->entries[q].root || ns >= MAXH * 2) continue;
    long key = 100000 + (long)q;                       /* objects the harness does not know: last, in slot order */
    if (id >= 0) { key = 1000 + meta[id].stamp; for (int k = hk.no - 1; k >= 0; k--) if (hk.order[k] == id) key = k; }
    slots[ns] = q; ptrs[ns] = gc->entries[q].ptr; keys[ns] = key; ns++;
  }
  for (size_t a = 1; a < ns; a++) { var pp = ptrs[a]; long kk = keys[a]; size_t c = a; while (c > 0 && keys[c - 1] > kk) { ptrs[c] = ptrs[c - 1]; keys[c] = keys[c - 1]; c--; } ptrs[c] = pp; keys[c] = kk; }
  for (size_t a = 0; a < ns; a++) gc->entries[slots[a]].ptr = ptrs[a];
}
__attribute__((destructor)) static void hdr_fini(void) {
  if (!in_exit_child) return;
  expect_check("exit");
  const char* r = rel_since(nrel0);
  if (exit_pipe >= 0 && write(exit_pipe, r, strlen(r)) < 0) {}
  fflush(stdout);
}

/* ------------------------------------------------------------------------------------------------- iteration */
static char itbuf[3000]; static char* itp; static int itn;
static void it_begin(void) { itp = itbuf; itn = 0; *itp = 0; }
static void it_add(var item, var want_type, int want_cls, const char* how) {
  if (itn < 16) {
    if (item == NULL) itp += snprintf(itp, itbuf + sizeof itbuf - itp, "%s?", itn ? "," : "");
    else itp += snprintf(itp, itbuf + sizeof itbuf - itp, "%s%s/%s", itn ? "," : "", ty_name(item), cls_name(cls_of(item)));
  }
  itn++;
  if (item && want_type) oracle_object(item, want_type, want_cls, how);
}
static void it_end(void) { O("items n=%d [%s]", itn, itbuf); }

/* can this handle be iterated (model: St.iterate)?  Tuples with a repeated item are known finding F13 (C11) */
static int iterable(int id) {
  if (!is_live(id)) return 0;
  int k = meta[id].kind;
  if (k == K_ARR || k == K_LST || k == K_TAB || k == K_TRE) return 1;
  if (k == K_TUP) {
    struct Tuple* t = meta[id].addr; if (!t->items) return 0;
    for (size_t i = 0; t->items[i] != Terminal; i++) for (size_t j = 0; j < i; j++) if (t->items[i] == t->items[j]) return 0;
    return 1;
  }
  return 0;
}
/* what iteration over handle id must hand out: (type, class) for containers; for a Tuple the items themselves */
static void expect_of(int id, var item, var* ty, int* cl) {
  int k = meta[id].kind; var x = meta[id].addr;
  if (k == K_ARR || k == K_LST) { *ty = iter_type(x); *cl = AllocData; }
  else if (k == K_TAB || k == K_TRE) { *ty = key_type(x); *cl = AllocData; }
  else { int j = id_of(item); if (j >= 0 && meta[j].live) { *ty = meta[j].etype; *cl = meta[j].ecls; } else { *ty = NULL; *cl = 0; } }
}
static var tuple_item_or_null(int id, var item) { if (meta[id].kind != K_TUP) return item; int j = id_of(item); return (j >= 0 && meta[j].live) ? item : NULL; }

static int flt_toggle;
static var flt_fn(var args) { flt_toggle = !flt_toggle; return flt_toggle ? (var)1 : NULL; }
static var map_fn(var args) { return args; }

/* ------------------------------------------------------------------------------------------- known-finding witnesses */
struct Odd { int32_t a, b, c; };
static int Odd_Cmp(var x, var y) { struct Odd* p = x; struct Odd* q = y; return p->a < q->a ? -1 : p->a > q->a; }
static var Odd = Cello(Odd, Instance(Cmp, Odd_Cmp));

static void run_kf(const char* name) {
  if (!strcmp(name, "del-silent")) {
    var x = $I(7); var exc; V_TRY(exc, del(x));
    O("kf del-silent exc=%s v=i%ld", v_exc_name(exc), (long)c_int(x));
    if (exc == NULL) XF("hdr-del-silent", "del of a stack object raised nothing (the object is intact and not freed)");
    return;
  }
  if (!strncmp(name, "copy-view-", 10)) {
    /* copy of a view object of src/Iter.c, in a forked child (a refused copy leaves a half-built registered object behind) */
    const char* vn = name + 10;
    int v = !strcmp(vn, "Range") ? 1 : !strcmp(vn, "Slice") ? 2 : !strcmp(vn, "Zip") ? 3 : !strcmp(vn, "Filter") ? 4 : !strcmp(vn, "Map") ? 5 : 0;
    if (!v) { O("bad-op"); return; }
    int pfd[2]; if (pipe(pfd)) { perror("pipe"); exit(2); }
    fflush(stdout);
    pid_t pid = fork();
    if (pid == 0) {
      close(pfd[0]); alarm(20); in_kf_child = 1;
      int devnull = open("/dev/null", 1); if (devnull >= 0) dup2(devnull, 2);
      var a = new(Array, Int, $I(1), $I(2), $I(3));
      var x = v == 1 ? new(Range, $I(5)) : v == 2 ? new(Slice, a, $I(1)) : v == 3 ? new(Zip, a, a) :
              v == 4 ? new(Filter, a, $(Function, flt_fn)) : new(Map, a, $(Function, map_fn));
      var c = NULL, exc; V_TRY(exc, c = copy(x));
      char msg[128]; snprintf(msg, sizeof msg, "exc=%s ty=%s cls=%s", v_exc_name(exc), (!exc && c) ? (type_of(c) == type_of(x) ? "same" : "other") : "-", (!exc && c) ? cls_name(cls_of(c)) : "-");
      if (write(pfd[1], msg, strlen(msg)) < 0) {}
      _exit(0);
    }
    close(pfd[1]);
    char got[256]; ssize_t r, l = 0; while ((r = read(pfd[0], got + l, sizeof got - 1 - l)) > 0) l += r; got[l] = 0; close(pfd[0]);
    int st = 0; waitpid(pid, &st, 0);
    int clean = WIFEXITED(st) && WEXITSTATUS(st) == 0;
    char ex[64] = "UB"; if (clean) sscanf(got, "exc=%63s", ex);
    O("kf %s exc=%s", name, ex);
    if (strcmp(ex, "none")) XF("hdr-copy-view", "copy of a %s object raised %s: no object of the source's type is handed out (and the half-built copy stays registered)", vn, ex);
    else if (!strstr(got, "ty=same cls=heap")) XF("hdr-type", "copy of a %s object handed out `%s`", vn, got);
    return;
  }
  int which = !strcmp(name, "delraw-embedded") ? 1 : !strcmp(name, "tree-odd-key") ? 2 : !strcmp(name, "delraw-embedded-tuple") ? 3 :
              !strcmp(name, "delraw-embedded-array") ? 4 : !strcmp(name, "delraw-stack-box") ? 5 : 0;
  if (!which) { O("bad-op"); return; }
  int pfd[2]; if (pipe(pfd)) { perror("pipe"); exit(2); }
  fflush(stdout);
  pid_t pid = fork();
  if (pid == 0) {
    close(pfd[0]); alarm(20); in_kf_child = 1;
    int devnull = open("/dev/null", 1); if (devnull >= 0) dup2(devnull, 2);
    char msg[128] = "";
    if (which == 1) {
      var a = new(Array, String, $S("ab"));
      var e = get(a, $I(0)); var exc;
      owned_watch = ((struct String*)e)->val; owned_freed = 0;
      V_TRY(exc, del_raw(e));
      snprintf(msg, sizeof msg, "exc=%s freed=%d", v_exc_name(exc), owned_freed);
    } else if (which == 3) {
      var a = new_raw(Array, Tuple, tuple($I(1), $I(2)));
      var e = get(a, $I(0)); var exc;
      owned_watch = ((struct Tuple*)e)->items; owned_freed = 0;
      V_TRY(exc, del_raw(e));
      snprintf(msg, sizeof msg, "exc=%s freed=%d", v_exc_name(exc), owned_freed);
    } else if (which == 4) {
      var inner = new_raw(Array, Int, $I(7), $I(8));
      var outer = new_raw(Array, Array, inner);
      var e = get(outer, $I(0)); var exc;
      owned_watch = ((struct Array*)e)->data; owned_freed = 0;
      V_TRY(exc, del_raw(e));
      snprintf(msg, sizeof msg, "exc=%s freed=%d", v_exc_name(exc), owned_freed);
    } else if (which == 5) {
      var p = new(Int, $I(5));
      var b = $(Box, p); var exc;
      owned_watch = (char*)p - HS; owned_freed = 0;
      V_TRY(exc, del_raw(b));
      snprintf(msg, sizeof msg, "exc=%s freed=%d val=%s", v_exc_name(exc), owned_freed, ((struct Box*)b)->val == NULL ? "null" : ((struct Box*)b)->val == p ? "kept" : "other");
    } else {
      var t = new(Tree, Odd, Int);
      struct Odd* k = new_raw(Odd); k->a = 1;
      set(t, k, $I(3));
      snprintf(msg, sizeof msg, "exc=none vtype=%s", c_str(type_of(get(t, k))));
    }
    if (write(pfd[1], msg, strlen(msg)) < 0) {}
    _exit(0);
  }
  close(pfd[1]);
  char got[256]; ssize_t r, l = 0; while ((r = read(pfd[0], got + l, sizeof got - 1 - l)) > 0) l += r; got[l] = 0; close(pfd[0]);
  int st = 0; waitpid(pid, &st, 0);
  int clean = WIFEXITED(st) && WEXITSTATUS(st) == 0;
  if (which == 1) {
    O("kf delraw-embedded exc=%s v=%s", clean ? (strstr(got, "exc=ResourceError") ? "ResourceError" : "other") : "UB", (!clean || strstr(got, "freed=1")) ? "s!freed" : "sab");
    if (!clean) XF("hdr-delraw-embedded", "del_raw of a String embedded in an Array ran its destructor, then dealloc read the freed characters while refusing (sanitizer stopped the child)");
    else if (strstr(got, "freed=1")) XF("hdr-delraw-embedded", "del_raw of a String embedded in an Array freed its characters although the object was refused");
  } else if (which == 3 || which == 4) {
    const char* what = which == 3 ? "Tuple" : "Array"; const char* part = which == 3 ? "items" : "backing store"; char tag = which == 3 ? 't' : 'a';
    int freed = !clean || strstr(got, "freed=1");
    O("kf %s exc=%s v=%c%s", name, clean ? (strstr(got, "exc=ResourceError") ? "ResourceError" : "other") : "UB", tag, freed ? "!freed" : "ok");
    if (!clean) XF("hdr-delraw-embedded", "del_raw of a %s embedded in an Array ran its destructor, then dealloc read the freed %s while refusing (sanitizer stopped the child)", what, part);
    else if (freed) XF("hdr-delraw-embedded", "del_raw of a %s embedded in an Array freed its %s although the object was refused", what, part);
  } else if (which == 5) {
    int freed = clean && strstr(got, "freed=1") != NULL, cleared = clean && strstr(got, "val=null") != NULL;
    O("kf delraw-stack-box exc=%s v=%s rel=%d", clean ? (strstr(got, "exc=ResourceError") ? "ResourceError" : "other") : "UB", !clean ? "?" : cleared ? "b-" : "b0", freed);
    if (!clean) XF("hdr-delraw-embedded", "del_raw of a stack Box did not complete (sanitizer stopped the child)");
    else if (freed || cleared) XF("hdr-delraw-embedded", "del_raw of a stack Box deleted what the Box points to and cleared the Box before dealloc refused the Box");
  } else {
    O("kf tree-odd-key exc=%s", clean ? "none" : "UB");
    if (!clean) XF("hdr-tree-misaligned", "Tree with a 12-byte key type: the value's header is written at a misaligned address (sanitizer stopped the child)");
  }
}

/* ------------------------------------------------------------------------------------------------- in-place ops */
enum { P_RESIZE, P_CONCAT, P_ASSIGN, P_PUSH, P_POP, P_PUSH_AT, P_POP_AT, P_REM, P_SET, P_NONE };
static const char* pop_name[] = { "resize", "concat", "assign", "push", "pop", "push_at", "pop_at", "rem", "set" };

static int iterable(int id);
/* (type, live scalar?) of a handle that can be copied into a container */
static int src_scalar(int id, var* ty) {
  if (!is_live(id)) return 0;
  int k = meta[id].kind;
  if (k != K_INT && k != K_STR && k != K_RTO) return 0;
  if (!magic_ok(meta[id].addr)) return 0;
  *ty = type_of(meta[id].addr); return 1;
}
/* (type) of a handle that `assign` can copy into a container slot (model: St.srcValue): a scalar, a Tuple whose items are
   all fixed items, an Array of Int */
static int src_value(int id, var* ty) {
  if (src_scalar(id, ty)) return 1;
  if (!is_live(id) || !magic_ok(meta[id].addr)) return 0;
  var x = meta[id].addr;
  if (meta[id].kind == K_TUP && type_of(x) == Tuple) {
    struct Tuple* t = x; if (!t->items) return 0;
    for (size_t i = 0; t->items[i] != Terminal; i++) if (!fixed_item(id_of(t->items[i]))) return 0;
    *ty = Tuple; return 1;
  }
  if (meta[id].kind == K_ARR && type_of(x) == Array && iter_type(x) == Int) { *ty = Array; return 1; }
  return 0;
}
static int all_int_items(int id) {
  struct Tuple* t = meta[id].addr;
  for (size_t i = 0; t->items[i] != Terminal; i++) { int j = id_of(t->items[i]); if (!is_live(j) || meta[j].kind != K_INT) return 0; }
  return 1;
}
static size_t tuple_len(var x) { struct Tuple* t = x; size_t k = 0; if (!t->items) return 0; while (t->items[k] != Terminal) k++; return k; }

/* decide whether the model exercises this op on this kind of object (mirror of Cello.Hdr.inPlaceObj / inPlaceElem);
   returns 1 and performs nothing; the caller then executes it */
static int supported_inplace(int kind_of_target /* K_* or K_STR for an embedded String */, var target, int op, int a, int b) {
  var ty;
  switch (kind_of_target) {
    case K_STR:
      if (op == P_RESIZE) return 1;
      if (op == P_CONCAT || op == P_ASSIGN || op == P_REM) return src_scalar(a, &ty) && ty == String;
      return 0;
    case K_TUP:
      if (tuple_len(target) == 0 && ((struct Tuple*)target)->items == NULL) return 0;
      switch (op) {
        case P_PUSH: case P_PUSH_AT: return usable_item(a);
        case P_POP: case P_POP_AT: case P_RESIZE: return 1;
        case P_CONCAT: return is_live(a) && meta[a].kind == K_TUP && ((struct Tuple*)meta[a].addr)->items != NULL && iterable(a);
        case P_ASSIGN: return is_live(a) && meta[a].kind == K_TUP && ((struct Tuple*)meta[a].addr)->items != NULL;
        case P_REM: return src_scalar(a, &ty) && ty == Int && all_int_items(id_of(target));
      }
      return 0;
    case K_ARR: case K_LST: {
      var ety = iter_type(target);
      switch (op) {
        case P_PUSH: case P_PUSH_AT: return src_value(a, &ty) && ty == ety;
        case P_POP: case P_POP_AT: return 1;
        case P_RESIZE: if (kind_of_target == K_LST && (size_t)b > len(target) && (ety == String || ety == Tuple || ety == Array)) return 0; return 1;
        case P_CONCAT: return is_live(a) && (meta[a].kind == K_ARR || meta[a].kind == K_LST) && iter_type(meta[a].addr) == ety;
      }
      return 0; }
    case K_TAB: case K_TRE: {
      var kty = key_type(target), vty = val_type(target), t2;
      switch (op) {
        case P_SET: return src_scalar(a, &ty) && src_value(b, &t2) && ty == kty && t2 == vty && (kty == Int || kty == String);
        case P_REM: return src_scalar(a, &ty) && ty == kty;
        case P_RESIZE: return 1;
      }
      return 0; }
    case K_RTT: case K_STY: return op == P_ASSIGN || op == P_RESIZE;
  }
  return 0;
}
static void call_inplace(var x, int op, int a, int b, long n) {
  var A = (a >= 0 && a < MAXH && meta[a].used) ? meta[a].addr : NULL, B = (b >= 0 && b < MAXH && meta[b].used) ? meta[b].addr : NULL;
  switch (op) {
    case P_RESIZE: resize(x, (size_t)n); break;
    case P_CONCAT: concat(x, A); break;
    case P_ASSIGN: assign(x, A ? A : x); break;
    case P_PUSH: push(x, A); break;
    case P_POP: pop(x); break;
    case P_PUSH_AT: push_at(x, A, $I(n)); break;
    case P_POP_AT: pop_at(x, $I(n)); break;
    case P_REM: rem(x, A); break;
    case P_SET: set(x, A, B); break;
  }
}

/* the exception the property allows when a freeing / reallocating op is applied to a non-heap object */
static int x_is_terminal;
static void oracle_refusal(const char* opname, int is_free, int f_or_p, var x_type, int cls, var exc, const char* before, const char* after, long idx, size_t tlen) {
  int nonheap = cls != AllocHeap;
  if (exc != NULL && strcmp(before, after)) XF("hdr-changed", "%s raised %s but the object changed: `%s` -> `%s`", opname, v_exc_name(exc), before, after);
  if (!nonheap) return;
  if (forb_hits) return;      /* already reported by the hook */
  if (is_free) {
    if (f_or_p == F_DEALLOC || f_or_p == F_DEALLOC_RAW || f_or_p == F_DEALLOC_ROOT || f_or_p == F_DEL_RAW) {
      /* `Terminal` ends every argument list: the message of the refusal cannot show it and FormatError comes out instead */
      if (exc != ResourceError && exc != ValueError && !(x_is_terminal && exc == FormatError)) XF("hdr-no-refusal", "%s of a %s object raised %s instead of ResourceError / ValueError", opname, cls_name(cls), v_exc_name(exc));
    } else if (f_or_p == F_DESTRUCT) {
      if ((cls == AllocStack || cls == AllocStatic) && (x_type == String || x_type == Tuple) && exc != ValueError)
        XF("hdr-no-refusal", "destructor of a %s %s raised %s instead of ValueError", cls_name(cls), c_str(x_type), v_exc_name(exc));
    } else {
      /* del / del_root go through the collector, which does not know the object: silently ignored (candidate finding
         KF-C19-del-silent, reported only by `kf del-silent`) */
      if (exc != NULL && exc != ResourceError && exc != ValueError) XF("hdr-no-refusal", "%s raised %s", opname, v_exc_name(exc));
    }
    if (strcmp(before, after)) XF("hdr-changed", "%s changed a %s object: `%s` -> `%s`", opname, cls_name(cls), before, after);
  } else if ((cls == AllocStack || cls == AllocStatic) && (x_type == String || x_type == Tuple) && !(x_type == String && f_or_p == P_REM)) {
    /* every remaining in-place op of String and Tuple reallocates */
    int bounds = x_type == Tuple && ((f_or_p == P_POP && tlen == 0) ||
      ((f_or_p == P_PUSH_AT || f_or_p == P_POP_AT) && ((idx < 0 ? (long)tlen + idx : idx) < 0 || (idx < 0 ? (long)tlen + idx : idx) >= (long)tlen)));
    if (exc != ValueError && !(bounds && exc == IndexOutOfBoundsError))
      XF("hdr-no-refusal", "%s of a %s %s raised %s instead of ValueError", opname, cls_name(cls), c_str(x_type), v_exc_name(exc));
    if (strcmp(before, after)) XF("hdr-changed", "%s changed a %s %s: `%s` -> `%s`", opname, cls_name(cls), c_str(x_type), before, after);
  }
}

/* --------------------------------------------------------------------------------------------------- interpreter */
static char* toks[600]; static int ntok; static char tokbuf[8192];
static void split(const char* l) {
  ntok = 0; snprintf(tokbuf, sizeof tokbuf, "%s", l);
  for (char* p = tokbuf; *p && ntok < 599;) { while (*p == ' ') p++; if (!*p) break; toks[ntok++] = p; while (*p && *p != ' ') p++; if (*p) *p++ = 0; }
}
static int cleaned = 0;
static const char* known_statics[] = { "Type", "Int", "Float", "String", "Tuple", "Array", "List", "Table", "Tree", "Ref", "Box", "Range",
  "Slice", "Zip", "Filter", "Map", "Terminal", "_", "Function", "File", "Mutex", "Thread", "Exception", "GC",
  "TypeError", "ValueError", "ResourceError", "KeyError", "IndexOutOfBoundsError", NULL };
static var static_by_name(const char* n) {
  var objs[] = { Type, Int, Float, String, Tuple, Array, List, Table, Tree, Ref, Box, Range, Slice, Zip, Filter, Map, Terminal, _,
    Function, File, Mutex, Thread, Exception, GC, TypeError, ValueError, ResourceError, KeyError, IndexOutOfBoundsError };
  for (int i = 0; known_statics[i]; i++) if (!strcmp(n, known_statics[i])) return objs[i];
  return NULL;
}

static void cleanup(void) {
  /* release what the op file left: tuples first (nothing may dangle inside a tuple the collector could trace),
     run-time types last */
  for (int pass = 0; pass < 3; pass++)
    for (int id = 0; id < MAXH; id++) {
      Meta* m = &meta[id];
      if (!m->used || !m->live || !route_is_heap(m->route)) continue;
      int want = m->kind == K_TUP ? 0 : m->kind == K_RTT ? 2 : 1;
      if (want != pass) continue;
      var exc; var x = m->addr;
      if (strcmp(reg_name(x), "-")) { V_TRY(exc, del(x)); } else { V_TRY(exc, del_raw(x)); }
      tab[id] = NULL;
      if (exc) XF("hdr-cleanup", "deleting heap object %d at the end raised %s", id, v_exc_name(exc));
    }
  for (int id = 0; id < MAXH; id++) if (meta[id].used && route_is_heap(meta[id].route) && meta[id].frees != 1)
    XF("hdr-release-count", "heap object %d was released %d times", id, meta[id].frees);
  oracle_registry();
}

static void do_line(char** lines, size_t n, size_t i, int* recursed);

static void exec(char** lines, size_t n, size_t from) {
  for (size_t i = from; i < n; i++) {
    if (v_skippable(lines[i])) continue;
    int recursed = 0;
    cur_line = i + 1;
    do_line(lines, n, i, &recursed);
    if (recursed) return;
  }
  if (!cleaned) { cleaned = 1; cleanup(); }
}

#define BAD() do { O("bad-op"); return; } while (0)
#define SKIP(w) do { O("skip %s", w); return; } while (0)

static void do_line(char** lines, size_t n, size_t li, int* recursed) {
  split(lines[li]);
  if (ntok == 0) BAD();
  const char* op = toks[0];
  long a, b, c; var exc;
  static char before[3500], after[3500], desc[3500];
  if (!strcmp(op, "kf") && ntok == 2) { run_kf(toks[1]); return; }
  n_ops++;

  /* ---- births */
  if (!strcmp(op, "int") || !strcmp(op, "str") || !strcmp(op, "tup") || !strcmp(op, "ref") || !strcmp(op, "arr") || !strcmp(op, "lst") ||
      !strcmp(op, "tab") || !strcmp(op, "tre") || !strcmp(op, "rtt") || !strcmp(op, "rto") || !strcmp(op, "box")) {
    if (ntok < 3 || !parse_nat(toks[1], &a) || a >= MAXH) BAD();
    int id = (int)a, route = parse_route(toks[2]);
    if (route == R_BAD) BAD();
    if (!strcmp(op, "int")) {
      long v; if (ntok != 4 || !parse_int(toks[3], &v)) BAD();
      if (meta[id].used) BAD();
      if (route == R_STACK) { *recursed = 1; birth_stack_int(lines, n, li, id, v); return; }
      if (route == R_STATIC) {
        if (nspool >= 64) SKIP("unsupported");
        var x = header_init(spool[nspool++], Int, AllocStatic); ((struct Int*)x)->val = v;
        new_handle(id, route, K_INT, x, Int, -1, sizeof(struct Int)); report_birth(id); return; }
      var x = route_is_alloc(route) ? by_route(route, Int, NULL) : by_route(route, Int, tuple($I(v)));
      new_handle(id, route, K_INT, x, Int, -1, 0); report_birth(id); return;
    }
    if (!strcmp(op, "str")) {
      if (ntok != 4 || !is_text(toks[3]) || strlen(toks[3]) > 60) BAD();
      if (meta[id].used) BAD();
      if (route_is_alloc(route)) SKIP("unsupported");
      if (route == R_STACK) { *recursed = 1; birth_stack_str(lines, n, li, id, text_of(toks[3])); return; }
      if (route == R_STATIC) {
        if (nspool >= 64) SKIP("unsupported");
        char* slot = spool[nspool++]; var x = header_init(slot, String, AllocStatic);
        char* chars = slot + HS + 16; snprintf(chars, 64, "%s", text_of(toks[3])); ((struct String*)x)->val = chars;
        new_handle(id, route, K_STR, x, String, -1, sizeof(struct String)); report_birth(id); return; }
      char bufs[72]; snprintf(bufs, sizeof bufs, "%s", text_of(toks[3]));
      var x = by_route(route, String, tuple($S(bufs)));
      new_handle(id, route, K_STR, x, String, -1, 0); report_birth(id); return;
    }
    if (!strcmp(op, "tup")) {
      var items[8]; int cnt = ntok - 3, ok = 1;
      for (int k = 3; k < ntok; k++) if (!parse_nat(toks[k], &b)) BAD();
      if (meta[id].used) BAD();
      if (route_is_alloc(route)) SKIP("unsupported");
      if (cnt > 6) SKIP("unsupported");
      for (int k = 0; k < cnt; k++) { parse_nat(toks[3 + k], &b); if (b >= MAXH || !usable_item((int)b)) ok = 0; else items[k] = meta[b].addr; }
      if (!ok) SKIP("unsupported");
      if (route == R_STACK) { *recursed = 1; birth_stack_tup(lines, n, li, id, items, cnt); return; }
      if (route == R_STATIC) {
        if (nspool >= 64) SKIP("unsupported");
        char* slot = spool[nspool++]; var x = header_init(slot, Tuple, AllocStatic);
        var* arr = (var*)(slot + HS + 16 + 64); for (int k = 0; k < cnt; k++) arr[k] = items[k]; arr[cnt] = Terminal;
        ((struct Tuple*)x)->items = arr;
        new_handle(id, route, K_TUP, x, Tuple, -1, sizeof(struct Tuple)); report_birth(id); return; }
      var x = by_route(route, Tuple, tuple());
      for (int k = 0; k < cnt; k++) push(x, items[k]);
      new_handle(id, route, K_TUP, x, Tuple, -1, 0); report_birth(id); return;
    }
    if (!strcmp(op, "ref")) {
      if (ntok != 4 || !parse_nat(toks[3], &b)) BAD();
      if (meta[id].used) BAD();
      if (route == R_STATIC || b >= MAXH || !usable_arg((int)b)) SKIP("unsupported");
      if ((route == R_NEW || route == R_NEW_RAW || route == R_NEW_ROOT) && meta[b].kind == K_BOX) SKIP("unsupported");   /* Ref_Assign dereferences a Box */
      if (route == R_STACK) { *recursed = 1; birth_stack_ref(lines, n, li, id, meta[b].addr); return; }
      var x = route_is_alloc(route) ? by_route(route, Ref, NULL) : by_route(route, Ref, tuple(meta[b].addr));
      if (route_is_alloc(route)) ((struct Ref*)x)->val = meta[b].addr;
      new_handle(id, route, K_REF, x, Ref, -1, 0); report_birth(id); return;
    }
    if (!strcmp(op, "box")) {
      int t = -1;
      if (ntok != 4) BAD();
      if (strcmp(toks[3], "-")) { if (!parse_nat(toks[3], &b)) BAD(); t = b < MAXH ? (int)b : MAXH - 1; }
      if (meta[id].used) BAD();
      if (route == R_STACK) {
        /* $(Box, x): the struct is initialised with the pointer as it is (no Box_Assign) */
        if (t >= 0 && !(ownable(t) && plain_pointee(t))) SKIP("unsupported");
        *recursed = 1; birth_stack_box(lines, n, li, id, t); return;
      }
      if (!route_is_heap(route)) SKIP("unsupported");
      if (route_is_alloc(route)) {
        if (t >= 0) SKIP("unsupported");
        var x = by_route(route, Box, NULL);                       /* zeroed: val = NULL */
        new_handle(id, route, K_BOX, x, Box, -1, 0); report_birth(id); return;
      }
      if (t < 0 || !usable_arg(t)) SKIP("unsupported");
      /* Box_New -> Box_Assign(self, arg): an argument that is itself a pointer object is dereferenced */
      int fin = t, null_val = 0;
      if (meta[t].kind == K_REF) fin = id_of(((struct Ref*)meta[t].addr)->val);
      else if (meta[t].kind == K_BOX) { fin = meta[t].owns; if (fin < 0) null_val = 1; }
      if (!null_val && (fin < 0 || !ownable(fin))) SKIP("unsupported");
      var x = by_route(route, Box, tuple(meta[t].addr));
      new_handle(id, route, K_BOX, x, Box, -1, 0); meta[id].owns = null_val ? -1 : fin; report_birth(id);
      if (((struct Box*)x)->val != (null_val ? NULL : meta[fin].addr)) XF("hdr-box-val", "new(Box, x) does not point to what Box_Assign must give it");
      return;
    }
    if (!strcmp(op, "arr") || !strcmp(op, "lst")) {
      var ety; int rtk; if (ntok < 4) BAD();
      int pe = parse_ety(toks[3], &ety, &rtk); if (pe == 0) BAD();
      if (pe > 0) { for (int k = 4; k < ntok; k++) if (!scalar_ok(ety, toks[k])) BAD(); }
      else { for (int k = 4; k < ntok; k++) { long v; if (!parse_int(toks[k], &v)) BAD(); } }
      if (meta[id].used) BAD();
      if (pe < 0 || !route_is_heap(route) || route_is_alloc(route)) SKIP("unsupported");
      for (int k = 4; k < ntok; k++) if (!storable(ety, toks[k])) SKIP("unsupported");
      var x = by_route(route, !strcmp(op, "arr") ? Array : List, tuple(ety));
      for (int k = 4; k < ntok; k++) with_scalar(ety, toks[k], push, x);
      new_handle(id, route, !strcmp(op, "arr") ? K_ARR : K_LST, x, !strcmp(op, "arr") ? Array : List, rtk, 0); report_birth(id); return;
    }
    if (!strcmp(op, "tab") || !strcmp(op, "tre")) {
      var kty, vty; int rk, rv; if (ntok < 5 || (ntok - 5) % 2) BAD();
      int pk = parse_ety(toks[3], &kty, &rk), pv = parse_ety(toks[4], &vty, &rv); if (pk == 0 || pv == 0) BAD();
      for (int k = 5; k < ntok; k += 2) {
        long v;
        if (pk > 0 ? !scalar_ok(kty, toks[k]) : !parse_int(toks[k], &v)) BAD();
        if (pv > 0 ? !scalar_ok(vty, toks[k + 1]) : !parse_int(toks[k + 1], &v)) BAD();
      }
      if (meta[id].used) BAD();
      if (pk < 0 || pv < 0 || rk >= 0 || kty == Tuple || kty == Array || !route_is_heap(route) || route_is_alloc(route)) SKIP("unsupported");
      for (int k = 5; k < ntok; k += 2) if (!storable(vty, toks[k + 1])) SKIP("unsupported");
      var x = by_route(route, !strcmp(op, "tab") ? Table : Tree, tuple(kty, vty));
      for (int k = 5; k < ntok; k += 2) keyed(kty, toks[k], vty, toks[k + 1], x);
      new_handle(id, route, !strcmp(op, "tab") ? K_TAB : K_TRE, x, !strcmp(op, "tab") ? Table : Tree, rv, 0); report_birth(id); return;
    }
    if (!strcmp(op, "rtt")) {
      if (ntok != 5 || !parse_nat(toks[3], &b) || !parse_nat(toks[4], &c)) BAD();
      if (meta[id].used) BAD();
      if (!(route == R_NEW || route == R_NEW_RAW || route == R_NEW_ROOT) || b >= MAXRT || rt_defined[b] || c < 8 || c > 256) SKIP("unsupported");
      var x = by_route(route, Type, tuple($S((char*)rt_name[b]), $I(c)));
      rt_defined[b] = 1; rt_type[b] = x; rt_size[b] = (size_t)c;
      new_handle(id, route, K_RTT, x, Type, (int)b, 0); report_birth(id); return;
    }
    if (!strcmp(op, "rto")) {
      long w; if (ntok != 5 || !parse_nat(toks[3], &b) || !parse_int(toks[4], &w)) BAD();
      if (meta[id].used) BAD();
      if (!route_is_heap(route) || b >= MAXRT || !rt_defined[b] || !is_live(id_of(rt_type[b]))) SKIP("unsupported");
      var x = route_is_alloc(route) ? by_route(route, rt_type[b], NULL) : by_route(route, rt_type[b], tuple());
      if (!route_is_alloc(route)) *(int64_t*)x = w;
      new_handle(id, route, K_RTO, x, rt_type[b], (int)b, 0); report_birth(id); return;
    }
  }
  if (!strcmp(op, "sty") && ntok == 3 && parse_nat(toks[1], &a)) {
    if (a >= MAXH || meta[a].used || !static_by_name(toks[2])) BAD();
    var x = static_by_name(toks[2]);
    if (id_of(x) >= 0) SKIP("duplicate");
    new_handle((int)a, R_STATIC, K_STY, x, Type, -1, 0); report_birth((int)a); return;
  }
  if (!strcmp(op, "cpy") && ntok == 3 && parse_nat(toks[1], &a) && parse_nat(toks[2], &b)) {
    if (a >= MAXH || meta[a].used) BAD();
    if (b >= MAXH || !meta[b].used) BAD();
    if (!meta[b].live) SKIP("dead");
    int src = (int)b; var x = NULL;
    Target t = { 0, src, 0 };
    if (meta[src].kind == K_RTT || meta[src].kind == K_STY) {
      describe(before, before + sizeof before, t);
      V_TRY(exc, x = copy(meta[src].addr));
      describe(desc, desc + sizeof desc, t);
      O("copy exc=%s %s rel=-", v_exc_name(exc), desc);
      if (exc != ValueError) XF("hdr-no-refusal", "copy of a Type object raised %s", v_exc_name(exc));
      if (strcmp(before, desc)) XF("hdr-changed", "copy of a Type object changed it");
      return;
    }
    if (meta[src].kind == K_TUP && ((struct Tuple*)meta[src].addr)->items == NULL) SKIP("unsupported");
    V_TRY(exc, x = copy(meta[src].addr));
    if (exc || !x) { XF("hdr-copy", "copy raised %s", v_exc_name(exc)); O("copy exc=%s", v_exc_name(exc)); return; }
    new_handle((int)a, R_NEW, meta[src].kind, x, type_of(meta[src].addr), meta[src].rtk, 0);
    meta[a].owns = meta[src].kind == K_BOX ? meta[src].owns : -1;
    report_birth((int)a); return;
  }

  /* ---- re-pointing a Box */
  if (!strcmp(op, "own") && ntok == 3 && parse_nat(toks[1], &a)) {
    int t = -1;
    if (strcmp(toks[2], "-")) { if (!parse_nat(toks[2], &b)) BAD(); t = b < MAXH ? (int)b : MAXH - 1; }
    if (a >= MAXH || !meta[a].used) BAD();
    if (!meta[a].live) SKIP("dead");
    if (meta[a].kind != K_BOX) SKIP("unsupported");
    if (t >= 0 && !(ownable(t) && (meta[a].ecls == AllocHeap || plain_pointee(t)))) SKIP("unsupported");
    expect_begin();
    V_TRY(exc, ref(meta[a].addr, t >= 0 ? meta[t].addr : NULL));
    meta[a].owns = t;
    Target tg = { 0, (int)a, 0 }; describe(desc, desc + sizeof desc, tg);
    O("own exc=%s %s rel=%s", v_exc_name(exc), desc, rel_since(nrel0));
    expect_check("own"); oracle_handle((int)a, "after re-pointing a Box");
    return;
  }

  /* ---- observation */
  if (!strcmp(op, "obs") && ntok == 2) {
    Target t; if (!parse_target(toks[1], &t)) BAD();
    if (!meta[t.id].used) BAD();
    if (!meta[t.id].live) SKIP("dead");
    if (t.kind) {
      var e = resolve_elem(t); if (!e) BAD();
      describe(before, before + sizeof before, t);
      oracle_object(e, elem_decl_type(t), AllocData, "element");
      describe(desc, desc + sizeof desc, t);
      if (strcmp(before, desc)) XF("hdr-size", "writing size(type) bytes of an element changed the container");
    } else { describe(desc, desc + sizeof desc, t); oracle_handle(t.id, "object"); }
    O("obs %s", desc); return;
  }

  /* ---- freeing operations */
  int f = parse_fop(op);
  if (f != F_NONE && ntok == 2) {
    Target t; if (!parse_target(toks[1], &t)) BAD();
    if (!meta[t.id].used) BAD();
    Meta* m = &meta[t.id];
    if (t.kind == 0) {
      var x = m->addr;
      if (!m->live) {
        if (fop_via_collector(f) && x && route_is_heap(m->route)) {
          /* a second del of a released heap object: the collector only looks the pointer up */
          int reused = 0; for (int j = 0; j < MAXH; j++) if (j != t.id && meta[j].used && meta[j].live && meta[j].addr == x) reused = 1;
          expect_begin();
          exc = NULL; if (!reused) { V_TRY(exc, call_fop(f, x)); } else I("address of released object %d is in use again; second %s not executed", t.id, op);
          describe(desc, desc + sizeof desc, t);
          O("%s exc=%s %s rel=%s", op, v_exc_name(exc), desc, rel_since(nrel0));
          expect_check(op);
          if (m->frees != 1) XF("hdr-release-count", "after a second %s object %d was released %d times", op, t.id, m->frees);
          return;
        }
        SKIP("dead");
      }
      int registered = strcmp(reg_name(x), "-") != 0;
      if (!fop_via_collector(f) && registered) SKIP("misuse");
      if (f == F_DESTRUCT && m->ecls == AllocHeap) SKIP("misuse");
      if (is_type_in_use(t.id)) SKIP("misuse");
      if (m->ecls == AllocHeap && referenced(t.id)) SKIP("referenced");
      /* the refusal of a Box that is not on the heap shows what it points to: not when that was released behind its back */
      if ((f == F_DEALLOC || f == F_DEALLOC_RAW || f == F_DEALLOC_ROOT) && m->ecls != AllocHeap && m->kind == K_BOX && ((struct Box*)x)->val != NULL &&
          !is_live(id_of(((struct Box*)x)->val))) SKIP("dangling");
      describe(before, before + sizeof before, t);
      var xty = magic_ok(x) ? type_of(x) : NULL; int cl = m->ecls;
      nforb = 0; forb_hits = 0;
      if (cl != AllocHeap) protect(x, m->cap);
      /* what must be released, by the property: a heap object exactly once by del of a registered object, by del_raw /
         dealloc of a raw one, not at all by del of a raw one; when its destructor runs (del, del_root, del_raw) and it is a
         Box, also what it points to if the collector lists that, and so on; a non-heap object never, and nothing else */
      expect_begin();
      if (cl == AllocHeap) {
        exp_rel[t.id] = fop_via_collector(f) ? registered : 1;
        if (exp_rel[t.id] && (fop_via_collector(f) || f == F_DEL_RAW)) expect_closure();
      }
      int box_destruct = cl != AllocHeap && m->kind == K_BOX && f == F_DESTRUCT;
      if (box_destruct && m->owns >= 0) {
        /* destruct($(Box, x)) is the documented release of x (Box_Del): x is released if the collector lists it, with what it owns */
        int v = m->owns;
        if (meta[v].used && meta[v].live && reg_before[v]) { exp_rel[v] = 1; expect_closure(); }
        if (meta[v].used && meta[v].live && meta[v].ecls != AllocHeap && nforb < 8) forbid((char*)meta[v].addr - HS, HS + meta[v].cap, "a stack or static object owned by a Box");
      }
      x_is_terminal = x == Terminal;
      V_TRY(exc, call_fop(f, x));
      unprotect();
      for (int k = nrel0; k < nrel; k++) tab[relseq[k]] = NULL;
      describe(after, after + sizeof after, t);
      O("%s exc=%s %s rel=%s", op, v_exc_name(exc), after, rel_since(nrel0));
      if (exc) n_refused++;
      expect_check(op);
      if (m->kind == K_BOX && m->live && ((struct Box*)x)->val == NULL) m->owns = -1;
      if (box_destruct) { if (exc) XF("hdr-box-destruct", "destruct of a stack Box raised %s", v_exc_name(exc)); oracle_handle(t.id, "after destruct of a stack Box"); }
      else if (cl != AllocHeap) { oracle_refusal(op, 1, f, xty, cl, exc, before, after, 0, 0); if (m->live) oracle_handle(t.id, "after a refused release"); }
      else if (exc) XF("hdr-heap-refused", "%s of a heap object raised %s", op, v_exc_name(exc));
      oracle_registry();
      return;
    }
    if (!m->live) SKIP("dead");
    var e = resolve_elem(t); if (!e) BAD();
    describe(before, before + sizeof before, t);
    var ety = magic_ok(e) ? type_of(e) : NULL;
    protect(e, elem_cap(t)); x_is_terminal = 0;
    owned_watch = NULL; owned_freed = 0;
    if (ety == String) owned_watch = ((struct String*)e)->val;
    if (ety == Tuple) owned_watch = ((struct Tuple*)e)->items;
    if (ety == Array) owned_watch = ((struct Array*)e)->data;
    expect_begin();
    V_TRY(exc, call_fop(f, e));
    unprotect();
    /* the destructor freed the block the embedded object owns: the pointer is poisoned so that the harness can go on */
    if (ety == String && owned_freed) { ((struct String*)e)->val = NULL; XF("hdr-elem-destructed", "%s of an embedded String freed its characters", op); }
    if (ety == Tuple && owned_freed) { ((struct Tuple*)e)->items = NULL; XF("hdr-elem-destructed", "%s of an embedded Tuple freed its items", op); }
    if (ety == Array && owned_freed) { ((struct Array*)e)->data = NULL; XF("hdr-elem-destructed", "%s of an embedded Array freed its backing store", op); }
    owned_watch = NULL;
    describe(after, after + sizeof after, t);
    O("%s exc=%s %s rel=%s", op, v_exc_name(exc), after, rel_since(nrel0));
    expect_check(op);
    if (exc) n_refused++;
    oracle_refusal(op, 1, f, ety, AllocData, exc, before, after, 0, 0);
    oracle_registry();
    return;
  }

  /* ---- in-place operations */
  int p = P_NONE; for (int k = 0; k < P_NONE; k++) if (!strcmp(op, pop_name[k])) p = k;
  if (p != P_NONE) {
    Target t; int A = -1, B = -1; long nn = 0;
    int okp = 0;
    switch (p) {
      case P_RESIZE: okp = ntok == 3 && parse_target(toks[1], &t) && parse_nat(toks[2], &nn); break;
      case P_CONCAT: case P_ASSIGN: case P_PUSH: case P_REM: okp = ntok == 3 && parse_target(toks[1], &t) && parse_nat(toks[2], &a); A = (int)a; break;
      case P_POP: okp = ntok == 2 && parse_target(toks[1], &t); break;
      case P_PUSH_AT: okp = ntok == 4 && parse_target(toks[1], &t) && parse_nat(toks[2], &a) && parse_int(toks[3], &nn); A = (int)a; break;
      case P_POP_AT: okp = ntok == 3 && parse_target(toks[1], &t) && parse_int(toks[2], &nn); break;
      case P_SET: okp = ntok == 4 && parse_target(toks[1], &t) && parse_nat(toks[2], &a) && parse_nat(toks[3], &b); A = (int)a; B = (int)b; break;
    }
    if (!okp) BAD();
    if (A >= MAXH) A = MAXH - 1; if (B >= MAXH) B = MAXH - 1;
    if (!meta[t.id].used) BAD();
    if (!meta[t.id].live) SKIP("dead");
    if (A == t.id || B == t.id) {
      /* assign(s, s) of a String: String_Assign returns before its guard (`if (val is s->val) { return; }`, fix 744a45f): whatever
         the class of s, nothing is raised, nothing changes, nothing is reallocated.  Every other aliasing operand is left out. */
      if (p == P_ASSIGN && t.kind == 0 && meta[t.id].kind == K_STR && ((struct String*)meta[t.id].addr)->val != NULL) {
        var x = meta[t.id].addr;
        describe(before, before + sizeof before, t);
        char* buf0 = ((struct String*)x)->val;
        nforb = 0; forb_hits = 0; protect(x, meta[t.id].cap); forbid(buf0, strlen(buf0) + 1, "the characters of a String assigned to itself");
        expect_begin();
        V_TRY(exc, assign(x, x));
        unprotect();
        describe(after, after + sizeof after, t);
        O("%s exc=%s %s rel=%s", op, v_exc_name(exc), after, rel_since(nrel0));
        expect_check(op);
        if (exc) XF("hdr-self-assign", "assign(s, s) of a %s String raised %s", cls_name(meta[t.id].ecls), v_exc_name(exc));
        if (strcmp(before, after) || ((struct String*)x)->val != buf0) XF("hdr-self-assign", "assign(s, s) changed the String: `%s` -> `%s`", before, after);
        oracle_handle(t.id, "after assign(s, s)");
        return;
      }
      SKIP("self");
    }
    var x; int kind; int cl; size_t cap;
    if (t.kind == 0) { x = meta[t.id].addr; kind = meta[t.id].kind; cl = meta[t.id].ecls; cap = meta[t.id].cap;
      if (kind == K_STR && ((struct String*)x)->val == NULL) SKIP("unsupported"); }
    else { x = resolve_elem(t); if (!x) BAD(); cl = AllocData; cap = elem_cap(t);
      if (type_of(x) != String || ((struct String*)x)->val == NULL) SKIP("unsupported"); kind = K_STR; }
    if (!supported_inplace(kind, x, p, A, p == P_RESIZE ? (int)nn : B)) SKIP("unsupported");
    describe(before, before + sizeof before, t);
    var xty = type_of(x); size_t tlen = xty == Tuple ? tuple_len(x) : 0;
    size_t sn0 = 0, scap0 = 0; int sbad0 = 0; if (t.kind == 0 && kind == K_ARR) array_slots(x, &sn0, &scap0, &sbad0);
    if (cl != AllocHeap) protect(x, cap);
    expect_begin();
    V_TRY(exc, call_inplace(x, p, A, B, nn));
    unprotect();
    describe(after, after + sizeof after, t);
    O("%s exc=%s %s rel=%s", op, v_exc_name(exc), after, rel_since(nrel0));
    expect_check(op);
    if (exc) n_refused++;
    oracle_refusal(op, 0, p, xty, cl, exc, before, after, nn, tlen);
    if (t.kind == 0) oracle_handle(t.id, "after an in-place operation");
    if (t.kind == 0 && kind == K_ARR) {
      size_t sn, scap; int sbad; array_slots(x, &sn, &scap, &sbad);
      if (sn > scap) XF("hdr-array-slot", "after %s the Array counts %zu elements in %zu slots", op, sn, scap);
      if (sbad) XF("hdr-array-slot", "after %s, %d of the %zu element slots of the Array do not carry (element type, AllocData, magic number)", op, sbad, sn);
      int g = scap != scap0, k = -1;
      if (exc) k = 13;
      else switch (p) {
        case P_PUSH: k = g ? 1 : 0; break;
        case P_POP: k = g ? 3 : 2; break;
        case P_PUSH_AT: k = g ? 5 : 4; if (nn == (long)sn0 || nn == -1) { slot_stat[14]++; if (sn0 == scap0) slot_stat[15]++; } break;
        case P_POP_AT: k = g ? 7 : 6; break;
        case P_CONCAT: k = 8; break;
        case P_RESIZE: k = nn == 0 ? 9 : (size_t)nn < sn0 ? 10 : (size_t)nn == sn0 ? 11 : 12; break;
      }
      if (k >= 0) slot_stat[k]++;
    }
    /* every element of a container that was changed still carries the declared type and the class `data` */
    if (t.kind == 0 && (kind == K_ARR || kind == K_LST)) { size_t k = len(x); for (size_t q = 0; q < k && q < 64; q++) oracle_object(get(x, $I(q)), iter_type(x), AllocData, "element after an operation"); }
    if (t.kind == 0 && (kind == K_TAB || kind == K_TRE)) { static Ent ents[MAXENT]; size_t k = map_entries(x, ents);
      for (size_t q = 0; q < k && q < 64; q++) { oracle_object(ents[q].k, key_type(x), AllocData, "key after an operation"); oracle_object(ents[q].v, val_type(x), AllocData, "value after an operation"); } }
    oracle_registry();
    return;
  }

  /* ---- iteration */
  if (!strcmp(op, "iter") && ntok == 3 && parse_nat(toks[1], &a) && (!strcmp(toks[2], "fwd") || !strcmp(toks[2], "back"))) {
    if (a >= MAXH || !iterable((int)a)) SKIP("unsupported");
    int id = (int)a; var x = meta[id].addr; var ty; int cl;
    it_begin();
    if (!strcmp(toks[2], "fwd")) { for (var it = iter_init(x); it != Terminal; it = iter_next(x, it)) { expect_of(id, it, &ty, &cl); it_add(tuple_item_or_null(id, it), ty, cl, "iteration"); if (itn > 100000) break; } }
    else { for (var it = iter_last(x); it != Terminal; it = iter_prev(x, it)) { expect_of(id, it, &ty, &cl); it_add(tuple_item_or_null(id, it), ty, cl, "backward iteration"); if (itn > 100000) break; } }
    it_end(); return;
  }
  if (!strcmp(op, "values") && ntok == 2 && parse_nat(toks[1], &a)) {
    if (a >= MAXH || !is_live((int)a) || (meta[a].kind != K_TAB && meta[a].kind != K_TRE)) SKIP("unsupported");
    var x = meta[a].addr; static Ent ents[MAXENT]; size_t k = map_entries(x, ents);
    it_begin(); for (size_t q = 0; q < k; q++) it_add(ents[q].v, val_type(x), AllocData, "value of a key"); it_end(); return;
  }
  if (!strcmp(op, "view") && ntok >= 3) {
    const char* vk = toks[1]; var ty; int cl;
    if (!strcmp(vk, "range") || !strcmp(vk, "hrange")) {
      long s0, s1, s2; if (ntok != 5 || !parse_int(toks[2], &s0) || !parse_int(toks[3], &s1) || !parse_int(toks[4], &s2)) BAD();
      it_begin();
      if (!strcmp(vk, "range")) { var r = range($I(s0), $I(s1), $I(s2)); foreach (it in r) { it_add(it, Int, AllocStack, "range"); if (itn > 100000) break; } }
      else { var r = new(Range, $I(s0), $I(s1), $I(s2)); foreach (it in r) { it_add(it, Int, AllocHeap, "heap range"); if (itn > 100000) break; } del(r); }
      it_end(); return;
    }
    if (!strcmp(vk, "zip")) {
      if (ntok != 4 || !parse_nat(toks[2], &a) || !parse_nat(toks[3], &b)) BAD();
      if (a >= MAXH || b >= MAXH || !iterable((int)a) || !iterable((int)b)) SKIP("unsupported");
      it_begin(); foreach (it in zip(meta[a].addr, meta[b].addr)) { it_add(it, Tuple, AllocStack, "zip"); if (itn > 100000) break; } it_end(); return;
    }
    if (!strcmp(vk, "slice")) {
      if (ntok != 4 || !parse_nat(toks[2], &a) || !parse_nat(toks[3], &b)) BAD();
      if (a >= MAXH || !iterable((int)a)) SKIP("unsupported");
      int id = (int)a; it_begin();
      foreach (it in slice(meta[id].addr, $I(b), _)) { expect_of(id, it, &ty, &cl); it_add(tuple_item_or_null(id, it), ty, cl, "slice"); if (itn > 100000) break; }
      it_end(); return;
    }
    if (ntok != 3 || !parse_nat(toks[2], &a)) BAD();
    if (strcmp(vk, "reverse") && strcmp(vk, "enumerate") && strcmp(vk, "filter") && strcmp(vk, "map")) BAD();
    if (a >= MAXH || !iterable((int)a)) SKIP("unsupported");
    int id = (int)a; var x = meta[id].addr;
    it_begin();
    if (!strcmp(vk, "reverse")) { foreach (it in reverse(x)) { expect_of(id, it, &ty, &cl); it_add(tuple_item_or_null(id, it), ty, cl, "reverse"); if (itn > 100000) break; } }
    else if (!strcmp(vk, "enumerate")) { foreach (it in enumerate(x)) { it_add(it, Tuple, AllocStack, "enumerate"); if (itn > 100000) break; } }
    else if (!strcmp(vk, "filter")) { flt_toggle = 0; foreach (it in filter(x, $(Function, flt_fn))) { expect_of(id, it, &ty, &cl); it_add(tuple_item_or_null(id, it), ty, cl, "filter"); if (itn > 100000) break; } }
    else { foreach (it in map(x, $(Function, map_fn))) { expect_of(id, it, &ty, &cl); it_add(tuple_item_or_null(id, it), ty, cl, "map"); if (itn > 100000) break; } }
    it_end(); return;
  }

  /* ---- the collector */
  if (!strcmp(op, "sweep") || !strcmp(op, "thr") || !strcmp(op, "exit")) {
    static int vict[MAXH], elig[MAXH], expect[MAXH]; int nv = 0, no = 0, ne = 0, order[64];
    int k = 1;
    for (; k < ntok && strcmp(toks[k], ";"); k++) { if (!parse_nat(toks[k], &a)) BAD(); if (nv < MAXH) vict[nv++] = a < MAXH ? (int)a : MAXH - 1; }
    for (k++; k < ntok; k++) { if (!parse_nat(toks[k], &a)) BAD(); if (no < 64) order[no++] = a < MAXH ? (int)a : MAXH - 1; }
    int is_exit = !strcmp(op, "exit"), is_thr = !strcmp(op, "thr");
    if (is_exit && nv) BAD();
    struct GC* gc = current(GC);
    if (is_exit) {
      /* a registered run-time Type object in use among what the teardown releases: if its slot comes before the slot of one of
         its instances, that instance is finalised through a released Type (KF-C19-type-outlived) */
      int type_at_stake = 0;
      for (size_t q = 0; q < gc->nslots; q++) if (gc->entries[q].hash && !gc->entries[q].root) {
        int id = id_of(gc->entries[q].ptr); if (id >= 0 && meta[id].live && is_type_in_use(id)) type_at_stake = 1; }
      int pfd[2]; if (pipe(pfd)) { perror("pipe"); exit(2); }
      fflush(stdout);
      pid_t pid = fork();
      if (pid == 0) {
        close(pfd[0]); exit_pipe = pfd[1]; in_exit_child = 1; alarm(30);
        if (type_at_stake) { in_kf_child = 1; int dn = open("/dev/null", 1); if (dn >= 0) dup2(dn, 2); }   /* a crash is reported by the parent as hdr-type-outlived (model and harness must agree on it) */
        /* by the property: every registered object that is not a root is released exactly once, and what those Boxes own */
        nforb = 0; forb_hits = 0; expect_begin();
        for (int id = 0; id < MAXH; id++) if (reg_before[id]) { for (size_t q = 0; q < gc->nslots; q++) if (gc->entries[q].hash && gc->entries[q].ptr == meta[id].addr && !gc->entries[q].root) exp_rel[id] = 1; }
        expect_closure();
        hk.armed = 1; hk.fired = 0; hk.all = 1; hk.gc = gc; hk.nv = 0; hk.no = no; memcpy(hk.order, order, sizeof order);
        exit(0);      /* atexit: Cello_Exit -> GC_Del -> GC_Sweep; hdr_fini then reports the ledger */
      }
      close(pfd[1]);
      char got[1300]; ssize_t r, l = 0; while ((r = read(pfd[0], got + l, sizeof got - 1 - l)) > 0) l += r; got[l] = 0; close(pfd[0]);
      int st = 0; waitpid(pid, &st, 0);
      int clean = WIFEXITED(st) && WEXITSTATUS(st) == 0;
      O("exit exc=%s freed=%s", clean ? "none" : "UB", !clean ? "*" : l ? got : "-");
      if (!clean && type_at_stake) XF("hdr-type-outlived", "the teardown at exit released a run-time Type object before an object of that type and then finalised that object through the released Type (child status 0x%x)", st);
      else if (!clean) XF("hdr-exit-crash", "the teardown at exit did not complete (child status 0x%x; exit code 97 = AddressSanitizer, 98 = UBSan)", st);
      return;
    }
    /* a run-time Type object in use among the victims (the collector does not trace the type pointer of a header, so this is
       what it finds when nothing else refers to the Type): the collection is first tried in a forked child, which afterwards
       asks every live object of a released Type for the name of its type.  Clean child: the collection is in contract (the
       instances were all released before the Type) and is now run for real; otherwise it is KF-C19-type-outlived and the
       program goes on from the state before it. */
    if (!in_trial_child) {
      int trial = 0;
      for (int k2 = 0; k2 < nv; k2++) if (meta[vict[k2]].used && meta[vict[k2]].live && is_type_in_use(vict[k2])) trial = 1;
      if (trial) {
        fflush(stdout); fflush(vout);
        pid_t pid = fork();
        if (pid == 0) {
          in_trial_child = 1; in_kf_child = 1; alarm(60);
          int devnull = open("/dev/null", 1); if (devnull >= 0) { dup2(devnull, 2); dup2(devnull, 1); }
          FILE* nul = fopen("/dev/null", "w"); if (nul) vout = nul;
        } else {
          int st = 0; waitpid(pid, &st, 0);
          if (!(WIFEXITED(st) && WEXITSTATUS(st) == 0)) {
            O("%s exc=UB freed=*", op);
            XF("hdr-type-outlived", "a collection released a run-time Type object before, or under, a live object of that type: type_of of that object points into the released block (child status 0x%x)", st);
            return;
          }
        }
      }
    }
    /* what must happen, by the property: registered non-root heap victims are released once, with what their Boxes own; nothing else is touched */
    static char snap[64][400];
    expect_begin();
    for (int k2 = 0; k2 < nv; k2++) {
      Meta* m = &meta[vict[k2]]; expect[k2] = 0; if (k2 < 64) snap[k2][0] = 0;
      if (!m->used || !m->live) continue;
      if (k2 < 64) { Target t = { 0, vict[k2], 0 }; char big[3500]; describe(big, big + sizeof big, t); snprintf(snap[k2], sizeof snap[k2], "%s", big); }
    }
    /* the victims: registered, not an item of a live tuple (a run-time Type in use is a victim like any other); everything else is marked */
    for (size_t q = 0; q < gc->nslots; q++) if (gc->entries[q].hash) {
      int victim = 0;
      for (int k2 = 0; k2 < nv; k2++) if (meta[vict[k2]].used && meta[vict[k2]].live && meta[vict[k2]].addr == gc->entries[q].ptr &&
          !referenced(vict[k2])) {
        if (!victim) elig[ne++] = vict[k2];
        victim = 1; if (!gc->entries[q].root) { expect[k2] = 1; exp_rel[vict[k2]] = 1; } }
      gc->entries[q].marked = !victim;
    }
    nforb = 0; forb_hits = 0;
    for (int k2 = 0; k2 < nv; k2++) { Meta* m = &meta[vict[k2]]; if (m->used && m->live && m->ecls != AllocHeap && nforb < 8) forbid((char*)m->addr - HS, HS + m->cap, "a victim that is not on the heap"); }
    expect_closure();
    hk.armed = 1; hk.fired = 0; hk.all = 0; hk.gc = gc; hk.nv = ne; memcpy(hk.vict, elig, sizeof(int) * ne); hk.no = no; memcpy(hk.order, order, sizeof order);
    exc = NULL;
    if (is_thr) {
      /* registrations until GC_Set finds nitems > mitems and collects (GC_Mark; GC_Sweep) */
      static var junk[8192]; int nj = 0;
      while (!hk.fired && nj < 8192 && !exc) { V_TRY(exc, junk[nj] = new(Int, $I(nj))); if (!exc) nj++; }
      int fired = hk.fired; hk.armed = 0;
      for (int j = 0; j < nj; j++) { var e2; V_TRY(e2, del(junk[j])); junk[j] = NULL; if (e2 && !exc) exc = e2; }
      if (!fired && !exc) { I("no threshold collection after %d registrations: GC_Sweep called directly", nj); hk.armed = 1; V_TRY(exc, GC_Sweep(gc)); }
    } else {
      V_TRY(exc, GC_Sweep(gc));
    }
    if (!hk.fired) I("the hook at the first statement of GC_Sweep did not fire: pending order not set");
    hk.armed = 0;
    unprotect();
    if (exc) XF("hdr-sweep", "the collection raised %s", v_exc_name(exc));
    for (int k2 = nrel0; k2 < nrel; k2++) tab[relseq[k2]] = NULL;
    expect_check(op);
    for (int k2 = 0; k2 < nv && k2 < 64; k2++) {
      Meta* m = &meta[vict[k2]]; if (!m->used) continue;
      if (snap[k2][0] && !exp_rel[vict[k2]]) {
        Target t = { 0, vict[k2], 0 }; char big[3500]; describe(big, big + sizeof big, t); big[sizeof snap[k2] - 1] = 0;
        if (strcmp(big, snap[k2])) XF("hdr-changed", "a collector run changed object %d, which it does not manage: `%s` -> `%s`", vict[k2], snap[k2], big);
      }
    }
    if (in_trial_child) {
      /* every live object whose run-time Type was released: what is the name of your type? (reads the released block) */
      volatile size_t sink = 0;
      for (int id = 0; id < MAXH; id++) if (meta[id].used && meta[id].live && meta[id].addr) {
        var x = meta[id].addr; var ty = NULL;
        if (meta[id].kind == K_RTO) ty = type_of(x);
        else if (meta[id].kind == K_ARR || meta[id].kind == K_LST) ty = iter_type(x);
        else if (meta[id].kind == K_TAB || meta[id].kind == K_TRE) { ty = val_type(x); int kt = id_of(key_type(x)); if (kt >= 0 && !meta[kt].live) ty = key_type(x); }
        int t = ty ? id_of(ty) : -1;
        if (t >= 0 && meta[t].kind == K_RTT && !meta[t].live) sink += strlen(c_str(ty)) + size(ty);
      }
      _exit(exc ? 3 : 0);
    }
    O("%s exc=%s freed=%s", op, v_exc_name(exc), rel_since(nrel0));
    oracle_registry();
    return;
  }
  if (!strcmp(op, "end") && ntok == 1) {
    int released = 0, liveheap = 0, registered = 0;
    for (int id = 0; id < MAXH; id++) if (meta[id].used) { released += meta[id].frees; if (meta[id].live && meta[id].ecls == AllocHeap) { liveheap++; if (strcmp(reg_name(meta[id].addr), "-")) registered++; } }
    O("end released=%d live=%d registered=%d", released, liveheap, registered);
    return;
  }
  BAD();
}

/* AddressSanitizer is about to stop the process (use of a released block, double free, free of memory that is not a heap
   block): say where, with the release ledger of the operation under way */
static void on_sanitizer_death(void) {
  static int once; if (in_kf_child || once++) return;
  fprintf(vout ? vout : stdout, "X sig=hdr-sanitizer line=%zu what=AddressSanitizer stopped the library during this operation; blocks released by it so far: %s\n",
          cur_line, rel_since(nrel0));
  fflush(vout ? vout : stdout);
}

int main(int argc, char** argv) {
  v_init();
  __sanitizer_set_death_callback(on_sanitizer_death);
  if (argc < 2) { fprintf(stderr, "usage: h_hdr <opfile>\n"); return 2; }
  size_t n; char** lines = v_read_lines(argv[1], &n);
  var table[MAXH]; memset(table, 0, sizeof table); tab = table;
  (void)len(current(Exception));
  exec(lines, n, 0);
  I("ops=%d births=%d refused=%d oracle-failures=%d", n_ops, n_births, n_refused, n_x);
  { char b[600]; char* o = b; for (int k = 0; k < 16; k++) o += snprintf(o, b + sizeof b - o, " %s=%ld", slot_stat_name[k], slot_stat[k]); I("slots%s", b); }
  return 0;
}
