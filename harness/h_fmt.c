/* harness/h_fmt.c — engine `fmt` (C14): print_to_with on the real library, on three sinks.
 *
 * op lines (tokens separated by single spaces; byte strings in hex, `-` = empty):
 *   P <start> <old> <fmt> <nargs> <arg>... T <n> (<frag> <val> <out>)...   print_to_with(sink, start, fmt, args); the table is for the model only
 *   K ...same...                                                           same, plus the claim "sink unchanged when FormatError is raised" (known finding F29)
 *   M <start> <old> <fmt> <nargs> <arg>...                                 format outside the grammar, run in a forked child: does it leave its buffers?
 *   J ...same as P...                                                      the same run and the same checks in a forked child (a tree in which String_Format_To goes
 *                                                                          on with a negative size corrupts the heap); the grammar additionally admits %lc.  Used for
 *                                                                          specifications libc REJECTS (negative result): %lc with a wide character the "C" locale
 *                                                                          cannot encode, a width/precision that overflows int
 *   A <start> <old> <fmt> <nargs> <arg>... T ...                           print_to_with on a plain String in a forked child; an argument `Z 0` is the String itself
 *                                                                          (aliasing).  Prints `O A oob=0 exc=<e>` or, when the child dies, `O A oob=1`
 *   V <start> <old> <fmt> <nargs> <arg>... T 0                             a format with `*` as width (outside the property grammar as checked, inside C's): forked child,
 *                                                                          recording sink; `O V exc=<e> calls=<...>`; oracle: the text C printf writes when `*` consumes an
 *                                                                          argument of its own -> X sig=fmt-star-width (known finding KF-C14-star-width)
 *   B <start> <old> <fmt> <nargs> <arg>... T ...                           plain String sink, start may lie BEYOND strlen(old): `O B exc=<e> pos=<p> cstr=<c_str afterwards>`;
 *                                                                          oracle: strlen == returned position -> X sig=fmt-start-beyond-end (KF-C14-start-beyond-end)
 *   Q <start> <old> <fmt> <nargs> <arg>... T ...                           File sink, the live heap bytes are measured around the call (second run of the same call, so that
 *                                                                          stdio / unwinder one-time allocations are out): `O Q exc=<e> leaked=<bytes>`; oracle: 0
 *                                                                          -> X sig=fmt-buf-leak (KF-C14-fmtbuf-leak: fmt_buf is not freed on the throw paths)
 *   arg ::= i <int64> | f <16 hex digits: bits of the double> | s <bytes> | A <n> <arg>... | U <n> <arg>... | L <n> <arg>...
 *         | H <n> (<key> <val>)*n   Table Int -> scalar, `set` in this order      | R <n> (<key> <val>)*n   Tree Int -> scalar
 *         | G 3 i <start> i <stop> i <step>   Range                              | C <n> <arg>...          Slice over an Array of n scalars
 *         | X 1 <arg> | X 0   Box holding the object / NULL                       | N 0   NULL
 *         | O <name>   an object of a type without Show (File, Ref, NoShow)        | Y <name>   a Type object      | Z 0   the sink itself (op A only)
 *
 * For a P/K op the format is first split by an independent reference parser of the grammar
 *   literal | %% | % flags* digits* (. digits*)? lenmod conv      (see `parse_fmt`);
 * a format outside it is not executed (`O outside-grammar`).  Then print_to_with runs on
 *   W  a recording sink (own Format instance, file scope type `RecSink`) in front of a heap String holding <old>:
 *      logs every format_to call (fragment, decoded vararg, position, return value, bytes written)
 *   S  a plain heap String holding <old>
 *   F  a File (tmp file under /dev/shm or $PWD) holding <old>[0..start)
 * and prints
 *   O W exc=<e> pos=<p> calls=<frag:val;...> str=<bytes>
 *   O S exc=<e> pos=<p> str=<bytes> cap=<allocated size of the String's block (pointer renderings counted as 3 characters)>
 *   O F exc=<e> pos=<p> out=<bytes>
 * where the text libc prints for an object pointer (%p) is replaced by `<P>` and positions are corrected accordingly.
 * Direct oracle (X lines): expected text = concatenation over the reference segments of: the literal, `%`, libc's own
 * snprintf of the specification with the correctly typed C value ((int)v for %d, (long)v for %ld, ...), and for %$ an
 * independent implementation of show for Int / Float / String / Array / Tuple / List / Table / Tree / Range / Slice / Box / NULL / objects
 * without Show / Type objects (a Type object shows as its name, at whatever position: fix 0046a69); when the argument classes allow it
 * also ONE snprintf call with the whole format.  Expected position = start + length; File content = String content;
 * the recorded calls = the reference segments with the arguments in order; FormatError exactly when a specification has
 * no argument or libc itself rejects a specification (its snprintf returns < 0): then the sinks hold exactly what the segments
 * before it wrote (a String that received nothing is untouched), the rejected call is the last one recorded. */
#include "common.h"
#include <inttypes.h>
#include <stddef.h>
#include <errno.h>
#include <fcntl.h>
#include <wchar.h>

/* ------------------------------------------------------------------ byte buffers */
typedef struct { unsigned char* p; size_t n, cap; } Buf;
static void buf_need(Buf* b, size_t extra) {
  if (b->n + extra + 1 > b->cap) { b->cap = (b->n + extra + 1) * 2 + 16; b->p = realloc(b->p, b->cap); }
}
static void buf_put(Buf* b, const void* d, size_t n) { buf_need(b, n); if (n) memcpy(b->p + b->n, d, n); b->n += n; b->p[b->n] = 0; }
static void buf_puts(Buf* b, const char* s) { buf_put(b, s, strlen(s)); }
static void buf_reset(Buf* b) { b->n = 0; buf_need(b, 0); b->p[0] = 0; }
static void buf_free(Buf* b) { free(b->p); b->p = NULL; b->n = b->cap = 0; }
static int hexv(int c) { if (c >= '0' && c <= '9') return c - '0'; if (c >= 'a' && c <= 'f') return c - 'a' + 10; if (c >= 'A' && c <= 'F') return c - 'A' + 10; return -1; }
static int unhex(const char* s, Buf* out) {
  buf_reset(out);
  if (strcmp(s, "-") == 0) return 1;
  size_t l = strlen(s); if (l % 2) return 0;
  for (size_t i = 0; i < l; i += 2) { int a = hexv(s[i]), b = hexv(s[i+1]); if (a < 0 || b < 0) return 0; unsigned char c = (unsigned char)(a * 16 + b); buf_put(out, &c, 1); }
  return 1;
}
static void hex_of(const unsigned char* p, size_t n, Buf* out) {
  static const char* H = "0123456789abcdef";
  if (n == 0) { buf_puts(out, "-"); return; }
  for (size_t i = 0; i < n; i++) { char c[2] = { H[p[i] >> 4], H[p[i] & 15] }; buf_put(out, c, 2); }
}
static int has_nul(const Buf* b) { return memchr(b->p, 0, b->n) != NULL; }

/* ------------------------------------------------------------------ arguments */
typedef struct ArgD { char kind; int64_t i; double d; uint64_t bits; Buf s; int n; struct ArgD** items; var obj; var aux; } ArgD;

static void arg_free(ArgD* a) {
  if (!a) return;
  for (int k = 0; k < a->n; k++) arg_free(a->items[k]);
  free(a->items); buf_free(&a->s); free(a);
}
static int parse_i64(const char* s, int64_t* v) { char* e; errno = 0; long long x = strtoll(s, &e, 10); if (errno || *e || e == s) return 0; *v = x; return 1; }
static int is_scalar(char k) { return k == 'i' || k == 'f' || k == 's'; }
static const char* OTHER_NAMES[] = { "File", "Ref", "NoShow", NULL };
static const char* TYPE_NAMES[] = { "Int", "Float", "String", "Array", "List", "Tuple", "Table", "Tree", "File", "Range", "Slice", "Box", "Ref", "Type", NULL };
static int name_in(const char* n, const char** set) { for (int k = 0; set[k]; k++) if (!strcmp(n, set[k])) return 1; return 0; }

static ArgD* parse_arg(char** tok, int ntok, int* k) {
  if (*k + 1 >= ntok) return NULL;
  ArgD* a = calloc(1, sizeof(ArgD));
  const char* kd = tok[(*k)++]; const char* v = tok[(*k)++];
  if (strlen(kd) != 1) { arg_free(a); return NULL; }
  a->kind = kd[0];
  switch (a->kind) {
    case 'i': if (!parse_i64(v, &a->i)) { arg_free(a); return NULL; } break;
    case 'f': {
      if (strlen(v) == 0 || strlen(v) > 16) { arg_free(a); return NULL; }
      uint64_t b = 0; for (const char* p = v; *p; p++) { int h = hexv(*p); if (h < 0) { arg_free(a); return NULL; } b = b * 16 + (uint64_t)h; }
      a->bits = b; memcpy(&a->d, &b, 8); break; }
    case 's': if (!unhex(v, &a->s) || has_nul(&a->s)) { arg_free(a); return NULL; } break;
    case 'A': case 'U': case 'L': {
      int64_t n; if (!parse_i64(v, &n) || n < 0 || n > 1000) { arg_free(a); return NULL; }
      a->items = calloc((size_t)n + 1, sizeof(ArgD*));
      for (int64_t j = 0; j < n; j++) { ArgD* c = parse_arg(tok, ntok, k); if (!c) { arg_free(a); return NULL; } a->items[a->n++] = c; }
      if (a->kind != 'U') for (int j = 0; j < a->n; j++) if (!is_scalar(a->items[j]->kind) || a->items[j]->kind != a->items[0]->kind) { arg_free(a); return NULL; }
      break; }
    case 'C': {   /* Slice over an Array of scalars of one kind */
      int64_t n; if (!parse_i64(v, &n) || n < 0 || n > 1000) { arg_free(a); return NULL; }
      a->items = calloc((size_t)n + 1, sizeof(ArgD*));
      for (int64_t j = 0; j < n; j++) { ArgD* c = parse_arg(tok, ntok, k); if (!c) { arg_free(a); return NULL; } a->items[a->n++] = c; }
      for (int j = 0; j < a->n; j++) if (!is_scalar(a->items[j]->kind) || a->items[j]->kind != a->items[0]->kind) { arg_free(a); return NULL; }
      break; }
    case 'H': case 'R': {   /* n pairs: items[2j] = key (Int), items[2j+1] = value (scalars of one kind) */
      int64_t n; if (!parse_i64(v, &n) || n < 0 || n > 500) { arg_free(a); return NULL; }
      a->items = calloc(2 * (size_t)n + 1, sizeof(ArgD*));
      for (int64_t j = 0; j < 2 * n; j++) { ArgD* c = parse_arg(tok, ntok, k); if (!c) { arg_free(a); return NULL; } a->items[a->n++] = c; }
      for (int j = 0; j < a->n; j += 2) if (a->items[j]->kind != 'i' || !is_scalar(a->items[j+1]->kind) || a->items[j+1]->kind != a->items[1]->kind) { arg_free(a); return NULL; }
      break; }
    case 'G': {
      int64_t n; if (!parse_i64(v, &n) || n != 3) { arg_free(a); return NULL; }
      a->items = calloc(4, sizeof(ArgD*));
      for (int j = 0; j < 3; j++) { ArgD* c = parse_arg(tok, ntok, k); if (!c || c->kind != 'i') { arg_free(c); arg_free(a); return NULL; } a->items[a->n++] = c; }
      break; }
    case 'X': {
      int64_t n; if (!parse_i64(v, &n) || n < 0 || n > 1) { arg_free(a); return NULL; }
      a->items = calloc(2, sizeof(ArgD*));
      if (n == 1) { ArgD* c = parse_arg(tok, ntok, k); if (!c) { arg_free(a); return NULL; } a->items[a->n++] = c; }
      break; }
    case 'N': case 'Z': if (strcmp(v, "0") != 0) { arg_free(a); return NULL; } break;
    case 'O': if (!unhex(v, &a->s) || has_nul(&a->s) || !name_in((char*)a->s.p, OTHER_NAMES)) { arg_free(a); return NULL; } break;
    case 'Y': if (!unhex(v, &a->s) || has_nul(&a->s) || !name_in((char*)a->s.p, TYPE_NAMES)) { arg_free(a); return NULL; } break;
    default: arg_free(a); return NULL;
  }
  return a;
}

static var elem_type(ArgD* a) { if (a->n == 0) return Int; switch (a->items[0]->kind) { case 'i': return Int; case 'f': return Float; default: return String; } }

struct NoShow { int x; };
static size_t NoShow_Len(var self) { return 0; }
var NoShow = Cello(NoShow, Instance(Len, NoShow_Len));

static var the_sink = NULL;    /* what an argument `Z 0` denotes (op A) */
static int has_kind(const ArgD* a, char k) { if (a->kind == k) return 1; for (int j = 0; j < a->n; j++) if (has_kind(a->items[j], k)) return 1; return 0; }
static var type_by_name(const char* n) {
  var T[] = { Int, Float, String, Array, List, Tuple, Table, Tree, File, Range, Slice, Box, Ref, Type };
  for (int k = 0; TYPE_NAMES[k]; k++) if (!strcmp(n, TYPE_NAMES[k])) return T[k];
  return NULL;
}
static var scalar_type(char k) { return k == 'i' ? Int : k == 'f' ? Float : String; }
#define scalar_tmp(c) ((c)->kind == 'i' ? (var)$I((c)->i) : (c)->kind == 'f' ? (var)$F((c)->d) : (var)$S((char*)(c)->s.p))   /* stack objects: a macro */

static void build(ArgD* a) {
  switch (a->kind) {
    case 'i': a->obj = new_raw(Int, $I(a->i)); break;
    case 'f': a->obj = new_raw(Float, $F(a->d)); break;
    case 's': a->obj = new_raw(String, $S((char*)a->s.p)); break;
    case 'A': case 'L':
      a->obj = a->kind == 'A' ? (var)new_raw(Array, elem_type(a)) : (var)new_raw(List, elem_type(a));
      for (int k = 0; k < a->n; k++) {
        ArgD* c = a->items[k];
        if (c->kind == 'i') push(a->obj, $I(c->i)); else if (c->kind == 'f') push(a->obj, $F(c->d)); else push(a->obj, $S((char*)c->s.p));
      }
      break;
    case 'U':
      a->obj = new_raw(Tuple);
      for (int k = 0; k < a->n; k++) { build(a->items[k]); push(a->obj, a->items[k]->obj); }
      break;
    case 'H': case 'R':
      a->obj = a->kind == 'H' ? (var)new_raw(Table, Int, a->n ? scalar_type(a->items[1]->kind) : Int)
                              : (var)new_raw(Tree, Int, a->n ? scalar_type(a->items[1]->kind) : Int);
      for (int k = 0; k < a->n; k += 2) set(a->obj, $I(a->items[k]->i), scalar_tmp(a->items[k+1]));
      break;
    /* Range and Slice keep GC-managed sub-objects (`r->value = new(Int)`, `s->range = new(Range)`): they must be reachable for the collector — roots */
    case 'G': a->obj = new_root(Range, $I(a->items[0]->i), $I(a->items[1]->i), $I(a->items[2]->i)); break;
    case 'C': {   /* the Array lives in a->aux, the Slice over all of it is the object */
      a->aux = new_raw(Array, elem_type(a));
      for (int k = 0; k < a->n; k++) push(a->aux, scalar_tmp(a->items[k]));
      a->obj = new_root(Slice, a->aux);
      break; }
    case 'X':
      a->obj = alloc_raw(Box);
      if (a->n) { build(a->items[0]); ((struct Box*)a->obj)->val = a->items[0]->obj; } else ((struct Box*)a->obj)->val = NULL;
      break;
    case 'N': a->obj = NULL; break;
    case 'Z': a->obj = the_sink; break;
    case 'O':
      if (!strcmp((char*)a->s.p, "File")) a->obj = new_raw(File);
      else if (!strcmp((char*)a->s.p, "Ref")) { a->obj = alloc_raw(Ref); ((struct Ref*)a->obj)->val = NULL; }
      else a->obj = alloc_raw(NoShow);
      break;
    case 'Y': a->obj = type_by_name((char*)a->s.p); break;
  }
}
static void unbuild(ArgD* a) {
  if (a->kind == 'U' || a->kind == 'X') for (int k = 0; k < a->n; k++) unbuild(a->items[k]);
  if (a->kind == 'N' || a->kind == 'Z' || a->kind == 'Y') { a->obj = NULL; return; }
  if (a->kind == 'X' || (a->kind == 'O' && strcmp((char*)a->s.p, "File") != 0)) { if (a->obj) dealloc_raw(a->obj); a->obj = NULL; return; }
  if (a->kind == 'G' || a->kind == 'C') { if (a->obj) del_root(a->obj); a->obj = NULL; }
  if (a->obj) { del_raw(a->obj); a->obj = NULL; }
  if (a->aux) { del_raw(a->aux); a->aux = NULL; }
}

/* ------------------------------------------------------------------ reference parser of the grammar */
typedef struct { int kind; /* 0 literal, 1 %%, 2 specification */ size_t off, len; char conv; char lm[3]; } SegD;

static const char* INTC = "diuoxX"; static const char* FLTC = "fFeEgGaA";
static int lenmod_ok(char conv, const char* lm, int wide) {
  if (wide && conv == 'c' && !strcmp(lm, "l")) return 1;
  if (strchr(INTC, conv)) return lm[0] == 0 || !strcmp(lm, "hh") || !strcmp(lm, "h") || !strcmp(lm, "l") || !strcmp(lm, "ll") || !strcmp(lm, "j") || !strcmp(lm, "z") || !strcmp(lm, "t");
  if (strchr(FLTC, conv)) return lm[0] == 0 || !strcmp(lm, "l");
  if (conv == 'c' || conv == 's' || conv == 'p' || conv == '$') return lm[0] == 0;
  return 0;
}
/* returns number of segments, or -1 when the format is outside the grammar */
static int parse_fmt(const unsigned char* f, size_t n, SegD** out, int wide) {
  size_t cap = 16; int ns = 0; SegD* s = malloc(cap * sizeof(SegD)); size_t i = 0;
  while (i < n) {
    if ((size_t)ns == cap) { cap *= 2; s = realloc(s, cap * sizeof(SegD)); }
    SegD* g = &s[ns]; memset(g, 0, sizeof *g); g->off = i;
    if (f[i] != '%') { while (i < n && f[i] != '%') i++; g->kind = 0; g->len = i - g->off; ns++; continue; }
    if (i + 1 < n && f[i+1] == '%') { g->kind = 1; g->len = 2; i += 2; ns++; continue; }
    i++;
    while (i < n && f[i] && strchr("-+ #0", f[i])) i++;
    while (i < n && f[i] >= '0' && f[i] <= '9') i++;
    if (i < n && f[i] == '.') { i++; while (i < n && f[i] >= '0' && f[i] <= '9') i++; }
    int l = 0;
    if (i + 1 < n && ((f[i] == 'h' && f[i+1] == 'h') || (f[i] == 'l' && f[i+1] == 'l'))) { g->lm[0] = (char)f[i]; g->lm[1] = (char)f[i+1]; l = 2; }
    else if (i < n && f[i] && strchr("hljzt", f[i])) { g->lm[0] = (char)f[i]; l = 1; }
    i += (size_t)l;
    if (i >= n || !f[i] || !strchr("diuoxXcsfFeEgGaAp$", f[i]) || !lenmod_ok((char)f[i], g->lm, wide)) { free(s); return -1; }
    g->kind = 2; g->conv = (char)f[i]; i++; g->len = i - g->off; ns++;
  }
  *out = s; return ns;
}

/* ------------------------------------------------------------------ reference show and per-specification libc call */
static void ref_show(ArgD* a, Buf* out);
static void ref_items(ArgD* a, Buf* out) { for (int k = 0; k < a->n; k++) { if (k) buf_puts(out, ", "); ref_show(a->items[k], out); } }
/* appends what libc prints; returns -1 (appending nothing) when libc rejects the call */
static int putf(Buf* out, const char* fmt, ...) {
  va_list va, vb; va_start(va, fmt); va_copy(vb, va);
  int n = vsnprintf(NULL, 0, fmt, va); va_end(va);
  if (n < 0) { va_end(vb); return -1; }
  buf_need(out, (size_t)n + 1); vsnprintf((char*)out->p + out->n, (size_t)n + 1, fmt, vb); va_end(vb); out->n += (size_t)n;
  return 0;
}
static void ref_show(ArgD* a, Buf* out) {
  switch (a->kind) {
    case 'i': putf(out, "%ld", (long)a->i); break;
    case 'f': putf(out, "%f", a->d); break;
    case 's':
      buf_puts(out, "\"");
      for (size_t k = 0; k < a->s.n; k++) {
        unsigned char c = a->s.p[k];
        const char* e = c == 7 ? "\\a" : c == 8 ? "\\b" : c == 12 ? "\\f" : c == 10 ? "\\n" : c == 13 ? "\\r" : c == 9 ? "\\t" : c == 11 ? "\\v" :
                        c == '\\' ? "\\\\" : c == '\'' ? "\\'" : c == '"' ? "\\\"" : c == '?' ? "\\?" : NULL;
        if (e) buf_puts(out, e); else buf_put(out, &c, 1);
      }
      buf_puts(out, "\""); break;
    case 'A': putf(out, "<'Array' At 0x%p [", a->obj); ref_items(a, out); buf_puts(out, "]>"); break;
    case 'L': putf(out, "<'List' At 0x%p [", a->obj); ref_items(a, out); buf_puts(out, "]>"); break;
    case 'U': buf_puts(out, "tuple("); ref_items(a, out); buf_puts(out, ")"); break;
    case 'C': putf(out, "<'Slice' At 0x%p [", a->obj); ref_items(a, out); buf_puts(out, "]>"); break;
    case 'G': {   /* the values a Range yields: start, start+step, ... below stop (step > 0); stop-1, stop-1+step, ... not below start (step < 0) */
      int64_t st = a->items[0]->i, sp = a->items[1]->i, se = a->items[2]->i; int first = 1;
      putf(out, "<'Range' At 0x%p [", a->obj);
      /* each value is shown as an Int shows itself (the property: "its elements' own show text"): %ld of the 64-bit value — fix 78c2117; the OLD
         Range_Show printed them with "%i" (low 32 bits) and is flagged here as an ordinary fmt-output violation */
      if (se > 0) for (int64_t v = st; v < sp; v += se) { if (!first) buf_puts(out, ", "); first = 0; putf(out, "%ld", (long)v); }
      if (se < 0) for (int64_t v = sp - 1; v >= st; v += se) { if (!first) buf_puts(out, ", "); first = 0; putf(out, "%ld", (long)v); }
      buf_puts(out, "]>"); break; }
    case 'H': {   /* each pair once, in the order the Table's own iteration gives; value = the LAST one set for that key in the op */
      putf(out, "<'Table' At 0x%p {", a->obj);
      size_t seen = 0, distinct = 0;
      for (int k = 0; k < a->n; k += 2) { int dup = 0; for (int j = k + 2; j < a->n; j += 2) if (a->items[j]->i == a->items[k]->i) dup = 1; if (!dup) distinct++; }
      foreach (key in a->obj) {
        int64_t kv = c_int(key); ArgD* val = NULL;
        for (int k = 0; k < a->n; k += 2) if (a->items[k]->i == kv) val = a->items[k+1];
        if (seen++) buf_puts(out, ", ");
        putf(out, "%ld", (long)kv); buf_puts(out, ":");
        if (val) ref_show(val, out); else buf_puts(out, "<key-not-in-op>");
      }
      if (seen != distinct) buf_puts(out, "<iteration-count-differs>");
      buf_puts(out, "}>"); break; }
    case 'R': {   /* distinct keys in the Tree's iteration order: DESCENDING (Tree_Set descends by cmp(node key, key) < 0 -> left; iteration starts leftmost) */
      putf(out, "<'Tree' At 0x%p {", a->obj);
      int first = 1; int64_t last = 0;
      for (;;) {
        ArgD* best = NULL; int64_t bk = 0;
        for (int k = 0; k < a->n; k += 2) { int64_t kv = a->items[k]->i; if ((first || kv < last) && (!best || kv >= bk)) { best = a->items[k+1]; bk = kv; } }
        if (!best) break;
        if (!first) buf_puts(out, ", ");
        putf(out, "%ld", (long)bk); buf_puts(out, ":"); ref_show(best, out);
        first = 0; last = bk;
      }
      buf_puts(out, "}>"); break; }
    case 'X': putf(out, "<'Box' at 0x%p (", a->obj); if (a->n) ref_show(a->items[0], out); else buf_puts(out, "<NULL>"); buf_puts(out, ")>"); break;
    case 'N': buf_puts(out, "<NULL>"); break;
    case 'O': buf_puts(out, "<'"); buf_put(out, a->s.p, a->s.n); putf(out, "' At 0x%p>", a->obj); break;
    case 'Y': buf_put(out, a->s.p, a->s.n); break;    /* what show of a Type object must write: its name */
  }
}
/* the class a conversion needs: 'i' Int, 'f' Float, 's' String, 'p'/'$' anything */
static char need_of(char conv) { if (strchr(INTC, conv) || conv == 'c') return 'i'; if (strchr(FLTC, conv)) return 'f'; if (conv == 's') return 's'; return '*'; }

/* returns -1 when libc rejects the specification (nothing appended) */
static int ref_spec(const char* spec, const SegD* g, ArgD* a, Buf* out) {
  const char* lm = g->lm; int64_t v = a->i;
  if (g->conv == '$') { ref_show(a, out); return 0; }
  if (g->conv == 's') return putf(out, spec, (char*)a->s.p);
  if (g->conv == 'p') return putf(out, spec, (void*)a->obj);
  if (g->conv == 'c') return !strcmp(lm, "l") ? putf(out, spec, (wint_t)v) : putf(out, spec, (int)v);
  if (strchr(FLTC, g->conv)) return putf(out, spec, a->d);
  if (g->conv == 'd' || g->conv == 'i') {
    if (!strcmp(lm, "l")) return putf(out, spec, (long)v); else if (!strcmp(lm, "ll")) return putf(out, spec, (long long)v);
    else if (!strcmp(lm, "j")) return putf(out, spec, (intmax_t)v); else if (!strcmp(lm, "z")) return putf(out, spec, (ssize_t)v);
    else if (!strcmp(lm, "t")) return putf(out, spec, (ptrdiff_t)v); else return putf(out, spec, (int)v);   /* "", h, hh: an int, converted by printf */
  } else {
    if (!strcmp(lm, "l")) return putf(out, spec, (unsigned long)v); else if (!strcmp(lm, "ll")) return putf(out, spec, (unsigned long long)v);
    else if (!strcmp(lm, "j")) return putf(out, spec, (uintmax_t)v); else if (!strcmp(lm, "z")) return putf(out, spec, (size_t)v);
    else if (!strcmp(lm, "t")) return putf(out, spec, (ptrdiff_t)v); else return putf(out, spec, (unsigned int)v);
  }
}

/* ------------------------------------------------------------------ the recording sink */
struct RecSink { var inner; };
typedef struct { char* frag; char vk; /* n s i d p */ int64_t i; uint64_t bits; char* s; int pos, ret; unsigned char* out; } CallD;
/* allocated size of the heap block at p: the size that was asked of malloc / realloc, as ASan's allocator recorded it (probing for the first
   poisoned byte is not reliable: a chunk whose size and redzone fill their size class exactly has no poisoned slack behind it) */
#if defined(__has_feature)
#if __has_feature(address_sanitizer)
#define H_FMT_ASAN 1
#endif
#endif
#ifdef H_FMT_ASAN
size_t __sanitizer_get_allocated_size(const volatile void* p);
static long block_size(const char* p) { return p ? (long)__sanitizer_get_allocated_size(p) : 0; }
#else
static long block_size(const char* p) { return p ? (long)strlen(p) + 1 : 0; }
#endif
static size_t n_grow = 0, n_shrink = 0, n_keep = 0, n_empty = 0, n_cap = 0; static long max_piece = 0;   /* realloc branches of String_Format_To, per accepted call */
static CallD* rec_calls = NULL; static size_t rec_n = 0, rec_cap = 0;
static void rec_clear(void) {
  for (size_t k = 0; k < rec_n; k++) { free(rec_calls[k].frag); free(rec_calls[k].s); free(rec_calls[k].out); }
  rec_n = 0;
}
static int Rec_Format_To(var self, int pos, const char* fmt, va_list va) {
  struct RecSink* r = self;
  if (rec_n == rec_cap) { rec_cap = rec_cap ? rec_cap * 2 : 64; rec_calls = realloc(rec_calls, rec_cap * sizeof(CallD)); }
  CallD* c = &rec_calls[rec_n++]; memset(c, 0, sizeof *c);
  c->frag = strdup(fmt); c->pos = pos; c->vk = 'n';
  size_t l = strlen(fmt);
  if (strchr(fmt, '%') && strcmp(fmt, "%%") != 0 && l > 0) {
    char k = fmt[l-1]; va_list vc; va_copy(vc, va);
    if (k == 's') { c->vk = 's'; const char* s = va_arg(vc, const char*); c->s = strdup(s ? s : "<null>"); }
    else if (strchr("diouxXc", k)) { c->vk = 'i'; c->i = va_arg(vc, int64_t); }
    else if (strchr("fFeEgGaA", k)) { c->vk = 'd'; double d = va_arg(vc, double); memcpy(&c->bits, &d, 8); }
    else if (k == 'p') { c->vk = 'p'; (void)va_arg(vc, void*); }
    va_end(vc);
  }
  long before = block_size(((struct String*)r->inner)->val);
  int ret = format_to_va(r->inner, pos, fmt, va);
  if (ret >= 0) {
    long after = block_size(((struct String*)r->inner)->val);
    if (after > before) n_grow++; else if (after < before) n_shrink++; else n_keep++;
    if (ret == 0) n_empty++;
    if (ret > max_piece) max_piece = ret;
  }
  CallD* c2 = &rec_calls[rec_n-1];    /* (a nested call cannot happen, but do not rely on `c` across the call) */
  c2->ret = ret;
  if (ret > 0) { c2->out = malloc((size_t)ret); memcpy(c2->out, ((struct String*)r->inner)->val + pos, (size_t)ret); }
  return ret;
}
static int Rec_Format_From(var self, int pos, const char* fmt, va_list va) { return -1; }
var RecSink = Cello(RecSink, Instance(Format, Rec_Format_To, Rec_Format_From));

/* ------------------------------------------------------------------ helpers */
static FILE* tmp_fp = NULL;   /* one anonymous tmp file (unlinked right after creation), truncated for every op */

static int split(char* l, char*** out) {
  size_t cap = 64; int n = 0; char** t = malloc(cap * sizeof(char*));
  char* p = l;
  while (*p) {
    while (*p == ' ') p++;
    if (!*p) break;
    if ((size_t)n == cap) { cap *= 2; t = realloc(t, cap * sizeof(char*)); }
    t[n++] = p;
    while (*p && *p != ' ') p++;
    if (*p) *p++ = 0;
  }
  *out = t; return n;
}

typedef struct { int start; Buf old, fmt; int nargs; ArgD** args; } OpD;
static void op_free(OpD* o) { for (int k = 0; k < o->nargs; k++) arg_free(o->args[k]); free(o->args); buf_free(&o->old); buf_free(&o->fmt); }
/* tokens after the op letter; *k ends after the arguments */
static int allow_beyond = 0;   /* op B: the start position may exceed strlen(old) */
static int parse_op(char** tok, int ntok, int* k, OpD* o) {
  memset(o, 0, sizeof *o);
  if (ntok < 5) return 0;
  int64_t st, na;
  if (!parse_i64(tok[1], &st) || st < 0 || st > 1000000) return 0;
  if (!unhex(tok[2], &o->old) || has_nul(&o->old)) return 0;
  if (!unhex(tok[3], &o->fmt) || has_nul(&o->fmt)) return 0;
  if (!parse_i64(tok[4], &na) || na < 0 || na > 1000) return 0;
  if ((size_t)st > o->old.n && !(allow_beyond && (size_t)st <= o->old.n + 64)) return 0;
  o->start = (int)st; o->args = calloc((size_t)na + 1, sizeof(ArgD*));
  *k = 5;
  for (int64_t j = 0; j < na; j++) { ArgD* a = parse_arg(tok, ntok, k); if (!a) return 0; o->args[o->nargs++] = a; }
  return 1;
}

static size_t n_spec = 0, n_ops = 0, n_toofew = 0, n_show = 0, n_whole = 0, n_rej = 0, n_typeshow = 0;

/* one snprintf with the whole format, possible when the integer-class values fit the 4 free integer registers (putf has 2 named parameters) and the
   doubles the 8 vector registers of the x86-64 calling convention (their relative order is then irrelevant) */
static int whole_format(const OpD* op, const SegD* segs, int ns, Buf* out) {
#if defined(__x86_64__)
  uint64_t g[4] = {0, 0, 0, 0}; double d[8] = {0}; int ng = 0, nd = 0, k = 0;
  for (int s = 0; s < ns; s++) {
    if (segs[s].kind != 2) continue;
    if (k >= op->nargs) return 0;
    ArgD* a = op->args[k++]; char conv = segs[s].conv;
    if (conv == '$' || (need_of(conv) != a->kind && need_of(conv) != '*' && !(need_of(conv) == 's' && a->kind == 'Y'))) return 0;
    if (strchr(FLTC, conv)) { if (nd == 8) return 0; d[nd++] = a->d; }
    else { if (ng == 4) return 0; g[ng++] = conv == 's' ? (uint64_t)(uintptr_t)a->s.p : conv == 'p' ? (uint64_t)(uintptr_t)a->obj : (uint64_t)a->i; }
  }
  putf(out, (const char*)op->fmt.p, g[0], g[1], g[2], g[3], d[0], d[1], d[2], d[3], d[4], d[5], d[6], d[7]);
  return 1;
#else
  return 0;
#endif
}

static void run_P(OpD* op, size_t line, int claim_unchanged, int wide) {
  SegD* segs = NULL;
  int ns = parse_fmt(op->fmt.p, op->fmt.n, &segs, wide);
  if (ns < 0) { O("outside-grammar"); return; }
  n_ops++;
#define SIG(s) (s)    /* (a Type object shown by %$ was known finding KF-C14-type-show until fix 0046a69: an ordinary violation now) */
  for (int k = 0; k < op->nargs; k++) build(op->args[k]);
  var* items = calloc((size_t)op->nargs + 1, sizeof(var));
  for (int k = 0; k < op->nargs; k++) items[k] = op->args[k]->obj;
  items[op->nargs] = Terminal;
  var args = $(Tuple, items);
  const char* fmt = (const char*)op->fmt.p;

  /* ---- oracle: expected text, exception, calls */
  Buf exp = {0}; buf_reset(&exp);
  const char* exp_exc = "none"; int karg = 0; int stop_seg = ns; int rejected = 0;   /* rejected: libc refuses segment stop_seg */
  Buf spec = {0};
  for (int s = 0; s < ns; s++) {
    const SegD* g = &segs[s];
    if (g->kind == 0) buf_put(&exp, op->fmt.p + g->off, g->len);
    else if (g->kind == 1) buf_puts(&exp, "%");
    else {
      n_spec++;
      if (karg >= op->nargs) { exp_exc = "FormatError"; stop_seg = s; n_toofew++; break; }
      ArgD* a = op->args[karg++];
      char need = need_of(g->conv);
      if (need != '*' && a->kind == 'N') { exp_exc = "ValueError"; stop_seg = s; break; }       /* c_int / c_float / c_str of NULL: type_of refuses */
      if (need != '*' && need != a->kind && !(need == 's' && a->kind == 'Y')) { exp_exc = "ClassError"; stop_seg = s; break; }
      if (g->conv == '$') { n_show++; if (has_kind(a, 'Y')) n_typeshow++; }
      buf_reset(&spec); buf_put(&spec, op->fmt.p + g->off, g->len);
      if (ref_spec((const char*)spec.p, g, a, &exp) < 0) { exp_exc = "FormatError"; stop_seg = s; rejected = 1; n_rej++; karg--; break; }
    }
  }
  int nsp = 0; for (int s = 0; s < ns; s++) if (segs[s].kind == 2) nsp++;
  if (!rejected && (nsp > op->nargs) != (strcmp(exp_exc, "FormatError") == 0) && strcmp(exp_exc, "ClassError") != 0 && strcmp(exp_exc, "ValueError") != 0)
    X("sig=harness-internal line=%zu what=oracle bookkeeping", line);

  /* ---- W: recording sink in front of a String */
  rec_clear();
  var inner = new_raw(String, $S((char*)op->old.p));
  var rec = $(RecSink, inner);
  var exc; int posW = -1;
  V_TRY(exc, posW = print_to_with(rec, op->start, fmt, args));
  const char* excW = v_exc_name(exc);
  /* pieces must tile [start, end); only the last call may have been rejected (negative result) */
  int end = op->start; int tiled = 1; long ptr_extra = 0; size_t n_acc = 0;
  for (size_t k = 0; k < rec_n; k++) {
    if (rec_calls[k].ret < 0 && k + 1 == rec_n) break;
    if (rec_calls[k].pos != end || rec_calls[k].ret < 0) { tiled = 0; break; }
    end += rec_calls[k].ret; n_acc++;
    if (rec_calls[k].vk == 'p') ptr_extra += rec_calls[k].ret - 3;
  }
  if (!tiled) X("sig=%s line=%zu what=format_to calls are not made at consecutive positions from the start position", SIG("fmt-position"), line);
  if (exc == NULL && posW != end) X("sig=%s line=%zu what=returned position %d but the calls end at %d", SIG("fmt-position"), line, posW, end);
  if (exc == NULL && n_acc != rec_n) X("sig=%s line=%zu what=a format_to call returned a negative result and print_to_with did not raise", SIG("fmt-reject"), line);
  /* a String that received no accepted format_to call is untouched (all of <old>); after one it ends where the call ended */
  const char* valW = ((struct String*)inner)->val;
  if (valW == NULL) { X("sig=%s line=%zu what=String sink has lost its buffer (val is NULL) after %s", SIG("fmt-output"), line, excW); valW = ""; }
  size_t rawW_n = n_acc == 0 ? op->old.n : (size_t)end; unsigned char* rawW = malloc(rawW_n + 1);
  if (((struct String*)inner)->val == NULL) rawW_n = 0;      /* (text written by %c can contain NUL bytes: no strlen here) */
  if (!tiled && strlen(valW) < rawW_n) rawW_n = strlen(valW);  /* the bookkeeping is off already (reported above): stay inside the block */
  memcpy(rawW, valW, rawW_n); rawW[rawW_n] = 0;
  if (n_acc == 0 && strlen(valW) != op->old.n) X("sig=%s line=%zu what=String sink changed although libc accepted no format_to call", SIG("fmt-output"), line);
  /* canonical text: pointer renderings replaced; `canonF` = what a File holding old[0..start) must contain */
  Buf canon = {0}, canonF = {0}; buf_reset(&canon); buf_reset(&canonF);
  buf_put(&canonF, op->old.p, (size_t)op->start);
  if (n_acc == 0) buf_put(&canon, rawW, rawW_n); else buf_put(&canon, rawW, (size_t)op->start <= rawW_n ? (size_t)op->start : rawW_n);
  if (tiled) for (size_t k = 0; k < n_acc; k++) {
    if (rec_calls[k].vk == 'p') { buf_puts(&canon, "<P>"); buf_puts(&canonF, "<P>"); }
    else { buf_put(&canon, rec_calls[k].out, (size_t)rec_calls[k].ret); buf_put(&canonF, rec_calls[k].out, (size_t)rec_calls[k].ret); }
  }
  Buf hxF = {0}; buf_reset(&hxF); hex_of(canonF.p, canonF.n, &hxF);
  Buf line_ = {0}; buf_reset(&line_);
  Buf cl = {0}; buf_reset(&cl);
  if (rec_n == 0) buf_puts(&cl, "-");
  for (size_t k = 0; k < rec_n; k++) {
    CallD* c = &rec_calls[k];
    if (k) buf_puts(&cl, ";");
    hex_of((unsigned char*)c->frag, strlen(c->frag), &cl); buf_puts(&cl, ":");
    char t[64];
    switch (c->vk) {
      case 'n': buf_puts(&cl, "n"); break;
      case 's': buf_puts(&cl, "s"); hex_of((unsigned char*)c->s, strlen(c->s), &cl); break;
      case 'i': snprintf(t, sizeof t, "i%" PRId64, c->i); buf_puts(&cl, t); break;
      case 'd': snprintf(t, sizeof t, "d%016" PRIx64, c->bits); buf_puts(&cl, t); break;
      case 'p': buf_puts(&cl, "p"); break;
    }
  }
  char posbuf[32];
  if (exc == NULL) snprintf(posbuf, sizeof posbuf, "%ld", (long)posW - ptr_extra); else strcpy(posbuf, "-");
  Buf hx = {0}; buf_reset(&hx); hex_of(canon.p, canon.n, &hx);
  O("W exc=%s pos=%s calls=%s str=%s", excW, posbuf, (char*)cl.p, (char*)hx.p);

  /* ---- oracle checks on W */
  if (strcmp(excW, exp_exc) != 0) {
    if (rejected) X("sig=%s line=%zu what=libc rejects specification %d (negative result): expected FormatError, got %s", SIG("fmt-reject"), line, stop_seg, excW);
    else if (!strcmp(exp_exc, "FormatError") || !strcmp(excW, "FormatError"))
      X("sig=%s line=%zu what=%d specifications, %d arguments: expected %s, got %s", SIG("fmt-toofew"), line, nsp, op->nargs, exp_exc, excW);
    else X("sig=%s line=%zu what=expected exception %s, got %s", SIG("fmt-exc"), line, exp_exc, excW);
  }
  {
    Buf want = {0}; buf_reset(&want);
    if (stop_seg == 0) buf_put(&want, op->old.p, op->old.n);      /* nothing to write: the String keeps its value */
    else { buf_put(&want, op->old.p, (size_t)op->start); buf_put(&want, exp.p, exp.n); }
    if (want.n != rawW_n || memcmp(want.p, rawW, rawW_n) != 0) {
      Buf a = {0}, b = {0}; buf_reset(&a); buf_reset(&b); hex_of(rawW, rawW_n, &a); hex_of(want.p, want.n, &b);
      X("sig=%s line=%zu what=String sink holds %s, the C printf family writes %s", SIG("fmt-output"), line, (char*)a.p, (char*)b.p);
      buf_free(&a); buf_free(&b);
    }
    if (exc == NULL && (long)posW != (long)op->start + (long)exp.n)
      X("sig=%s line=%zu what=returned %d, start %d + %zu characters written", SIG("fmt-position"), line, posW, op->start, exp.n);
    if (exc == NULL && strcmp(exp_exc, "none") == 0) {
      Buf whole = {0}; buf_reset(&whole);
      if (whole_format(op, segs, ns, &whole)) {
        n_whole++;
        if (whole.n != exp.n || memcmp(whole.p, exp.p, exp.n) != 0 || (stop_seg != 0 && (whole.n + (size_t)op->start != rawW_n || memcmp(whole.p, rawW + op->start, whole.n) != 0)))
          X("sig=%s line=%zu what=one snprintf call with the whole format gives a different text", SIG("fmt-output"), line);
      }
      buf_free(&whole);
    }
    buf_free(&want);
  }
  /* the recorded calls against the reference segments */
  {
    size_t c = 0; int ka = 0; int bad = 0; char why[128] = "";
    for (int s = 0; s < stop_seg && !bad; s++) {
      const SegD* g = &segs[s];
      if (g->kind == 0 || g->kind == 1) {
        if (c >= rec_n || rec_calls[c].vk != 'n' || strlen(rec_calls[c].frag) != g->len || memcmp(rec_calls[c].frag, op->fmt.p + g->off, g->len) != 0) { bad = 1; snprintf(why, sizeof why, "segment %d (literal or %%%%)", s); }
        c++;
      } else {
        ArgD* a = op->args[ka++];
        if (g->conv == '$') {   /* the calls of show: skipped by re-running the reference show to learn their total length */
          Buf t = {0}; buf_reset(&t); ref_show(a, &t); size_t want = t.n, got = 0; buf_free(&t);
          while (c < rec_n && got < want) { got += (size_t)rec_calls[c].ret; c++; }
          if (got != want) { bad = 1; snprintf(why, sizeof why, "segment %d (%%$): show wrote %zu characters, expected %zu", s, got, want); }
        } else {
          CallD* r = c < rec_n ? &rec_calls[c] : NULL;
          if (!r || strlen(r->frag) != g->len || memcmp(r->frag, op->fmt.p + g->off, g->len) != 0) { bad = 1; snprintf(why, sizeof why, "segment %d: fragment", s); }
          else {
            char need = need_of(g->conv);
            if (need == 'i' && !(r->vk == 'i' && r->i == a->i)) bad = 1;
            if (need == 'f' && !(r->vk == 'd' && r->bits == a->bits)) bad = 1;
            if (need == 's' && !(r->vk == 's' && strcmp(r->s, (char*)a->s.p) == 0)) bad = 1;
            if (g->conv == 'p' && r->vk != 'p') bad = 1;
            if (bad) snprintf(why, sizeof why, "segment %d: value of argument %d", s, ka - 1);
          }
          c++;
        }
      }
    }
    if (!bad && rejected) {   /* the rejected specification: called once, with its argument, negative result, nothing after it */
      const SegD* g = &segs[stop_seg]; ArgD* a = op->args[ka]; CallD* r = c < rec_n ? &rec_calls[c] : NULL; char need = need_of(g->conv);
      if (!r || r->ret >= 0 || strlen(r->frag) != g->len || memcmp(r->frag, op->fmt.p + g->off, g->len) != 0 ||
          (need == 'i' && !(r->vk == 'i' && r->i == a->i)) || (need == 'f' && !(r->vk == 'd' && r->bits == a->bits)) ||
          (need == 's' && !(r->vk == 's' && strcmp(r->s, (char*)a->s.p) == 0))) { bad = 1; snprintf(why, sizeof why, "segment %d: the call libc rejects", stop_seg); }
      c++;
    }
    if (!bad && c != rec_n) { bad = 1; snprintf(why, sizeof why, "%zu calls recorded, %zu expected", rec_n, c); }
    if (bad) X("sig=%s line=%zu what=format_to calls differ from the segments of the format: %s", SIG("fmt-segments"), line, why);
  }
  if (claim_unchanged && exc == FormatError) {
    if (strlen(((struct String*)inner)->val) != op->old.n || memcmp(((struct String*)inner)->val, op->old.p, op->old.n) != 0)
      X("sig=fmt-partial-write line=%zu what=FormatError raised after %d characters of the format had been written to the String sink", line, end - op->start);
  }

  /* ---- S: plain String */
  var s2 = new_raw(String, $S((char*)op->old.p)); int posS = -1; var excS;
  V_TRY(excS, posS = print_to_with(s2, op->start, fmt, args));
  {
    const char* valS = ((struct String*)s2)->val; if (valS == NULL) valS = "";
    int same = excS == exc && (excS != NULL || posS == posW) && (((struct String*)s2)->val != NULL || rawW_n == 0) && memcmp(valS, rawW, rawW_n) == 0 && (n_acc > 0 || strlen(valS) == rawW_n);
    long capS = block_size(((struct String*)s2)->val) - ptr_extra; n_cap++;
    /* direct oracle on the block: it holds the text and its terminator (ASan reports a write beyond it; a block that is too large is only a difference from the model) */
    if (((struct String*)s2)->val != NULL && n_acc > 0 && tiled && block_size(((struct String*)s2)->val) < (long)end + 1)
      X("sig=%s line=%zu what=String block has %ld bytes, the text ends at %d and needs its terminator", SIG("fmt-output"), line, block_size(((struct String*)s2)->val), end);
    if (same) O("S exc=%s pos=%s str=%s cap=%ld", v_exc_name(excS), posbuf, (char*)hx.p, capS);
    else {
      Buf a = {0}; buf_reset(&a); size_t l2 = strlen(valS); hex_of((unsigned char*)valS, l2, &a);
      O("S exc=%s pos=%d raw=%s", v_exc_name(excS), posS, (char*)a.p);
      X("sig=%s line=%zu what=plain String sink differs from the recorded run", SIG("fmt-recsink"), line);
      buf_free(&a);
    }
  }
  /* ---- F: File */
  {
    FILE* fp = tmp_fp;
    fflush(fp); if (ftruncate(fileno(fp), 0)) { perror("ftruncate"); exit(2); } rewind(fp);
    if (op->start) fwrite(op->old.p, 1, (size_t)op->start, fp);
    fflush(fp);
    var f = new_raw(File);
    ((struct File*)f)->file = fp;
    int posF = -1; var excF;
    V_TRY(excF, posF = print_to_with(f, op->start, fmt, args));
    fflush(fp);
    long sz = ftell(fp); if (sz < 0) sz = 0;
    unsigned char* fb = malloc((size_t)sz + 1); rewind(fp); size_t got = fread(fb, 1, (size_t)sz, fp); fb[got] = 0;
    size_t outn = (size_t)(end - op->start);   /* the text of the recorded run: raw bytes [start, end) of its String */
    int same = excF == exc && (excF != NULL || posF == posW) && got == (size_t)op->start + outn && memcmp(fb, op->old.p, (size_t)op->start) == 0 &&
               (outn == 0 || memcmp(fb + op->start, rawW + op->start, outn) == 0);
    if (same) O("F exc=%s pos=%s out=%s", v_exc_name(excF), posbuf, (char*)hxF.p);
    else {
      Buf a = {0}; buf_reset(&a); hex_of(fb, got, &a);
      O("F exc=%s pos=%d raw=%s", v_exc_name(excF), posF, (char*)a.p);
      X("sig=%s line=%zu what=File sink received different text or position than the String sink (File pos %d, String pos %d)", SIG("fmt-sinks"), line, posF, posW);
      buf_free(&a);
    }
    free(fb);
    ((struct File*)f)->file = NULL;
    del_raw(f);
  }
  del_raw(s2); del_raw(inner);
  free(rawW); buf_free(&canon); buf_free(&canonF); buf_free(&hxF); buf_free(&cl); buf_free(&hx); buf_free(&line_); buf_free(&exp); buf_free(&spec);
  for (int k = 0; k < op->nargs; k++) unbuild(op->args[k]);
  free(items); free(segs);
#undef SIG
}

static void run_M(OpD* op, size_t line) {
  fflush(stdout);
  pid_t pid = fork();
  if (pid == 0) {
    int dn = open("/dev/null", 1); if (dn >= 0) { dup2(dn, 2); }
    alarm(20);
    for (int k = 0; k < op->nargs; k++) build(op->args[k]);
    var* items = calloc((size_t)op->nargs + 1, sizeof(var));
    for (int k = 0; k < op->nargs; k++) items[k] = op->args[k]->obj;
    items[op->nargs] = Terminal;
    var args = $(Tuple, items);
    var s = new_raw(String, $S((char*)op->old.p)); var exc; int pos = 0;
    V_TRY(exc, pos = print_to_with(s, op->start, (const char*)op->fmt.p, args));
    (void)pos;
    _exit(0);
  }
  int st = 0; waitpid(pid, &st, 0);
  int oob = WIFSIGNALED(st) || (WIFEXITED(st) && WEXITSTATUS(st) != 0);
  O("M oob=%d", oob);
  I("M line=%zu status=%d", line, st);
}

/* op J: run_P with the wide grammar in a forked child.  A tree in which String_Format_To goes on with a negative size (before fix a626877:
   realloc(val, pos + (-1) + 1), then vsprintf writes its terminator outside the block) dies here under ASan; the parent reports it. */
static void run_J(OpD* op, size_t line) {
  fflush(stdout); fflush(tmp_fp);
  pid_t pid = fork();
  if (pid == 0) {
    int dn = open("/dev/null", 1); if (dn >= 0) { dup2(dn, 2); }
    alarm(20);
    run_P(op, line, 0, 1);
    fflush(stdout);
    _exit(0);
  }
  int st = 0; waitpid(pid, &st, 0);
  int died = WIFSIGNALED(st) || (WIFEXITED(st) && WEXITSTATUS(st) != 0);
  I("J line=%zu status=%d", line, st);
  if (died) {
    O("J died");
    X("sig=fmt-reject-crash line=%zu what=print_to_with on a format with a specification libc rejects: the process died (wait status %d) — memory error in String_Format_To / the sink is no longer a C string", line, st);
  }
}

/* op A: a plain String sink that may be its own argument (`Z 0`), in a forked child under ASan */
static void run_A(OpD* op, size_t line) {
  fflush(stdout);
  pid_t pid = fork();
  if (pid == 0) {
    int dn = open("/dev/null", 1); if (dn >= 0) { dup2(dn, 2); }
    alarm(20);
    var s = new_raw(String, $S((char*)op->old.p));
    the_sink = s;
    for (int k = 0; k < op->nargs; k++) build(op->args[k]);
    var* items = calloc((size_t)op->nargs + 1, sizeof(var));
    for (int k = 0; k < op->nargs; k++) items[k] = op->args[k]->obj;
    items[op->nargs] = Terminal;
    var args = $(Tuple, items);
    var exc; int pos = 0;
    V_TRY(exc, pos = print_to_with(s, op->start, (const char*)op->fmt.p, args));
    (void)pos;
    volatile size_t l = ((struct String*)s)->val ? strlen(((struct String*)s)->val) : 0; (void)l;
    O("A oob=0 exc=%s", v_exc_name(exc));
    fflush(stdout);
    _exit(0);
  }
  int st = 0; waitpid(pid, &st, 0);
  int died = WIFSIGNALED(st) || (WIFEXITED(st) && WEXITSTATUS(st) != 0);
  I("A line=%zu status=%d", line, st);
  if (died) {
    O("A oob=1");
    int alias = 0; for (int k = 0; k < op->nargs; k++) if (has_kind(op->args[k], 'Z')) alias = 1;
    X("sig=%s line=%zu what=print_to_with died (wait status %d): %s", alias ? "fmt-alias" : "fmt-crash", line, st,
      alias ? "the String sink is one of its own arguments — String_Format_To / String_Show read the buffer they reallocate" : "no aliasing involved");
  }
}

/* ------------------------------------------------------------------ ops V, B, Q: the witnesses of KF-C14-star-width / -start-beyond-end / -fmtbuf-leak */
size_t __sanitizer_get_current_allocated_bytes(void);

static var op_args_tuple(OpD* op, var** items_out) {
  for (int k = 0; k < op->nargs; k++) build(op->args[k]);
  var* items = calloc((size_t)op->nargs + 1, sizeof(var));
  for (int k = 0; k < op->nargs; k++) items[k] = op->args[k]->obj;
  items[op->nargs] = Terminal;
  *items_out = items;
  return NULL;
}

/* what C printf writes for a format in which `*` takes the width from an argument of its own: literal | %% | % flags* (digits*|*) lenmod? conv with
   conv in d i u o x X (an int, or a long with `l`) or s; every `*` and every conversion consumes the next argument in order.  Returns 0 when the
   format or the arguments do not fit this little grammar. */
static int ref_star(const OpD* op, Buf* out) {
  const unsigned char* f = op->fmt.p; size_t n = op->fmt.n, i = 0; int ka = 0; char spec[64];
  while (i < n) {
    if (f[i] != '%') { buf_put(out, f + i, 1); i++; continue; }
    if (i + 1 < n && f[i+1] == '%') { buf_puts(out, "%"); i += 2; continue; }
    size_t s0 = i; i++;
    while (i < n && strchr("-+ #0", f[i])) i++;
    int star = 0;
    if (i < n && f[i] == '*') { star = 1; i++; } else while (i < n && f[i] >= '0' && f[i] <= '9') i++;
    int lng = 0; if (i < n && f[i] == 'l') { lng = 1; i++; }
    if (i >= n || !strchr("diuoxXs", f[i]) || i - s0 + 2 > sizeof spec) return 0;
    char conv = (char)f[i]; i++;
    memcpy(spec, f + s0, i - s0); spec[i - s0] = 0;
    int w = 0;
    if (star) { if (ka >= op->nargs || op->args[ka]->kind != 'i') return 0; w = (int)op->args[ka++]->i; }
    if (ka >= op->nargs) return 0;
    ArgD* a = op->args[ka++];
    if (conv == 's') { if (a->kind != 's' || lng) return 0; if (star) putf(out, spec, w, (char*)a->s.p); else putf(out, spec, (char*)a->s.p); }
    else {
      if (a->kind != 'i') return 0;
      if (star) { if (lng) putf(out, spec, w, (long)a->i); else putf(out, spec, w, (int)a->i); }
      else { if (lng) putf(out, spec, (long)a->i); else putf(out, spec, (int)a->i); }
    }
  }
  return 1;
}

static void run_V(OpD* op, size_t line) {
  fflush(stdout);
  pid_t pid = fork();
  if (pid == 0) {
    int dn = open("/dev/null", 1); if (dn >= 0) { dup2(dn, 2); }
    alarm(20);
    var* items; op_args_tuple(op, &items);
    var args = $(Tuple, items);
    rec_clear();
    var inner = new_raw(String, $S((char*)op->old.p));
    var rec = $(RecSink, inner);
    var exc; int pos = -1;
    V_TRY(exc, pos = print_to_with(rec, op->start, (const char*)op->fmt.p, args));
    (void)pos;
    Buf cl = {0}; buf_reset(&cl);
    if (rec_n == 0) buf_puts(&cl, "-");
    for (size_t k = 0; k < rec_n; k++) {
      CallD* c = &rec_calls[k]; char t[64];
      if (k) buf_puts(&cl, ";");
      hex_of((unsigned char*)c->frag, strlen(c->frag), &cl); buf_puts(&cl, ":");
      switch (c->vk) {
        case 'n': buf_puts(&cl, "n"); break;
        case 's': buf_puts(&cl, "s"); hex_of((unsigned char*)c->s, strlen(c->s), &cl); break;
        case 'i': snprintf(t, sizeof t, "i%" PRId64, c->i); buf_puts(&cl, t); break;
        case 'd': snprintf(t, sizeof t, "d%016" PRIx64, c->bits); buf_puts(&cl, t); break;
        case 'p': buf_puts(&cl, "p"); break;
      }
    }
    O("V exc=%s calls=%s", v_exc_name(exc), (char*)cl.p);
    Buf want = {0}; buf_reset(&want); buf_put(&want, op->old.p, (size_t)op->start);
    if (ref_star(op, &want)) {
      const char* val = ((struct String*)inner)->val; if (!val) val = "";
      int used = 0; for (size_t k = 0; k < rec_n; k++) if (rec_calls[k].vk != 'n') used++;
      if (exc != NULL || strlen(val) != want.n || memcmp(val, want.p, want.n) != 0) {
        Buf a = {0}, b = {0}; buf_reset(&a); buf_reset(&b); hex_of((unsigned char*)val, strlen(val), &a); hex_of(want.p, want.n, &b);
        X("sig=fmt-star-width line=%zu what=`*` width: C printf writes %s (the `*` consumes an argument of its own), the String sink holds %s after %s — print_to_with passed one vararg per specification (%d of %d arguments fetched)",
          line, (char*)b.p, (char*)a.p, v_exc_name(exc), used, op->nargs);
      }
    } else I("V line=%zu format outside the reference of op V", line);
    fflush(stdout);
    _exit(0);
  }
  int st = 0; waitpid(pid, &st, 0);
  I("V line=%zu status=%d", line, st);
  if (WIFSIGNALED(st) || (WIFEXITED(st) && WEXITSTATUS(st) != 0)) { O("V died"); X("sig=fmt-star-width line=%zu what=print_to_with with a `*` width died (wait status %d)", line, st); }
}

static void run_B(OpD* op, size_t line) {
  fflush(stdout);
  pid_t pid = fork();
  if (pid == 0) {
    int dn = open("/dev/null", 1); if (dn >= 0) { dup2(dn, 2); }
    alarm(20);
    var* items; op_args_tuple(op, &items);
    var args = $(Tuple, items);
    var s = new_raw(String, $S((char*)op->old.p));
    var exc; int pos = -1;
    V_TRY(exc, pos = print_to_with(s, op->start, (const char*)op->fmt.p, args));
    const char* val = ((struct String*)s)->val; if (!val) val = "";
    Buf a = {0}; buf_reset(&a); hex_of((unsigned char*)val, strlen(val), &a);
    if (exc == NULL) O("B exc=none pos=%d cstr=%s", pos, (char*)a.p); else O("B exc=%s pos=- cstr=%s", v_exc_name(exc), (char*)a.p);
    if (exc == NULL && pos > op->start && strlen(val) != (size_t)pos)
      X("sig=fmt-start-beyond-end line=%zu what=print_to_with from start %d (strlen %zu) returned %d = start + %d characters written, but the String's value is %s (length %zu): the text lies behind the old terminator",
        line, op->start, op->old.n, pos, pos - op->start, (char*)a.p, strlen(val));
    fflush(stdout);
    _exit(0);
  }
  int st = 0; waitpid(pid, &st, 0);
  I("B line=%zu status=%d", line, st);
  if (WIFSIGNALED(st) || (WIFEXITED(st) && WEXITSTATUS(st) != 0)) { O("B died"); X("sig=fmt-crash line=%zu what=print_to_with from a start position beyond the end died (wait status %d)", line, st); }
}

static void run_Q(OpD* op, size_t line) {
  fflush(stdout); fflush(tmp_fp);
  pid_t pid = fork();
  if (pid == 0) {
    int dn = open("/dev/null", 1); if (dn >= 0) { dup2(dn, 2); }
    alarm(20);
    var* items; op_args_tuple(op, &items);
    var args = $(Tuple, items);
    var f = new_raw(File);
    ((struct File*)f)->file = tmp_fp;
    var exc = NULL; int pos = -1; size_t before = 0, after = 0;
    for (int round = 0; round < 2; round++) {     /* round 0 warms up stdio, the unwinder, the exception machinery */
      fflush(tmp_fp);
      before = __sanitizer_get_current_allocated_bytes();
      V_TRY(exc, pos = print_to_with(f, op->start, (const char*)op->fmt.p, args));
      fflush(tmp_fp);
      after = __sanitizer_get_current_allocated_bytes();
    }
    (void)pos;
    long leaked = (long)after - (long)before;
    O("Q exc=%s leaked=%ld", v_exc_name(exc), leaked);
    if (leaked != 0)
      X("sig=fmt-buf-leak line=%zu what=%ld heap bytes stay allocated after print_to_with left with %s (strlen(fmt)+1 = %zu: fmt_buf is freed only before `return pos;`)",
        line, leaked, v_exc_name(exc), op->fmt.n + 1);
    fflush(stdout);
    _exit(0);
  }
  int st = 0; waitpid(pid, &st, 0);
  I("Q line=%zu status=%d", line, st);
  if (WIFSIGNALED(st) || (WIFEXITED(st) && WEXITSTATUS(st) != 0)) { O("Q died"); X("sig=fmt-crash line=%zu what=op Q died (wait status %d)", line, st); }
}

int main(int argc, char** argv) {
  v_init();
  if (argc < 2) { fprintf(stderr, "usage: h_fmt <opfile>\n"); return 2; }
  size_t n; char** lines = v_read_lines(argv[1], &n);
  {
    const char* dir = access("/dev/shm", W_OK) == 0 ? "/dev/shm" : ".";
    char tmp_path[256];
    snprintf(tmp_path, sizeof tmp_path, "%s/h_fmt_%d_XXXXXX", dir, (int)getpid());
    int fd = mkstemp(tmp_path); if (fd < 0) { perror("mkstemp"); return 2; }
    tmp_fp = fdopen(fd, "w+"); if (!tmp_fp) { perror("fdopen"); return 2; }
    unlink(tmp_path);
  }
  for (size_t li = 0; li < n; li++) {
    char* l = lines[li];
    if (v_skippable(l)) continue;
    char* copy = strdup(l); char** tok; int ntok = split(copy, &tok);
    OpD op; int k = 0; int ok = 0;
    if (ntok > 0 && (!strcmp(tok[0], "P") || !strcmp(tok[0], "K") || !strcmp(tok[0], "J") || !strcmp(tok[0], "A") || !strcmp(tok[0], "V") || !strcmp(tok[0], "B") || !strcmp(tok[0], "Q"))) {
      allow_beyond = tok[0][0] == 'B';
      ok = parse_op(tok, ntok, &k, &op);
      allow_beyond = 0;
      if (ok && tok[0][0] != 'A') for (int j = 0; j < op.nargs; j++) if (has_kind(op.args[j], 'Z')) ok = 0;     /* the sink as an argument: op A only */
      /* the table: T <n> then 3n tokens — checked for shape only */
      if (ok) {
        int64_t m;
        if (k + 1 < ntok && !strcmp(tok[k], "T") && parse_i64(tok[k+1], &m) && m >= 0 && (int64_t)(ntok - k - 2) == 3 * m) {
          Buf t = {0}; buf_reset(&t);
          for (int j = k + 2; j < ntok && ok; j += 3) {
            if (!unhex(tok[j], &t) || (strcmp(tok[j+2], "!") != 0 && !unhex(tok[j+2], &t))) ok = 0;
            const char* v = tok[j+1]; int64_t iv;
            if (v[0] == 'i') { if (!parse_i64(v + 1, &iv)) ok = 0; }
            else if (v[0] == 'd') { if (strlen(v) < 2 || strlen(v) > 17) ok = 0; for (const char* p = v + 1; *p; p++) if (hexv(*p) < 0) ok = 0; }
            else if (v[0] == 's') { if (!unhex(v + 1, &t)) ok = 0; }
            else ok = 0;
          }
          buf_free(&t);
        } else ok = 0;
      }
      if (!ok) O("bad-op"); else if (tok[0][0] == 'J') run_J(&op, li + 1); else if (tok[0][0] == 'A') run_A(&op, li + 1);
      else if (tok[0][0] == 'V') run_V(&op, li + 1);
      else if (tok[0][0] == 'B' || tok[0][0] == 'Q') {
        SegD* sg = NULL; int ns = parse_fmt(op.fmt.p, op.fmt.n, &sg, 0);
        if (ns < 0) O("bad-op"); else { free(sg); if (tok[0][0] == 'B') run_B(&op, li + 1); else run_Q(&op, li + 1); }
      }
      else run_P(&op, li + 1, tok[0][0] == 'K', 0);
      op_free(&op);
    } else if (ntok > 0 && !strcmp(tok[0], "M")) {
      ok = parse_op(tok, ntok, &k, &op) && k == ntok;
      if (!ok) O("bad-op"); else run_M(&op, li + 1);
      op_free(&op);
    } else O("bad-op");
    free(tok); free(copy);
  }
  I("ops=%zu specs=%zu toofew=%zu show=%zu whole=%zu rejected=%zu typeshow=%zu grow=%zu shrink=%zu keep=%zu emptypiece=%zu capchecked=%zu", n_ops, n_spec, n_toofew, n_show, n_whole, n_rej, n_typeshow, n_grow, n_shrink, n_keep, n_empty, n_cap);
  I("maxpiece=%ld", max_piece);
  return 0;
}
