/* harness/h_reg.c — engine `reg` (C17): the collector's registry, white-box.
 *
 * Objects are instances of a probe type whose own Alloc instance serves addresses chosen by the op file inside an arena
 * at a fixed virtual address (pages mapped on demand), so GC_Hash(ptr) % nslots is the same here and in the Lean model:
 *     address(u) = ARENA_BASE + 32 + 8*u
 * ops (ids are small integers; an id is bound to one `u` for the whole file, so re-allocating an id re-uses its address):
 *   new <id> <u> | newroot <id> <u> | newraw <id> <u>     alloc / alloc_root / alloc_raw of a Probe at address(u)
 *   tnew <id> <u>            first, in a forked child, the same allocation with the collection threshold reached (real
 *                            GC_Mark incl. stack scan + GC_Sweep; checked by the oracle only: superset), then `new`
 *   del <id> | delroot <id> | delraw <id>                   del / del_root / del_raw
 *   mem <id>                 mem(current(GC), address)
 *   sweep <ids…>             GC_Mark_Item on each listed object, then GC_Sweep
 *   sweepmod <m> <r>         the same with every managed id such that id % m != r marked
 *   collect <ids…>           the real GC_Mark with the listed objects referenced from this frame; every root and every
 *                            listed object must come out marked (oracle); marks are then reduced to exactly those and
 *                            GC_Sweep runs
 *   tnewx <id> <u> <ids…>    exact threshold path, in process: gc->mitems = gc->nitems, then the real alloc -> GC_Set ->
 *                            GC_Mark (stack scan) -> GC_Sweep; between GC_Mark and GC_Sweep (hook: the `realloc` of the pending
 *                            list at the head of GC_Sweep, interposed by a macro in this file) the marks are reduced to the
 *                            roots, the listed objects and the new one — each of which the real GC_Mark must have marked
 *                            (oracle) —, so the outcome is deterministic and compared state for state with the model
 *   kill <a> <b> | unkill <a>   the destructor of <a> calls del(<b>) (removals while a sweep / a removal is in progress)
 *   delnull                  del(NULL) at top level
 *   killnull <a>             the destructor of <a> also calls del(NULL), after its kills: a no-op under del / del_raw and during
 *                            GC_Sweep's finalisation (GC_Rem_Ptr returns at once for NULL since fix d3e4e44).  The behaviour before
 *                            the fix — GC_Rem_Ptr(NULL) matches a struck-off slot of the pending list and runs
 *                            dealloc(destruct(NULL)) — is an ordinary violation: X sig=reg-exception, `O <op> abort`, and the run
 *                            of the op file ends there (the collector is left mid-sweep)
 *   killraise <a>            the destructor of <a> leaves by an exception (IOError) after its kills — what File_Del does when fclose
 *                            fails.  Under an explicit del / del_root / del_raw outside a collection the exception unwinds through
 *                            GC_Rem_Ptr / GC_Rem (the object is unregistered, not deallocated; GC_Resize_Less and the threshold update
 *                            are skipped; an enclosing destructor stops, its object is not deallocated either): `O <op> raised …`,
 *                            the registry stays exact (theorem C17_rem_raising) — generated.  Inside the release loop of GC_Sweep
 *                            (sweep / collect / tnewx) the loop is left and the pending list is neither freed nor reset: known
 *                            finding KF-C17-dtor-raise (X sig=reg-dtor-raise; the O line then carries pend=<slots>) — witness only
 *   stalemark <ids…>         a mark phase that an exception left: GC_Mark_Item on each listed object and no sweep — the mark bits
 *                            stay.  sweep / sweepmod (GC_Sweep on the bits as they are) keep such an object; collect / tnewx
 *                            (the real GC_Mark) must start from clear bits (GC_Unmark, fix d8f0c4f): checked from inside GC_Mark
 *                            by the Mark instance of the probe type when the root loop reaches a registered root (a point at
 *                            which nothing but thread-local storage and earlier roots has been marked, so the test does not
 *                            depend on what the stack scan finds): a stale bit still set there is X sig=reg-stale-mark, and
 *                            the object is then kept marked, as the code keeps it (ledger: released).  A rehash drops the bits.
 *   dealloc <id>             dealloc / dealloc_root (src/Alloc.c) of the object: the collector is not told.  For a registered
 *                            object (also: `delrawm <id>`, del_raw of a registered object — del_raw is dealloc(destruct(self)) without
 *                            GC_Rem; plain `delraw` of a registered object stays a bad op)
 *                            this is known finding KF-C17-dealloc-stale (X sig=reg-dealloc-stale for every consequence
 *                            the oracle sees: stale member, count, root flag after the address is allocated again)
 *   strict                   from here on the oracle's ledger is the one of the property text: a managed allocation while the
 *                            collector is stopped counts as managed, a del while it is stopped as deleted (F23; what the
 *                            registry then gets wrong is reported as X sig=reg-stopped, known finding KF-C17-stopped).
 *                            Without `strict` the ledger follows the code in the stopped window (theorem C17_registry_exact).
 *   stop | start             stop / start the collector
 * `dealloc` / `delrawm` (of a registered object), `strict`, and a `killraise` destructor left armed for a collection are never
 * generated: witnesses only (corpus/kf_c17_*).
 *   dumpevery <k>            print the slot array (and run the oracle) after every k-th op only
 *   ideal <lo> <hi>          GC_Ideal_Size(n) for lo <= n < hi as change points
 * After every op:  O <op> <result> fin=<ids deallocated, in order> | n= ni= mi= lo= hi= run= e=<idx:home:id:root:marked,…>
 * (lists longer than 40 items are replaced by #<count>:<fnv1a64 of the text>).
 *
 * Direct oracle (independent of the Lean model): a ledger of every id ever seen — managed / unmanaged / dead, root flag,
 * expected number of deallocations — against mem() for every id, the entry array (stored home, duplicates, root flag,
 * local probe-distance invariant, bounds, marks clear), nitems == occupied == managed ids, an empty slot exists. */
#include <stdlib.h>
/* hook between GC_Mark and GC_Sweep inside GC_Set: GC_Sweep starts with `gc->freelist = realloc(gc->freelist, …)`; every
   realloc of the library goes through v_realloc, which calls back when armed (no change to /repo) */
static void (*v_realloc_hook)(void* p, size_t n) = NULL;
static void* v_realloc(void* p, size_t n) { if (v_realloc_hook) v_realloc_hook(p, n); return (realloc)(p, n); }
#define realloc(p, n) v_realloc((p), (n))
/* the default allocator path of alloc_by (`calloc(1, sizeof(struct Header) + size(type))`) and `free` in dealloc are routed the
   same way: while armed, the block of a Plain object (a type WITHOUT an Alloc instance) is served from the arena at the address
   the op file names; `free` of an arena block is recorded as the deallocation of that object; everything else goes to libc.
   v_free_hook: called on every other free of the library (op `teardown`: GC_Del's `free(gc->entries)` right after GC_Sweep) */
static void* v_calloc(size_t n, size_t s);
static void v_free(void* p);
static void (*v_free_hook)(void* p) = NULL;
#define calloc(n, s) v_calloc((n), (s))
#define free(p) v_free((p))
#include "common.h"
#include <sys/mman.h>
#include <errno.h>

#define ARENA_BASE 0x200000000000ULL
#define ADDR0 (ARENA_BASE + 32)
#define MAXID 200000
#define LISTMAX 40

struct Probe { int64_t id; };
static var Probe_Alloc(void); static void Probe_Dealloc(var self); static void Probe_Destruct(var self);
static void Probe_Mark(var self, var gc, void(*f)(var,void*));
var Probe = Cello(Probe, Instance(Alloc, Probe_Alloc, Probe_Dealloc), Instance(New, NULL, Probe_Destruct), Instance(Mark, Probe_Mark));

/* a type without an Alloc instance: alloc_by takes the calloc path, dealloc the free path (same layout and destructor as Probe) */
struct Plain { int64_t id; };
var Plain = Cello(Plain, Instance(New, NULL, Probe_Destruct));
static char is_plain[MAXID];          /* the id was last allocated as a Plain */
static int want_plain = -1;           /* armed: the next calloc of a Plain block is served from the arena for this id */
static size_t n_route[2][3], n_delroute[2][3], n_arena_calloc = 0, n_arena_free = 0, n_show = 0, n_show_rows = 0, n_teardown = 0;

enum { NEVER = 0, MANAGED = 1, UNMANAGED = 2, DEAD = 3 };
static int64_t id_u[MAXID]; static char id_known[MAXID]; static char state[MAXID]; static char rootflag[MAXID];
static int ndealloc[MAXID], expdealloc[MAXID];
static int* kills[MAXID]; static int nkills[MAXID];
static char killnull[MAXID];          /* destructor also calls del(NULL) */
static char raises[MAXID];            /* destructor leaves by an exception, after its kills */
static char raise_touched[MAXID];     /* what the ledger and the collector disagreed on right after a release loop was left by an exception */
static size_t n_thrown = 0, n_thrown_in_sweep = 0; static int raise_taint = 0, op_raised = 0;
static char stale[MAXID];             /* dealloc'ed while registered (KF-C17-dealloc-stale) */
static char stopped_touched[MAXID];   /* allocated / deleted while stopped under `strict` (KF-C17-stopped) */
static char stalemarked[MAXID];       /* `stalemark` set the mark bit of this (managed) object and nothing has cleared it since */
static int stale_pending = 0;         /* some stalemarked[] may be set */
static size_t stale_nslots = 0;       /* table size when the bits were set: a rehash drops them */
static int probe_armed = 0, probe_result = 0;   /* inside GC_Mark: 0 no root reached, 1 stale bits were clear, 2 a stale bit was still set */
static struct GC* probe_gc;
static struct GC* the_gc;
static size_t n_null_in_sweep = 0, n_probe_clear = 0, n_probe_set = 0;   /* statistics */
static int dealloc_taint = 0, strict = 0, strict_taint = 0;
static int maxid = -1;
static int want_id = -1;
static int* trace; static size_t ntrace, captrace;
static int kills_enabled = 1;

static var addr_of_u(int64_t u) { return (var)(uintptr_t)(ADDR0 + 8 * (uint64_t)u); }
static var addr_of(int id) { return addr_of_u(id_u[id]); }

static void map_pages(uintptr_t lo, uintptr_t hi) {
  for (uintptr_t p = lo & ~4095ULL; p < hi; p += 4096) {
    void* r = mmap((void*)p, 4096, PROT_READ | PROT_WRITE, MAP_PRIVATE | MAP_ANONYMOUS | MAP_FIXED_NOREPLACE, -1, 0);
    if (r == MAP_FAILED && errno != EEXIST) { perror("mmap arena page"); exit(2); }
    if (r != MAP_FAILED && r != (void*)p) { fprintf(stderr, "arena page placed elsewhere\n"); exit(2); }
  }
}

static var Probe_Alloc(void) {
  char* self = addr_of(want_id);
  char* head = self - sizeof(struct Header);
  map_pages((uintptr_t)head, (uintptr_t)self + sizeof(struct Probe));
  memset(head, 0, sizeof(struct Header) + sizeof(struct Probe));
  var obj = header_init(head, Probe, AllocHeap);
  ((struct Probe*)obj)->id = want_id;
  return obj;
}

static void note_dealloc(int id) {
  ndealloc[id]++;
  if (ntrace == captrace) { captrace = captrace ? captrace * 2 : 1024; trace = realloc(trace, captrace * sizeof(int)); }
  trace[ntrace++] = id;
}
static void Probe_Dealloc(var self) { note_dealloc((int)((struct Probe*)self)->id); }

static int id_of_u(int64_t u);
static void* v_calloc(size_t n, size_t s) {
  if (want_plain >= 0 && n == 1 && s == sizeof(struct Header) + sizeof(struct Plain)) {
    int id = want_plain; want_plain = -1;
    char* self = addr_of(id);
    char* head = self - sizeof(struct Header);
    map_pages((uintptr_t)head, (uintptr_t)self + sizeof(struct Plain));
    memset(head, 0, s);
    n_arena_calloc++;
    return head;
  }
  return (calloc)(n, s);
}
static void v_free(void* p) {
  uintptr_t a = (uintptr_t)p;
  if (a >= ARENA_BASE && a < ARENA_BASE + (1ULL << 46) + 4096) {
    /* dealloc() of a Plain object: `free(((char*)self) - sizeof(struct Header))` (the block has been overwritten already) */
    uintptr_t self = a + sizeof(struct Header);
    int id = (self >= ADDR0 && (self - ADDR0) % 8 == 0) ? id_of_u((int64_t)((self - ADDR0) / 8)) : -1;
    if (id >= 0) { n_arena_free++; note_dealloc(id); return; }
  }
  if (v_free_hook) v_free_hook(p);
  (free)(p);
}

static void Probe_Destruct(var self) {
  int id = (int)((struct Probe*)self)->id;
  if (!kills_enabled) return;
  for (int k = 0; k < nkills[id]; k++) del(addr_of(kills[id][k]));
  if (killnull[id]) { if (the_gc && the_gc->freenum) n_null_in_sweep++; del(NULL); }
  if (raises[id]) {
    n_thrown++;
    if (the_gc && the_gc->freenum) { n_thrown_in_sweep++; raise_taint = 1; }   /* the release loop of GC_Sweep is running (or its list was left behind) */
    throw(IOError, "probe %i: destructor raises", $I(id));
  }
}

/* Mark instance of the probe type: called by GC_Recurse.  While armed (the real GC_Mark of `collect` / `tnewx` with stale
   mark bits pending), on the first registered *root* it is called for — that is the root loop of GC_Mark, before the stack
   scan — it looks at the entries `stalemark` marked: GC_Mark must have cleared them (GC_Unmark) */
static void Probe_Mark(var self, var gc_, void(*f)(var,void*)) {
  (void)gc_; (void)f;
  if (!probe_armed || probe_result) return;
  struct GC* gc = probe_gc;
  int isroot = 0;
  for (size_t i = 0; i < gc->nslots; i++) if (gc->entries[i].hash && gc->entries[i].ptr == self) { isroot = gc->entries[i].root; break; }
  if (!isroot) return;
  probe_result = 1; n_probe_clear++;
  for (size_t i = 0; i < gc->nslots; i++) {
    struct GCEntry* e = &gc->entries[i];
    if (e->hash == 0 || e->root) continue;
    uintptr_t p = (uintptr_t)e->ptr;
    if (p < ADDR0 || (p - ADDR0) % 8) continue;
    int id = (int)((struct Probe*)e->ptr)->id;
    if (id >= 0 && id <= maxid && stalemarked[id] && e->marked) { probe_result = 2; n_probe_clear--; n_probe_set++; return; }
  }
}
static void stale_clear(void) { if (stale_pending) { memset(stalemarked, 0, (size_t)maxid + 1); stale_pending = 0; } }

/* ---- printing ---- */
static uint64_t fnv(const char* s, size_t n) { uint64_t h = 14695981039346656037ULL; for (size_t i = 0; i < n; i++) { h ^= (unsigned char)s[i]; h *= 1099511628211ULL; } return h; }
static char* sbuf; static size_t slen, scap;
static void sb_reset(void) { slen = 0; if (!sbuf) { scap = 1 << 16; sbuf = malloc(scap); } sbuf[0] = 0; }
static void sb_add(const char* fmt, ...) {
  va_list va;
  for (;;) {
    va_start(va, fmt); int k = vsnprintf(sbuf + slen, scap - slen, fmt, va); va_end(va);
    if ((size_t)k < scap - slen) { slen += k; return; }
    scap *= 2; sbuf = realloc(sbuf, scap);
  }
}
/* sbuf holds `count` comma-separated items; returns the text to print */
static const char* list_or_digest(size_t count) {
  static char dg[64];
  if (count > LISTMAX) { snprintf(dg, sizeof dg, "#%zu:%llu", count, (unsigned long long)fnv(sbuf, slen)); return dg; }
  return sbuf;
}
static const char* addr_str(uintptr_t p, char* b, size_t nb) {
  if (p == UINTPTR_MAX) snprintf(b, nb, "max");
  else if (p == 0) snprintf(b, nb, "0");
  else if (p >= ADDR0 && (p - ADDR0) % 8 == 0) snprintf(b, nb, "u%llu", (unsigned long long)((p - ADDR0) / 8));
  else snprintf(b, nb, "?%llu", (unsigned long long)p);
  return b;
}

static size_t every = 1, since = 0;
static size_t n_ops = 0, n_dumps = 0, n_x = 0, max_slots = 0, max_dist = 0, n_wrapped = 0;

/* ---- the direct oracle ---- */
static void oracle(struct GC* gc, size_t line, const char* op) {
  static int* stamp = NULL; static int stampgen = 0;
  if (!stamp) stamp = calloc(MAXID, sizeof(int));
  stampgen++;
  size_t occ = 0, managed = 0, empty = 0;
  for (size_t i = 0; i < gc->nslots; i++) {
    struct GCEntry* e = &gc->entries[i];
    if (e->hash == 0) { empty++; continue; }
    occ++;
    uintptr_t p = (uintptr_t)e->ptr;
    size_t home = GC_Hash(e->ptr) % gc->nslots;
    if (e->hash != home + 1) { X("sig=reg-inv line=%zu what=after %s slot %zu stores home %llu, hash gives %zu", line, op, i, (unsigned long long)e->hash - 1, home); n_x++; }
    int stale_ok = 0;
    if (e->marked && stale_pending && p >= ADDR0 && (p - ADDR0) % 8 == 0) { int sid = (int)((struct Probe*)e->ptr)->id; stale_ok = sid >= 0 && sid <= maxid && stalemarked[sid]; }
    if (e->marked && !stale_ok) { X("sig=reg-mark line=%zu what=after %s slot %zu still marked", line, op, i); n_x++; }
    size_t d = (i + gc->nslots - home) % gc->nslots;
    if (d > max_dist) max_dist = d;
    if (i < home) n_wrapped++;
    if (d > 0) {
      size_t pi = (i + gc->nslots - 1) % gc->nslots; struct GCEntry* pe = &gc->entries[pi];
      size_t pd = pe->hash ? (pi + gc->nslots - (pe->hash - 1)) % gc->nslots : 0;
      if (pe->hash == 0 || pd + 1 < d) { X("sig=reg-inv line=%zu what=after %s slot %zu at distance %zu is not supported by its predecessor", line, op, i, d); n_x++; }
    }
    if (p < gc->minptr || p > gc->maxptr) { X("sig=reg-bounds line=%zu what=after %s entry outside [minptr,maxptr]", line, op); n_x++; }
    if (p < ADDR0 || (p - ADDR0) % 8) { X("sig=reg-inv line=%zu what=after %s foreign pointer in the registry", line, op); n_x++; continue; }
    int id = (int)((struct Probe*)e->ptr)->id;
    if (id < 0 || id > maxid || !id_known[id] || addr_of(id) != e->ptr) { X("sig=reg-inv line=%zu what=after %s entry %zu is not a known object", line, op, i); n_x++; continue; }
    const char* ksig = stale[id] ? "reg-dealloc-stale" : stopped_touched[id] ? "reg-stopped" : raise_touched[id] ? "reg-dtor-raise" : NULL;
    if (stamp[id] == stampgen) { X("sig=%s line=%zu what=after %s object %d is recorded twice", ksig ? ksig : "reg-dup", line, op, id); n_x++; }
    stamp[id] = stampgen;
    if (state[id] != MANAGED) { X("sig=%s line=%zu what=after %s object %d (ledger state %d) is in the registry", ksig ? ksig : "reg-mem", line, op, id, state[id]); n_x++; }
    if ((e->root != 0) != (rootflag[id] != 0)) { X("sig=%s line=%zu what=after %s object %d recorded with root=%d, allocated with root=%d", ksig ? ksig : "reg-root", line, op, id, e->root, rootflag[id]); n_x++; }
  }
  for (int id = 0; id <= maxid; id++) {
    if (!id_known[id]) continue;
    if (state[id] == MANAGED) managed++;
    int m = mem(current(GC), addr_of(id)) ? 1 : 0;
    if (m != (state[id] == MANAGED)) { X("sig=%s line=%zu what=after %s mem(object %d) = %d, ledger state %d", stale[id] ? "reg-dealloc-stale" : stopped_touched[id] ? "reg-stopped" : raise_touched[id] ? "reg-dtor-raise" : "reg-mem", line, op, id, m, state[id]); n_x++; }
    if (ndealloc[id] != expdealloc[id]) { X("sig=%s line=%zu what=after %s object %d deallocated %d times, expected %d", stale[id] ? "reg-dealloc-stale" : stopped_touched[id] ? "reg-stopped" : raise_touched[id] ? "reg-dtor-raise" : "reg-final", line, op, id, ndealloc[id], expdealloc[id]); n_x++; expdealloc[id] = ndealloc[id]; }
  }
  if (occ != gc->nitems || managed != gc->nitems) { X("sig=%s line=%zu what=after %s nitems=%zu occupied=%zu managed=%zu", dealloc_taint ? "reg-dealloc-stale" : strict_taint ? "reg-stopped" : raise_taint ? "reg-dtor-raise" : "reg-count", line, op, gc->nitems, occ, managed); n_x++; }
  if (gc->nslots > 0 && empty == 0) { X("sig=reg-full line=%zu what=after %s no empty slot (nslots=%zu)", line, op, gc->nslots); n_x++; }
  if (gc->freenum != 0 || gc->freelist != NULL) {
    size_t waiting = 0; for (size_t i = 0; i < gc->freenum; i++) if (gc->freelist[i]) waiting++;
    X("sig=%s line=%zu what=after %s pending list not released outside a collection: freenum=%zu, %zu objects still listed (not registered, not finalised)", raise_taint ? "reg-dtor-raise" : "reg-pending", line, op, (size_t)gc->freenum, waiting); n_x++;
  }
}

/* ledger: `start` ids are being finalised now; their destructors delete managed objects (when running), transitively */
static int* work; static size_t nwork;
static void ledger_finalise_closure(int running) {
  for (size_t w = 0; w < nwork; w++) {
    int p = work[w];
    for (int k = 0; k < nkills[p]; k++) {
      int y = kills[p][k];
      if (running && state[y] == MANAGED) { state[y] = DEAD; expdealloc[y]++; work[nwork++] = y; }
    }
  }
}

/* ledger of an explicit deletion: the destructor of p runs its deletions in order (depth first), then the object is deallocated;
   a destructor that raises ends everything that is running — nothing on the way up is deallocated.  Returns 1 when an exception
   propagates. */
static int ledger_fin_dfs(int p, int running) {
  for (int k = 0; k < nkills[p]; k++) {
    int y = kills[p][k];
    if (running && state[y] == MANAGED) { state[y] = DEAD; if (ledger_fin_dfs(y, running)) return 1; }
  }
  if (raises[p]) return 1;
  expdealloc[p]++;
  return 0;
}

/* after an op whose release loop was left by an exception: what the ledger and the collector disagree on now is the finding's */
static void raise_attribute(void) {
  for (int id = 0; id <= maxid; id++) {
    if (!id_known[id]) continue;
    int m = mem(current(GC), addr_of(id)) ? 1 : 0;
    if (m != (state[id] == MANAGED) || ndealloc[id] != expdealloc[id]) raise_touched[id] = 1;
  }
}

static void emit(struct GC* gc, size_t line, const char* op, const char* res) {
  static char* pendbuf = NULL; static size_t pendcap = 0;
  if (op_raised && raise_taint) raise_attribute();
  if (op_raised) res = "raised";
  op_raised = 0;
  if (gc->freenum) {       /* only after a release loop was left by an exception */
    sb_reset();
    for (size_t i = 0; i < gc->freenum; i++) {
      uintptr_t p = (uintptr_t)gc->freelist[i];
      if (!p) sb_add(i ? ",-" : "-");
      else if (p >= ADDR0 && (p - ADDR0) % 8 == 0) sb_add(i ? ",%lld" : "%lld", (long long)((struct Probe*)p)->id);
      else sb_add(i ? ",?%llu" : "?%llu", (unsigned long long)p);
    }
    const char* pl = list_or_digest(gc->freenum); size_t n = strlen(pl);
    if (n + 8 > pendcap) { pendcap = n + 1024; pendbuf = realloc(pendbuf, pendcap); }
    snprintf(pendbuf, pendcap, " pend=%s", pl);
  } else { if (!pendbuf) { pendcap = 1024; pendbuf = malloc(pendcap); } pendbuf[0] = 0; }
  /* ledger follows the facts only through the oracle; the trace is printed for the model */
  sb_reset();
  for (size_t i = 0; i < ntrace; i++) sb_add(i ? ",%d" : "%d", trace[i]);
  char fin[64 + 1]; const char* f = list_or_digest(ntrace);
  static char* finbuf = NULL; static size_t fincap = 0;
  size_t fl = strlen(f); if (fl + 1 > fincap) { fincap = fl + 1024; finbuf = realloc(finbuf, fincap); } memcpy(finbuf, f, fl + 1); (void)fin;
  int due = since + 1 >= every;
  since = due ? 0 : since + 1;
  char lo[40], hi[40];
  if (gc->nslots > max_slots) max_slots = gc->nslots;
  if (stale_pending && gc->nslots != stale_nslots) stale_clear();     /* GC_Rehash re-inserts every entry unmarked */
  if (due) {
    n_dumps++;
    sb_reset(); size_t cnt = 0;
    for (size_t i = 0; i < gc->nslots; i++) {
      struct GCEntry* e = &gc->entries[i];
      if (e->hash == 0) continue;
      uintptr_t p = (uintptr_t)e->ptr; char idb[40];
      if (p >= ADDR0 && (p - ADDR0) % 8 == 0) snprintf(idb, sizeof idb, "%lld", (long long)((struct Probe*)e->ptr)->id); else snprintf(idb, sizeof idb, "?%llu", (unsigned long long)p);
      sb_add(cnt ? ",%zu:%llu:%s:%d:%d" : "%zu:%llu:%s:%d:%d", i, (unsigned long long)(e->hash - 1), idb, e->root ? 1 : 0, e->marked ? 1 : 0);
      cnt++;
    }
    O("%s %s fin=%s | n=%zu ni=%zu mi=%zu lo=%s hi=%s run=%d e=%s%s", op, res, finbuf, gc->nslots, gc->nitems, gc->mitems,
      addr_str(gc->minptr, lo, sizeof lo), addr_str(gc->maxptr, hi, sizeof hi), gc->running ? 1 : 0, list_or_digest(cnt), pendbuf);
    oracle(gc, line, op);
  } else {
    O("%s %s fin=%s | n=%zu ni=%zu mi=%zu lo=%s hi=%s run=%d e=-%s", op, res, finbuf, gc->nslots, gc->nitems, gc->mitems,
      addr_str(gc->minptr, lo, sizeof lo), addr_str(gc->maxptr, hi, sizeof hi), gc->running ? 1 : 0, pendbuf);
  }
  ntrace = 0;
}

/* objects occupy 32 bytes = 4 address units: at most one object per bucket u/4; neighbours are checked for overlap */
#define BUCKETS (1u << 19)
static int64_t bucket_u[BUCKETS]; static char bucket_used[BUCKETS]; static int bucket_idv[BUCKETS];
static int64_t* bucket_find(int64_t b) {
  uint64_t h = ((uint64_t)b * 0x9E3779B97F4A7C15ULL) >> 45;
  for (;;) { if (!bucket_used[h]) return NULL; if (bucket_u[h] / 4 == b) return &bucket_u[h]; h = (h + 1) & (BUCKETS - 1); }
}
static void bucket_add(int64_t u, int id) {
  uint64_t h = ((uint64_t)(u / 4) * 0x9E3779B97F4A7C15ULL) >> 45;
  while (bucket_used[h]) h = (h + 1) & (BUCKETS - 1);
  bucket_used[h] = 1; bucket_u[h] = u; bucket_idv[h] = id;
}
static int id_of_u(int64_t u) {
  int64_t* o = bucket_find(u / 4);
  return (o && *o == u) ? bucket_idv[o - bucket_u] : -1;
}
static int register_id(int id, int64_t u) {
  if (id < 0 || id >= MAXID || u < 0 || (uint64_t)u > (1ULL << 43)) return 0;
  if (id_known[id]) return id_u[id] == u;
  for (int64_t b = u / 4 - 1; b <= u / 4 + 1; b++) {
    int64_t* o = b >= 0 ? bucket_find(b) : NULL;
    if (o) { int64_t d = *o - u; if (d < 0) d = -d; if (d < 4) return 0; }
  }
  bucket_add(u, id);
  id_known[id] = 1; id_u[id] = u; if (id > maxid) maxid = id;
  return 1;
}

/* the child of `tnew`: real threshold path; oracle only (what survives is a superset of what must) */
static void tnew_child(struct GC* gc, int id, size_t line) {
  kills_enabled = 0;
  static int before[MAXID];
  for (int k = 0; k <= maxid; k++) before[k] = ndealloc[k];
  gc->mitems = gc->nitems;                 /* nitems+1 > mitems: GC_Set runs GC_Mark and GC_Sweep */
  want_id = id;
  var p = alloc(Probe);
  if (p != addr_of(id)) X("sig=reg-tnew line=%zu what=allocation did not use the probe allocator", line);
  state[id] = MANAGED; rootflag[id] = 0;
  size_t memcount = 0;
  for (int k = 0; k <= maxid; k++) {
    if (!id_known[k]) continue;
    int m = mem(current(GC), addr_of(k)) ? 1 : 0; memcount += m;
    int freed = ndealloc[k] - before[k];
    if (state[k] != MANAGED) { if (m || freed) X("sig=reg-tnew line=%zu what=unmanaged object %d: mem=%d deallocated=%d in a collection", line, k, m, freed); continue; }
    if ((rootflag[k] || k == id) && (!m || freed)) X("sig=reg-tnew line=%zu what=%s object %d did not survive the collection triggered by its allocation (mem=%d deallocated=%d)", line, k == id ? "new" : "root", k, m, freed);
    if (m && freed) X("sig=reg-tnew line=%zu what=object %d deallocated but still registered", line, k);
    if (!m && freed != 1) X("sig=reg-tnew line=%zu what=object %d left the registry and was deallocated %d times", line, k, freed);
    if (!m) { state[k] = DEAD; expdealloc[k]++; }
  }
  if (memcount != gc->nitems) X("sig=reg-tnew line=%zu what=nitems=%zu but %zu known objects are members", line, gc->nitems, memcount);
  if (gc->mitems != gc->nitems + gc->nitems / 2 + 1) I("tnew: mitems=%zu nitems=%zu", gc->mitems, gc->nitems);
  oracle(gc, line, "tnew-child");
  fflush(stdout);
  _exit(0);
}

/* an exception left the collector (the way known before fix d3e4e44: dealloc(destruct(NULL)) from GC_Rem_Ptr during a sweep):
   an ordinary violation; print the observation the model's `none` corresponds to, and stop — the collector is left in the
   middle of GC_Sweep */
static void aborted(struct GC* gc, size_t line, const char* op, var exc) {
  int anynull = 0;
  for (int k = 0; k <= maxid; k++) if (killnull[k]) anynull = 1;
  if (exc == ValueError && anynull && gc->freenum > 0)
    X("sig=reg-exception line=%zu what=%s raised ValueError inside the collector: a destructor called del(NULL) while GC_Sweep was finalising (%zu objects on the pending list) and GC_Rem_Ptr matched a struck-off slot and ran dealloc(destruct(NULL))", line, op, (size_t)gc->freenum);
  else
    X("sig=reg-exception line=%zu what=%s raised %s inside the collector", line, op, v_exc_name(exc));
  O("%s abort", op);
  I("ops=%zu dumps=%zu oracle_failures=%zu halted=1", n_ops, n_dumps, n_x + 1);
  fflush(stdout);
  _exit(0);
}
/* an IOError thrown by a probe destructor armed with `killraise` is an observation (`O <op> raised …`), anything else aborts */
#define GUARD(gc, line, op, stmt) do { var exc_; size_t th_ = n_thrown; op_raised = 0; V_TRY(exc_, stmt); \
    if (exc_) { if (exc_ == IOError && n_thrown > th_) op_raised = 1; else aborted(gc, line, op, exc_); } } while (0)

/* tnewx: called from every realloc of the library while armed; fires on the first statement of GC_Sweep */
static struct GC* hook_gc; static char* hook_listed; static int hook_new_id; static size_t hook_line; static int hook_fired;
static void tnewx_hook(void* p, size_t n) {
  struct GC* gc = hook_gc;
  if (p != (void*)gc->freelist || n != sizeof(var) * gc->nitems) return;
  v_realloc_hook = NULL; hook_fired++;
  for (size_t i = 0; i < gc->nslots; i++) {
    struct GCEntry* e = &gc->entries[i];
    if (e->hash == 0) continue;
    int id = (int)((struct Probe*)e->ptr)->id;
    int must = e->root || hook_listed[id] || id == hook_new_id;
    if (must && !e->marked) { X("sig=reg-markreal line=%zu what=GC_Mark (threshold path) left %s object %d unmarked", hook_line, e->root ? "root" : id == hook_new_id ? "new" : "stack-referenced", id); n_x++; }
    if (probe_result == 2 && stalemarked[id] && e->marked) must = 1;     /* GC_Mark did not clear it: the code keeps the object */
    e->marked = must;            /* drop marks that come from stale words on the C stack */
  }
}

/* teardown: fires at GC_Del's `free(gc->entries)` (GC_Rehash frees the OLD array after it has replaced gc->entries, so this
   pointer is only ever passed to free by GC_Del) */
static struct GC* td_gc; static size_t td_line; static int td_fired;
static void teardown_hook(void* p) {
  if (td_fired || p != (void*)td_gc->entries) return;
  td_fired = 1;
  emit(td_gc, td_line, "teardown", "ok");
}

int main(int argc, char** argv) {
  v_init();
  if (argc < 2) { fprintf(stderr, "usage: h_reg <opfile>\n"); return 2; }
  size_t nl; char** lines = v_read_lines(argv[1], &nl);
  /* a registry without an empty slot makes GC_Set_Ptr / GC_Mem_Ptr spin for ever: turn that into a quick failure */
  alarm(120 + (unsigned)(nl / 200));
  struct GC* gc = current(GC); the_gc = gc;
  volatile var held[LISTMAX + 1];
  for (int i = 0; i <= LISTMAX; i++) held[i] = NULL;
  volatile var heldx[202];
  for (int i = 0; i < 202; i++) heldx[i] = NULL;
  work = malloc(sizeof(int) * (MAXID + 1));
  static int args[1 << 20];
  for (size_t li = 0; li < nl; li++) {
    char* l = lines[li];
    if (v_skippable(l)) continue;
    n_ops++;
    size_t line = li + 1;
    char op[32]; int pos = 0;
    if (sscanf(l, "%31s%n", op, &pos) != 1) { O("bad-op"); continue; }
    /* numeric arguments */
    size_t na = 0; int bad = 0; int64_t big[2] = {0, 0};
    char* q = l + pos;
    while (*q) {
      while (*q == ' ') q++;
      if (!*q) break;
      if (*q < '0' || *q > '9') { bad = 1; break; }
      char* end; unsigned long long v = strtoull(q, &end, 10);
      if (*end && *end != ' ') { bad = 1; break; }
      if (na < 2) big[na] = (int64_t)v;
      if (na < (1 << 20)) args[na] = v > 0x7fffffffULL ? 0x7fffffff : (int)v;
      na++; q = end;
    }
    if (bad) { O("bad-op"); continue; }
    /* pnew / pnewroot / pnewraw: new(Plain) / new_root(Plain) / new_raw(Plain) — new_with & co. on a type WITHOUT an Alloc instance */
    int plain = op[0] == 'p' && (!strcmp(op, "pnew") || !strcmp(op, "pnewroot") || !strcmp(op, "pnewraw"));
    const char* aop = plain ? op + 1 : op;
    int is_new = !strcmp(aop, "new"), is_root = !strcmp(aop, "newroot"), is_raw = !strcmp(aop, "newraw"), is_t = !plain && !strcmp(op, "tnew");
    int is_tx = !strcmp(op, "tnewx");
    if (!strcmp(op, "dumpevery") && na == 1) {
      if (args[0] == 0) { O("bad-op"); continue; }
      every = args[0]; since = 0; O("dumpevery %d", args[0]);
    } else if (!strcmp(op, "ideal") && na == 2) {
      sb_reset(); size_t last = (size_t)-1; int first = 1;
      for (int64_t n = big[0]; n < big[1]; n++) {
        size_t v = GC_Ideal_Size((size_t)n);
        if (first || v != last) { sb_add(first ? "%lld:%zu" : ",%lld:%zu", (long long)n, v); last = v; first = 0; }
      }
      O("ideal %s", sbuf);
    } else if ((is_new || is_root || is_raw || is_t) && na == 2) {
      int id = args[0];
      if (!register_id(id, big[1]) || state[id] == MANAGED || state[id] == UNMANAGED) { O("bad-op"); continue; }
      if (is_t && gc->running) {
        fflush(stdout);
        pid_t pid = fork();
        if (pid == 0) { alarm(60); tnew_child(gc, id, line); }
        int st = 0; waitpid(pid, &st, 0);
        if (!WIFEXITED(st) || WEXITSTATUS(st) != 0) { X("sig=reg-tnew line=%zu what=threshold collection ended with status %d", line, st); n_x++; }
      }
      want_id = id; stalemarked[id] = 0;
      is_plain[id] = (char)plain;
      n_route[plain][is_raw ? 1 : is_root ? 2 : 0]++;
      if (plain) want_plain = id;
      if (is_raw) {
        var p = plain ? (var)new_raw(Plain) : alloc_raw(Probe);
        if (plain) { if (p != addr_of(id) || want_plain >= 0) { X("sig=reg-harness line=%zu what=allocation did not use the arena calloc", line); n_x++; want_plain = -1; } else ((struct Plain*)p)->id = id; }
        state[id] = UNMANAGED; rootflag[id] = 0;
      } else {
        /* exact ops keep the collection threshold out of reach (the model does the same): the real threshold path
           scans the C stack and is exercised by `tnew` */
        if (gc->running && gc->mitems < gc->nitems + 1) gc->mitems = gc->nitems + 1;
        int running = gc->running;
        var p = plain ? (is_root ? (var)new_root(Plain) : (var)new(Plain)) : (is_root ? alloc_root(Probe) : alloc(Probe));
        if (p != addr_of(id) || want_plain >= 0) { X("sig=reg-harness line=%zu what=allocation did not use the probe allocator", line); n_x++; want_plain = -1; }
        else if (plain) ((struct Plain*)p)->id = id;
        if (!running && strict) { state[id] = MANAGED; rootflag[id] = is_root; stopped_touched[id] = 1; strict_taint = 1; }
        else { state[id] = running ? MANAGED : UNMANAGED; rootflag[id] = running && is_root; }
      }
      emit(gc, line, op, "ok");
    } else if (is_tx && na >= 2) {
      int id = args[0];
      static char listed[MAXID];
      int okargs = na - 2 <= 200;
      if (okargs) for (size_t k = 2; k < na; k++) if (args[k] >= MAXID || !id_known[args[k]]) okargs = 0;
      if (!okargs || !register_id(id, big[1]) || state[id] == MANAGED || state[id] == UNMANAGED) { O("bad-op"); continue; }
      memset(listed, 0, (size_t)maxid + 1);
      for (size_t k = 2; k < na; k++) listed[args[k]] = 1;
      want_id = id; stalemarked[id] = 0; is_plain[id] = 0;
      n_route[0][0]++;
      int running = gc->running;
      if (running) {
        /* ledger: the new object is registered first; then what the collection triggered by this allocation must release
           (a destructor may delete the new object itself) */
        state[id] = MANAGED; rootflag[id] = 0;
        nwork = 0;
        for (int k = 0; k <= maxid; k++)
          if (k != id && id_known[k] && state[k] == MANAGED && !rootflag[k] && !listed[k]) { state[k] = DEAD; expdealloc[k]++; work[nwork++] = k; }
        ledger_finalise_closure(1);
        gc->mitems = gc->nitems;               /* nitems+1 > mitems: GC_Set runs GC_Mark and GC_Sweep */
        for (size_t k = 2; k < na; k++) heldx[k - 2] = addr_of(args[k]);
        heldx[na - 2] = addr_of(id);
        hook_gc = gc; hook_listed = listed; hook_new_id = id; hook_line = line; hook_fired = 0;
        v_realloc_hook = tnewx_hook;
        probe_result = 0; probe_gc = gc; probe_armed = stale_pending;
      }
      var p = NULL;
      GUARD(gc, line, op, p = alloc(Probe));
      v_realloc_hook = NULL; probe_armed = 0;
      if (running) {
        if (probe_result == 2) { X("sig=reg-stale-mark line=%zu what=%s: GC_Mark (threshold path) reached its root loop with a mark bit still set that an earlier, interrupted mark phase left: the collection does not start from clear mark bits", line, op); n_x++; }
        probe_result = 0; stale_clear();
      }
      for (size_t k = 0; k <= na - 2; k++) heldx[k] = NULL;
      if (p != addr_of(id) && !op_raised) { X("sig=reg-harness line=%zu what=allocation did not use the probe allocator", line); n_x++; }
      if (running && hook_fired != 1) { X("sig=reg-harness line=%zu what=the hook between GC_Mark and GC_Sweep fired %d times", line, hook_fired); n_x++; }
      if (!running && strict) { state[id] = MANAGED; rootflag[id] = 0; stopped_touched[id] = 1; strict_taint = 1; }
      else if (!running) { state[id] = UNMANAGED; rootflag[id] = 0; }
      emit(gc, line, op, "ok");
    } else if ((!strcmp(op, "del") || !strcmp(op, "delroot")) && na == 1) {
      int id = args[0];
      if (id >= MAXID || !id_known[id]) { O("bad-op"); continue; }
      if (gc->running && state[id] == MANAGED) { state[id] = DEAD; ledger_fin_dfs(id, 1); }
      else if (!gc->running && strict && state[id] == MANAGED) { state[id] = DEAD; stopped_touched[id] = 1; strict_taint = 1; }   /* deleted, says the property text; never finalised (C06's F23) */
      n_delroute[(int)is_plain[id]][!strcmp(op, "del") ? 0 : 2]++;
      if (!strcmp(op, "del")) GUARD(gc, line, op, del(addr_of(id))); else GUARD(gc, line, op, del_root(addr_of(id)));
      emit(gc, line, op, "ok");
    } else if ((!strcmp(op, "delraw") || !strcmp(op, "delrawm")) && na == 1) {
      int id = args[0];
      /* delraw: an object the collector does not know; delrawm (witness only): a REGISTERED object */
      if (id >= MAXID || !id_known[id] || state[id] != (op[6] ? MANAGED : UNMANAGED)) { O("bad-op"); continue; }
      /* del_raw = dealloc(destruct(self)) without GC_Rem: for a registered object this is KF-C17-dealloc-stale by another entrance (witness only) */
      if (state[id] == MANAGED || mem(current(GC), addr_of(id))) { stale[id] = 1; dealloc_taint = 1; }
      state[id] = DEAD; ledger_fin_dfs(id, gc->running);
      n_delroute[(int)is_plain[id]][1]++;
      GUARD(gc, line, op, del_raw(addr_of(id)));
      emit(gc, line, op, "ok");
    } else if (!strcmp(op, "delnull") && na == 0) {
      GUARD(gc, line, op, del(NULL));
      emit(gc, line, op, "ok");
    } else if (!strcmp(op, "dealloc") && na == 1) {
      int id = args[0];
      if (id >= MAXID || !id_known[id] || (state[id] != MANAGED && state[id] != UNMANAGED)) { O("bad-op"); continue; }
      if (state[id] == MANAGED || mem(current(GC), addr_of(id))) { stale[id] = 1; dealloc_taint = 1; }
      int wasroot = rootflag[id];
      state[id] = DEAD; expdealloc[id]++;
      if (wasroot) dealloc_root(addr_of(id)); else dealloc(addr_of(id));
      emit(gc, line, op, "ok");
    } else if (!strcmp(op, "mem") && na == 1) {
      int id = args[0];
      if (id >= MAXID || !id_known[id]) { O("bad-op"); continue; }
      emit(gc, line, op, mem(current(GC), addr_of(id)) ? "1" : "0");
    } else if (!strcmp(op, "sweep") || !strcmp(op, "collect") || (!strcmp(op, "sweepmod") && na == 2 && args[0] > 0)) {
      int is_collect = !strcmp(op, "collect"), is_mod = !strcmp(op, "sweepmod");
      static char listed[MAXID];
      int okargs = 1;
      if (!is_mod) for (size_t k = 0; k < na; k++) if (args[k] >= MAXID || !id_known[args[k]]) okargs = 0;
      if (!okargs || (is_collect && na > LISTMAX)) { O("bad-op"); continue; }
      memset(listed, 0, (size_t)maxid + 1);
      if (is_mod) { for (int id = 0; id <= maxid; id++) if (id_known[id] && state[id] == MANAGED && id % args[0] != args[1]) listed[id] = 1; }
      else for (size_t k = 0; k < na; k++) listed[args[k]] = 1;
      /* ledger: what this collection must release */
      nwork = 0;
      for (int id = 0; id <= maxid; id++)
        if (id_known[id] && state[id] == MANAGED && !rootflag[id] && !listed[id] && !(!is_collect && stale_pending && stalemarked[id]))
          { state[id] = DEAD; expdealloc[id]++; work[nwork++] = id; }      /* GC_Sweep alone keeps what is marked; GC_Mark starts from clear bits */
      ledger_finalise_closure(gc->running);
      if (is_collect) {
        for (size_t k = 0; k < na; k++) held[k] = addr_of(args[k]);
        probe_result = 0; probe_gc = gc; probe_armed = stale_pending;
        GC_Mark(gc);
        probe_armed = 0;
        if (probe_result == 2) { X("sig=reg-stale-mark line=%zu what=%s: GC_Mark reached its root loop with a mark bit still set that an earlier, interrupted mark phase left: the collection does not start from clear mark bits", line, op); n_x++; }
        for (size_t i = 0; i < gc->nslots; i++) {
          struct GCEntry* e = &gc->entries[i];
          if (e->hash == 0) continue;
          int id = (int)((struct Probe*)e->ptr)->id;
          int must = e->root || listed[id];
          if (must && !e->marked) { X("sig=reg-markreal line=%zu what=GC_Mark left %s object %d unmarked", line, e->root ? "root" : "stack-referenced", id); n_x++; }
          if (probe_result == 2 && stalemarked[id] && e->marked) must = 1;     /* GC_Mark did not clear it: the code keeps the object */
          e->marked = must;            /* drop marks that come from stale words on the C stack */
        }
        probe_result = 0;
        for (size_t k = 0; k < na; k++) held[k] = NULL;
      } else if (is_mod) {
        for (int id = 0; id <= maxid; id++) if (listed[id]) GC_Mark_Item(gc, addr_of(id));
      } else {
        for (size_t k = 0; k < na; k++) GC_Mark_Item(gc, addr_of(args[k]));
      }
      GUARD(gc, line, op, GC_Sweep(gc));
      stale_clear();               /* the second loop of GC_Sweep clears every mark bit */
      emit(gc, line, op, "ok");
    } else if (!strcmp(op, "stalemark")) {
      int okargs = na <= LISTMAX;
      if (okargs) for (size_t k = 0; k < na; k++) if (args[k] >= MAXID || !id_known[args[k]]) okargs = 0;
      if (!okargs) { O("bad-op"); continue; }
      if (!stale_pending) stale_nslots = gc->nslots;
      for (size_t k = 0; k < na; k++) {
        GC_Mark_Item(gc, addr_of(args[k]));
        if (state[args[k]] == MANAGED) { stalemarked[args[k]] = 1; stale_pending = 1; }
      }
      emit(gc, line, op, "ok");
    } else if (!strcmp(op, "show") && na == 0) {
      /* show(current(GC)) = GC_Show: the header line, one row per slot, the closing line.  Pointers (%p) are rewritten as
         u<k>; the rows go to the O line (compared with the model's showLines); the direct oracle reads the rows against
         the ledger: every live managed object on exactly one row, with its type, `root`/`auto` as allocated, blank mark */
      size_t ni0 = gc->nitems, ns0 = gc->nslots;
      var str = new_raw(String, $S(""));
      show_to(gc, str, 0);
      char* txt = strdup(c_str(str));
      del_raw(str);
      if (gc->nitems != ni0 || gc->nslots != ns0) { X("sig=reg-show line=%zu what=show(current(GC)) changed the registry", line); n_x++; }
      static int* seen = NULL; static int seengen = 0;
      if (!seen) seen = (int*)(calloc)(MAXID, sizeof(int));
      seengen++;
      sb_reset(); size_t rows = 0, items = 0, occupied = 0; int closed = 0;
      char* save = NULL;
      for (char* ln = strtok_r(txt, "\n", &save); ln; ln = strtok_r(NULL, "\n", &save), rows++) {
        if (rows == 0) { if (strncmp(ln, "<'GC' At 0x", 11)) { X("sig=reg-show line=%zu what=unexpected header line `%s`", line, ln); n_x++; } continue; }
        char* hx = strstr(ln, " 0x");
        if (!hx) { sb_add(items ? ",%s" : "%s", ln); items++; if (!strcmp(ln, "+------------------->")) closed = 1; continue; }
        char* end; uintptr_t pv = (uintptr_t)strtoull(hx + 3, &end, 16); char ab[40];
        *hx = 0;
        sb_add(items ? ",%s %s%s" : "%s %s%s", ln, addr_str(pv, ab, sizeof ab), end); items++; occupied++;
        size_t idx = 0; char tn[32] = "";
        if (sscanf(ln, "| %zu : %31s", &idx, tn) != 2 || idx + 1 != rows) { X("sig=reg-show line=%zu what=row %zu is malformed", line, rows - 1); n_x++; continue; }
        int id = (pv >= ADDR0 && (pv - ADDR0) % 8 == 0) ? id_of_u((int64_t)((pv - ADDR0) / 8)) : -1;
        if (id < 0 || state[id] != MANAGED) { X("sig=reg-show line=%zu what=row %zu lists an address that is no live managed object", line, idx); n_x++; continue; }
        if (seen[id] == seengen) { X("sig=reg-show line=%zu what=object %d is listed twice", line, id); n_x++; }
        seen[id] = seengen;
        if (strcmp(tn, is_plain[id] ? "Plain" : "Probe")) { X("sig=reg-show line=%zu what=object %d listed as `%s`", line, id, tn); n_x++; }
        int stale_star = stale_pending && stalemarked[id] && !strcmp(end, rootflag[id] ? " root *" : " auto *");   /* a bit `stalemark` left */
        if (strcmp(end, rootflag[id] ? " root  " : " auto  ") && !stale_star) { X("sig=reg-show line=%zu what=object %d (allocated with root=%d) is listed as `%s`", line, id, rootflag[id], end); n_x++; }
      }
      for (int id = 0; id <= maxid; id++) if (id_known[id] && state[id] == MANAGED && seen[id] != seengen) { X("sig=reg-show line=%zu what=live managed object %d is not listed", line, id); n_x++; }
      if (!closed || items != gc->nslots + 1) { X("sig=reg-show line=%zu what=%zu rows for %zu slots (closing line %d)", line, items, gc->nslots, closed); n_x++; }
      n_show++; n_show_rows += occupied;
      O("show ok rows=%zu %s", items, list_or_digest(items));
      (free)(txt);
    } else if (!strcmp(op, "teardown") && na == 0) {
      /* GC_Del in a forked child (what Cello_Exit runs): GC_Unmark, GC_Sweep — everything but the roots is finalised —, then
         the arrays are freed.  The observation is taken by the free hook at `free(gc->entries)`, the first statement after
         GC_Sweep; the child ends there, the parent goes on with the registry as it was */
      fflush(stdout);
      n_teardown++;
      pid_t pid = fork();
      if (pid == 0) {
        alarm(60);
        nwork = 0;
        for (int id = 0; id <= maxid; id++)
          if (id_known[id] && state[id] == MANAGED && !rootflag[id]) { state[id] = DEAD; expdealloc[id]++; work[nwork++] = id; }
        ledger_finalise_closure(gc->running);
        stale_clear();
        td_gc = gc; td_line = line; td_fired = 0;
        v_free_hook = teardown_hook;
        GUARD(gc, line, op, del_raw(current(GC)));
        v_free_hook = NULL;
        if (!td_fired) { if (op_raised) O("teardown raised"); else { X("sig=reg-harness line=%zu what=GC_Del did not free its entry array", line); O("teardown lost"); } }
        fflush(stdout);
        _exit(0);
      }
      int st = 0; waitpid(pid, &st, 0);
      if (!WIFEXITED(st) || WEXITSTATUS(st) != 0) { X("sig=reg-teardown line=%zu what=GC_Del ended with status %d", line, st); n_x++; O("teardown crash"); }
    } else if (!strcmp(op, "stop") && na == 0) { stop(current(GC)); emit(gc, line, op, "ok"); }
    else if (!strcmp(op, "start") && na == 0) { start(current(GC)); emit(gc, line, op, "ok"); }
    else if (!strcmp(op, "kill") && na == 2) {
      int a = args[0], b = args[1];
      if (a >= MAXID || b >= MAXID || !id_known[a] || !id_known[b]) { O("bad-op"); continue; }
      kills[a] = realloc(kills[a], sizeof(int) * (nkills[a] + 1)); kills[a][nkills[a]++] = b;
      O("kill %d %d", a, b);
    } else if (!strcmp(op, "unkill") && na == 1) {
      int a = args[0];
      if (a >= MAXID || !id_known[a]) { O("bad-op"); continue; }
      nkills[a] = 0; killnull[a] = 0; raises[a] = 0; O("unkill %d", a);
    } else if (!strcmp(op, "killnull") && na == 1) {
      int a = args[0];
      if (a >= MAXID || !id_known[a]) { O("bad-op"); continue; }
      killnull[a] = 1; O("killnull %d", a);
    } else if (!strcmp(op, "killraise") && na == 1) {
      int a = args[0];
      if (a >= MAXID || !id_known[a]) { O("bad-op"); continue; }
      raises[a] = 1; O("killraise %d", a);
    } else if (!strcmp(op, "strict") && na == 0) {
      strict = 1; O("strict");
    } else O("bad-op");
  }
  I("ops=%zu dumps=%zu oracle_failures=%zu max_slots=%zu max_probe_distance=%zu wrapped_entries_seen=%zu del_null_during_sweep=%zu gc_mark_probes_clear=%zu gc_mark_probes_stale=%zu destructor_raises=%zu destructor_raises_in_release_loop=%zu", n_ops, n_dumps, n_x, max_slots, max_dist, n_wrapped, n_null_in_sweep, n_probe_clear, n_probe_set, n_thrown, n_thrown_in_sweep);
  I("alloc_own_standard=%zu alloc_own_raw=%zu alloc_own_root=%zu alloc_default_standard=%zu alloc_default_raw=%zu alloc_default_root=%zu del_own_standard=%zu del_own_raw=%zu del_own_root=%zu del_default_standard=%zu del_default_raw=%zu del_default_root=%zu arena_calloc=%zu arena_free=%zu shows=%zu show_rows_occupied=%zu teardowns=%zu",
    n_route[0][0], n_route[0][1], n_route[0][2], n_route[1][0], n_route[1][1], n_route[1][2],
    n_delroute[0][0], n_delroute[0][1], n_delroute[0][2], n_delroute[1][0], n_delroute[1][1], n_delroute[1][2], n_arena_calloc, n_arena_free, n_show, n_show_rows, n_teardown);
  kills_enabled = 0;   /* teardown (Cello_Exit sweeps what is left) runs plain destructors */
  return 0;
}
