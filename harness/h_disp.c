/* harness/h_disp.c — engine `disp` (C08): type-class dispatch on the real library.
 *
 * Op file (tokens separated by single spaces; class tokens: `b.<Symbol>` = a type object of the library or of this file,
 * resolved with dlsym; `r.<k>` = run-time class k created by `C`):
 *   (a third kind of class token: `t.<tid>` = the live run-time TYPE object tid used as a class — any type object can be a class;
 *    its name is read when the lookup runs, its address is what Type_Scan memoises; W renames it, X deletes it)
 *   G <i>:<Class> ...                  the Type_Cache_Entry table as read from the SOURCE TEXT (used by the invariant check)
 *   C <k> <name>                       create run-time class k:  new_raw(Type, $S(name), $I(0))
 *   B <tid> <Symbol> <Class>:<flags>…  bind tid to a library type object; the row is the declaration from the SOURCE TEXT
 *   S <tid> <Symbol> <Class>:<flags>…  same for a type declared statically in this file (white-box dumps enabled)
 *   T <tid> <name> <cls>:<flags>…      create a run-time type: new_raw_with(Type, (name, size, inst…)); flags = member non-NULL
 *   N <tid> <mode> <name> <size> <cls>:<flags>…   create a run-time type through the public API, mode =
 *                                      raw   new_raw_with(Type, …)          root  new_root_with(Type, …)      gc  new_with(Type, …)
 *                                      alloc alloc_raw(Type) then construct_with(T, …)
 *                                      junk  construct_with on caller-provided storage whose every word holds junk
 *                                            (cache words: a decoy instance; all cells: decoy triples with live-looking names)
 *                                      arena the same on a slot of a harness-owned arena (lowest free slot): X releases the slot, the
 *                                            next `N … arena` lands on the SAME ADDRESS (deterministic address reuse)
 *   W <tid> <name> <size> <cls>:<flags>…   re-construct the live run-time type IN PLACE: destruct(T); construct_with(T, …)
 *   X <tid>                            delete the run-time type (del_raw / del_root / del according to how it was made)
 *   Y <tid> copy|assign                copy(T) / assign(T, T): Type objects refuse both with ValueError and stay as they are
 *   R <tid>                            white-box reset: cache words and memoised class pointers := NULL
 *   I|P <tid> <cls>   M|Q <tid> <cls> <k>     type_instance | type_implements | type_method_at_offset | type_implements_method_at_offset
 *   i|p <tid> <cls>   m|q <tid> <cls> <k>     instance | implements | method_at_offset | implements_method_at_offset on an object of type tid
 *   J <tid> <cls>                      instance(<the type object tid itself>, cls): a lookup in Type's record through type_of
 *   K <tid> <tid2>                     cast(object of type tid, type tid2)
 *   k <tid> <tid2>                     cast(<the type object tid itself>, type tid2): type_of of a type object is Type
 *   E null|dead|bad|nontype <tid> <cls>    lookups with a NULL / freed / foreign / non-type `self`
 *   E nullcls <tid> <cls>              type_instance(T, NULL) / type_implements(T, NULL) (the class token is ignored); executed only when
 *                                      the record has an un-memoised triple or no triple at all (otherwise the code reads through NULL: `ub`)
 *   H <tid> <nthreads> <rounds> <cls>… threads doing first lookups on cold caches, repeatedly
 *   U <tid> <nthreads> <rounds> <seed> <cls>…   threaded stress on COLD COPIES of the record of tid (library type, static probe or run-time type: the
 *                                      copy of a run-time type's record with cache and cls words NULL is word for word what Type_New builds): every
 *                                      round a fresh copy, the expected answer of every class taken BEFORE the threads start by a raw by-name scan
 *                                      of the copy's declaration list; the threads are released together by a spinning barrier, each starts with a
 *                                      DIFFERENT class and walks all of them by type_instance / type_implements / type_method (or
 *                                      type_implements_method); afterwards the main thread alone repeats every lookup on the now warm copy and checks
 *                                      the cache and cls words.  The original record is not touched.  `I stress rounds=… overlapping=…` counts the
 *                                      rounds in which the lookup phases of at least two threads really overlapped in time (monotonic clock).
 *   e <tid> <cls> <k>                  type_method_at_offset(T, cls, k*sizeof(var), "member<k>") and the TEXT of the ClassError: `e <result> | <exception>: <message>`
 *   D <tid>                            dump
 *   N <tid> heap <name> <size> row…    new_raw_with(Type, …) while the harness serves Type_Alloc's calloc from a LIFO pool of blocks (link-time
 *                                      --wrap=calloc/free; a freed block is poisoned for ASan until it is handed out again): after `X` of a
 *                                      heap type the next `N … heap` gets the SAME ADDRESS, as with glibc's malloc outside ASan's quarantine.
 *                                      `I heap=… after-free=… recycled=… just-freed=…` at the end counts the heap constructions, those made while a
 *                                      released block existed, those that really landed on the address of a deleted type object, and those on
 *                                      the address released last.
 *   c <tid> <fn>                       call the LIBRARY function <fn> (a function of src/*.c written with `method(self, C, M, …)`, or one that
 *                                      starts `struct C* c = instance(self, C); if (c and c->M) …`) on an object of the run-time type tid
 *   d <tid> <fn>                       the same dispatch through a `method(x, C, M, …)` call site of THIS file (compiled with the Cello.h under test)
 *   g <tid> <fn>                       `type_method(T, C, M, x, …)` at a call site of this file
 *   f <tid> <fn>                       `implements_method(x, C, M)` at a call site of this file
 *                                      Every non-NULL member of every instance of a run-time type is one of 256 distinct probe functions, handed
 *                                      out round-robin, so the oracle knows WHICH declaration's member ran: the member the declaration in force
 *                                      puts at (first triple of class C, member M) exactly once, or ClassError and nothing invoked; a soft
 *                                      function is called only where the declaration has the member (its default code is not exercised).
 *   Z <b> <text>                       the CALLER writes <text> into its own character buffer b (strcpy; 64 buffers of 64 bytes, harness-owned,
 *                                      never freed).  A name token `@<b>` in C/T/N/W passes `$S(buffer b)` as the name of the type: Type_New keeps
 *                                      that POINTER as `__Name`, and every triple built from an instance of that class copies it.  Observation:
 *                                      `Z <b> t=<class/type tokens whose __Name cell points into b> e=<tid:index of triples whose name word points into b>`
 * Observations: results as `#<index of the triple whose inst was returned>` | NULL | exception name; for S/T types followed by the
 * canonical dump of the concrete record `c=<slot>:<index>,… m=<index>:<class token>,… h=<header type word set>`; N and W add
 * `z=<number of non-NULL words between the terminator triple and the end of the storage>`.
 * Direct oracle (X lines), independent of the Lean model AND of Type.c's lookup code: the declared row from the source text and a
 * raw scan of the record by class name (own layout constants), member words read raw, exceptions, a call counter in every
 * probe member, the cache/memo invariant after every op.  The declared row kept per type is the declaration CURRENTLY in
 * force: W replaces it (a refused W keeps it), so every lookup is compared with the instance list of the last successful
 * construction; after every successful construction all cache words and memoised class pointers must be NULL and the
 * __Name/__Size cells must hold the arguments; a refused construction must leave every word of the storage as it was.
 * The declaration of a run-time type is kept BY NAME as Type_New stored it (the class names at construction time); a lookup is
 * compared with "first triple whose name is the CURRENT name of the class object".  Known finding KF-C08-class-memo-stale: when
 * a triple's memoised class pointer equals the class argument although the triple's name is not the class's current name (the
 * class object was re-constructed under another name, or deleted and another type object now lives at its address), a
 * disagreement is reported under that signature.
 * Known finding KF-C08-borrowed-name: the oracle keeps every name BY VALUE (the text it was when Type_New ran: `tname`, `rcname`);
 * after a `Z` into a buffer that a `__Name` cell or a triple name word points into, the type object reads another name than it
 * was given — reported at the `Z` itself and at every lookup that disagrees with the declaration-by-value in such a state. */
#include "common.h"
#include <dlfcn.h>
#include <pthread.h>
#include <sys/wait.h>
#include <fcntl.h>
#include <unistd.h>

/* own layout constants: deliberately NOT Type.c's CELLO_NBUILTINS */
enum { RAW_CACHE_WORDS = CELLO_CACHE_NUM, RAW_NAME_ENTRY = CELLO_CACHE_NUM / 3, RAW_FIRST = CELLO_CACHE_NUM / 3 + 2 };

enum { MAXT = 8192, MAXC = 4096, MAXROW = 300, CELLW = 8 };

static volatile long invoked = 0;
static var probe_member(var a, var b) { invoked++; return a; }
#define PM(T) ((T)probe_member)
/* lookups that cannot raise with a well-formed self run without a try block: the oracle then speaks before anything that needs
   the exception machinery (itself a client of the dispatch) */
#define V_PLAIN(exc, stmt) do { (exc) = NULL; stmt; } while (0)

/* ---- 256 distinct probe functions: the members of the instances of run-time types ---- */
static volatile long pf_calls = 0; static volatile int pf_last = -1;
static var pf_hit(int n) { invoked++; pf_calls++; pf_last = n; return (var)(uintptr_t)(0x5000 + 16 * n); }
#define PF1(n) static var pfn_##n(void) { return pf_hit(0x##n); }
#define PF16(H) PF1(H##0) PF1(H##1) PF1(H##2) PF1(H##3) PF1(H##4) PF1(H##5) PF1(H##6) PF1(H##7) PF1(H##8) PF1(H##9) PF1(H##a) PF1(H##b) PF1(H##c) PF1(H##d) PF1(H##e) PF1(H##f)
PF16(0) PF16(1) PF16(2) PF16(3) PF16(4) PF16(5) PF16(6) PF16(7) PF16(8) PF16(9) PF16(a) PF16(b) PF16(c) PF16(d) PF16(e) PF16(f)
#define PT1(n) pfn_##n,
#define PT16(H) PT1(H##0) PT1(H##1) PT1(H##2) PT1(H##3) PT1(H##4) PT1(H##5) PT1(H##6) PT1(H##7) PT1(H##8) PT1(H##9) PT1(H##a) PT1(H##b) PT1(H##c) PT1(H##d) PT1(H##e) PT1(H##f)
enum { NPF = 256 };
static var (*pf_tab[NPF])(void) = { PT16(0) PT16(1) PT16(2) PT16(3) PT16(4) PT16(5) PT16(6) PT16(7) PT16(8) PT16(9) PT16(a) PT16(b) PT16(c) PT16(d) PT16(e) PT16(f) };
static unsigned pf_next = 0;
static var next_probe(void) { return (var)pf_tab[pf_next++ % NPF]; }

/* ---- dispatching functions: the library's own (wl_), and call sites of the method / implements_method / type_method macros in
        this file (ws_, wi_, wt_).  W(function, Class, member, soft, extra arguments…): the library function is `function(self, extra…)`
        and is written `method(self, Class, member, extra…)` (soft = 0) or `instance(self, Class)` + member test + default code (soft = 1);
        the (class, member index) of every function is ALSO read from the source text by the translator (CelloGen.Disp.methodSites /
        instanceSites, used by the Lean driver): a disagreement shows as a divergence ---- */
#define WLIST(W) \
  W(call_with, Call, call_with, 0, x) \
  W(iter_init, Iter, iter_init, 0) W(iter_next, Iter, iter_next, 0, x) W(iter_last, Iter, iter_last, 0) W(iter_prev, Iter, iter_prev, 0, x) W(iter_type, Iter, iter_type, 0) \
  W(push, Push, push, 0, x) W(pop, Push, pop, 0) W(push_at, Push, push_at, 0, x, x) W(pop_at, Push, pop_at, 0, x) \
  W(get, Get, get, 0, x) W(set, Get, set, 0, x, x) W(mem, Get, mem, 0, x) W(rem, Get, rem, 0, x) W(key_type, Get, key_type, 0) W(val_type, Get, val_type, 0) \
  W(len, Len, len, 0) W(c_int, C_Int, c_int, 0) W(c_str, C_Str, c_str, 0) W(c_float, C_Float, c_float, 0) \
  W(ref, Pointer, ref, 0, x) W(deref, Pointer, deref, 0) \
  W(resize, Resize, resize, 0, 3) W(append, Concat, append, 0, x) W(concat, Concat, concat, 0, x) \
  W(sort_by, Sort, sort_by, 0, (bool(*)(var,var))NULL) \
  W(sopen, Stream, sopen, 0, x, x) W(sclose, Stream, sclose, 0) W(sseek, Stream, sseek, 0, 0, 0) W(stell, Stream, stell, 0) W(sflush, Stream, sflush, 0) \
  W(seof, Stream, seof, 0) W(sread, Stream, sread, 0, NULL, 0) W(swrite, Stream, swrite, 0, NULL, 0) \
  W(look_from, Show, look, 0, x, 0) \
  W(start, Start, start, 0) W(stop, Start, stop, 0) W(join, Start, join, 0) W(running, Start, running, 0) \
  W(lock, Lock, lock, 0) W(unlock, Lock, unlock, 0) W(trylock, Lock, trylock, 0) \
  W(hash, Hash, hash, 1) W(cmp, Cmp, cmp, 1, x) W(copy, Copy, copy, 1) W(show_to, Show, show, 1, x, 0) W(swap, Swap, swap, 1, x) W(assign, Assign, assign, 1, x)
#define W_DEF(fn, C, M, soft, ...) \
  static void wl_##fn(var x) { (void)fn(x, ##__VA_ARGS__); } \
  static void ws_##fn(var x) { (void)method(x, C, M, ##__VA_ARGS__); } \
  static int wi_##fn(var x) { return implements_method(x, C, M) ? 1 : 0; } \
  static void wt_##fn(var T, var x) { (void)type_method(T, C, M, x, ##__VA_ARGS__); }
WLIST(W_DEF)
typedef struct { const char* name; var* cls; int k; int soft; void (*lib)(var); void (*site)(var); int (*impl)(var); void (*tsite)(var, var); } Wrap;
#define W_ROW(fn, C, M, soft, ...) { #fn, &C, (int)(offsetof(struct C, M) / sizeof(var)), soft, wl_##fn, ws_##fn, wi_##fn, wt_##fn },
static Wrap wraps[] = { WLIST(W_ROW) { NULL, NULL, 0, 0, NULL, NULL, NULL, NULL } };
static Wrap* find_wrap(const char* nm) { for (Wrap* w = wraps; w->name; w++) if (strcmp(w->name, nm) == 0) return w; return NULL; }

/* ---- Type_Alloc's blocks from a LIFO pool (mode heap): what malloc does with a just-freed block, made visible under ASan ---- */
#if defined(__has_feature)
#if __has_feature(address_sanitizer)
#include <sanitizer/asan_interface.h>
#define POOL_POISON(p, n) ASAN_POISON_MEMORY_REGION(p, n)
#define POOL_UNPOISON(p, n) ASAN_UNPOISON_MEMORY_REGION(p, n)
#endif
#endif
#ifndef POOL_POISON
#define POOL_POISON(p, n) ((void)0)
#define POOL_UNPOISON(p, n) ((void)0)
#endif
enum { NPOOL = 64, POOL_BLOCK = 16384 };
static char pool_mem[NPOOL][POOL_BLOCK] __attribute__((aligned(64)));
static int pool_stack[NPOOL], pool_nfree = 0, pool_fresh = 0, pool_on = 0;
static void* pool_last_freed = NULL; static int pool_last_from_stack = 0; static long n_heap = 0, n_heap_after_free = 0, n_recycled = 0, n_just_freed = 0;
static int in_pool(const void* p) { return (uintptr_t)p >= (uintptr_t)pool_mem && (uintptr_t)p < (uintptr_t)pool_mem + sizeof pool_mem; }
static int pool_available(void) { return pool_nfree > 0 || pool_fresh < NPOOL; }
void* __real_calloc(size_t n, size_t sz); void __real_free(void* p);
void* __wrap_calloc(size_t n, size_t sz) {
  if (pool_on && n * sz >= 2048 && n * sz <= POOL_BLOCK && pool_available()) {
    pool_last_from_stack = pool_nfree > 0;
    int slot = pool_nfree > 0 ? pool_stack[--pool_nfree] : pool_fresh++;
    POOL_UNPOISON(pool_mem[slot], POOL_BLOCK); memset(pool_mem[slot], 0, n * sz);
    pool_on = 0;                                            /* one block per construction */
    return pool_mem[slot];
  }
  return __real_calloc(n, sz);
}
void __wrap_free(void* p) {
  if (in_pool(p)) {
    int slot = (int)(((uintptr_t)p - (uintptr_t)pool_mem) / POOL_BLOCK);
    pool_last_freed = pool_mem[slot]; POOL_POISON(pool_mem[slot], POOL_BLOCK);
    if (pool_nfree < NPOOL) pool_stack[pool_nfree++] = slot;
    return;
  }
  __real_free(p);
}

/* ---- statically declared probe types (file scope; rows are repeated in vlib/props/c08.py and checked on `S`) ---- */
struct ProbeS2 { int x; };
var ProbeS0 = CelloEmpty(ProbeS0);
var ProbeS1 = CelloEmpty(ProbeS1,
  Instance(Show, PM(int(*)(var,var,int)), NULL),
  Instance(New, PM(void(*)(var,var)), PM(void(*)(var))),
  Instance(Cmp, PM(int(*)(var,var))),
  Instance(Show, NULL, PM(int(*)(var,var,int))),
  Instance(Cmp, NULL));
var ProbeS2 = Cello(ProbeS2,
  Instance(Pointer, PM(void(*)(var,var)), NULL),
  Instance(Cast, NULL),
  Instance(Current, PM(var(*)(void))),
  Instance(C_Float, PM(double(*)(var))),
  Instance(C_Int, NULL),
  Instance(C_Str, PM(char*(*)(var))),
  Instance(Get, PM(var(*)(var,var)), NULL, PM(bool(*)(var,var)), NULL, NULL, PM(var(*)(var))),
  Instance(Concat, NULL, PM(void(*)(var,var))),
  Instance(Push, PM(void(*)(var,var)), PM(void(*)(var)), NULL, NULL),
  Instance(Iter, PM(var(*)(var)), PM(var(*)(var,var)), NULL, NULL, NULL),
  Instance(Len, PM(size_t(*)(var))),
  Instance(Hash, PM(uint64_t(*)(var))),
  Instance(Mark, NULL),
  Instance(Cmp, PM(int(*)(var,var))),
  Instance(Assign, PM(void(*)(var,var))),
  Instance(New, NULL, PM(void(*)(var))),
  Instance(Alloc, NULL, NULL),
  Instance(Size, PM(size_t(*)(void))),
  Instance(Swap, PM(void(*)(var,var))),
  Instance(Help, NULL),
  Instance(Size, NULL));
var ProbeS3 = CelloEmpty(ProbeS3,
  Instance(Copy, PM(var(*)(var))),
  Instance(Cast, PM(var(*)(var,var))),
  Instance(Cast, NULL));

/* ---- tables ---- */
typedef struct { struct Header h; var m[CELLW]; } Cell;
typedef struct { struct Header h; var body[4]; } ObjBlk;

typedef struct {
  int kind;             /* 0 unbound, 1 library type (B), 2 static probe (S), 3 run-time (T) */
  var type;
  int n;                /* row length */
  char** rname;         /* declared class name per triple */
  char** rflags;        /* declared member flags per triple */
  Cell* cells;          /* run-time types: the instance objects */
  char* tname;
  ObjBlk* obj;          /* an object whose header says it is of this type */
  int how;              /* run-time types: 0 new_raw_with, 1 new_root_with, 2 new_with, 3 alloc_raw + construct_with, 4 junk storage */
  long tsize;           /* run-time types: the size argument */
  int gcslot;           /* mode gc: index of the stack slot that keeps the type reachable for the collector */
  char** rcname;        /* run-time types: the class NAME of every triple as it was when the type was constructed */
  int aslot;            /* mode arena: the slot */
} TH;
static TH th[MAXT];

static struct { var cls; char* name; } rcls[MAXC];
static struct { int idx; char name[64]; } gslot[64]; static int ngslot = 0;

static var resolve_sym(const char* s) {
  var* p = (var*)dlsym(RTLD_DEFAULT, s);
  return p ? *p : NULL;
}
static var resolve_cls(const char* tok) {
  if (tok[0] == 'b' && tok[1] == '.') return resolve_sym(tok + 2);
  if (tok[0] == 'r' && tok[1] == '.') { int k = atoi(tok + 2); if (k >= 0 && k < MAXC) return rcls[k].cls; }
  if (tok[0] == 't' && tok[1] == '.') { int k = atoi(tok + 2); if (k >= 0 && k < MAXT && th[k].kind == 3) return th[k].type; }
  return NULL;
}

/* ---- class objects that changed under the feet of memoised pointers ---- */
enum { MAXEV = 4096 };
static var dead_addr[MAXEV]; static int ndead = 0;         /* deleted type objects whose address holds no live type object now */
static var changed_addr[MAXEV]; static int nchanged = 0;   /* addresses whose __Name was rewritten (re-construction under another name, address reuse) */
static int tid_hi = 0;                                      /* 1 + the highest type number used so far */
static int live_tid(var c) { for (int k = 0; k < tid_hi; k++) if (th[k].kind == 3 && th[k].type == c) return k; return -1; }
static int is_dead(var c) { if (live_tid(c) >= 0) return 0; for (int i = 0; i < ndead; i++) if (dead_addr[i] == c) return 1; return 0; }
static int is_changed(var c) { for (int i = 0; i < nchanged; i++) if (changed_addr[i] == c) return 1; return 0; }
static void mark_dead(var c) { if (ndead < MAXEV) dead_addr[ndead++] = c; }
static void mark_changed(var c) { if (!is_changed(c) && nchanged < MAXEV) changed_addr[nchanged++] = c; }
static void mark_alive(var c) { for (int i = 0; i < ndead; i++) if (dead_addr[i] == c) { dead_addr[i] = dead_addr[--ndead]; mark_changed(c); i--; } }

/* ---- caller-owned character buffers (op Z, name token @b) ---- */
enum { NBUF = 64, NBUFW = 64 };
static char nbuf[NBUF][NBUFW]; static int nbuf_used[NBUF];
/* a name token: `@<b>` = the caller's buffer b (must hold a text), anything else = the text itself. returns 0 when ill-formed */
static int name_tok(const char* tok, char** ptr) {
  *ptr = NULL;
  if (tok[0] != '@') return 1;
  if (!tok[1] || strspn(tok + 1, "0123456789") != strlen(tok + 1)) return 0;
  int b = atoi(tok + 1); if (b < 0 || b >= NBUF || !nbuf_used[b] || !nbuf[b][0]) return 0;
  *ptr = nbuf[b]; return 1;
}

/* ---- raw access to a type record (independent of Type.c's lookup functions) ---- */
static struct Type* raw_first(var T) { return (struct Type*)T + RAW_FIRST; }
static const char* raw_name(var T) { return (const char*)((struct Type*)T)[RAW_NAME_ENTRY].inst; }
static int raw_count(var T) { int n = 0; for (struct Type* t = raw_first(T); t->name; t++) n++; return n; }
static var raw_scan_name(var T, const char* cn) { for (struct Type* t = raw_first(T); t->name; t++) if (strcmp((const char*)t->name, cn) == 0) return t->inst; return NULL; }
static int raw_index(var T, var inst) { if (!inst) return -1; int i = 0; for (struct Type* t = raw_first(T); t->name; t++, i++) if (t->inst == inst) return i; return -2; }
static int raw_hdr(var T) { return ((struct Header*)((char*)T - sizeof(struct Header)))->type != NULL; }
/* the name a type object was GIVEN (the text when Type_New ran), for the objects this harness created; the current reading otherwise */
static const char* decl_name(var c) {
  for (int k = 0; k < tid_hi; k++) if (th[k].kind == 3 && th[k].type == c && th[k].tname) return th[k].tname;
  for (int k = 0; k < MAXC; k++) { if (!rcls[k].cls) continue; if (rcls[k].cls == c) return rcls[k].name; }
  return raw_name(c);
}
static int type_dirty(var c) { return strcmp(decl_name(c), raw_name(c)) != 0; }
/* a triple of the run-time type reads another class name than it was given */
static int row_dirty(TH* h) {
  if (h->kind != 3 || !h->rcname) return 0;
  int i = 0; for (struct Type* t = raw_first(h->type); t->name && i < h->n; t++, i++) if (strcmp((const char*)t->name, h->rcname[i]) != 0) return 1;
  return 0;
}
static int is_dead(var c);
/* the territory of KF-C08-borrowed-name for a lookup of cls on h */
static int borrowed_territory(TH* h, var cls) {
  if (row_dirty(h) || type_dirty(cls)) return 1;
  for (struct Type* t = raw_first(h->type); t->name; t++) if (t->cls && !is_dead(t->cls) && type_dirty(t->cls)) return 1;
  return 0;
}
static int row_first(TH* h, const char* cn) { for (int i = 0; i < h->n; i++) if (strcmp(h->rname[i], cn) == 0) return i; return -1; }

static const char* cls_token(var c, char* buf, size_t n) {
  for (int k = 0; k < MAXC; k++) if (rcls[k].cls == c) { snprintf(buf, n, "r.%d", k); return buf; }
  int lt = live_tid(c); if (lt >= 0) { snprintf(buf, n, "t.%d", lt); return buf; }
  if (is_dead(c)) { snprintf(buf, n, "dead"); return buf; }
  snprintf(buf, n, "b.%s", raw_name(c)); return buf;
}

static char dbuf[1 << 16];
/* canonical dump; memo_ids = 0 prints only which triples carry a memoised class */
static const char* dump(TH* h, int memo_ids) {
  if (h->kind < 2) return "";
  size_t l = 0; var T = h->type; char tb[96];
  l += snprintf(dbuf + l, sizeof dbuf - l, " c=");
  int first = 1;
  for (int i = 0; i < RAW_CACHE_WORDS; i++) {
    var w = ((var*)T)[i]; if (!w) continue;
    int ix = raw_index(T, w);
    if (ix >= 0) l += snprintf(dbuf + l, sizeof dbuf - l, "%s%d:%d", first ? "" : ",", i, ix);
    else l += snprintf(dbuf + l, sizeof dbuf - l, "%s%d:?", first ? "" : ",", i);
    first = 0;
  }
  l += snprintf(dbuf + l, sizeof dbuf - l, " m="); first = 1; int i = 0;
  for (struct Type* t = raw_first(T); t->name; t++, i++) {
    if (!t->cls) continue;
    if (memo_ids) l += snprintf(dbuf + l, sizeof dbuf - l, "%s%d:%s", first ? "" : ",", i, cls_token(t->cls, tb, sizeof tb));
    else l += snprintf(dbuf + l, sizeof dbuf - l, "%s%d", first ? "" : ",", i);
    first = 0;
  }
  l += snprintf(dbuf + l, sizeof dbuf - l, " h=%d", raw_hdr(T));
  return dbuf;
}

/* invariant: every cache word is NULL or the declared instance of its slot's class; every memoised class pointer is NULL or
   a class whose name is the triple's name, and then the triple is the first one with that name (or shares its instance) */
static void check_inv(TH* h, size_t line) {
  var T = h->type; if (!T) return;
  if (row_dirty(h)) return;                              /* the state of KF-C08-borrowed-name; reported at the Z and where a lookup goes wrong */
  for (int g = 0; g < ngslot; g++) {
    if (gslot[g].idx >= RAW_CACHE_WORDS) { X("sig=disp-cache-index line=%zu what=cache slot %d of class %s outside the %d cache words", line, gslot[g].idx, gslot[g].name, RAW_CACHE_WORDS); continue; }
    var w = ((var*)T)[gslot[g].idx];
    if (w && w != raw_scan_name(T, gslot[g].name))
      X("sig=disp-cache-inv line=%zu what=cache word %d of %s holds %p, not the declared %s instance %p", line, gslot[g].idx, raw_name(T), w, gslot[g].name, raw_scan_name(T, gslot[g].name));
  }
  for (struct Type* t = raw_first(T); t->name; t++) {
    if (!t->cls) continue;
    if (is_dead(t->cls)) continue;                       /* dangling: never dereferenced (neither here nor by Type_Scan) */
    if (type_dirty(t->cls)) continue;                    /* KF-C08-borrowed-name: the class object reads another name than it was given */
    if (strcmp(raw_name(t->cls), (const char*)t->name) != 0) {
      if (is_changed(t->cls)) continue;                  /* the state of KF-C08-class-memo-stale; reported where a lookup goes wrong */
      X("sig=disp-memo-inv line=%zu what=triple %s of %s memoises class %s", line, (char*)t->name, raw_name(T), raw_name(t->cls));
    }
    else if (raw_scan_name(T, (const char*)t->name) != t->inst) X("sig=disp-memo-inv line=%zu what=a later duplicate triple %s of %s carries a memoised class", line, (char*)t->name, raw_name(T));
  }
}

static void white_reset(var T) {
  for (int i = 0; i < RAW_CACHE_WORDS; i++) ((var*)T)[i] = NULL;
  for (struct Type* t = raw_first(T); t->name; t++) t->cls = NULL;
}

/* ---- life cycle of run-time types ---- */
enum { RAW_CELLS = RAW_FIRST + 256 + 1, MAXGC = 64 };      /* cells of the storage Type_Alloc reserves (own constant) */
static var* gckeep = NULL;                                  /* stack slots of main: GC-managed types stay reachable */
static Cell decoy_cell;
static const char* junk_names[12] = { "Hash", "Len", "Size", "Show", "Cmp", "New", "Iter", "Get", "Cast", "Alloc", "C_Str", "Push" };

static var decoy_inst(void) {
  if (!decoy_cell.h.type) { header_init(&decoy_cell.h, Hash, AllocStatic); for (int k = 0; k < CELLW; k++) decoy_cell.m[k] = (var)probe_member; }
  return decoy_cell.m;
}
/* caller-provided storage of the size Type_Alloc uses, every word junk: the cache words hold a decoy instance, every cell a
   decoy triple with the name of a real class (a missing terminator or an uncleared cache word then answers with the decoy) */
static var junk_storage(void) {
  struct Header* head = malloc(sizeof(struct Header) + sizeof(struct Type) * RAW_CELLS);
  var self = header_init(head, Type, AllocHeap);
  var* w = self;
  for (int i = 0; i < RAW_CACHE_WORDS; i++) w[i] = decoy_inst();
  for (int j = RAW_CACHE_WORDS / 3; j < RAW_CELLS; j++) {
    w[3*j] = (j % 2) ? resolve_sym(junk_names[j % 12]) : NULL; w[3*j+1] = (var)junk_names[j % 12]; w[3*j+2] = decoy_inst();
  }
  return self;
}
/* a harness-owned arena: slots of exactly the size Type_Alloc reserves; a released slot is handed out again first */
enum { NSLOT = 8 };
static struct { struct Header h; struct Type cells[RAW_CELLS]; } arena[NSLOT];
static int arena_used[NSLOT];
static void junk_fill(var self) {
  var* w = self;
  for (int i = 0; i < RAW_CACHE_WORDS; i++) w[i] = decoy_inst();
  for (int j = RAW_CACHE_WORDS / 3; j < RAW_CELLS; j++) {
    w[3*j] = (j % 2) ? resolve_sym(junk_names[j % 12]) : NULL; w[3*j+1] = (var)junk_names[j % 12]; w[3*j+2] = decoy_inst();
  }
}
static int arena_free_slot(void) { for (int i = 0; i < NSLOT; i++) if (!arena_used[i]) return i; return -1; }
static var arena_storage(int slot) {
  var self = header_init(&arena[slot].h, Type, AllocStatic);
  junk_fill(self);
  return self;
}
static int raw_tail_nonnull(var T) {
  int c = 0; var* w = T;
  for (size_t i = 3 * (size_t)(RAW_FIRST + raw_count(T) + 1); i < 3 * (size_t)RAW_CELLS; i++) if (w[i]) c++;
  return c;
}
/* after a successful construction: every cache word and every memoised class pointer NULL, __Name/__Size cells as given.
   A cache word that is not NULL is first shown for what it does to the property: the oracle itself looks the slot's class
   up (type_instance) and compares the answer with the declaration in force (only on this failing path: the lookup may
   write cache/memo words, which the model does not mirror). */
static int row_first_for(TH* h, var cls);
static int check_fresh(TH* h, var T, const char* name, long size, size_t line) {
  int ok = 1;
  for (int i = 0; i < RAW_CACHE_WORDS; i++) {
    if (!((var*)T)[i]) continue;
    for (int g = 0; g < ngslot; g++) {
      if (gslot[g].idx != i) continue;
      var cls = resolve_sym(gslot[g].name); if (!cls) continue;
      var got = type_instance(T, cls); int er = row_first_for(h, cls);
      if (raw_index(T, got) != er) X("sig=disp-instance-decl line=%zu what=right after its construction type_instance(%s, %s) gave %s, the declaration in force has its first %s triple at %d (cache word %d was not cleared)", line, name, gslot[g].name, got ? (raw_index(T, got) >= 0 ? "another triple" : "an instance the type does not declare") : "NULL", gslot[g].name, er, i);
    }
    X("sig=disp-construct-state line=%zu what=cache word %d of the just constructed type %s is not NULL", line, i, name); ok = 0;
  }
  for (struct Type* t = raw_first(T); t->name; t++) if (t->cls) { X("sig=disp-construct-state line=%zu what=triple %s of the just constructed type %s carries a memoised class", line, (char*)t->name, name); ok = 0; }
  struct Type* b = (struct Type*)T + RAW_NAME_ENTRY;
  if (!b[0].name || strcmp((char*)b[0].name, "__Name") != 0 || !b[0].inst || strcmp((char*)b[0].inst, name) != 0) { X("sig=disp-construct-state line=%zu what=the __Name cell of the just constructed type %s is wrong", line, name); ok = 0; }
  if (!b[1].name || strcmp((char*)b[1].name, "__Size") != 0 || b[1].inst != (var)(uintptr_t)size) { X("sig=disp-construct-state line=%zu what=the __Size cell of the just constructed type %s is wrong", line, name); ok = 0; }
  return ok;
}

/* split a line into tokens (in place) */
static int split(char* l, char** tok, int max) {
  int n = 0; char* p = l;
  while (*p && n < max) { while (*p == ' ') p++; if (!*p) break; tok[n++] = p; while (*p && *p != ' ') p++; if (*p) *p++ = 0; }
  return n;
}

/* the name string of a type object is BORROWED by every triple that lists it as a class (Type_New stores c_str(type_of(ins))):
   name strings are never freed, they are parked here */
static char** parked = NULL; static size_t nparked = 0;
static void park(char* p) { if (!p) return; parked = realloc(parked, (nparked + 1) * sizeof(char*)); parked[nparked++] = p; }
static void free_type(TH* h) {
  /* run-time types: the type object and its instance cells are kept (a type abandoned by `T`/`N` on a live tid stays a valid object) */
  for (int i = 0; i < h->n; i++) { free(h->rname[i]); free(h->rflags[i]); if (h->rcname) free(h->rcname[i]); }
  free(h->rname); free(h->rflags); free(h->rcname); free(h->obj); park(h->tname);
  memset(h, 0, sizeof *h);
}

static int parse_row(TH* h, char** tok, int n) {
  h->n = n; h->rname = calloc(n + 1, sizeof(char*)); h->rflags = calloc(n + 1, sizeof(char*));
  for (int i = 0; i < n; i++) {
    char* c = strrchr(tok[i], ':'); if (!c) return 0;
    *c = 0; h->rname[i] = strdup(tok[i]); h->rflags[i] = strdup(c + 1); *c = ':';
    for (char* f = h->rflags[i]; *f; f++) if (*f != '0' && *f != '1') return 0;
    if (strlen(h->rflags[i]) > CELLW) return 0;
  }
  return 1;
}

static void make_obj(TH* h) {
  h->obj = calloc(1, sizeof(ObjBlk));
  header_init(&h->obj->h, h->type, AllocStatic);
}

/* compare the raw record with the declared row */
static int record_matches(TH* h, size_t line, int classnames_are_tokens) {
  var T = h->type; int ok = 1;
  if (raw_count(T) != h->n) { X("sig=disp-record line=%zu what=type %s has %d triples, declaration has %d", line, raw_name(T), raw_count(T), h->n); return 0; }
  int i = 0;
  for (struct Type* t = raw_first(T); t->name; t++, i++) {
    const char* want = h->rname[i];
    if (classnames_are_tokens) { if (h->rcname) want = h->rcname[i]; else { var c = resolve_cls(want); want = c ? raw_name(c) : "?"; } }
    if (strcmp((const char*)t->name, want) != 0) { X("sig=disp-record line=%zu what=triple %d of %s is named %s, declaration says %s", line, i, raw_name(T), (char*)t->name, want); ok = 0; continue; }
    if (!t->inst) { X("sig=disp-record line=%zu what=triple %d of %s has a NULL instance", line, i, raw_name(T)); ok = 0; continue; }
    for (size_t k = 0; k < strlen(h->rflags[i]); k++) {
      int nn = ((var*)t->inst)[k] != NULL;
      if (nn != (h->rflags[i][k] == '1')) { X("sig=disp-record line=%zu what=member %zu of %s.%s is %s, declaration says otherwise", line, k, raw_name(T), want, nn ? "set" : "NULL"); ok = 0; }
    }
  }
  return ok;
}

/* build the instance cells of h's row and run one construction. how: 0 new_raw_with, 1 new_root_with, 2 new_with,
   3 alloc_raw + construct_with, 4 construct_with on junk storage, 5 destruct + construct_with IN PLACE on T. */
static var construct_type(int how, var T, TH* h, Cell* cells, const char* name, long size, var* excp) {
  var* items = calloc(h->n + 3, sizeof(var));
  items[0] = $S((char*)name); items[1] = $I(size);
  h->rcname = calloc(h->n + 1, sizeof(char*));
  for (int i = 0; i < h->n; i++) {
    h->rcname[i] = strdup(raw_name(resolve_cls(h->rname[i])));        /* the name Type_New stores: c_str(type_of(ins)) now */
    var ins = header_init(&cells[i].h, resolve_cls(h->rname[i]), AllocStatic);
    for (size_t k = 0; k < strlen(h->rflags[i]); k++) cells[i].m[k] = h->rflags[i][k] == '1' ? next_probe() : NULL;
    items[2 + i] = ins;
  }
  items[2 + h->n] = Terminal;
  var exc = NULL; var volatile R = T; var args = $(Tuple, items);
  switch (how) {
  case 0: V_TRY(exc, R = new_raw_with(Type, args)); break;
  case 1: V_TRY(exc, R = new_root_with(Type, args)); break;
  case 2: V_TRY(exc, R = new_with(Type, args)); break;
  case 3: R = alloc_raw(Type); V_TRY(exc, construct_with(R, args)); if (exc) { dealloc_raw(R); R = NULL; } break;
  case 4: R = junk_storage(); V_TRY(exc, construct_with(R, args)); if (exc) { free((char*)R - sizeof(struct Header)); R = NULL; } break;
  case 6: R = arena_storage(h->aslot); V_TRY(exc, construct_with(R, args)); if (exc) R = NULL; break;
  case 7: pool_on = 1; V_TRY(exc, R = new_raw_with(Type, args)); pool_on = 0; break;
  default: V_TRY(exc, { destruct(R); construct_with(R, args); }); break;
  }
  free(items);
  *excp = exc;
  return exc && how != 5 ? NULL : R;
}

static void fmt_res(char* buf, size_t n, var T, var exc, var got) {
  if (exc) { snprintf(buf, n, "%s", v_exc_name(exc)); return; }
  int ix = raw_index(T, got);
  if (ix == -1) snprintf(buf, n, "NULL"); else if (ix == -2) snprintf(buf, n, "?"); else snprintf(buf, n, "#%d", ix);
}

static int row_first_for(TH* h, var cls) {
  if (h->kind != 3) return row_first(h, decl_name(cls));
  for (int i = 0; i < h->n; i++) {
    if (h->rcname) { if (strcmp(h->rcname[i], decl_name(cls)) == 0) return i; }
    else { var c = resolve_cls(h->rname[i]); if (c && strcmp(decl_name(c), decl_name(cls)) == 0) return i; }
  }
  return -1;
}
static int row_member(TH* h, int i, int k) { return (i >= 0 && k >= 0 && (size_t)k < strlen(h->rflags[i])) ? h->rflags[i][k] == '1' : 0; }

/* ---- threads ---- */
typedef struct { TH* h; int id, nthreads, rounds, ncls; var* cls; var* want; int* wantm0; long bad; long done; pthread_barrier_t* ba; pthread_barrier_t* bb; } TArg;
static void* thread_main(void* p) {
  TArg* a = p; var T = a->h->type;
  for (int r = 0; r < a->rounds; r++) {
    pthread_barrier_wait(a->ba);
    if (a->id == 0) white_reset(T);
    pthread_barrier_wait(a->bb);
    for (int j = 0; j < a->ncls; j++) {
      int c = ((a->id & 1) ? (a->ncls - 1 - j) : j);
      c = (c + a->id / 2 + r) % a->ncls;
      var got = type_instance(T, a->cls[c]);
      if (got != a->want[c]) a->bad++;
      if (type_implements(T, a->cls[c]) != (a->want[c] != NULL)) a->bad++;
      if (type_implements_method_at_offset(T, a->cls[c], 0) != (a->want[c] != NULL && a->wantm0[c])) a->bad++;
      if (a->want[c] != NULL && a->wantm0[c]) { if (type_method_at_offset(T, a->cls[c], 0, "m0") != a->want[c]) a->bad++; }
      got = type_instance(T, a->cls[c]);            /* warm */
      if (got != a->want[c]) a->bad++;
      a->done++;
    }
  }
  return NULL;
}

/* ---- threaded stress on cold copies (op U) ---- */
#include <sched.h>
#include <time.h>
typedef struct { volatile int count; volatile int sense; int n; } SpinBar;
static void spin_wait(SpinBar* b, int* local) {
  *local = !*local;
  if (__atomic_add_fetch(&b->count, 1, __ATOMIC_ACQ_REL) == b->n) { __atomic_store_n(&b->count, 0, __ATOMIC_RELAXED); __atomic_store_n(&b->sense, *local, __ATOMIC_RELEASE); }
  else { int spins = 0; while (__atomic_load_n(&b->sense, __ATOMIC_ACQUIRE) != *local) { if (++spins > 4000) { sched_yield(); spins = 0; } } }
}
static long long mono_ns(void) { struct timespec ts; clock_gettime(CLOCK_MONOTONIC, &ts); return (long long)ts.tv_sec * 1000000000LL + ts.tv_nsec; }
typedef struct { int thread, round, cls, route; var got; } UBad;
typedef struct {
  int nth, rounds, nc; unsigned seed; var* cls;
  var volatile* copy;            /* the cold copy of this round */
  var* want; int* wm0;            /* per class: the raw by-name answer, member 0 non-NULL */
  SpinBar go, done; volatile int quit;
  long long* t0; long long* t1;   /* per thread: the lookup phase of this round */
  long* bad; UBad* first;         /* per thread */
  volatile int round; volatile int reported; size_t line; const char* tname;
} UShared;
typedef struct { UShared* u; int id; } UArg;
static unsigned u_mix(unsigned x) { x ^= x >> 16; x *= 0x7feb352dU; x ^= x >> 15; x *= 0x846ca68bU; x ^= x >> 16; return x; }
static pthread_mutex_t stress_mx = PTHREAD_MUTEX_INITIALIZER;
/* the first wrong answer of an op is reported at once, from the thread that saw it (a wrong NULL makes type_method raise, and an
   exception in a foreign thread ends the process) */
static void stress_report(UShared* u, UBad* f, var C) {
  pthread_mutex_lock(&stress_mx);
  if (!u->reported) {
    u->reported = 1; const char* other = NULL;
    for (int c = 0; c < u->nc; c++) if (f->route != 1 && f->got && f->got == u->want[c] && c != f->cls) { other = raw_name(u->cls[c]); break; }
    static const char* rn[3] = { "type_instance", "type_implements", "type_method/type_implements_method" };
    int isptr = f->route == 0 || (f->route == 2 && f->got != (var)1 && f->got != NULL) || (f->route == 2 && u->want[f->cls] && u->wm0[f->cls]);
    X("sig=disp-thread-stress line=%zu what=round %d, %d threads on a cold copy of %s: thread %d asked %s for class %s and got %s%s%s; the declaration's first triple of that name is %d (declaration scanned by name before the threads started)",
      u->line, f->round, u->nth, u->tname, f->thread, rn[f->route], raw_name(u->cls[f->cls]),
      isptr ? (f->got ? (raw_index(C, f->got) >= 0 ? "the instance of another triple" : "an instance the type does not declare") : "NULL") : (f->got ? "true" : "false"),
      other ? ", which is what the type declares for class " : "", other ? other : "", raw_index(C, u->want[f->cls]));
    fflush(vout);
  }
  pthread_mutex_unlock(&stress_mx);
}
static void* stress_main(void* p) {
  UArg* a = p; UShared* u = a->u; int sg = 0, sd = 0; int j = a->id;
  for (;;) {
    spin_wait(&u->go, &sg);
    if (u->quit) break;
    var T = *u->copy; int r = u->round; int nc = u->nc;
    /* every thread starts with a different class (as long as there are at least as many classes as threads) */
    unsigned start = (u_mix(u->seed + 977u * (unsigned)r) + (unsigned)j * (unsigned)(nc / u->nth > 0 ? nc / u->nth : 1)) % (unsigned)nc;
    unsigned stride = 1; if (nc > 2) { stride = 1 + u_mix(u->seed ^ (unsigned)(r * 31 + 7)) % (unsigned)(nc - 1); while (nc % stride == 0 && stride > 1) stride--; }
    long long t0 = mono_ns();
    for (int s = 0; s < nc; s++) {
      int c = (int)((start + (unsigned)s * stride) % (unsigned)nc);
      for (int q = 0; q < 3; q++) {
        int route = (q + j + s) % 3; var got = NULL; int ok = 1;
        if (route == 0) { got = type_instance(T, u->cls[c]); ok = got == u->want[c]; }
        else if (route == 1) { bool b = type_implements(T, u->cls[c]); got = b ? (var)1 : NULL; ok = b == (u->want[c] != NULL); }
        else if (u->want[c] && u->wm0[c]) { got = type_method_at_offset(T, u->cls[c], 0, "m0"); ok = got == u->want[c]; }
        else { bool b = type_implements_method_at_offset(T, u->cls[c], 0); got = b ? (var)1 : NULL; ok = b == (u->want[c] != NULL && u->wm0[c]); }
        if (!ok) { if (!u->bad[j]) { u->first[j] = (UBad){ j, r, c, route, got }; stress_report(u, &u->first[j], T); } u->bad[j]++; }
      }
    }
    u->t0[j] = t0; u->t1[j] = mono_ns();
    spin_wait(&u->done, &sd);
  }
  return NULL;
}
static long stress_rounds = 0, stress_overlap = 0, stress_ops = 0; static int stress_maxpar = 0;

int main(int argc, char** argv) {
  var volatile gcslots[MAXGC]; for (int g = 0; g < MAXGC; g++) gcslots[g] = NULL;
  gckeep = (var*)gcslots;
  v_init();
  if (argc < 2) { fprintf(stderr, "usage: h_disp <opfile>\n"); return 2; }
  size_t n; char** lines = v_read_lines(argv[1], &n);
  size_t nops = 0, nlook = 0;
  static char* tok[MAXROW + 8];
  char rb[64]; var exc;
  for (size_t li = 0; li < n; li++) {
    char* l = lines[li];
    if (v_skippable(l)) continue;
    int nt = split(l, tok, MAXROW + 8);
    if (nt == 0) continue;
    nops++;
    const char* op = tok[0];
    size_t line = li + 1;
    if (strlen(op) != 1) { O("bad-op"); continue; }
    switch (op[0]) {
    case 'G': {
      ngslot = 0; int ok = 1;
      for (int i = 1; i < nt && ngslot < 64; i++) {
        char* c = strchr(tok[i], ':'); if (!c) { ok = 0; break; }
        gslot[ngslot].idx = atoi(tok[i]); snprintf(gslot[ngslot].name, sizeof gslot[ngslot].name, "%s", c + 1); ngslot++;
      }
      if (!ok) { ngslot = 0; O("bad-op"); break; }
      O("G n=%d ok", ngslot);
    } break;
    case 'C': {
      if (nt != 3) { O("bad-op"); break; }
      int k = atoi(tok[1]); if (k < 0 || k >= MAXC || rcls[k].cls) { O("bad-op"); break; }
      char* np; if (!name_tok(tok[2], &np)) { O("bad-op"); break; }
      rcls[k].name = strdup(np ? np : tok[2]);
      rcls[k].cls = new_raw(Type, $S(np ? np : rcls[k].name), $I(0));
      O("C %d", k);
    } break;
    case 'B': case 'S': {
      if (nt < 3 || nt - 3 > MAXROW) { O("bad-op"); break; }
      int tid = atoi(tok[1]); if (tid < 0 || tid >= MAXT) { O("bad-op"); break; }
      var T = resolve_sym(tok[2]); if (!T) { O("bad-op"); break; }
      TH nh; memset(&nh, 0, sizeof nh);
      if (!parse_row(&nh, tok + 3, nt - 3)) { free_type(&nh); O("bad-op"); break; }
      TH* h = &th[tid]; if (h->kind == 3) { var old = h->type; h->kind = 0; mark_dead(old); }
      free_type(h); *h = nh; if (tid >= tid_hi) tid_hi = tid + 1;
      h->kind = op[0] == 'B' ? 1 : 2; h->type = T; make_obj(h);
      int ok = record_matches(h, line, 0);
      if (strcmp(raw_name(T), tok[2]) != 0) { X("sig=disp-record line=%zu what=type object %s is named %s", line, tok[2], raw_name(T)); ok = 0; }
      if (h->kind == 2) { white_reset(T); ((struct Header*)((char*)T - sizeof(struct Header)))->type = NULL; }   /* the static initial state */
      O("%s %d n=%d %s%s", op, tid, h->n, ok ? "ok" : "bad", dump(h, 1));
      check_inv(h, line);
    } break;
    case 'T': {
      if (nt < 3 || nt - 3 > MAXROW) { O("bad-op"); break; }
      int tid = atoi(tok[1]); if (tid < 0 || tid >= MAXT) { O("bad-op"); break; }
      char* np; if (!name_tok(tok[2], &np)) { O("bad-op"); break; }
      TH nh; memset(&nh, 0, sizeof nh);
      if (!parse_row(&nh, tok + 3, nt - 3)) { free_type(&nh); O("bad-op"); break; }
      int bad = 0; for (int i = 0; i < nh.n; i++) if (!resolve_cls(nh.rname[i]) || (th[tid].kind == 3 && resolve_cls(nh.rname[i]) == th[tid].type)) bad = 1;
      if (bad) { free_type(&nh); O("bad-op"); break; }
      TH* h = &th[tid]; if (h->kind == 3) { var old = h->type; h->kind = 0; mark_dead(old); }   /* abandoned: as good as deleted */
      free_type(h); *h = nh; if (tid >= tid_hi) tid_hi = tid + 1;
      h->tname = strdup(np ? np : tok[2]);
      h->cells = calloc(h->n + 1, sizeof(Cell));
      var* items = calloc(h->n + 3, sizeof(var));
      items[0] = $S(np ? np : h->tname); items[1] = $I(0);
      h->rcname = calloc(h->n + 1, sizeof(char*));
      for (int i = 0; i < h->n; i++) {
        h->rcname[i] = strdup(raw_name(resolve_cls(h->rname[i])));
        var ins = header_init(&h->cells[i].h, resolve_cls(h->rname[i]), AllocStatic);
        for (size_t k = 0; k < strlen(h->rflags[i]); k++) h->cells[i].m[k] = h->rflags[i][k] == '1' ? next_probe() : NULL;
        items[2 + i] = ins;
      }
      items[2 + h->n] = Terminal;
      var T = NULL;
      V_TRY(exc, T = new_raw_with(Type, $(Tuple, items)));
      free(items);
      if (exc) {
        if (exc != OutOfMemoryError || h->n <= 256) X("sig=disp-typenew line=%zu what=creating a type with %d instances raised %s", line, h->n, v_exc_name(exc));
        O("T %d n=%d %s", tid, h->n, v_exc_name(exc)); free(h->cells); h->kind = 0; free_type(h); break;
      }
      if (h->n > 256) X("sig=disp-typenew line=%zu what=a type with %d instances (> CELLO_MAX_INSTANCES) was created", line, h->n);
      h->kind = 3; h->type = T; h->how = 0; h->tsize = 0; make_obj(h); mark_alive(T);
      int ok = record_matches(h, line, 1);
      if (strcmp(raw_name(T), h->tname) != 0) { X("sig=disp-record line=%zu what=run-time type is named %s, wanted %s", line, raw_name(T), h->tname); ok = 0; }
      if (!check_fresh(h, T, h->tname, 0, line)) ok = 0;
      O("T %d n=%d %s%s", tid, h->n, ok ? "ok" : "bad", dump(h, 1));
      check_inv(h, line);
    } break;
    case 'N': case 'W': {
      /* N <tid> <mode> <name> <size> row…   |   W <tid> <name> <size> row… */
      int isN = op[0] == 'N'; int first = isN ? 5 : 4;
      if (nt < first || nt - first > MAXROW) { O("bad-op"); break; }
      int tid = atoi(tok[1]); if (tid < 0 || tid >= MAXT) { O("bad-op"); break; }
      int how = 5;
      if (isN) {
        const char* m = tok[2];
        how = !strcmp(m, "raw") ? 0 : !strcmp(m, "root") ? 1 : !strcmp(m, "gc") ? 2 : !strcmp(m, "alloc") ? 3 : !strcmp(m, "junk") ? 4 : !strcmp(m, "arena") ? 6 : !strcmp(m, "heap") ? 7 : -1;
        if (how < 0) { O("bad-op"); break; }
      } else if (th[tid].kind != 3) { O("bad-op"); break; }
      char* np; if (!name_tok(tok[first - 2], &np)) { O("bad-op"); break; }
      const char* name = np ? np : tok[first - 2]; long size = atol(tok[first - 1]);
      if (size < 0 || size > 1000000 || strspn(tok[first - 1], "0123456789") != strlen(tok[first - 1])) { O("bad-op"); break; }
      TH nh; memset(&nh, 0, sizeof nh);
      if (!parse_row(&nh, tok + first, nt - first)) { free_type(&nh); O("bad-op"); break; }
      int bad = 0; for (int i = 0; i < nh.n; i++) if (!resolve_cls(nh.rname[i]) || (th[tid].kind == 3 && resolve_cls(nh.rname[i]) == th[tid].type)) bad = 1;
      int gcslot = -1, aslot = -1;
      if (how == 6) { aslot = arena_free_slot(); if (aslot < 0) bad = 1; }
      if (how == 7 && !pool_available()) bad = 1;
      if (how == 2) { for (int g = 0; g < MAXGC; g++) if (!gckeep[g]) { gcslot = g; break; } if (gcslot < 0) bad = 1; }
      if (bad) { free_type(&nh); O("bad-op"); break; }
      TH* h = &th[tid];
      Cell* cells = calloc(nh.n + 1, sizeof(Cell));
      char* tname = strdup(name);
      if (isN) {
        if (h->kind == 3) { var old = h->type; h->kind = 0; mark_dead(old); }          /* abandoned: as good as deleted */
        free_type(h);
        nh.aslot = aslot;
        void* lastfree = pool_last_freed; int hadfree = pool_nfree > 0;
        var T = construct_type(how, NULL, &nh, cells, np ? np : tname, size, &exc);
        if (how == 7) {
          n_heap++;
          /* verified on the addresses themselves: the new type object lies on a block that held a deleted type object before */
          if (hadfree) { n_heap_after_free++; if (T && in_pool(T) && pool_last_from_stack) n_recycled++; if (T && (char*)T - sizeof(struct Header) == (char*)lastfree) n_just_freed++; }
          if (T && !in_pool(T)) X("sig=disp-harness line=%zu what=Type_Alloc did not take its block from calloc in the expected size: mode heap cannot steer the address", line);
        }
        if (exc) {
          if (exc != OutOfMemoryError || nh.n <= 256) X("sig=disp-typenew line=%zu what=creating a type with %d instances raised %s", line, nh.n, v_exc_name(exc));
          O("N %d n=%d %s", tid, nh.n, v_exc_name(exc)); free_type(&nh); free(cells); free(tname); break;
        }
        if (nh.n > 256) X("sig=disp-typenew line=%zu what=a type with %d instances (> CELLO_MAX_INSTANCES) was created", line, nh.n);
        *h = nh; h->kind = 3; h->type = T; h->cells = cells; h->tname = tname; h->how = how; h->tsize = size; h->gcslot = gcslot;
        if (how == 2) gckeep[gcslot] = T;
        if (how == 6) arena_used[aslot] = 1;
        if (tid >= tid_hi) tid_hi = tid + 1;
        mark_alive(T);                 /* an address that held a deleted type object before: its __Name has changed */
        make_obj(h);
      } else {
        var T = h->type;
        size_t bytes = sizeof(struct Type) * RAW_CELLS; void* snap = malloc(bytes); memcpy(snap, T, bytes);
        int hdr0 = raw_hdr(T);
        construct_type(5, T, &nh, cells, np ? np : tname, size, &exc);
        if (exc) {
          /* refused: the declaration in force stays the old one and no word of the storage may have changed */
          if (exc != OutOfMemoryError || nh.n <= 256) X("sig=disp-typenew line=%zu what=re-constructing a type with %d instances raised %s", line, nh.n, v_exc_name(exc));
          if (memcmp(snap, T, bytes) != 0 || raw_hdr(T) != hdr0) X("sig=disp-construct-refused line=%zu what=a refused re-construction of %s changed the type object", line, raw_name(T));
          int okr = row_dirty(h) ? 1 : record_matches(h, line, 1);
          O("W %d n=%d %s %s%s z=%d", tid, nh.n, v_exc_name(exc), okr ? "ok" : "bad", dump(h, 1), raw_tail_nonnull(T));
          check_inv(h, line);
          free(snap); free_type(&nh); free(cells); free(tname); break;
        }
        free(snap);
        if (nh.n > 256) X("sig=disp-typenew line=%zu what=a type was re-constructed with %d instances (> CELLO_MAX_INSTANCES)", line, nh.n);
        /* the new declaration is in force; the old instance cells stay allocated (a stale cache word must not dangle) */
        if (strcmp(h->tname, tname) != 0) mark_changed(T);
        for (int i = 0; i < h->n; i++) { free(h->rname[i]); free(h->rflags[i]); if (h->rcname) free(h->rcname[i]); }
        free(h->rname); free(h->rflags); free(h->rcname); park(h->tname);
        h->n = nh.n; h->rname = nh.rname; h->rflags = nh.rflags; h->rcname = nh.rcname; h->cells = cells; h->tname = tname; h->tsize = size;
      }
      var T = h->type;
      int ok = record_matches(h, line, 1);
      if (strcmp(raw_name(T), h->tname) != 0) { X("sig=disp-record line=%zu what=run-time type is named %s, wanted %s", line, raw_name(T), h->tname); ok = 0; }
      if (!check_fresh(h, T, h->tname, h->tsize, line)) ok = 0;
      if (!raw_hdr(T)) { X("sig=disp-construct-state line=%zu what=the header of the run-time type %s does not name Type", line, h->tname); ok = 0; }
      O("%s %d n=%d %s%s z=%d", op, tid, h->n, ok ? "ok" : "bad", dump(h, 1), raw_tail_nonnull(T));
      check_inv(h, line);
    } break;
    case 'X': {
      if (nt != 2) { O("bad-op"); break; }
      int tid = atoi(tok[1]); if (tid < 0 || tid >= MAXT || th[tid].kind != 3) { O("bad-op"); break; }
      TH* h = &th[tid]; var T = h->type;
      if (h->how == 1) V_TRY(exc, del_root(T)); else if (h->how == 2) { V_TRY(exc, del(T)); gckeep[h->gcslot] = NULL; }
      else if (h->how == 6) { V_TRY(exc, destruct(T)); arena_used[h->aslot] = 0; }     /* caller-owned storage: destruct, then the slot is free again */
      else V_TRY(exc, del_raw(T));
      if (exc) X("sig=disp-del line=%zu what=deleting the run-time type raised %s", line, v_exc_name(exc));
      h->kind = 0; mark_dead(T);
      park((char*)h->cells); free_type(h);      /* the instance objects outlive the type: a remembered instance pointer must not dangle */
      O("X %d %s", tid, v_exc_name(exc));
    } break;
    case 'Y': {
      if (nt != 3) { O("bad-op"); break; }
      int tid = atoi(tok[1]); if (tid < 0 || tid >= MAXT || !th[tid].kind) { O("bad-op"); break; }
      int iscopy = !strcmp(tok[2], "copy"); if (!iscopy && strcmp(tok[2], "assign") != 0) { O("bad-op"); break; }
      if (!th[0].kind || th[0].type != Type) { O("bad-op"); break; }
      TH* h = &th[tid]; var T = h->type; var got = NULL;
      size_t bytes = h->kind == 3 ? sizeof(struct Type) * RAW_CELLS : 0; void* snap = NULL;
      if (bytes) { snap = malloc(bytes); memcpy(snap, T, bytes); }
      if (iscopy) V_TRY(exc, got = copy(T)); else V_TRY(exc, got = assign(T, T));
      (void)got;
      if (exc != ValueError) X("sig=disp-type-%s line=%zu what=%s of the type object %s gave %s instead of ValueError", tok[2], line, tok[2], raw_name(T), v_exc_name(exc));
      if (bytes && memcmp(snap, T, bytes) != 0) X("sig=disp-type-%s line=%zu what=the refused %s changed the type object %s", tok[2], line, tok[2], raw_name(T));
      free(snap);
      O("Y %s %s%s", tok[2], v_exc_name(exc), dump(h, 1));
      check_inv(h, line);
    } break;
    case 'R': case 'D': {
      if (nt != 2) { O("bad-op"); break; }
      int tid = atoi(tok[1]); if (tid < 0 || tid >= MAXT || !th[tid].kind) { O("bad-op"); break; }
      if (op[0] == 'R') white_reset(th[tid].type);
      O("%s%s", op, dump(&th[tid], 1));
    } break;
    case 'I': case 'P': case 'M': case 'Q': case 'i': case 'p': case 'm': case 'q': case 'J': {
      int needk = (op[0] == 'M' || op[0] == 'Q' || op[0] == 'm' || op[0] == 'q');
      if (nt != (needk ? 4 : 3)) { O("bad-op"); break; }
      int tid = atoi(tok[1]); if (tid < 0 || tid >= MAXT || !th[tid].kind) { O("bad-op"); break; }
      var cls = resolve_cls(tok[2]); if (!cls) { O("bad-op"); break; }
      int k = needk ? atoi(tok[3]) : 0; if (k < 0 || k >= CELLW) { O("bad-op"); break; }
      TH* h = &th[tid]; var T = h->type; var self = h->obj->body;
      if (op[0] == 'J') {
        /* the lookup happens in Type's own record: tid 0 must be bound to Type */
        if (!th[0].kind || th[0].type != Type) { O("bad-op"); break; }
        var got = NULL; V_PLAIN(exc, got = instance(T, cls));
        fmt_res(rb, sizeof rb, Type, exc, got);
        int er = row_first_for(&th[0], cls), rr = raw_index(Type, raw_scan_name(Type, raw_name(cls)));
        int gi = exc ? -3 : raw_index(Type, got);
        if (gi != er) X("sig=disp-instance-decl line=%zu what=instance(<type object>, %s) gave %s, Type declares triple %d", line, tok[2], rb, er);
        if (gi != rr) X("sig=disp-instance-raw line=%zu what=instance(<type object>, %s) gave %s, raw scan of Type finds triple %d", line, tok[2], rb, rr);
        if (!raw_hdr(T)) X("sig=disp-typeof line=%zu what=type_of left the header type word of a type object NULL", line);
        O("J %s%s", rb, dump(h, 1)); check_inv(h, line); check_inv(&th[0], line); nlook++;
        break;
      }
      int er, rr; er = row_first_for(h, cls); rr = raw_index(T, raw_scan_name(T, raw_name(cls)));
      if (needk && er >= 0 && (size_t)k >= strlen(h->rflags[er])) { O("bad-op"); break; }   /* a read outside the instance struct: never executed */
      /* KF-C08-class-memo-stale: a triple memoises the ADDRESS of this class object but does not carry its current name */
      int stale = 0;
      if (is_changed(cls))        /* only a class object whose name was REWRITTEN since (renamed in place, or a new object on a deleted one's address) */
        for (struct Type* t = raw_first(T); t->name; t++) if (t->cls == cls && strcmp((const char*)t->name, raw_name(cls)) != 0) stale = 1;
      int borrowed = borrowed_territory(h, cls);
#define SIG(s) (stale ? "KF-C08-class-memo-stale" : borrowed ? "KF-C08-borrowed-name" : (s))
      long inv0 = invoked;
      if (op[0] == 'I' || op[0] == 'i') {
        var got = NULL;
        if (op[0] == 'I') V_PLAIN(exc, got = type_instance(T, cls)); else V_PLAIN(exc, got = instance(self, cls));
        fmt_res(rb, sizeof rb, T, exc, got);
        int gi = exc ? -3 : raw_index(T, got);
        if (gi != er) X("sig=%s line=%zu what=%s(%s, %s) gave %s, the declaration's first %s triple is %d", SIG("disp-instance-decl"), line, op[0] == 'I' ? "type_instance" : "instance", raw_name(T), tok[2], rb, raw_name(cls), er);
        if (gi != rr) X("sig=%s line=%zu what=%s(%s, %s) gave %s, a raw scan of the record finds triple %d", SIG("disp-instance-raw"), line, op[0] == 'I' ? "type_instance" : "instance", raw_name(T), tok[2], rb, rr);
      } else if (op[0] == 'P' || op[0] == 'p') {
        bool b = false;
        if (op[0] == 'P') V_PLAIN(exc, b = type_implements(T, cls)); else V_PLAIN(exc, b = implements(self, cls));
        if (exc) snprintf(rb, sizeof rb, "%s", v_exc_name(exc)); else snprintf(rb, sizeof rb, "%d", (int)b);
        if (exc || b != (er >= 0) || b != (rr >= 0)) X("sig=%s line=%zu what=implements(%s, %s) gave %s, declared triple %d raw %d", SIG("disp-implements"), line, raw_name(T), tok[2], rb, er, rr);
      } else if (op[0] == 'M' || op[0] == 'm') {
        var got = NULL;
        if (op[0] == 'M') V_TRY(exc, got = type_method_at_offset(T, cls, k * sizeof(var), "probe"));
        else V_TRY(exc, got = method_at_offset(self, cls, k * sizeof(var), "probe"));
        fmt_res(rb, sizeof rb, T, exc, got);
        int want_ok = er >= 0 && row_member(h, er, k);
        int raw_ok = rr >= 0 && ((var*)raw_first(T)[rr].inst)[k] != NULL;
        if (want_ok != raw_ok) X("sig=%s line=%zu what=member %d of %s.%s: declaration and record disagree", SIG("disp-record"), line, k, raw_name(T), tok[2]);
        if (want_ok) { if (exc || raw_index(T, got) != er) X("sig=%s line=%zu what=method lookup %s.%s[%d] gave %s, declared triple %d", SIG("disp-method"), line, raw_name(T), tok[2], k, rb, er); }
        else if (exc == FormatError && (T == Terminal || cls == Terminal)) X("sig=KF-C08-terminal-message line=%zu what=method lookup of the absent %s.%s[%d] raised FormatError instead of ClassError: Terminal among the message arguments ends the argument tuple", line, raw_name(T), tok[2], k);
        else if (exc != ClassError) X("sig=%s line=%zu what=method lookup of the absent %s.%s[%d] gave %s instead of ClassError", SIG("disp-classerror"), line, raw_name(T), tok[2], k, rb);
      } else {
        bool b = false;
        if (op[0] == 'Q') V_PLAIN(exc, b = type_implements_method_at_offset(T, cls, k * sizeof(var)));
        else V_PLAIN(exc, b = implements_method_at_offset(self, cls, k * sizeof(var)));
        if (exc) snprintf(rb, sizeof rb, "%s", v_exc_name(exc)); else snprintf(rb, sizeof rb, "%d", (int)b);
        int want = er >= 0 && row_member(h, er, k);
        int raw_ok = rr >= 0 && ((var*)raw_first(T)[rr].inst)[k] != NULL;
        if (exc || b != want || b != raw_ok) X("sig=%s line=%zu what=implements_method %s.%s[%d] gave %s, declared %d raw %d", SIG("disp-implements-method"), line, raw_name(T), tok[2], k, rb, want, raw_ok);
      }
      if (invoked != inv0) X("sig=disp-invoked line=%zu what=a member function was called by a lookup", line);
      O("%s %s%s", op, rb, dump(h, 1));
      check_inv(h, line); nlook++;
#undef SIG
    } break;
    case 'c': case 'd': case 'f': case 'g': {
      if (nt != 3) { O("bad-op"); break; }
      int tid = atoi(tok[1]); if (tid < 0 || tid >= MAXT || th[tid].kind != 3) { O("bad-op"); break; }
      Wrap* w = find_wrap(tok[2]); if (!w || !*w->cls) { O("bad-op"); break; }
      TH* h = &th[tid]; var T = h->type; var self = h->obj->body; var cls = *w->cls; int k = w->k;
      int er = row_first_for(h, cls), rr = raw_index(T, raw_scan_name(T, raw_name(cls)));
      if (er >= 0 && (size_t)k >= strlen(h->rflags[er])) { O("bad-op"); break; }             /* a read outside the instance struct: never executed */
      int want_ok = er >= 0 && row_member(h, er, k);
      int raw_ok = rr >= 0 && ((var*)raw_first(T)[rr].inst)[k] != NULL;
      if (op[0] == 'c' && w->soft && !want_ok) { O("bad-op"); break; }                         /* the default code of a soft function is not exercised */
      int borrowed = borrowed_territory(h, cls);
#define SIG2(s) (borrowed ? "KF-C08-borrowed-name" : (s))
      if (want_ok != raw_ok) X("sig=%s line=%zu what=member %d of %s.%s: declaration and record disagree", SIG2("disp-record"), line, k, raw_name(T), raw_name(cls));
      const char* how = op[0] == 'c' ? "the library function" : op[0] == 'd' ? "a method(...) call site" : op[0] == 'g' ? "a type_method(...) call site" : "an implements_method(...) call site";
      pf_calls = 0; pf_last = -1;
      if (op[0] == 'f') {
        int b = 0; V_PLAIN(exc, b = w->impl(self));
        snprintf(rb, sizeof rb, "%d", b);
        if (b != want_ok || b != raw_ok) X("sig=%s line=%zu what=implements_method(x, %s, %s) on a %s object gave %d, its type declares %d (raw record %d)", SIG2("disp-implements-method"), line, raw_name(cls), w->name, raw_name(T), b, want_ok, raw_ok);
        if (pf_calls) X("sig=disp-invoked line=%zu what=a member function was called by implements_method", line);
      } else {
        if (op[0] == 'c') V_TRY(exc, w->lib(self)); else if (op[0] == 'd') V_TRY(exc, w->site(self)); else V_TRY(exc, w->tsite(T, self));
        var fn = (pf_calls >= 1 && pf_last >= 0) ? (var)pf_tab[pf_last] : NULL;
        var wantfn = want_ok ? h->cells[er].m[k] : NULL;
        if (exc) snprintf(rb, sizeof rb, "%s", v_exc_name(exc));
        else if (pf_calls == 0) snprintf(rb, sizeof rb, "default");
        else if (pf_calls > 1) snprintf(rb, sizeof rb, "#multi");
        else if (want_ok && fn == wantfn) snprintf(rb, sizeof rb, "#%d", er);
        else {
          int ix = -1, i = 0; for (struct Type* t = raw_first(T); t->name; t++, i++) if (t->inst && ((var*)t->inst)[k] == fn) { ix = i; break; }
          if (ix >= 0) snprintf(rb, sizeof rb, "#%d", ix); else snprintf(rb, sizeof rb, "#?");
        }
        if (want_ok) {
          if (exc || pf_calls != 1 || fn != wantfn)
            X("sig=%s line=%zu what=%s %s (%s.%s) on an object of type %s: its type declares member %d of its first %s instance (triple %d), but %s%s", SIG2("disp-call"), line, how, w->name, raw_name(cls), w->name, raw_name(T), k, raw_name(cls), er,
              exc ? "it raised " : pf_calls == 0 ? "nothing was invoked" : pf_calls > 1 ? "several members were invoked" : "ANOTHER function was invoked: a member this type does not declare there (a deleted type's, or another triple's)", exc ? v_exc_name(exc) : "");
        } else {
          if (exc != ClassError || pf_calls != 0)
            X("sig=%s line=%zu what=%s %s (%s.%s) on an object of type %s, which %s: expected ClassError and nothing invoked, got %s with %ld member call(s)", SIG2("disp-call-classerror"), line, how, w->name, raw_name(cls), w->name, raw_name(T),
              er < 0 ? "declares no instance of the class" : "leaves the member NULL", exc ? v_exc_name(exc) : "no exception", (long)pf_calls);
        }
      }
      O("%s %s%s", op, rb, dump(h, 1));
      check_inv(h, line); nlook++;
#undef SIG2
    } break;
    case 'K': {
      if (nt != 3) { O("bad-op"); break; }
      int tid = atoi(tok[1]), tid2 = atoi(tok[2]);
      if (tid < 0 || tid >= MAXT || !th[tid].kind || tid2 < 0 || tid2 >= MAXT || !th[tid2].kind) { O("bad-op"); break; }
      TH* h = &th[tid]; var self = h->obj->body; var got = NULL; long inv0 = invoked;
      V_TRY(exc, got = cast(self, th[tid2].type));
      int ci = row_first_for(h, Cast); int custom = ci >= 0 && row_member(h, ci, 0);
      const char* res = exc ? v_exc_name(exc) : (invoked != inv0 ? "custom" : (got == self ? "self" : "other"));
      if (custom) { if (exc || invoked != inv0 + 1) X("sig=disp-cast line=%zu what=type with its own cast member: cast gave %s", line, res); }
      else {
        if (invoked != inv0) X("sig=disp-invoked line=%zu what=cast called a member although the type has no cast member", line);
        if (th[tid2].type == h->type) { if (exc || got != self) X("sig=disp-cast line=%zu what=cast to the object's own type gave %s", line, res); }
        else if (exc == FormatError && (h->type == Terminal || th[tid2].type == Terminal)) X("sig=KF-C08-terminal-message line=%zu what=cast between %s and %s raised FormatError instead of ValueError: Terminal among the message arguments ends the argument tuple", line, raw_name(h->type), raw_name(th[tid2].type));
        else if (exc != ValueError) X("sig=disp-cast line=%zu what=cast of a %s object to %s gave %s instead of ValueError", line, raw_name(h->type), raw_name(th[tid2].type), res);
      }
      O("K %s%s", res, dump(h, 1));
      check_inv(h, line); nlook++;
    } break;
    case 'k': {
      /* the type object itself is cast: its type is Type (tid 0 must be bound to Type), so only `cast(T, Type)` succeeds */
      if (nt != 3) { O("bad-op"); break; }
      int tid = atoi(tok[1]), tid2 = atoi(tok[2]);
      if (tid < 0 || tid >= MAXT || !th[tid].kind || tid2 < 0 || tid2 >= MAXT || !th[tid2].kind) { O("bad-op"); break; }
      if (!th[0].kind || th[0].type != Type) { O("bad-op"); break; }
      TH* h = &th[tid]; var T = h->type; var got = NULL; long inv0 = invoked;
      V_TRY(exc, got = cast(T, th[tid2].type));
      const char* res = exc ? v_exc_name(exc) : (got == T ? "self" : "other");
      if (invoked != inv0) X("sig=disp-invoked line=%zu what=cast of a type object called a member", line);
      if (th[tid2].type == Type) { if (exc || got != T) X("sig=disp-cast line=%zu what=cast(%s, Type) gave %s", line, raw_name(T), res); }
      else if (exc == FormatError && th[tid2].type == Terminal) X("sig=KF-C08-terminal-message line=%zu what=cast of the type object %s to Terminal raised FormatError instead of ValueError: Terminal among the message arguments ends the argument tuple", line, raw_name(T));
      else if (exc != ValueError) X("sig=disp-cast line=%zu what=cast of the type object %s (whose type is Type) to %s gave %s instead of ValueError", line, raw_name(T), raw_name(th[tid2].type), res);
      if (!raw_hdr(T)) X("sig=disp-typeof line=%zu what=type_of left the header type word of a type object NULL", line);
      O("k %s%s", res, dump(h, 1));
      check_inv(h, line); check_inv(&th[0], line); nlook++;
    } break;
    case 'E': {
      if (nt != 4) { O("bad-op"); break; }
      int tid = atoi(tok[2]); if (tid < 0 || tid >= MAXT || !th[tid].kind) { O("bad-op"); break; }
      var cls = resolve_cls(tok[3]); if (!cls) { O("bad-op"); break; }
      TH* h = &th[tid]; if (h->type == Type && strcmp(tok[1], "nontype") == 0) { O("bad-op"); break; }
      if (strcmp(tok[1], "nullcls") == 0) {
        /* NULL as the class (misuse, no oracle): Type_Scan's pointer loop matches the first triple whose cls word is NULL */
        var T = h->type; int cold = 0, nn = raw_count(T);
        for (struct Type* t = raw_first(T); t->name; t++) if (!t->cls) cold = 1;
        if (!cold && nn > 0) { O("E nullcls ub ub%s", dump(h, 1)); break; }          /* would read through NULL: never executed */
        /* misuse that borders on undefined behaviour: tried in a forked child first; only a call that survives there is made here */
        fflush(stdout); fflush(stderr);
        pid_t pid = fork();
        if (pid == 0) { alarm(10); int fd = open("/dev/null", O_WRONLY); if (fd >= 0) { dup2(fd, 1); dup2(fd, 2); } volatile var g = type_instance(T, NULL); (void)g; _exit(0); }
        int wst = 0; if (pid > 0) waitpid(pid, &wst, 0);
        if (pid <= 0 || !WIFEXITED(wst) || WEXITSTATUS(wst) != 0) { O("E nullcls crash crash%s", dump(h, 1)); break; }
        var got = NULL; bool b = false; var e2 = NULL;
        V_TRY(exc, got = type_instance(T, NULL)); V_TRY(e2, b = type_implements(T, NULL));
        fmt_res(rb, sizeof rb, T, exc, got);
        O("E nullcls %s %s%s", rb, e2 ? v_exc_name(e2) : (b ? "1" : "0"), dump(h, 1));
        nlook++; break;
      }
      ObjBlk blk; memset(&blk, 0, sizeof blk); header_init(&blk.h, h->type, AllocStatic);
      var got = NULL; bool b = false; var want = ValueError; var e2 = NULL, e3 = NULL, e4 = NULL; long inv0 = invoked;
      if (strcmp(tok[1], "null") == 0) {
        V_TRY(exc, got = instance(NULL, cls)); V_TRY(e2, b = implements(NULL, cls)); V_TRY(e3, got = method_at_offset(NULL, cls, 0, "probe")); V_TRY(e4, got = cast(NULL, h->type));
      } else if (strcmp(tok[1], "dead") == 0 || strcmp(tok[1], "bad") == 0) {
        blk.h.magic = tok[1][0] == 'd' ? (var)0xDeadCe110 : (var)0x1234;
        V_TRY(exc, got = instance(blk.body, cls)); V_TRY(e2, b = implements(blk.body, cls)); V_TRY(e3, got = method_at_offset(blk.body, cls, 0, "probe")); V_TRY(e4, got = cast(blk.body, h->type));
      } else if (strcmp(tok[1], "nontype") == 0) {
        /* a well-formed object that is not a type object, used where a type is expected: Type_Scan must refuse it */
        want = TypeError;
        V_TRY(exc, b = type_implements(blk.body, cls)); V_TRY(e2, b = type_implements_method_at_offset(blk.body, cls, 0)); e3 = e4 = TypeError;
      } else { O("bad-op"); break; }
      (void)got; (void)b;
      if (want == TypeError && h->type == Terminal && exc == FormatError && e2 == FormatError) X("sig=KF-C08-terminal-message line=%zu what=a Terminal-typed object used as a type raised FormatError instead of TypeError", line);
      else if (exc != want || e2 != want || e3 != want || e4 != want) X("sig=disp-badself line=%zu what=%s self: got %s/%s/%s/%s, expected %s", line, tok[1], v_exc_name(exc), v_exc_name(e2), v_exc_name(e3), v_exc_name(e4), v_exc_name(want));
      if (invoked != inv0) X("sig=disp-invoked line=%zu what=a member function was called with a bad self", line);
      O("E %s %s %s %s %s", tok[1], v_exc_name(exc), v_exc_name(e2), v_exc_name(e3), v_exc_name(e4));
      nlook++;
    } break;
    case 'H': {
      if (nt < 5) { O("bad-op"); break; }
      int tid = atoi(tok[1]), nth = atoi(tok[2]), rounds = atoi(tok[3]);
      if (tid < 0 || tid >= MAXT || !th[tid].kind || nth < 1 || nth > 64 || rounds < 1 || rounds > 100000) { O("bad-op"); break; }
      int nc = nt - 4; var* cls = calloc(nc, sizeof(var)); var* want = calloc(nc, sizeof(var)); int* wm0 = calloc(nc, sizeof(int)); int bad = 0;
      TH* h = &th[tid];
      for (int c = 0; c < nc; c++) {
        cls[c] = resolve_cls(tok[4 + c]); if (!cls[c]) { bad = 1; break; }
        int er = row_first_for(h, cls[c]);
        want[c] = raw_scan_name(h->type, raw_name(cls[c]));
        if (raw_index(h->type, want[c]) != er) X("sig=disp-record line=%zu what=declaration and record disagree on %s", line, tok[4 + c]);
        wm0[c] = er >= 0 && row_member(h, er, 0);
      }
      if (bad) { free(cls); free(want); free(wm0); O("bad-op"); break; }
      pthread_barrier_t ba, bb; pthread_barrier_init(&ba, NULL, nth); pthread_barrier_init(&bb, NULL, nth);
      pthread_t* pt = calloc(nth, sizeof(pthread_t)); TArg* ta = calloc(nth, sizeof(TArg));
      for (int j = 0; j < nth; j++) { ta[j] = (TArg){ h, j, nth, rounds, nc, cls, want, wm0, 0, 0, &ba, &bb }; pthread_create(&pt[j], NULL, thread_main, &ta[j]); }
      long tbad = 0, tdone = 0;
      for (int j = 0; j < nth; j++) { pthread_join(pt[j], NULL); tbad += ta[j].bad; tdone += ta[j].done; }
      pthread_barrier_destroy(&ba); pthread_barrier_destroy(&bb);
      if (tbad) X("sig=disp-thread line=%zu what=%ld of the lookups made by %d threads on cold caches differed from the declaration", line, tbad, nth);
      O("H n=%ld bad=%ld%s", tdone, tbad, dump(h, 0));
      check_inv(h, line); nlook += tdone;
      free(pt); free(ta); free(cls); free(want); free(wm0);
    } break;
    case 'e': {
      /* e <tid> <cls> <k>: type_method_at_offset(T, cls, k*sizeof(var), "member<k>") and the TEXT of the ClassError it raises */
      if (nt != 4) { O("bad-op"); break; }
      int tid = atoi(tok[1]); if (tid < 0 || tid >= MAXT || !th[tid].kind) { O("bad-op"); break; }
      var cls = resolve_cls(tok[2]); if (!cls) { O("bad-op"); break; }
      int k = atoi(tok[3]); if (k < 0 || k >= CELLW || strspn(tok[3], "0123456789") != strlen(tok[3])) { O("bad-op"); break; }
      TH* h = &th[tid]; var T = h->type;
      int er = row_first_for(h, cls);
      if (er >= 0 && (size_t)k >= strlen(h->rflags[er])) { O("bad-op"); break; }
      if (borrowed_territory(h, cls) || is_changed(cls)) { O("bad-op"); break; }
      char mname[32]; snprintf(mname, sizeof mname, "member%d", k);
      var got = NULL; long inv0 = invoked; static char msg[1024]; msg[0] = 0;
      V_TRY(exc, got = type_method_at_offset(T, cls, (size_t)k * sizeof(var), mname));
      fmt_res(rb, sizeof rb, T, exc, got);
      if (exc) snprintf(msg, sizeof msg, "%s: %s", v_exc_name(exc), c_str(((struct Exception*)current(Exception))->msg)); else snprintf(msg, sizeof msg, "-");
      /* the oracle: the documented texts, with the names the type and the class were GIVEN */
      static char want[1024];
      if (er < 0) snprintf(want, sizeof want, "ClassError: Type '%s' does not implement class '%s'", decl_name(T), decl_name(cls));
      else if (!row_member(h, er, k)) snprintf(want, sizeof want, "ClassError: Type '%s' implements class '%s' but not the method '%s' required", decl_name(T), decl_name(cls), mname);
      else snprintf(want, sizeof want, "-");
      if (strcmp(msg, want) != 0) X("sig=disp-classerror-text line=%zu what=type_method_at_offset(%s, %s, member %d) reported `%s`, expected `%s`", line, decl_name(T), tok[2], k, msg, want);
      if (!exc && raw_index(T, got) != er) X("sig=disp-method-decl line=%zu what=type_method_at_offset(%s, %s, member %d) gave %s, the declaration's first triple of that class is %d", line, decl_name(T), tok[2], k, rb, er);
      if (invoked != inv0) X("sig=disp-invoked line=%zu what=a member function was called by a lookup", line);
      O("e %s | %s%s", rb, msg, dump(h, 1)); check_inv(h, line); nlook++;
    } break;
    case 'U': {
      if (nt < 6) { O("bad-op"); break; }
      int tid = atoi(tok[1]), nth = atoi(tok[2]), rounds = atoi(tok[3]); unsigned seed = (unsigned)strtoul(tok[4], NULL, 10);
      if (tid < 0 || tid >= MAXT || !th[tid].kind || nth < 2 || nth > 64 || rounds < 1 || rounds > 100000) { O("bad-op"); break; }
      TH* h = &th[tid]; int nc = nt - 5; var* cls = calloc(nc, sizeof(var)); int badtok = 0;
      for (int c = 0; c < nc; c++) { cls[c] = resolve_cls(tok[5 + c]); if (!cls[c]) badtok = 1; }
      if (badtok || row_dirty(h)) { free(cls); O("bad-op"); break; }
      int n = raw_count(h->type); size_t cells = (size_t)RAW_FIRST + n + 1;
      UShared u; memset(&u, 0, sizeof u);
      var volatile copy = NULL;
      u.nth = nth; u.rounds = rounds; u.nc = nc; u.seed = seed; u.cls = cls; u.copy = &copy;
      u.want = calloc(nc, sizeof(var)); u.wm0 = calloc(nc, sizeof(int));
      u.t0 = calloc(nth, sizeof(long long)); u.t1 = calloc(nth, sizeof(long long)); u.bad = calloc(nth, sizeof(long)); u.first = calloc(nth, sizeof(UBad));
      u.go.n = nth + 1; u.done.n = nth + 1; u.line = line; u.tname = raw_name(h->type);
      pthread_t* pt = calloc(nth, sizeof(pthread_t)); UArg* ua = calloc(nth, sizeof(UArg));
      for (int j = 0; j < nth; j++) { ua[j] = (UArg){ &u, j }; pthread_create(&pt[j], NULL, stress_main, &ua[j]); }
      int sg = 0, sd = 0; long tbad = 0, warmbad = 0, ovl = 0; char wfirst[256]; wfirst[0] = 0;
      for (int r = 0; r < rounds; r++) {
        /* a cold copy: header (type word NULL in odd rounds, as a statically declared type starts), cache words and cls words NULL */
        struct Header* head = malloc(sizeof(struct Header) + sizeof(struct Type) * cells);
        var C = header_init(head, Type, AllocStatic);
        memcpy(C, h->type, sizeof(struct Type) * cells);
        white_reset(C);
        if (r & 1) head->type = NULL;
        for (int c = 0; c < nc; c++) { u.want[c] = raw_scan_name(C, raw_name(cls[c])); u.wm0[c] = u.want[c] && ((var*)u.want[c])[0] != NULL; }
        copy = C; u.round = r;
        spin_wait(&u.go, &sg);
        spin_wait(&u.done, &sd);
        /* did the lookup phases of two threads overlap in time? */
        int par = 0;
        for (int a = 0; a < nth; a++) { int k = 0; for (int b = 0; b < nth; b++) if (u.t0[b] <= u.t0[a] && u.t0[a] < u.t1[b]) k++; if (k > par) par = k; }
        if (par >= 2) ovl++; if (par > stress_maxpar) stress_maxpar = par;
        /* warm, single-threaded: every lookup again, then the words of the copy */
        for (int c = 0; c < nc; c++) {
          var got = type_instance(C, cls[c]); bool b = type_implements(C, cls[c]);
          if (got != u.want[c] || b != (u.want[c] != NULL)) {
            if (!warmbad) snprintf(wfirst, sizeof wfirst, "round %d: type_instance(%s, %s) gave triple %d and type_implements %d afterwards, from one thread on the warm record; the declaration's first triple of that name is %d", r, raw_name(h->type), raw_name(cls[c]), raw_index(C, got), (int)b, raw_index(C, u.want[c]));
            warmbad++;
          }
        }
        for (int g = 0; g < ngslot; g++) {
          if (gslot[g].idx >= RAW_CACHE_WORDS) continue;
          var w = ((var*)C)[gslot[g].idx];
          if (w && w != raw_scan_name(C, gslot[g].name)) { if (!warmbad) snprintf(wfirst, sizeof wfirst, "round %d: cache word %d of the copy of %s holds triple %d, the declared %s instance is triple %d", r, gslot[g].idx, raw_name(h->type), raw_index(C, w), gslot[g].name, raw_index(C, raw_scan_name(C, gslot[g].name))); warmbad++; }
        }
        for (struct Type* t = raw_first(C); t->name; t++) {
          if (!t->cls) continue;
          if (strcmp(raw_name(t->cls), (const char*)t->name) != 0 || raw_scan_name(C, (const char*)t->name) != t->inst) {
            if (!warmbad) snprintf(wfirst, sizeof wfirst, "round %d: triple %d (%s) of the copy of %s memoises class %s", r, (int)(t - raw_first(C)), (char*)t->name, raw_name(h->type), raw_name(t->cls));
            warmbad++;
          }
        }
        for (int j = 0; j < nth; j++) { tbad += u.bad[j]; u.bad[j] = 0; }
        if (warmbad && wfirst[0]) { X("sig=disp-thread-stress-warm line=%zu what=%s", line, wfirst); wfirst[0] = 0; }
        copy = NULL; free(head);
      }
      u.quit = 1; spin_wait(&u.go, &sg);
      for (int j = 0; j < nth; j++) pthread_join(pt[j], NULL);
      stress_rounds += rounds; stress_overlap += ovl; stress_ops++;
      long total = (long)nth * rounds * nc * 3;
      O("U n=%ld bad=%ld warm=%ld", total, tbad, warmbad);
      nlook += total;
      free(pt); free(ua); free(cls); free(u.want); free(u.wm0); free(u.t0); free(u.t1); free(u.bad); free(u.first);
    } break;
    case 'Z': {
      if (nt != 3 || strspn(tok[1], "0123456789") != strlen(tok[1]) || strlen(tok[2]) >= NBUFW) { O("bad-op"); break; }
      int b = atoi(tok[1]); if (b < 0 || b >= NBUF) { O("bad-op"); break; }
      strcpy(nbuf[b], tok[2]); nbuf_used[b] = 1;                 /* the caller's write: no function of the library is called */
      static char tl[1 << 15], el[1 << 15]; size_t a = 0, e = 0; tl[0] = el[0] = 0;
      for (int k = 0; k < MAXC; k++) if (rcls[k].cls && raw_name(rcls[k].cls) == nbuf[b]) {
        a += snprintf(tl + a, sizeof tl - a, "%sr.%d", a ? "," : "", k);
        if (strcmp(rcls[k].name, nbuf[b]) != 0) X("sig=KF-C08-borrowed-name line=%zu what=the class object constructed as %s reads %s after the caller wrote into its own buffer: Type_New kept the pointer inside the caller's String", line, rcls[k].name, raw_name(rcls[k].cls));
      }
      for (int k = 0; k < tid_hi; k++) if (th[k].kind == 3 && raw_name(th[k].type) == nbuf[b]) {
        a += snprintf(tl + a, sizeof tl - a, "%st.%d", a ? "," : "", k);
        if (strcmp(th[k].tname, nbuf[b]) != 0) X("sig=KF-C08-borrowed-name line=%zu what=the type object constructed as %s reads %s after the caller wrote into its own buffer: Type_New kept the pointer inside the caller's String", line, th[k].tname, raw_name(th[k].type));
      }
      for (int k = 0; k < tid_hi; k++) if (th[k].kind == 3) {
        int i = 0;
        for (struct Type* t = raw_first(th[k].type); t->name; t++, i++) if ((char*)t->name == nbuf[b]) {
          e += snprintf(el + e, sizeof el - e, "%s%d:%d", e ? "," : "", k, i);
          if (th[k].rcname && i < th[k].n && strcmp(th[k].rcname[i], nbuf[b]) != 0) X("sig=KF-C08-borrowed-name line=%zu what=triple %d of %s was given an instance of class %s and reads %s after the caller wrote into its own buffer: Type_New copied the class's name pointer", line, i, th[k].tname, th[k].rcname[i], (char*)t->name);
        }
      }
      O("Z %d t=%s e=%s", b, tl, el);
    } break;
    default: O("bad-op");
    }
  }
  I("ops=%zu lookups=%zu", nops, nlook);
  I("stress ops=%ld rounds=%ld overlapping=%ld max-parallel=%d", stress_ops, stress_rounds, stress_overlap, stress_maxpar);
  I("heap=%ld after-free=%ld recycled=%ld just-freed=%ld", n_heap, n_heap_after_free, n_recycled, n_just_freed);
  return 0;
}
