/* harness/h_gcmark.c — engine `gcmark` (C01: the collector never reclaims a reachable object).
 *
 * Runs heap-graph histories on the real collector.  Objects are named by small integers; the harness keeps their
 * addresses XOR-masked in static memory so that it does not root anything itself.
 *
 *   mode exact|full                first op.  exact: no automatic collection (mitems pinned), collections are `xcollect`
 *                                  with an explicit root-word list; mark bits and the freed set must equal the model's.
 *                                  full: the real GC_Mark/GC_Sweep (threshold-triggered by `new`, forced by `collect`);
 *                                  reachable (shadow graph) ⊆ survivors.
 *   new <id> <kind>[!] <arg> <where>   kind P(arg=1|2|4|8 slots; the destructor of the 8-slot probe also calls del(NULL)) M(probe with its own
 *                                  Mark instance, 4 slots) R B(arg=target id)
 *                                  A L (Array/List of Ref) T U (Table Int->Ref / Ref->Ref) E F (Tree Int->Ref / Ref->Ref) H (heap Tuple)
 *                                  W (a Thread object that is NOT current(Thread): new(Thread), never started; registered with this collector);
 *                                  for A L arg may be an element type R|I|S|F (Ref, Int, String, Float), for T U E F a key type R|I|S
 *                                  followed by a value type R|I|S|F (`new 3 T SI -` = Table(String, Int)): containers of leaf types;
 *                                  `!` = root-registered (new_root/alloc_root); where = `-` or `s<j>` (stack root slot j)
 *   assign <dst> <src>             assign(dst, src): A|L from A|L|H, T|E from T|E, H from H — the target takes over the source's
 *                                  element / key / value types (X_Assign re-types it) and copies of its elements
 *   copy <id> <src> <where>        id = copy(src) for src of kind A L T E H
 *   clear <id>                     resize(id, 0) for A L T E           trunc <id> <n>   resize(id, n): A L shrink to n, T rehash
 *   pair <ida> <idb> <where>       two Refs allocated back to back, b -> a; a lives only in a C local while b is allocated
 *   store <id> <slot> <tok>        word store into P/M/R.  tok: o<id> pointer | n NULL | m<id> pointer+4 | i<id> pointer+8 | lo | hi | s<k> small integer
 *   push <id> <tok> | pop <id> <idx> | aset <id> <idx> <tok>      A L H   (tok: o<id>, for A/L also n)
 *   tset <id> <key> <tok> | trem <id> <key>                       T E (integer key)  U F (key = object id)
 *   tls <k> <tok> | tlsrem <k>     set/rem(current(Thread), "k<k>")
 *   wset <id> <k> <tok> | wrem <id> <k>   set/rem(W object, "k<k>"): objects stored in the table of a Thread object other than current(Thread)
 *                                  (data handed to a thread before it is called).  Thread_Mark presents the table of every Thread object
 *                                  (the guard of 80c795e was withdrawn by 0a0ad73): the W object is a path like any container
 *   root <j> <tok>                 stack root slot j of a frame that stays live
 *   del <id>                       explicit del of an object nothing usable points to
 *   chain <id> <n> <kind> <where>  n objects id..id+n-1 of kind R|P|A|H|U, each pointing to the next
 *   xcollect <tok>*                exact: TLS phase, root phase, then GC_Mark_Item on each word; dump; real GC_Sweep
 *   xraise <id> <tok>*             exact: the same collection, but the Mark instance of ProbeM <id> throws when the marker reaches it: the
 *                                  exception leaves the mark phase, GC_Sweep does not run, the mark bits set so far stay (dumped).  While
 *                                  bits are set, new / pair / copy / chain / del are refused (a registry rehash would clear them).  The set is
 *                                  dumped when it does not depend on enumeration order (the probe is first reached as a root word), else `*`.  The next
 *                                  mark phase clears those bits first (GC_Unmark, fix d8f0c4f; a tree without it starts from them and
 *                                  loses reachable objects: an ordinary oracle failure).  <id> not reached: as xcollect.
 *   craise <id>                    full: the REAL GC_Mark with the Mark instance of the (reachable) ProbeM <id> throwing: the exception
 *                                  leaves GC_Mark, no sweep, whatever bits it had set stay; later collections must not lose anything
 *   xbox <id> <target>             exact: a Box on an object that other objects / roots may refer to (outside Box's ownership contract:
 *                                  when the Box is swept, Box_Del deletes the target although it is reachable — reported as `I excluded`)
 *   newraw <id> <kind> <arg> <where>   exact: a container (A L T U E F) allocated with new_raw: not registered; the collector does not follow a
 *                                  path through it, and the oracle does not either (the chain must consist of registered objects)
 *   element type X                 `new 3 A X -`, `new 4 T IX -`: Array / List of ProbeE, Table / Tree with ProbeE values — an embedded element type of the
 *                                  harness that holds one plain pointer and whose destructor / Assign instance run a collection when armed (below)
 *   arem <id> <idx>                rem(container, value of element idx): Array_Rem -> Array_Pop_At / List_Rem on the first equal element (ProbeE elements)
 *   concat <dst> <src>             concat(dst, src) for A L of the same element type        ins <id> <idx> <tok>   push_at(id, tok, idx) for A L
 *   xin <k> <tok>* | <op>          exact: <op> (pop arem aset push tset trem clear trunc assign concat) with an exact collection INSIDE its k-th ProbeE
 *                                  destructor / Assign call: the container is in an intermediate state (see the section before do_mid)
 *   cin <k> | <op>                 full: the same, the k-th call allocating until the threshold triggers the real GC_Mark / GC_Sweep
 *   element type D                 `new 3 A D -`, `new 4 T ID -`: containers of ProbeDeep, an embedded record of three pointer fields whose Assign instance
 *                                  ALLOCATES: for each field in turn it makes a fresh registered object (pointing to what the operand's field points to) and
 *                                  stores it in the target.  The element `o<b>` stands for the fresh objects b, b+1, b+2.  Ops (plain, or behind
 *                                  `xin <k> <tok>* |` / `cin <k> |`, k counting ALLOCATION POINTS: four per assigned element — in front of each allocation,
 *                                  and behind the last store):
 *                                    dpush <c> <b> <tok> | dins <c> <idx> <b> <tok> | daset <c> <idx> <b> <tok> | dtset <c> <key> <b> <tok>
 *                                    dconcat <c> <src> <b> | dassign <c> <src> <b>      (copies of the elements of src: o<b>, o<b+3>, ...)
 *                                  pop / trem / clear / trunc / del work on such containers as on any other; push / aset / tset / ins / arem / assign /
 *                                  concat / copy are refused (bad-op)
 *   collect                        full: GC_Mark + GC_Sweep
 *   churn <n>                      full: allocate n unreferenced objects (drives the threshold)
 *   deepchild <n> <kind>           forked child: chain of n, forced collection; records the outcome (F27 witness)
 *   new <id> Y[!] - <where>        a Type made at run time: new(Type, "ProbeT", size, New instance) — an ordinary collector-managed object (a leaf for the marker)
 *   new <id> Q <type id> <where>   an instance of the run-time type <type id> (one word slot, the probes' destructor): it refers to its Type through its
 *                                  HEADER only.  The collector does not trace that pointer (known finding KF-C01-type-outlived): a collection is refused
 *                                  (bad-op) unless the type of every registered instance is root-registered or reachable from the roots of that
 *                                  collection (`typesAnchored` in the model); full mode: run-time types must be root-registered (Y!)
 *   typechild -|r|s                forked child: T = new(Type, …) held by nothing (-) / root-registered (r) / also held by a root word (s), x = new(T) held by
 *                                  a root word; two exact collections.  `-` is the known finding: the first releases T, the second reads it
 *   danglechild H|M                forked child: del(x) while a heap Tuple / user Mark instance holds x, then mark it (known finding)
 *   aliaschild A|L                 forked child: assign(tuple, Array|List of Ref) — the Tuple stores pointers INTO the source's element
 *                                  storage —, the source grows (A: realloc) / is cleared (L), then the Tuple is marked (known finding)
 *
 * Direct oracle (independent of the Lean model): shadow graph + BFS; a probe finalised while shadow-reachable, a
 * reachable object missing from the registry, or a changed canary/content is an X line.
 */
#include "common.h"
#include <sys/mman.h>
#include <signal.h>
#include <sys/resource.h>
#include <fcntl.h>

#define MAXOBJ (1 << 17)
#define NROOTS 64
#define NTLS 64
#define MASK 0x5a5a5a5a5a5a5a5aULL

enum { K_NONE = 0, K_P, K_M, K_R, K_B, K_A, K_L, K_T, K_E, K_H, K_W, K_Y, K_Q };   /* letters U / F: T / E with Ref keys; W: a Thread object */
enum { E_R = 0, E_I, E_S, E_F, E_X, E_D };                                  /* element / key / value types: Ref, Int, String, Float, ProbeE (element / value only) */
enum { T_NIL = 0, T_OBJ, T_MIS, T_INT, T_LO, T_HI, T_SMALL };
typedef struct { int t; long v; } Tok;

typedef struct {
  int kind, k;            /* k = number of word slots (P/M/R/B) */
  int used, alive, rootflag;
  int owner;              /* id+1 of the Box that owns this object (0 = none) */
  int n, cap;             /* container length */
  Tok* el;                /* slots (P/M/R/B) or elements/values (containers) */
  long* key;              /* map keys: integers (Int / String keys) or object ids (Ref keys) */
  int kt, vt;             /* CURRENT key type (T/E) and element / value type (A/L/T/E): redefined by assign */
  int raw;                /* allocated with new_raw: never registered */
  int ty;                 /* Q: id+1 of the run-time Type object this object is an instance of (its header's type pointer) */
} Sh;

static Sh* sh;                       /* shadow graph */
static uintptr_t* hid;               /* masked addresses */
static unsigned char* reach;         /* last BFS */
static unsigned char* ghost;         /* full mode: pointed to by a Tuple / ProbeM that became garbage and may not have been swept yet */
static int* fin;                     /* finalisation ledger (probes) */
static int maxid = -1;
static int mode_full = 0;
static size_t curline = 0;
static int exiting = 0;
static volatile var* g_roots;        /* NROOTS stack slots in main's frame */
static Tok root_tok[NROOTS];
static Tok tls_tok[NTLS]; static int tls_used[NTLS];
static long n_collect_forced = 0, n_collect_auto = 0, n_x = 0, n_freed_total = 0, n_marked_total = 0, n_objs = 0;

static var P(int id) { return (var)(hid[id] ^ MASK); }
static void setP(int id, var p) { hid[id] = ((uintptr_t)p) ^ MASK; }

/* ---------------------------------------------------------------- probe types */
#define PROBE_STRUCT(K) struct Probe##K { int64_t id; uint64_t canary; var slot[K]; }
PROBE_STRUCT(1); PROBE_STRUCT(2); PROBE_STRUCT(4); PROBE_STRUCT(8);
struct ProbeM { int64_t id; uint64_t canary; var slot[4]; };
struct ProbeHead { int64_t id; uint64_t canary; var slot[1]; };
static uint64_t canary_of(long id) { return 0xA5A5000000000001ULL | ((uint64_t)id << 4); }

static void Probe_Del(var self) {
  struct ProbeHead* p = self;
  if (exiting) return;
  long id = p->id;
  if (id < 0 || id > maxid || !sh[id].used) { X("sig=gc-ledger line=%zu what=destructor ran on an unknown probe id %ld", curline, id); return; }
  fin[id]++;
  if (fin[id] > 1) X("sig=gc-finalised-twice line=%zu what=probe %ld finalised %d times", curline, id, fin[id]);
  if (p->canary != canary_of(id)) X("sig=gc-canary line=%zu what=probe %ld canary damaged at finalisation", curline, id);
}
static long armed_id = -1;           /* xraise: the Mark instance of this probe throws */
static int stale_now = 0;            /* mark bits are set between collections (an exception left a mark phase) */
static size_t stale_before = 0;      /* entries that were marked when the last mark phase began */
static void ProbeM_Mark(var self, var gc, void(*f)(var,void*)) {
  struct ProbeM* p = self;
  if (armed_id >= 0 && p->id == armed_id) { throw(ValueError, "the Mark instance of probe %i throws", $I(armed_id)); }
  for (int i = 0; i < 4; i++) if (p->slot[i]) f(gc, p->slot[i]);
}
var Probe1 = Cello(Probe1, Instance(New, NULL, Probe_Del));
var Probe2 = Cello(Probe2, Instance(New, NULL, Probe_Del));
var Probe4 = Cello(Probe4, Instance(New, NULL, Probe_Del));
/* a destructor that deletes an optional member which is NULL: del(NULL) is a no-op everywhere, also during a sweep (fix d3e4e44;
   before it GC_Rem_Ptr(NULL) matched the NULL slot of the item being released and ran dealloc(destruct(NULL))) */
static void Probe8_Del(var self) { Probe_Del(self); if (!exiting) del(NULL); }
var Probe8 = Cello(Probe8, Instance(New, NULL, Probe8_Del));
var ProbeM = Cello(ProbeM, Instance(New, NULL, Probe_Del), Instance(Mark, ProbeM_Mark));

/* ---------------------------------------------------------------- ProbeE: an EMBEDDED element type (element of Array / List, value of Table / Tree)
   whose destructor and whose Assign instance run a collection when the harness has armed them: the collection then runs in the middle of the
   container operation that called destruct / assign (Array_Pop_At, List_Unlink + destruct, Table_Rem, Tree_Rem, X_Clear, X_Assign, ...).  An element
   holds one plain pointer (no ownership: like a Ref); it has no Mark instance and is no leaf type, so GC_Recurse scans its one word. */
struct ProbeE { var ref; };
static long hook_count = -1;         /* >= 0: armed; the hook_count-th call (destructor or Assign of a ProbeE) from now runs hook_fn */
static long hook_calls = 0;          /* calls seen since the harness armed / reset the counter */
static int hook_fired = 0;
static int hook_busy = 0;           /* inside the collection the hook runs: destructors of swept ProbeE elements are not calls of the operation */
static int mid_busy = -1;            /* the container an operation with a collection inside is working on */
static void (*hook_fn)(void) = NULL;
static void probeE_call(void) {
  if (exiting || hook_busy) return;
  hook_calls++;
  if (hook_count < 0) return;
  if (hook_count == 0) { hook_count = -1; hook_fired = 1; hook_busy = 1; hook_fn(); hook_busy = 0; } else hook_count--;
}
var ProbeE;
static void ProbeE_Del(var self) { probeE_call(); }
/* the new value is in place when the collection runs (a type whose Assign copies and then allocates, e.g. logs) */
static void ProbeE_Assign(var self, var obj) { ((struct ProbeE*)self)->ref = ((struct ProbeE*)cast(obj, ProbeE))->ref; probeE_call(); }
var ProbeE = Cello(ProbeE, Instance(New, NULL, ProbeE_Del), Instance(Assign, ProbeE_Assign));

/* ---------------------------------------------------------------- ProbeDeep: an embedded element type whose Assign instance ALLOCATES (a deep copy)
   A record of three managed fields.  ProbeDeep_Assign makes, for each field in turn, a fresh registered probe that points to what the operand's
   field points to, and stores it in the target: at allocation point j the fields 0..j-1 of the copy are already in the target element and are
   reachable through nothing but that element.  Every allocation point (and the point behind the last store) is a hook call: the harness can run a
   collection exactly there (the real thing is a threshold collection inside alloc). */
struct ProbeDeep { var f0; var f1; var f2; };
static long deep_next = -1;          /* id the next fresh object gets */
static long deep_src = -1;           /* dconcat / dassign: the source container (its elements supply the tokens), else -1 */
static int deep_idx = 0;             /* elements the running operation has assigned so far */
static Tok deep_tok;                 /* dpush / dins / daset / dtset: what the operand's three fields hold */
static void deep_made(var x, var word, int j);
static var* deep_field(struct ProbeDeep* d, int j) { return j == 0 ? &d->f0 : j == 1 ? &d->f1 : &d->f2; }
/* the allocation points have counters of their own: a threshold collection that one of the allocations triggers may sweep a container of ProbeE
   elements, whose destructors are no calls of this operation */
static long deep_hook = -1;          /* >= 0: armed; that many allocation points from now, hook_fn runs */
static long deep_calls = 0;
static void deep_point(void) {
  if (exiting || hook_busy) return;
  deep_calls++;
  if (deep_hook < 0) return;
  if (deep_hook == 0) { deep_hook = -1; hook_fired = 1; hook_busy = 1; hook_fn(); hook_busy = 0; } else deep_hook--;
}
var ProbeDeep;
static void pin(void);
static void ProbeDeep_Assign(var self, var obj) {
  struct ProbeDeep* d = self; struct ProbeDeep* s = cast(obj, ProbeDeep);
  for (int j = 0; j < 3; j++) {
    deep_point();                      /* allocation point j: alloc -> GC_Set may collect here */
    var x = alloc(Probe1);
    pin();
    deep_made(x, *deep_field(s, j), j);
    *deep_field(d, j) = x;
  }
  deep_point();                        /* behind the last store */
  deep_idx++;
}
var ProbeDeep = Cello(ProbeDeep, Instance(Assign, ProbeDeep_Assign));

/* the New instance of the run-time types (static storage: a Type object stores pointers to its instance objects) */
static struct { struct Header h; struct New n; } rt_new_inst;
static long n_types = 0;
static var make_rt_type(int rootflag) {
  var inst = header_init(&rt_new_inst.h, New, AllocStatic);
  rt_new_inst.n.construct_with = NULL; rt_new_inst.n.destruct = Probe_Del;
  n_types++;
  return rootflag ? new_root(Type, $S("ProbeT"), $I(sizeof(struct Probe1)), inst) : new(Type, $S("ProbeT"), $I(sizeof(struct Probe1)), inst);
}
static var probe_type(int k) { return k == 1 ? Probe1 : k == 2 ? Probe2 : k == 4 ? Probe4 : Probe8; }

/* ---------------------------------------------------------------- helpers */
static struct GC* G(void) { return current(GC); }
static void pin(void) { if (!mode_full) G()->mitems = ((size_t)1) << 60; }

static int usable(long id) { return id >= 0 && id <= maxid && id < MAXOBJ && sh[id].used && sh[id].alive; }
/* owned by a live Box: may not be referenced from anywhere else (the Box deletes it when it dies) */
static int owned(long id) { return sh[id].owner && usable(sh[id].owner - 1); }

static int parse_tok(const char* s, Tok* t) {
  char* e;
  if (!strcmp(s, "n")) { t->t = T_NIL; t->v = 0; return 1; }
  if (!strcmp(s, "lo")) { t->t = T_LO; t->v = 0; return 1; }
  if (!strcmp(s, "hi")) { t->t = T_HI; t->v = 0; return 1; }
  int ty = s[0] == 'o' ? T_OBJ : s[0] == 'm' ? T_MIS : s[0] == 'i' ? T_INT : s[0] == 's' ? T_SMALL : -1;
  if (ty < 0 || !s[1]) return 0;
  for (const char* c = s + 1; *c; c++) if (*c < '0' || *c > '9') return 0;
  t->t = ty; t->v = strtol(s + 1, &e, 10);
  if (ty == T_SMALL) return t->v < (1L << 30);
  return 1;
}
static int tok_ok(Tok t) { return (t.t == T_OBJ || t.t == T_MIS || t.t == T_INT) ? (usable(t.v) && !owned(t.v)) : 1; }
static var tok_word(Tok t) {
  switch (t.t) {
    case T_NIL: return NULL;
    case T_OBJ: return P(t.v);
    case T_MIS: return (char*)P(t.v) + 4;
    case T_INT: return (char*)P(t.v) + 8;
    case T_LO: return (var)(uintptr_t)8;
    case T_HI: return (var)(UINTPTR_MAX - 7);
    default: return (var)(uintptr_t)t.v;
  }
}
static int parse_long(const char* s, long* v) {
  if (!*s) return 0;
  const char* c = s; if (*c == '-') c++;
  if (!*c) return 0;
  for (; *c; c++) if (*c < '0' || *c > '9') return 0;
  if (strlen(s) > 12) return 0;
  *v = strtol(s, NULL, 10); return 1;
}

static void sh_grow(Sh* o) {
  if (o->n == o->cap) {
    o->cap = o->cap ? o->cap * 2 : 4;
    o->el = realloc(o->el, o->cap * sizeof(Tok));
    o->key = realloc(o->key, o->cap * sizeof(long));
  }
}
static int is_words(int kind) { return kind == K_P || kind == K_M || kind == K_R || kind == K_B || kind == K_Q; }
static int is_seq(int kind) { return kind == K_A || kind == K_L || kind == K_H; }
static int is_arr(int kind) { return kind == K_A || kind == K_L; }
static int is_map(int kind) { return kind == K_T || kind == K_E; }
static int refkeys(Sh* o) { return is_map(o->kind) && o->kt == E_R; }
/* does element slot i of o hold a reference?  (an Int that equals an address, a String, a Float do not) */
static int refvals(Sh* o) { return (is_arr(o->kind) || is_map(o->kind)) ? (o->vt == E_R || o->vt == E_X || o->vt == E_D) : 1; }
/* a container of ProbeDeep elements: the element token o<b> stands for the three objects b, b+1, b+2 */
static int is_deep(Sh* o) { return (is_arr(o->kind) || is_map(o->kind)) && o->vt == E_D; }
static var ety_type(int e) { return e == E_I ? Int : e == E_S ? String : e == E_F ? Float : e == E_X ? ProbeE : e == E_D ? ProbeDeep : Ref; }
static int parse_ety(char c) { return c == 'R' ? E_R : c == 'I' ? E_I : c == 'S' ? E_S : c == 'F' ? E_F : c == 'X' ? E_X : c == 'D' ? E_D : -1; }
static const char* tok_text(Tok t) { static char b[32]; if (t.t == T_OBJ) snprintf(b, sizeof b, "o%ld", t.v); else snprintf(b, sizeof b, "n"); return b; }
static const char* key_text(long k) { static char b[32]; snprintf(b, sizeof b, "k%ld", k); return b; }
static var tok_word(Tok t);
/* a value of element type `ety` made from a token / a key of key type `kt` (compound literals: valid in the enclosing block) */
#define ELEM(ety, t) ((ety) == E_I ? (var)$I((int64_t)(uintptr_t)tok_word(t)) : (ety) == E_S ? (var)$S((char*)tok_text(t)) \
                      : (ety) == E_F ? (var)$F((double)(t).v) : (ety) == E_X ? (var)$(ProbeE, tok_word(t)) \
                      : (ety) == E_D ? (var)$(ProbeDeep, tok_word(t), tok_word(t), tok_word(t)) : (var)$R(tok_word(t)))
#define KEY(o, k) ((o)->kt == E_I ? (var)$I(k) : (o)->kt == E_S ? (var)$S((char*)key_text(k)) : (var)$R(P(k)))

/* ---------------------------------------------------------------- shadow BFS (the direct oracle's reference) */
static int* bfs_q;
/* an object allocated with new_raw is not registered: the collector does not trace it when it finds a pointer to it, and a path through it does not count */
static void bfs_push(int id, size_t* qt) { if (id >= 0 && id <= maxid && sh[id].used && sh[id].alive && !sh[id].raw && !reach[id]) { reach[id] = 1; bfs_q[(*qt)++] = id; } }
static void bfs_tok(Tok t, size_t* qt) { if (t.t == T_OBJ) bfs_push((int)t.v, qt); }
/* roots: TLS entries, root-flagged objects, stack root slots (full mode) or the given words (exact mode) */
static size_t shadow_reach(Tok* words, int nwords, int use_slots) {
  size_t qh = 0, qt = 0;
  memset(reach, 0, (size_t)maxid + 2);
  for (int i = 0; i < NTLS; i++) if (tls_used[i]) bfs_tok(tls_tok[i], &qt);
  for (int i = 0; i <= maxid; i++) if (sh[i].used && sh[i].alive && sh[i].rootflag) bfs_push(i, &qt);
  if (use_slots) for (int i = 0; i < NROOTS; i++) bfs_tok(root_tok[i], &qt);
  for (int i = 0; i < nwords; i++) bfs_tok(words[i], &qt);
  while (qh < qt) {
    Sh* o = &sh[bfs_q[qh++]];
    int rv = refvals(o), rk = refkeys(o);   /* the CURRENT types decide what is a reference */
    int dp = is_deep(o);
    for (int i = 0; i < o->n; i++) {
      if (rv) bfs_tok(o->el[i], &qt);
      if (dp && o->el[i].t == T_OBJ) { bfs_push((int)o->el[i].v + 1, &qt); bfs_push((int)o->el[i].v + 2, &qt); }
      if (rk) bfs_push((int)o->key[i], &qt);
    }
  }
  return qt;
}

/* ---------------------------------------------------------------- id sets as text */
static char idsetbuf[1 << 12];
static const char* set_text(unsigned char* member, int want) {
  size_t n = 0; uint32_t h = 0;
  for (int i = 0; i <= maxid; i++) if (member[i] == want && sh[i].used) { n++; h = h * 31u + (uint32_t)(i + 1); }
  int l = snprintf(idsetbuf, sizeof idsetbuf, "%zu:%u", n, h);
  if (n <= 48) {
    l += snprintf(idsetbuf + l, sizeof idsetbuf - l, ":[");
    int first = 1;
    for (int i = 0; i <= maxid; i++) if (member[i] == want && sh[i].used) { l += snprintf(idsetbuf + l, sizeof idsetbuf - l, "%s%d", first ? "" : ",", i); first = 0; }
    snprintf(idsetbuf + l, sizeof idsetbuf - l, "]");
  }
  return idsetbuf;
}

/* ---------------------------------------------------------------- real objects */
static void word_store(int id, int slot, var w) {
  Sh* o = &sh[id];
  if (o->kind == K_R) ((struct Ref*)P(id))->val = w;
  else if (o->kind == K_B) ((struct Box*)P(id))->val = w;
  else ((struct ProbeHead*)P(id))->slot[slot] = w;
}
static var word_load(int id, int slot) {
  Sh* o = &sh[id];
  if (o->kind == K_R) return ((struct Ref*)P(id))->val;
  if (o->kind == K_B) return ((struct Box*)P(id))->val;
  return ((struct ProbeHead*)P(id))->slot[slot];
}

static int want_raw = 0;
static int want_ty = -1;           /* make_real(K_Q): the id of the run-time Type */
static var make_real(int kind, int k, int rootflag, long id, int kt, int vt) {
  var p = NULL;
  if (want_raw) {
    switch (kind) {
      case K_A: return new_raw(Array, ety_type(vt));
      case K_L: return new_raw(List, ety_type(vt));
      case K_T: return new_raw(Table, ety_type(kt), ety_type(vt));
      default:  return new_raw(Tree, ety_type(kt), ety_type(vt));
    }
  }
  switch (kind) {
    case K_P: p = rootflag ? alloc_root(probe_type(k)) : alloc(probe_type(k)); break;
    case K_M: p = rootflag ? alloc_root(ProbeM) : alloc(ProbeM); break;
    case K_R: p = rootflag ? alloc_root(Ref) : alloc(Ref); break;
    case K_B: p = rootflag ? alloc_root(Box) : alloc(Box); break;
    case K_A: p = rootflag ? new_root(Array, ety_type(vt)) : new(Array, ety_type(vt)); break;
    case K_L: p = rootflag ? new_root(List, ety_type(vt)) : new(List, ety_type(vt)); break;
    case K_T: p = rootflag ? new_root(Table, ety_type(kt), ety_type(vt)) : new(Table, ety_type(kt), ety_type(vt)); break;
    case K_E: p = rootflag ? new_root(Tree, ety_type(kt), ety_type(vt)) : new(Tree, ety_type(kt), ety_type(vt)); break;
    case K_H: p = rootflag ? new_root(Tuple) : new(Tuple); break;
    case K_W: p = rootflag ? new_root(Thread) : new(Thread); break;
    case K_Y: p = make_rt_type(rootflag); break;
    case K_Q: p = rootflag ? alloc_root(P(want_ty)) : alloc(P(want_ty)); break;
  }
  if (kind == K_P || kind == K_M || kind == K_Q) { struct ProbeHead* h = p; h->id = id; h->canary = canary_of(id); }
  return p;
}

/* the embedded element e (of type ety) holds the value made from token t */
static int elem_is(var e, int ety, Tok t) {
  if (type_of(e) != ety_type(ety)) return 0;
  switch (ety) {
    case E_I: return c_int(e) == (int64_t)(uintptr_t)tok_word(t);
    case E_S: return !strcmp(c_str(e), tok_text(t));
    case E_F: return c_float(e) == (double)t.v;
    case E_X: return ((struct ProbeE*)e)->ref == tok_word(t);
    case E_D: { struct ProbeDeep* d = e; if (t.t != T_OBJ) return 0;
                return d->f0 == P((int)t.v) && d->f1 == P((int)t.v + 1) && d->f2 == P((int)t.v + 2); }
    default: return deref(e) == tok_word(t);
  }
}
/* content of a usable object equals the shadow (reads the object: ASan faults on freed memory) */
static int content_ok(int id) {
  Sh* o = &sh[id]; var p = P(id);
  if (o->kind == K_P || o->kind == K_M || o->kind == K_Q) {
    struct ProbeHead* h = p;
    if (h->id != id || h->canary != canary_of(id)) return 0;
  }
  if (o->kind == K_Q) { if (type_of(p) != P(o->ty - 1) || size(type_of(p)) != sizeof(struct Probe1)) return 0; }   /* reads the Type object */
  if (o->kind == K_Y) return type_of(p) == Type && size(p) == sizeof(struct Probe1);
  if (is_words(o->kind)) { for (int i = 0; i < o->n; i++) if (word_load(id, i) != tok_word(o->el[i])) return 0; return 1; }
  if (o->kind == K_W) {
    if (type_of(p) != Thread) return 0;
    for (int i = 0; i < o->n; i++) {
      var key = $S((char*)key_text(o->key[i]));
      if (!mem(p, key) || get(p, key) != tok_word(o->el[i])) return 0;
    }
    return 1;
  }
  if (o->kind == K_H) {
    if ((int)len(p) != o->n) return 0;
    for (int i = 0; i < o->n; i++) if (get(p, $I(i)) != tok_word(o->el[i])) return 0;
    return 1;
  }
  if (is_seq(o->kind)) {
    if ((int)len(p) != o->n) return 0;
    if (type_of(p) != (o->kind == K_A ? Array : List) || iter_type(p) != ety_type(o->vt)) return 0;
    for (int i = 0; i < o->n; i++) if (!elem_is(get(p, $I(i)), o->vt, o->el[i])) return 0;
    return 1;
  }
  if ((int)len(p) != o->n) return 0;
  if (key_type(p) != ety_type(o->kt) || val_type(p) != ety_type(o->vt)) return 0;
  for (int i = 0; i < o->n; i++) {
    var key = KEY(o, o->key[i]);
    if (!mem(p, key)) return 0;
    if (!elem_is(get(p, key), o->vt, o->el[i])) return 0;
  }
  return 1;
}

/* after any point at which a collection may have run: every object in `reach` must still be there, intact */
static void oracle_survivors(const char* when) {
  struct GC* gc = G();
  for (int i = 0; i <= maxid; i++) {
    if (!sh[i].used || !sh[i].alive || !reach[i]) continue;
    if (fin[i]) { X("sig=gc-reclaimed-reachable line=%zu what=%s: probe %d was finalised while reachable", curline, when, i); sh[i].alive = 0; continue; }
    if (!GC_Mem_Ptr(gc, P(i))) { X("sig=gc-reclaimed-reachable line=%zu what=%s: reachable object %d is no longer registered", curline, when, i); sh[i].alive = 0; continue; }
    if (!content_ok(i)) X("sig=gc-canary line=%zu what=%s: content of reachable object %d changed", curline, when, i);
  }
}

/* ---------------------------------------------------------------- ops */
/* kind letter -> kind and its default key / value types */
static int kind_letter(char c, int* kt, int* vt) {
  *kt = E_R; *vt = E_R;
  switch (c) { case 'P': return K_P; case 'M': return K_M; case 'R': return K_R; case 'B': return K_B; case 'A': return K_A; case 'L': return K_L;
    case 'T': *kt = E_I; return K_T; case 'U': return K_T; case 'E': *kt = E_I; return K_E; case 'F': return K_E; case 'H': return K_H; case 'W': return K_W;
    case 'Y': return K_Y; case 'Q': return K_Q; }
  return K_NONE;
}
static int kind_of(const char* s, int* rootflag, int* kt, int* vt) {
  size_t l = strlen(s); *rootflag = 0;
  if (l == 2 && s[1] == '!') *rootflag = 1; else if (l != 1) return K_NONE;
  return kind_letter(s[0], kt, vt);
}
/* type argument of `new` for a container: `-`, one letter (A/L) or key letter + value letter (T/U/E/F) */
static int parse_types(int kind, const char* arg, int* kt, int* vt) {
  if (!strcmp(arg, "-")) return 1;
  if (is_arr(kind) && strlen(arg) == 1) { int v = parse_ety(arg[0]); if (v < 0) return 0; *vt = v; return 1; }
  if (is_map(kind) && strlen(arg) == 2) { int k = parse_ety(arg[0]), v = parse_ety(arg[1]); if (k < 0 || v < 0 || k == E_F || k == E_X || k == E_D) return 0; *kt = k; *vt = v; return 1; }
  return 0;
}
static int parse_where(const char* s, int* slot) {
  if (!strcmp(s, "-")) { *slot = -1; return 1; }
  long v; if (s[0] == 's' && parse_long(s + 1, &v) && v >= 0 && v < NROOTS) { *slot = (int)v; return 1; }
  return 0;
}

static void shadow_new(long id, int kind, int k, int rootflag, int kt, int vt) {
  Sh* o = &sh[id]; memset(o, 0, sizeof *o);
  o->kind = kind; o->used = 1; o->alive = 1; o->rootflag = rootflag; o->kt = kt; o->vt = vt;
  if (id > maxid) maxid = (int)id;
  if (is_words(kind)) { o->k = k; o->n = k; o->cap = k; o->el = calloc(k ? k : 1, sizeof(Tok)); o->key = NULL; }
  n_objs++;
}

/* ProbeDeep_Assign has made the fresh object for field j of the element it is assigning: it enters the shadow graph under the next id */
static void deep_made(var x, var word, int j) {
  long id = deep_next++;
  Tok t = deep_tok;
  if (deep_src >= 0) { Tok e = sh[deep_src].el[deep_idx]; t.t = e.t == T_OBJ ? T_OBJ : T_NIL; t.v = e.t == T_OBJ ? e.v + j : 0; }
  struct ProbeHead* h = x; h->id = id; h->canary = canary_of(id); h->slot[0] = word;
  setP((int)id, x);
  shadow_new(id, K_P, 1, 0, E_R, E_R);
  sh[id].el[0] = t;
}

/* A garbage Tuple (or user Mark instance) hands its stored pointers to the callback if a stale stack word still finds
   it; an explicit del of one of those targets would leave it a dangling pointer (known finding KF-C01-dangling-tuple-item):
   such targets may not be deleted by hand any more. */
static void note_garbage(int i) {
  Sh* o = &sh[i];
  if (o->kind != K_H && o->kind != K_M) return;
  for (int j = 0; j < o->n; j++) if (o->el[j].t == T_OBJ && o->el[j].v >= 0 && o->el[j].v < MAXOBJ) ghost[o->el[j].v] = 1;
}

/* full mode: reachability checkpoint — whatever is not reachable now must never be used again */
static void checkpoint_dead(void) {
  shadow_reach(NULL, 0, 1);
  for (int i = 0; i <= maxid; i++) if (sh[i].used && sh[i].alive && !reach[i]) { sh[i].alive = 0; note_garbage(i); }
}

static void shadow_copy_content(Sh* d, Sh* s) {
  if (d->cap < s->n) { d->cap = s->n; d->el = realloc(d->el, d->cap * sizeof(Tok)); d->key = realloc(d->key, d->cap * sizeof(long)); }
  d->n = s->n;
  for (int i = 0; i < s->n; i++) { d->el[i] = s->el[i]; if (is_map(s->kind)) d->key[i] = s->key[i]; }
}
/* copyfrom >= 0: the new object is copy(copyfrom) (= assign(alloc(type), src)) */
static __attribute__((noinline)) void do_new_x(long id, int kind, int k, int rootflag, long boxtgt, int slot, int kt, int vt, long copyfrom) {
  struct GC* gc = G();
  size_t mit0 = gc->mitems, nit0 = gc->nitems;
  if (mode_full) shadow_reach(NULL, 0, 1);   /* what a collection inside alloc may not touch */
  var p = copyfrom >= 0 ? copy(P(copyfrom)) : make_real(kind, k, rootflag, id, kt, vt);
  if (slot >= 0) g_roots[slot] = p;
  setP((int)id, p);
  shadow_new(id, kind, k, rootflag, kt, vt);
  sh[id].raw = want_raw;
  if (copyfrom >= 0) shadow_copy_content(&sh[id], &sh[copyfrom]);
  if (kind == K_B) { sh[id].el[0].t = T_OBJ; sh[id].el[0].v = boxtgt; ((struct Box*)p)->val = P(boxtgt); sh[boxtgt].owner = (int)id + 1; }
  if (slot >= 0) { root_tok[slot].t = T_OBJ; root_tok[slot].v = id; }
  pin();
  if (mode_full) {
    if (G()->mitems != mit0 || G()->nitems != nit0 + 1) { n_collect_auto++; reach[id] = 0; oracle_survivors("collection triggered by new"); }
    checkpoint_dead();
  }
}
static void do_new(long id, int kind, int k, int rootflag, long boxtgt, int slot, int kt, int vt) { do_new_x(id, kind, k, rootflag, boxtgt, slot, kt, vt, -1); }

/* two allocations in one C function: the first object lives only in a local variable (a register or a spill slot) while
   the second allocation may trigger a collection — the "stack or registers" root kind */
static __attribute__((noinline)) void do_pair(long ia, long ib, int slot) {
  struct GC* gc = G();
  size_t mit0 = gc->mitems, nit0 = gc->nitems;
  if (mode_full) shadow_reach(NULL, 0, 1);
  var a = alloc(Ref);
  pin();
  var b = alloc(Ref);
  ((struct Ref*)b)->val = a;
  if (slot >= 0) g_roots[slot] = b;
  setP((int)ia, a); setP((int)ib, b);
  shadow_new(ia, K_R, 1, 0, E_R, E_R); shadow_new(ib, K_R, 1, 0, E_R, E_R);
  sh[ib].el[0].t = T_OBJ; sh[ib].el[0].v = ia;
  if (slot >= 0) { root_tok[slot].t = T_OBJ; root_tok[slot].v = ib; }
  pin();
  if (mode_full) {
    if (G()->mitems != mit0 || G()->nitems != nit0 + 2) { n_collect_auto++; reach[ia] = 0; reach[ib] = 0; oracle_survivors("collection triggered by pair"); }
    if (!GC_Mem_Ptr(G(), a) || !GC_Mem_Ptr(G(), b))
      X("sig=gc-reclaimed-reachable line=%zu what=an object held only in a local variable of the allocating function was swept", curline);
    checkpoint_dead();
  }
}

static __attribute__((noinline)) void seq_push(int id, Tok t) {
  Sh* o = &sh[id]; var p = P(id);
  if (o->kind == K_H) push(p, tok_word(t)); else push(p, ELEM(o->vt, t));
  sh_grow(o); o->el[o->n++] = t;
}
static __attribute__((noinline)) void seq_pop(int id, int idx) {
  Sh* o = &sh[id]; var p = P(id);
  pop_at(p, $I(idx));
  memmove(o->el + idx, o->el + idx + 1, (o->n - idx - 1) * sizeof(Tok)); o->n--;
}
static __attribute__((noinline)) void seq_set(int id, int idx, Tok t) {
  Sh* o = &sh[id]; var p = P(id);
  if (o->kind == K_H) set(p, $I(idx), tok_word(t)); else set(p, $I(idx), ELEM(o->vt, t));
  o->el[idx] = t;
}
static __attribute__((noinline)) void do_assign(int d, int s) { assign(P(d), P(s)); }
static int map_find(Sh* o, long key) { for (int i = 0; i < o->n; i++) if (o->key[i] == key) return i; return -1; }
static __attribute__((noinline)) void map_set(int id, long key, Tok t) {
  Sh* o = &sh[id]; var p = P(id);
  set(p, KEY(o, key), ELEM(o->vt, t));
  int i = map_find(o, key);
  if (i < 0) { sh_grow(o); i = o->n++; o->key[i] = key; }
  o->el[i] = t;
}
static __attribute__((noinline)) void map_rem(int id, long key) {
  Sh* o = &sh[id]; var p = P(id);
  int i = map_find(o, key);
  rem(p, KEY(o, key));
  o->el[i] = o->el[o->n - 1]; o->key[i] = o->key[o->n - 1]; o->n--;
}

/* does any usable object (or root/TLS entry) point exactly at `id`? */
static int has_incoming_x(int id, int except_slot) {
  for (int i = 0; i <= maxid; i++) {
    Sh* o = &sh[i]; if (!o->used || !o->alive || i == id) continue;
    for (int j = 0; j < o->n; j++) {
      if (o->el[j].t == T_OBJ && o->el[j].v == id) return 1;
      if (is_deep(o) && o->el[j].t == T_OBJ && o->el[j].v <= id && id <= o->el[j].v + 2) return 1;
      if (refkeys(o) && o->key[j] == id) return 1;
    }
  }
  for (int i = 0; i < NROOTS; i++) if (i != except_slot && root_tok[i].t == T_OBJ && root_tok[i].v == id) return 1;
  for (int i = 0; i < NTLS; i++) if (tls_used[i] && tls_tok[i].t == T_OBJ && tls_tok[i].v == id) return 1;
  return 0;
}
static int has_incoming(int id) { return has_incoming_x(id, -1); }
/* a Box owns its target: del(box) deletes the target too */
static int del_count;
static void shadow_del(int id) {
  Sh* o = &sh[id]; o->alive = 0; del_count++;
  if (o->kind == K_B && o->el[0].t == T_OBJ && usable(o->el[0].v)) shadow_del((int)o->el[0].v);
}

/* ---------------------------------------------------------------- run-time types: the header's type pointer (known finding KF-C01-type-outlived)
   An instance refers to its Type through its header only; the collector does not trace that pointer.  In contract: the Type of every REGISTERED
   instance (reachable or not: a swept instance finds its destructor through its Type) is root-registered or reachable from the roots. */
static int has_instances(int t) { for (int i = 0; i <= maxid; i++) if (sh[i].used && sh[i].alive && sh[i].ty == t + 1) return 1; return 0; }
static int types_anchored(Tok* words, int nw, int roots_only) {
  if (!n_types) return 1;
  if (!roots_only) shadow_reach(words, nw, 0);
  for (int i = 0; i <= maxid; i++) {
    if (!sh[i].used || !sh[i].alive || sh[i].raw || !sh[i].ty) continue;
    int t = sh[i].ty - 1;
    if (!usable(t) || !(sh[t].rootflag || (!roots_only && reach[t]))) return 0;
  }
  return 1;
}
/* before the teardown: delete the instances of run-time types by hand (the final sweep may release a Type before its instances: C06 / C19) */
static void drop_instances(void) {
  if (!n_types) return;
  for (int i = 0; i <= maxid; i++) {
    if (!sh[i].used || sh[i].kind != K_Q) continue;
    var p = P(i); int t = sh[i].ty - 1;
    if (GC_Mem_Ptr(G(), p) && ((struct Header*)p - 1)->type == P(t)) del(p);
  }
}

/* the three phases of GC_Mark with a chosen word list instead of the stack (C01_MARK_CLEARS_FIRST: defined by vlib/props/c01.py when the
   GC_Mark of the tree under test clears every mark bit before its first phase) */
static __attribute__((noinline)) void mark_phases(Tok* words, int nw) {
  struct GC* gc = G();
  if (gc->nitems != 0) {
#ifdef C01_MARK_CLEARS_FIRST
    for (size_t i = 0; i < gc->nslots; i++) gc->entries[i].marked = false;
#endif
    stale_before = 0;
    for (size_t i = 0; i < gc->nslots; i++) if (gc->entries[i].hash && gc->entries[i].marked) stale_before++;
    mark(current(Thread), gc, (void(*)(var,void*))GC_Mark_And_Recurse);
    for (size_t i = 0; i < gc->nslots; i++) {
      if (gc->entries[i].hash is 0) { continue; }
      if (gc->entries[i].marked) { continue; }
      if (gc->entries[i].root) { gc->entries[i].marked = true; GC_Recurse(gc, gc->entries[i].ptr); }
    }
    for (int i = 0; i < nw; i++) GC_Mark_Item(gc, tok_word(words[i]));
  }
}

static unsigned char* mk = NULL;
static unsigned char* fr = NULL;
/* white-box: mark bits by object */
static size_t read_marks(void) {
  struct GC* gc = G();
  if (!mk) mk = calloc(MAXOBJ, 1);
  if (!fr) fr = calloc(MAXOBJ, 1);
  memset(mk, 0, (size_t)maxid + 2); memset(fr, 0, (size_t)maxid + 2);
  size_t nmarked = 0;
  for (int i = 0; i <= maxid; i++) {
    if (!sh[i].used || !sh[i].alive || sh[i].raw) continue;
    var p = P(i); int found = 0;
    uint64_t s = gc->nslots ? GC_Hash(p) % gc->nslots : 0;
    for (size_t j = 0; j < gc->nslots; j++) {
      struct GCEntry* e = &gc->entries[(s + j) % gc->nslots];
      if (e->hash == 0) break;
      if (e->ptr == p) { found = 1; if (e->marked) { mk[i] = 1; nmarked++; } break; }
    }
    if (!found) X("sig=gc-registry line=%zu what=live object %d is not in the registry before the sweep", curline, i);
  }
  return nmarked;
}

/* after the mark phases: dump, real GC_Sweep, oracle */
static __attribute__((noinline)) void finish_collect(const char* tag) {
  struct GC* gc = G();
  size_t nmarked = read_marks();
  char mtxt[sizeof idsetbuf]; strcpy(mtxt, set_text(mk, 1));
  GC_Sweep(gc);
  pin();
  size_t nfreed = 0;
  for (int i = 0; i <= maxid; i++) {
    if (!sh[i].used || !sh[i].alive || sh[i].raw) continue;
    int gone = (sh[i].kind == K_P || sh[i].kind == K_M || sh[i].kind == K_Q) ? fin[i] > 0 : !GC_Mem_Ptr(gc, P(i));
    if ((sh[i].kind == K_P || sh[i].kind == K_M || sh[i].kind == K_Q) && (fin[i] > 0) != !GC_Mem_Ptr(gc, P(i)))
      X("sig=gc-ledger line=%zu what=probe %d: finalised=%d but registered=%d after the sweep", curline, i, fin[i], (int)GC_Mem_Ptr(gc, P(i)));
    if (gone) { fr[i] = 1; nfreed++; }
  }
  O("%s marked=%s freed=%s", tag, mtxt, set_text(fr, 1));
  /* oracle.  An object freed by the destructor of an unreachable Box that owned it is Box's ownership contract (an exclusion, reported as I).
     Mark bits that were still set when the three phases began (a tree whose GC_Mark does not clear them first) are named in the text. */
  const char* lost = "gc-reclaimed-reachable";
  for (int i = 0; i <= maxid; i++) {
    if (!sh[i].used || !sh[i].alive || sh[i].raw) continue;
    int ow = sh[i].owner - 1;
    int by_box = sh[i].owner && usable(ow) && !reach[ow] && fr[ow];
    if (reach[i] && !mk[i]) X("sig=gc-unmarked-reachable line=%zu what=object %d reachable from the roots was not marked%s", curline, i,
                              stale_before ? " (mark bits left by a mark phase that an exception left were still set)" : "");
    if ((reach[i] || sh[i].rootflag) && fr[i]) {
      if (by_box) I("excluded line=%zu what=object %d (reachable) was deleted by the destructor of the unreachable Box %d that owned it", curline, i, ow);
      else if (reach[i]) X("sig=%s line=%zu what=object %d reachable from the roots was swept%s", lost, curline, i, stale_before ? " (stale mark bits)" : "");
      else X("sig=%s line=%zu what=root-registered object %d was swept", lost, curline, i);
    }
  }
  for (int i = 0; i <= maxid; i++) if (fr[i]) sh[i].alive = 0;
  for (int i = 0; i <= maxid; i++) {
    if (!sh[i].used || !sh[i].alive) continue;
    if (i == mid_busy) continue;      /* in the middle of an operation on it */
    if (reach[i] && !content_ok(i)) X("sig=gc-canary line=%zu what=content of reachable object %d changed by the collection", curline, i);
  }
  for (size_t i = 0; i < gc->nslots; i++) if (gc->entries[i].hash && gc->entries[i].marked) { X("sig=gc-registry line=%zu what=mark bit left set after the sweep", curline); break; }
  stale_now = 0;
  n_x++; n_freed_total += nfreed; n_marked_total += nmarked;
}

static __attribute__((noinline)) void do_xcollect(Tok* words, int nw) {
  shadow_reach(words, nw, 0);
  mark_phases(words, nw);
  finish_collect("x");
}

/* a collection whose mark phase is left by an exception: the Mark instance of probe `id` throws */
static __attribute__((noinline)) void do_xraise(long id, Tok* words, int nw) {
  /* Which bits are set when the exception leaves depends on the order in which containers and the registry are enumerated, unless the
     probe is reached as a root word itself, for the first time, after everything before it has been traced completely: only then is the
     set dumped (and compared with the model's); otherwise `marked=*`. */
  int first = -1;
  for (int i = 0; i < nw && first < 0; i++) if (words[i].t == T_OBJ && words[i].v == id) first = i;
  int det = 0;
  if (first >= 0) { shadow_reach(words, first, 0); det = !reach[id]; }
  shadow_reach(words, nw, 0);
  var exc;
  armed_id = id;
  V_TRY(exc, mark_phases(words, nw));
  armed_id = -1;
  if (!exc) { finish_collect("xr completed"); return; }
  read_marks();
  if (det) O("xr raised marked=%s", set_text(mk, 1)); else O("xr raised marked=*");
  I("raise line=%zu exc=%s marked-before=%zu: GC_Sweep skipped, mark bits stay", curline, v_exc_name(exc), stale_before);
  stale_now = 1;
  n_x++;
}

static __attribute__((noinline)) void real_collect(void) { struct GC* gc = G(); GC_Mark(gc); GC_Sweep(gc); }
static __attribute__((noinline)) void scrub_stack(void) { volatile char pad[8192]; memset((void*)pad, 0, sizeof pad); }

static __attribute__((noinline)) void do_collect(void) {
  shadow_reach(NULL, 0, 1);
  scrub_stack();
  real_collect();
  n_collect_forced++;
  oracle_survivors("forced collection");
  size_t freed = 0;
  for (int i = 0; i <= maxid; i++) if (sh[i].used && sh[i].alive && !reach[i]) { sh[i].alive = 0; note_garbage(i); if ((sh[i].kind == K_P || sh[i].kind == K_M || sh[i].kind == K_Q) ? fin[i] > 0 : !GC_Mem_Ptr(G(), P(i))) freed++; }
  n_freed_total += freed;
  O("c live=%s", set_text(reach, 1));
  I("collect line=%zu unreachable-freed=%zu registered=%zu", curline, freed, G()->nitems);
}

/* full mode: the real GC_Mark, left by an exception thrown by the Mark instance of the (shadow-reachable) probe `id`.  No sweep: the bits
   GC_Mark had set stay in the registry.  Every later collection (threshold-triggered or forced) must still keep everything reachable. */
static __attribute__((noinline)) void real_mark(void) { GC_Mark(G()); }
static __attribute__((noinline)) void do_craise(long id) {
  struct GC* gc = G();
  size_t mit0 = gc->mitems;
  var exc;
  scrub_stack();
  gc->mitems = ((size_t)1) << 60;      /* no collection nested in this mark phase */
  armed_id = id;
  V_TRY(exc, real_mark());
  armed_id = -1;
  G()->mitems = mit0;
  if (!exc) {
    X("sig=gc-unmarked-reachable line=%zu what=GC_Mark completed although the Mark instance of the reachable probe %ld throws: the probe was not traced", curline, id);
    GC_Sweep(G());
    oracle_survivors("collection completed by craise");
    for (int i = 0; i <= maxid; i++) if (sh[i].used && sh[i].alive && !reach[i]) { sh[i].alive = 0; note_garbage(i); }
    O("craise completed");
    return;
  }
  size_t left = 0;
  for (size_t i = 0; i < gc->nslots; i++) if (gc->entries[i].hash && gc->entries[i].marked) left++;
  I("craise line=%zu exc=%s bits-left=%zu", curline, v_exc_name(exc), left);
  O("craise raised");
}

/* ---------------------------------------------------------------- a collection INSIDE a container operation
   xin <k> <tok>* | <op>      exact mode.   <op> is one of  pop <id> <idx> | arem <id> <idx> | aset <id> <idx> <tok> | push <id> <tok> | ins <id> <idx> <tok> | tset <id> <key> <tok> |
                              trem <id> <key> | clear <id> | trunc <id> <n> | assign <dst> <src> | concat <dst> <src>   on a container whose elements / values are
                              ProbeE (for assign / concat: the source's).  The k-th call (0-based) of a ProbeE destructor or Assign instance that the operation makes
                              runs an exact collection: TLS phase, root phase, then GC_Mark_Item on the words <tok>*, on the container itself and on the operand of
                              the operation (what the caller's frame holds); dump; real GC_Sweep.  Prints `O x marked=.. freed=..` from inside the operation, then
                              `O xin calls=<number of ProbeE calls the operation made> fired=<0|1>`.
   cin <k> | <op>             full mode: the k-th call allocates unreferenced objects until the allocation threshold triggers the real GC_Mark / GC_Sweep.
   The oracle's reference is the shadow graph AFTER the operation (plus the operand): whatever the container still holds when the operation completes must
   survive a collection that runs while the operation is in progress.
   Territory of known findings (a collection at that call reads freed or uninitialised memory in the unchanged tree): `O xin ub`, the operation with the
   collection runs in a forked child whose outcome is reported, the parent runs it without a collection. */
enum { I_NONE = 0, I_POP, I_AREM, I_ASET, I_PUSH, I_INS, I_TSET, I_TREM, I_CLEAR, I_TRUNC, I_ASSIGN, I_CONCAT };
typedef struct { int op; long id, a, src; Tok t; int has_t; } Inner;

static int inner_parse(char** w, int nw, Inner* q) {
  memset(q, 0, sizeof *q); q->src = -1;
  if (nw < 2) return 0;
  long id;
  if (!parse_long(w[1], &id) || !usable(id)) return 0;
  q->id = id; Sh* o = &sh[id];
  if (!(is_arr(o->kind) || is_map(o->kind)) || o->raw) return 0;
  if (owned(id)) return 0;       /* owned by a Box: the collection inside the operation roots the container itself — outside Box's ownership contract */
  if (!strcmp(w[0], "pop") || !strcmp(w[0], "arem")) {
    if (nw != 3 || !is_arr(o->kind) || !parse_long(w[2], &q->a) || q->a < 0 || q->a >= o->n) return 0;
    q->op = !strcmp(w[0], "pop") ? I_POP : I_AREM;
    if (q->op == I_AREM) { if (o->vt != E_X) return 0; for (int j = 0; j < o->n; j++) if (o->el[j].t == o->el[q->a].t && o->el[j].v == o->el[q->a].v) { q->a = j; break; } }
    return 1;
  }
  if (!strcmp(w[0], "aset")) {
    if (nw != 4 || !is_arr(o->kind) || !parse_long(w[2], &q->a) || q->a < 0 || q->a >= o->n || !parse_tok(w[3], &q->t) || !tok_ok(q->t)) return 0;
    if (!(q->t.t == T_OBJ || q->t.t == T_NIL)) return 0;
    q->op = I_ASET; q->has_t = 1; return 1;
  }
  if (!strcmp(w[0], "ins")) {
    /* push_at(self, x, idx): Array 0..n; List 0..n-1 (List_At(l, n) is out of bounds), or 0 on an empty List */
    if (nw != 4 || !is_arr(o->kind) || !parse_long(w[2], &q->a) || q->a < 0 || q->a > o->n || !parse_tok(w[3], &q->t) || !tok_ok(q->t)) return 0;
    if (!(q->t.t == T_OBJ || q->t.t == T_NIL)) return 0;
    if (o->kind == K_L && q->a == o->n && q->a != 0) return 0;
    q->op = I_INS; q->has_t = 1; return 1;
  }
  if (!strcmp(w[0], "push")) {
    if (nw != 3 || !is_arr(o->kind) || !parse_tok(w[2], &q->t) || !tok_ok(q->t) || !(q->t.t == T_OBJ || q->t.t == T_NIL)) return 0;
    q->op = I_PUSH; q->has_t = 1; return 1;
  }
  if (!strcmp(w[0], "tset")) {
    if (nw != 4 || !is_map(o->kind) || refkeys(o) || !parse_long(w[2], &q->a) || !parse_tok(w[3], &q->t) || !tok_ok(q->t) || !(q->t.t == T_OBJ || q->t.t == T_NIL)) return 0;
    q->op = I_TSET; q->has_t = 1; return 1;
  }
  if (!strcmp(w[0], "trem")) {
    if (nw != 3 || !is_map(o->kind) || refkeys(o) || !parse_long(w[2], &q->a) || map_find(o, q->a) < 0) return 0;
    q->op = I_TREM; return 1;
  }
  if (!strcmp(w[0], "clear")) { if (nw != 2) return 0; q->op = I_CLEAR; return 1; }
  if (!strcmp(w[0], "trunc")) {
    if (nw != 3 || !is_arr(o->kind) || !parse_long(w[2], &q->a) || q->a < 1 || q->a > o->n) return 0;
    q->op = I_TRUNC; return 1;
  }
  if (!strcmp(w[0], "assign") || !strcmp(w[0], "concat")) {
    if (nw != 3 || !parse_long(w[2], &q->src) || !usable(q->src) || q->src == id) return 0;
    Sh* os = &sh[q->src];
    if (os->raw || owned(q->src)) return 0;
    if (!strcmp(w[0], "assign")) {
      if (!((is_arr(o->kind) && is_arr(os->kind)) || (is_map(o->kind) && is_map(os->kind) && !refkeys(o) && !refkeys(os)))) return 0;
      q->op = I_ASSIGN;
    } else {
      if (!(is_arr(o->kind) && is_arr(os->kind) && o->vt == os->vt)) return 0;
      q->op = I_CONCAT;
    }
    return 1;
  }
  return 0;
}
/* the ProbeE calls the operation makes, in order: `nd` destructor calls, then `na` Assign calls (tset of an existing key in a Table: Assign first) */
static void inner_calls(Inner* q, int* nd, int* na) {
  Sh* o = &sh[q->id]; int x = o->vt == E_X; *nd = 0; *na = 0;
  switch (q->op) {
    case I_POP: case I_AREM: case I_TREM: *nd = x; break;
    case I_ASET: case I_PUSH: case I_INS: *na = x; break;
    case I_TSET: *na = x; *nd = (x && o->kind == K_T && map_find(o, q->a) >= 0); break;
    case I_CLEAR: *nd = x ? o->n : 0; break;
    case I_TRUNC: *nd = x ? o->n - (int)q->a : 0; break;
    case I_ASSIGN: *nd = x ? o->n : 0; *na = sh[q->src].vt == E_X ? sh[q->src].n : 0; break;
    case I_CONCAT: *na = sh[q->src].vt == E_X ? sh[q->src].n : 0; break;
  }
}
/* 1 = the collection at call k is modelled; 0 = known-finding territory (freed / uninitialised cells are presented); -1 = the order of the source's
   iteration is not modelled (a Table, or String keys): refused */
static int inner_safe(Inner* q, int k) {
  Sh* o = &sh[q->id]; int nd, na; inner_calls(q, &nd, &na);
  if (k < 0 || k >= nd + na) return 1;
  int chained = (o->kind == K_L || o->kind == K_E);      /* X_Clear frees cell after cell while the cells stay linked */
  if (q->op == I_TSET) return 1;
  if (k < nd) return (q->op == I_CLEAR || q->op == I_ASSIGN) ? (chained ? k == 0 : 1) : 1;
  int j = k - nd;
  if (q->op == I_ASSIGN || q->op == I_CONCAT) {
    if (o->kind == K_A) return j == na - 1;                /* nitems counts slots that are not constructed yet */
    if (is_map(o->kind)) return (na == 1 || (sh[q->src].kind == K_E && sh[q->src].kt == E_I)) ? 1 : -1;
  }
  return 1;
}
static void inner_shadow(Inner* q) {
  Sh* o = &sh[q->id];
  switch (q->op) {
    case I_POP: case I_AREM: memmove(o->el + q->a, o->el + q->a + 1, (o->n - q->a - 1) * sizeof(Tok)); o->n--; break;
    case I_ASET: o->el[q->a] = q->t; break;
    case I_PUSH: sh_grow(o); o->el[o->n++] = q->t; break;
    case I_INS: sh_grow(o); memmove(o->el + q->a + 1, o->el + q->a, (o->n - q->a) * sizeof(Tok)); o->el[q->a] = q->t; o->n++; break;
    case I_TSET: { int i = map_find(o, q->a); if (i < 0) { sh_grow(o); i = o->n++; o->key[i] = q->a; } o->el[i] = q->t; break; }
    case I_TREM: { int i = map_find(o, q->a); o->el[i] = o->el[o->n - 1]; o->key[i] = o->key[o->n - 1]; o->n--; break; }
    case I_CLEAR: o->n = 0; break;
    case I_TRUNC: o->n = (int)q->a; break;
    case I_ASSIGN: { Sh* os = &sh[q->src]; if (is_map(o->kind)) o->kt = os->kt; o->vt = os->vt; shadow_copy_content(o, os); break; }
    case I_CONCAT: { Sh* os = &sh[q->src]; int m = os->n; for (int i = 0; i < m; i++) { sh_grow(o); o->el[o->n++] = os->el[i]; } break; }
  }
}
/* sorted Int keys of a Tree (the order of foreach over it) — used by nobody but kept for the I line */
static __attribute__((noinline)) void inner_real(Inner* q, Tok elem_before) {
  Sh* o = &sh[q->id]; var p = P((int)q->id);
  switch (q->op) {
    case I_POP: pop_at(p, $I(q->a)); break;
    case I_AREM: rem(p, $(ProbeE, tok_word(elem_before))); break;
    case I_ASET: set(p, $I(q->a), ELEM(o->vt, q->t)); break;
    case I_PUSH: push(p, ELEM(o->vt, q->t)); break;
    case I_INS: push_at(p, ELEM(o->vt, q->t), $I(q->a)); break;
    case I_TSET: set(p, KEY(o, q->a), ELEM(o->vt, q->t)); break;
    case I_TREM: rem(p, KEY(o, q->a)); break;
    case I_CLEAR: resize(p, 0); break;
    case I_TRUNC: resize(p, (size_t)q->a); break;
    case I_ASSIGN: assign(p, P((int)q->src)); break;
    case I_CONCAT: concat(p, P((int)q->src)); break;
  }
}

static Tok mid_words[48]; static int mid_nw = 0;
static __attribute__((noinline)) void finish_collect(const char* tag);
static __attribute__((noinline)) void mark_phases(Tok* words, int nw);
static void mid_collect_exact(void) { mark_phases(mid_words, mid_nw); finish_collect("x"); }
static int mid_collected = 0;
static __attribute__((noinline)) void scrub_stack(void);
static void mid_collect_full(void) {
  struct GC* gc = G(); size_t mit0 = gc->mitems;
  scrub_stack();
  for (long i = 0; i < 400000 && !mid_collected; i++) {
    size_t nit0 = gc->nitems;
    var g = alloc(Ref); (void)g;
    if (gc->mitems != mit0 || gc->nitems != nit0 + 1) { n_collect_auto++; mid_collected = 1; }
  }
}
/* the operation with a collection at call k, in a forked child (known-finding territory): 0 = completed, otherwise how it ended */
static int mid_child(Inner* q, int k, Tok elem_before, void (*fn)(void)) {
  fflush(stdout);
  pid_t pid = fork();
  if (pid == 0) {
    alarm(30);
    int devnull = open("/dev/null", 1); if (devnull >= 0) { dup2(devnull, 2); dup2(devnull, 1); }
    var exc;
    hook_fn = fn; hook_fired = 0; hook_calls = 0; hook_count = k; mid_collected = 0;
    V_TRY(exc, inner_real(q, elem_before));
    hook_count = -1;
    exiting = 1;
    _exit(exc ? 4 : 0);
  }
  int st = 0; waitpid(pid, &st, 0);
  if (WIFEXITED(st) && WEXITSTATUS(st) == 0) return 0;
  return WIFSIGNALED(st) ? 1000 + WTERMSIG(st) : WEXITSTATUS(st);
}
static const char* inner_site(Inner* q) {
  Sh* o = &sh[q->id];
  if (q->op == I_CLEAR) return o->kind == K_L ? "List_Clear" : "Tree_Clear_Entry";
  if (q->op == I_CONCAT) return "Array_Concat";
  if (o->kind == K_A) return "Array_Assign";
  return o->kind == K_L ? "List_Assign -> List_Clear" : "Tree_Assign -> Tree_Clear_Entry";
}
/* `xin` / `cin` after parsing: words[0..nw) are the explicit root words (exact mode) */
static __attribute__((noinline)) void do_mid(Inner* q, long k, Tok* words, int nw, int full) {
  Sh* o = &sh[q->id];
  Tok elem_before = { T_NIL, 0 };
  if (q->op == I_AREM) elem_before = o->el[q->a];
  int safe = inner_safe(q, (int)k);
  int nd, na; inner_calls(q, &nd, &na);
  if (safe == 0) {
    int rc = mid_child(q, (int)k, elem_before, full ? mid_collect_full : mid_collect_exact);
    int uninit = (o->kind == K_A);
    if (rc) X("sig=%s line=%zu what=a collection that runs inside call %ld of the element %s during %s %s (%s %d)",
              uninit ? "gc-mid-op-uninit-slots" : "gc-mid-op-freed-cells", curline, k, k < nd ? "destructors" : "Assign calls", inner_site(q),
              uninit ? "reads element slots that nitems already counts but that are not constructed yet" : "walks cells that are already freed but still linked",
              rc >= 1000 ? "signal" : "exit status", rc >= 1000 ? rc - 1000 : rc);
    I("mid-ub line=%zu site=%s call=%ld outcome=%d", curline, inner_site(q), k, rc);
    inner_shadow(q);
    hook_count = -1; hook_calls = 0;
    inner_real(q, elem_before);
    if (!content_ok((int)q->id)) X("sig=gc-retype-content line=%zu what=container %ld differs from its shadow after the operation", curline, q->id);
    if (mode_full) { checkpoint_dead(); O("cin ub live=%s", set_text(reach, 1)); } else O("xin ub");
    return;
  }
  /* the shadow AFTER the operation, plus the container and the operand as root words, is what must survive */
  inner_shadow(q);
  mid_nw = 0;
  for (int i = 0; i < nw; i++) mid_words[mid_nw++] = words[i];
  Tok self = { T_OBJ, q->id }; mid_words[mid_nw++] = self;
  if (q->has_t) mid_words[mid_nw++] = q->t;
  if (q->src >= 0) { Tok s_ = { T_OBJ, q->src }; mid_words[mid_nw++] = s_; }
  if (full) shadow_reach(NULL, 0, 1); else shadow_reach(mid_words, mid_nw, 0);
  mid_busy = (int)q->id; mid_collected = 0;
  hook_fn = full ? mid_collect_full : mid_collect_exact;
  hook_fired = 0; hook_calls = 0; hook_count = k;
  if (full) scrub_stack();
  inner_real(q, elem_before);
  hook_count = -1; mid_busy = -1;
  pin();
  if ((int)hook_calls != nd + na) X("sig=gc-mid-op-calls line=%zu what=the operation made %ld ProbeE destructor / Assign calls, %d expected", curline, hook_calls, nd + na);
  if (!content_ok((int)q->id)) X("sig=gc-retype-content line=%zu what=container %ld differs from its shadow after the operation", curline, q->id);
  if (full) {
    if (mid_collected) oracle_survivors("collection inside a container operation");
    checkpoint_dead();
    O("cin calls=%ld fired=%d live=%s", hook_calls, hook_fired, set_text(reach, 1));
    I("cin line=%zu collected=%d", curline, mid_collected);
  } else {
    O("xin calls=%ld fired=%d", hook_calls, hook_fired);
  }
}

/* ---------------------------------------------------------------- containers of ProbeDeep elements: a collection at an ALLOCATION POINT of an element's Assign
   dpush / dins / daset / dtset / dconcat / dassign (see the head of this file).  With `xin k` / `cin k` the k-th allocation point of the operation runs
   the collection: exact = TLS phase, root phase, GC_Mark_Item on the words, the container and the operand, then the real GC_Sweep; full = allocate
   until the threshold triggers the real GC_Mark / GC_Sweep.  The oracle's reference: the shadow graph AFTER the operation, as far as its objects exist.
   Territory of known findings runs in a forked child: KF-C01-array-uninit-slots (an Array filled from >= 2 elements: any element but the last) and
   KF-C01-unlinked-entry-assign (List_Push / List_Push_At / Table_Set_Move / Tree_Set on a new key assign the entry while it lies outside the
   structure: a stored field is presented by no Mark instance, the collection finalises the fresh object). */
enum { D_NONE = 0, D_PUSH, D_INS, D_ASET, D_TSET, D_CONCAT, D_ASSIGN };
typedef struct { int op; long id, a, base, src; Tok t; } DInner;

static int fresh_ok(long base, long n) {
  if (base < 0 || base + n > MAXOBJ) return 0;
  for (long i = 0; i < n; i++) if (sh[base + i].used) return 0;
  return 1;
}
static int deep_parse(char** w, int nw, DInner* q) {
  memset(q, 0, sizeof *q); q->src = -1; q->t.t = T_NIL;
  if (nw < 2 || stale_now) return 0;
  long id;
  if (!parse_long(w[1], &id) || !usable(id)) return 0;
  Sh* o = &sh[id]; q->id = id;
  if (!is_deep(o) || o->raw || owned(id)) return 0;
  int one = 0;
  if (!strcmp(w[0], "dpush")) { if (nw != 4 || !is_arr(o->kind)) return 0; q->op = D_PUSH; one = 2; }
  else if (!strcmp(w[0], "dins")) {
    if (nw != 5 || !is_arr(o->kind) || !parse_long(w[2], &q->a) || q->a < 0 || q->a > o->n || (o->kind == K_L && q->a == o->n && q->a != 0)) return 0;
    q->op = D_INS; one = 3;
  }
  else if (!strcmp(w[0], "daset")) { if (nw != 5 || !is_arr(o->kind) || !parse_long(w[2], &q->a) || q->a < 0 || q->a >= o->n) return 0; q->op = D_ASET; one = 3; }
  else if (!strcmp(w[0], "dtset")) { if (nw != 5 || !is_map(o->kind) || o->kt != E_I || !parse_long(w[2], &q->a)) return 0; q->op = D_TSET; one = 3; }
  else if (!strcmp(w[0], "dconcat") || !strcmp(w[0], "dassign")) {
    if (nw != 4 || !parse_long(w[2], &q->src) || !usable(q->src) || q->src == id) return 0;
    Sh* os = &sh[q->src];
    if (os->raw || owned(q->src) || !is_deep(os) || !is_arr(o->kind) || !is_arr(os->kind)) return 0;
    if (!parse_long(w[3], &q->base) || !fresh_ok(q->base, 3L * os->n)) return 0;
    q->op = !strcmp(w[0], "dconcat") ? D_CONCAT : D_ASSIGN;
    return 1;
  }
  else return 0;
  if (!parse_long(w[one], &q->base) || !fresh_ok(q->base, 3)) return 0;
  if (!parse_tok(w[one + 1], &q->t) || !tok_ok(q->t) || !(q->t.t == T_OBJ || q->t.t == T_NIL)) return 0;
  return 1;
}
static int deep_count(DInner* q) { return (q->op == D_CONCAT || q->op == D_ASSIGN) ? sh[q->src].n : 1; }
/* 1: modelled; 0: KF-C01-array-uninit-slots; 2: KF-C01-unlinked-entry-assign */
static int deep_safe(DInner* q, long k) {
  Sh* o = &sh[q->id]; int ne = deep_count(q);
  if (k >= 4L * ne) return 1;
  long i = k / 4, kk = k % 4;
  switch (o->kind) {
    case K_A: return ((q->op == D_CONCAT || q->op == D_ASSIGN) && i + 1 != ne) ? 0 : 1;
    case K_L: return (q->op == D_ASET || kk == 0) ? 1 : 2;
    case K_T: return kk == 0 ? 1 : 2;
    default:  return (map_find(o, q->a) >= 0 || kk == 0) ? 1 : 2;
  }
}
/* full mode: a threshold collection may run at ANY allocation of the operation, so only operations that are modelled at every point are accepted */
static int deep_all_safe(DInner* q) { for (long k = 0; k < 4L * deep_count(q); k++) if (deep_safe(q, k) != 1) return 0; return 1; }
static void deep_shadow(DInner* q) {
  Sh* o = &sh[q->id]; Tok e = { T_OBJ, q->base };
  switch (q->op) {
    case D_PUSH: sh_grow(o); o->el[o->n++] = e; break;
    case D_INS: sh_grow(o); memmove(o->el + q->a + 1, o->el + q->a, (o->n - q->a) * sizeof(Tok)); o->el[q->a] = e; o->n++; break;
    case D_ASET: o->el[q->a] = e; break;
    case D_TSET: { int i = map_find(o, q->a); if (i < 0) { sh_grow(o); i = o->n++; o->key[i] = q->a; } o->el[i] = e; break; }
    case D_ASSIGN: o->n = 0;   /* fall through */
    case D_CONCAT: { int m = sh[q->src].n; for (int i = 0; i < m; i++) { sh_grow(o); o = &sh[q->id]; Tok x = { T_OBJ, q->base + 3L * i }; o->el[o->n++] = x; } break; }
  }
}
static __attribute__((noinline)) void deep_real(DInner* q) {
  Sh* o = &sh[q->id]; var p = P((int)q->id);
  deep_next = q->base; deep_idx = 0; deep_src = q->src; deep_tok = q->t;
  switch (q->op) {
    case D_PUSH: push(p, ELEM(E_D, q->t)); break;
    case D_INS: push_at(p, ELEM(E_D, q->t), $I(q->a)); break;
    case D_ASET: set(p, $I(q->a), ELEM(E_D, q->t)); break;
    case D_TSET: set(p, KEY(o, q->a), ELEM(E_D, q->t)); break;
    case D_CONCAT: concat(p, P((int)q->src)); break;
    case D_ASSIGN: assign(p, P((int)q->src)); break;
  }
  deep_src = -1;
}
/* the collection at an allocation point: the reference is the shadow graph after the operation, as far as its objects exist NOW */
static void deep_collect_exact(void) { shadow_reach(mid_words, mid_nw, 0); mark_phases(mid_words, mid_nw); finish_collect("x"); }
static const char* deep_site(DInner* q) {
  Sh* o = &sh[q->id];
  if (o->kind == K_A) return q->op == D_CONCAT ? "Array_Concat" : "Array_Assign";
  if (o->kind == K_L) return q->op == D_INS ? "List_Push_At" : "List_Push";
  return o->kind == K_T ? "Table_Set_Move" : "Tree_Set";
}
/* the operation with a collection at allocation point k, in a forked child: 0 = completed and lost nothing, 5 = a fresh object that the
   container holds was finalised, otherwise how it ended */
static int deepop_child(DInner* q, long k, int full) {
  fflush(stdout);
  pid_t pid = fork();
  if (pid == 0) {
    alarm(30);
    int devnull = open("/dev/null", 1); if (devnull >= 0) { dup2(devnull, 2); dup2(devnull, 1); }
    var exc;
    int ne = deep_count(q);
    hook_fn = full ? mid_collect_full : deep_collect_exact; hook_fired = 0; deep_calls = 0; hook_count = -1; deep_hook = k; mid_collected = 0;
    V_TRY(exc, deep_real(q));
    deep_hook = -1;
    int lost = 0;
    for (long i = 0; i < 3L * ne; i++) if (fin[q->base + i]) lost = 1;
    exiting = 1;
    _exit(exc ? 4 : lost ? 5 : 0);
  }
  int st = 0; waitpid(pid, &st, 0);
  if (WIFEXITED(st) && WEXITSTATUS(st) == 0) return 0;
  return WIFSIGNALED(st) ? 1000 + WTERMSIG(st) : WEXITSTATUS(st);
}
/* mode 0: plain; 1: xin (exact); 2: cin (full) */
static __attribute__((noinline)) void do_deep(DInner* q, long k, Tok* words, int nw, int mode) {
  int ne = deep_count(q);
  int safe = mode ? deep_safe(q, k) : 1;
  mid_nw = 0;
  for (int i = 0; i < nw; i++) mid_words[mid_nw++] = words[i];
  Tok self = { T_OBJ, q->id }; mid_words[mid_nw++] = self;
  if (q->src >= 0) { Tok s_ = { T_OBJ, q->src }; mid_words[mid_nw++] = s_; } else mid_words[mid_nw++] = q->t;
  if (safe != 1) {
    deep_shadow(q);        /* the child's collection checks against the shadow after the operation */
    int rc = deepop_child(q, k, mode == 2);
    if (rc) X("sig=%s line=%zu what=a collection at allocation point %ld of the element Assign calls of %s %s (%s %d)",
              safe == 0 ? "gc-mid-op-uninit-slots" : "gc-mid-op-unlinked-entry", curline, k, deep_site(q),
              safe == 0 ? "reads element slots that nitems already counts but that are not constructed yet"
                        : "finds the entry under construction outside the structure: a field that is already stored is presented by no Mark instance and the fresh object is finalised",
              rc >= 1000 ? "signal" : "exit status", rc >= 1000 ? rc - 1000 : rc);
    I("deep-kf line=%zu site=%s point=%ld outcome=%d", curline, deep_site(q), k, rc);
    hook_count = -1; deep_hook = -1; deep_calls = 0;
    deep_real(q);
    pin();
    if (!content_ok((int)q->id)) X("sig=gc-retype-content line=%zu what=container %ld differs from its shadow after the operation", curline, q->id);
    if (mode == 2) { checkpoint_dead(); O("cin ub live=%s", set_text(reach, 1)); } else O("xin ub");
    return;
  }
  deep_shadow(q);
  mid_busy = (int)q->id; mid_collected = 0;
  hook_fn = mode == 2 ? mid_collect_full : deep_collect_exact;
  hook_fired = 0; deep_calls = 0; hook_count = -1; deep_hook = mode ? k : -1;
  if (mode_full) scrub_stack();
  deep_real(q);
  deep_hook = -1; mid_busy = -1;
  pin();
  if ((int)deep_calls != 4 * ne) X("sig=gc-mid-op-calls line=%zu what=the operation passed %ld allocation points of ProbeDeep_Assign, %d expected", curline, deep_calls, 4 * ne);
  if (deep_next != q->base + 3L * ne) X("sig=gc-mid-op-calls line=%zu what=the operation made %ld fresh objects, %d expected", curline, deep_next - q->base, 3 * ne);
  if (!content_ok((int)q->id)) X("sig=gc-retype-content line=%zu what=container %ld differs from its shadow after the operation", curline, q->id);
  if (mode_full) {
    /* threshold collections may have run at any allocation of the operation: everything reachable now must have survived them */
    shadow_reach(NULL, 0, 1);
    oracle_survivors(mode == 2 ? "collection at an allocation point of a container operation" : "container operation that allocates");
    checkpoint_dead();
    if (mode == 2) { O("cin calls=%ld fired=%d live=%s", deep_calls, hook_fired, set_text(reach, 1)); I("cin line=%zu collected=%d", curline, mid_collected); }
    else O("ok live=%s", set_text(reach, 1));
  } else if (mode == 1) O("xin calls=%ld fired=%d", deep_calls, hook_fired);
  else O("ok");
}
/* an op of the base interpreter that would touch a container of ProbeDeep elements in a way only the deep ops handle */
static int deep_id(const char* s) { long id; return parse_long(s, &id) && usable(id) && is_deep(&sh[id]); }
static int touches_deep(char** w, int nw) {
  if (nw < 2) return 0;
  if (!strcmp(w[0], "push") || !strcmp(w[0], "aset") || !strcmp(w[0], "tset") || !strcmp(w[0], "arem") || !strcmp(w[0], "ins")) return deep_id(w[1]);
  if (!strcmp(w[0], "assign") || !strcmp(w[0], "concat")) return nw >= 3 && (deep_id(w[1]) || deep_id(w[2]));
  if (!strcmp(w[0], "copy")) return nw >= 3 && deep_id(w[2]);
  return 0;
}

/* chain of n objects id..id+n-1 (all of one kind), each pointing to the next */
static int chain_kind(const char* s, int* kt, int* vt) { return (strlen(s) == 1 && strchr("RPAHULE", s[0])) ? kind_letter(s[0], kt, vt) : K_NONE; }
static void link_to(int a, int b) {   /* a -> b through a's representation */
  Tok t = { T_OBJ, b };
  Sh* o = &sh[a];
  if (is_words(o->kind)) { word_store(a, 0, P(b)); o->el[0] = t; }
  else if (is_seq(o->kind)) seq_push(a, t);
  else if (refkeys(o)) map_set(a, b, t);
  else map_set(a, 7, t);
}
static __attribute__((noinline)) void do_chain(long id, long n, int kind, int slot, int kt, int vt) {
  /* built back to front so that, in full mode, every object is rooted as soon as it exists (through slot `slot`) */
  for (long i = n - 1; i >= 0; i--) {
    do_new(id + i, kind, 1, 0, -1, slot < 0 ? -1 : slot + (int)(i & 1), kt, vt);
    if (i < n - 1) link_to((int)(id + i), (int)(id + i + 1));
  }
}

static void deep_child(long n, int kind) {
  fflush(stdout);
  pid_t pid = fork();
  if (pid == 0) {
    alarm(60);
    exiting = 1;
    struct GC* gc = G(); gc->mitems = ((size_t)1) << 60;
    var head = NULL;
    for (long i = 0; i < n; i++) {
      var o;
      if (kind == K_R) { o = alloc(Ref); ((struct Ref*)o)->val = head; }
      else if (kind == K_P) { o = alloc(Probe1); ((struct Probe1*)o)->slot[0] = head; }
      else if (kind == K_A) { o = new(Array, Ref); if (head) push(o, $R(head)); }
      else { o = new(Tuple); if (head) push(o, head); }
      gc->mitems = ((size_t)1) << 60;
      head = o;
    }
    GC_Mark_Item(gc, head);
    size_t marked = 0;
    for (size_t i = 0; i < gc->nslots; i++) if (gc->entries[i].hash && gc->entries[i].marked) marked++;
    _exit(marked == (size_t)n ? 0 : 3);
  }
  int st = 0; waitpid(pid, &st, 0);
  if (WIFEXITED(st) && WEXITSTATUS(st) == 0) I("deep n=%ld outcome=ok", n);
  else {
    I("deep n=%ld outcome=%s%d", n, WIFSIGNALED(st) ? "signal" : "exit", WIFSIGNALED(st) ? WTERMSIG(st) : WEXITSTATUS(st));
    X("sig=gc-deep-chain-overflow line=%zu what=marking a chain of %ld objects did not complete (%s %d): the marker recurses once per link",
      curline, n, WIFSIGNALED(st) ? "signal" : "exit status", WIFSIGNALED(st) ? WTERMSIG(st) : WEXITSTATUS(st));
  }
}

/* known finding KF-C01-dangling-tuple-item, in a forked child: del(x) while a heap Tuple / user Mark instance still holds x */
static void dangle_child(int kind) {
  fflush(stdout);
  pid_t pid = fork();
  if (pid == 0) {
    alarm(30);
    exiting = 1;
    int devnull = open("/dev/null", 1); if (devnull >= 0) dup2(devnull, 2);
    struct GC* gc = G(); gc->mitems = ((size_t)1) << 60;
    var x = alloc(Ref);
    var t;
    if (kind == K_H) t = new(Tuple, x); else { t = alloc(ProbeM); ((struct ProbeM*)t)->slot[1] = x; }
    gc->mitems = ((size_t)1) << 60;
    del(x);
    gc->mitems = ((size_t)1) << 60;
    GC_Mark_Item(gc, t);            /* what the stack scan does with a (possibly stale) word that points at t */
    _exit(0);
  }
  int st = 0; waitpid(pid, &st, 0);
  if (WIFEXITED(st) && WEXITSTATUS(st) == 0) I("dangle outcome=ok");
  else {
    I("dangle outcome=%s%d", WIFSIGNALED(st) ? "signal" : "exit", WIFSIGNALED(st) ? WTERMSIG(st) : WEXITSTATUS(st));
    X("sig=gc-dangling-tuple-item line=%zu what=marking a %s that holds a pointer to an explicitly deleted object read freed memory (%s %d)",
      curline, kind == K_H ? "heap Tuple" : "user Mark instance", WIFSIGNALED(st) ? "signal" : "exit status", WIFSIGNALED(st) ? WTERMSIG(st) : WEXITSTATUS(st));
  }
}

/* known finding KF-C01-tuple-aliases-elements, in a forked child: Tuple_Assign(t, array) stores get(array, i), i.e. pointers to the
   elements embedded in the source's storage; once that storage is reallocated or freed the Tuple dangles and the marker reads freed memory */
static void alias_child(int kind) {
  fflush(stdout);
  pid_t pid = fork();
  if (pid == 0) {
    alarm(30);
    exiting = 1;
    int devnull = open("/dev/null", 1); if (devnull >= 0) dup2(devnull, 2);
    struct GC* gc = G(); gc->mitems = ((size_t)1) << 60;
    var x = alloc(Ref);
    var src = kind == K_A ? new(Array, Ref, $R(x)) : new(List, Ref, $R(x));
    var t = new(Tuple);
    gc->mitems = ((size_t)1) << 60;
    assign(t, src);
    if (kind == K_A) { for (int i = 0; i < 64; i++) push(src, $R(NULL)); } else resize(src, 0);
    gc->mitems = ((size_t)1) << 60;
    GC_Mark_Item(gc, t);            /* what the stack scan / any holder of t does at the next collection */
    _exit(0);
  }
  int st = 0; waitpid(pid, &st, 0);
  if (WIFEXITED(st) && WEXITSTATUS(st) == 0) I("alias outcome=ok");
  else {
    I("alias outcome=%s%d", WIFSIGNALED(st) ? "signal" : "exit", WIFSIGNALED(st) ? WTERMSIG(st) : WEXITSTATUS(st));
    X("sig=gc-tuple-aliases-elements line=%zu what=marking a heap Tuple that was assigned from %s whose element storage has since been %s read freed memory (%s %d)",
      curline, kind == K_A ? "an Array" : "a List", kind == K_A ? "reallocated" : "freed", WIFSIGNALED(st) ? "signal" : "exit status", WIFSIGNALED(st) ? WTERMSIG(st) : WEXITSTATUS(st));
  }
}

/* known finding KF-C01-type-outlived, in a forked child: x = new(T) for a Type T made at run time.  `-`: nothing but x's header refers to T;
   `r`: T is root-registered; `s`: the program also keeps T in a root word.  Two exact collections with x as a root word: the first must keep T
   (it is reachable through the header of a reachable object), the second must run to completion. */
static void type_child(char anchor) {
  fflush(stdout);
  int pfd[2]; if (pipe(pfd) != 0) { O("typechild %c pipe-failed", anchor); return; }
  pid_t pid = fork();
  if (pid == 0) {
    alarm(30);
    exiting = 1;
    close(pfd[0]);
    int devnull = open("/dev/null", 1); if (devnull >= 0) dup2(devnull, 2);
    struct GC* gc = G(); gc->mitems = ((size_t)1) << 60;
    var T = make_rt_type(anchor == 'r');
    gc->mitems = ((size_t)1) << 60;
    var x = alloc(T);
    gc->mitems = ((size_t)1) << 60;
    uintptr_t tm = ((uintptr_t)T) ^ MASK;
    for (int round = 0; round < 2; round++) {
      for (size_t i = 0; i < gc->nslots; i++) gc->entries[i].marked = false;
      for (size_t i = 0; i < gc->nslots; i++)
        if (gc->entries[i].hash && gc->entries[i].root && !gc->entries[i].marked) { gc->entries[i].marked = true; GC_Recurse(gc, gc->entries[i].ptr); }
      GC_Mark_Item(gc, x);
      if (anchor == 's') GC_Mark_Item(gc, (var)(tm ^ MASK));
      GC_Sweep(gc);
      gc->mitems = ((size_t)1) << 60;
      if (round == 0) { char c = GC_Mem_Ptr(gc, (var)(tm ^ MASK)) ? 'K' : 'S'; if (write(pfd[1], &c, 1) != 1) _exit(5); }
    }
    _exit(GC_Mem_Ptr(gc, x) ? 0 : 6);
  }
  close(pfd[1]);
  char c = '?'; if (read(pfd[0], &c, 1) != 1) c = '?';
  close(pfd[0]);
  int st = 0; waitpid(pid, &st, 0);
  int ok2 = WIFEXITED(st) && WEXITSTATUS(st) == 0;
  O("typechild %c type=%s second=%s", anchor, c == 'K' ? "kept" : c == 'S' ? "released" : "unknown", ok2 ? "completed" : "failed");
  if (c != 'K' || !ok2) {
    I("typechild outcome=%s%d", WIFSIGNALED(st) ? "signal" : "exit", WIFSIGNALED(st) ? WTERMSIG(st) : WEXITSTATUS(st));
    X("sig=gc-type-outlived line=%zu what=the run-time Type of a reachable object was %s by a collection (the header's type pointer is not traced); the next collection %s (%s %d)",
      curline, c == 'K' ? "kept" : "released", ok2 ? "completed" : "did not complete: GC_Recurse read the released Type",
      WIFSIGNALED(st) ? "signal" : "exit status", WIFSIGNALED(st) ? WTERMSIG(st) : WEXITSTATUS(st));
  }
}

/* ---- walk <id> (extension round): the container's Mark instance is called with a RECORDING callback; the direct oracle enumerates the occupied
   positions on its own — Array / List elements through get(c, i), Table slots by their hash word, Tree nodes by descent from the root, Tuple items
   up to the Terminal — and demands that each is handed over exactly once and nothing else is ("Mark presents every occupied position"). */
#define WALK_MAX (1 << 16)
typedef struct { uintptr_t p; long pos; } WalkP;
static WalkP* walk_got = NULL; static WalkP* walk_exp = NULL; static size_t walk_n = 0, walk_e = 0; static int walk_over = 0;
static long n_walks = 0, n_walk_pos = 0, n_walk_empty = 0, n_walk_last = 0, n_walk_first = 0, n_walk_wrap = 0, n_walk_kind[5] = {0, 0, 0, 0, 0};
static void walk_cb(var rec, void* p) { (void)rec; if (walk_n < WALK_MAX) { walk_got[walk_n].p = (uintptr_t)p; walk_got[walk_n].pos = (long)walk_n; walk_n++; } else walk_over = 1; }
static void walk_want(var p, long pos) { if (walk_e < WALK_MAX) { walk_exp[walk_e].p = (uintptr_t)p; walk_exp[walk_e].pos = pos; walk_e++; } else walk_over = 1; }
static int walk_cmp(const void* a, const void* b) { uintptr_t x = ((const WalkP*)a)->p, y = ((const WalkP*)b)->p; return x < y ? -1 : x > y; }
static void walk_tree(struct Tree* m, var node, long* pos) {
  if (node == NULL || walk_over) return;
  walk_tree(m, *Tree_Left(m, node), pos);
  walk_want(Tree_Key(m, node), *pos); walk_want(Tree_Val(m, node), *pos); (*pos)++;
  walk_tree(m, *Tree_Right(m, node), pos);
}
static __attribute__((noinline)) void do_walk(int id, var c, int kind, int shn) {   /* id < 0: the table of current(Thread) */
  if (!walk_got) { walk_got = malloc(sizeof(WalkP) * WALK_MAX); walk_exp = malloc(sizeof(WalkP) * WALK_MAX); }
  walk_n = 0; walk_e = 0; walk_over = 0;
  struct Mark* m = instance(c, Mark);
  if (m && m->mark) m->mark(c, (var)walk_got, (void(*)(var,void*))walk_cb);
  long npos = 0, total = 0;
  if (is_arr(kind)) {
    npos = (long)len(c); total = npos;
    for (long i = 0; i < npos; i++) walk_want(get(c, $I(i)), i);
    n_walk_kind[kind == K_A ? 0 : 1]++;
  } else if (kind == K_T) {
    struct Table* t = c; total = (long)t->nslots;
    for (size_t i = 0; i < t->nslots; i++) {
      if (Table_Key_Hash(t, i) == 0) continue;
      walk_want(Table_Key(t, i), (long)i); walk_want(Table_Val(t, i), (long)i); npos++;
      if (i + 1 == t->nslots) n_walk_last++;
      if (i == 0) n_walk_first++;
      if (Table_Key_Hash(t, i) - 1 > i) n_walk_wrap++;     /* an entry that wrapped round the end of the slot array */
    }
    n_walk_kind[2]++;
  } else if (kind == K_E) {
    struct Tree* t = c; walk_tree(t, t->root, &npos); total = npos;
    n_walk_kind[3]++;
  } else {
    struct Tuple* t = c; npos = (long)len(c); total = npos;
    for (long i = 0; i < npos; i++) walk_want(t->items[i], i);
    n_walk_kind[4]++;
  }
  n_walks++; n_walk_pos += npos; if (npos == 0) n_walk_empty++;
  size_t calls = walk_n, missing = 0, extra = 0; long firstmiss = -1;
  if (walk_over) { O("walk overflow"); return; }
  qsort(walk_got, walk_n, sizeof(WalkP), walk_cmp); qsort(walk_exp, walk_e, sizeof(WalkP), walk_cmp);
  size_t i = 0, j = 0;
  while (i < walk_e || j < walk_n) {
    if (j >= walk_n || (i < walk_e && walk_exp[i].p < walk_got[j].p)) { missing++; if (firstmiss < 0 || walk_exp[i].pos > firstmiss) firstmiss = walk_exp[i].pos; i++; }
    else if (i >= walk_e || walk_got[j].p < walk_exp[i].p) { extra++; j++; }
    else { i++; j++; }
  }
  if (shn >= 0 && npos != shn) X("sig=gc-walk-shadow line=%zu what=container %d holds %ld entries, the shadow %d", curline, id, npos, shn);
  if (missing) X("sig=gc-mark-skips-position line=%zu what=the Mark instance of container %d does not hand %zu of its %ld occupied position(s) to the callback (position %ld of %ld among them)",
                 curline, id, missing, npos, firstmiss, total);
  if (extra) X("sig=gc-mark-extra-position line=%zu what=the Mark instance of container %d hands %zu pointer(s) to the callback that are no occupied position of it (or one twice)", curline, id, extra);
  if (id < 0) O("walk tls missing=%zu extra=%zu", missing, extra);
  else O("walk n=%ld calls=%zu missing=%zu extra=%zu", npos, calls, missing, extra);
}

#define BAD do { O("bad-op"); goto next; } while (0)

int main(int argc, char** argv) {
  v_init();
  if (argc < 2) { fprintf(stderr, "usage: h_gcmark <opfile>\n"); return 2; }
  volatile var roots[NROOTS];
  for (int i = 0; i < NROOTS; i++) roots[i] = NULL;
  g_roots = roots;
  sh = calloc(MAXOBJ, sizeof(Sh)); hid = calloc(MAXOBJ, sizeof(uintptr_t)); reach = calloc(MAXOBJ + 2, 1); ghost = calloc(MAXOBJ, 1);
  fin = calloc(MAXOBJ, sizeof(int)); bfs_q = calloc(MAXOBJ, sizeof(int));
  size_t n; char** lines = v_read_lines(argv[1], &n);
  (void)current(Thread);
  int started = 0;
  pin();
  for (size_t li = 0; li < n; li++) {
    char* l = lines[li]; curline = li + 1;
    if (v_skippable(l)) continue;
    char* w[40]; int nw = 0;
    static char buf[1 << 16];
    if (strlen(l) >= sizeof buf) { O("bad-op"); continue; }
    strcpy(buf, l);
    int too_many = 0;
    for (char* t = strtok(buf, " "); t; t = strtok(NULL, " ")) { if (nw == 40) { too_many = 1; break; } w[nw++] = t; }
    if (nw == 0 || too_many) BAD;
    {
      /* containers of ProbeDeep elements: their own ops, plain or behind `xin k tok* |` / `cin k |` */
      int isx = !strcmp(w[0], "xin"), isc = !strcmp(w[0], "cin");
      int bar = -1;
      if (isx || isc) for (int i = 2; i < nw; i++) if (!strcmp(w[i], "|")) { bar = i; break; }
      DInner dq;
      if ((isx || isc) && bar >= 0 && bar + 1 < nw) {
        if (deep_parse(w + bar + 1, nw - bar - 1, &dq)) {
          long k;
          if (isc != mode_full || stale_now || !parse_long(w[1], &k) || k < 0 || k > 100000 || (isc && bar != 2)) BAD;
          if (mode_full && !deep_all_safe(&dq)) BAD;
          Tok ws[40]; int ok = 1;
          for (int i = 2; i < bar; i++) if (!parse_tok(w[i], &ws[i - 2]) || !tok_ok(ws[i - 2])) ok = 0;
          if (!ok || (isx && !types_anchored(NULL, 0, 1))) BAD;
          started = 1;
          if (isc) scrub_stack();
          do_deep(&dq, k, ws, bar - 2, isx ? 1 : 2);
          goto next;
        }
        if (touches_deep(w + bar + 1, nw - bar - 1) || (nw - bar - 1 >= 2 && deep_id(w[bar + 2]))) BAD;
      } else if (deep_parse(w, nw, &dq)) {
        if (mode_full && !deep_all_safe(&dq)) BAD;
        started = 1;
        do_deep(&dq, 0, NULL, 0, 0);
        goto next;
      } else if (touches_deep(w, nw)) BAD;
    }
    if (!strcmp(w[0], "mode")) {
      if (started || nw != 2) BAD;
      if (!strcmp(w[1], "full")) mode_full = 1; else if (!strcmp(w[1], "exact")) mode_full = 0; else BAD;
      started = 1; if (mode_full) G()->mitems = 0; pin();
      O("mode %s", w[1]);
    } else if (!strcmp(w[0], "new")) {
      started = 1;
      long id, arg = 0; int rf, slot;
      if (stale_now) BAD;
      if (nw != 5 || !parse_long(w[1], &id) || id < 0 || id >= MAXOBJ || sh[id].used) BAD;
      int kt, vt;
      int kind = kind_of(w[2], &rf, &kt, &vt); if (kind == K_NONE) BAD;
      if (!parse_where(w[4], &slot)) BAD;
      int k = 0;
      if (kind == K_P) { if (!parse_long(w[3], &arg) || !(arg == 1 || arg == 2 || arg == 4 || arg == 8)) BAD; k = (int)arg; }
      else if (kind == K_B) { if (!parse_long(w[3], &arg) || !usable(arg) || owned(arg) || ghost[arg] || sh[arg].kind == K_B || sh[arg].kind == K_Y || sh[arg].kind == K_Q || sh[arg].rootflag || has_incoming_x((int)arg, slot)) BAD; k = 1; }
      else if (kind == K_Y) { if (strcmp(w[3], "-") || (mode_full && !rf)) BAD; k = 0; }
      else if (kind == K_Q) { if (rf || !parse_long(w[3], &arg) || !usable(arg) || sh[arg].kind != K_Y) BAD; k = 1; want_ty = (int)arg; }
      else { if (!parse_types(kind, w[3], &kt, &vt)) BAD; k = kind == K_M ? 4 : kind == K_R ? 1 : 0; }
      do_new(id, kind, k, rf, arg, slot, kt, vt);
      if (kind == K_Q) sh[id].ty = (int)arg + 1;
      if (mode_full) O("new %ld live=%s", id, set_text(reach, 1)); else O("new %ld", id);
    } else if (!strcmp(w[0], "pair")) {
      started = 1;
      long ia, ib; int slot;
      if (stale_now) BAD;
      if (nw != 4 || !parse_long(w[1], &ia) || !parse_long(w[2], &ib) || ia < 0 || ib < 0 || ia >= MAXOBJ || ib >= MAXOBJ || ia == ib
          || sh[ia].used || sh[ib].used || !parse_where(w[3], &slot)) BAD;
      if (mode_full && slot < 0) BAD;
      do_pair(ia, ib, slot);
      if (mode_full) O("pair %ld %ld live=%s", ia, ib, set_text(reach, 1)); else O("pair %ld %ld", ia, ib);
    } else if (!strcmp(w[0], "store")) {
      long id, slot; Tok t;
      if (nw != 4 || !parse_long(w[1], &id) || !usable(id) || !parse_long(w[2], &slot) || !parse_tok(w[3], &t) || !tok_ok(t)) BAD;
      if (!(sh[id].kind == K_P || sh[id].kind == K_M || sh[id].kind == K_R || sh[id].kind == K_Q) || slot < 0 || slot >= sh[id].k) BAD;
      if (sh[id].kind == K_M && !(t.t == T_OBJ || t.t == T_NIL)) BAD;   /* its Mark instance hands every non-NULL slot to the callback */
      if (sh[id].kind == K_M && t.t == T_OBJ && sh[t.v].raw) BAD;       /* ... which would trace an unregistered object */
      word_store((int)id, (int)slot, tok_word(t)); sh[id].el[slot] = t;
      O("ok");
    } else if (!strcmp(w[0], "push")) {
      long id; Tok t;
      if (nw != 3 || !parse_long(w[1], &id) || !usable(id) || !is_seq(sh[id].kind) || !parse_tok(w[2], &t) || !tok_ok(t)) BAD;
      if (!(t.t == T_OBJ || (t.t == T_NIL && sh[id].kind != K_H))) BAD;
      if (sh[id].kind == K_H && t.t == T_OBJ && sh[t.v].raw) BAD;
      seq_push((int)id, t); O("ok");
    } else if (!strcmp(w[0], "pop")) {
      long id, idx;
      if (nw != 3 || !parse_long(w[1], &id) || !usable(id) || !is_seq(sh[id].kind) || !parse_long(w[2], &idx) || idx < 0 || idx >= sh[id].n) BAD;
      seq_pop((int)id, (int)idx); O("ok");
    } else if (!strcmp(w[0], "aset")) {
      long id, idx; Tok t;
      if (nw != 4 || !parse_long(w[1], &id) || !usable(id) || !is_seq(sh[id].kind) || !parse_long(w[2], &idx) || idx < 0 || idx >= sh[id].n || !parse_tok(w[3], &t) || !tok_ok(t)) BAD;
      if (!(t.t == T_OBJ || (t.t == T_NIL && sh[id].kind != K_H))) BAD;
      if (sh[id].kind == K_H && t.t == T_OBJ && sh[t.v].raw) BAD;
      seq_set((int)id, (int)idx, t); O("ok");
    } else if (!strcmp(w[0], "tset")) {
      long id, key; Tok t;
      if (nw != 4 || !parse_long(w[1], &id) || !usable(id) || !parse_long(w[2], &key) || !parse_tok(w[3], &t) || !tok_ok(t)) BAD;
      if (!(t.t == T_OBJ || t.t == T_NIL)) BAD;
      if (refkeys(&sh[id])) { if (!usable(key) || owned(key)) BAD; } else if (!is_map(sh[id].kind)) BAD;
      map_set((int)id, key, t); O("ok");
    } else if (!strcmp(w[0], "trem")) {
      long id, key;
      if (nw != 3 || !parse_long(w[1], &id) || !usable(id) || !parse_long(w[2], &key)) BAD;
      if (!is_map(sh[id].kind) || map_find(&sh[id], key) < 0) BAD;
      if (refkeys(&sh[id]) && !usable(key)) BAD;
      map_rem((int)id, key); O("ok");
    } else if (!strcmp(w[0], "tls")) {
      long k; Tok t; char name[32];
      if (nw != 3 || !parse_long(w[1], &k) || k < 0 || k >= NTLS || !parse_tok(w[2], &t) || !tok_ok(t) || !(t.t == T_OBJ || t.t == T_NIL)) BAD;
      snprintf(name, sizeof name, "k%ld", k);
      set(current(Thread), $S(name), tok_word(t));
      tls_used[k] = 1; tls_tok[k] = t; O("ok");
    } else if (!strcmp(w[0], "tlsrem")) {
      long k; char name[32];
      if (nw != 2 || !parse_long(w[1], &k) || k < 0 || k >= NTLS || !tls_used[k]) BAD;
      snprintf(name, sizeof name, "k%ld", k);
      rem(current(Thread), $S(name)); tls_used[k] = 0; O("ok");
    } else if (!strcmp(w[0], "wset")) {
      long id, k; Tok t; char name[32];
      if (nw != 4 || !parse_long(w[1], &id) || !usable(id) || sh[id].kind != K_W || !parse_long(w[2], &k) || k < 0 || k >= NTLS
          || !parse_tok(w[3], &t) || !tok_ok(t) || !(t.t == T_OBJ || t.t == T_NIL)) BAD;
      snprintf(name, sizeof name, "k%ld", k);
      set(P((int)id), $S(name), tok_word(t));
      Sh* o = &sh[id]; int i = map_find(o, k);
      if (i < 0) { sh_grow(o); i = o->n++; o->key[i] = k; }
      o->el[i] = t; O("ok");
    } else if (!strcmp(w[0], "wrem")) {
      long id, k; char name[32];
      if (nw != 3 || !parse_long(w[1], &id) || !usable(id) || sh[id].kind != K_W || !parse_long(w[2], &k) || map_find(&sh[id], k) < 0) BAD;
      snprintf(name, sizeof name, "k%ld", k);
      rem(P((int)id), $S(name));
      Sh* o = &sh[id]; int i = map_find(o, k);
      o->el[i] = o->el[o->n - 1]; o->key[i] = o->key[o->n - 1]; o->n--; O("ok");
    } else if (!strcmp(w[0], "root")) {
      long j; Tok t;
      if (nw != 3 || !parse_long(w[1], &j) || j < 0 || j >= NROOTS || !parse_tok(w[2], &t) || !tok_ok(t) || !(t.t == T_OBJ || t.t == T_NIL)) BAD;
      roots[j] = tok_word(t); root_tok[j] = t; O("ok");
    } else if (!strcmp(w[0], "assign")) {
      long d, sr;
      if (nw != 3 || !parse_long(w[1], &d) || !parse_long(w[2], &sr) || !usable(d) || !usable(sr) || d == sr) BAD;
      Sh* od = &sh[d]; Sh* os = &sh[sr];
      if (is_arr(od->kind) && is_arr(os->kind)) { do_assign((int)d, (int)sr); od->vt = os->vt; shadow_copy_content(od, os); }
      else if (is_arr(od->kind) && os->kind == K_H) {
        /* Tuple declares no iter_type: the element type becomes Ref; Ref_Assign stores deref(item) when the item is a Ref / Box */
        int okk = 1;
        for (int i = 0; i < os->n; i++) if (os->el[i].t != T_OBJ || !usable(os->el[i].v) || sh[os->el[i].v].kind == K_B) okk = 0;
        if (!okk) BAD;
        do_assign((int)d, (int)sr); od->vt = E_R; shadow_copy_content(od, os);
        for (int i = 0; i < od->n; i++) if (sh[od->el[i].v].kind == K_R) od->el[i] = sh[od->el[i].v].el[0];
      }
      else if (is_map(od->kind) && is_map(os->kind)) { do_assign((int)d, (int)sr); od->kt = os->kt; od->vt = os->vt; shadow_copy_content(od, os); }
      else if (od->kind == K_H && os->kind == K_H) { do_assign((int)d, (int)sr); shadow_copy_content(od, os); }
      else BAD;
      if (!content_ok((int)d)) X("sig=gc-retype-content line=%zu what=after assign(%ld, %ld) the target does not hold the source's types and elements", curline, d, sr);
      O("ok");
    } else if (!strcmp(w[0], "copy")) {
      started = 1;
      long id, sr; int slot;
      if (stale_now) BAD;
      if (nw != 4 || !parse_long(w[1], &id) || id < 0 || id >= MAXOBJ || sh[id].used || !parse_long(w[2], &sr) || !parse_where(w[3], &slot)) BAD;
      if (!usable(sr) || !(is_arr(sh[sr].kind) || is_map(sh[sr].kind) || sh[sr].kind == K_H)) BAD;
      do_new_x(id, sh[sr].kind, 0, 0, -1, slot, sh[sr].kt, sh[sr].vt, sr);
      if (usable(id) && !content_ok((int)id)) X("sig=gc-retype-content line=%zu what=copy(%ld) does not hold the source's types and elements", curline, sr);
      if (mode_full) O("copy %ld live=%s", id, set_text(reach, 1)); else O("copy %ld", id);
    } else if (!strcmp(w[0], "walk")) {
      long id;
      if (nw != 2) BAD;
      if (!strcmp(w[1], "tls")) { do_walk(-1, ((struct Thread*)current(Thread))->tls, K_T, -1); }
      else {
        if (!parse_long(w[1], &id) || !usable(id) || !(is_arr(sh[id].kind) || is_map(sh[id].kind) || sh[id].kind == K_H)) BAD;
        do_walk((int)id, P((int)id), sh[id].kind, sh[id].n);
      }
    } else if (!strcmp(w[0], "clear")) {
      long id;
      if (nw != 2 || !parse_long(w[1], &id) || !usable(id) || !(is_arr(sh[id].kind) || is_map(sh[id].kind))) BAD;
      resize(P((int)id), 0); sh[id].n = 0;
      O("ok");
    } else if (!strcmp(w[0], "trunc")) {
      long id, tn;
      if (nw != 3 || !parse_long(w[1], &id) || !usable(id) || !parse_long(w[2], &tn)) BAD;
      if (is_arr(sh[id].kind)) { if (tn < 1 || tn > sh[id].n) BAD; resize(P((int)id), (size_t)tn); sh[id].n = (int)tn; }
      else if (sh[id].kind == K_T) { if (tn < 1 || tn < sh[id].n || tn > 4096) BAD; resize(P((int)id), (size_t)tn); }
      else BAD;
      O("ok");
    } else if (!strcmp(w[0], "del")) {
      long id;
      if (nw != 2 || !parse_long(w[1], &id) || !usable(id) || has_incoming((int)id) || ghost[id] || stale_now) BAD;
      if (sh[id].kind == K_B && sh[id].el[0].t == T_OBJ && usable(sh[id].el[0].v) && sh[sh[id].el[0].v].kind == K_B) BAD;
      if (sh[id].kind == K_Y && (mode_full || has_instances((int)id))) BAD;      /* del of a Type that still has instances: misuse */
      del_count = 0; shadow_del((int)id);
      if (sh[id].raw) del_raw(P((int)id)); else del(P((int)id));
      pin();
      if ((sh[id].kind == K_P || sh[id].kind == K_M || sh[id].kind == K_Q) && fin[id] != 1) X("sig=gc-ledger line=%zu what=del of probe %ld ran its destructor %d times", curline, id, fin[id]);
      if (GC_Mem_Ptr(G(), P((int)id))) X("sig=gc-registry line=%zu what=object %ld still registered after del", curline, id);
      O("del %d", del_count);
    } else if (!strcmp(w[0], "chain")) {
      started = 1;
      long id, cn; int slot;
      if (stale_now) BAD;
      if (nw != 5 || !parse_long(w[1], &id) || !parse_long(w[2], &cn) || id < 0 || cn < 1 || id + cn > MAXOBJ || !parse_where(w[4], &slot)) BAD;
      int kt, vt;
      int kind = chain_kind(w[3], &kt, &vt); if (kind == K_NONE) BAD;
      if (mode_full && slot < 0) BAD;
      if (slot >= 0 && slot + 1 >= NROOTS) BAD;
      int clash = 0; for (long i = 0; i < cn; i++) if (sh[id + i].used) clash = 1;
      if (clash) BAD;
      do_chain(id, cn, kind, slot, kt, vt);
      if (mode_full) O("chain %ld %ld live=%s", id, cn, set_text(reach, 1)); else O("chain %ld %ld", id, cn);
    } else if (!strcmp(w[0], "xcollect")) {
      if (mode_full) BAD;
      started = 1;
      Tok ws[40]; int ok = 1;
      for (int i = 1; i < nw; i++) if (!parse_tok(w[i], &ws[i - 1]) || !tok_ok(ws[i - 1])) ok = 0;
      if (!ok || !types_anchored(ws, nw - 1, 0)) BAD;
      do_xcollect(ws, nw - 1);
    } else if (!strcmp(w[0], "xraise")) {
      long id;
      if (mode_full || nw < 2) BAD;
      started = 1;
      if (!parse_long(w[1], &id) || !usable(id) || sh[id].kind != K_M) BAD;
      Tok ws[40]; int ok = 1;
      for (int i = 2; i < nw; i++) if (!parse_tok(w[i], &ws[i - 2]) || !tok_ok(ws[i - 2])) ok = 0;
      if (!ok || !types_anchored(ws, nw - 2, 0)) BAD;
      do_xraise(id, ws, nw - 2);
    } else if (!strcmp(w[0], "xbox")) {
      long id, tg;
      if (mode_full || stale_now || nw != 3) BAD;
      started = 1;
      if (!parse_long(w[1], &id) || id < 0 || id >= MAXOBJ || sh[id].used || !parse_long(w[2], &tg)) BAD;
      if (!usable(tg) || owned(tg) || sh[tg].kind == K_B || sh[tg].kind == K_Y || sh[tg].kind == K_Q || sh[tg].raw) BAD;
      do_new(id, K_B, 1, 0, tg, -1, E_R, E_R);
      O("new %ld", id);
    } else if (!strcmp(w[0], "newraw")) {
      long id; int slot, kt, vt;
      if (mode_full || stale_now || nw != 5) BAD;
      started = 1;
      if (!parse_long(w[1], &id) || id < 0 || id >= MAXOBJ || sh[id].used || strlen(w[2]) != 1 || !parse_where(w[4], &slot)) BAD;
      int kind = kind_letter(w[2][0], &kt, &vt);
      if (!(is_arr(kind) || is_map(kind)) || !parse_types(kind, w[3], &kt, &vt)) BAD;
      want_raw = 1; do_new(id, kind, 0, 0, -1, slot, kt, vt); want_raw = 0;
      O("new %ld", id);
    } else if (!strcmp(w[0], "xin") || !strcmp(w[0], "cin")) {
      int full = w[0][0] == 'c';
      long k;
      if (full != mode_full || stale_now || nw < 4 || !parse_long(w[1], &k) || k < 0 || k > 100000) BAD;
      started = 1;
      int bar = -1; for (int i = 2; i < nw; i++) if (!strcmp(w[i], "|")) { bar = i; break; }
      if (bar < 0 || (full && bar != 2)) BAD;
      Tok ws[40]; int ok = 1;
      for (int i = 2; i < bar; i++) if (!parse_tok(w[i], &ws[i - 2]) || !tok_ok(ws[i - 2])) ok = 0;
      if (!ok) BAD;
      Inner q;
      if (!inner_parse(w + bar + 1, nw - bar - 1, &q)) BAD;
      int nd, na; inner_calls(&q, &nd, &na);
      if (inner_safe(&q, (int)k) < 0) BAD;
      if (!types_anchored(NULL, 0, 1)) BAD;
      if (full) scrub_stack();        /* the region do_mid's own frame is about to occupy: no stale pointers from the frames of earlier ops */
      do_mid(&q, k, ws, bar - 2, full);
    } else if (!strcmp(w[0], "arem") || !strcmp(w[0], "concat") || !strcmp(w[0], "ins")) {
      Inner q;
      if (!inner_parse(w, nw, &q)) BAD;
      Tok eb = { T_NIL, 0 }; if (q.op == I_AREM) eb = sh[q.id].el[q.a];
      inner_shadow(&q); inner_real(&q, eb);
      if (!content_ok((int)q.id)) X("sig=gc-retype-content line=%zu what=container %ld differs from its shadow after %s", curline, q.id, w[0]);
      O("ok");
    } else if (!strcmp(w[0], "collect")) {
      if (!mode_full || nw != 1) BAD;
      do_collect();
    } else if (!strcmp(w[0], "craise")) {
      long id;
      if (!mode_full || nw != 2 || !parse_long(w[1], &id) || !usable(id) || sh[id].kind != K_M) BAD;
      shadow_reach(NULL, 0, 1);
      if (!reach[id]) BAD;
      do_craise(id);
    } else if (!strcmp(w[0], "churn")) {
      long cn;
      if (!mode_full || nw != 2 || !parse_long(w[1], &cn) || cn < 0 || cn > 100000) BAD;
      shadow_reach(NULL, 0, 1);
      for (long i = 0; i < cn; i++) {
        size_t mit0 = G()->mitems, nit0 = G()->nitems;
        var g = (i & 1) ? alloc(Ref) : new(Array, Ref); (void)g;
        if (G()->mitems != mit0 || G()->nitems != nit0 + 1) { n_collect_auto++; oracle_survivors("collection triggered by churn"); }
      }
      checkpoint_dead();
      O("churn live=%s", set_text(reach, 1));
    } else if (!strcmp(w[0], "deepchild")) {
      long cn; if (nw != 3 || !parse_long(w[1], &cn) || cn < 1 || cn > 50000000) BAD;
      int kt, vt;
      int kind = chain_kind(w[2], &kt, &vt); if (!(kind == K_R || kind == K_P || kind == K_A || kind == K_H)) BAD;
      deep_child(cn, kind);
      O("deepchild %ld", cn);
    } else if (!strcmp(w[0], "danglechild")) {
      if (nw != 2 || !(!strcmp(w[1], "H") || !strcmp(w[1], "M"))) BAD;
      dangle_child(!strcmp(w[1], "H") ? K_H : K_M);
      O("danglechild %s", w[1]);
    } else if (!strcmp(w[0], "typechild")) {
      if (nw != 2 || strlen(w[1]) != 1 || !strchr("-rs", w[1][0])) BAD;
      type_child(w[1][0]);
    } else if (!strcmp(w[0], "aliaschild")) {
      if (nw != 2 || !(!strcmp(w[1], "A") || !strcmp(w[1], "L"))) BAD;
      alias_child(!strcmp(w[1], "A") ? K_A : K_L);
      O("aliaschild %s", w[1]);
    } else BAD;
    next: ;
  }
  I("walk calls=%ld positions=%ld empty=%ld array=%ld list=%ld table=%ld tree=%ld tuple=%ld table-last-slot=%ld table-first-slot=%ld table-wrapped=%ld", n_walks, n_walk_pos, n_walk_empty,
    n_walk_kind[0], n_walk_kind[1], n_walk_kind[2], n_walk_kind[3], n_walk_kind[4], n_walk_last, n_walk_first, n_walk_wrap);
  I("objects=%ld xcollects=%ld forced=%ld auto=%ld marked=%ld freed=%ld registered-at-end=%zu", n_objs, n_x, n_collect_forced, n_collect_auto, n_marked_total, n_freed_total, G()->nitems);
  exiting = 1;
  drop_instances();
  fflush(stdout);
  return 0;
}
