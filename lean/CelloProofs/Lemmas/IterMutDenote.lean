/- helper lemmas for C11: the objects `denote` builds for the mutated-container expressions of the op files are in the
   invariants of their kind, whatever the history -/
import Cello.IterExpr
import CelloProofs.Lemmas.IterMutLawful
import CelloProofs.Lemmas.IterMutArray
import CelloProofs.Lemmas.IterMutKeyed

namespace Cello.Iter

/-- `new(List, Int, init…)` followed by ANY history: the model never leaves the object, the result is doubly linked, and
    its elements are those of the abstract run -/
theorem mlistOf_spec (init : List Int) (ops : List (SOp Int)) :
    ∃ l xs, mlistOf init ops = some l ∧ LL.Chain l xs ∧ LL.vals xs = (LL.specRun 0 init ops).1 := by
  obtain ⟨l0, xs0, e0, c0, v0⟩ := LL.new_chain init
  obtain ⟨l, xs, e, c, v⟩ := LL.run_chain 0 ops l0 xs0 c0
  rw [v0] at e v
  refine ⟨l, xs, ?_, c, v⟩
  simp only [mlistOf, e0, e, LL.specRun_no_undef]
  rfl

theorem marrayOf_spec (init : List Int) (ops : List (SOp Int)) :
    ∃ a, marrayOf init ops = some a ∧ AR.Holds a (AR.specRun init ops).1 := by
  obtain ⟨a0, e0, c0⟩ := AR.new_holds init
  obtain ⟨a, e, c⟩ := AR.run_holds ops a0 init c0
  refine ⟨a, ?_, c⟩
  simp only [marrayOf, e0, e, AR.specRun_no_undef]
  rfl

theorem mtableOf_spec (init : List Int) (ops : List KOp) :
    ∃ t, mtableOf init ops = some t ∧ Cello.Table.Rep intHash t (keyedRun [] (init.map KOp.set ++ ops)).1 := by
  obtain ⟨t, e, r⟩ := tabRun_rep (init.map KOp.set ++ ops) (Cello.Table.new tabCfg) []
    (Cello.Table.new_rep tabCfg tabCfg_good intHash)
  refine ⟨t, ?_, r⟩
  simp only [mtableOf, e, keyedRun_no_undef]
  rfl

theorem mtreeOf_count (init : List Int) (ops : List KOp) :
    (mtreeOf init ops).nitems = (mtreeOf init ops).root.size :=
  treeRun_count _ ⟨.nil, 0⟩ rfl

end Cello.Iter
