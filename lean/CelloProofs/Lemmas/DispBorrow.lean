/-
  Helper lemmas for C08, the strings a type object borrows (`XHeap`): as long as the caller writes only into buffers that
  no `__Name` cell and no triple name word points into, the pointer-level history IS the value-level history of `Heap`.
-/
import Cello.Dispatch

namespace Cello.Dispatch

theorem zip_range_map_snd {α : Type} (l : List α) : ((List.range l.length).zip l).map (·.2) = l := by
  rw [List.map_snd_zip]
  simp

theorem renameTriples_none (hit : Nat → Bool) (text : String) (t : TypeRec) (h : ∀ i, hit i = false) :
    renameTriples hit text t = t := by
  unfold renameTriples
  have : ((List.range t.entries.length).zip t.entries).map
      (fun p => if hit p.1 then { p.2 with name := text } else p.2) = t.entries := by
    conv => rhs; rw [← zip_range_map_snd t.entries]
    apply List.map_congr_left
    intro p _
    simp [h p.1]
  rw [this]

theorem XHeap.scribbled_unused (x : XHeap) (b : Nat) (text : String) (h : x.unused b = true) : x.scribbled b text = x.h := by
  simp only [XHeap.unused, Bool.and_eq_true, List.all_eq_true, decide_eq_true_eq] at h
  obtain ⟨hn, ht⟩ := h
  have hf : x.nameBuf.filter (fun p => p.2 = b) = [] := by
    rw [List.filter_eq_nil_iff]
    intro p hp
    simpa using hn p hp
  unfold XHeap.scribbled
  simp only [hf, List.map_nil, List.foldl_nil]
  have hm : x.h.w.types.map (fun p =>
      (p.1, renameTriples (fun i => x.tripleBuf.any (fun q => q.1 = (p.1, i) && q.2 = b)) text p.2)) = x.h.w.types := by
    conv => rhs; rw [← List.map_id x.h.w.types]
    apply List.map_congr_left
    intro p _
    rw [renameTriples_none]
    · rfl
    · intro i
      rw [List.any_eq_false]
      intro q hq
      have := ht q hq
      simp [this]
  rw [hm]

theorem XHeap.step_h_of_lower {L : Layout} {x : XHeap} {op : XOp} {o : HOp} (hl : x.lower op = some o) :
    (x.step L op).1.h = (x.h.step L o).1 ∧ (x.step L op).2 = [(x.h.step L o).2] := by
  cases op with
  | scribble b text => simp [XHeap.lower] at hl
  | op o' => simp only [XHeap.step, hl]; exact ⟨trivial, trivial⟩
  | construct addr nm es => simp only [XHeap.step, hl]; exact ⟨trivial, trivial⟩

/-- **names are texts as long as the caller leaves the borrowed buffers alone**: a `quiet` pointer-level history answers,
    operation by operation, what the value-level history `values` answers on the `Heap`, and ends in the same heap -/
theorem XHeap.run_quiet (L : Layout) : ∀ (xs : List XOp) (x : XHeap), x.quiet L xs = true →
    (XHeap.run L x xs).2 = (Heap.run L x.h (x.values L xs)).2 ∧ (XHeap.run L x xs).1.h = (Heap.run L x.h (x.values L xs)).1
  | [], _, _ => ⟨rfl, rfl⟩
  | op :: ops, x, hq => by
    simp only [XHeap.quiet, Bool.and_eq_true] at hq
    obtain ⟨hq1, hq2⟩ := hq
    have ih := XHeap.run_quiet L ops (x.step L op).1 hq2
    cases hl : x.lower op with
    | none =>
      cases op with
      | op o' => simp [XHeap.lower] at hl
      | construct addr nm es => simp [XOp.quietIn, hl] at hq1
      | scribble b text =>
        simp only [XOp.quietIn] at hq1
        have hh : (x.step L (.scribble b text)).1.h = x.h := by
          simp only [XHeap.step]; exact XHeap.scribbled_unused x b text hq1
        have h2 : (x.step L (.scribble b text)).2 = [] := rfl
        simp only [XHeap.run, XHeap.values, hl, h2, List.nil_append]
        rw [hh] at ih
        exact ih
    | some o =>
      have hs := XHeap.step_h_of_lower (L := L) hl
      simp only [XHeap.run, XHeap.values, hl, hs.2, List.singleton_append, Heap.run]
      rw [hs.1] at ih
      exact ⟨by rw [ih.1], ih.2⟩

end Cello.Dispatch
