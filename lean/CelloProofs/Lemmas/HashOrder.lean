/-
  Lemmas for C10: swapping the arguments of a comparison negates it; hence a strictly descending entry sequence is determined
  by its set of entries (a Tree's iteration sequence does not depend on the insertion history).
-/
import Cello.Hash
import CelloProofs.Lemmas.HashObj
import Mathlib.Data.List.Perm.Basic
set_option linter.unusedSimpArgs false
set_option linter.unusedVariables false

namespace Cello.Hash

theorem bytesCmp_swap : ∀ (a b : Bytes), bytesCmp b a = - bytesCmp a b := by
  intro a
  induction a with
  | nil => intro b; cases b <;> simp [bytesCmp]
  | cons x xs ih =>
    intro b
    cases b with
    | nil => simp [bytesCmp]
    | cons y ys =>
      simp only [bytesCmp]
      by_cases h1 : x < y
      · have h2 : ¬ y < x := UInt8.lt_asymm h1
        simp [h1, h2]
      · by_cases h2 : y < x
        · simp [h1, h2]
        · simp [h1, h2, ih ys]

theorem intCmp_swap (a b : Int64) : intCmp b a = - intCmp a b := by
  unfold intCmp
  by_cases h1 : a < b
  · have h2 : ¬ b < a := Int64.lt_asymm h1
    simp [h1, h2, GT.gt]
  · by_cases h2 : b < a
    · simp [h1, h2, GT.gt]
    · simp [h1, h2, GT.gt]

theorem floatCmp_swap (a b : UInt64) : floatCmp b a = - floatCmp a b := by
  unfold floatCmp
  by_cases hn : (floatIsNaN a || floatIsNaN b) = true
  · have hn' : (floatIsNaN b || floatIsNaN a) = true := by rw [Bool.or_comm]; exact hn
    simp [hn, hn']
  · have hn' : ¬ (floatIsNaN b || floatIsNaN a) = true := by rw [Bool.or_comm]; exact hn
    simp only [hn, hn', if_false]
    by_cases h1 : floatKey a < floatKey b
    · have h2 : ¬ floatKey b < floatKey a := by omega
      simp [h1, h2, GT.gt]
    · by_cases h2 : floatKey b < floatKey a
      · simp [h1, h2, GT.gt]
      · simp [h1, h2, GT.gt]

theorem scalarCmp_swap (addr : Nat → Bytes) (a b : Scalar) :
    scalarCmp addr b a = (scalarCmp addr a b).map (fun c => -c) := by
  cases a <;> cases b <;> simp only [scalarCmp, Option.map_none, Option.map_some]
  · rw [intCmp_swap]
  · rw [floatCmp_swap]
  · rw [bytesCmp_swap]
  · rw [bytesCmp_swap]
  · rename_i ba ta bb tb
    by_cases h : ba = bb
    · subst h; simp only [if_true, Option.map_some]; rw [bytesCmp_swap]
    · have h' : ¬ bb = ba := fun e => h e.symm
      simp [h, h']
  · rename_i ka xa kb xb
    by_cases h : ka = kb
    · subst h; simp only [if_true, Option.map_some]; rw [bytesCmp_swap]
    · have h' : ¬ kb = ka := fun e => h e.symm
      simp [h, h']

/-- `Desc` cannot hold in both directions -/
theorem Desc.asymm {addr : Nat → Bytes} {a b : Scalar × Scalar} (h1 : Desc addr a b) (h2 : Desc addr b a) : False := by
  obtain ⟨c, hc, hpos⟩ := h1
  obtain ⟨d, hd, hdpos⟩ := h2
  rw [scalarCmp_swap, hc] at hd
  simp only [Option.map_some, Option.some.injEq] at hd
  omega

/-- **a Tree's iteration sequence is a function of its set of entries**: two strictly descending sequences with the same
    entries (as sets) are the same sequence -/
theorem treeSeq_unique {addr : Nat → Bytes} {xs ys : List (Scalar × Scalar)} (hx : TreeSeq addr xs) (hy : TreeSeq addr ys)
    (h : ∀ e, e ∈ xs ↔ e ∈ ys) : xs = ys := by
  have irrefl : ∀ a, ¬ Desc addr a a := fun a ha => Desc.asymm ha ha
  have nx : xs.Nodup := List.Pairwise.imp (fun {a b} (hab : Desc addr a b) (e : a = b) => irrefl a (by subst e; exact hab)) hx
  have ny : ys.Nodup := List.Pairwise.imp (fun {a b} (hab : Desc addr a b) (e : a = b) => irrefl a (by subst e; exact hab)) hy
  exact List.Perm.eq_of_pairwise (fun a b _ _ h1 h2 => (Desc.asymm h1 h2).elim) hx hy
    ((List.perm_ext_iff_of_nodup nx ny).mpr h)

end Cello.Hash
