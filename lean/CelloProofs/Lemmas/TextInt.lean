/-
  Lemmas for C15 (engine `text`): integer specifications — every length modifier × `d i o u x X`.
  What printf writes for an `int64_t` under `%<m><c>` is read back by the integer branch of `scan_from_with` as C's conversion
  of the value to the type the modifier names, provided the branch has scanf store into an object of exactly that width
  (`ArmsOK`, decided on the arms extracted from the source).
-/
import CelloProofs.Lemmas.Text

namespace Cello.Text

/-- what the round trip needs of the integer branch, as a `Bool` (decided on the generated arms): for each of the 54 specifications
    the arm selected stores into an object of the width libc writes, a narrower object is a temporary that is widened, and `sgn`
    is the signedness of the conversion -/
def armsOK (c : Cfg) : Bool :=
  IMod.all.all fun m => IConv.all.all fun cv =>
    (match selectArm c.intArms (ispecFmt m cv ++ [37, 110]) with
     | some arm => arm.bits == m.width && (arm.widen || m.width == 64)
     | none => false) && (c.intSigned.contains cv.byte == cv.signed)

structure ArmsOK (c : Cfg) : Prop where
  sel : ∀ m cv, ∃ arm, selectArm c.intArms (ispecFmt m cv ++ [37, 110]) = some arm ∧ arm.bits = m.width ∧
          (arm.widen = true ∨ m.width = 64)
  sgn : ∀ cv : IConv, c.intSigned.contains cv.byte = cv.signed

theorem IMod.mem_all (m : IMod) : m ∈ IMod.all := by cases m <;> simp [IMod.all]
theorem IConv.mem_all (c : IConv) : c ∈ IConv.all := by cases c <;> simp [IConv.all]

theorem arms_of_ok (c : Cfg) (h : armsOK c = true) : ArmsOK c := by
  simp only [armsOK, List.all_eq_true, Bool.and_eq_true, beq_iff_eq] at h
  constructor
  · intro m cv
    have := (h m (IMod.mem_all m) cv (IConv.mem_all cv)).1
    split at this
    · rename_i arm harm
      simp only [Bool.and_eq_true, beq_iff_eq, Bool.or_eq_true] at this
      exact ⟨arm, harm, this.1, this.2⟩
    · exact absurd this (by simp)
  · intro cv
    exact (h .none (IMod.mem_all _) cv (IConv.mem_all cv)).2

theorem width_cases (m : IMod) : m.width = 8 ∨ m.width = 16 ∨ m.width = 32 ∨ m.width = 64 := by
  cases m <;> simp [IMod.width]

/-- the 64-bit pattern scanf converts for what printf wrote -/
def pattOf (w : Nat) (sgn : Bool) (n : Int) : Nat :=
  if sgn then (sext w n % (2 : Int) ^ 64).toNat else (zext w n).toNat

theorem sext_bounds (w : Nat) (hw : w = 8 ∨ w = 16 ∨ w = 32 ∨ w = 64) (n : Int) :
    -(2 : Int) ^ 63 ≤ sext w n ∧ sext w n < (2 : Int) ^ 63 ∧ (sext w n = 0 ↔ zext w n = 0) := by
  unfold sext zext
  rcases hw with h | h | h | h <;> subst h <;> simp only [Int.reducePow, Nat.reduceSub] <;> omega

theorem zext_bounds (w : Nat) (hw : w = 8 ∨ w = 16 ∨ w = 32 ∨ w = 64) (n : Int) :
    0 ≤ zext w n ∧ zext w n < (2 : Int) ^ 64 := by
  unfold zext
  rcases hw with h | h | h | h <;> subst h <;> simp only [Int.reducePow] <;> omega

/-- storing the pattern in `w` bits and widening it as the branch does gives C's conversion of the value -/
theorem finishInt_patt (arm : IntArm) (m : IMod) (cv : IConv) (n : Int) (hn : inInt64 n = true)
    (hb : arm.bits = m.width) (hwd : arm.widen = true ∨ m.width = 64) :
    finishInt arm m.width cv.signed (pattOf m.width cv.signed n) = convInt m cv n := by
  simp only [inInt64, Bool.and_eq_true, decide_eq_true_eq] at hn
  have hw := width_cases m
  unfold finishInt pattOf convInt
  rw [hb]
  generalize m.width = w at *
  cases hs : cv.signed with
  | true =>
    simp only [Bool.not_true, Bool.and_false, Bool.false_eq_true, if_false, if_true]
    unfold sext zext
    rcases hw with h | h | h | h <;> subst h <;> simp only [Nat.reducePow, Int.reducePow, Nat.reduceSub] <;> omega
  | false =>
    simp only [Bool.not_false, Bool.and_true, Bool.false_eq_true, if_false]
    rcases hwd with hwd | hwd
    · simp only [hwd, if_true]
      unfold sext zext
      rcases hw with h | h | h | h <;> subst h <;>
        simp only [Nat.reducePow, Int.reducePow, Nat.reduceSub, Nat.reduceEqDiff, if_false, if_true] <;> omega
    · subst hwd
      unfold sext zext
      cases arm.widen <;> simp only [Nat.reducePow, Int.reducePow, Nat.reduceSub, if_true, Bool.false_eq_true, if_false] <;> omega

theorem noDigit_of_dec (base : Nat) (hb : base ≤ 10) (rest : List Nat) (h : headIs isDigit rest = false) : noDigitOf base rest :=
  fun b r hbr => digitVal_nondigit base b hb ((headIs_false_iff _ _).1 h b r hbr)

theorem noDigit_of_hex (base : Nat) (rest : List Nat) (h : headIs isHexDigit rest = false) : noDigitOf base rest :=
  fun b r hbr => digitVal_nonhex base b ((headIs_false_iff _ _).1 h b r hbr)

/-- **scanf reads back the pattern of what printf wrote**, for every specification, every `int64_t` and every following text
    that does not continue the number -/
theorem scanNumber_print (m : IMod) (cv : IConv) (n : Int) (rest : List Nat) (hs : ispecSafe m cv n rest = true) :
    scanNumber cv (printIntSpec m cv n ++ rest) = .ok (pattOf m.width cv.signed n, rest) := by
  have hw := width_cases m
  obtain ⟨hs1, hs2, hs0⟩ := sext_bounds m.width hw n
  obtain ⟨hz1, hz2⟩ := zext_bounds m.width hw n
  -- the unsigned conversions: digits of `zext` in base 10 / 8 / 16
  have huns : ∀ (c : IConv) (upper : Bool), c.signed = false → noDigitOf c.printBase rest →
      (c = .x ∨ c = .X → (zext m.width n = 0 → headIs isXx rest = false)) →
      scanNumber c (digitsB c.printBase upper (zext m.width n).toNat ++ rest) = .ok (pattOf m.width c.signed n, rest) := by
    intro c upper hc hnd hxx
    by_cases h0 : (zext m.width n).toNat = 0
    · have hz : zext m.width n = 0 := by omega
      rw [h0, digitsB_lt _ _ 0 (by cases c <;> simp [IConv.printBase])]
      have : digitChar upper 0 = 48 := by simp [digitChar]
      rw [this]
      simp only [List.cons_append, List.nil_append]
      rw [scanNumber_zero c rest hnd (by
        intro hc'; rcases hc' with h | h | h
        · subst h; simp [IConv.signed] at hc
        · exact hxx (Or.inl h) hz
        · exact hxx (Or.inr h) hz)]
      simp [pattOf, hc, hz]
    · have := scanNumber_pos c upper false (zext m.width n).toNat (by omega) rest hnd
      simp only [Bool.false_eq_true, if_false, List.nil_append] at this
      rw [this]
      simp only [finNum, pattOf, hc, Bool.false_eq_true, if_false, clampULong]
      have h1 : ¬ (zext m.width n).toNat ≥ 2 ^ 64 := by omega
      simp only [h1, if_false]
  cases cv with
  | d =>
    simp only [ispecSafe, Bool.not_eq_true'] at hs
    have hnd := noDigit_of_dec 10 (by omega) rest hs
    simp only [printIntSpec, IConv.signed, pattOf, if_true]
    by_cases hneg : sext m.width n < 0
    · have := scanNumber_pos .d false true (sext m.width n).natAbs (by omega) rest hnd
      simp only [if_true, IConv.printBase, ← natDigits_eq, List.cons_append, List.nil_append] at this
      simp only [printInt, hneg, if_true, List.cons_append]
      rw [this]
      simp only [finNum, IConv.signed, if_true, clampLong]
      by_cases hmin : (sext m.width n).natAbs ≥ 2 ^ 63
      · simp only [hmin, if_true]; congr 3; omega
      · simp only [hmin, if_false]; congr 3; omega
    · by_cases hz : sext m.width n = 0
      · rw [hz]
        simp only [printInt, Int.natAbs_zero, natDigits_zero, show ¬ ((0:Int) < 0) by omega, if_false, List.singleton_append]
        rw [scanNumber_zero .d rest hnd (by intro h; rcases h with h | h | h <;> cases h)]
        simp
      · have := scanNumber_pos .d false false (sext m.width n).natAbs (by omega) rest hnd
        simp only [Bool.false_eq_true, if_false, IConv.printBase, ← natDigits_eq, List.nil_append] at this
        simp only [printInt, hneg, if_false]
        rw [this]
        simp only [finNum, IConv.signed, if_true, clampLong, Bool.false_eq_true, if_false]
        have h : ¬ ((sext m.width n).natAbs ≥ 2 ^ 63) := by omega
        simp only [h, if_false]; congr 3; omega
  | i =>
    simp only [ispecSafe, Bool.and_eq_true, Bool.not_eq_true', Bool.and_eq_false_iff, beq_eq_false_iff_ne] at hs
    have hnd := noDigit_of_dec 10 (by omega) rest hs.1
    simp only [printIntSpec, IConv.signed, pattOf, if_true]
    by_cases hneg : sext m.width n < 0
    · have := scanNumber_pos .i false true (sext m.width n).natAbs (by omega) rest hnd
      simp only [if_true, IConv.printBase, ← natDigits_eq, List.cons_append, List.nil_append] at this
      simp only [printInt, hneg, if_true, List.cons_append]
      rw [this]
      simp only [finNum, IConv.signed, if_true, clampLong]
      by_cases hmin : (sext m.width n).natAbs ≥ 2 ^ 63
      · simp only [hmin, if_true]; congr 3; omega
      · simp only [hmin, if_false]; congr 3; omega
    · by_cases hz : sext m.width n = 0
      · rw [hz]
        simp only [printInt, Int.natAbs_zero, natDigits_zero, show ¬ ((0:Int) < 0) by omega, if_false, List.singleton_append]
        rw [scanNumber_zero .i rest hnd (by
          intro _
          rcases hs.2 with h | h
          · exact absurd (hs0.1 hz) h
          · exact h)]
        simp
      · have := scanNumber_pos .i false false (sext m.width n).natAbs (by omega) rest hnd
        simp only [Bool.false_eq_true, if_false, IConv.printBase, ← natDigits_eq, List.nil_append] at this
        simp only [printInt, hneg, if_false]
        rw [this]
        simp only [finNum, IConv.signed, if_true, clampLong, Bool.false_eq_true, if_false]
        have h : ¬ ((sext m.width n).natAbs ≥ 2 ^ 63) := by omega
        simp only [h, if_false]; congr 3; omega
  | u =>
    simp only [ispecSafe, Bool.not_eq_true'] at hs
    have := huns .u false rfl (noDigit_of_dec 10 (by omega) rest hs) (by intro h; rcases h with h | h <;> cases h)
    simpa only [printIntSpec, IConv.printBase, ← natDigits_eq] using this
  | o =>
    simp only [ispecSafe, Bool.not_eq_true'] at hs
    exact huns .o false rfl (noDigit_of_dec 8 (by omega) rest hs) (by intro h; rcases h with h | h <;> cases h)
  | x =>
    simp only [ispecSafe, Bool.and_eq_true, Bool.not_eq_true', Bool.and_eq_false_iff, beq_eq_false_iff_ne] at hs
    exact huns .x false rfl (noDigit_of_hex 16 rest hs.1) (by
      intro _ hz; rcases hs.2 with h | h
      · exact absurd hz h
      · exact h)
  | X =>
    simp only [ispecSafe, Bool.and_eq_true, Bool.not_eq_true', Bool.and_eq_false_iff, beq_eq_false_iff_ne] at hs
    exact huns .X true rfl (noDigit_of_hex 16 rest hs.1) (by
      intro _ hz; rcases hs.2 with h | h
      · exact absurd hz h
      · exact h)

/-- **the integer branch of `scan_from_with` reads back C's conversion of the value written**, for every one of the 54
    specifications, every `int64_t`, every following text that does not continue the number — given `ArmsOK` -/
theorem scanIntSpec_print (c : Cfg) (A : ArmsOK c) (m : IMod) (cv : IConv) (n : Int) (hn : inInt64 n = true) (rest : List Nat)
    (hs : ispecSafe m cv n rest = true) :
    scanIntSpec c m cv (printIntSpec m cv n ++ rest) = .ok (convInt m cv n, rest) := by
  obtain ⟨arm, hsel, hb, hwd⟩ := A.sel m cv
  simp only [scanIntSpec, hsel, hb, Nat.lt_irrefl, if_false, scanNumber_print m cv n rest hs, A.sgn cv]
  rw [finishInt_patt arm m cv n hn hb hwd]

/-- a value of the type the specification names is converted to itself -/
theorem convInt_inWidth (m : IMod) (cv : IConv) (n : Int) (h : intInWidth m cv n = true) : convInt m cv n = n := by
  have hw := width_cases m
  unfold intInWidth at h
  unfold convInt sext zext
  generalize m.width = w at *
  generalize cv.signed = sg at *
  rcases hw with hh | hh | hh | hh <;> subst hh <;> cases sg <;>
    simp only [inInt64, Int.reducePow, Nat.reduceSub, Nat.reduceEqDiff, if_false, if_true, Bool.false_eq_true,
      Bool.and_eq_true, decide_eq_true_eq] at h ⊢ <;> omega

/-- evaluation rule: under a 64-bit signed specification an `int64_t` is printed as it is -/
theorem printIntSpec_l_signed (cv : IConv) (hcv : cv.signed = true) (n : Int) (h : inInt64 n = true) :
    printIntSpec .l cv n = printInt n := by
  have h1 := convInt_inWidth .l cv n (by simpa [intInWidth, IMod.width] using h)
  simp only [convInt, hcv, if_true] at h1
  cases cv <;> simp [IConv.signed] at hcv <;> simp [printIntSpec, h1]

end Cello.Text
