/-
  Helper lemmas for C14 (engine fmt): memory reads of the format array, the two scan loops, the copy into fmt_buf.
-/
import Cello.Fmt

namespace Cello.Fmt

/-! ### reads -/

theorem rd_append (pre suf : Str) (k : Nat) : rd (pre ++ suf) (pre.length + k) = rd suf k := by
  unfold rd mem
  rw [List.append_assoc, List.getElem?_append_right (by omega)]
  simp

theorem rd_append_zero (pre suf : Str) : rd (pre ++ suf) pre.length = rd suf 0 := by
  simpa using rd_append pre suf 0

theorem rd_cons_zero (c : Char) (r : Str) : rd (c :: r) 0 = some c := by
  simp [rd, mem]

theorem rd_nil_zero : rd [] 0 = some NUL := by
  simp [rd, mem]

theorem rd_cons_succ (c : Char) (r : Str) (k : Nat) : rd (c :: r) (k + 1) = rd r k := by
  simp [rd, mem]

/-- the character a scan stops at: the first of the rest, or the terminator -/
def headOrNul (t : Str) : Char := t.headD NUL

theorem rd_zero (t : Str) : rd t 0 = some (headOrNul t) := by
  cases t <;> simp [rd, mem, headOrNul]

/-! ### the literal scan -/

theorem scanLit_run (s : Str) : ∀ (pre t : Str) (fuel : Nat),
    (∀ c ∈ s, c ≠ NUL ∧ c ≠ '%') → ¬ (headOrNul t ≠ NUL ∧ headOrNul t ≠ '%') → s.length < fuel →
    scanLit (pre ++ (s ++ t)) fuel pre.length = some (pre.length + s.length) := by
  induction s with
  | nil =>
    intro pre t fuel _ ht hf
    obtain ⟨f, rfl⟩ : ∃ f, fuel = f + 1 := ⟨fuel - 1, by simp at hf; omega⟩
    simp only [scanLit, List.nil_append, rd_append_zero, rd_zero, List.length_nil, Nat.add_zero]
    simp [ht]
  | cons c s ih =>
    intro pre t fuel hs ht hf
    obtain ⟨f, rfl⟩ : ∃ f, fuel = f + 1 := ⟨fuel - 1, by simp at hf; omega⟩
    have hc := hs c (by simp)
    simp only [scanLit, List.cons_append, rd_append_zero, rd_cons_zero]
    rw [if_pos hc]
    have := ih (pre ++ [c]) t f (fun x hx => hs x (by simp [hx])) ht (by simp at hf; omega)
    simp only [List.append_assoc, List.singleton_append, List.length_append, List.length_cons,
      List.length_nil, Nat.zero_add] at this ⊢
    rw [this]; congr 1; omega

/-! ### the conversion scan -/

theorem scanConv_run (conv : Str) (b : Str) : ∀ (pre : Str) (c : Char) (t : Str) (fuel : Nat),
    (∀ x ∈ b, strchrHit conv x = false) → strchrHit conv c = true → b.length < fuel →
    scanConv conv (pre ++ (b ++ c :: t)) fuel pre.length = some (pre.length + b.length) := by
  induction b with
  | nil =>
    intro pre c t fuel _ hc hf
    obtain ⟨f, rfl⟩ : ∃ f, fuel = f + 1 := ⟨fuel - 1, by simp at hf; omega⟩
    simp [scanConv, rd_append_zero, rd_cons_zero, hc]
  | cons x b ih =>
    intro pre c t fuel hb hc hf
    obtain ⟨f, rfl⟩ : ∃ f, fuel = f + 1 := ⟨fuel - 1, by simp at hf; omega⟩
    have hx := hb x (by simp)
    simp only [scanConv, List.cons_append, rd_append_zero, rd_cons_zero, hx]
    have := ih (pre ++ [x]) c t f (fun y hy => hb y (by simp [hy])) hc (by simp at hf; omega)
    simp only [List.append_assoc, List.singleton_append, List.length_append, List.length_cons,
      List.length_nil, Nat.zero_add] at this ⊢
    simp only [Bool.false_eq_true, if_false]
    rw [this]; congr 1; omega

/-! ### memcpy into fmt_buf -/

theorem slice_mid (pre s t : Str) : slice (pre ++ (s ++ t)) pre.length s.length = some s := by
  unfold slice mem
  rw [if_pos (by simp; omega)]
  simp [List.append_assoc]

theorem cstrOf_of_noNul (s : Str) (h : ∀ c ∈ s, c ≠ NUL) : cstrOf s = s := by
  unfold cstrOf
  induction s with
  | nil => rfl
  | cons c s ih =>
    have hc := h c (by simp)
    simp only [List.takeWhile_cons, hc, ne_eq, not_false_eq_true, decide_true, if_true]
    rw [ih (fun x hx => h x (by simp [hx]))]

end Cello.Fmt
