/-
  Lemmas for C15 (engine `text`), extension round: the model parametrised by what the translator extracts about the branches of
  scan_from_with, show_to / look_from, the formats of Num.c and the C types on the character path (Cello/TextScan.lean) IS the model
  of Cello/Text.lean when those parameters are as in the source now (`SrcLike`) and the input is made of bytes.
-/
import Cello.TextScan
import CelloProofs.Lemmas.TextSeq

namespace Cello.Text

theorem two8 : (2:Int)^8 = 256 := by decide
theorem two7 : (2:Int)^(8-1) = 128 := by decide
theorem cObjVal_s8 (b : Nat) (hb : b < 256) : cObjVal (true, 8) b = if b < 128 then (b:Int) else (b:Int) - 256 := by
  simp only [cObjVal, sext, zext, if_true, two8, two7]
  split <;> split <;> omega

theorem byteOf_cObjVal (b : Nat) (hb : b < 256) : byteOf (cObjVal (true, 8) b) = b := by
  rw [cObjVal_s8 b hb]
  simp only [byteOf, zext, two8]
  split <;> omega

theorem cObjVal_eq_iff (b k : Nat) (hb : b < 256) (hk : k < 128) : cObjVal (true, 8) b = (k : Int) ↔ b = k := by
  rw [cObjVal_s8 b hb]
  split <;> omega

theorem lookupI_eq {α : Type} (tbl : List (Nat × α)) (hk : ∀ p ∈ tbl, p.1 < 128) (b : Nat) (hb : b < 256) :
    lookupI tbl (cObjVal (true, 8) b) = tbl.lookup b := by
  induction tbl with
  | nil => simp [lookupI, List.lookup]
  | cons p ps ih =>
    obtain ⟨k, a⟩ := p
    have hk' : k < 128 := hk (k, a) List.mem_cons_self
    have ih' := ih (fun p hp => hk p (List.mem_cons_of_mem _ hp))
    simp only [lookupI, List.lookup]
    by_cases h : b = k
    · subst h; simp [(cObjVal_eq_iff b b hb hk').2 rfl]
    · have : ¬ ((k:Int) = cObjVal (true, 8) b) := fun e => h ((cObjVal_eq_iff b k hb hk').1 e.symm)
      have hbk : (b == k) = false := by simpa using h
      simp [this, ih', hbk]

theorem showByteC_eq (esc : List (Nat × List Nat)) (hk : ∀ p ∈ esc, p.1 < 128) (b : Nat) (hb : b < 256) :
    showByteC (true, 8) esc b = showByte esc b := by
  simp only [showByteC, showByte, lookupI_eq esc hk b hb, byteOf_cObjVal b hb]
  cases List.lookup b esc <;> rfl

theorem lookLoopC_eq (c : LookCfg) (h1 : c.cls < 128) (h2 : c.escb < 128) (hk : ∀ p ∈ c.esc, p.1 < 128) :
    ∀ (n : Nat) (l : List Nat) (pos : Nat) (acc : List Nat), l.length ≤ n → (∀ b ∈ l, b < 256) →
      lookLoopC (true, 8) c l pos acc = lookLoop c l pos acc := by
  intro n
  induction n with
  | zero =>
    intro l pos acc hl _
    have : l = [] := List.eq_nil_of_length_eq_zero (by omega)
    subst this; simp [lookLoopC, lookLoop]
  | succ n ih =>
    intro l pos acc hl hb
    match l with
    | [] => simp [lookLoopC, lookLoop]
    | [b] =>
      have hb0 : b < 256 := hb b (by simp)
      simp only [lookLoopC, lookLoop, cObjVal_eq_iff b _ hb0 h1, cObjVal_eq_iff b _ hb0 h2, byteOf_cObjVal b hb0]
    | b :: l' :: r' =>
      have hb0 : b < 256 := hb b (by simp)
      have hb1 : l' < 256 := hb l' (by simp)
      have hbr : ∀ x ∈ r', x < 256 := fun x hx => hb x (by simp [hx])
      have hbr1 : ∀ x ∈ l' :: r', x < 256 := fun x hx => hb x (List.mem_cons_of_mem _ hx)
      simp only [List.length_cons] at hl
      simp only [lookLoopC, lookLoop, cObjVal_eq_iff b _ hb0 h1, cObjVal_eq_iff b _ hb0 h2, byteOf_cObjVal b hb0,
        byteOf_cObjVal l' hb1, lookupI_eq c.esc hk l' hb1]
      rw [ih (l' :: r') (pos + 1) _ (by simp; omega) hbr1]
      by_cases e1 : b = c.cls
      · simp only [e1, if_true]
      · simp only [e1, if_false]
        by_cases e2 : b = c.escb
        · simp only [e2, if_true]
          cases hlk : List.lookup l' c.esc with
          | none => rfl
          | some t =>
            simp only []
            rw [ih r' _ _ (by omega) hbr, ih r' _ _ (by omega) hbr]
        · simp only [e2, if_false]

theorem lookStringC_eq (c : LookCfg) (h0 : c.opn < 128) (h1 : c.cls < 128) (h2 : c.escb < 128) (hk : ∀ p ∈ c.esc, p.1 < 128)
    (l : List Nat) (hb : ∀ b ∈ l, b < 256) (pos : Nat) : lookStringC (true, 8) c l pos = lookString c l pos := by
  cases l with
  | nil => rfl
  | cons b r =>
    have hb0 : b < 256 := hb b (by simp)
    simp only [lookStringC, lookString, cObjVal_eq_iff b _ hb0 h0]
    rw [lookLoopC_eq c h1 h2 hk r.length r _ _ (Nat.le_refl _) (fun x hx => hb x (by simp [hx]))]
end Cello.Text
namespace Cello.Text
open CelloGen.TextScan (PosUpd)

/-! ## the sequence layer -/

structure SrcLike (x : XCfg) : Prop where
  dollar : x.dollar = .assignCall "look_from"
  intUpd : x.intUpd = .addOff
  fltUpd : x.fltUpd = .addOff
  litReads : x.litReads = true
  litUpd : x.litUpd = .addLen
  printDollar : x.printDollar = .assignCall "show_to"
  chrTy : x.chrTy = (true, 8)
  showTy : x.showTy = (true, 8)
  intShow : segment x.base.printConv x.intShow = [.spec [37, 108, 105]]
  intLook : segment x.base.scanConv x.intLook = [.spec [37, 108, 105]]
  floatShow : segment x.base.printConv x.floatShow = [.spec [37, 102]]
  floatLook : segment x.base.scanConv x.floatLook = [.spec [37, 108, 102]]
  cls : x.base.look.cls < 128
  escb : x.base.look.escb < 128
  opn : x.base.look.opn < 128
  lookKeys : ∀ p ∈ x.base.look.esc, p.1 < 128
  showKeys : ∀ p ∈ x.base.showEsc, p.1 < 128

theorem srcLike_of_ok (x : XCfg) (h : srcLike x = true) : SrcLike x := by
  simp only [srcLike, Bool.and_eq_true, beq_iff_eq, decide_eq_true_eq, List.all_eq_true] at h
  obtain ⟨⟨⟨⟨⟨⟨⟨⟨⟨⟨⟨⟨⟨⟨⟨⟨h1, h2⟩, h3⟩, h4⟩, h5⟩, h6⟩, h7⟩, h8⟩, h9⟩, h10⟩, h11⟩, h12⟩, h13⟩, h14⟩, h15⟩, h16⟩, h17⟩ := h
  exact ⟨h1, h2, h3, h4, h5, h6, h7, h8, h9, h10, h11, h12, h13, h14, h15, h16, h17⟩

def Bytes (l : List Nat) : Prop := ∀ b ∈ l, b < 256

theorem adv_text (i : Input) (k : Nat) : (i.adv k).text = i.text := by
  cases i with
  | mk kd t c => cases kd <;> rfl

theorem view_bytes (i : Input) (pos : Nat) (l : List Nat) (hb : Bytes i.text) (h : i.view pos = some l) : Bytes l := by
  cases i with
  | mk kd t c =>
    cases kd with
    | str =>
      simp only [Input.view] at h
      split at h
      · simp only [Option.some.injEq] at h; subst h; exact fun b hm => hb b (List.mem_of_mem_drop hm)
      · exact absurd h (by simp)
    | file =>
      simp only [Input.view, Option.some.injEq] at h; subst h; exact fun b hm => hb b (List.mem_of_mem_drop hm)

theorem run_congr {β : Type} (i : Input) (pos : Nat) (d : β) (rd rd' : List Nat → Nat → β × Res (List Nat × Nat))
    (h : ∀ l, i.view pos = some l → rd l pos = rd' l pos) : i.run pos d rd = i.run pos d rd' := by
  simp only [Input.run]
  cases hv : i.view pos with
  | none => rfl
  | some l => simp only [h l hv]

theorem run_ok_text {β : Type} (i : Input) (pos : Nat) (d : β) (rd : List Nat → Nat → β × Res (List Nat × Nat)) (v : β) (i' : Input) (p' : Nat)
    (h : i.run pos d rd = (v, .ok (i', p'))) : i'.text = i.text := by
  simp only [Input.run] at h
  cases hv : i.view pos with
  | none => rw [hv] at h; simp at h
  | some l =>
    rw [hv] at h
    simp only at h
    rcases hr : rd l pos with ⟨b, r⟩
    rw [hr] at h
    cases r with
    | ok x =>
      obtain ⟨rest, pp⟩ := x
      simp only [Prod.mk.injEq, Res.ok.injEq] at h
      obtain ⟨_, h2, _⟩ := h
      rw [← h2]; exact adv_text _ _
    | raised e => simp at h
    | ub => simp at h
    | unmodelled => simp at h

theorem scanItem_ok_text (c : Cfg) (i : Input) (pos : Nat) (sh : Shape) (v : Option Val) (i' : Input) (p' : Nat)
    (h : scanItem c i pos sh = (v, .ok (i', p'))) : i'.text = i.text := by
  cases sh with
  | str =>
    simp only [scanItem] at h
    rcases hrun : i.run pos [63] (lookString c.look) with ⟨w, r⟩
    rw [hrun] at h; simp only [Prod.mk.injEq] at h
    obtain ⟨_, h2⟩ := h; subst h2; exact run_ok_text _ _ _ _ _ _ _ hrun
  | int =>
    simp only [scanItem] at h
    rcases hrun : i.run pos 77 (withN (scanIntSpec c .l .i) 77) with ⟨w, r⟩
    rw [hrun] at h; simp only [Prod.mk.injEq] at h
    obtain ⟨_, h2⟩ := h; subst h2; exact run_ok_text _ _ _ _ _ _ _ hrun
  | flt =>
    simp only [scanItem] at h
    rcases hrun : i.run pos 0x401E000000000000 (withN (scanFloatSpec c true .f) 0x401E000000000000) with ⟨w, r⟩
    rw [hrun] at h; simp only [Prod.mk.injEq] at h
    obtain ⟨_, h2⟩ := h; subst h2; exact run_ok_text _ _ _ _ _ _ _ hrun
  | ispec m cv =>
    simp only [scanItem] at h
    rcases hrun : i.run pos 77 (withN (scanIntSpec c m cv) 77) with ⟨w, r⟩
    rw [hrun] at h; simp only [Prod.mk.injEq] at h
    obtain ⟨_, h2⟩ := h; subst h2; exact run_ok_text _ _ _ _ _ _ _ hrun
  | fspec l cv =>
    simp only [scanItem] at h
    rcases hrun : i.run pos 0x401E000000000000 (withN (scanFloatSpec c l cv) 0x401E000000000000) with ⟨w, r⟩
    rw [hrun] at h; simp only [Prod.mk.injEq] at h
    obtain ⟨_, h2⟩ := h; subst h2; exact run_ok_text _ _ _ _ _ _ _ hrun
  | lit t =>
    simp only [scanItem] at h
    cases hv : i.view pos with
    | none => rw [hv] at h; simp at h
    | some l =>
      rw [hv] at h; simp only [Prod.mk.injEq, Res.ok.injEq] at h
      obtain ⟨_, h2, _⟩ := h; rw [← h2]; exact adv_text _ _
  | pct =>
    simp only [scanItem] at h
    cases hv : i.view pos with
    | none => rw [hv] at h; simp at h
    | some l =>
      rw [hv] at h; simp only at h
      cases hs : skipSpace l with
      | nil => rw [hs] at h; simp at h
      | cons b r =>
        rw [hs] at h; simp only [Prod.mk.injEq, Res.ok.injEq] at h
        obtain ⟨_, h2, _⟩ := h; rw [← h2]; exact adv_text _ _

theorem relocate_abs (fn : String) (pos : Nat) (r : Res (Input × Nat)) : relocate (.assignCall fn) pos r = r := by
  cases r with
  | ok x => obtain ⟨i, p⟩ := x; simp [relocate, placeAbs]
  | _ => rfl

theorem offOnly_off (r : Res (Input × Nat)) : offOnly .addOff r = r := by
  cases r <;> simp [offOnly]

theorem nested_single (c : Cfg) (i : Input) (pos : Nat) (sh : Shape) (d v0 : Val) (r : Res (Input × Nat))
    (h : scanItem c i pos sh = (some v0, r)) : nested d (some (scanItems c i pos [sh])) = (some v0, r) := by
  simp only [scanItems, h]
  cases r with
  | ok x => obtain ⟨i', p'⟩ := x; simp [nested]
  | _ => simp [nested]

theorem scanItemX_eq (x : XCfg) (S : SrcLike x) (i : Input) (hb : Bytes i.text) (pos : Nat) (sh : Shape) :
    scanItemX x i pos sh = scanItem x.base i pos sh := by
  cases sh with
  | str =>
    simp only [scanItemX, lookFromX, scanItem, S.dollar, relocate_abs, S.chrTy]
    rw [run_congr i pos [63] _ (lookString x.base.look) (fun l hv =>
      lookStringC_eq _ S.opn S.cls S.escb S.lookKeys l (view_bytes i pos l hb hv) pos)]
  | int =>
    have e : scanItem x.base i pos .int = scanItem x.base i pos (.ispec .l .i) := rfl
    rcases hrun : i.run pos 77 (withN (scanIntSpec x.base .l .i) 77) with ⟨w, r⟩
    have h1 : scanItem x.base i pos (.ispec .l .i) = (some (.int w), r) := by simp only [scanItem, hrun]
    have h2 : scanFmt x.base i pos x.intLook [.int 77] = some (scanItems x.base i pos [.ispec .l .i]) := by
      simp only [scanFmt, S.intLook, itemsOf]
      rfl
    simp only [scanItemX, lookFromX, h2, nested_single _ _ _ _ _ _ _ h1, S.dollar, relocate_abs, e, h1]
  | flt =>
    have e : scanItem x.base i pos .flt = scanItem x.base i pos (.fspec true .f) := rfl
    rcases hrun : i.run pos 0x401E000000000000 (withN (scanFloatSpec x.base true .f) 0x401E000000000000) with ⟨w, r⟩
    have h1 : scanItem x.base i pos (.fspec true .f) = (some (.flt w), r) := by simp only [scanItem, hrun]
    have h2 : scanFmt x.base i pos x.floatLook [.flt 0x401E000000000000] = some (scanItems x.base i pos [.fspec true .f]) := by
      simp only [scanFmt, S.floatLook, itemsOf]
      rfl
    simp only [scanItemX, lookFromX, h2, nested_single _ _ _ _ _ _ _ h1, S.dollar, relocate_abs, e, h1]
  | ispec m cv => simp only [scanItemX, S.intUpd, offOnly_off]
  | fspec l cv => simp only [scanItemX, S.fltUpd, offOnly_off]
  | lit t => simp only [scanItemX, S.litReads, S.litUpd, if_true]
  | pct => rfl

theorem scanItemsX_eq (x : XCfg) (S : SrcLike x) (shs : List Shape) : ∀ (i : Input) (_ : Bytes i.text) (pos : Nat),
    scanItemsX x i pos shs = scanItems x.base i pos shs := by
  induction shs with
  | nil => intro i _ pos; rfl
  | cons s ss ih =>
    intro i hb pos
    simp only [scanItemsX, scanItems, scanItemX_eq x S i hb pos s]
    rcases hs : scanItem x.base i pos s with ⟨v, r⟩
    cases r with
    | ok ip =>
      obtain ⟨i', p'⟩ := ip
      have ht := scanItem_ok_text _ _ _ _ _ _ _ hs
      simp only [ih i' (ht ▸ hb) p']
    | _ => rfl

/-! ## the writer -/

def Item.strBytes : Item → Prop
  | .shw (.str s) => Bytes s
  | _ => True

theorem foldl_congr_mem {α β : Type} (f g : α → β → α) (l : List β) (h : ∀ a, ∀ b ∈ l, f a b = g a b) (a : α) :
    l.foldl f a = l.foldl g a := by
  induction l generalizing a with
  | nil => rfl
  | cons b r ih =>
    simp only [List.foldl_cons, h a b List.mem_cons_self]
    exact ih (fun a b hb => h a b (List.mem_cons_of_mem _ hb)) _

theorem showStringToC_eq (esc : List (Nat × List Nat)) (hk : ∀ p ∈ esc, p.1 < 128) (opn cls s : List Nat) (hs : Bytes s) (o : Sink) (pos : Nat) :
    showStringToC (true, 8) esc opn cls s o pos = showStringTo esc opn cls s o pos := by
  simp only [showStringToC, showStringTo]
  rw [foldl_congr_mem _ (fun (st : Sink × Nat) b => (st.1.put st.2 (showByte esc b), st.2 + (showByte esc b).length)) s
    (fun a b hb => by simp only [showByteC_eq esc hk b (hs b hb)])]

theorem printItemX_eq (x : XCfg) (S : SrcLike x) (o : Sink) (pos : Nat) (it : Item) (hv : it.valid = true) (hb : it.strBytes) :
    printItemX x o pos it = some (printItem x.base o pos it) := by
  cases it with
  | shw v =>
    cases v with
    | str s =>
      simp only [printItemX, showToX, S.showTy, S.printDollar, placeAbs, Option.map_some, printItem]
      rw [showStringToC_eq _ S.showKeys _ _ _ hb]
    | int n =>
      have h2 : printFmt x.base o pos x.intShow [.int n] = some (printItems x.base o pos [.ispec .l .i n]) := by
        simp only [printFmt, S.intShow, itemsOf]; rfl
      have hp : printIntSpec .l .i n = printInt n := printIntSpec_l_signed .i rfl n (by simpa [Item.valid] using hv)
      simp only [printItemX, showToX, h2, printItems, printItem, Item.text, hp, S.printDollar, placeAbs, Option.map_some]
    | flt b =>
      have h2 : printFmt x.base o pos x.floatShow [.flt b] = some (printItems x.base o pos [.fspec false .f b]) := by
        simp only [printFmt, S.floatShow, itemsOf]; rfl
      simp only [printItemX, showToX, h2, printItems, printItem, Item.text, printFloatSpec, S.printDollar, placeAbs, Option.map_some]
  | ispec m c n => rfl
  | fspec l c b => rfl
  | lit t => rfl
  | pct => rfl

theorem printItemsX_eq (x : XCfg) (S : SrcLike x) (its : List Item) (hv : ∀ it ∈ its, it.valid = true ∧ it.strBytes) :
    ∀ (o : Sink) (pos : Nat), printItemsX x o pos its = some (printItems x.base o pos its) := by
  induction its with
  | nil => intro o pos; rfl
  | cons it its ih =>
    intro o pos
    have h1 := hv it List.mem_cons_self
    simp only [printItemsX, printItemX_eq x S o pos it h1.1 h1.2, printItems]
    exact ih (fun it hm => hv it (List.mem_cons_of_mem _ hm)) _ _

end Cello.Text
namespace Cello.Text

/-! ## what the writer produces is made of bytes -/

theorem bytes_append {a b : List Nat} (ha : Bytes a) (hb : Bytes b) : Bytes (a ++ b) := by
  intro x hx; rcases List.mem_append.1 hx with h | h
  · exact ha x h
  · exact hb x h

theorem bytes_of_lt {l : List Nat} {k : Nat} (hk : k ≤ 256) (h : ∀ b ∈ l, b < k) : Bytes l := fun b hb => by have := h b hb; omega

theorem natDigits_lt (n : Nat) : ∀ b ∈ natDigits n, b < 58 := by
  induction n using Nat.strongRecOn with
  | _ n ih =>
    by_cases h : n < 10
    · rw [natDigits_lt10 n h]; intro b hb; simp at hb; omega
    · rw [natDigits_ge10 n (by omega)]; intro b hb
      simp only [List.mem_append, List.mem_singleton] at hb
      rcases hb with hb | hb
      · exact ih (n / 10) (by omega) b hb
      · omega

theorem digitChar_lt (upper : Bool) (d : Nat) (hd : d < 16) : digitChar upper d < 128 := by
  simp only [digitChar]; split
  · omega
  · split <;> omega

theorem digitsB_lt128 (base : Nat) (hb2 : 2 ≤ base) (hb : base ≤ 16) (upper : Bool) (n : Nat) : ∀ b ∈ digitsB base upper n, b < 128 := by
  induction n using Nat.strongRecOn with
  | _ n ih =>
    by_cases h : n < base
    · rw [digitsB_lt base upper n h]; intro b hb'; simp at hb'; subst hb'; exact digitChar_lt _ _ (by omega)
    · rw [digitsB_ge base upper n hb2 (by omega)]; intro b hb'
      simp only [List.mem_append, List.mem_singleton] at hb'
      rcases hb' with hb' | hb'
      · exact ih (n / base) (Nat.div_lt_self (by omega) (by omega)) b hb'
      · subst hb'; exact digitChar_lt _ _ (by have := Nat.mod_lt n (show base > 0 by omega); omega)

theorem natDigits_bytes (n : Nat) : Bytes (natDigits n) := bytes_of_lt (by omega) (natDigits_lt n)

theorem printInt_bytes (n : Int) : Bytes (printInt n) := by
  simp only [printInt]; split
  · intro b hb; simp only [List.mem_cons] at hb; rcases hb with rfl | hb
    · omega
    · exact natDigits_bytes _ b hb
  · exact natDigits_bytes _

theorem printIntSpec_bytes (m : IMod) (c : IConv) (n : Int) : Bytes (printIntSpec m c n) := by
  cases c <;> simp only [printIntSpec]
  · exact printInt_bytes _
  · exact printInt_bytes _
  · exact bytes_of_lt (by omega) (digitsB_lt128 8 (by omega) (by omega) _ _)
  · exact natDigits_bytes _
  · exact bytes_of_lt (by omega) (digitsB_lt128 16 (by omega) (by omega) _ _)
  · exact bytes_of_lt (by omega) (digitsB_lt128 16 (by omega) (by omega) _ _)

theorem bytes_drop {l : List Nat} (h : Bytes l) (k : Nat) : Bytes (l.drop k) := fun b hb => h b (List.mem_of_mem_drop hb)
theorem bytes_take {l : List Nat} (h : Bytes l) (k : Nat) : Bytes (l.take k) := fun b hb => h b (List.mem_of_mem_take hb)
theorem bytes_sign (sg : Bool) : Bytes (if sg then [45] else []) := by cases sg <;> intro b hb <;> simp at hb <;> omega

theorem printF_bytes (bits : Nat) : Bytes (printF bits) := by
  simp only [printF]
  exact bytes_append (bytes_append (bytes_append (bytes_sign _) (natDigits_bytes _)) (by intro b hb; simp at hb; omega))
    (bytes_drop (natDigits_bytes _) 1)

theorem expText_bytes (upper : Bool) (x : Int) : Bytes (expText upper x) := by
  simp only [expText]
  refine bytes_append (bytes_append ?_ ?_) (natDigits_bytes _)
  · intro b hb; simp only [List.mem_cons, List.not_mem_nil, or_false] at hb
    rcases hb with rfl | rfl <;> split <;> omega
  · split <;> intro b hb <;> simp at hb; omega

theorem printE_bytes (upper : Bool) (bits : Nat) : Bytes (printE upper bits) := by
  simp only [printE]
  exact bytes_append (bytes_append (bytes_append (bytes_append (bytes_sign _) (natDigits_bytes _)) (by intro b hb; simp at hb; omega))
    (bytes_drop (natDigits_bytes _) 1)) (expText_bytes _ _)

theorem mem_dropWhile' (p : Nat → Bool) : ∀ (l : List Nat) (b : Nat), b ∈ l.dropWhile p → b ∈ l
  | [], _, h => by simp at h
  | a :: r, b, h => by
    simp only [List.dropWhile] at h
    split at h
    · exact List.mem_cons_of_mem _ (mem_dropWhile' p r b h)
    · exact h

theorem stripZeros_bytes {l : List Nat} (h : Bytes l) : Bytes (stripZeros l) := by
  intro b hb
  simp only [stripZeros, List.mem_reverse] at hb
  exact h b (List.mem_reverse.1 (mem_dropWhile' _ _ _ hb))

theorem pt_bytes {f : List Nat} (h : Bytes f) : Bytes (if f.isEmpty then [] else 46 :: f) := by
  split
  · intro b hb; simp at hb
  · intro b hb; simp only [List.mem_cons] at hb; rcases hb with rfl | hb
    · omega
    · exact h b hb

theorem printG_bytes (upper : Bool) (bits : Nat) : Bytes (printG upper bits) := by
  simp only [printG]
  split
  · exact bytes_append (bytes_sign _) (by intro b hb; simp at hb; omega)
  · split
    · exact bytes_append (bytes_append (bytes_append (bytes_sign _) (bytes_take (natDigits_bytes _) _))
        (pt_bytes (stripZeros_bytes (bytes_drop (natDigits_bytes _) _)))) (expText_bytes _ _)
    · split
      · exact bytes_append (bytes_append (bytes_sign _) (bytes_take (natDigits_bytes _) _))
          (pt_bytes (stripZeros_bytes (bytes_drop (natDigits_bytes _) _)))
      · refine bytes_append (bytes_append (bytes_sign _) (by intro b hb; simp at hb; omega)) (pt_bytes (stripZeros_bytes ?_))
        refine bytes_append ?_ (natDigits_bytes _)
        intro b hb; have := List.eq_of_mem_replicate hb; omega

theorem printFloatSpec_bytes (c : FConv) (bits : Nat) : Bytes (printFloatSpec c bits) := by
  cases c <;> simp only [printFloatSpec]
  · exact printF_bytes _
  · exact printF_bytes _
  · exact printE_bytes _ _
  · exact printE_bytes _ _
  · exact printG_bytes _ _
  · exact printG_bytes _ _

/-- an item's own bytes: the String shown / the separator -/
def Item.ownBytes : Item → Prop
  | .shw (.str s) => Bytes s
  | .lit t => Bytes t
  | _ => True

theorem ownBytes_strBytes (it : Item) (h : it.ownBytes) : it.strBytes := by
  cases it with
  | shw v => cases v <;> first | exact h | trivial
  | _ => trivial

theorem showByte_bytes (esc : List (Nat × List Nat)) (he : ∀ p ∈ esc, Bytes p.2) (b : Nat) (hb : b < 256) : Bytes (showByte esc b) := by
  simp only [showByte]
  cases hl : esc.lookup b with
  | some t => exact he _ (mem_of_lookup _ _ _ hl)
  | none => intro x hx; simp at hx; omega

theorem showString_bytes (esc : List (Nat × List Nat)) (he : ∀ p ∈ esc, Bytes p.2) (opn cls s : List Nat) (ho : Bytes opn) (hc : Bytes cls)
    (hs : Bytes s) : Bytes (showString esc opn cls s) := by
  simp only [showString]
  refine bytes_append (bytes_append ho ?_) hc
  intro x hx
  obtain ⟨b, hb, hxb⟩ := List.mem_flatMap.1 hx
  exact showByte_bytes esc he b (hs b hb) x hxb

/-- the texts the writer's tables hold are bytes (decided on the generated tables) -/
def showTextsOK (c : Cfg) : Bool :=
  c.showEsc.all (fun p => p.2.all (fun b => decide (b < 256))) && c.showOpen.all (fun b => decide (b < 256)) && c.showClose.all (fun b => decide (b < 256))

theorem item_text_bytes (c : Cfg) (hT : showTextsOK c = true) (it : Item) (h : it.ownBytes) : Bytes (it.text c) := by
  simp only [showTextsOK, Bool.and_eq_true, List.all_eq_true, decide_eq_true_eq] at hT
  obtain ⟨⟨h1, h2⟩, h3⟩ := hT
  cases it with
  | shw v =>
    cases v with
    | str s => exact showString_bytes _ (fun p hp => h1 p hp) _ _ _ h2 h3 h
    | int n => exact printInt_bytes n
    | flt b => exact printF_bytes b
  | ispec m cv n => exact printIntSpec_bytes m cv n
  | fspec l cv b => exact printFloatSpec_bytes cv b
  | lit t => exact h
  | pct => intro b hb; simp [Item.text] at hb; omega

theorem items_text_bytes (c : Cfg) (hT : showTextsOK c = true) (its : List Item) (h : ∀ it ∈ its, it.ownBytes) :
    Bytes (its.flatMap (Item.text c)) := by
  intro x hx
  obtain ⟨it, hit, hxi⟩ := List.mem_flatMap.1 hx
  exact item_text_bytes c hT it (h it hit) x hxi

theorem contract_valid (c : Cfg) (k : Kind) (its : List Item) : ∀ (z : List Nat), contractOK c k its z = true → ∀ it ∈ its, it.valid = true := by
  induction its with
  | nil => intro z _ it hit; simp at hit
  | cons a r ih =>
    intro z h it hit
    simp only [contractOK, Bool.and_eq_true] at h
    rcases List.mem_cons.1 hit with rfl | hm
    · exact h.1.1
    · exact ih z h.2 it hm

end Cello.Text

namespace Cello.Text

/-- the text String_Show writes, byte by byte through the `char` path, is the text of the byte-level model -/
theorem showString_C (esc : List (Nat × List Nat)) (hk : ∀ p ∈ esc, p.1 < 128) (opn cls s : List Nat) (hs : Bytes s) :
    opn ++ s.flatMap (showByteC (true, 8) esc) ++ cls = showString esc opn cls s := by
  have h : s.flatMap (showByteC (true, 8) esc) = s.flatMap (showByte esc) := by
    induction s with
    | nil => rfl
    | cons b r ih =>
      simp only [List.flatMap_cons, showByteC_eq esc hk b (hs b List.mem_cons_self),
        ih (fun x hx => hs x (List.mem_cons_of_mem _ hx))]
  unfold showString
  rw [h]

end Cello.Text

namespace Cello.Text

/-! ## direct calls of show_to / look_from -/

theorem scanItemD_eq (x : XCfg) (S : SrcLike x) (i : Input) (hb : Bytes i.text) (pos : Nat) (sh : Shape) :
    scanItemD x i pos sh = scanItem x.base i pos sh := by
  cases sh with
  | str =>
    simp only [scanItemD, lookFromX, scanItem, S.chrTy]
    rw [run_congr i pos [63] _ (lookString x.base.look) (fun l hv =>
      lookStringC_eq _ S.opn S.cls S.escb S.lookKeys l (view_bytes i pos l hb hv) pos)]
  | int =>
    have e : scanItem x.base i pos .int = scanItem x.base i pos (.ispec .l .i) := rfl
    rcases hrun : i.run pos 77 (withN (scanIntSpec x.base .l .i) 77) with ⟨w, r⟩
    have h1 : scanItem x.base i pos (.ispec .l .i) = (some (.int w), r) := by simp only [scanItem, hrun]
    have h2 : scanFmt x.base i pos x.intLook [.int 77] = some (scanItems x.base i pos [.ispec .l .i]) := by
      simp only [scanFmt, S.intLook, itemsOf]
      rfl
    simp only [scanItemD, lookFromX, h2, nested_single _ _ _ _ _ _ _ h1, e, h1]
  | flt =>
    have e : scanItem x.base i pos .flt = scanItem x.base i pos (.fspec true .f) := rfl
    rcases hrun : i.run pos 0x401E000000000000 (withN (scanFloatSpec x.base true .f) 0x401E000000000000) with ⟨w, r⟩
    have h1 : scanItem x.base i pos (.fspec true .f) = (some (.flt w), r) := by simp only [scanItem, hrun]
    have h2 : scanFmt x.base i pos x.floatLook [.flt 0x401E000000000000] = some (scanItems x.base i pos [.fspec true .f]) := by
      simp only [scanFmt, S.floatLook, itemsOf]
      rfl
    simp only [scanItemD, lookFromX, h2, nested_single _ _ _ _ _ _ _ h1, e, h1]
  | ispec m cv => simp only [scanItemD]; exact scanItemX_eq x S i hb pos _
  | fspec l cv => simp only [scanItemD]; exact scanItemX_eq x S i hb pos _
  | lit t => simp only [scanItemD]; exact scanItemX_eq x S i hb pos _
  | pct => simp only [scanItemD]; exact scanItemX_eq x S i hb pos _

theorem scanItemsD_eq (x : XCfg) (S : SrcLike x) (shs : List Shape) : ∀ (i : Input) (_ : Bytes i.text) (pos : Nat),
    scanItemsD x i pos shs = scanItems x.base i pos shs := by
  induction shs with
  | nil => intro i _ pos; rfl
  | cons s ss ih =>
    intro i hb pos
    simp only [scanItemsD, scanItems, scanItemD_eq x S i hb pos s]
    rcases hs : scanItem x.base i pos s with ⟨v, r⟩
    cases r with
    | ok ip =>
      obtain ⟨i', p'⟩ := ip
      have ht := scanItem_ok_text _ _ _ _ _ _ _ hs
      simp only [ih i' (ht ▸ hb) p']
    | _ => rfl

theorem printItemD_eq (x : XCfg) (S : SrcLike x) (o : Sink) (pos : Nat) (it : Item) (hv : it.valid = true) (hb : it.strBytes) :
    printItemD x o pos it = some (printItem x.base o pos it) := by
  have hX := printItemX_eq x S o pos it hv hb
  cases it with
  | shw v =>
    simp only [printItemD]
    simp only [printItemX, S.printDollar, placeAbs] at hX
    cases hs : showToX x o pos v with
    | none => rw [hs] at hX; simp at hX
    | some w => rw [hs] at hX; obtain ⟨o', ret⟩ := w; simpa using hX
  | ispec m c n => exact hX
  | fspec l c b => exact hX
  | lit t => exact hX
  | pct => exact hX

theorem printItemsD_eq (x : XCfg) (S : SrcLike x) (its : List Item) (hv : ∀ it ∈ its, it.valid = true ∧ it.strBytes) :
    ∀ (o : Sink) (pos : Nat), printItemsD x o pos its = some (printItems x.base o pos its) := by
  induction its with
  | nil => intro o pos; rfl
  | cons it its ih =>
    intro o pos
    have h1 := hv it List.mem_cons_self
    simp only [printItemsD, printItemD_eq x S o pos it h1.1 h1.2, printItems]
    exact ih (fun it hm => hv it (List.mem_cons_of_mem _ hm)) _ _

end Cello.Text
