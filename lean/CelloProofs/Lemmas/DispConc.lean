/-
  Helper lemmas for C08, concurrency part: every atomic step of a lookup preserves the invariant of the shared type
  object; what a thread holds in its local state stays valid whatever the other threads write.
-/
import CelloProofs.Lemmas.Disp

namespace Cello.Dispatch

/-- a pending cache fill refers to a slot of the class being scanned -/
def RetOK (slots : List (Nat × Cls)) (cls : Cls) : Ret → Prop
  | .direct => True
  | .fill i => (i, cls) ∈ slots

/-- validity of a thread's local state; it mentions the shared object only through the immutable part of its triples -/
def PCOK (D : String → Option Inst) (slots : List (Nat × Cls)) (es : List Entry) : PC → Prop
  | .start _ _ => True
  | .hdrRead cls ret => RetOK slots cls ret
  | .hdrWrite cls ret => RetOK slots cls ret
  | .scanP cls _ ret => RetOK slots cls ret
  | .scanN cls pos ret => RetOK slots cls ret ∧ D cls.name = declared (es.drop pos) cls.name
  | .memoWrite cls pos ret =>
      RetOK slots cls ret ∧ ∃ e, es[pos]? = some e ∧ e.name = cls.name ∧ D cls.name = some e.inst
  | .cacheWrite cls i v => (i, cls) ∈ slots ∧ v = D cls.name
  | .done cls v => v = D cls.name
  | .stuck => False

theorem finish_ok {D : String → Option Inst} {slots : List (Nat × Cls)} {es : List Entry} {cls : Cls} {ret : Ret}
    {v : Option Inst} (hr : RetOK slots cls ret) (hv : v = D cls.name) : PCOK D slots es (finish cls ret v) := by
  cases ret with
  | direct => exact hv
  | fill i => exact ⟨hr, hv⟩

theorem skel_getElem? {es es' : List Entry} (h : es'.map Entry.skel = es.map Entry.skel) (pos : Nat) {e : Entry}
    (he : es[pos]? = some e) : ∃ e', es'[pos]? = some e' ∧ e'.name = e.name ∧ e'.inst = e.inst := by
  have h1 : (es'.map Entry.skel)[pos]? = (es.map Entry.skel)[pos]? := by rw [h]
  simp only [List.getElem?_map, he, Option.map_some] at h1
  cases h2 : es'[pos]? with
  | none => simp [h2] at h1
  | some e' =>
    simp only [h2, Option.map_some, Option.some.injEq, Entry.skel, Prod.mk.injEq] at h1
    exact ⟨e', rfl, h1.1, h1.2⟩

/-- interference freedom: a step of another thread changes only memo / cache / header words -/
theorem PCOK_congr {D : String → Option Inst} {slots : List (Nat × Cls)} {es es' : List Entry}
    (h : es'.map Entry.skel = es.map Entry.skel) : ∀ pc, PCOK D slots es pc → PCOK D slots es' pc
  | .start _ _, _ => trivial
  | .hdrRead _ _, hp => hp
  | .hdrWrite _ _, hp => hp
  | .scanP _ _ _, hp => hp
  | .scanN cls pos ret, hp => by
    refine ⟨hp.1, ?_⟩
    rw [hp.2]
    apply declared_congr
    simp only [List.map_drop, h]
  | .memoWrite cls pos ret, hp => by
    obtain ⟨hr, e, he, hn, hd⟩ := hp
    obtain ⟨e', he', hn', hi'⟩ := skel_getElem? h pos he
    exact ⟨hr, e', he', by rw [hn', hn], by rw [hi', hd]⟩
  | .cacheWrite _ _ _, hp => hp
  | .done _ _, hp => hp
  | .stuck, hp => hp

theorem set_memo_skel (es : List Entry) (pos : Nat) (e : Entry) (c : Cls) (he : es[pos]? = some e) :
    (es.set pos { e with memo := some c }).map Entry.skel = es.map Entry.skel := by
  apply List.ext_getElem?
  intro i
  simp only [List.getElem?_map, List.getElem?_set]
  by_cases hi : pos = i
  · subst hi
    simp only [if_true]
    split
    · simp [he, Entry.skel]
    · rename_i hlt
      have : es[pos]? = none := List.getElem?_eq_none (by omega)
      simp [this] at he
  · simp [hi]

/-- **one atomic step** of one lookup: the invariant of the shared object and the validity of the thread's local state
    are preserved, the immutable part of the triples is untouched, the step never gets stuck -/
theorem step_spec {D : String → Option Inst} {slots : List (Nat × Cls)} {n : Nat} {t : TypeRec}
    (hs : SlotsOK slots n) (h : Inv D slots n t) (pc : PC) (hp : PCOK D slots t.entries pc) :
    Inv D slots n (step slots t pc).1 ∧ PCOK D slots (step slots t pc).1.entries (step slots t pc).2 ∧
      (step slots t pc).1.entries.map Entry.skel = t.entries.map Entry.skel ∧
      (step slots t pc).1.sentinel = t.sentinel := by
  cases pc with
  | start uc cls =>
    cases uc with
    | false => exact ⟨h, trivial, rfl, rfl⟩
    | true =>
      simp only [step]
      cases hso : slotOf slots cls with
      | none => exact ⟨h, trivial, rfl, rfl⟩
      | some p =>
        obtain ⟨i, lit⟩ := p
        obtain ⟨hmem, rfl⟩ := slotOf_some hso
        have hlt : i < t.cache.length := by rw [h.len]; exact hs.bound _ hmem
        simp only [hlt, dite_true]
        cases hc : t.cache[i] with
        | some inst =>
          have : t.cache[i]? = some (some inst) := by rw [List.getElem?_eq_getElem hlt, hc]
          exact ⟨h, (h.cache _ hmem inst this).symm, rfl, rfl⟩
        | none => exact ⟨h, hmem, rfl, rfl⟩
  | hdrRead cls ret =>
    simp only [step]
    split
    · exact ⟨h, hp, rfl, rfl⟩
    · exact ⟨h, hp, rfl, rfl⟩
  | hdrWrite cls ret => exact ⟨h.hdr true, hp, rfl, rfl⟩
  | scanP cls pos ret =>
    simp only [step]
    cases he : t.entries[pos]? with
    | none =>
      refine ⟨h, ⟨hp, ?_⟩, rfl, rfl⟩
      simp only [List.drop_zero]; exact (h.decl _).symm
    | some e =>
      simp only
      split
      · rename_i hm
        have hmem : e ∈ t.entries := List.mem_of_getElem? he
        have := h.memo e hmem cls hm
        exact ⟨h, finish_ok hp (by rw [this.1, this.2]), rfl, rfl⟩
      · exact ⟨h, hp, rfl, rfl⟩
  | scanN cls pos ret =>
    simp only [step]
    cases he : t.entries[pos]? with
    | none =>
      refine ⟨h, finish_ok hp.1 ?_, rfl, rfl⟩
      rw [hp.2, declared_drop_none he]
    | some e =>
      simp only
      have hd := declared_drop_step he cls.name
      split
      · rename_i hn
        refine ⟨h, ⟨hp.1, e, he, hn, ?_⟩, rfl, rfl⟩
        rw [hp.2, hd, if_pos hn]
      · rename_i hn
        refine ⟨h, ⟨hp.1, ?_⟩, rfl, rfl⟩
        rw [hp.2, hd, if_neg hn]
  | memoWrite cls pos ret =>
    obtain ⟨hr, e, he, hn, hd⟩ := hp
    simp only [step, he]
    have hsk := set_memo_skel t.entries pos e cls he
    refine ⟨⟨?_, ?_, h.len, h.cache⟩, finish_ok hr hd.symm, hsk, by first | rfl | trivial⟩
    · intro nm; rw [declared_congr hsk nm]; exact h.decl nm
    · intro e' he' c hc
      rcases List.mem_or_eq_of_mem_set he' with hm | rfl
      · exact h.memo e' hm c hc
      · simp only [Option.some.injEq] at hc
        subst hc
        exact ⟨hn.symm, by rw [hn]; exact hd⟩
  | cacheWrite cls i v =>
    obtain ⟨hmem, hv⟩ := hp
    refine ⟨⟨h.decl, h.memo, ?_, ?_⟩, hv, rfl, rfl⟩
    · simp only [step, List.length_set]; exact h.len
    · exact cache_set_inv hs hmem hv h.cache
  | done cls v => exact ⟨h, hp, rfl, rfl⟩
  | stuck => exact absurd hp (by simp [PCOK])

/-! ### threads and schedules -/

/-- a thread is in order: its lookup in progress holds valid local state, every logged result is the declared one -/
def ThreadOK (D : String → Option Inst) (slots : List (Nat × Cls)) (es : List Entry) (th : Thread) : Prop :=
  (∀ pc, th.pc = some pc → PCOK D slots es pc) ∧ ∀ p ∈ th.log, p.2 = D p.1.name

theorem ThreadOK_congr {D : String → Option Inst} {slots : List (Nat × Cls)} {es es' : List Entry}
    (h : es'.map Entry.skel = es.map Entry.skel) {th : Thread} (ht : ThreadOK D slots es th) : ThreadOK D slots es' th :=
  ⟨fun pc hpc => PCOK_congr h pc (ht.1 pc hpc), ht.2⟩

theorem threadStep_spec {D : String → Option Inst} {slots : List (Nat × Cls)} {n : Nat} {t : TypeRec}
    (hs : SlotsOK slots n) (h : Inv D slots n t) (th : Thread) (ht : ThreadOK D slots t.entries th) :
    Inv D slots n (threadStep slots t th).1 ∧
      ThreadOK D slots (threadStep slots t th).1.entries (threadStep slots t th).2 ∧
      (threadStep slots t th).1.entries.map Entry.skel = t.entries.map Entry.skel ∧
      (threadStep slots t th).1.sentinel = t.sentinel := by
  unfold threadStep
  cases hpc : th.pc with
  | none =>
    simp only
    cases htd : th.todo with
    | nil => exact ⟨h, ht, rfl, rfl⟩
    | cons p rest =>
      obtain ⟨uc, cls⟩ := p
      refine ⟨h, ⟨?_, ht.2⟩, rfl, rfl⟩
      intro pc hpc'
      simp only [Option.some.injEq] at hpc'
      subst hpc'
      trivial
  | some pc =>
    have hp := ht.1 pc hpc
    have key : ∀ (hnd : ∀ c v, pc ≠ .done c v),
        Inv D slots n (step slots t pc).1 ∧
        ThreadOK D slots (step slots t pc).1.entries { th with pc := some (step slots t pc).2 } ∧
        (step slots t pc).1.entries.map Entry.skel = t.entries.map Entry.skel ∧
        (step slots t pc).1.sentinel = t.sentinel := by
      intro _
      have sp := step_spec hs h pc hp
      refine ⟨sp.1, ⟨?_, ht.2⟩, sp.2.2.1, sp.2.2.2⟩
      intro pc' hpc'
      simp only [Option.some.injEq] at hpc'
      subst hpc'
      exact sp.2.1
    cases pc with
    | done cls v =>
      simp only
      refine ⟨h, ⟨?_, ?_⟩, by first | rfl | trivial, by first | rfl | trivial⟩
      · intro pc hpc'; simp at hpc'
      · intro p hpm
        simp only [List.mem_cons] at hpm
        rcases hpm with rfl | hpm
        · exact hp
        · exact ht.2 p hpm
    | start uc cls => exact key (by intro c v; simp)
    | hdrRead cls ret => exact key (by intro c v; simp)
    | hdrWrite cls ret => exact key (by intro c v; simp)
    | scanP cls pos ret => exact key (by intro c v; simp)
    | scanN cls pos ret => exact key (by intro c v; simp)
    | memoWrite cls pos ret => exact key (by intro c v; simp)
    | cacheWrite cls i v => exact key (by intro c v'; simp)
    | stuck => exact key (by intro c v; simp)

/-- the whole system is in order -/
def SysOK (D : String → Option Inst) (slots : List (Nat × Cls)) (n : Nat) (s : Sys) : Prop :=
  Inv D slots n s.shared ∧ ∀ th ∈ s.threads, ThreadOK D slots s.shared.entries th

theorem sysStep_spec {D : String → Option Inst} {slots : List (Nat × Cls)} {n : Nat} {s : Sys}
    (hs : SlotsOK slots n) (h : SysOK D slots n s) (tid : Nat) :
    SysOK D slots n (sysStep slots s tid) ∧
      (sysStep slots s tid).shared.entries.map Entry.skel = s.shared.entries.map Entry.skel ∧
      (sysStep slots s tid).shared.sentinel = s.shared.sentinel ∧
      (sysStep slots s tid).threads.length = s.threads.length := by
  unfold sysStep
  cases hth : s.threads[tid]? with
  | none => exact ⟨h, rfl, rfl, rfl⟩
  | some th =>
    simp only
    have hmem : th ∈ s.threads := List.mem_of_getElem? hth
    have sp := threadStep_spec hs h.1 th (h.2 th hmem)
    refine ⟨⟨sp.1, ?_⟩, sp.2.2.1, sp.2.2.2, by simp⟩
    intro th' hth'
    rcases List.mem_or_eq_of_mem_set hth' with hm | rfl
    · exact ThreadOK_congr sp.2.2.1 (h.2 th' hm)
    · exact sp.2.1

theorem runSched_spec {D : String → Option Inst} {slots : List (Nat × Cls)} {n : Nat}
    (hs : SlotsOK slots n) : ∀ (sched : List Nat) (s : Sys), SysOK D slots n s →
    SysOK D slots n (runSched slots s sched) ∧
      (runSched slots s sched).shared.entries.map Entry.skel = s.shared.entries.map Entry.skel ∧
      (runSched slots s sched).threads.length = s.threads.length
  | [], s, h => ⟨h, rfl, rfl⟩
  | tid :: sched, s, h => by
    have sp := sysStep_spec hs h tid
    have ih := runSched_spec hs sched (sysStep slots s tid) sp.1
    simp only [runSched]
    exact ⟨ih.1, by rw [ih.2.1, sp.2.1], by rw [ih.2.2, sp.2.2.2]⟩

/-! ### wait-freedom: a measure of the thread's own state that every step decreases -/

/-- remaining own steps of a lookup on a record with `n` triples (an upper bound) -/
def pcMeasure (n : Nat) : PC → Nat
  | .start _ _ => 2 * n + 8
  | .hdrRead _ _ => 2 * n + 7
  | .hdrWrite _ _ => 2 * n + 6
  | .scanP _ pos _ => (n - pos) + n + 5
  | .scanN _ pos _ => (n - pos) + 4
  | .memoWrite _ _ _ => 3
  | .cacheWrite _ _ _ => 2
  | .done _ _ => 0
  | .stuck => 0

theorem finish_measure (n : Nat) (cls : Cls) (ret : Ret) (v : Option Inst) : pcMeasure n (finish cls ret v) ≤ 2 := by
  cases ret <;> simp [finish, pcMeasure]

theorem lt_of_getElem?_some {α : Type} {l : List α} {i : Nat} {a : α} (h : l[i]? = some a) : i < l.length := by
  rcases Nat.lt_or_ge i l.length with h' | h'
  · exact h'
  · simp [List.getElem?_eq_none h'] at h

theorem step_measure (slots : List (Nat × Cls)) (t : TypeRec) (pc : PC)
    (hnd : ∀ c v, pc ≠ .done c v) (hns : pc ≠ .stuck) :
    pcMeasure t.entries.length (step slots t pc).2 < pcMeasure t.entries.length pc ∧
    pcMeasure t.entries.length pc ≤ soloFuel t.entries.length ∧
    (step slots t pc).1.entries.length = t.entries.length := by
  cases pc with
  | start uc cls =>
    refine ⟨?_, by simp [pcMeasure, soloFuel], ?_⟩
    · cases uc with
      | false => simp [step, pcMeasure]
      | true =>
        simp only [step]
        cases slotOf slots cls with
        | none => simp [pcMeasure]
        | some p =>
          obtain ⟨i, lit⟩ := p
          simp only
          split
          · split <;> simp [pcMeasure]
          · simp [pcMeasure]
    · cases uc with
      | false => rfl
      | true =>
        simp only [step]
        cases slotOf slots cls with
        | none => rfl
        | some p =>
          obtain ⟨i, lit⟩ := p
          simp only
          split
          · split <;> rfl
          · rfl
  | hdrRead cls ret =>
    simp only [step]
    split <;> simp [pcMeasure, soloFuel] <;> omega
  | hdrWrite cls ret => simp [step, pcMeasure, soloFuel]; omega
  | scanP cls pos ret =>
    simp only [step]
    cases he : t.entries[pos]? with
    | none => simp [pcMeasure, soloFuel]; omega
    | some e =>
      have hlt := lt_of_getElem?_some he
      simp only
      split
      · exact ⟨Nat.lt_of_le_of_lt (finish_measure _ cls ret (some e.inst)) (by simp [pcMeasure] <;> omega),
          by simp [pcMeasure, soloFuel]; omega, rfl⟩
      · simp [pcMeasure, soloFuel]; omega
  | scanN cls pos ret =>
    simp only [step]
    cases he : t.entries[pos]? with
    | none =>
      exact ⟨Nat.lt_of_le_of_lt (finish_measure _ cls ret none) (by simp [pcMeasure] <;> omega),
        by simp [pcMeasure, soloFuel]; omega, rfl⟩
    | some e =>
      have hlt := lt_of_getElem?_some he
      simp only
      split <;> simp [pcMeasure, soloFuel] <;> omega
  | memoWrite cls pos ret =>
    simp only [step]
    cases he : t.entries[pos]? with
    | none => simp [pcMeasure, soloFuel]
    | some e =>
      exact ⟨Nat.lt_of_le_of_lt (finish_measure _ cls ret (some e.inst)) (by simp [pcMeasure]),
        by simp [pcMeasure, soloFuel], by simp⟩
  | cacheWrite cls i v => simp [step, pcMeasure, soloFuel]
  | done cls v => exact absurd rfl (hnd cls v)
  | stuck => exact absurd rfl hns

end Cello.Dispatch
