/-
  CelloProofs/Lemmas/StrRun.lean — helper lemmas for C16, part 3: observers, histories, formatted prints,
  the declarative reading of `removeFirst` / `lexCmp`.
-/
import CelloProofs.Lemmas.StrOps
namespace Cello.Str

/-! ### observers on a well-formed object -/

theorem len_eq (s : Str) : len s = s.abs.length := rfl

theorem cstr_eq (s : Str) : cstr s = s.abs := rfl

theorem cmp_eq {s : Str} (h : s.WF) {x : List Byte} (hx : NulFree x) : cmp s x = lexCmp s.abs x := by
  obtain ⟨c, r, rfl, hc, habs⟩ := h.view
  rw [habs]; exact strcmpZ_view c x r hc hx

theorem eq_iff {s : Str} (h : s.WF) {x : List Byte} (hx : NulFree x) : eq s x = true ↔ s.abs = x := by
  simp only [eq, cmp_eq h hx, beq_iff_eq]; exact lexCmp_eq_zero _ _

theorem mem_iff (s : Str) (x : List Byte) : mem s x = true ↔ x <:+: s.abs :=
  findSub_isSome_iff x _

theorem hash_eq {α : Type} (H : List Byte → α) {s : Str} (h : s.WF) : hash H s = H s.abs := by
  obtain ⟨c, r, rfl, hc, habs⟩ := h.view
  simp only [hash, habs, strlen_view0 c r hc, readAt, List.drop_zero]
  rw [List.take_left' rfl]

theorem observe_safe {s : Str} (h : s.WF) : (observeLog s).all Acc.inBounds = true := by
  obtain ⟨c, r, rfl, hc, habs⟩ := h.view
  simp [observeLog, strlen_view0 c r hc, Acc.inBounds, Acc.rd]

/-- the executable invariant the driver evaluates is the invariant of the theorems -/
theorem wfb_iff (s : Str) : s.wfb = true ↔ s.WF := by
  constructor
  · intro h
    simp only [Str.wfb, Bool.and_eq_true, decide_eq_true_eq, beq_iff_eq] at h
    exact List.mem_of_getElem? h.2
  · intro h
    obtain ⟨c, r, rfl, hc, habs⟩ := h.view
    simp [Str.wfb, strlen_view0 c r hc]

/-- NUL-terminated at `len`, and `len` is inside the allocation -/
theorem terminated_of_wf {s : Str} (h : s.WF) : s.buf[len s]? = some 0 ∧ len s < s.cap := by
  have := (wfb_iff s).mpr h
  simp only [Str.wfb, Bool.and_eq_true, decide_eq_true_eq, beq_iff_eq] at this
  exact ⟨this.2, this.1⟩

/-! ### `removeFirst`, `rem`, declaratively -/

theorem removeFirst_isNone_iff (x l : List Byte) : (removeFirst x l).isNone = true ↔ ¬ x <:+: l := by
  rw [removeFirst_eq, ← findSub_isSome_iff]
  cases findSub x l <;> simp

/-- `removeFirst x l = some l'` iff `l'` is `l` with the FIRST occurrence of `x` cut out -/
theorem removeFirst_some_iff (x l l' : List Byte) :
    removeFirst x l = some l' ↔
      ∃ a b, l = a ++ x ++ b ∧ l' = a ++ b ∧ ∀ a' b', l = a' ++ x ++ b' → a.length ≤ a'.length := by
  rw [removeFirst_eq]
  constructor
  · intro h
    rcases hf : findSub x l with _ | p
    · simp [hf] at h
    · obtain ⟨a, b, e, hl⟩ := findSub_some hf
      refine ⟨a, b, e, ?_, fun a' b' e' => hl ▸ findSub_min hf a' b' e'⟩
      simp only [hf, Option.map_some, Option.some.injEq] at h
      subst e; subst hl; rw [← h]; simp
  · rintro ⟨a, b, e, e', hmin⟩
    rcases hf : findSub x l with _ | p
    · exact absurd ⟨a, b, e.symm⟩ (findSub_none hf)
    · obtain ⟨a2, b2, e2, hl2⟩ := findSub_some hf
      have h1 := findSub_min hf a b e
      have h2 := hmin a2 b2 e2
      have hp : p = a.length := by omega
      subst hp; subst e; subst e'
      simp

/-! ### histories -/

theorem run_ok {P : Params} (hP : P.Lawful) (J : Nat → Byte) : ∀ (ops : List Op) (s : Str), s.WF →
    (∀ op ∈ ops, op.NulFree) →
    (run P J s ops).1.WF ∧ (run P J s ops).1.abs = Spec.run s.abs ops ∧
    (run P J s ops).2.length = ops.length ∧
    ∀ r ∈ (run P J s ops).2, r.safe = true ∧ r.st.WF
  | [], s, hs, _ => by simp [run, Spec.run, hs]
  | op :: ops, s, hs, hops => by
    have h1 := step_ok hP J s op hs (hops op (by simp))
    have ih := run_ok hP J ops (step P J s op).st h1.wf (fun o ho => hops o (by simp [ho]))
    simp only [run, Spec.run]
    refine ⟨ih.1, by rw [ih.2.1, h1.abs], by simp [ih.2.2.1], ?_⟩
    intro r hr
    rcases List.mem_cons.mp hr with hr | hr
    · subst hr; exact ⟨h1.safe, h1.wf⟩
    · exact ih.2.2.2 r hr

theorem new_ok {P : Params} (hP : P.Lawful) (J : Nat → Byte) (init : Option (List Byte))
    (hinit : ∀ x, init = some x → NulFree x) :
    (new P J init).st.WF ∧ (new P J init).st.abs = init.getD [] ∧ (new P J init).safe = true := by
  cases init with
  | none =>
    simp only [new, hP.newEmpty, Option.getD_none]
    exact ⟨wf_view [] [], abs_view [] [] (by simp), by simp [Res.safe]⟩
  | some x =>
    obtain ⟨hb, hsafe⟩ := assign_buf hP J ⟨[]⟩ x
    have e : (new P J (some x)).st = ⟨x ++ 0 :: []⟩ := by
      show (assign P J _ x).st = _
      cases h : (assign P J ⟨[]⟩ x).st; rw [h] at hb; simp_all
    exact ⟨by rw [e]; exact wf_view _ _, by rw [e, abs_view x [] (hinit x rfl)]; rfl, hsafe⟩

/-! ### `print_to`: a run of `format_to` calls at advancing positions -/

theorem printTo_ok {P : Params} (hP : P.Lawful) (J : Nat → Byte) : ∀ (fs : List (List Byte)) (s : Str) (pos : Nat),
    s.WF → pos ≤ s.abs.length → (∀ f ∈ fs, NulFree f) →
    (printTo P J s pos fs).1.WF ∧
    (fs ≠ [] → (printTo P J s pos fs).1.abs = s.abs.take pos ++ fs.flatten) ∧
    (printTo P J s pos fs).2.1 = pos + fs.flatten.length ∧
    (printTo P J s pos fs).2.2.all Acc.inBounds = true
  | [], s, pos, hs, _, _ => by simp [printTo, hs]
  | f :: fs, s, pos, hs, hpos, hfs => by
    have h1 := step_ok hP J s (.format pos f) hs (hfs f (by simp))
    have habs : (formatTo P J s pos f).st.abs = s.abs.take pos ++ f := by
      have := h1.abs; simp only [step, Spec.step, hpos, if_true] at this; exact this
    have hlen : pos + f.length ≤ (formatTo P J s pos f).st.abs.length := by
      rw [habs]; simp [Nat.min_eq_left hpos]
    have ih := printTo_ok hP J fs (formatTo P J s pos f).st (pos + f.length) h1.wf hlen
      (fun g hg => hfs g (by simp [hg]))
    simp only [printTo]
    refine ⟨ih.1, fun _ => ?_, by rw [ih.2.2.1]; simp; omega, ?_⟩
    · by_cases hfs' : fs = []
      · subst hfs'; simp [printTo, habs]
      · rw [ih.2.1 hfs', habs]
        have : (s.abs.take pos ++ f).take (pos + f.length) = s.abs.take pos ++ f := by
          apply List.take_of_length_le; simp [Nat.min_eq_left hpos]
        rw [this]; simp
    · rw [List.all_append, ih.2.2.2]
      have := h1.safe
      simp only [step, Res.safe] at this
      simp [this]

end Cello.Str
