/-
  C14 helper lemmas: one iteration of the scanner loop on each kind of segment, and the refinement
  `loop (pre ++ render segs) … = refRun segs …` by induction on the segment list.
-/
import CelloProofs.Lemmas.Fmt

namespace Cello.Fmt

variable (cfg : Cfg) (prim : Prim) (shw : Obj → Out → Out × Outcome) (args : List Obj)

/-! ### one iteration -/

theorem loop_end (fmt : Str) (f k : Nat) (o : Out) (mk : Marks) :
    loop cfg prim shw fmt args (f + 1) fmt.length k o mk = ⟨o, .ok, mk.read fmt.length⟩ := by
  have h0 : rd fmt fmt.length = some NUL := by
    have := rd_append fmt [] 0; simpa [rd_nil_zero] using this
  rw [loop]; simp only [h0]; simp

theorem loop_lit (fmt pre s t : Str) (hf : fmt = pre ++ (s ++ t)) (hs0 : s ≠ [])
    (hs : ∀ c ∈ s, c ≠ NUL ∧ c ≠ '%') (ht : ¬ (headOrNul t ≠ NUL ∧ headOrNul t ≠ '%'))
    (f k : Nat) (o : Out) (mk : Marks) :
    loop cfg prim shw fmt args (f + 1) pre.length k o mk =
      match o.call prim s .none with
      | (o', .ok) => loop cfg prim shw fmt args f (pre.length + s.length) k o'
          (((mk.read pre.length).read (pre.length + s.length)).write s.length)
      | (o', bad) => ⟨o', bad, ((mk.read pre.length).read (pre.length + s.length)).write s.length⟩ := by
  subst hf
  obtain ⟨c, s', rfl⟩ := List.exists_cons_of_ne_nil hs0
  have hc := hs c (by simp)
  have h0 : rd (pre ++ (c :: s' ++ t)) pre.length = some c := by
    rw [rd_append_zero]; simp [rd_cons_zero]
  have h1 := scanLit_run (c :: s') pre t ((pre ++ (c :: s' ++ t)).length + 2) hs ht (by simp; omega)
  have h2 := slice_mid pre (c :: s') t
  have h3 : cstrOf (c :: s') = c :: s' := cstrOf_of_noNul _ (fun x hx => (hs x hx).1)
  rw [loop]
  simp only [h0, h1, hc.1, if_false]
  have hne : pre.length ≠ pre.length + (c :: s').length := by simp
  have hsub : pre.length + (c :: s').length - pre.length = (c :: s').length := by omega
  simp only [hne, ne_eq, not_false_eq_true, if_true, hsub, h2, h3]
  rw [if_neg (by simp; omega)]
  generalize Out.call prim o (c :: s') PVal.none = r
  rcases r with ⟨o', oc⟩
  cases oc <;> rfl

theorem loop_pct (fmt pre t : Str) (hf : fmt = pre ++ ('%' :: '%' :: t)) (f k : Nat) (o : Out) (mk : Marks) :
    loop cfg prim shw fmt args (f + 1) pre.length k o mk =
      match o.call prim ['%', '%'] .none with
      | (o', .ok) => loop cfg prim shw fmt args f (pre.length + 2) k o'
          (((mk.read pre.length).read pre.length).read (pre.length + 1))
      | (o', bad) => ⟨o', bad, ((mk.read pre.length).read pre.length).read (pre.length + 1)⟩ := by
  subst hf
  have h0 : rd (pre ++ ('%' :: '%' :: t)) pre.length = some '%' := by rw [rd_append_zero, rd_cons_zero]
  have h0' : rd (pre ++ ('%' :: '%' :: t)) (pre.length + 1) = some '%' := by
    rw [rd_append, rd_cons_succ, rd_cons_zero]
  have h1 : scanLit (pre ++ ('%' :: '%' :: t)) ((pre ++ ('%' :: '%' :: t)).length + 2) pre.length = some pre.length := by
    have := scanLit_run [] pre ('%' :: '%' :: t) ((pre ++ ('%' :: '%' :: t)).length + 2) (by simp) (by simp [headOrNul]) (by simp)
    simpa using this
  have hp : ('%' : Char) ≠ NUL := by decide
  rw [loop]
  simp only [h0, h1, h0']
  simp only [hp, if_false, ne_eq, not_true_eq_false, if_true, and_self]
  generalize Out.call prim o ['%', '%'] PVal.none = r
  rcases r with ⟨o', oc⟩
  cases oc <;> rfl

/-- marks after a specification that starts at index `i` and has a body of `n` characters -/
def specMarks (mk : Marks) (i n : Nat) : Marks :=
  (((((mk.read i).read i).read (i + 1)).read (i + (n + 1))).write (n + 2))

theorem loop_spec (hpct : '%' ∉ cfg.conv) (fmt pre b : Str) (c : Char) (t : Str)
    (hf : fmt = pre ++ ('%' :: (b ++ c :: t)))
    (hb : ∀ x ∈ b, x ∉ cfg.conv ∧ x ≠ NUL) (hb0 : b.head? ≠ some '%') (hc : c ∈ cfg.conv) (hc0 : c ≠ NUL)
    (f k : Nat) (o : Out) (mk : Marks) :
    loop cfg prim shw fmt args (f + 1) pre.length k o mk =
      match args[k]? with
      | none => ⟨o, .raised .FormatError, specMarks mk pre.length b.length⟩
      | some a =>
        match dispatch prim shw cfg.disp c ('%' :: (b ++ [c])) a o with
        | (o', .ok) => loop cfg prim shw fmt args f (pre.length + (b.length + 2)) (k + 1) o' (specMarks mk pre.length b.length)
        | (o', bad) => ⟨o', bad, specMarks mk pre.length b.length⟩ := by
  subst hf
  have hp : ('%' : Char) ≠ NUL := by decide
  have hcp : c ≠ '%' := fun h => hpct (h ▸ hc)
  have h0 : rd (pre ++ ('%' :: (b ++ c :: t))) pre.length = some '%' := by rw [rd_append_zero, rd_cons_zero]
  have h1 : scanLit (pre ++ ('%' :: (b ++ c :: t))) ((pre ++ ('%' :: (b ++ c :: t))).length + 2) pre.length = some pre.length := by
    have := scanLit_run [] pre ('%' :: (b ++ c :: t)) ((pre ++ ('%' :: (b ++ c :: t))).length + 2) (by simp) (by simp [headOrNul]) (by simp)
    simpa using this
  obtain ⟨c1, h2, h2'⟩ : ∃ c1, rd (pre ++ ('%' :: (b ++ c :: t))) (pre.length + 1) = some c1 ∧ c1 ≠ '%' := by
    rw [rd_append, rd_cons_succ, rd_zero]
    refine ⟨_, rfl, ?_⟩
    cases b with
    | nil => simpa [headOrNul] using hcp
    | cons x b => simpa [headOrNul] using hb0
  have h3 : scanConv cfg.conv (pre ++ ('%' :: (b ++ c :: t))) ((pre ++ ('%' :: (b ++ c :: t))).length + 2) pre.length
      = some (pre.length + (b.length + 1)) := by
    have := scanConv_run cfg.conv ('%' :: b) pre c t ((pre ++ ('%' :: (b ++ c :: t))).length + 2)
      (by
        intro x hx
        rcases List.mem_cons.1 hx with rfl | hx
        · simp [strchrHit, hp, hpct]
        · have := hb x hx; simp [strchrHit, this.1, this.2])
      (by simp [strchrHit, hc]) (by simp; omega)
    simpa using this
  have h4 : slice (pre ++ ('%' :: (b ++ c :: t))) pre.length (b.length + 2) = some ('%' :: (b ++ [c])) := by
    have := slice_mid pre ('%' :: (b ++ [c])) t
    simpa using this
  have h5 : rd (pre ++ ('%' :: (b ++ c :: t))) (pre.length + (b.length + 1)) = some c := by
    have : pre ++ ('%' :: (b ++ c :: t)) = (pre ++ ('%' :: b)) ++ (c :: t) := by simp
    rw [this]
    have := rd_append (pre ++ ('%' :: b)) (c :: t) 0
    simpa [rd_cons_zero] using this
  have h6 : cstrOf ('%' :: (b ++ [c])) = '%' :: (b ++ [c]) := by
    apply cstrOf_of_noNul
    intro x hx
    rcases List.mem_cons.1 hx with rfl | hx
    · exact hp
    · rcases List.mem_append.1 hx with hx | hx
      · exact (hb x hx).2
      · simp at hx; exact hx ▸ hc0
  rw [loop]
  simp only [h0, h1, hp, if_false, ne_eq, not_true_eq_false, if_true, h2, h2', and_false, h3]
  have hne : pre.length ≠ pre.length + (b.length + 1) := by omega
  have hsub : pre.length + (b.length + 1) - pre.length + 1 = b.length + 2 := by omega
  simp only [hne, not_false_eq_true, if_true, hsub, h4, h5, h6]
  rw [if_neg (by simp; omega)]
  rfl

/-! ### segments -/

theorem render_cons (s : Seg) (r : List Seg) : render (s :: r) = s.text ++ render r := by
  simp [render]

theorem render_nil : render [] = [] := rfl

theorem headOrNul_render_nonlit (s : Seg) (r : List Seg) (h : s.isLit = false) :
    headOrNul (render (s :: r)) = '%' := by
  cases s <;> simp_all [render_cons, Seg.text, headOrNul, Seg.isLit]

theorem lit_wf {conv : Str} {s : Str} (h : (Seg.lit s).wf conv = true) :
    s ≠ [] ∧ ∀ c ∈ s, c ≠ NUL ∧ c ≠ '%' := by
  simp only [Seg.wf, Bool.and_eq_true, Bool.not_eq_true', List.all_eq_true, ne_eq,
    decide_eq_true_eq] at h
  refine ⟨?_, fun c hc => ?_⟩
  · intro hs; subst hs; simp at h
  · have := h.2 c hc; simpa using this

theorem spec_wf {conv : Str} {b : Str} {c : Char} (h : (Seg.spec b c).wf conv = true) :
    c ∈ conv ∧ c ≠ NUL ∧ (∀ x ∈ b, x ∉ conv ∧ x ≠ NUL) ∧ b.head? ≠ some '%' := by
  simp only [Seg.wf, Bool.and_eq_true, decide_eq_true_eq, List.all_eq_true, ne_eq] at h
  obtain ⟨⟨⟨h1, h2⟩, h3⟩, h4⟩ := h
  refine ⟨h1, by simpa using h2, fun x hx => ?_, by simpa using h4⟩
  have := h3 x hx; simpa using this

theorem wfSegs_cons {conv : Str} {s : Seg} {r : List Seg} (h : wfSegs conv (s :: r) = true) :
    s.wf conv = true ∧ wfSegs conv r = true ∧
      (s.isLit = true → ¬ (headOrNul (render r) ≠ NUL ∧ headOrNul (render r) ≠ '%')) := by
  cases r with
  | nil => simp_all [wfSegs, render_nil, headOrNul]
  | cons t r =>
    simp only [wfSegs, Bool.and_eq_true, Bool.not_eq_true', Bool.and_eq_false_imp] at h
    refine ⟨h.1.1, h.2, fun hs => ?_⟩
    have := h.1.2 hs
    rw [headOrNul_render_nonlit t r this]; simp

theorem text_length_pos {conv : Str} {s : Seg} (h : s.wf conv = true) : 0 < s.text.length := by
  cases s with
  | lit s => have := (lit_wf h).1; cases s <;> simp_all [Seg.text]
  | pct => simp [Seg.text]
  | spec b c => simp [Seg.text]

/-! ### the refinement -/

theorem loop_refines (hpct : '%' ∉ cfg.conv) : ∀ (segs : List Seg), wfSegs cfg.conv segs = true →
    ∀ (fmt pre : Str) (fuel k : Nat) (o : Out) (mk : Marks),
      fmt = pre ++ render segs → segs.length < fuel → mk.rdMax ≤ fmt.length → mk.wrMax ≤ fmt.length →
      ∃ mk', loop cfg prim shw fmt args fuel pre.length k o mk
          = ⟨(refRun cfg prim shw args segs k o).1, (refRun cfg prim shw args segs k o).2, mk'⟩
        ∧ mk'.rdMax ≤ fmt.length ∧ mk'.wrMax ≤ fmt.length := by
  intro segs
  induction segs with
  | nil =>
    intro _ fmt pre fuel k o mk hf hfu hr hw
    obtain ⟨f, rfl⟩ : ∃ f, fuel = f + 1 := ⟨fuel - 1, by simp at hfu; omega⟩
    have hl : pre.length = fmt.length := by simp [hf, render_nil]
    rw [hl, loop_end]
    exact ⟨_, rfl, by simp [Marks.read]; omega, by simpa [Marks.read] using hw⟩
  | cons seg rest ih =>
    intro hwf fmt pre fuel k o mk hf hfu hr hw
    obtain ⟨f, rfl⟩ : ∃ f, fuel = f + 1 := ⟨fuel - 1, by simp at hfu; omega⟩
    obtain ⟨hseg, hrest, hstop⟩ := wfSegs_cons hwf
    have hfu' : rest.length < f := by simp at hfu; omega
    rw [render_cons] at hf
    have hlen : fmt.length = pre.length + (seg.text.length + (render rest).length) := by simp [hf]
    cases seg with
    | lit s =>
      obtain ⟨hs0, hs⟩ := lit_wf hseg
      simp only [Seg.text] at hf hlen
      rw [loop_lit cfg prim shw args fmt pre s (render rest) hf hs0 hs (hstop rfl)]
      have hm1 : (((mk.read pre.length).read (pre.length + s.length)).write s.length).rdMax ≤ fmt.length := by
        simp [Marks.read, Marks.write]; omega
      have hm2 : (((mk.read pre.length).read (pre.length + s.length)).write s.length).wrMax ≤ fmt.length := by
        simp [Marks.read, Marks.write]; omega
      simp only [refRun]
      rcases hcall : o.call prim s .none with ⟨o', oc⟩
      cases oc with
      | ok =>
        have := ih hrest fmt (pre ++ s) f k o'
          (((mk.read pre.length).read (pre.length + s.length)).write s.length) (by simp [hf]) hfu' hm1 hm2
        simpa using this
      | raised e => exact ⟨_, rfl, hm1, hm2⟩
      | oob => exact ⟨_, rfl, hm1, hm2⟩
    | pct =>
      simp only [Seg.text] at hf hlen
      rw [loop_pct cfg prim shw args fmt pre (render rest) (by simpa using hf)]
      have hm1 : (((mk.read pre.length).read pre.length).read (pre.length + 1)).rdMax ≤ fmt.length := by
        simp [Marks.read] at hlen ⊢; omega
      have hm2 : (((mk.read pre.length).read pre.length).read (pre.length + 1)).wrMax ≤ fmt.length := by
        simpa [Marks.read] using hw
      simp only [refRun]
      rcases hcall : o.call prim ['%', '%'] .none with ⟨o', oc⟩
      cases oc with
      | ok =>
        have := ih hrest fmt (pre ++ ['%', '%']) f k o'
          (((mk.read pre.length).read pre.length).read (pre.length + 1)) (by simp [hf]) hfu' hm1 hm2
        simpa using this
      | raised e => exact ⟨_, rfl, hm1, hm2⟩
      | oob => exact ⟨_, rfl, hm1, hm2⟩
    | spec b c =>
      obtain ⟨hc, hc0, hb, hb0⟩ := spec_wf hseg
      simp only [Seg.text] at hf hlen
      rw [loop_spec cfg prim shw args hpct fmt pre b c (render rest) (by simpa using hf) hb hb0 hc hc0]
      have hm1 : (specMarks mk pre.length b.length).rdMax ≤ fmt.length := by
        simp [specMarks, Marks.read, Marks.write] at hlen ⊢; omega
      have hm2 : (specMarks mk pre.length b.length).wrMax ≤ fmt.length := by
        simp [specMarks, Marks.read, Marks.write] at hlen ⊢; omega
      simp only [refRun]
      cases hk : args[k]? with
      | none => exact ⟨_, rfl, hm1, hm2⟩
      | some a =>
        simp only []
        rcases hd : dispatch prim shw cfg.disp c ('%' :: (b ++ [c])) a o with ⟨o', oc⟩
        cases oc with
        | ok =>
          have := ih hrest fmt (pre ++ '%' :: (b ++ [c])) f (k + 1) o' (specMarks mk pre.length b.length)
            (by simp [hf]) hfu' hm1 hm2
          simpa [Nat.add_assoc] using this
        | raised e => exact ⟨_, rfl, hm1, hm2⟩
        | oob => exact ⟨_, rfl, hm1, hm2⟩

theorem length_le_render {conv : Str} : ∀ segs : List Seg, wfSegs conv segs = true → segs.length ≤ (render segs).length := by
  intro segs
  induction segs with
  | nil => intro _; simp
  | cons s r ih =>
    intro hwf
    obtain ⟨hs, hr, _⟩ := wfSegs_cons hwf
    have := text_length_pos hs
    have := ih hr
    rw [render_cons]; simp; omega

/-- `print_to_with` on a well-formed format = the reference semantics of its segments; marks within the buffers -/
theorem printToWith_refines (hpct : '%' ∉ cfg.conv) (segs : List Seg) (hwf : wfSegs cfg.conv segs = true) (o : Out) :
    ∃ mk', printToWith cfg prim shw (render segs) args o
        = ⟨(refRun cfg prim shw args segs 0 o).1, (refRun cfg prim shw args segs 0 o).2, mk'⟩
      ∧ mk'.rdMax ≤ (render segs).length ∧ mk'.wrMax ≤ (render segs).length := by
  have hlen := length_le_render segs hwf
  obtain ⟨mk', h, h1, h2⟩ := loop_refines cfg prim shw args hpct segs hwf (render segs) []
    ((render segs).length + 1) 0 o ⟨0, 0⟩ (by simp) (by omega) (by simp) (by simp)
  simp only [List.length_nil] at h
  exact ⟨mk', by simp [printToWith, h], h1, h2⟩

theorem printToWith_pair (hpct : '%' ∉ cfg.conv) (segs : List Seg) (hwf : wfSegs cfg.conv segs = true) (o : Out) :
    (printToWith cfg prim shw (render segs) args o).pair = refRun cfg prim shw args segs 0 o := by
  obtain ⟨mk', h, _, _⟩ := printToWith_refines cfg prim shw args hpct segs hwf o
  simp [h, Result.pair]

end Cello.Fmt
