/-
  CelloProofs/Lemmas/TableBasic.lean — vocabulary for the Table proofs: membership of an entry in a slot array,
  the binding relation `Has`, the occupied-slot count, and how `Vector.set` changes them.
-/
import Cello.Table
import CelloProofs.Lemmas.RH
import CelloProofs.Lemmas.RHIns
set_option linter.unusedSectionVars false
set_option linter.unusedVariables false
namespace Cello.Table
open RH
variable {κ ν : Type} [DecidableEq κ] {n : Nat}

/-- entry `e` sits in some slot -/
def Mem (s : Slots κ ν n) (e : Entry κ ν) : Prop := ∃ i, ∃ hi : i < n, s[i] = some e

/-- the slot array binds `k` to `v` -/
def Has (s : Slots κ ν n) (k : κ) (v : ν) : Prop := ∃ e, Mem s e ∧ e.key = k ∧ e.val = v

/-- some slot holds key `k` -/
def HasKey (s : Slots κ ν n) (k : κ) : Prop := ∃ e, Mem s e ∧ e.key = k

/-- number of occupied slots -/
def count (s : Slots κ ν n) : Nat := s.countP Option.isSome

theorem mem_set_iff (s : Slots κ ν n) (i : Nat) (hi : i < n) (x : Option (Entry κ ν)) (e : Entry κ ν) :
    Mem (s.set i x hi) e ↔ x = some e ∨ ∃ q, ∃ hq : q < n, q ≠ i ∧ s[q] = some e := by
  constructor
  · rintro ⟨q, hq, h⟩
    rw [Vector.getElem_set] at h
    split at h
    · exact Or.inl h
    · rename_i hne; exact Or.inr ⟨q, hq, fun h' => hne h'.symm, h⟩
  · rintro (h | ⟨q, hq, hne, h⟩)
    · exact ⟨i, hi, by rw [Vector.getElem_set_self]; exact h⟩
    · exact ⟨q, hq, by rw [Vector.getElem_set_ne hi hq (fun h' => hne h'.symm)]; exact h⟩

theorem mem_iff_at (s : Slots κ ν n) (i : Nat) (hi : i < n) (e : Entry κ ν) :
    Mem s e ↔ s[i] = some e ∨ ∃ q, ∃ hq : q < n, q ≠ i ∧ s[q] = some e := by
  constructor
  · rintro ⟨q, hq, h⟩
    by_cases hqi : q = i
    · subst hqi; exact Or.inl h
    · exact Or.inr ⟨q, hq, hqi, h⟩
  · rintro (h | ⟨q, hq, _, h⟩)
    · exact ⟨i, hi, h⟩
    · exact ⟨q, hq, h⟩

theorem count_set (s : Slots κ ν n) (i : Nat) (hi : i < n) (x : Option (Entry κ ν)) :
    count (s.set i x hi) + (if s[i].isSome then 1 else 0) = count s + (if x.isSome then 1 else 0) := by
  unfold count
  rw [Vector.countP_set]
  have hpos : (if s[i].isSome = true then 1 else 0) ≤ Vector.countP Option.isSome s := by
    split
    · rename_i h
      have : 0 < Vector.countP Option.isSome s := by
        rw [Vector.countP_pos_iff]
        exact ⟨s[i], Vector.getElem_mem hi, h⟩
      omega
    · omega
  omega

theorem count_set_none_some (s : Slots κ ν n) (i : Nat) (hi : i < n) (e : Entry κ ν) (h : s[i] = none) :
    count (s.set i (some e) hi) = count s + 1 := by
  have := count_set s i hi (some e); simp [h] at this; omega

theorem count_set_some_some (s : Slots κ ν n) (i : Nat) (hi : i < n) (e r : Entry κ ν) (h : s[i] = some r) :
    count (s.set i (some e) hi) = count s := by
  have := count_set s i hi (some e); simp [h] at this; omega

theorem count_set_some_none (s : Slots κ ν n) (i : Nat) (hi : i < n) (r : Entry κ ν) (h : s[i] = some r) :
    count (s.set i none hi) + 1 = count s := by
  have := count_set s i hi none; simp [h] at this; omega

theorem count_le (s : Slots κ ν n) : count s ≤ n := by
  unfold count
  have := Vector.countP_le_size (p := Option.isSome) (xs := s)
  simpa using this

/-- fewer occupied slots than slots: some slot is empty -/
theorem exists_empty_of_count_lt (s : Slots κ ν n) (h : count s < n) : ∃ z, ∃ hz : z < n, s[z] = none := by
  apply Classical.byContradiction
  intro hne
  have hall : ∀ a ∈ s, Option.isSome a = true := by
    intro a ha
    obtain ⟨i, hi, rfl⟩ := Vector.mem_iff_getElem.mp ha
    cases hsi : s[i] with
    | none => exact absurd ⟨i, hi, hsi⟩ hne
    | some _ => rfl
  have : count s = n := by
    unfold count
    rw [Vector.countP_eq_size]
    exact hall
  omega

theorem count_replicate_none : count (Vector.replicate n (none : Option (Entry κ ν))) = 0 := by
  unfold count
  rw [Vector.countP_eq_zero]
  intro a ha
  rw [Vector.mem_replicate] at ha
  simp [ha.2]

theorem not_mem_replicate_none (e : Entry κ ν) : ¬ Mem (Vector.replicate n (none : Option (Entry κ ν))) e := by
  rintro ⟨i, hi, h⟩
  rw [Vector.getElem_replicate] at h
  cases h

theorem inv0_replicate_none (hash : κ → Nat) : Inv0 hash (Vector.replicate n (none : Option (Entry κ ν))) := by
  refine ⟨?_, ?_, ?_⟩
  · intro i hi e h; rw [Vector.getElem_replicate] at h; cases h
  · intro i j hi hj e e' h; rw [Vector.getElem_replicate] at h; cases h
  · intro i hi e h; rw [Vector.getElem_replicate] at h; cases h

theorem dist_self {n i : Nat} : dist n i i = 0 := by unfold dist; simp

/-- two entries with the same key in an array with distinct keys are the same entry -/
theorem mem_key_unique (hash : κ → Nat) (s : Slots κ ν n) (inv : Inv0 hash s) (e e' : Entry κ ν)
    (h : Mem s e) (h' : Mem s e') (hk : e.key = e'.key) : e = e' := by
  obtain ⟨i, hi, he⟩ := h
  obtain ⟨j, hj, he'⟩ := h'
  have := inv.distinct i j hi hj e e' he he' hk
  subst this
  rw [he] at he'; cases he'; rfl

end Cello.Table
