/-
  C04 helper lemmas: the store-level Tuple (`TupS`: block of pointer cells ending in the Terminal cell; `Tuple_Len` scans for
  the first Terminal; the `memmove`s move the Terminal cell with the items; every `realloc` gives the block its exact
  size) simulates the list-level `Tup` operation by operation and never leaves the block.
-/
import Cello.SeqStore
import CelloProofs.Lemmas.SeqTup
import CelloProofs.Lemmas.SortPerm

namespace Cello.Seq
variable {α : Type}

namespace TupS

/-- the first cells of the block hold the list `l` (all written) -/
def Pre (s : TupS α) (l : List (TCell α)) : Prop := ∀ k, k < l.length → s.cells[k]? = some (l[k]?)

theorem Pre.le_size {s : TupS α} {l : List (TCell α)} (h : s.Pre l) : l.length ≤ s.cells.size := by
  cases hl : l.length with
  | zero => omega
  | succ n =>
    have := h n (by omega)
    by_cases hn : n < s.cells.size
    · omega
    · rw [Array.getElem?_eq_none (by omega)] at this; cases this

theorem Pre.rd {s : TupS α} {l : List (TCell α)} (h : s.Pre l) (k : Nat) (hk : k < l.length) : s.rd k = l[k]? := by
  unfold TupS.rd; rw [h k hk]; rfl

theorem Pre.mono {s : TupS α} {l l' : List (TCell α)} (h : s.Pre l) (hl : ∀ k, k < l'.length → k < l.length ∧ l'[k]? = l[k]?) :
    s.Pre l' := by
  intro k hk
  obtain ⟨h1, h2⟩ := hl k hk
  rw [h k h1, h2]

theorem realloc_get (s : TupS α) (n j : Nat) :
    (s.realloc n).cells[j]? = if j < n then some ((s.cells[j]?).getD none) else none := by
  simp only [realloc, Array.getElem?_ofFn]
  split <;> rfl

theorem realloc_size (s : TupS α) (n : Nat) : (s.realloc n).cells.size = n := by simp [realloc]
theorem realloc_onHeap (s : TupS α) (n : Nat) : (s.realloc n).onHeap = s.onHeap := rfl

theorem Pre.realloc {s : TupS α} {l : List (TCell α)} (h : s.Pre l) (n : Nat) (hn : l.length ≤ n) : (s.realloc n).Pre l := by
  intro k hk
  rw [realloc_get, if_pos (by omega), h k hk]; rfl

theorem wr_get {s s' : TupS α} {k : Nat} {x : TCell α} (h : s.wr k x = some s') (j : Nat) :
    s'.cells[j]? = if j = k then some (some x) else s.cells[j]? := by
  unfold wr at h
  split at h
  · cases h
    simp only [Array.getElem?_setIfInBounds]
    by_cases hj : j = k
    · subst hj; simp [*]
    · rw [if_neg (by omega), if_neg hj]
  · cases h

theorem wr_size {s s' : TupS α} {k : Nat} {x : TCell α} (h : s.wr k x = some s') :
    s'.cells.size = s.cells.size ∧ s'.onHeap = s.onHeap := by
  unfold wr at h
  split at h
  · cases h; simp
  · cases h

theorem wr_some (s : TupS α) (k : Nat) (x : TCell α) (hk : k < s.cells.size) : ∃ s', s.wr k x = some s' := by
  unfold wr; rw [if_pos hk]; exact ⟨_, rfl⟩

theorem memmove_get {s s' : TupS α} {d sr c : Nat} (h : s.memmove d sr c = some s') (j : Nat) (hj : j < s.cells.size) :
    s'.cells[j]? = if d ≤ j ∧ j < d + c then s.cells[sr + (j - d)]? else s.cells[j]? := by
  unfold memmove at h
  split at h
  · rename_i hb
    cases h
    simp only [Array.getElem?_ofFn, hj, dite_true]
    split
    · rename_i hc
      have : sr + (j - d) < s.cells.size := by omega
      simp [Array.getElem?_eq_getElem this]
    · simp [Array.getElem?_eq_getElem hj]
  · cases h

theorem memmove_size {s s' : TupS α} {d sr c : Nat} (h : s.memmove d sr c = some s') :
    s'.cells.size = s.cells.size ∧ s'.onHeap = s.onHeap := by
  unfold memmove at h
  split at h
  · cases h; simp
  · cases h

theorem memmove_some (s : TupS α) (d sr c : Nat) (h1 : sr + c ≤ s.cells.size) (h2 : d + c ≤ s.cells.size) :
    ∃ s', s.memmove d sr c = some s' := by
  unfold memmove; rw [if_pos ⟨h1, h2⟩]; exact ⟨_, rfl⟩

/-! ### the prefix through writes and moves -/

theorem Pre.wr_snoc {s s' : TupS α} {l : List (TCell α)} {x : TCell α} (h : s.Pre l) (hw : s.wr l.length x = some s') :
    s'.Pre (l ++ [x]) := by
  intro k hk
  simp only [List.length_append, List.length_singleton] at hk
  rw [wr_get hw]
  by_cases hkl : k = l.length
  · subst hkl; simp
  · rw [if_neg hkl, h k (by omega), List.getElem?_append_left (by omega)]

theorem Pre.wr_set {s s' : TupS α} {l : List (TCell α)} {x : TCell α} {k : Nat} (h : s.Pre l) (hw : s.wr k x = some s') :
    s'.Pre (l.set k x) := by
  intro j hj
  simp only [List.length_set] at hj
  rw [wr_get hw, List.getElem?_set]
  by_cases hjk : j = k
  · subst hjk; simp [hj]
  · rw [if_neg hjk, if_neg (by omega), h j hj]

/-- `memmove` of the tail one cell up, then a write into the gap = insertion -/
theorem Pre.insert {s s1 s2 : TupS α} {l : List (TCell α)} {x : TCell α} {k : Nat} (h : s.Pre l) (hk : k ≤ l.length)
    (hm : s.memmove (k + 1) k (l.length - k) = some s1) (hw : s1.wr k x = some s2) :
    s2.Pre (l.take k ++ x :: l.drop k) := by
  have hsz : l.length + 1 ≤ s.cells.size := by
    unfold memmove at hm
    split at hm
    · rename_i hb; omega
    · cases hm
  intro j hj
  rw [take_cons_drop_eq_insertIdx l k x hk] at hj ⊢
  rw [List.length_insertIdx_of_le_length hk] at hj
  rw [wr_get hw, List.getElem?_insertIdx]
  by_cases hjk : j = k
  · subst hjk; simp [hk]
  · rw [if_neg hjk, memmove_get hm j (by omega)]
    by_cases hlt : j < k
    · rw [if_neg (by omega), if_pos hlt, h j (by omega)]
    · rw [if_pos (by omega), if_neg hlt, if_neg hjk]
      have e : k + (j - (k + 1)) = j - 1 := by omega
      rw [e, h (j - 1) (by omega)]

/-- `memmove` of the tail one cell down = removal -/
theorem Pre.erase {s s1 : TupS α} {l : List (TCell α)} {k : Nat} (h : s.Pre l) (hk : k < l.length)
    (hm : s.memmove k (k + 1) (l.length - 1 - k) = some s1) : s1.Pre (l.take k ++ l.drop (k + 1)) := by
  have hsz := h.le_size
  intro j hj
  rw [take_drop_succ_eq_eraseIdx] at hj ⊢
  rw [List.length_eraseIdx_of_lt hk] at hj
  rw [memmove_get hm j (by omega), List.getElem?_eraseIdx]
  by_cases hlt : j < k
  · rw [if_neg (by omega), if_pos hlt, h j (by omega)]
  · rw [if_pos (by omega), if_neg hlt]
    have e : k + 1 + (j - k) = j + 1 := by omega
    rw [e, h (j + 1) (by omega)]

theorem Pre.wrFrom {l : List (TCell α)} : ∀ (ys : List (TCell α)) {s s' : TupS α}, s.Pre l → s.wrFrom l.length ys = some s' →
    s'.Pre (l ++ ys) ∧ s'.cells.size = s.cells.size ∧ s'.onHeap = s.onHeap := by
  intro ys
  induction ys generalizing l with
  | nil => intro s s' h hw; simp only [TupS.wrFrom] at hw; cases hw; simpa using h
  | cons y ys ih =>
    intro s s' h hw
    simp only [TupS.wrFrom] at hw
    cases h1 : s.wr l.length y with
    | none => rw [h1] at hw; cases hw
    | some s1 =>
      rw [h1] at hw; simp only at hw
      have hp := h.wr_snoc h1
      have hlen : l.length + 1 = (l ++ [y]).length := by simp
      rw [hlen] at hw
      obtain ⟨g1, g2, g3⟩ := ih hp hw
      obtain ⟨w1, w2⟩ := wr_size h1
      refine ⟨by simpa using g1, by omega, by rw [g3, w2]⟩

theorem wrFrom_some : ∀ (ys : List (TCell α)) (s : TupS α) (k : Nat), k + ys.length ≤ s.cells.size → ∃ s', s.wrFrom k ys = some s' := by
  intro ys
  induction ys with
  | nil => intro s k _; exact ⟨s, rfl⟩
  | cons y ys ih =>
    intro s k hk
    simp only [List.length_cons] at hk
    obtain ⟨s1, h1⟩ := wr_some s k y (by omega)
    simp only [TupS.wrFrom, h1]
    exact ih s1 (k + 1) (by rw [(wr_size h1).1]; omega)

theorem wrFrom_get : ∀ (ys : List (TCell α)) {s s' : TupS α} {k : Nat}, s.wrFrom k ys = some s' → ∀ j,
    s'.cells[j]? = if k ≤ j ∧ j < k + ys.length then some (ys[j - k]?) else s.cells[j]? := by
  intro ys
  induction ys with
  | nil =>
    intro s s' k h j; simp only [TupS.wrFrom] at h; cases h
    rw [if_neg (by simp only [List.length_nil]; omega)]
  | cons y ys ih =>
    intro s s' k h j
    simp only [TupS.wrFrom] at h
    cases h1 : s.wr k y with
    | none => rw [h1] at h; cases h
    | some s1 =>
      rw [h1] at h; simp only at h
      rw [ih h j, wr_get h1]
      simp only [List.length_cons]
      by_cases hj : j = k
      · subst hj
        rw [if_neg (by omega), if_pos rfl, if_pos (by omega)]; simp
      · by_cases hlt : k + 1 ≤ j ∧ j < k + 1 + ys.length
        · rw [if_pos hlt, if_pos (by omega)]
          have : j - k = (j - (k + 1)) + 1 := by omega
          rw [this, List.getElem?_cons_succ]
        · rw [if_neg hlt, if_neg hj, if_neg (by omega)]

/-! ### the encoding of a Tuple: its items, then the Terminal cell -/

/-- the cells of a Tuple holding `items` -/
def enc (items : List α) : List (TCell α) := items.map .item ++ [.term]

theorem enc_length (items : List α) : (enc items).length = items.length + 1 := by simp [enc]

theorem enc_get_lt (items : List α) (i : Nat) (h : i < items.length) : (enc items)[i]? = some (.item items[i]) := by
  unfold enc
  rw [List.getElem?_append_left (by simpa using h), List.getElem?_map, List.getElem?_eq_getElem h]; rfl

theorem enc_get_len (items : List α) : (enc items)[items.length]? = some .term := by
  unfold enc
  rw [List.getElem?_append_right (by simp)]; simp

theorem enc_insert (items : List α) (k : Nat) (x : α) (hk : k ≤ items.length) :
    (enc items).take k ++ .item x :: (enc items).drop k = enc (items.take k ++ x :: items.drop k) := by
  unfold enc
  rw [List.take_append_of_le_length (by simpa using hk), List.drop_append_of_le_length (by simpa using hk)]
  simp [List.map_take, List.map_drop]

theorem enc_erase (items : List α) (k : Nat) (hk : k < items.length) :
    (enc items).take k ++ (enc items).drop (k + 1) = enc (items.take k ++ items.drop (k + 1)) := by
  unfold enc
  rw [List.take_append_of_le_length (by simp; omega), List.drop_append_of_le_length (by simp; omega)]
  simp [List.map_take, List.map_drop]

theorem enc_set (items : List α) (k : Nat) (x : α) (hk : k < items.length) :
    (enc items).set k (.item x) = enc (items.set k x) := by
  unfold enc
  rw [List.set_append_left _ _ (by simpa using hk), List.map_set]

/-- abstraction relation: a heap Tuple whose block is exactly the items followed by the Terminal cell -/
structure Abs (s : TupS α) (t : Tup α) : Prop where
  heap : s.onHeap = true
  size : s.cells.size = t.items.length + 1
  cell : s.Pre (enc t.items)

/-- the block of a Tuple holding `t.items`, on the heap or not: exact size, items then Terminal -/
structure Cells (s : TupS α) (t : Tup α) : Prop where
  size : s.cells.size = t.items.length + 1
  cell : s.Pre (enc t.items)

theorem Abs.cells {s : TupS α} {t : Tup α} (h : s.Abs t) : s.Cells t := ⟨h.size, h.cell⟩

theorem Cells.rd_lt {s : TupS α} {t : Tup α} (h : s.Cells t) (i : Nat) (hi : i < t.items.length) :
    s.rd i = some (.item t.items[i]) := by
  rw [h.cell.rd i (by rw [enc_length]; omega), enc_get_lt _ _ hi]

theorem Cells.rd_len {s : TupS α} {t : Tup α} (h : s.Cells t) : s.rd t.items.length = some .term := by
  rw [h.cell.rd _ (by rw [enc_length]; omega), enc_get_len]

theorem Cells.scanLen_eq {s : TupS α} {t : Tup α} (h : s.Cells t) : ∀ (fuel i : Nat), i ≤ t.items.length →
    t.items.length - i < fuel → s.scanLen fuel i = some t.items.length := by
  intro fuel
  induction fuel with
  | zero => intro i _ hf; omega
  | succ fuel ih =>
    intro i hi hf
    by_cases hlt : i < t.items.length
    · simp only [TupS.scanLen, h.rd_lt i hlt]; exact ih (i + 1) (by omega) (by omega)
    · have : i = t.items.length := by omega
      subst this
      simp only [TupS.scanLen, h.rd_len]

/-- `Tuple_Len` finds the Terminal cell exactly after the last item -/
theorem Cells.len_sim {s : TupS α} {t : Tup α} (h : s.Cells t) : s.len = some t.len := by
  unfold TupS.len Tup.len
  exact h.scanLen_eq _ 0 (by omega) (by rw [h.size]; omega)

theorem Abs.rd_lt {s : TupS α} {t : Tup α} (h : s.Abs t) (i : Nat) (hi : i < t.items.length) :
    s.rd i = some (.item t.items[i]) := h.cells.rd_lt i hi

theorem Abs.rd_len {s : TupS α} {t : Tup α} (h : s.Abs t) : s.rd t.items.length = some .term := h.cells.rd_len

theorem len_sim {s : TupS α} {t : Tup α} (h : s.Abs t) : s.len = some t.len := h.cells.len_sim

theorem Pre.items {s : TupS α} {items : List α} (h : s.Pre (enc items)) : s.Pre (items.map .item) :=
  h.mono (by
    intro k hk
    simp only [List.length_map] at hk
    refine ⟨by rw [enc_length]; omega, ?_⟩
    unfold enc; rw [List.getElem?_append_left (by simpa using hk)])

theorem push_sim {s : TupS α} {t : Tup α} (h : s.Abs t) (x : α) :
    (s.push x).1.Abs (t.push x).1 ∧ (s.push x).2 = (t.push x).2 := by
  unfold TupS.push TupS.pushCell Tup.push
  rw [len_sim h]
  simp only [h.heap, Bool.not_true, Bool.false_eq_true, if_false, Tup.len]
  have hp : (s.realloc (t.items.length + 2)).Pre (t.items.map .item) := h.cell.items.realloc _ (by simp)
  obtain ⟨s1, hw⟩ := wrFrom_some [.item x, .term] (s.realloc (t.items.length + 2)) t.items.length (by simp [realloc_size])
  have hw' : (s.realloc (t.items.length + 2)).wrFrom (t.items.map TCell.item).length [.item x, .term] = some s1 := by
    simpa using hw
  obtain ⟨g1, g2, g3⟩ := Pre.wrFrom _ hp hw'
  rw [hw]
  refine ⟨⟨by rw [g3]; exact h.heap, ?_, ?_⟩, rfl⟩
  · show s1.cells.size = (t.items ++ [x]).length + 1; rw [g2, realloc_size]; simp
  · show s1.Pre (enc (t.items ++ [x])); simpa [enc] using g1

theorem pop_sim {s : TupS α} {t : Tup α} (h : s.Abs t) :
    s.pop.1.Abs t.pop.1 ∧ s.pop.2 = t.pop.2 := by
  unfold TupS.pop Tup.pop
  rw [len_sim h]
  simp only [h.heap, Bool.not_true, Bool.false_eq_true, if_false]
  by_cases h0 : t.len = 0
  · rw [if_pos h0, if_pos h0]; exact ⟨h, rfl⟩
  · rw [if_neg h0, if_neg h0]
    have hn : t.len = t.items.length := rfl
    have hp : (s.realloc t.len).Pre (t.items.dropLast.map .item) := by
      apply Pre.realloc _ _ (by simp; omega)
      exact h.cell.items.mono (by
        intro k hk
        simp only [List.length_map, List.length_dropLast] at hk
        refine ⟨by simp; omega, ?_⟩
        rw [List.getElem?_map, List.getElem?_map, List.getElem?_dropLast, if_pos hk])
    obtain ⟨s1, hw⟩ := wr_some (s.realloc t.len) (t.len - 1) .term (by rw [realloc_size]; omega)
    rw [hw]
    have hw' : (s.realloc t.len).wr (t.items.dropLast.map TCell.item).length .term = some s1 := by
      simpa [hn] using hw
    obtain ⟨w1, w2⟩ := wr_size hw
    refine ⟨⟨by rw [w2]; exact h.heap, ?_, ?_⟩, rfl⟩
    · show s1.cells.size = t.items.dropLast.length + 1; rw [w1, realloc_size]; simp; omega
    · exact hp.wr_snoc hw'

theorem pushAt_sim {s : TupS α} {t : Tup α} (h : s.Abs t) (x : α) (i : Int) :
    (s.pushAt x i).1.Abs (t.pushAt x i).1 ∧ (s.pushAt x i).2 = (t.pushAt x i).2 := by
  unfold TupS.pushAt TupS.pushAtCell Tup.pushAt
  rw [len_sim h]
  simp only [h.heap, Bool.not_true, Bool.false_eq_true, if_false]
  have hn : t.len = t.items.length := rfl
  by_cases hc : normIdx t.len i < 0 ∨ normIdx t.len i ≥ (t.len : Int)
  · rw [if_pos hc, if_pos hc]; exact ⟨h, rfl⟩
  · rw [if_neg hc, if_neg hc]
    generalize hk : (normIdx t.len i).toNat = k
    have hkl : k < t.items.length := by omega
    have hp : (s.realloc (t.len + 2)).Pre (enc t.items) := h.cell.realloc _ (by rw [enc_length]; omega)
    obtain ⟨s1, hm⟩ := memmove_some (s.realloc (t.len + 2)) (k + 1) k (t.len - k + 1)
      (by rw [realloc_size]; omega) (by rw [realloc_size]; omega)
    obtain ⟨s2, hw⟩ := wr_some s1 k (.item x) (by rw [(memmove_size hm).1, realloc_size]; omega)
    rw [hm]; simp only [hw]
    have hm' : (s.realloc (t.len + 2)).memmove (k + 1) k ((enc t.items).length - k) = some s1 := by
      rw [enc_length]; rw [← hm]; congr 1; omega
    have := hp.insert (by rw [enc_length]; omega) hm' hw
    rw [enc_insert _ _ _ (by omega)] at this
    obtain ⟨m1, m2⟩ := memmove_size hm
    obtain ⟨w1, w2⟩ := wr_size hw
    refine ⟨⟨by rw [w2, m2]; exact h.heap, ?_, this⟩, by first | rfl | trivial⟩
    show s2.cells.size = (t.items.take k ++ x :: t.items.drop k).length + 1
    rw [w1, m1, realloc_size]; simp; omega

theorem popAt_sim {s : TupS α} {t : Tup α} (h : s.Abs t) (i : Int) :
    (s.popAt i).1.Abs (t.popAt i).1 ∧ (s.popAt i).2 = (t.popAt i).2 := by
  unfold TupS.popAt Tup.popAt
  rw [len_sim h]
  simp only [h.heap, Bool.not_true, Bool.false_eq_true, if_false]
  have hn : t.len = t.items.length := rfl
  by_cases hc : normIdx t.len i < 0 ∨ normIdx t.len i ≥ (t.len : Int)
  · rw [if_pos hc, if_pos hc]; exact ⟨h, rfl⟩
  · rw [if_neg hc, if_neg hc]
    generalize hk : (normIdx t.len i).toNat = k
    have hkl : k < t.items.length := by omega
    obtain ⟨s1, hm⟩ := memmove_some s k (k + 1) (t.len - k) (by rw [h.size]; omega) (by rw [h.size]; omega)
    rw [hm]; simp only
    have hm' : s.memmove k (k + 1) ((enc t.items).length - 1 - k) = some s1 := by
      rw [enc_length]; rw [← hm]; congr 1
    have := h.cell.erase (by rw [enc_length]; omega) hm'
    rw [enc_erase _ _ hkl] at this
    obtain ⟨m1, m2⟩ := memmove_size hm
    refine ⟨⟨by show s1.onHeap = true; rw [m2]; exact h.heap, ?_, ?_⟩, by first | rfl | trivial⟩
    · show (s1.realloc t.len).cells.size = (t.items.take k ++ t.items.drop (k + 1)).length + 1
      rw [realloc_size]; simp; omega
    · exact this.realloc _ (by rw [enc_length]; simp; omega)

theorem get_sim {s : TupS α} {t : Tup α} (h : s.Abs t) (i : Int) : s.get i = t.get i := by
  unfold TupS.get TupS.getCell Tup.get
  rw [len_sim h]
  have hn : t.len = t.items.length := rfl
  simp only
  by_cases hc : normIdx t.len i < 0 ∨ normIdx t.len i ≥ (t.len : Int)
  · simp only [if_pos hc]
  · simp only [if_neg hc]
    have hkl : (normIdx t.len i).toNat < t.items.length := by omega
    rw [h.rd_lt _ hkl, List.getElem?_eq_getElem hkl]

theorem set_sim {s : TupS α} {t : Tup α} (h : s.Abs t) (i : Int) (x : α) :
    (s.set i x).1.Abs (t.set i x).1 ∧ (s.set i x).2 = (t.set i x).2 := by
  unfold TupS.set TupS.setCell Tup.set
  rw [len_sim h]
  have hn : t.len = t.items.length := rfl
  simp only
  by_cases hc : normIdx t.len i < 0 ∨ normIdx t.len i ≥ (t.len : Int)
  · rw [if_pos hc, if_pos hc]; exact ⟨h, rfl⟩
  · rw [if_neg hc, if_neg hc]
    generalize hk : (normIdx t.len i).toNat = k
    have hkl : k < t.items.length := by omega
    obtain ⟨s1, hw⟩ := wr_some s k (.item x) (by rw [h.size]; omega)
    rw [hw]
    obtain ⟨w1, w2⟩ := wr_size hw
    have := h.cell.wr_set hw
    rw [enc_set _ _ _ hkl] at this
    refine ⟨⟨by rw [w2]; exact h.heap, ?_, this⟩, rfl⟩
    show s1.cells.size = (t.items.set k x).length + 1
    rw [w1, h.size]; simp

theorem scanEq_eq [BEq α] {s : TupS α} {t : Tup α} (h : s.Cells t) (x : α) : ∀ (fuel i : Nat), i ≤ t.items.length →
    t.items.length - i < fuel →
    s.scanEq x fuel i = .ok (((t.items.drop i).findIdx? (fun y => x == y)).map (· + i)) := by
  intro fuel
  induction fuel with
  | zero => intro i _ hf; omega
  | succ fuel ih =>
    intro i hi hf
    by_cases hlt : i < t.items.length
    · simp only [TupS.scanEq, h.rd_lt i hlt]
      rw [List.drop_eq_getElem_cons hlt, List.findIdx?_cons]
      by_cases hx : (x == t.items[i]) = true
      · simp [hx]
      · simp only [hx, Bool.false_eq_true, if_false]
        rw [ih (i + 1) (by omega) (by omega)]
        cases (List.drop (i + 1) t.items).findIdx? (fun y => x == y) with
        | none => rfl
        | some j => simp only [Option.map_some]; congr 2; omega
    · have : i = t.items.length := by omega
      subst this
      simp [TupS.scanEq, h.rd_len]

theorem rem_sim [BEq α] {s : TupS α} {t : Tup α} (h : s.Abs t) (x : α) :
    (s.rem x).1.Abs (t.rem x).1 ∧ (s.rem x).2 = (t.rem x).2 := by
  unfold TupS.rem Tup.rem
  rw [scanEq_eq h.cells x _ 0 (by omega) (by rw [h.size]; omega)]
  simp only [List.drop_zero, Nat.add_zero, Option.map_id']
  cases hf : t.items.findIdx? (fun y => x == y) with
  | none => exact ⟨h, rfl⟩
  | some i => exact popAt_sim h _

theorem concat_sim {s : TupS α} {t : Tup α} (h : s.Abs t) (ys : List α) :
    (s.concat ys).1.Abs (t.concat ys).1 ∧ (s.concat ys).2 = (t.concat ys).2 := by
  unfold TupS.concat Tup.concat
  rw [len_sim h]
  simp only [h.heap, Bool.not_true, Bool.false_eq_true, if_false, Tup.len]
  have hp : (s.realloc (t.items.length + 1 + ys.length)).Pre (t.items.map .item) := h.cell.items.realloc _ (by simp; omega)
  obtain ⟨s1, hw⟩ := wrFrom_some (ys.map .item ++ [.term]) (s.realloc (t.items.length + 1 + ys.length)) t.items.length
    (by simp [realloc_size]; omega)
  have hw' : (s.realloc (t.items.length + 1 + ys.length)).wrFrom (t.items.map TCell.item).length (ys.map .item ++ [.term]) = some s1 := by
    simpa using hw
  obtain ⟨g1, g2, g3⟩ := Pre.wrFrom _ hp hw'
  rw [hw]
  refine ⟨⟨by rw [g3]; exact h.heap, ?_, ?_⟩, rfl⟩
  · show s1.cells.size = (t.items ++ ys).length + 1; rw [g2, realloc_size]; simp; omega
  · show s1.Pre (enc (t.items ++ ys)); simpa [enc] using g1

theorem resize_sim {s : TupS α} {t : Tup α} (h : s.Abs t) (n : Nat) :
    (s.resize n).1.Abs (t.resize n).1 ∧ (s.resize n).2 = (t.resize n).2 := by
  unfold TupS.resize Tup.resize
  rw [len_sim h]
  simp only [h.heap, Bool.not_true, Bool.false_eq_true, if_false]
  have hn : t.len = t.items.length := rfl
  by_cases hc : n < t.len
  · rw [if_pos hc, if_pos hc]
    have hp : (s.realloc (n + 1)).Pre ((t.items.take n).map .item) := by
      apply Pre.realloc _ _ (by simp; omega)
      exact h.cell.items.mono (by
        intro k hk
        simp only [List.length_map, List.length_take] at hk
        refine ⟨by simp; omega, ?_⟩
        rw [List.getElem?_map, List.getElem?_map, List.getElem?_take, if_pos (by omega)])
    obtain ⟨s1, hw⟩ := wr_some (s.realloc (n + 1)) n .term (by rw [realloc_size]; omega)
    rw [hw]
    have hw' : (s.realloc (n + 1)).wr ((t.items.take n).map TCell.item).length .term = some s1 := by
      rw [← hw]; congr 1; simp; omega
    obtain ⟨w1, w2⟩ := wr_size hw
    refine ⟨⟨by rw [w2]; exact h.heap, ?_, hp.wr_snoc hw'⟩, rfl⟩
    show s1.cells.size = (t.items.take n).length + 1; rw [w1, realloc_size]; simp; omega
  · rw [if_neg hc, if_neg hc]; exact ⟨h, rfl⟩

theorem pushAll_sim : ∀ (ys : List α) {s : TupS α} {t : Tup α}, s.Abs t →
    (s.pushAll ys).1.Abs ⟨t.items ++ ys⟩ ∧ (s.pushAll ys).2 = .ok () := by
  intro ys
  induction ys with
  | nil =>
    intro s t h
    refine ⟨?_, rfl⟩
    show s.Abs _
    simpa using h
  | cons y ys ih =>
    intro s t h
    obtain ⟨h1, h2⟩ := push_sim h y
    simp only [TupS.pushAll]
    have e2 : (s.push y).2 = .ok () := h2
    rcases hp : s.push y with ⟨s1, r⟩
    rw [hp] at h1 e2
    simp only at h1 e2
    subst e2
    have := ih h1
    simpa [Tup.push] using this

theorem assign_sim {s : TupS α} {t : Tup α} (h : s.Abs t) (ys : List α) (b : Bool) :
    (s.assign ys b).1.Abs (t.assign ys b).1 ∧ (s.assign ys b).2 = (t.assign ys b).2 := by
  unfold TupS.assign Tup.assign
  cases b with
  | false => simp only [Bool.false_eq_true, if_false]; exact pushAll_sim ys h
  | true =>
    simp only [if_true, h.heap, Bool.not_true, Bool.false_eq_true, if_false]
    have hp : (s.realloc (ys.length + 1)).Pre ([] : List (TCell α)) := by intro k hk; simp at hk
    obtain ⟨s1, hw⟩ := wrFrom_some (ys.map .item ++ [.term]) (s.realloc (ys.length + 1)) 0 (by simp [realloc_size])
    obtain ⟨g1, g2, g3⟩ := Pre.wrFrom _ hp hw
    rw [hw]
    refine ⟨⟨by rw [g3]; exact h.heap, ?_, by simpa [enc] using g1⟩, rfl⟩
    show s1.cells.size = ys.length + 1; rw [g2, realloc_size]

theorem readItems_eq {s : TupS α} {t : Tup α} (h : s.Abs t) : ∀ (n i : Nat), i + n ≤ t.items.length →
    s.readItems i n = some ((t.items.drop i).take n) := by
  intro n
  induction n with
  | zero => intro i _; simp [TupS.readItems]
  | succ n ih =>
    intro i hi
    have hil : i < t.items.length := by omega
    simp only [TupS.readItems, h.rd_lt i hil, ih (i + 1) (by omega), Option.map_some]
    rw [List.drop_eq_getElem_cons hil, List.take_succ_cons]

theorem items?_eq {s : TupS α} {t : Tup α} (h : s.Abs t) : s.items? = some t.items := by
  unfold TupS.items?
  rw [len_sim h]
  simp only [Option.bind_some, Tup.len]
  rw [readItems_eq h _ 0 (by omega)]; simp

theorem sortBy_sim {s : TupS α} {t : Tup α} (h : s.Abs t) (f : α → α → Bool) :
    (s.sortBy f).1.Abs (t.sortBy f).1 ∧ (s.sortBy f).2 = (t.sortBy f).2 := by
  unfold TupS.sortBy Tup.sortBy
  rw [items?_eq h]
  simp only
  obtain ⟨s1, hw⟩ := wrFrom_some ((Sort.sortList f t.items).map .item) s 0 (by simp [Sort.sortList_length, h.size])
  rw [hw]
  have hp0 : s.Pre ([] : List (TCell α)) := by intro k hk; simp at hk
  obtain ⟨_, g2, g3⟩ := Pre.wrFrom _ hp0 hw
  refine ⟨⟨by rw [g3]; exact h.heap, ?_, ?_⟩, rfl⟩
  · show s1.cells.size = (Sort.sortList f t.items).length + 1; rw [g2, h.size, Sort.sortList_length]
  · intro j hj
    show s1.cells[j]? = some ((enc (Sort.sortList f t.items))[j]?)
    rw [enc_length, Sort.sortList_length] at hj
    rw [wrFrom_get _ hw j]
    simp only [List.length_map, Sort.sortList_length, Nat.zero_le, true_and, Nat.zero_add, Nat.sub_zero]
    by_cases hlt : j < t.items.length
    · rw [if_pos hlt]
      unfold enc
      rw [List.getElem?_append_left (by simp [Sort.sortList_length]; exact hlt)]
    · have : j = t.items.length := by omega
      subst this
      rw [if_neg hlt, h.cell _ (by rw [enc_length]; omega), enc_get_len]
      have := enc_get_len (Sort.sortList f t.items)
      rw [Sort.sortList_length] at this
      rw [this]

/-- every operation of a history: the store-level step is the list-level step -/
theorem step_sim [BEq α] {s : TupS α} {t : Tup α} (h : s.Abs t) (op : Op α) :
    (s.step op).1.Abs (t.step op).1 ∧ (s.step op).2 = (t.step op).2 := by
  cases op with
  | push x => exact push_sim h x
  | append x => exact push_sim h x
  | pop => exact pop_sim h
  | pushAt x i => exact pushAt_sim h x i
  | popAt i => exact popAt_sim h i
  | set i x => exact set_sim h i x
  | rem x => exact rem_sim h x
  | concat ys => exact concat_sim h ys
  | resize n => exact resize_sim h n
  | sort f => exact sortBy_sim h f
  | assign ys b => exact assign_sim h ys b

theorem new_abs (xs : List α) : (TupS.new xs).Abs ⟨xs⟩ := by
  refine ⟨rfl, by simp [TupS.new], ?_⟩
  intro k hk
  simp only [TupS.new, List.getElem?_toArray]
  unfold enc
  rw [show (List.map (fun x => some (TCell.item x)) xs ++ [some TCell.term]) = (xs.map TCell.item ++ [TCell.term]).map some by simp]
  rw [List.getElem?_map]
  unfold enc at hk
  rw [List.getElem?_eq_getElem hk]; rfl

/-! ### iteration and `mem` by pointer identity -/

/-- a cell as the iterator protocol sees it: `Terminal` ends the iteration -/
def toCell : Option α → TCell α
  | none => .term
  | some x => .item x

theorem Cells.rd_toCell {s : TupS α} {t : Tup α} (h : s.Cells t) (i : Nat) (hi : i ≤ t.items.length) :
    s.rd i = some (toCell t.items[i]?) := by
  by_cases hlt : i < t.items.length
  · rw [h.rd_lt i hlt, List.getElem?_eq_getElem hlt]; rfl
  · have : i = t.items.length := by omega
    subst this
    rw [h.rd_len, List.getElem?_eq_none (by omega)]; rfl

theorem scanNext_eq {s : TupS α} {t : Tup α} (h : s.Cells t) (ident : α → Nat) (c : α) : ∀ (fuel i : Nat),
    i ≤ t.items.length → t.items.length - i < fuel →
    s.scanNext ident c fuel i = some (toCell (match (t.items.drop i).findIdx? (fun y => ident y == ident c) with
      | some r => t.items[i + r + 1]?
      | none => none)) := by
  intro fuel
  induction fuel with
  | zero => intro i _ hf; omega
  | succ fuel ih =>
    intro i hi hf
    by_cases hlt : i < t.items.length
    · simp only [TupS.scanNext, h.rd_lt i hlt]
      rw [List.drop_eq_getElem_cons hlt, List.findIdx?_cons]
      by_cases hx : (ident t.items[i] == ident c) = true
      · simp only [hx, if_true]
        exact h.rd_toCell (i + 1) (by omega)
      · simp only [hx, Bool.false_eq_true, if_false]
        rw [ih (i + 1) (by omega) (by omega)]
        cases (List.drop (i + 1) t.items).findIdx? (fun y => ident y == ident c) with
        | none => rfl
        | some r => simp only [Option.map_some]; congr 3; omega
    · have : i = t.items.length := by omega
      subst this
      simp [TupS.scanNext, h.rd_len, toCell]

theorem iterNext_sim {s : TupS α} {t : Tup α} (h : s.Cells t) (ident : α → Nat) (c : α) :
    s.iterNext ident c = some (toCell (t.iterNext ident c)) := by
  unfold TupS.iterNext Tup.iterNext
  rw [scanNext_eq h ident c _ 0 (by omega) (by rw [h.size]; omega)]
  simp only [List.drop_zero, Nat.zero_add]
  cases t.items.findIdx? (fun y => ident y == ident c) <;> rfl

theorem scanPrev_eq {s : TupS α} {t : Tup α} (h : s.Cells t) (ident : α → Nat) (c : α) : ∀ (fuel i : Nat),
    i ≤ t.items.length → t.items.length - i < fuel →
    s.scanPrev ident c fuel i = some (toCell (match (t.items.drop i).findIdx? (fun y => ident y == ident c) with
      | some r => t.items[i + r - 1]?
      | none => none)) := by
  intro fuel
  induction fuel with
  | zero => intro i _ hf; omega
  | succ fuel ih =>
    intro i hi hf
    by_cases hlt : i < t.items.length
    · simp only [TupS.scanPrev, h.rd_lt i hlt]
      rw [List.drop_eq_getElem_cons hlt, List.findIdx?_cons]
      by_cases hx : (ident t.items[i] == ident c) = true
      · simp only [hx, if_true]
        exact h.rd_toCell (i - 1) (by omega)
      · simp only [hx, Bool.false_eq_true, if_false]
        rw [ih (i + 1) (by omega) (by omega)]
        cases (List.drop (i + 1) t.items).findIdx? (fun y => ident y == ident c) with
        | none => rfl
        | some r => simp only [Option.map_some]; congr 3; omega
    · have : i = t.items.length := by omega
      subst this
      simp [TupS.scanPrev, h.rd_len, toCell]

theorem iterPrev_sim {s : TupS α} {t : Tup α} (h : s.Cells t) (ident : α → Nat) (c : α) :
    s.iterPrev ident c = some (toCell (t.iterPrev ident c)) := by
  unfold TupS.iterPrev Tup.iterPrev
  have hscan := scanPrev_eq h ident c (s.cells.size + 1) 0 (by omega) (by rw [h.size]; omega)
  simp only [List.drop_zero, Nat.zero_add] at hscan
  cases hl : t.items with
  | nil =>
    have h0 : s.rd 0 = some .term := by have := h.rd_len; rw [hl] at this; exact this
    rw [h0]; simp only [List.head?_nil]
    rw [hscan, hl]; rfl
  | cons y ys =>
    have h0 : s.rd 0 = some (.item y) := by
      have := h.rd_lt 0 (by rw [hl]; simp); simp only [hl, List.getElem_cons_zero] at this; exact this
    rw [h0]; simp only [List.head?_cons]
    by_cases hy : (ident y == ident c) = true
    · simp only [hy, if_true]; rfl
    · simp only [hy, Bool.false_eq_true, if_false]
      rw [hscan, hl]
      cases (y :: ys).findIdx? (fun y => ident y == ident c) <;> rfl

theorem collectCells_eq (next : α → Option (TCell α)) (next' : α → Option α)
    (hn : ∀ x, next x = some (toCell (next' x))) : ∀ (fuel : Nat) (c : Option α),
    TupS.collectCells next fuel (some (toCell c)) = collect next' some fuel c := by
  intro fuel
  induction fuel with
  | zero => intro c; cases c <;> rfl
  | succ fuel ih =>
    intro c
    cases c with
    | none => rfl
    | some x =>
      show (TupS.collectCells next fuel (next x)).map (x :: ·) = (collect next' some fuel (next' x)).map (x :: ·)
      rw [hn x, ih]

theorem Cells.iterInit {s : TupS α} {t : Tup α} (h : s.Cells t) : s.iterInit = some (toCell t.iterInit) := by
  unfold TupS.iterInit Tup.iterInit
  rw [h.rd_toCell 0 (by omega), List.head?_eq_getElem?]

theorem Cells.iterLast {s : TupS α} {t : Tup α} (h : s.Cells t) : s.iterLast = some (toCell t.iterLast) := by
  unfold TupS.iterLast Tup.iterLast
  rw [h.len_sim]
  show (if t.items.length = 0 then some TCell.term else s.rd (t.items.length - 1)) = _
  by_cases h0 : t.items.length = 0
  · rw [if_pos h0, List.eq_nil_of_length_eq_zero h0]; rfl
  · rw [if_neg h0, h.rd_toCell _ (by omega), List.getLast?_eq_getElem?]

/-- iteration and `mem` through the cells give exactly what the list-level model gives (for every fuel, whether or not the
    stored pointers are distinct: the divergence of known finding F13 is reproduced cell by cell) -/
theorem iter_sim {s : TupS α} {t : Tup α} (h : s.Cells t) (ident : α → Nat) (fuel : Nat) :
    s.iterFwd ident fuel = t.iterFwd ident fuel ∧ s.iterBwd ident fuel = t.iterBwd ident fuel := by
  unfold TupS.iterFwd TupS.iterBwd Tup.iterFwd Tup.iterBwd
  rw [h.iterInit, h.iterLast]
  exact ⟨collectCells_eq _ _ (iterNext_sim h ident) fuel _, collectCells_eq _ _ (iterPrev_sim h ident) fuel _⟩

theorem memLoop_eq [BEq α] {s : TupS α} {t : Tup α} (h : s.Cells t) (ident : α → Nat) (x : α) : ∀ (fuel : Nat) (c : Option α),
    s.memLoop ident x fuel (some (toCell c)) = t.memLoop ident x fuel c := by
  intro fuel
  induction fuel with
  | zero => intro c; cases c <;> rfl
  | succ fuel ih =>
    intro c
    cases c with
    | none => rfl
    | some y =>
      show (if y == x then some true else s.memLoop ident x fuel (s.iterNext ident y)) =
        (if y == x then some true else t.memLoop ident x fuel (t.iterNext ident y))
      rw [iterNext_sim h ident y, ih]

theorem mem_sim [BEq α] {s : TupS α} {t : Tup α} (h : s.Cells t) (ident : α → Nat) (x : α) (fuel : Nat) :
    s.mem ident x fuel = t.mem ident x fuel := by
  unfold TupS.mem Tup.mem
  rw [h.iterInit]; exact memLoop_eq h ident x fuel _

/-! ### `Terminal` stored as an element; Tuples that are not on the heap -/

theorem scanLen_of {s : TupS α} {k : Nat} (hitems : ∀ j, j < k → ∃ x, s.rd j = some (.item x)) (hterm : s.rd k = some .term) :
    ∀ (fuel i : Nat), i ≤ k → k - i < fuel → s.scanLen fuel i = some k := by
  intro fuel
  induction fuel with
  | zero => intro i _ hf; omega
  | succ fuel ih =>
    intro i hi hf
    by_cases hlt : i < k
    · obtain ⟨x, hx⟩ := hitems i hlt
      simp only [TupS.scanLen, hx]; exact ih (i + 1) (by omega) (by omega)
    · have : i = k := by omega
      subst this
      simp only [TupS.scanLen, hterm]

/-- `set(t, i, Terminal)` with `i` in range succeeds — and `Tuple_Len` now stops at cell `i`: the Tuple has lost the items
    from position `i` on (the block keeps its size) -/
theorem setCell_term_truncates {s : TupS α} {t : Tup α} (h : s.Cells t) (i : Int) (k : Nat)
    (hk : Spec.idx t.items.length i = some k) :
    ∃ s', s.setCell i .term = (s', .ok ()) ∧ s'.len = some k ∧ s'.cells.size = s.cells.size := by
  obtain ⟨h1, h2, h3⟩ := idx_some _ _ _ hk
  obtain ⟨s1, hw⟩ := wr_some s k .term (by rw [h.size]; omega)
  have e : s.setCell i .term = (s1, .ok ()) := by
    unfold TupS.setCell
    rw [h.len_sim]
    show (if normIdx t.items.length i < 0 ∨ normIdx t.items.length i ≥ (t.items.length : Int) then (s, Res.raised Exc.indexOutOfBounds)
      else match s.wr (normIdx t.items.length i).toNat .term with
        | some s1 => (s1, Res.ok ())
        | none => (s, Res.ub)) = _
    rw [if_neg h1, h2, hw]
  refine ⟨s1, e, ?_, (wr_size hw).1⟩
  unfold TupS.len
  apply scanLen_of (k := k) _ _ _ 0 (by omega) (by rw [(wr_size hw).1, h.size]; omega)
  · intro j hj
    refine ⟨t.items[j]'(by omega), ?_⟩
    unfold TupS.rd
    rw [wr_get hw, if_neg (by omega)]
    exact h.rd_lt j (by omega)
  · unfold TupS.rd
    rw [wr_get hw, if_pos rfl]; rfl

/-! ### the operations that do not reallocate, for any Tuple block (on the heap or not) -/

theorem get_cells {s : TupS α} {t : Tup α} (h : s.Cells t) (i : Int) : s.get i = t.get i := by
  unfold TupS.get TupS.getCell Tup.get
  rw [h.len_sim]
  have hn : t.len = t.items.length := rfl
  simp only
  by_cases hc : normIdx t.len i < 0 ∨ normIdx t.len i ≥ (t.len : Int)
  · simp only [if_pos hc]
  · simp only [if_neg hc]
    have hkl : (normIdx t.len i).toNat < t.items.length := by omega
    rw [h.rd_lt _ hkl, List.getElem?_eq_getElem hkl]

theorem set_cells {s : TupS α} {t : Tup α} (h : s.Cells t) (i : Int) (x : α) :
    (s.set i x).1.Cells (t.set i x).1 ∧ (s.set i x).2 = (t.set i x).2 := by
  unfold TupS.set TupS.setCell Tup.set
  rw [h.len_sim]
  have hn : t.len = t.items.length := rfl
  simp only
  by_cases hc : normIdx t.len i < 0 ∨ normIdx t.len i ≥ (t.len : Int)
  · rw [if_pos hc, if_pos hc]; exact ⟨h, rfl⟩
  · rw [if_neg hc, if_neg hc]
    generalize hk : (normIdx t.len i).toNat = k
    have hkl : k < t.items.length := by omega
    obtain ⟨s1, hw⟩ := wr_some s k (.item x) (by rw [h.size]; omega)
    rw [hw]
    obtain ⟨w1, w2⟩ := wr_size hw
    have := h.cell.wr_set hw
    rw [enc_set _ _ _ hkl] at this
    refine ⟨⟨?_, this⟩, rfl⟩
    show s1.cells.size = (t.items.set k x).length + 1
    rw [w1, h.size]; simp

theorem readItems_cells {s : TupS α} {t : Tup α} (h : s.Cells t) : ∀ (n i : Nat), i + n ≤ t.items.length →
    s.readItems i n = some ((t.items.drop i).take n) := by
  intro n
  induction n with
  | zero => intro i _; simp [TupS.readItems]
  | succ n ih =>
    intro i hi
    have hil : i < t.items.length := by omega
    simp only [TupS.readItems, h.rd_lt i hil, ih (i + 1) (by omega), Option.map_some]
    rw [List.drop_eq_getElem_cons hil, List.take_succ_cons]

theorem items?_cells {s : TupS α} {t : Tup α} (h : s.Cells t) : s.items? = some t.items := by
  unfold TupS.items?
  rw [h.len_sim]
  simp only [Option.bind_some, Tup.len]
  rw [readItems_cells h _ 0 (by omega)]; simp

theorem sortBy_cells {s : TupS α} {t : Tup α} (h : s.Cells t) (f : α → α → Bool) :
    (s.sortBy f).1.Cells (t.sortBy f).1 ∧ (s.sortBy f).2 = (t.sortBy f).2 := by
  unfold TupS.sortBy Tup.sortBy
  rw [items?_cells h]
  simp only
  obtain ⟨s1, hw⟩ := wrFrom_some ((Sort.sortList f t.items).map .item) s 0 (by simp [Sort.sortList_length, h.size])
  rw [hw]
  have hp0 : s.Pre ([] : List (TCell α)) := by intro k hk; simp at hk
  obtain ⟨_, g2, g3⟩ := Pre.wrFrom _ hp0 hw
  refine ⟨⟨?_, ?_⟩, rfl⟩
  · show s1.cells.size = (Sort.sortList f t.items).length + 1; rw [g2, h.size, Sort.sortList_length]
  · intro j hj
    show s1.cells[j]? = some ((enc (Sort.sortList f t.items))[j]?)
    rw [enc_length, Sort.sortList_length] at hj
    rw [wrFrom_get _ hw j]
    simp only [List.length_map, Sort.sortList_length, Nat.zero_le, true_and, Nat.zero_add, Nat.sub_zero]
    by_cases hlt : j < t.items.length
    · rw [if_pos hlt]
      unfold enc
      rw [List.getElem?_append_left (by simp [Sort.sortList_length]; exact hlt)]
    · have : j = t.items.length := by omega
      subst this
      rw [if_neg hlt, h.cell _ (by rw [enc_length]; omega), enc_get_len]
      have := enc_get_len (Sort.sortList f t.items)
      rw [Sort.sortList_length] at this
      rw [this]

/-- a Tuple that is not on the heap (`tuple(…)`, a static Tuple) refuses every operation that would reallocate its block:
    the operation raises (its own bounds error first where the C code checks that first, else `ValueError`) and the
    block is left as it was.  (`get`, `set`, `sort`, `len`, iteration and `mem` do not look at the allocation.) -/
theorem stack_refuses [BEq α] {s : TupS α} {t : Tup α} (h : s.Cells t) (hs : s.onHeap = false) (op : Op α)
    (hop : match op with
      | .set _ _ => False | .sort _ => False | .assign ys false => ys ≠ [] | _ => True) :
    (s.step op).1 = s ∧ ∃ e, (s.step op).2 = .raised e := by
  have hlen := h.len_sim
  cases op with
  | push x => simp [TupS.step, TupS.push, TupS.pushCell, hlen, hs]
  | append x => simp [TupS.step, TupS.push, TupS.pushCell, hlen, hs]
  | pop =>
    simp only [TupS.step, TupS.pop, hlen, hs]
    by_cases h0 : t.len = 0 <;> simp [h0]
  | pushAt x i =>
    simp only [TupS.step, TupS.pushAt, TupS.pushAtCell, hlen, hs]
    by_cases hc : normIdx t.len i < 0 ∨ normIdx t.len i ≥ (t.len : Int) <;> simp [hc]
  | popAt i =>
    simp only [TupS.step, TupS.popAt, hlen, hs]
    by_cases hc : normIdx t.len i < 0 ∨ normIdx t.len i ≥ (t.len : Int) <;> simp [hc]
  | set i x => exact absurd hop id
  | rem x =>
    simp only [TupS.step, TupS.rem]
    rw [scanEq_eq h x _ 0 (by omega) (by rw [h.size]; omega)]
    simp only [List.drop_zero, Nat.add_zero, Option.map_id']
    cases hf : t.items.findIdx? (fun y => x == y) with
    | none => simp
    | some r =>
      simp only [TupS.popAt, hlen, hs]
      by_cases hc : normIdx t.len (r : Int) < 0 ∨ normIdx t.len (r : Int) ≥ (t.len : Int) <;> simp [hc]
  | concat ys => simp [TupS.step, TupS.concat, hlen, hs]
  | resize n => simp [TupS.step, TupS.resize, hs]
  | sort f => exact absurd hop id
  | assign ys b =>
    cases b with
    | true => simp [TupS.step, TupS.assign, hs]
    | false =>
      cases ys with
      | nil => exact absurd rfl hop
      | cons y ys => simp [TupS.step, TupS.assign, TupS.pushAll, TupS.push, TupS.pushCell, hlen, hs]

end TupS
end Cello.Seq
