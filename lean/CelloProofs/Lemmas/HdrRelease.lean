/-
  Lemmas for C19: the collector's release paths (`finalise`, `gcRem`, `sweepLoop`, `St.collect` of Cello/Hdr.lean).

  `dealloc(destruct(x))` nests through the destructor of a Box.  The cascade is followed with
    * `Listed s a`   — the collector lists `a`: on the pending list of the sweep under way, or in the registry;
    * `PendOK`       — what is on the pending list is a live heap object and is not in the registry;
    * `Casc s s'`    — what a cascade may do to a state: the lists only shrink, the release log only grows, headers stay,
                       objects that are not on the heap are not touched at all;
    * `FinSpec`, `RemSpec`, `LoopSpec` — for `finalise`, `gcRem`, `sweepLoop`: no `ub`, the invariants are kept, the object
      finalised is released, objects that are alive and not listed stay alive (this is why the final release of an object
      whose destructor started a cascade is its first: it was un-listed before its destructor ran), and whatever was listed
      and no longer is has been released.
  Fuel: every nested call is preceded by the removal of one listed object, so `St.listed s < fuel` suffices.
-/
import CelloProofs.Lemmas.HdrBody

namespace Cello.Hdr

variable {cfg : Config}

/-! ## small facts about lists -/

theorem mem_strike {x a : Nat} {p : List (Option Nat)} : some a ∈ strike x p ↔ some a ∈ p ∧ a ≠ x := by
  unfold strike
  simp only [List.mem_map]
  constructor
  · rintro ⟨o, ho, h⟩
    split at h
    · cases h
    · subst h; rename_i hne; exact ⟨ho, fun e => hne (by rw [e])⟩
  · rintro ⟨h, hne⟩
    exact ⟨some a, h, by simp [hne]⟩

theorem strike_cons (x : Nat) (o : Option Nat) (r : List (Option Nat)) :
    strike x (o :: r) = (if o = some x then none else o) :: strike x r := rfl

theorem strike_count_le (x : Nat) (p : List (Option Nat)) :
    ((strike x p).filter Option.isSome).length ≤ (p.filter Option.isSome).length := by
  induction p with
  | nil => simp [strike]
  | cons o r ih =>
    rw [strike_cons]
    cases o with
    | none => simpa [List.filter_cons] using ih
    | some y =>
      by_cases hy : y = x
      · subst hy; simp; omega
      · simp [hy]; omega

theorem strike_count_lt {x : Nat} {p : List (Option Nat)} (h : some x ∈ p) :
    ((strike x p).filter Option.isSome).length < (p.filter Option.isSome).length := by
  induction p with
  | nil => cases h
  | cons o r ih =>
    have hle := strike_count_le x r
    rw [strike_cons]
    cases o with
    | none =>
      have hr : some x ∈ r := by simpa using h
      simpa [List.filter_cons] using ih hr
    | some y =>
      by_cases hy : y = x
      · subst hy; simp; omega
      · have hr : some x ∈ r := by
          rcases List.mem_cons.mp h with h | h
          · exact absurd (Option.some.inj h).symm hy
          · exact h
        have := ih hr
        simp [hy]; omega

theorem mem_arrange (order : List Nat) : ∀ (cand : List Nat) (a : Nat), a ∈ arrange order cand ↔ a ∈ cand := by
  induction order with
  | nil => intro cand a; simp [arrange]
  | cons o os ih =>
    intro cand a
    simp only [arrange]
    split
    · rename_i hc
      have hc' : o ∈ cand := by simpa using hc
      simp only [List.mem_cons, ih]
      constructor
      · rintro (h | h)
        · subst h; exact hc'
        · exact List.mem_of_mem_erase h
      · intro h
        by_cases e : a = o
        · exact Or.inl e
        · exact Or.inr ((List.mem_erase_of_ne e).mpr h)
    · exact ih cand a

/-! ## listed objects -/

/-- the collector lists `a`: on the pending list of the sweep under way, or in the registry -/
def Listed (s : St) (a : Nat) : Prop := some a ∈ s.pending ∨ ∃ p ∈ s.reg, p.1 = a

/-- what is on the pending list is a live heap object that has left the registry -/
structure PendOK (cfg : Config) (s : St) : Prop where
  pend : ∀ a, some a ∈ s.pending → ∃ o, s.get a = some o ∧ o.hdr.alloc = cfg.cHeap ∧ o.live = true
  disj : ∀ a, some a ∈ s.pending → ∀ p ∈ s.reg, p.1 ≠ a

/-- no sweep is under way -/
def NoPend (s : St) : Prop := ∀ a, some a ∉ s.pending

theorem noPend_of_nil {s : St} (h : s.pending = []) : NoPend s := by
  intro a ha; rw [h] at ha; cases ha

theorem pendOK_of_noPend {s : St} (h : NoPend s) : PendOK cfg s :=
  ⟨fun a ha => absurd ha (h a), fun a ha => absurd ha (h a)⟩

theorem listed_live {s : St} (hw : WF cfg s) (hp : PendOK cfg s) {a : Nat} (h : Listed s a) :
    ∃ o, s.get a = some o ∧ o.hdr.alloc = cfg.cHeap ∧ o.live = true := by
  rcases h with h | ⟨p, hp', rfl⟩
  · exact hp.pend a h
  · exact hw.reg p hp'

theorem isLive_of_get {s : St} {k : Nat} {o : Obj} (h : s.get k = some o) : s.isLive k = o.live := by
  simp [St.isLive, h]

/-- what a cascade of nested releases may do to a state -/
structure Casc (cfg : Config) (s s' : St) : Prop where
  listed : s'.listed ≤ s.listed
  pendSub : ∀ a, some a ∈ s'.pending → some a ∈ s.pending
  regSub : ∀ p ∈ s'.reg, p ∈ s.reg
  freedExt : ∃ E, s'.freed = s.freed ++ E
  hdrs : ∀ k o, s.get k = some o → ∃ o', s'.get k = some o' ∧ o'.hdr = o.hdr ∧ o'.cap = o.cap
  nonheap : ∀ k o, s.get k = some o → o.hdr.alloc ≠ cfg.cHeap → s'.get k = some o

theorem Casc.refl (s : St) : Casc cfg s s :=
  ⟨Nat.le_refl _, fun _ h => h, fun _ h => h, ⟨[], by simp⟩, fun _ o h => ⟨o, h, rfl, rfl⟩, fun _ _ h _ => h⟩

theorem Casc.trans {a b c : St} (h1 : Casc cfg a b) (h2 : Casc cfg b c) : Casc cfg a c := by
  refine ⟨Nat.le_trans h2.listed h1.listed, fun x hx => h1.pendSub x (h2.pendSub x hx),
    fun p hp => h1.regSub p (h2.regSub p hp), ?_, ?_, ?_⟩
  · obtain ⟨E1, e1⟩ := h1.freedExt
    obtain ⟨E2, e2⟩ := h2.freedExt
    exact ⟨E1 ++ E2, by rw [e2, e1, List.append_assoc]⟩
  · intro k o h
    obtain ⟨o1, g1, k1⟩ := h1.hdrs k o h
    obtain ⟨o2, g2, k2⟩ := h2.hdrs k o1 g1
    exact ⟨o2, g2, k2.1.trans k1.1, k2.2.trans k1.2⟩
  · intro k o h hn
    exact h2.nonheap k o (h1.nonheap k o h hn) hn

theorem Casc.listedSub {s s' : St} (h : Casc cfg s s') {a : Nat} (ha : Listed s' a) : Listed s a := by
  rcases ha with ha | ⟨p, hp, e⟩
  · exact Or.inl (h.pendSub a ha)
  · exact Or.inr ⟨p, h.regSub p hp, e⟩

theorem Casc.freedMono {s s' : St} (h : Casc cfg s s') {a : Nat} (ha : a ∈ s.freed) : a ∈ s'.freed := by
  obtain ⟨E, e⟩ := h.freedExt
  rw [e]; exact List.mem_append_left _ ha

/-! ## the elementary steps -/

theorem wf_setPending {s : St} (h : WF cfg s) (p : List (Option Nat)) : WF cfg { s with pending := p } :=
  ⟨h.bodies, h.reg, h.freed, h.once, h.keys⟩

/-- clearing the pending slot of `x` -/
theorem strike_step {s : St} (hp : PendOK cfg s) (x : Nat) :
    PendOK cfg { s with pending := strike x s.pending } ∧ Casc cfg s { s with pending := strike x s.pending } ∧
    (some x ∈ s.pending → ¬ Listed { s with pending := strike x s.pending } x) ∧
    (some x ∈ s.pending → St.listed { s with pending := strike x s.pending } < s.listed) ∧
    (∀ a, a ≠ x → Listed s a → Listed { s with pending := strike x s.pending } a) := by
  refine ⟨⟨?_, ?_⟩, ⟨?_, ?_, fun _ h => h, ⟨[], by simp⟩, fun _ o h => ⟨o, h, rfl, rfl⟩, fun _ _ h _ => h⟩, ?_, ?_, ?_⟩
  · intro a ha; exact hp.pend a (mem_strike.mp ha).1
  · intro a ha; exact hp.disj a (mem_strike.mp ha).1
  · have := strike_count_le x s.pending
    simp only [St.listed]; omega
  · intro a ha; exact (mem_strike.mp ha).1
  · intro hx
    rintro (h | ⟨p, hpr, e⟩)
    · exact (mem_strike.mp h).2 rfl
    · exact hp.disj x hx p hpr e
  · intro h
    have := strike_count_lt h
    simp only [St.listed]; omega
  · intro a hne h
    rcases h with h | h
    · exact Or.inl (mem_strike.mpr ⟨h, hne⟩)
    · exact Or.inr h

theorem wf_unreg' {s : St} (h : WF cfg s) (id : Nat) : WF cfg (s.unreg id) :=
  ⟨h.bodies, fun p hp => h.reg p (List.mem_filter.mp hp).1, h.freed, h.once, h.keys⟩

/-- erasing `x` from the registry -/
theorem unreg_step {s : St} (hp : PendOK cfg s) (x : Nat) :
    PendOK cfg (s.unreg x) ∧ Casc cfg s (s.unreg x) ∧
    (some x ∉ s.pending → ¬ Listed (s.unreg x) x) ∧
    ((∃ p ∈ s.reg, p.1 = x) → (s.unreg x).listed < s.listed) ∧
    (∀ a, a ≠ x → Listed s a → Listed (s.unreg x) a) := by
  refine ⟨⟨hp.pend, ?_⟩, ⟨?_, fun _ h => h, ?_, ⟨[], by simp [St.unreg]⟩, fun _ o h => ⟨o, h, rfl, rfl⟩, fun _ _ h _ => h⟩, ?_, ?_, ?_⟩
  · intro a ha p hpr; exact hp.disj a ha p (List.mem_filter.mp hpr).1
  · have := List.length_filter_le (fun p : Nat × Bool => p.1 != x) s.reg
    simp only [St.listed, St.unreg]; omega
  · intro p hpr; exact (List.mem_filter.mp hpr).1
  · intro hx
    rintro (h | ⟨p, hpr, e⟩)
    · exact hx h
    · have := (List.mem_filter.mp hpr).2
      simp [e] at this
  · rintro ⟨p, hpr, e⟩
    have : (s.reg.filter (fun p : Nat × Bool => p.1 != x)).length < s.reg.length :=
      List.length_filter_lt_length_iff_exists.mpr ⟨p, hpr, by simp [e]⟩
    simp only [St.listed, St.unreg]; omega
  · intro a hne h
    rcases h with h | ⟨p, hpr, e⟩
    · exact Or.inl h
    · exact Or.inr ⟨p, List.mem_filter.mpr ⟨hpr, by simp [e, hne]⟩, e⟩

theorem dealloc_heap (F : Facts cfg) (s : St) (id : Nat) {o : Obj} (h : o.hdr.alloc = cfg.cHeap) :
    dealloc cfg s id o = (s.release id, .ok) := by
  simp [dealloc, h, F.refHeap]

theorem dealloc_heap' (F : Facts cfg) (s : St) (id : Nat) {h : Header} (hh : h.alloc = cfg.cHeap) (c : Nat) (b : Body) (l : Bool) :
    dealloc cfg s id { hdr := h, cap := c, body := b, live := l } = (s.release id, .ok) :=
  dealloc_heap F s id hh

/-- the destructors of heap objects raise nothing -/
theorem destructBody_heap (F : Facts cfg) {hd : Header} (h : hd.alloc = cfg.cHeap) (b : Body) :
    (destructBody cfg hd b).2 = .ok := by
  obtain ⟨_, _, _, hsh, _, _⟩ := Guard.protects_iff.mp F.sDel
  obtain ⟨_, _, _, hth, _, _⟩ := Guard.protects_iff.mp F.tDel
  unfold destructBody
  rw [h]
  repeat' split
  all_goals simp_all

/-- the end of `dealloc(destruct(id))`: the destructed body is stored, the block released -/
theorem release_step {s : St} (hw : WF cfg s) (hp : PendOK cfg s) {id : Nat} {o : Obj} (hget : s.get id = some o)
    (hlive : o.live = true) (hheap : o.hdr.alloc = cfg.cHeap) (hnl : ¬ Listed s id) (b : Body) (hb : BodyOK cfg b) :
    WF cfg ((s.updBody id (fun _ => b)).release id) ∧ PendOK cfg ((s.updBody id (fun _ => b)).release id) ∧
    Casc cfg s ((s.updBody id (fun _ => b)).release id) ∧ id ∈ ((s.updBody id (fun _ => b)).release id).freed ∧
    (∀ k, k ≠ id → ((s.updBody id (fun _ => b)).release id).isLive k = s.isLive k) ∧
    (∀ a, Listed s a → Listed ((s.updBody id (fun _ => b)).release id) a) ∧
    (∀ e ∈ ((s.updBody id (fun _ => b)).release id).freed, e ∈ s.freed ∨ e = id) := by
  have hnreg : ∀ p ∈ s.reg, p.1 ≠ id := fun p hpr e => hnl (Or.inr ⟨p, hpr, e⟩)
  have h1 : WF cfg (s.updBody id (fun _ => b)) := wf_updBody hw id _ (fun _ _ _ => hb)
  have hget1 : (s.updBody id (fun _ => b)).get id = some { o with body := b } := by
    rw [get_updBody, hget]; simp
  have hgetk : ∀ k, ((s.updBody id (fun _ => b)).release id).get k =
      (s.get k).map (fun o' => if k = id then { o' with body := b, live := false } else o') := by
    intro k
    rw [get_release, get_updBody]
    cases s.get k with
    | none => rfl
    | some o' => by_cases hk : k = id <;> simp [hk]
  refine ⟨wf_release h1 id _ hnreg hget1 hheap hlive, ⟨?_, hp.disj⟩, ⟨Nat.le_refl _, fun _ h => h, fun _ h => h, ⟨[id], rfl⟩, ?_, ?_⟩, ?_, ?_, ?_, ?_⟩
  · intro a ha
    obtain ⟨oa, hga, hha, hla⟩ := hp.pend a ha
    have hne : a ≠ id := fun e => hnl (Or.inl (e ▸ ha))
    exact ⟨oa, by rw [hgetk, hga]; simp [hne], hha, hla⟩
  · intro k o' hk
    rw [hgetk, hk]
    by_cases e : k = id
    · exact ⟨{ o' with body := b, live := false }, by simp [e], rfl, rfl⟩
    · exact ⟨o', by simp [e], rfl, rfl⟩
  · intro k o' hk hn
    have e : k ≠ id := by
      intro e; subst e; rw [hget] at hk; cases hk; exact hn hheap
    rw [hgetk, hk]; simp [e]
  · simp [St.release]
  · intro k hk
    simp only [St.isLive, hgetk]
    cases s.get k <;> simp [hk]
  · intro a ha; exact ha
  · intro e he
    simp only [St.release, St.updBody, List.mem_append, List.mem_singleton] at he
    exact he

/-! ## the specifications -/

/-- what `dealloc(destruct(id))` does when it starts from a live heap object that the collector no longer lists -/
structure FinSpec (cfg : Config) (s : St) (id : Nat) (r : St × Outcome) : Prop where
  ok : r.2 = .ok
  wf : WF cfg r.1
  pend : PendOK cfg r.1
  casc : Casc cfg s r.1
  released : id ∈ r.1.freed
  alive : ∀ k, k ≠ id → ¬ Listed s k → s.isLive k = true → r.1.isLive k = true
  gone : ∀ a, Listed s a → Listed r.1 a ∨ a ∈ r.1.freed
  fresh : ∀ e ∈ r.1.freed, e ∈ s.freed ∨ Listed s e ∨ e = id

/-- what `GC_Rem(x)` does: nothing if `x` is not listed, otherwise `x` is un-listed and finalised -/
structure RemSpec (cfg : Config) (s : St) (x : Nat) (r : St × Outcome) : Prop where
  ok : r.2 = .ok
  wf : WF cfg r.1
  pend : PendOK cfg r.1
  casc : Casc cfg s r.1
  released : Listed s x → x ∈ r.1.freed
  alive : ∀ k, ¬ Listed s k → s.isLive k = true → r.1.isLive k = true
  gone : ∀ a, Listed s a → Listed r.1 a ∨ a ∈ r.1.freed
  fresh : ∀ e ∈ r.1.freed, e ∈ s.freed ∨ Listed s e
  same : ¬ Listed s x → r.1 = s

/-- the precondition of `finalise` -/
def FinPre (cfg : Config) (s : St) (id : Nat) : Prop :=
  ∃ o, s.get id = some o ∧ o.live = true ∧ o.hdr.alloc = cfg.cHeap ∧ ¬ Listed s id

theorem gcRem_spec (F : Facts cfg) {fin : St → Nat → St × Outcome} {fuel : Nat}
    (hfin : ∀ s id, WF cfg s → PendOK cfg s → FinPre cfg s id → s.listed < fuel → FinSpec cfg s id (fin s id))
    (s : St) (x : Nat) (hw : WF cfg s) (hp : PendOK cfg s) (hf : s.listed ≤ fuel) :
    RemSpec cfg s x (gcRem fin cfg s x) := by
  unfold gcRem
  by_cases hpc : s.pending.contains (some x) = true
  · -- found on the pending list: struck off, finalised
    have hx : some x ∈ s.pending := by simpa using hpc
    simp only [hpc, if_true, F.remPendFinalises, F.remPendClear]
    obtain ⟨hp1, hc1, hnl1, hlt1, hkeep1⟩ := strike_step hp x
    obtain ⟨o, hgo, hho, hlo⟩ := hp.pend x hx
    have hw1 : WF cfg { s with pending := strike x s.pending } := wf_setPending hw _
    have hpre : FinPre cfg { s with pending := strike x s.pending } x := ⟨o, hgo, hlo, hho, hnl1 hx⟩
    have hs := hfin _ x hw1 hp1 hpre (Nat.lt_of_lt_of_le (hlt1 hx) hf)
    refine ⟨hs.ok, hs.wf, hs.pend, hc1.trans hs.casc, fun _ => hs.released, ?_, ?_, ?_, fun h => absurd (Or.inl hx) h⟩
    · intro k hk hl
      have hkx : k ≠ x := fun e => hk (e ▸ Or.inl hx)
      exact hs.alive k hkx (fun h => hk (hc1.listedSub h)) hl
    · intro a ha
      by_cases e : a = x
      · subst e; exact Or.inr hs.released
      · exact hs.gone a (hkeep1 a e ha)
    · intro e he
      rcases hs.fresh e he with h | h | h
      · exact Or.inl h
      · exact Or.inr (hc1.listedSub h)
      · exact Or.inr (h ▸ Or.inl hx)
  · simp only [hpc, Bool.false_eq_true, if_false]
    have hx : some x ∉ s.pending := by simpa using hpc
    by_cases hr : s.isReg x = true
    · -- found in the registry: erased, finalised
      simp only [hr, if_true, F.remRegErase]
      obtain ⟨p, hpr, hpx⟩ := isReg_true hr
      obtain ⟨hp1, hc1, hnl1, hlt1, hkeep1⟩ := unreg_step hp x
      obtain ⟨o, hgo, hho, hlo⟩ := hw.reg p hpr
      rw [hpx] at hgo
      have hpre : FinPre cfg (s.unreg x) x := ⟨o, hgo, hlo, hho, hnl1 hx⟩
      have hs := hfin _ x (wf_unreg' hw x) hp1 hpre (Nat.lt_of_lt_of_le (hlt1 ⟨p, hpr, hpx⟩) hf)
      refine ⟨hs.ok, hs.wf, hs.pend, hc1.trans hs.casc, fun _ => hs.released, ?_, ?_, ?_, fun h => absurd (Or.inr ⟨p, hpr, hpx⟩) h⟩
      · intro k hk hl
        have hkx : k ≠ x := fun e => hk (e ▸ Or.inr ⟨p, hpr, hpx⟩)
        exact hs.alive k hkx (fun h => hk (hc1.listedSub h)) hl
      · intro a ha
        by_cases e : a = x
        · subst e; exact Or.inr hs.released
        · exact hs.gone a (hkeep1 a e ha)
      · intro e he
        rcases hs.fresh e he with h | h | h
        · exact Or.inl h
        · exact Or.inr (hc1.listedSub h)
        · exact Or.inr (h ▸ Or.inr ⟨p, hpr, hpx⟩)
    · -- not listed: nothing happens
      simp only [hr, Bool.false_eq_true, if_false]
      have hnl : ¬ Listed s x := by
        rintro (h | ⟨p, hpr, e⟩)
        · exact hx h
        · apply hr; simp only [St.isReg, List.any_eq_true]; exact ⟨p, hpr, by simp [e]⟩
      exact ⟨rfl, hw, hp, Casc.refl s, fun h => absurd h hnl, fun _ _ h => h, fun a ha => Or.inl ha, fun e he => Or.inl he, fun _ => rfl⟩

theorem finalise_succ (fuel : Nat) (cfg : Config) (s : St) (id : Nat) :
    finalise (fuel + 1) cfg s id =
      match s.get id with
      | none => (s, .ub)
      | some o =>
        if !o.live then (s, .ub) else
        match o.body with
        | .box (some x) =>
          if cfg.boxDelDeletes then
            (match gcRem (finalise fuel cfg) cfg s x with
             | (s1, .ok) =>
               if s1.isLive id then dealloc cfg (s1.updBody id (fun _ => .box none)) id { o with body := .box none }
               else (s1, .ub)
             | r => r)
          else dealloc cfg (s.updBody id (fun _ => .box none)) id { o with body := .box none }
        | _ =>
          let (b, out) := destructBody cfg o.hdr o.body
          match out with
          | .ok => dealloc cfg (s.updBody id (fun _ => b)) id { o with body := b }
          | other => (s, other) := by
  rfl

/-- **`dealloc(destruct(id))` of a live heap object that is not listed**: whatever its destructor deletes, nothing is
    released twice, `id` itself is released (once: it was not released by the nested deletions), no `ub` -/
theorem finalise_spec (F : Facts cfg) : ∀ (fuel : Nat) (s : St) (id : Nat), WF cfg s → PendOK cfg s → FinPre cfg s id →
    s.listed < fuel → FinSpec cfg s id (finalise fuel cfg s id) := by
  intro fuel
  induction fuel with
  | zero => intro s id _ _ _ h; omega
  | succ fuel ih =>
    intro s id hw hp hpre hf
    obtain ⟨o, hget, hlive, hheap, hnl⟩ := hpre
    have hbody : BodyOK cfg o.body := hw.bodies (id, o) (assoc_mem hget)
    rw [finalise_succ]
    simp only [hget, hlive, Bool.not_true, Bool.false_eq_true, if_false]
    split
    · -- a Box that points to something: Box_Del deletes it
      rename_i x hbx
      simp only [F.boxDelDeletes, if_true]
      have hs := gcRem_spec F (fin := finalise fuel cfg) (fuel := fuel) ih s x hw hp (Nat.le_of_lt_succ hf)
      cases hr : gcRem (finalise fuel cfg) cfg s x with
      | mk s1 out =>
        rw [hr] at hs
        have hok : out = .ok := hs.ok
        subst hok
        simp only
        obtain ⟨o1, hg1, hh1, _⟩ := hs.casc.hdrs id o hget
        have hl1 : s1.isLive id = true := hs.alive id hnl (by rw [isLive_of_get hget]; exact hlive)
        have ho1live : o1.live = true := by rw [isLive_of_get hg1] at hl1; exact hl1
        have hnl1 : ¬ Listed s1 id := fun h => hnl (hs.casc.listedSub h)
        simp only [hl1, if_true]
        rw [dealloc_heap' F _ id hheap]
        obtain ⟨w2, p2, c2, r2, a2, g2, f2⟩ :=
          release_step hs.wf hs.pend hg1 ho1live (by rw [hh1]; exact hheap) hnl1 (.box none) trivial
        refine ⟨rfl, w2, p2, hs.casc.trans c2, r2, ?_, ?_, ?_⟩
        · intro k hk hnk hlk
          show ((s1.updBody id (fun _ => Body.box none)).release id).isLive k = true
          rw [a2 k hk]; exact hs.alive k hnk hlk
        · intro a ha
          rcases hs.gone a ha with h | h
          · exact Or.inl (g2 a h)
          · exact Or.inr (c2.freedMono h)
        · intro e he
          rcases f2 e he with h | h
          · rcases hs.fresh e h with h | h
            · exact Or.inl h
            · exact Or.inr (Or.inl h)
          · exact Or.inr (Or.inr h)
    · -- any other body: its own destructor, then dealloc
      have hd := destructBody_heap F hheap o.body
      cases hdb : destructBody cfg o.hdr o.body with
      | mk b out =>
        rw [hdb] at hd
        simp only at hd
        subst hd
        simp only
        have hb : BodyOK cfg b := by
          have := destructBody_ok (cfg := cfg) (h := o.hdr) hbody
          rw [hdb] at this; exact this
        rw [dealloc_heap' F _ id hheap]
        obtain ⟨w2, p2, c2, r2, a2, g2, f2⟩ := release_step hw hp hget hlive hheap hnl b hb
        refine ⟨rfl, w2, p2, c2, r2, ?_, ?_, ?_⟩
        · intro k hk _ hlk
          show ((s.updBody id (fun _ => b)).release id).isLive k = true
          rw [a2 k hk]; exact hlk
        · intro a ha; exact Or.inl (g2 a ha)
        · intro e he
          rcases f2 e he with h | h
          · exact Or.inl h
          · exact Or.inr (Or.inr h)

/-- `GC_Rem(x)` with enough fuel -/
theorem gcRem_finalise_spec (F : Facts cfg) (fuel : Nat) (s : St) (x : Nat) (hw : WF cfg s) (hp : PendOK cfg s)
    (hf : s.listed ≤ fuel) : RemSpec cfg s x (gcRem (finalise fuel cfg) cfg s x) :=
  gcRem_spec F (finalise_spec F fuel) s x hw hp hf

/-- what GC_Sweep's release loop does over the pending objects `todo` -/
structure LoopSpec (cfg : Config) (s : St) (todo : List Nat) (r : St × Outcome) : Prop where
  ok : r.2 = .ok
  wf : WF cfg r.1
  pend : PendOK cfg r.1
  casc : Casc cfg s r.1
  alive : ∀ k, ¬ Listed s k → s.isLive k = true → r.1.isLive k = true
  gone : ∀ a, Listed s a → Listed r.1 a ∨ a ∈ r.1.freed
  fresh : ∀ e ∈ r.1.freed, e ∈ s.freed ∨ Listed s e
  done : ∀ a ∈ todo, (some a ∈ s.pending ∨ a ∈ s.freed) → a ∈ r.1.freed

theorem sweepLoop_spec (F : Facts cfg) (fuel : Nat) : ∀ (todo : List Nat) (s : St), WF cfg s → PendOK cfg s → s.listed < fuel →
    LoopSpec cfg s todo (sweepLoop fuel cfg todo s) := by
  intro todo
  induction todo with
  | nil =>
    intro s hw hp _
    exact ⟨rfl, hw, hp, Casc.refl s, fun _ _ h => h, fun a ha => Or.inl ha, fun e he => Or.inl he, fun a ha => by cases ha⟩
  | cons a rest ih =>
    intro s hw hp hf
    rw [sweepLoop]
    by_cases hpc : s.pending.contains (some a) = true
    · -- the slot still holds `a`: cleared, `a` finalised
      have hx : some a ∈ s.pending := by simpa using hpc
      simp only [hpc, if_true, F.swFinalises, F.swClear]
      obtain ⟨hp1, hc1, hnl1, hlt1, hkeep1⟩ := strike_step hp a
      obtain ⟨o, hgo, hho, hlo⟩ := hp.pend a hx
      have hw1 : WF cfg { s with pending := strike a s.pending } := wf_setPending hw _
      have hpre : FinPre cfg { s with pending := strike a s.pending } a := ⟨o, hgo, hlo, hho, hnl1 hx⟩
      have hs := finalise_spec F fuel _ a hw1 hp1 hpre (Nat.lt_trans (hlt1 hx) hf)
      cases hr : finalise fuel cfg { s with pending := strike a s.pending } a with
      | mk s' out =>
        rw [hr] at hs
        have hok : out = .ok := hs.ok
        subst hok
        simp only
        have hc : Casc cfg s s' := hc1.trans hs.casc
        have hn := ih s' hs.wf hs.pend (Nat.lt_of_le_of_lt hc.listed hf)
        refine ⟨hn.ok, hn.wf, hn.pend, hc.trans hn.casc, ?_, ?_, ?_, ?_⟩
        · intro k hk hl
          have hka : k ≠ a := fun e => hk (e ▸ Or.inl hx)
          exact hn.alive k (fun h => hk (hc.listedSub h)) (hs.alive k hka (fun h => hk (hc1.listedSub h)) hl)
        · intro b hb
          by_cases e : b = a
          · subst e; exact Or.inr (hn.casc.freedMono hs.released)
          · rcases hs.gone b (hkeep1 b e hb) with h | h
            · exact hn.gone b h
            · exact Or.inr (hn.casc.freedMono h)
        · intro e he
          rcases hn.fresh e he with h | h
          · rcases hs.fresh e h with h | h | h
            · exact Or.inl h
            · exact Or.inr (hc1.listedSub h)
            · exact Or.inr (h ▸ Or.inl hx)
          · exact Or.inr (hc.listedSub h)
        · intro b hb hor
          by_cases e : b = a
          · subst e; exact hn.casc.freedMono hs.released
          · have hbr : b ∈ rest := by
              rcases List.mem_cons.mp hb with h | h
              · exact absurd h e
              · exact h
            apply hn.done b hbr
            rcases hor with h | h
            · -- was pending: still pending, or released by a nested deletion
              rcases hs.gone b (hkeep1 b e (Or.inl h)) with h' | h'
              · rcases h' with h' | ⟨p, hpr, hpe⟩
                · exact Or.inl h'
                · exact absurd hpe (hp.disj b h p (hc.regSub p hpr))
              · exact Or.inr h'
            · exact Or.inr (hc.freedMono h)
    · -- the slot was cleared by a nested deletion
      have hx : some a ∉ s.pending := by simpa using hpc
      simp only [hpc, Bool.false_eq_true, if_false]
      have hn := ih s hw hp hf
      refine ⟨hn.ok, hn.wf, hn.pend, hn.casc, hn.alive, hn.gone, hn.fresh, ?_⟩
      intro b hb hor
      rcases List.mem_cons.mp hb with h | h
      · subst h
        rcases hor with h | h
        · exact absurd h hx
        · exact hn.casc.freedMono h
      · exact hn.done b h hor

/-- **GC_Sweep over the victims `vs`** (registered objects, in any order): every victim is released, nothing twice, nothing
    that the collector did not list; the pending list is empty afterwards -/
theorem collect_spec (F : Facts cfg) (s : St) (vs : List Nat) (hw : WF cfg s)
    (hvs : ∀ v ∈ vs, ∃ p ∈ s.reg, p.1 = v) :
    (s.collect cfg vs).2 = .ok ∧ WF cfg (s.collect cfg vs).1 ∧ NoPend (s.collect cfg vs).1 ∧
    (∀ v ∈ vs, v ∈ (s.collect cfg vs).1.freed) ∧
    (∃ E, (s.collect cfg vs).1.freed = s.freed ++ E) ∧
    (∀ e ∈ (s.collect cfg vs).1.freed, e ∈ s.freed ∨ ∃ p ∈ s.reg, p.1 = e) ∧
    (∀ p ∈ (s.collect cfg vs).1.reg, p ∈ s.reg) ∧
    (∀ k o, s.get k = some o → ∃ o', (s.collect cfg vs).1.get k = some o' ∧ o'.hdr = o.hdr ∧ o'.cap = o.cap) ∧
    (∀ k o, s.get k = some o → o.hdr.alloc ≠ cfg.cHeap → (s.collect cfg vs).1.get k = some o) ∧
    (∀ k, (∀ p ∈ s.reg, p.1 ≠ k) → s.isLive k = true → (s.collect cfg vs).1.isLive k = true) := by
  -- the state after phase 1
  let s1 : St := { s with reg := s.reg.filter (fun p => !vs.contains p.1), pending := vs.map some }
  have hmem1 : ∀ a, some a ∈ s1.pending ↔ a ∈ vs := by
    intro a; simp [s1]
  have hw1 : WF cfg s1 :=
    ⟨hw.bodies, fun p hp => hw.reg p (List.mem_filter.mp hp).1, hw.freed, hw.once, hw.keys⟩
  have hp1 : PendOK cfg s1 := by
    constructor
    · intro a ha
      obtain ⟨p, hpr, e⟩ := hvs a ((hmem1 a).mp ha)
      obtain ⟨o, hg, hh, hl⟩ := hw.reg p hpr
      exact ⟨o, e ▸ hg, hh, hl⟩
    · intro a ha p hpr e
      have := (List.mem_filter.mp hpr).2
      have hav : a ∈ vs := (hmem1 a).mp ha
      simp [e, hav] at this
  have hlisted1 : ∀ a, Listed s1 a → ∃ p ∈ s.reg, p.1 = a := by
    rintro a (h | ⟨p, hpr, e⟩)
    · exact hvs a ((hmem1 a).mp h)
    · exact ⟨p, (List.mem_filter.mp hpr).1, e⟩
  have hs := sweepLoop_spec F (fuelFor s1) vs s1 hw1 hp1 (by simp only [fuelFor]; omega)
  have hcol : s.collect cfg vs =
      match sweepLoop (fuelFor s1) cfg vs s1 with
      | (s2, .ok) => ({ s2 with pending := [] }, .ok)
      | r => r := rfl
  cases hr : sweepLoop (fuelFor s1) cfg vs s1 with
  | mk s2 out =>
    rw [hr] at hs hcol
    have hok : out = .ok := hs.ok
    subst hok
    simp only at hcol
    rw [hcol]
    refine ⟨rfl, wf_setPending hs.wf [], noPend_of_nil rfl, ?_, hs.casc.freedExt, ?_, ?_, hs.casc.hdrs, hs.casc.nonheap, ?_⟩
    · intro v hv; exact hs.done v hv (Or.inl ((hmem1 v).mpr hv))
    · intro e he
      rcases hs.fresh e he with h | h
      · exact Or.inl h
      · exact Or.inr (hlisted1 e h)
    · intro p hp; exact (List.mem_filter.mp (hs.casc.regSub p hp)).1
    · intro k hk hl
      have : s2.isLive k = true := hs.alive k (fun h => by
        obtain ⟨p, hpr, e⟩ := hlisted1 k h
        exact hk p hpr e) hl
      exact this

/-! ## at the top level (no sweep under way), for objects of any class -/

theorem wf_dealloc' {s : St} (h : WF cfg s) {id : Nat} {o o' : Obj} (hget : s.get id = some o) (hh : o'.hdr = o.hdr)
    (hlive : o.live = true) (hnreg : ∀ p ∈ s.reg, p.1 ≠ id) : WF cfg (dealloc cfg s id o').1 := by
  unfold dealloc
  split
  · exact h
  · split
    · rename_i hheap; exact wf_release h id o hnreg hget (by rw [← hh]; exact hheap) hlive
    · exact h

theorem pending_dealloc (s : St) (id : Nat) (o : Obj) : (dealloc cfg s id o).1.pending = s.pending := by
  unfold dealloc
  split
  · rfl
  · split <;> rfl

/-- `dealloc(destruct(id))` of a live object that the collector does not list, whatever its class (`del_raw`): the
    invariant is kept and no sweep is left under way -/
theorem finalise_top (F : Facts cfg) {s : St} {id : Nat} {o : Obj} (hw : WF cfg s) (hnp : NoPend s)
    (hget : s.get id = some o) (hlive : o.live = true) (hnreg : ∀ p ∈ s.reg, p.1 ≠ id) (fuel : Nat) (hf : s.listed < fuel) :
    WF cfg (finalise fuel cfg s id).1 ∧ NoPend (finalise fuel cfg s id).1 := by
  have hp : PendOK cfg s := pendOK_of_noPend hnp
  have hnl : ¬ Listed s id := by
    rintro (h | ⟨p, hpr, e⟩)
    · exact hnp id h
    · exact hnreg p hpr e
  by_cases hheap : o.hdr.alloc = cfg.cHeap
  · have hs := finalise_spec F fuel s id hw hp ⟨o, hget, hlive, hheap, hnl⟩ hf
    exact ⟨hs.wf, fun a ha => hnp a (hs.casc.pendSub a ha)⟩
  · cases fuel with
    | zero => omega
    | succ fuel =>
      have hbody : BodyOK cfg o.body := hw.bodies (id, o) (assoc_mem hget)
      rw [finalise_succ]
      simp only [hget, hlive, Bool.not_true, Bool.false_eq_true, if_false]
      split
      · rename_i x hbx
        simp only [F.boxDelDeletes, if_true]
        have hs := gcRem_finalise_spec F fuel s x hw hp (Nat.le_of_lt_succ hf)
        cases hr : gcRem (finalise fuel cfg) cfg s x with
        | mk s1 out =>
          rw [hr] at hs
          have hok : out = .ok := hs.ok
          subst hok
          simp only
          obtain ⟨o1, hg1, hh1, _⟩ := hs.casc.hdrs id o hget
          have hl1 : s1.isLive id = true := hs.alive id hnl (by rw [isLive_of_get hget]; exact hlive)
          have ho1live : o1.live = true := by rw [isLive_of_get hg1] at hl1; exact hl1
          have hnp1 : NoPend s1 := fun a ha => hnp a (hs.casc.pendSub a ha)
          simp only [hl1, if_true]
          constructor
          · refine wf_dealloc' (wf_updBody hs.wf id (fun _ => Body.box none) (fun _ _ _ => trivial)) (o := { o1 with body := .box none }) ?_ hh1.symm
              ho1live (fun p hpr => hnreg p (hs.casc.regSub p hpr))
            rw [get_updBody, hg1]; simp
          · intro a ha; rw [pending_dealloc] at ha; exact hnp1 a ha
      · cases hdb : destructBody cfg o.hdr o.body with
        | mk b out =>
          have hb : BodyOK cfg b := by
            have := destructBody_ok (cfg := cfg) (h := o.hdr) hbody
            rw [hdb] at this; exact this
          cases out with
          | ok =>
            simp only
            constructor
            · refine wf_dealloc' (wf_updBody hw id _ (fun _ _ _ => hb)) (o := { o with body := b }) ?_ rfl hlive hnreg
              rw [get_updBody, hget]; simp
            · intro a ha; rw [pending_dealloc] at ha; exact hnp a ha
          | raised e => exact ⟨hw, hnp⟩
          | ub => exact ⟨hw, hnp⟩

/-- `GC_Rem(x)` at the top level -/
theorem gcRem_top (F : Facts cfg) {s : St} (hw : WF cfg s) (hnp : NoPend s) (x : Nat) (fuel : Nat) (hf : s.listed ≤ fuel) :
    WF cfg (gcRem (finalise fuel cfg) cfg s x).1 ∧ NoPend (gcRem (finalise fuel cfg) cfg s x).1 := by
  have hs := gcRem_finalise_spec F fuel s x hw (pendOK_of_noPend hnp) hf
  exact ⟨hs.wf, fun a ha => hnp a (hs.casc.pendSub a ha)⟩

end Cello.Hdr
