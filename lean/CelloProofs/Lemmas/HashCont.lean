/-
  Lemmas for C10: the container hash folds are invariant under permutation; a comparison by parallel iteration that ends in 0
  forces equal element hashes; the comparisons are reflexive.
-/
import Cello.Hash
import Mathlib.Data.List.Perm.Basic
set_option linter.unusedSimpArgs false

namespace Cello.Hash
open CelloGen.Hash (Comb)

theorem combine_right_comm (c : Comb) (z x y : UInt64) :
    combine c (combine c z x) y = combine c (combine c z y) x := by
  cases c
  · simp only [combine]; rw [UInt64.xor_assoc, UInt64.xor_comm x y, ← UInt64.xor_assoc]
  · simp only [combine]; rw [UInt64.add_assoc, UInt64.add_comm x y, ← UInt64.add_assoc]

theorem seqHash_eq_foldl_map (c : Comb) (h : α → UInt64) (xs : List α) :
    seqHash c h xs = (xs.map h).foldl (combine c) 0 := by
  simp [seqHash, List.foldl_map]

theorem mapHash_eq_foldl_map (c : Comb) (hk : α → UInt64) (hv : β → UInt64) (es : List (α × β)) :
    mapHash c hk hv es = (es.map fun e => (hk e.1, hv e.2)).foldl (fun h p => combine c (combine c h p.1) p.2) 0 := by
  simp [mapHash, List.foldl_map]

/-- the sequence hash depends only on the multiset of the elements -/
theorem seqHash_perm (c : Comb) (h : α → UInt64) {xs ys : List α} (p : xs.Perm ys) :
    seqHash c h xs = seqHash c h ys := by
  unfold seqHash
  exact p.foldl_eq' (fun x _ y _ z => combine_right_comm c z (h x) (h y)) 0

/-- the map hash depends only on the multiset of the entries -/
theorem mapHash_perm (c : Comb) (hk : α → UInt64) (hv : β → UInt64) {xs ys : List (α × β)} (p : xs.Perm ys) :
    mapHash c hk hv xs = mapHash c hk hv ys := by
  unfold mapHash
  refine p.foldl_eq' (fun x _ y _ z => ?_) 0
  rw [combine_right_comm c (combine c z (hk x.1)) (hv x.2) (hk y.1),
      combine_right_comm c z (hk x.1) (hk y.1),
      combine_right_comm c (combine c (combine c z (hk y.1)) (hk x.1)) (hv x.2) (hv y.2),
      combine_right_comm c (combine c z (hk y.1)) (hk x.1) (hv y.2)]

/-- a parallel comparison that ends in 0 has walked two sequences of the same length whose elements compared 0 pairwise -/
theorem seqCmp_zero_map_eq {cmp : α → β → Option Int} {ha : α → UInt64} {hb : β → UInt64} :
    ∀ (xs : List α) (ys : List β), (∀ a ∈ xs, ∀ b ∈ ys, cmp a b = some 0 → ha a = hb b) →
      seqCmp cmp xs ys = some 0 → xs.map ha = ys.map hb := by
  intro xs
  induction xs with
  | nil => intro ys _ h; cases ys with
    | nil => rfl
    | cons y ys => simp [seqCmp] at h
  | cons x xs ih => intro ys hc h; cases ys with
    | nil => simp [seqCmp] at h
    | cons y ys =>
      simp only [seqCmp] at h
      cases hxy : cmp x y with
      | none => simp [hxy] at h
      | some c =>
        simp only [hxy] at h
        split at h
        · simp at h
        · split at h
          · simp at h
          · have hc0 : c = 0 := by omega
            subst hc0
            have h1 := hc x (by simp) y (by simp) hxy
            have h2 := ih ys (fun a ha' b hb' => hc a (by simp [ha']) b (by simp [hb'])) h
            simp [h1, h2]

theorem seqCmp_self {cmp : α → α → Option Int} (hr : ∀ a, cmp a a = some 0) (xs : List α) :
    seqCmp cmp xs xs = some 0 := by
  induction xs with
  | nil => rfl
  | cons x xs ih => simp [seqCmp, hr, ih]

theorem mapCmp_zero_map_eq {ck : α → α → Option Int} {cv : β → β → Option Int} {hk : α → UInt64} {hv : β → UInt64} :
    ∀ (xs ys : List (α × β)),
      (∀ e ∈ xs, ∀ f ∈ ys, ck e.1 f.1 = some 0 → hk e.1 = hk f.1) →
      (∀ e ∈ xs, ∀ f ∈ ys, cv e.2 f.2 = some 0 → hv e.2 = hv f.2) →
      mapCmp ck cv xs ys = some 0 →
      (xs.map fun e => (hk e.1, hv e.2)) = (ys.map fun e => (hk e.1, hv e.2)) := by
  intro xs
  induction xs with
  | nil => intro ys _ _ h; cases ys with
    | nil => rfl
    | cons y ys => simp [mapCmp] at h
  | cons x xs ih => intro ys hck hcv h; cases ys with
    | nil => simp [mapCmp] at h
    | cons y ys =>
      simp only [mapCmp] at h
      cases hxy : ck x.1 y.1 with
      | none => simp [hxy] at h
      | some c =>
        simp only [hxy] at h
        split at h
        · simp at h
        · split at h
          · simp at h
          · have hc0 : c = 0 := by omega
            subst hc0
            cases hv2 : cv x.2 y.2 with
            | none => simp [hv2] at h
            | some d =>
              simp only [hv2] at h
              split at h
              · simp at h
              · split at h
                · simp at h
                · have hd0 : d = 0 := by omega
                  subst hd0
                  have h1 := hck x (by simp) y (by simp) hxy
                  have h2 := hcv x (by simp) y (by simp) hv2
                  have h3 := ih ys (fun a ha' b hb' => hck a (by simp [ha']) b (by simp [hb']))
                    (fun a ha' b hb' => hcv a (by simp [ha']) b (by simp [hb'])) h
                  simp [h1, h2, h3]

theorem mapCmp_self {ck : α → α → Option Int} {cv : β → β → Option Int}
    (hk : ∀ a, ck a a = some 0) (hv : ∀ a, cv a a = some 0) (xs : List (α × β)) :
    mapCmp ck cv xs xs = some 0 := by
  induction xs with
  | nil => rfl
  | cons x xs ih => simp [mapCmp, hk, hv, ih]

end Cello.Hash
