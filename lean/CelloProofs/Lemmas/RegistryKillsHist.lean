/-
  CelloProofs/Lemmas/RegistryKillsHist.lean — whole histories with destructors that delete other objects (`K`): GC_Sweep's
  finalisation loop, GC_Sweep, GC_Set and GC_Rem with an arbitrary `K` refine the same operations on (ledger, pending slots),
  where the pending slots are the list the sweep built, in its order, with struck-off slots set to `none`.
-/
import Cello.Registry
import CelloProofs.Lemmas.RegistryKills
set_option linter.unusedSectionVars false
set_option linter.unusedVariables false
namespace Cello.Registry
open RH

/-- ledger and pending slots (`none` = struck off) -/
abbrev AbsO := Ledger × List (Option Nat)

/-- GC_Rem / finalisation on (ledger, pending slots) -/
def absExecO (K : Nat → List Nat) (running : Bool) : (fuel : Nat) → AbsO → Cmd → Option (AbsO × List Nat)
  | 0, _, _ => none
  | fuel+1, a, .fin p =>
    match (K p).foldl (fun (acc : Option (AbsO × List Nat)) y =>
        match acc with
        | none => none
        | some (a', t) =>
          match absExecO K running fuel a' (.rem y) with
          | none => none
          | some (a'', t') => some (a'', t ++ t')) (some (a, [])) with
    | none => none
    | some (a', t) => some (a', t ++ [p])
  | fuel+1, a, .rem x =>
    if !running then some (a, [])
    else
      match a.2.findIdx? (fun y => y == some x) with
      | some i => absExecO K running fuel (a.1, a.2.set i none) (.fin x)
      | none =>
        if x ∈ a.1.map Prod.fst then absExecO K running fuel (a.1.filter (fun y => y.1 != x), a.2) (.fin x)
        else some (a, [])

def SimO (c : Cfg) (running : Bool) : Option (Reg × List Nat) → Option (AbsO × List Nat) → Prop
  | none, none => True
  | some (r', t), some (a', t') => t = t' ∧ WFP c r' a'.1 ∧ r'.pending.toList = a'.2 ∧ r'.running = running
  | _, _ => False

theorem pendList_set_none (r : Reg) (i : Nat) (h0 : pendList r = []) :
    pendList { r with pending := r.pending.setIfInBounds i none } = [] := by
  unfold pendList at h0 ⊢
  show (r.pending.setIfInBounds i none).toList.filterMap id = []
  rw [Array.toList_setIfInBounds]
  rw [List.filterMap_eq_nil_iff] at h0 ⊢
  intro a ha
  rcases List.mem_or_eq_of_mem_set ha with h' | h'
  · exact h0 a h'
  · subst h'; rfl

theorem pendList_set_none_mem (r : Reg) (i y : Nat)
    (h : y ∈ pendList { r with pending := r.pending.setIfInBounds i none }) : y ∈ pendList r := by
  unfold pendList at h ⊢
  have h' : y ∈ (r.pending.setIfInBounds i none).toList.filterMap id := h
  rw [Array.toList_setIfInBounds, List.mem_filterMap] at h'
  obtain ⟨a, ha, hid⟩ := h'
  rw [List.mem_filterMap]
  rcases List.mem_or_eq_of_mem_set ha with h1 | h1
  · exact ⟨a, h1, hid⟩
  · subst h1; simp at hid

theorem wfp_set_pending (c : Cfg) (r : Reg) (L : Ledger) (h : WFP c r L) (i : Nat) :
    WFP c { r with pending := r.pending.setIfInBounds i none } L :=
  ⟨h.core.of_slots rfl HEq.rfl, h.count, h.room, ⟨h.bounded.bounds, h.bounded.aligned, h.bounded.zero, h.bounded.nonnull⟩, h.nodup,
   fun h0 => pendList_set_none r i (h.pzero h0), fun h0 => h.pnz (pendList_set_none_mem r i 0 h0)⟩

/-- GC_Rem_Ptr, positional version -/
theorem remPtr_absO (c : Cfg) (r : Reg) (L : Ledger) (hwf : WFP c r L) (x : Nat)
    (hx00 : c.remNullGuard = true ∨ x ≠ 0 ∨ r.pending = #[]) :
    ∃ r1 fi, remPtr c r x = some (r1, fi) ∧ r1.running = r.running ∧
      ((∃ i, r.pending.toList.findIdx? (fun y => y == some x) = some i ∧ fi = some x ∧
          r1.pending.toList = r.pending.toList.set i none ∧ WFP c r1 L) ∨
       (r.pending.toList.findIdx? (fun y => y == some x) = none ∧ x ∈ L.map Prod.fst ∧ fi = some x ∧ r1.pending = r.pending ∧
          WFP c r1 (L.filter (fun y => y.1 != x))) ∨
       (r.pending.toList.findIdx? (fun y => y == some x) = none ∧ x ∉ L.map Prod.fst ∧ fi = none ∧ r1 = r)) := by
  have hconv : r.pending.toList.findIdx? (fun y => y == some x) = r.pending.findIdx? (fun y => y == some x) := by
    cases r.pending; simp
  obtain ⟨r1, fi, h1, h2, _, h4⟩ := remPtr_abs c r L hwf x hx00
  refine ⟨r1, fi, h1, h2, ?_⟩
  -- recompute which branch was taken from the positional search
  unfold remPtr at h1
  rcases Nat.eq_zero_or_pos r.n with h0 | hn
  · rw [dif_neg (by omega)] at h1
    cases h1
    have hp0 := hwf.pzero h0
    have hnone : r.pending.toList.findIdx? (fun y => y == some x) = none := by
      rw [List.findIdx?_eq_none_iff]
      intro y hy
      unfold pendList at hp0
      rw [List.filterMap_eq_nil_iff] at hp0
      have := hp0 y hy
      cases y with
      | none => simp
      | some v => simp [id] at this
    rcases h4 with ⟨hx, _⟩ | ⟨_, hxL, hfi, _⟩ | ⟨_, hxL, _, _⟩
    · rw [hp0] at hx; simp at hx
    · cases hfi
    · exact Or.inr (Or.inr ⟨hnone, hxL, rfl, rfl⟩)
  · by_cases hg : (c.remNullGuard && x == 0) = true
    · -- `ptr is NULL`: returned at once
      rw [dif_pos hn, if_pos hg] at h1
      simp only [Option.some.injEq, Prod.mk.injEq] at h1
      obtain ⟨e1, e2⟩ := h1
      subst e1; subst e2
      have hx0 : x = 0 := by simpa using (Bool.and_eq_true_iff.1 hg).2
      have hnone : r.pending.toList.findIdx? (fun y => y == some x) = none :=
        findIdx?_none_of_not_mem _ x (by rw [hx0]; exact hwf.pnz)
      rcases h4 with ⟨hx, _⟩ | ⟨_, _, hfi, _⟩ | ⟨_, hxL, _, _⟩
      · rw [hx0] at hx; exact absurd hx hwf.pnz
      · cases hfi
      · exact Or.inr (Or.inr ⟨hnone, hxL, rfl, rfl⟩)
    have hx0 := cmdOk_past_guard hx00 hg
    cases hfi : r.pending.findIdx? (fun y => y == some x) with
    | some i =>
      have hxne : x ≠ 0 := by
        rcases hx0 with h | h
        · exact h
        · rw [h] at hfi; simp at hfi
      rw [dif_pos hn, if_neg hg, findIdx_pend r x hx0, hfi] at h1
      simp only [if_neg hxne, Option.some.injEq, Prod.mk.injEq] at h1
      obtain ⟨e1, e2⟩ := h1
      subst e1; subst e2
      exact Or.inl ⟨i, by rw [hconv, hfi], rfl, by simp, wfp_set_pending c r L hwf i⟩
    | none =>
      have hnone : r.pending.toList.findIdx? (fun y => y == some x) = none := by rw [hconv, hfi]
      have hxp : x ∉ pendList r := findIdx?_none_filterMap _ x hnone
      rcases h4 with ⟨hx, _⟩ | ⟨_, hxL, hfi', hpend, hw, _⟩ | ⟨_, hxL, hfi', hr1⟩
      · exact absurd hx hxp
      · exact Or.inr (Or.inl ⟨hnone, hxL, hfi', hpend, hw⟩)
      · exact Or.inr (Or.inr ⟨hnone, hxL, hfi', hr1⟩)

theorem rem_tailO (c : Cfg) (g : GoodCfg c) (r2 : Reg) (L : Ledger) (h : WFP c r2 L) :
    ∃ r3, resizeLess c r2 = some r3 ∧ WFP c { r3 with mitems := c.mitemsOf r3.nitems } L ∧
      r3.pending = r2.pending ∧ r3.running = r2.running := by
  obtain ⟨r3, hr3, hw, _, hrun, _⟩ := rem_tail c g r2 L h
  obtain ⟨r3', hr3', hmeta, _⟩ := resizeLess_spec c g r2 L h.core h.count h.room
  rw [hr3] at hr3'; cases hr3'
  exact ⟨r3, hr3, hw, hmeta.pending, hrun⟩

/-- nested removals refine the positional abstract recursion, for every `K` and every fuel -/
theorem exec_simO (c : Cfg) (g : GoodCfg c) (K : Nat → List Nat) (hK : NullOk c K) :
    ∀ (fuel : Nat) (r : Reg) (a : AbsO) (cmd : Cmd), WFP c r a.1 → r.pending.toList = a.2 → CmdOk c r cmd →
      SimO c r.running (exec c K fuel r cmd) (absExecO K r.running fuel a cmd) := by
  intro fuel
  induction fuel with
  | zero => intro r a cmd _ _ _; simp [exec, absExecO, SimO]
  | succ fuel ih =>
    intro r a cmd hwf hp hok
    cases cmd with
    | fin p =>
      rw [exec_fin_succ]
      simp only [absExecO]
      have hfold : ∀ (l : List Nat) (x : Option (Reg × List Nat)) (y : Option (AbsO × List Nat)),
          (c.remNullGuard = true ∨ ∀ z ∈ l, z ≠ 0) →
          SimO c r.running x y →
          SimO c r.running
            (l.foldl (fun (acc : Option (Reg × List Nat)) y =>
              match acc with
              | none => none
              | some (r', t) =>
                match exec c K fuel r' (.rem y) with
                | none => none
                | some (r'', t') => some (r'', t ++ t')) x)
            (l.foldl (fun (acc : Option (AbsO × List Nat)) y =>
              match acc with
              | none => none
              | some (a', t) =>
                match absExecO K r.running fuel a' (.rem y) with
                | none => none
                | some (a'', t') => some (a'', t ++ t')) y) := by
        intro l
        induction l with
        | nil => intro x y _ h; exact h
        | cons z l ihl =>
          intro x y hz h
          simp only [List.foldl_cons]
          apply ihl _ _ (hz.imp id (fun h w hw => h w (List.mem_cons_of_mem _ hw)))
          match x, y, h with
          | none, none, _ => simp [SimO]
          | some (r', t), some (a', t'), h =>
            obtain ⟨h1, h2, h3, h4⟩ := h
            subst h1
            have := ih r' a' (.rem z) h2 h3 (hz.elim Or.inl (fun h => Or.inr (Or.inl (h z List.mem_cons_self))))
            rw [h4] at this
            simp only []
            match hx : exec c K fuel r' (.rem z), hy : absExecO K r.running fuel a' (.rem z), this with
            | none, none, _ => simp [SimO]
            | some (r'', t1), some (a'', t2), h' =>
              obtain ⟨e1, e2, e3, e4⟩ := h'
              subst e1
              exact ⟨rfl, e2, e3, e4⟩
      have h0 : SimO c r.running (some (r, [])) (some (a, [])) := ⟨rfl, hwf, hp, rfl⟩
      have := hfold (K p) _ _ (hK.imp id (fun hK z hz hz0 => hK p (hz0 ▸ hz))) h0
      match hx : (K p).foldl _ (some (r, [])), hy : (K p).foldl _ (some (a, [])), this with
      | none, none, _ => simp [SimO]
      | some (r', t), some (a', t'), h' =>
        obtain ⟨e1, e2, e3, e4⟩ := h'
        subst e1
        exact ⟨rfl, e2, e3, e4⟩
    | rem x =>
      rw [exec_rem_succ]
      simp only [absExecO]
      cases hrun : r.running with
      | false => simp only [Bool.not_false, if_true]; exact ⟨rfl, hwf, hp, hrun⟩
      | true =>
        simp only [Bool.not_true, Bool.false_eq_true, if_false]
        obtain ⟨r1, fi, hrem, hrun1, hcases⟩ := remPtr_absO c r a.1 hwf x hok
        rw [hrem]; simp only []
        have tail : ∀ (x' : Option (Reg × List Nat)) (y' : Option (AbsO × List Nat)), SimO c true x' y' →
            SimO c true
              (match x' with
               | none => none
               | some (r2, t) =>
                 match resizeLess c r2 with
                 | none => none
                 | some r3 => some ({ r3 with mitems := c.mitemsOf r3.nitems }, t)) y' := by
          intro x' y' h
          match x', y', h with
          | none, none, _ => simp [SimO]
          | some (r2, t), some (a2, t'), h =>
            obtain ⟨e1, e2, e3, e4⟩ := h
            obtain ⟨r3, hr3, w3, p3, run3⟩ := rem_tailO c g r2 a2.1 e2
            simp only [hr3]
            exact ⟨e1, w3, by show r3.pending.toList = _; rw [p3]; exact e3, by show r3.running = true; rw [run3]; exact e4⟩
        rcases hcases with ⟨i, hidx, hfi, hpl, hw1⟩ | ⟨hnone, hxL, hfi, hpend, hw1⟩ | ⟨hnone, hxL, hfi, hr1⟩
        · subst hfi
          rw [← hp, hidx]
          simp only []
          have := ih r1 (a.1, r.pending.toList.set i none) (.fin x) hw1 hpl trivial
          rw [hrun1, hrun] at this
          exact tail _ _ this
        · subst hfi
          rw [← hp, hnone]
          simp only [if_pos hxL]
          have := ih r1 (a.1.filter (fun y => y.1 != x), r.pending.toList) (.fin x) hw1 (by rw [hpend]) trivial
          rw [hrun1, hrun] at this
          exact tail _ _ this
        · subst hfi; subst hr1
          rw [← hp, hnone]
          simp only [if_neg hxL]
          exact tail (some (r1, [])) (some (a, [])) ⟨rfl, hwf, hp, hrun⟩

def AbsO.size (a : AbsO) : Nat := a.1.length + a.2.countP Option.isSome

theorem countP_set_none (l : List (Option Nat)) (x i : Nat) (h : l.findIdx? (fun y => y == some x) = some i) :
    (l.set i none).countP Option.isSome + 1 = l.countP Option.isSome := by
  obtain ⟨hi, hp, _⟩ := List.findIdx?_eq_some_iff_getElem.1 h
  have hx : l[i] = some x := by simpa using hp
  rw [List.countP_set hi, hx]
  have : 0 < l.countP Option.isSome := by
    apply List.countP_pos_iff.2
    exact ⟨some x, by rw [← hx]; exact List.getElem_mem hi, rfl⟩
  simp; omega

/-- fuel `2·size + 2` (finalise) / `2·size + 1` (remove) is enough, and the state never grows -/
theorem absExecO_ok (K : Nat → List Nat) (running : Bool) :
    ∀ (fuel : Nat) (a : AbsO) (cmd : Cmd),
      (match cmd with | .fin _ => 2 * a.size + 2 | .rem _ => 2 * a.size + 1) ≤ fuel →
      ∃ a' t, absExecO K running fuel a cmd = some (a', t) ∧ a'.size ≤ a.size ∧ a'.2.length = a.2.length := by
  intro fuel
  induction fuel with
  | zero => intro a cmd h; cases cmd <;> simp at h
  | succ fuel ih =>
    intro a cmd hf
    cases cmd with
    | fin p =>
      simp only at hf
      simp only [absExecO]
      have hfold : ∀ (l : List Nat) (a1 : AbsO) (t1 : List Nat), a1.size ≤ a.size → a1.2.length = a.2.length →
          ∃ a' t, l.foldl (fun (acc : Option (AbsO × List Nat)) y =>
              match acc with
              | none => none
              | some (a', t) =>
                match absExecO K running fuel a' (.rem y) with
                | none => none
                | some (a'', t') => some (a'', t ++ t')) (some (a1, t1)) = some (a', t) ∧ a'.size ≤ a.size ∧
              a'.2.length = a.2.length := by
        intro l
        induction l with
        | nil => intro a1 t1 h h'; exact ⟨a1, t1, rfl, h, h'⟩
        | cons z l ihl =>
          intro a1 t1 h h'
          simp only [List.foldl_cons]
          obtain ⟨a2, t2, h2, hs2, hl2⟩ := ih a1 (.rem z) (by simp only; omega)
          rw [h2]
          exact ihl a2 (t1 ++ t2) (by omega) (by omega)
      obtain ⟨a', t, h1, h2, h3⟩ := hfold (K p) a [] (Nat.le_refl _) rfl
      rw [h1]
      exact ⟨a', t ++ [p], rfl, h2, h3⟩
    | rem x =>
      simp only at hf
      simp only [absExecO]
      cases running with
      | false => exact ⟨a, [], by simp, Nat.le_refl _, rfl⟩
      | true =>
        simp only [Bool.not_true, Bool.false_eq_true, if_false]
        cases hidx : a.2.findIdx? (fun y => y == some x) with
        | some i =>
          simp only []
          have hc := countP_set_none a.2 x i hidx
          obtain ⟨a', t, h1, h2, h3⟩ := ih (a.1, a.2.set i none) (.fin x) (by simp only [AbsO.size] at *; omega)
          exact ⟨a', t, h1, by simp only [AbsO.size] at *; omega, by rw [h3]; simp⟩
        | none =>
          simp only []
          by_cases hL : x ∈ a.1.map Prod.fst
          · rw [if_pos hL]
            have hlt : (a.1.filter (fun y => y.1 != x)).length < a.1.length := by
              rw [List.length_filter_lt_length_iff_exists]
              obtain ⟨y, hy, hyx⟩ := List.mem_map.1 hL
              exact ⟨y, hy, by simp [hyx]⟩
            obtain ⟨a', t, h1, h2, h3⟩ := ih (a.1.filter (fun y => y.1 != x), a.2) (.fin x) (by simp only [AbsO.size] at *; omega)
            exact ⟨a', t, h1, by simp only [AbsO.size] at *; omega, h3⟩
          · rw [if_neg hL]
            exact ⟨a, [], rfl, Nat.le_refl _, rfl⟩

/-- the fuel the model gives a nested removal, in abstract terms -/
def absFuel (a : AbsO) : Nat := 2 * (a.1.length + a.2.length) + 4

theorem nestFuel_eq (c : Cfg) (r : Reg) (a : AbsO) (h : WFP c r a.1) (hp : r.pending.toList = a.2) : nestFuel r = absFuel a := by
  unfold nestFuel absFuel
  rw [wfp_count c r a.1 h, ← hp]
  simp

theorem size_le_fuel (a : AbsO) : 2 * a.size + 2 ≤ absFuel a + 1 := by
  unfold AbsO.size absFuel
  have : a.2.countP Option.isSome ≤ a.2.length := List.countP_le_length
  omega

/-- the last loop of GC_Sweep on (ledger, pending slots) -/
def absFinLoop (K : Nat → List Nat) (running : Bool) : (todo i : Nat) → AbsO → List Nat → Option (AbsO × List Nat)
  | 0, _, a, t => some (a, t)
  | todo+1, i, a, t =>
    match a.2[i]? with
    | some (some p) =>
      match absExecO K running (absFuel (a.1, a.2.set i none) + 1) (a.1, a.2.set i none) (.fin p) with
      | none => none
      | some (a2, t') => absFinLoop K running todo (i+1) a2 (t ++ t')
    | _ => absFinLoop K running todo (i+1) a t

/-- **the finalisation loop of GC_Sweep refines the abstract loop and always answers** -/
theorem finaliseLoop_simO (c : Cfg) (g : GoodCfg c) (K : Nat → List Nat) (hK : NullOk c K) :
    ∀ (todo i : Nat) (r : Reg) (a : AbsO) (t : List Nat), WFP c r a.1 → r.pending.toList = a.2 →
      ∃ r' a' t', finaliseLoop c K todo i r t = some (r', t') ∧ absFinLoop K r.running todo i a t = some (a', t') ∧
        WFP c r' a'.1 ∧ r'.pending.toList = a'.2 ∧ r'.running = r.running := by
  intro todo
  induction todo with
  | zero => intro i r a t h hp; exact ⟨r, a, t, rfl, rfl, h, hp, rfl⟩
  | succ todo ih =>
    intro i r a t h hp
    unfold finaliseLoop absFinLoop
    have hget : r.pending[i]? = a.2[i]? := by rw [← hp]; simp
    rw [← hget]
    cases hgi : r.pending[i]? with
    | none => simp only []; exact ih (i+1) r a t h hp
    | some o =>
      cases o with
      | none => simp only []; exact ih (i+1) r a t h hp
      | some p =>
        simp only []
        have hw1 := wfp_set_pending c r a.1 h i
        have hp1 : ({ r with pending := r.pending.setIfInBounds i none } : Reg).pending.toList = a.2.set i none := by
          show (r.pending.setIfInBounds i none).toList = _
          rw [Array.toList_setIfInBounds, hp]
        have hfuel := nestFuel_eq c _ (a.1, a.2.set i none) hw1 hp1
        rw [hfuel]
        obtain ⟨a2, t2, ha2, _, _⟩ := absExecO_ok K r.running (absFuel (a.1, a.2.set i none) + 1) (a.1, a.2.set i none) (.fin p)
          (size_le_fuel _)
        have hsim := exec_simO c g K hK (absFuel (a.1, a.2.set i none) + 1) _ (a.1, a.2.set i none) (.fin p) hw1 hp1 trivial
        rw [show ({ r with pending := r.pending.setIfInBounds i none } : Reg).running = r.running from rfl, ha2] at hsim
        rw [ha2]
        simp only []
        match hx : exec c K (absFuel (a.1, a.2.set i none) + 1) { r with pending := r.pending.setIfInBounds i none } (.fin p), hsim with
        | some (r2, t2'), hs =>
          obtain ⟨e1, e2, e3, e4⟩ := hs
          subst e1
          simp only []
          obtain ⟨r', a', t', f1, f2, f3, f4, f5⟩ := ih (i+1) r2 a2 (t ++ t2') e2 e3
          rw [e4] at f2 f5
          exact ⟨r', a', t', f1, f2, f3, f4, f5⟩

/-- **GC_Sweep with arbitrary destructors.**  The compaction reclaims the unmarked non-root objects, listing them in some
    order `order` (each once); the finalisation loop then refines `absFinLoop` from (kept ledger, `order`); the sweep always
    answers, and the final state is well formed (pending list empty) for the abstract result. -/
theorem gcSweep_simO (c : Cfg) (g : GoodCfg c) (K : Nat → List Nat) (hK : NullOk c K) (r : Reg) (L : Ledger) (mk : Nat → Bool → Bool)
    (h : Core c r L mk) (hc : r.nitems = occ r.slots) (hroom : Room r) (hb : Bounded r L) (hnd : (L.map Prod.fst).Nodup) :
    ∃ (order : List Nat) (r' : Reg) (a' : AbsO) (t : List Nat),
      gcSweep c K r = some (r', t) ∧
      absFinLoop K r.running order.length 0 (collectBy L mk, order.map some) [] = some (a', t) ∧
      WF c r' a'.1 ∧ r'.running = r.running ∧ order.Nodup ∧
      (∀ p, p ∈ order ↔ ∃ b, (p, b) ∈ L ∧ (p, b) ∉ collectBy L mk) := by
  have hroom' : occ r.slots < r.n ∨ r.n = 0 := by rcases hroom with h' | h' <;> omega
  obtain ⟨s', removed, hs', inv', hmem, hkeep, hrem, hnot, hnd', hocc⟩ :=
    sweepLoop_total (hashOf c) r.slots r.nitems h.inv hroom'
  have hcoreA : Core c { r with slots := clearMarks s', nitems := r.nitems - removed.length,
                                pending := (removed.map (fun x => some x.key)).toArray } (collectBy L mk) noMark := by
    refine ⟨inv0_map_payload _ _ inv' _ (fun _ => rfl) (fun _ => rfl), ?_⟩
    intro e'
    show Mem (clearMarks s') e' ↔ _
    unfold clearMarks
    rw [mem_map_payload]
    constructor
    · rintro ⟨e, he, rfl⟩
      have hk := hkeep e he
      obtain ⟨h1, h2, h3⟩ := (h.ents e).1 ((hmem e).2 (Or.inl he))
      refine ⟨?_, rfl, h3⟩
      unfold collectBy
      rw [List.mem_filter]
      refine ⟨h1, ?_⟩
      rcases hk with hk | hk
      · rw [h2] at hk; simp [hk]
      · simp [hk]
    · rintro ⟨h1, h2, h3⟩
      unfold collectBy at h1
      rw [List.mem_filter] at h1
      have hin : Mem r.slots ⟨e'.key, e'.home, ⟨e'.val.root, mk e'.key e'.val.root⟩⟩ := (h.ents _).2 ⟨h1.1, rfl, h3⟩
      rcases (hmem _).1 hin with hs | hr
      · refine ⟨_, hs, ?_⟩
        rw [clear_eq]
        exact ent_eta e' _ _ _ _ rfl rfl rfl h2
      · exfalso
        apply hrem _ hr
        have := h1.2
        simp only [Bool.or_eq_true] at this
        rcases this with h' | h'
        · exact Or.inr h'
        · exact Or.inl h'
  have hcA : (r.nitems - removed.length) = occ (clearMarks s') := by
    unfold clearMarks; rw [occ_map_payload]; omega
  have hroomA : Room { r with slots := clearMarks s', nitems := r.nitems - removed.length,
                              pending := (removed.map (fun x => some x.key)).toArray } := by
    rcases hroom with h' | h'
    · exact Or.inl (show r.nitems - removed.length < r.n by omega)
    · exact Or.inr ⟨h'.1, show r.nitems - removed.length = 0 by omega⟩
  obtain ⟨r1, hr1, hmeta1, hcore1, hocc1, hroom1, hz1⟩ := resizeLess_spec c g _ (collectBy L mk) hcoreA hcA hroomA
  -- membership in `removed`
  have hremoved : ∀ e, e ∈ removed ↔ Mem r.slots e ∧ ¬ Keep e := by
    intro e
    constructor
    · intro he; exact ⟨(hmem e).2 (Or.inr he), hrem e he⟩
    · rintro ⟨he, hk⟩
      rcases (hmem e).1 he with h' | h'
      · exact absurd (hkeep e h') hk
      · exact h'
  have hrem0 : r.n = 0 → removed = [] := by
    intro h0
    apply List.eq_nil_iff_forall_not_mem.2
    intro e he
    obtain ⟨q, hq, _⟩ := ((hremoved e).1 he).1
    omega
  have hw2 : WFP c { r1 with mitems := c.mitemsOf r1.nitems } (collectBy L mk) := by
    refine ⟨hcore1.of_slots rfl HEq.rfl, ?_, hroom1, ⟨?_, ?_, ?_, fun p b hp => hb.nonnull p b (collectBy_sub L mk _ hp)⟩,
      collectBy_nodup L mk hnd, ?_, ?_⟩
    · show r1.nitems = occ r1.slots; rw [hmeta1.nitems, hocc1]; exact hcA
    · intro p b hp; show r1.minptr ≤ p ∧ p ≤ r1.maxptr; rw [hmeta1.minptr, hmeta1.maxptr]
      exact hb.bounds p b (collectBy_sub L mk _ hp)
    · intro p b hp; exact hb.aligned p b (collectBy_sub L mk _ hp)
    · intro h0; show r1.minptr = uintptrMax ∧ r1.maxptr = 0; rw [hmeta1.minptr, hmeta1.maxptr]; exact hb.zero (hz1 h0)
    · intro h0
      unfold pendList
      show r1.pending.toList.filterMap id = []
      rw [hmeta1.pending]
      show ((removed.map (fun x => some x.key)).toArray).toList.filterMap id = []
      rw [hrem0 (hz1 h0)]; rfl
    · -- what the sweep lists are registered objects: none of them is NULL
      intro h0
      unfold pendList at h0
      have h0' : 0 ∈ r1.pending.toList.filterMap id := h0
      rw [hmeta1.pending] at h0'
      have h0'' : 0 ∈ ((removed.map (fun x => some x.key)).toArray).toList.filterMap id := h0'
      simp only [List.mem_filterMap, List.mem_map, id] at h0''
      obtain ⟨a, ⟨e, he, hea⟩, ha⟩ := h0''
      subst hea
      have hk : e.key = 0 := by simpa using ha
      obtain ⟨h1, _, _⟩ := (h.ents e).1 ((hremoved e).1 he).1
      exact hb.nonnull _ _ h1 hk
  have hp2 : ({ r1 with mitems := c.mitemsOf r1.nitems } : Reg).pending.toList = (removed.map (fun x => x.key)).map some := by
    show r1.pending.toList = _
    rw [hmeta1.pending]
    show ((removed.map (fun x => some x.key)).toArray).toList = _
    simp [List.map_map]
  obtain ⟨r3, a', t, hfin, habs, hw3, hp3, hrun3⟩ :=
    finaliseLoop_simO c g K hK ({ r1 with mitems := c.mitemsOf r1.nitems } : Reg).pending.size 0 _
      (collectBy L mk, (removed.map (fun x => x.key)).map some) [] hw2 hp2
  have hsize : ({ r1 with mitems := c.mitemsOf r1.nitems } : Reg).pending.size = (removed.map (fun x => x.key)).length := by
    show r1.pending.size = _
    rw [hmeta1.pending]; simp
  refine ⟨removed.map (fun x => x.key), { r3 with pending := #[] }, a', t, ?_, ?_, ?_, ?_, ?_, ?_⟩
  · unfold gcSweep
    rw [hs']; simp only []
    rw [hr1]; simp only []
    rw [hfin]
  · rw [← hsize]
    have : ({ r1 with mitems := c.mitemsOf r1.nitems } : Reg).running = r.running := by
      show r1.running = r.running; rw [hmeta1.running]
    rw [← this]; exact habs
  · exact ⟨hw3.core.of_slots rfl HEq.rfl, hw3.count, hw3.room, ⟨hw3.bounded.bounds, hw3.bounded.aligned, hw3.bounded.zero, hw3.bounded.nonnull⟩,
      hw3.nodup, rfl⟩
  · show r3.running = r.running
    rw [hrun3]; show r1.running = r.running; rw [hmeta1.running]
  · -- keys of distinct stored entries are distinct
    unfold List.Nodup at hnd' ⊢
    rw [List.pairwise_map]
    refine List.Pairwise.imp_of_mem ?_ hnd'
    intro e1 e2 he1 he2 hne hk
    apply hne
    obtain ⟨q1, hq1, h1⟩ := ((hremoved e1).1 he1).1
    obtain ⟨q2, hq2, h2⟩ := ((hremoved e2).1 he2).1
    have := h.inv.distinct q1 q2 hq1 hq2 e1 e2 h1 h2 hk
    subst this
    rw [h1] at h2; exact Option.some.inj h2
  · intro p
    rw [List.mem_map]
    constructor
    · rintro ⟨e, he, rfl⟩
      obtain ⟨hm, hk⟩ := (hremoved e).1 he
      obtain ⟨h1, h2, _⟩ := (h.ents e).1 hm
      refine ⟨e.val.root, h1, ?_⟩
      intro hin
      unfold collectBy at hin
      have := (List.mem_filter.1 hin).2
      simp only [Bool.or_eq_true] at this
      apply hk
      rcases this with h' | h'
      · exact Or.inr h'
      · exact Or.inl (by rw [h2]; exact h')
    · rintro ⟨b, hL, hnot'⟩
      have hm : Mem r.slots ⟨p, hashOf c p % r.n, ⟨b, mk p b⟩⟩ := (h.ents _).2 ⟨hL, rfl, rfl⟩
      refine ⟨_, (hremoved _).2 ⟨hm, ?_⟩, rfl⟩
      intro hk
      apply hnot'
      unfold collectBy
      rw [List.mem_filter]
      refine ⟨hL, ?_⟩
      simp only [Bool.or_eq_true]
      rcases hk with h' | h'
      · exact Or.inr h'
      · exact Or.inl h'

/-! ### histories with destructors `K` -/

/-- the model's transition with destructors `K` -/
def stepK (c : Cfg) (K : Nat → List Nat) (r : Reg) : Op → Option Reg
  | .new p root marks => (gcSet c K r p root marks).map (fun x => x.1)
  | .newRaw _ => some r
  | .del p => (gcRem c K r p).map (fun x => x.1)
  | .delRaw p => (exec c K (nestFuel r + 1) r (.fin p)).map (fun x => x.1)
  | .sweep marks =>
    match markAll c r marks with
    | none => none
    | some r1 => (gcSweep c K r1).map (fun x => x.1)
  | .stop => some (gcStop r)
  | .start => some (gcStart r)

/-- a collection on the ledger: the unmarked non-root objects are reclaimed and finalised in some order (each once); their
    destructors' deletions act on what is kept and on what is still waiting -/
def SweepL (K : Nat → List Nat) (running : Bool) (L : Ledger) (marks : List Nat) (L' : Ledger) : Prop :=
  ∃ (order : List Nat) (a' : AbsO) (t : List Nat), order.Nodup ∧
    (∀ p, p ∈ order ↔ ∃ b, (p, b) ∈ L ∧ (p, b) ∉ collectL L marks) ∧
    absFinLoop K running order.length 0 (collectL L marks, order.map some) [] = some (a', t) ∧ L' = a'.1

/-- the ledger transitions that explain the operations -/
inductive LedgerK (K : Nat → List Nat) (r : Reg) (L : Ledger) : Op → Ledger → Prop where
  | new_plain (p root marks) : r.running = true → ¬ (r.nitems + 1 > r.mitems) → LedgerK K r L (.new p root marks) ((p, root) :: L)
  | new_collect (p root marks L') : r.running = true → r.nitems + 1 > r.mitems → SweepL K true ((p, root) :: L) marks L' →
      LedgerK K r L (.new p root marks) L'
  | new_stopped (p root marks) : r.running = false → LedgerK K r L (.new p root marks) L
  | newRaw (p) : LedgerK K r L (.newRaw p) L
  | del_run (p a' t) : r.running = true → absExecO K true (absFuel (L, [])) (L, []) (.rem p) = some (a', t) →
      LedgerK K r L (.del p) a'.1
  | del_stopped (p) : r.running = false → LedgerK K r L (.del p) L
  | delRaw (p a' t) : absExecO K r.running (absFuel (L, []) + 1) (L, []) (.fin p) = some (a', t) → LedgerK K r L (.delRaw p) a'.1
  | sweep (marks L') : SweepL K r.running L marks L' → LedgerK K r L (.sweep marks) L'
  | stop : LedgerK K r L .stop L
  | start : LedgerK K r L .start L

theorem collectBy_eq_collectL (L : Ledger) (mk0 : Nat → Bool → Bool) (marks : List Nat) (hmk0 : ∀ q b, (b || mk0 q b) = b) :
    collectBy L (fun q b => mk0 q b || marks.contains q) = collectL L marks := by
  unfold collectBy collectL
  apply List.filter_congr
  intro x _
  rw [← Bool.or_assoc, hmk0]

/-- a full collection with destructors `K` from a well-formed state -/
theorem collect_simO (c : Cfg) (g : GoodCfg c) (K : Nat → List Nat) (hK : NullOk c K) (r : Reg) (L : Ledger) (hwf : WF c r L) (roots : Bool)
    (marks : List Nat) :
    ∃ r1 r' L' t, markAll c (if roots then markRoots r else r) marks = some r1 ∧ gcSweep c K r1 = some (r', t) ∧
      SweepL K r.running L marks L' ∧ WF c r' L' ∧ r'.running = r.running := by
  have hpre : ∃ mk0 : Nat → Bool → Bool, Core c (if roots then markRoots r else r) L mk0 ∧
      (if roots then markRoots r else r).nitems = occ (if roots then markRoots r else r).slots ∧
      Room (if roots then markRoots r else r) ∧ Bounded (if roots then markRoots r else r) L ∧
      (if roots then markRoots r else r).n = r.n ∧ SameMeta r (if roots then markRoots r else r) ∧
      (∀ q b, (b || mk0 q b) = b) := by
    cases roots with
    | false => exact ⟨noMark, hwf.core, hwf.count, hwf.room, hwf.bounded, rfl, SameMeta.refl r, by intro q b; simp [noMark]⟩
    | true =>
      obtain ⟨h1, h2, h3, h4⟩ := markRoots_core c r L noMark hwf.core
      refine ⟨_, h1, ?_, ?_, ⟨hwf.bounded.bounds, hwf.bounded.aligned, hwf.bounded.zero, hwf.bounded.nonnull⟩, rfl, h3, ?_⟩
      · show r.nitems = occ (markRoots r).slots; rw [h2]; exact hwf.count
      · exact hwf.room
      · intro q b; cases b <;> simp [noMark]
  obtain ⟨mk0, hcore0, hc0, hroom0, hb0, hn0, hmeta0, hmk0⟩ := hpre
  obtain ⟨r1, hr1, hcore1, hocc1, hmeta1, hn1⟩ := markAll_core c _ L mk0 hcore0 hc0 hroom0 hb0 marks
  have hc1 : r1.nitems = occ r1.slots := by rw [hmeta1.nitems, hocc1]; exact hc0
  have hroom1 : Room r1 := by unfold Room at *; rw [hmeta1.nitems, hn1]; exact hroom0
  have hb1 : Bounded r1 L := by
    refine ⟨?_, hb0.aligned, ?_, hb0.nonnull⟩
    · intro p b hp; rw [hmeta1.minptr, hmeta1.maxptr]; exact hb0.bounds p b hp
    · intro h0; rw [hmeta1.minptr, hmeta1.maxptr]; exact hb0.zero (by rw [← hn1]; exact h0)
  obtain ⟨order, r', a', t, hsw, habs, hwf', hrun', hnd, hmem⟩ := gcSweep_simO c g K hK r1 L _ hcore1 hc1 hroom1 hb1 hwf.nodup
  have hrun1 : r1.running = r.running := by rw [hmeta1.running, hmeta0.running]
  rw [collectBy_eq_collectL L mk0 marks hmk0, hrun1] at habs
  rw [collectBy_eq_collectL L mk0 marks hmk0] at hmem
  exact ⟨r1, r', a'.1, t, hr1, hsw, ⟨order, a', t, hnd, hmem, habs, rfl⟩, hwf', by rw [hrun', hrun1]⟩

/-- **one operation, destructors `K`**: from a well-formed state the model answers, some ledger transition explains the
    operation, and the new state is well formed for the new ledger -/
theorem stepK_wf (c : Cfg) (g : GoodCfg c) (K : Nat → List Nat) (hK : NullOk c K) (r : Reg) (L : Ledger) (hwf : WF c r L) (op : Op) (hok : okOp L op) :
    ∃ r' L', stepK c K r op = some r' ∧ LedgerK K r L op L' ∧ WF c r' L' := by
  cases op with
  | new p root marks =>
    cases hrun : r.running with
    | false =>
      refine ⟨r, L, ?_, LedgerK.new_stopped p root marks hrun, hwf⟩
      simp only [stepK, gcSet, hrun, Bool.not_false, if_true, Option.map]
    | true =>
      -- as in `gcSet_wf`, with the sweep of the threshold path running the destructors `K`
      have core0 : Core c { r with nitems := r.nitems + 1, maxptr := if p > r.maxptr then p else r.maxptr,
                                   minptr := if p < r.minptr then p else r.minptr } L noMark := hwf.core.of_slots rfl HEq.rfl
      obtain ⟨r1, hr1, hmeta1, hcore1, hocc1, hroom1⟩ := resizeMore_spec c g _ L core0
        (show r.nitems + 1 = occ r.slots + 1 by rw [hwf.count])
      have hni1 : r1.nitems = r.nitems + 1 := hmeta1.nitems
      have hocc1' : occ r1.slots = occ r.slots := hocc1
      have hfresh1 : ∀ q (hq : q < r1.n) e, r1.slots[q] = some e → e.key ≠ p := by
        intro q hq e he hk
        apply hok.1
        have := ((hcore1.ents e).1 ⟨q, hq, he⟩).1
        rw [← hk]; exact List.mem_map.2 ⟨_, this, rfl⟩
      obtain ⟨s, hs, invs, mems, occs⟩ := setPtr_spec c r1.slots hcore1.inv p root hfresh1
        (by rw [hocc1', ← hwf.count]; omega)
      have wf2 : WF c { r1 with slots := s } ((p, root) :: L) := by
        refine ⟨⟨invs, ?_⟩, ?_, Or.inl hroom1, ⟨?_, ?_, ?_, ?_⟩, ?_, ?_⟩
        · intro e
          show Mem s e ↔ _
          rw [mems e]
          constructor
          · rintro (h | h)
            · obtain ⟨a, b, d⟩ := (hcore1.ents e).1 h
              exact ⟨List.mem_cons_of_mem _ a, b, d⟩
            · subst h; exact ⟨List.mem_cons_self, rfl, rfl⟩
          · rintro ⟨a, b, d⟩
            rcases List.mem_cons.1 a with h | h
            · right
              have h1 : e.key = p := congrArg Prod.fst h
              have h2 : e.val.root = root := congrArg Prod.snd h
              exact ent_eta e _ _ _ _ h1 (by rw [d, h1]) h2 b
            · exact Or.inl ((hcore1.ents e).2 ⟨h, b, d⟩)
        · show r1.nitems = occ s
          rw [occs, hocc1', hni1, hwf.count]
        · intro q b hq
          show r1.minptr ≤ q ∧ q ≤ r1.maxptr
          rw [hmeta1.minptr, hmeta1.maxptr]
          show (if p < r.minptr then p else r.minptr) ≤ q ∧ q ≤ (if p > r.maxptr then p else r.maxptr)
          rcases List.mem_cons.1 hq with h | h
          · have : q = p := congrArg Prod.fst h
            subst this
            constructor <;> split <;> omega
          · have := hwf.bounded.bounds q b h
            constructor <;> split <;> omega
        · intro q b hq
          rcases List.mem_cons.1 hq with h | h
          · have : q = p := congrArg Prod.fst h
            rw [this]; exact hok.2.1
          · exact hwf.bounded.aligned q b h
        · intro h0
          have : r1.n = 0 := h0
          omega
        · intro q b hq
          rcases List.mem_cons.1 hq with h | h
          · have : q = p := congrArg Prod.fst h
            rw [this]; exact hok.2.2
          · exact hwf.bounded.nonnull q b h
        · show (p :: L.map Prod.fst).Nodup
          exact List.nodup_cons.2 ⟨hok.1, hwf.nodup⟩
        · show r1.pending = #[]
          rw [hmeta1.pending]; exact hwf.pend
      have hrun2 : ({ r1 with slots := s } : Reg).running = true := by
        show r1.running = true; rw [hmeta1.running]; exact hrun
      have hth : (({ r1 with slots := s } : Reg).nitems > ({ r1 with slots := s } : Reg).mitems) ↔ r.nitems + 1 > r.mitems := by
        show r1.nitems > r1.mitems ↔ _
        rw [hni1, hmeta1.mitems]
      have hnr : (!r.running) = false := by rw [hrun]; rfl
      by_cases h : r.nitems + 1 > r.mitems
      · have hnz2 : ({ r1 with slots := s } : Reg).nitems ≠ 0 := by show r1.nitems ≠ 0; omega
        obtain ⟨wf3, hmeta3, _⟩ := markStart_wf c _ _ wf2
        obtain ⟨ra, r', L', t, hra, hsw, hL', hwf', _⟩ := collect_simO c g K hK _ _ wf3 true marks
        simp only [if_true] at hra
        rw [hmeta3.running, hrun2] at hL'
        refine ⟨r', L', ?_, LedgerK.new_collect p root marks L' hrun h hL', hwf'⟩
        unfold stepK gcSet
        rw [hnr]
        simp only [Bool.false_eq_true, if_false]
        rw [hr1]; simp only []
        rw [hs]; simp only []
        rw [if_pos (hth.2 h), gcMark_eq c _ marks hnz2, hra]
        simp only [hsw, Option.map]
      · refine ⟨_, _, ?_, LedgerK.new_plain p root marks hrun h, wf2⟩
        unfold stepK gcSet
        rw [hnr]
        simp only [Bool.false_eq_true, if_false]
        rw [hr1]; simp only []
        rw [hs]; simp only []
        rw [if_neg (fun h' => h (hth.1 h'))]
        rfl
  | newRaw p => exact ⟨r, L, rfl, LedgerK.newRaw p, hwf⟩
  | del p =>
    cases hrun : r.running with
    | false =>
      refine ⟨r, L, ?_, LedgerK.del_stopped p hrun, hwf⟩
      have hfuel : nestFuel r = (2 * (r.nitems + r.pending.size) + 3) + 1 := by unfold nestFuel; omega
      simp only [stepK, gcRem, hfuel, exec_rem_succ, hrun, Bool.not_false, if_true, Option.map]
    | true =>
      have hp0 : r.pending.toList = ([] : List (Option Nat)) := by rw [hwf.pend]
      have hfuel := nestFuel_eq c r (L, []) hwf.toWFP hp0
      obtain ⟨a', t, ha, _, hlen⟩ := absExecO_ok K true (absFuel (L, [])) (L, []) (.rem p) (by
        simp only [AbsO.size, absFuel, List.countP_nil, List.length_nil]; omega)
      have hsim := exec_simO c g K hK (nestFuel r) r (L, []) (.rem p) hwf.toWFP hp0 (Or.inr (Or.inr hwf.pend))
      rw [hrun, hfuel, ha] at hsim
      match hx : exec c K (absFuel (L, [])) r (.rem p), hsim with
      | some (r', t'), hs =>
        obtain ⟨e1, e2, e3, e4⟩ := hs
        have hpend : r'.pending = #[] := by
          have : r'.pending.toList = [] := by
            rw [e3]; exact List.eq_nil_of_length_eq_zero (by rw [hlen]; rfl)
          cases hr' : r'.pending with | mk l => rw [hr'] at this; simp at this; rw [this]
        refine ⟨r', a'.1, ?_, LedgerK.del_run p a' t hrun ha, e2.toWF hpend⟩
        simp only [stepK, gcRem, hfuel, hx, Option.map]
  | delRaw p =>
    have hp0 : r.pending.toList = ([] : List (Option Nat)) := by rw [hwf.pend]
    have hfuel := nestFuel_eq c r (L, []) hwf.toWFP hp0
    obtain ⟨a', t, ha, _, hlen⟩ := absExecO_ok K r.running (absFuel (L, []) + 1) (L, []) (.fin p) (size_le_fuel _)
    have hsim := exec_simO c g K hK (nestFuel r + 1) r (L, []) (.fin p) hwf.toWFP hp0 trivial
    rw [hfuel, ha] at hsim
    match hx : exec c K (absFuel (L, []) + 1) r (.fin p), hsim with
    | some (r', t'), hs =>
      obtain ⟨e1, e2, e3, e4⟩ := hs
      have hpend : r'.pending = #[] := by
        have : r'.pending.toList = [] := by
          rw [e3]; exact List.eq_nil_of_length_eq_zero (by rw [hlen]; rfl)
        cases hr' : r'.pending with | mk l => rw [hr'] at this; simp at this; rw [this]
      refine ⟨r', a'.1, ?_, LedgerK.delRaw p a' t ha, e2.toWF hpend⟩
      simp only [stepK, hfuel, hx, Option.map]
  | sweep marks =>
    obtain ⟨r1, r', L', t, h1, h2, h3, h4, _⟩ := collect_simO c g K hK r L hwf false marks
    simp only [Bool.false_eq_true, if_false] at h1
    exact ⟨r', L', by simp only [stepK, h1, h2, Option.map], LedgerK.sweep marks L' h3, h4⟩
  | stop => exact ⟨_, L, rfl, LedgerK.stop, wf_running c r L hwf false⟩
  | start => exact ⟨_, L, rfl, LedgerK.start, wf_running c r L hwf true⟩

/-- the states reachable with destructors `K`, each with a ledger that explains the history so far (any ledger the abstract
    transitions `LedgerK` allow: that the state is well formed for every one of them is `reachK_wf`, RegistryOrder.lean) -/
inductive ReachK (c : Cfg) (K : Nat → List Nat) : Reg → Ledger → Prop where
  | init : ReachK c K Reg.init []
  | step {r : Reg} {L : Ledger} {op : Op} {r' : Reg} {L' : Ledger} :
      ReachK c K r L → okOp L op → stepK c K r op = some r' → LedgerK K r L op L' → ReachK c K r' L'

end Cello.Registry
