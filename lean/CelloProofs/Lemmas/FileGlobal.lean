/-
  Helper lemmas for C20, the specification over HANDLES (`gtrack`, Cello/File.lean): as long as no File object is
  copied / assigned while open, distinct objects hold distinct handles, the handles that are open are exactly the ones
  the objects hold, and the whole log of the process — not only each object's part of it — uses every handle correctly:
  no call on a handle that is not open, one fclose per fopen.
-/
import CelloProofs.Lemmas.FileWith

namespace Cello.File

variable {σ : Type} (io : Stdio σ)

/-! ### the automaton over handles -/

theorem gtrack_append (live : List Handle) (a b : List Call) :
    gtrack live (a ++ b) = match gtrack live a with
      | some L => gtrack L b
      | none => none := by
  induction a generalizing live with
  | nil => rfl
  | cons c a ih =>
    simp only [List.cons_append, gtrack]
    cases gok live c with
    | false => rfl
    | true => simpa using ih (gstep live c)

theorem gtrack_append_of {live L L' : List Handle} {a b : List Call} (h1 : gtrack live a = some L)
    (h2 : gtrack L b = some L') : gtrack live (a ++ b) = some L' := by
  rw [gtrack_append, h1]; exact h2

theorem freshCalls_append_of {live L : List Handle} {a : List Call} (b : List Call) (h : gtrack live a = some L) :
    freshCalls live (a ++ b) = (freshCalls live a && freshCalls L b) := by
  induction a generalizing live with
  | nil => simp only [gtrack, Option.some.injEq] at h; subst h; simp [freshCalls]
  | cons c a ih =>
    simp only [gtrack] at h
    cases hk : gok live c with
    | false => simp [hk] at h
    | true =>
      simp only [hk, if_true] at h
      simp only [List.cons_append, freshCalls, ih h, Bool.and_assoc]

/-- counting form of acceptance: the handles open at the end are those open at the start plus one per successful fopen
    minus one per fclose -/
theorem gtrack_count (live L : List Handle) (calls : List Call) (h : gtrack live calls = some L) :
    live.length + (calls.filter isOpenOk).length = L.length + (calls.filter isClose).length := by
  induction calls generalizing live with
  | nil => simp only [gtrack, Option.some.injEq] at h; subst h; simp
  | cons c cs ih =>
    simp only [gtrack] at h
    cases hk : gok live c with
    | false => simp [hk] at h
    | true =>
      simp only [hk, if_true] at h
      have := ih (gstep live c) h
      cases c with
      | fopen k m r =>
        cases r with
        | none => simp_all [gstep, isOpenOk, isClose, List.filter]
        | some x => simp_all [gstep, isOpenOk, isClose, List.filter]; omega
      | on fn x =>
        have hx : x ∈ live := by simpa [gok] using hk
        by_cases hfn : fn = .fclose
        · subst hfn
          have hl : (live.erase x).length = live.length - 1 := List.length_erase_of_mem hx
          have hpos : 0 < live.length := List.length_pos_of_mem hx
          simp_all [gstep, isOpenOk, isClose, List.filter]; omega
        · have e1 : gstep live (.on fn x) = live := by cases fn <;> simp_all [gstep]
          have e2 : isClose (.on fn x) = false := by cases fn <;> simp_all [isClose]
          simp_all [isOpenOk, List.filter]
      | onNull fn => simp [gok] at hk

/-- **from one object's log to the log of the process.**  `P` = "held by some other object".  If the calls of one
    object are well bracketed for that object (`track`), the handles that are open are the one this object holds plus
    the ones other objects hold, nobody else holds this object's handle, and stdio never hands out a handle that is still
    open, then the same calls are well bracketed for the process (`gtrack`) and the same description holds afterwards. -/
theorem track_gtrack (P : Handle → Prop) : ∀ (calls : List Call) (c c' : Option Handle) (live : List Handle),
    track c calls = some c' → live.Nodup → (∀ x, x ∈ live ↔ (c = some x ∨ P x)) → (∀ h, c = some h → ¬ P h) →
    freshCalls live calls = true →
    ∃ L, gtrack live calls = some L ∧ L.Nodup ∧ (∀ x, x ∈ L ↔ (c' = some x ∨ P x)) ∧ (∀ h, c' = some h → ¬ P h)
  | [], c, c', live, ht, hnd, hm, hp, _ => by
    simp only [track, Option.some.injEq] at ht; subst ht; exact ⟨live, rfl, hnd, hm, hp⟩
  | call :: cs, c, c', live, ht, hnd, hm, hp, hf => by
    simp only [track] at ht
    cases hs : trackCall c call with
    | none => simp [hs] at ht
    | some c1 =>
      simp only [hs] at ht
      simp only [freshCalls, Bool.and_eq_true] at hf
      have key : gok live call = true ∧ (gstep live call).Nodup ∧
          (∀ x, x ∈ gstep live call ↔ (c1 = some x ∨ P x)) ∧ (∀ h, c1 = some h → ¬ P h) := by
        cases c with
        | none =>
          cases call with
          | fopen k m r =>
            simp only [trackCall, Option.some.injEq] at hs; subst hs
            cases r with
            | none => exact ⟨rfl, hnd, hm, hp⟩
            | some h =>
              have hfr : h ∉ live := by simpa [gfresh] using hf.1
              have hPh : ¬ P h := fun hp' => hfr ((hm h).2 (Or.inr hp'))
              refine ⟨rfl, ?_, ?_, ?_⟩
              · simp only [gstep]; exact List.nodup_cons.2 ⟨hfr, hnd⟩
              · intro x
                simp only [gstep, List.mem_cons, Option.some.injEq]
                constructor
                · rintro (rfl | hx)
                  · exact Or.inl rfl
                  · rcases (hm x).1 hx with h0 | h0
                    · simp at h0
                    · exact Or.inr h0
                · rintro (rfl | hx)
                  · exact Or.inl rfl
                  · exact Or.inr ((hm x).2 (Or.inr hx))
              · intro h' hh'
                simp only [Option.some.injEq] at hh'; subst hh'; exact hPh
          | on fn h => simp [trackCall] at hs
          | onNull fn => simp [trackCall] at hs
        | some h =>
          cases call with
          | fopen k m r => simp [trackCall] at hs
          | onNull fn => simp [trackCall] at hs
          | on fn h' =>
            by_cases hh : h' = h
            · subst hh
              have hin : h' ∈ live := (hm h').2 (Or.inl rfl)
              have hPh : ¬ P h' := hp h' rfl
              by_cases hfn : fn = .fclose
              · subst hfn
                simp only [trackCall, if_true, Option.some.injEq] at hs; subst hs
                refine ⟨by simpa [gok] using hin, ?_, ?_, ?_⟩
                · simp only [gstep]; exact hnd.erase _
                · intro x
                  simp only [gstep, hnd.mem_erase_iff]
                  constructor
                  · rintro ⟨hne, hx⟩
                    rcases (hm x).1 hx with h0 | h0
                    · simp only [Option.some.injEq] at h0; exact absurd h0.symm hne
                    · exact Or.inr h0
                  · rintro (h0 | h0)
                    · simp at h0
                    · exact ⟨fun e => hPh (e ▸ h0), (hm x).2 (Or.inr h0)⟩
                · intro h0 hh0; simp at hh0
              · simp only [trackCall, if_true, hfn, if_false, Option.some.injEq] at hs; subst hs
                have e1 : gstep live (.on fn h') = live := by cases fn <;> simp_all [gstep]
                rw [e1]
                exact ⟨by simpa [gok] using hin, hnd, hm, hp⟩
            · simp [trackCall, hh] at hs
      obtain ⟨k1, k2, k3, k4⟩ := key
      obtain ⟨L, hL, r1, r2, r3⟩ := track_gtrack P cs c1 c' (gstep live call) ht k2 k3 k4 hf.2
      exact ⟨L, by simp [gtrack, k1, hL], r1, r2, r3⟩

/-! ### the objects of the system and the handles that are open -/

/-- distinct objects hold distinct handles -/
def Multi.Sep (s : Multi σ) : Prop := ∀ o1 o2 h, s.held o1 = some h → s.held o2 = some h → o1 = o2

/-- `live` lists, without repetition, exactly the handles the objects hold: nothing is open that no object holds
    (no leak), nothing is held that is not open (no stale handle) -/
def Multi.LiveIs (s : Multi σ) (live : List Handle) : Prop :=
  live.Nodup ∧ ∀ h, h ∈ live ↔ ∃ o, s.held o = some h

/-- a system in which no object is open (e.g. before the first operation) -/
theorem Multi.closed_start (s : Multi σ) (h : ∀ o, s.held o = none) : s.Sep ∧ s.LiveIs [] := by
  refine ⟨fun o1 _ x h1 _ => by simp [h o1] at h1, List.nodup_nil, fun x => ?_⟩
  simp [h]

theorem held_of_all_none (s : Multi σ) (h : ∀ p ∈ s.objs, p.2 = none) (o : Nat) : s.held o = none := by
  simp only [Multi.held]
  generalize s.objs = l at h
  induction l with
  | nil => rfl
  | cons p rest ih =>
    obtain ⟨k, v⟩ := p
    simp only [lookup]
    by_cases hk : k = o
    · simp only [hk, if_true]; exact h (k, v) (by simp)
    · simp only [hk, if_false]; exact ih (fun q hq => h q (by simp [hq]))

/-- `GTracks s s'`: from `s` to `s'` the log was continued so that — whenever `s` was separated with exactly the handles
    `live` open, and stdio handed out no handle that was still open — the continuation is accepted by the automaton over
    handles, and `s'` is separated again with exactly the resulting handles open -/
def GTracks (s s' : Multi σ) : Prop :=
  ∃ suf, s'.log = s.log ++ suf ∧ ∀ live, s.Sep → s.LiveIs live → freshCalls live (untag suf) = true →
    ∃ L, gtrack live (untag suf) = some L ∧ s'.Sep ∧ s'.LiveIs L

theorem untag_append (a b : List (Nat × Call)) : untag (a ++ b) = untag a ++ untag b := by simp [untag]

theorem untag_tag (o : Nat) (cs : List Call) : untag (cs.map (fun c => (o, c))) = cs := by
  simp [untag, Function.comp_def]

theorem GTracks.refl (s : Multi σ) : GTracks s s :=
  ⟨[], by simp, fun live h1 h2 _ => ⟨live, rfl, h1, h2⟩⟩

theorem GTracks.trans {a b c : Multi σ} (h1 : GTracks a b) (h2 : GTracks b c) : GTracks a c := by
  obtain ⟨s1, l1, t1⟩ := h1
  obtain ⟨s2, l2, t2⟩ := h2
  refine ⟨s1 ++ s2, by rw [l2, l1, List.append_assoc], ?_⟩
  intro live hs hl hf
  rw [untag_append] at hf ⊢
  -- the first part is fresh, so it is accepted; then the second part is fresh from where the first ended
  have hf1 : freshCalls live (untag s1) = true := by
    -- freshness of a prefix does not depend on acceptance
    have : ∀ (x y : List Call) (lv : List Handle), freshCalls lv (x ++ y) = true → freshCalls lv x = true := by
      intro x
      induction x with
      | nil => intros; rfl
      | cons c x ih =>
        intro y lv h
        simp only [List.cons_append, freshCalls, Bool.and_eq_true] at h ⊢
        exact ⟨h.1, ih y _ h.2⟩
    exact this _ _ _ hf
  obtain ⟨L1, g1, sb, lb⟩ := t1 live hs hl hf1
  have hf2 : freshCalls L1 (untag s2) = true := by
    rw [freshCalls_append_of _ g1, Bool.and_eq_true] at hf
    exact hf.2
  obtain ⟨L2, g2, sc, lc⟩ := t2 L1 sb lb hf2
  exact ⟨L2, gtrack_append_of g1 g2, sc, lc⟩

/-- one step that does not copy an open File: the handles stay separated and accounted for -/
theorem GTracks.step (s : Multi σ) (o : Nat) (m : MOp) (hc : s.copiesOpen o m = false) :
    GTracks s (s.step io Cfg.fixed o m) := by
  simp only [Multi.step]
  cases hs : s.stepR io Cfg.fixed o m with
  | none => exact GTracks.refl s
  | some p =>
    obtain ⟨r, keep⟩ := p
    refine ⟨r.calls.map (fun c => (o, c)), by simp [Multi.apply], ?_⟩
    intro live hsep hlive hf
    rw [untag_tag] at hf ⊢
    have ht := stepR_track io s o m r keep hs hc
    have hself : (s.apply o r keep).held o = (if keep then r.f else none) := held_apply_self s o r keep
    have hother : ∀ o', o' ≠ o → (s.apply o r keep).held o' = s.held o' := fun o' h => held_apply_ne s o' o h r keep
    obtain ⟨L, g, nd, hm, hp⟩ := track_gtrack (fun x => ∃ o', o' ≠ o ∧ s.held o' = some x) r.calls (s.held o)
      (if keep then r.f else none) live ht hlive.1
      (by
        intro x
        rw [hlive.2 x]
        constructor
        · rintro ⟨o', ho'⟩
          by_cases e : o' = o
          · exact Or.inl (e ▸ ho')
          · exact Or.inr ⟨o', e, ho'⟩
        · rintro (h0 | ⟨o', _, ho'⟩)
          · exact ⟨o, h0⟩
          · exact ⟨o', ho'⟩)
      (by
        rintro h h0 ⟨o', hne, ho'⟩
        exact hne (hsep o' o h ho' h0))
      hf
    refine ⟨L, g, ?_, nd, ?_⟩
    · intro o1 o2 h h1 h2
      by_cases e1 : o1 = o <;> by_cases e2 : o2 = o
      · rw [e1, e2]
      · subst e1; rw [hself] at h1; rw [hother o2 e2] at h2
        exact absurd ⟨o2, e2, h2⟩ (hp h h1)
      · subst e2; rw [hself] at h2; rw [hother o1 e1] at h1
        exact absurd ⟨o1, e1, h1⟩ (hp h h2)
      · rw [hother o1 e1] at h1; rw [hother o2 e2] at h2; exact hsep o1 o2 h h1 h2
    · intro x
      rw [hm x]
      constructor
      · rintro (h0 | ⟨o', hne, ho'⟩)
        · exact ⟨o, by rw [hself]; exact h0⟩
        · exact ⟨o', by rw [hother o' hne]; exact ho'⟩
      · rintro ⟨o', ho'⟩
        by_cases e : o' = o
        · subst e; rw [hself] at ho'; exact Or.inl ho'
        · rw [hother o' e] at ho'; exact Or.inr ⟨o', e, ho'⟩

/-- a history that never copies an open File -/
theorem Multi.run_gtracks (s : Multi σ) (steps : List (Nat × MOp)) (hc : s.cleanRun io Cfg.fixed steps = true) :
    GTracks s (s.run io Cfg.fixed steps) := by
  induction steps generalizing s with
  | nil => exact GTracks.refl s
  | cons st rest ih =>
    obtain ⟨o, m⟩ := st
    simp only [Multi.cleanRun, Bool.and_eq_true, Bool.not_eq_true'] at hc
    simp only [Multi.run]
    exact (GTracks.step io s o m hc.1).trans (ih _ hc.2)

theorem gtracksRel : StepRel io (GTracks (σ := σ)) :=
  ⟨GTracks.refl, fun h1 h2 => h1.trans h2, GTracks.step io⟩

/-- a program with `with` blocks that never copies an open File -/
theorem execList_gtracks (w : WithCfg) (p : List Stmt) (s : WSys σ) (hc : cleanList io Cfg.fixed w p s = true) :
    GTracks s.m (execList io Cfg.fixed w p s).m := execList_rel io (gtracksRel io) w p s hc

/-- the suffix by which a log was continued is determined by the two logs -/
theorem suffix_unique {α : Type} {a b c : List α} {x : List α} (h1 : x = a ++ b) (h2 : x = a ++ c) : b = c :=
  List.append_cancel_left (h1.symm.trans h2)

end Cello.File
