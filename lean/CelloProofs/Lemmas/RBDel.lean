/-
  Lemmas/RBDel.lean — `Tree_Rem_Fix` / `Tree_Rem` keep the red-black invariants and never dereference NULL.

  `Tree_Rem_Fix(node)` is entered when the position of `node` is about to lose one unit of black height: the context
  expects a subtree of black height `n+1` there and will get one of height `n`.  It returns a context that expects `n`.
-/
import CelloProofs.Lemmas.RBBal

namespace Cello.RB
variable {α β : Type}

/-- what `Tree_Rem_Fix` establishes: a well-formed context for a hole of black height `n` whose nearest parent is black -/
def FixOK (p : Path α β) (n : Nat) : Prop := PathBal p n ∧ PathRR p ∧ (p = [] ∨ headB p)

theorem bh_pos_black {t : T α β} {n : Nat} (hb : bh t = n + 1) (hc : color t = .B) :
    ∃ l k v r, t = .node .B l k v r := by
  cases t with
  | nil => simp at hb
  | node c l k v r => simp at hc; subst hc; exact ⟨l, k, v, r, rfl⟩

/-- the near-nephew rotation: afterwards the sibling is black, has the same black height, and its far child is red -/
theorem remCase5_valid (d : Dir) (sl : T α β) (sk : α) (sv : β) (sr : T α β)
    (hbal : Bal (.node .B sl sk sv sr)) (hl : RRt sl) (hr : RRt sr) (hnb : ¬ (color sl = .B ∧ color sr = .B)) :
    ∃ sl' sk' sv' sr', remCase5 d .B sl sk sv sr = some (.node .B sl' sk' sv' sr') ∧
      bh sl' = bh sl ∧ Bal (.node .B sl' sk' sv' sr') ∧ RRt sl' ∧ RRt sr' ∧
      (d = .L → color sr' = .R) ∧ (d = .Rt → color sl' = .R) := by
  unfold remCase5
  simp only [if_true]
  simp at hbal
  by_cases h1 : d = .L ∧ color sl = .R ∧ color sr = .B
  · rw [if_pos h1]
    obtain ⟨hd, hsl, hsr⟩ := h1
    cases sl with
    | nil => simp at hsl
    | node c a k2 v2 b =>
      simp at hsl; subst hsl
      simp at hl hbal
      refine ⟨a, k2, v2, _, rfl, ?_⟩
      simp_all
      omega
  · rw [if_neg h1]
    by_cases h2 : d = .Rt ∧ color sr = .R ∧ color sl = .B
    · rw [if_pos h2]
      obtain ⟨hd, hsr, hsl⟩ := h2
      cases sr with
      | nil => simp at hsr
      | node c a k2 v2 b =>
        simp at hsr; subst hsr
        simp at hr hbal
        refine ⟨_, k2, v2, b, rfl, ?_⟩
        simp_all
    · rw [if_neg h2]
      refine ⟨sl, sk, sv, sr, rfl, rfl, by simpa using hbal, hl, hr, ?_, ?_⟩
      · intro hd
        cases hcl : color sl <;> cases hcr : color sr <;> simp_all
      · intro hd
        cases hcl : color sl <;> cases hcr : color sr <;> simp_all

/-- the final rotation at the parent -/
theorem remCase6_valid (f : Frame α β) (rest : Path α β) (n : Nat) (sl : T α β) (sk : α) (sv : β) (sr : T α β)
    (hbl : bh sl = n) (hbal : Bal (.node .B sl sk sv sr)) (hl : RRt sl) (hr : RRt sr)
    (hfarL : f.dir = .L → color sr = .R) (hfarR : f.dir = .Rt → color sl = .R)
    (hrest : PathBal rest (n + 1 + cw f.c)) (hrr : PathRR rest) (hhead : f.c = .R → headB rest) :
    ∃ p', remCase6 f rest (.node .B sl sk sv sr) = some p' ∧ FixOK p' n := by
  unfold remCase6
  simp only
  simp at hbal
  cases hd : f.dir with
  | L =>
    have hred := hfarL hd
    cases sr with
    | nil => simp at hred
    | node c a k2 v2 b =>
      simp at hred; subst hred
      refine ⟨_, rfl, ?_, ?_, Or.inr (by simp)⟩
      · simp_all
      · simp_all
  | Rt =>
    have hred := hfarR hd
    cases sl with
    | nil => simp at hred
    | node c a k2 v2 b =>
      simp at hred; subst hred
      refine ⟨_, rfl, ?_, ?_, Or.inr (by simp)⟩
      · simp_all
        omega
      · simp_all

/-- one round of `Tree_Rem_Fix` when the sibling is black -/
theorem remFixBody_valid (f : Frame α β) (rest : Path α β) (up : Option (Path α β)) (n : Nat)
    (hb : PathBal (f :: rest) (n + 1)) (hr : PathRR (f :: rest)) (hsb : color f.sib = .B)
    (hup : f.c = .B → ∃ r', up = some r' ∧ FixOK r' (n + 1)) :
    ∃ p', remFixBody f rest up = some p' ∧ FixOK p' n := by
  simp at hb hr
  obtain ⟨hb1, hb2, hb3⟩ := hb
  obtain ⟨hr1, hr2, hr3⟩ := hr
  obtain ⟨sl, sk, sv, sr, hs⟩ := bh_pos_black hb1 hsb
  unfold remFixBody
  rw [hs]
  simp only
  rw [hs] at hb1 hb2 hr1
  simp at hb1 hb2 hr1
  by_cases h3 : f.c = .B ∧ True ∧ color sl = .B ∧ color sr = .B
  · rw [if_pos h3]
    obtain ⟨r', hr', g1, g2, g3⟩ := hup h3.1
    subst hr'
    refine ⟨_, rfl, ?_, ?_, Or.inr (by simp [h3.1])⟩
    · simp [h3.1]; refine ⟨by omega, ⟨by omega, hb2.2.1, hb2.2.2⟩, g1⟩
    · simp [h3.1, h3.2.2.1, h3.2.2.2, hr1, g2]
  · rw [if_neg h3]
    by_cases h4 : f.c = .R ∧ True ∧ color sl = .B ∧ color sr = .B
    · rw [if_pos h4]
      refine ⟨_, rfl, ?_, ?_, Or.inr (by simp)⟩
      · simp [h4.1] at hb3 ⊢; refine ⟨by omega, ⟨by omega, hb2.2.1, hb2.2.2⟩, hb3⟩
      · simp [h4.2.2.1, h4.2.2.2, hr1, hr3]
    · rw [if_neg h4]
      have hnb : ¬ (color sl = .B ∧ color sr = .B) := by
        intro hh
        cases hfc : f.c with
        | B => exact h3 ⟨hfc, trivial, hh⟩
        | R => exact h4 ⟨hfc, trivial, hh⟩
      obtain ⟨sl', sk', sv', sr', e5, q1, q2, q3, q4, q5, q6⟩ :=
        remCase5_valid f.dir sl sk sv sr (by simpa using hb2) hr1.1 hr1.2 hnb
      rw [e5]
      simp only
      exact remCase6_valid f rest n sl' sk' sv' sr' (by omega) q2 q3 q4 q5 q6 hb3 hr3 (fun h => (hr2 h).2)

/-- the red-sibling rotation gives a position whose parent is red and whose sibling is black, same expectations -/
theorem remCase2_valid (f : Frame α β) (rest : Path α β) (n : Nat)
    (hb : PathBal (f :: rest) (n + 1)) (hr : PathRR (f :: rest)) (hsr : color f.sib = .R) :
    PathBal ((remCase2 f rest).1 :: (remCase2 f rest).2) (n + 1) ∧
    PathRR ((remCase2 f rest).1 :: (remCase2 f rest).2) ∧
    color (remCase2 f rest).1.sib = .B ∧ (remCase2 f rest).1.c = .R := by
  simp at hb hr
  obtain ⟨hb1, hb2, hb3⟩ := hb
  obtain ⟨hr1, hr2, hr3⟩ := hr
  have hfc : f.c = .B := by
    cases h : f.c with
    | B => rfl
    | R => have := (hr2 h).1; rw [hsr] at this; cases this
  unfold remCase2
  cases hs : f.sib with
  | nil => rw [hs] at hsr; simp at hsr
  | node sc sl sk sv sr =>
    rw [hs] at hsr hb1 hb2 hr1
    simp at hsr; subst hsr
    simp at hb1 hb2 hr1
    rw [hfc] at hb3
    cases hd : f.dir <;> simp_all <;> omega

/-- `Tree_Rem_Fix`: from a context that expects black height `n+1` where only `n` will be delivered, to a context that
    expects `n` — never reading a NULL sibling or nephew -/
theorem remFix_valid (p : Path α β) (n : Nat) (hb : PathBal p (n + 1)) (hr : PathRR p) :
    ∃ p', remFix p = some p' ∧ FixOK p' n := by
  induction p generalizing n with
  | nil => exact ⟨[], rfl, trivial, trivial, Or.inl rfl⟩
  | cons f rest ih =>
    rw [remFix]
    by_cases hsr : color f.sib = .R
    · rw [if_pos hsr]
      obtain ⟨c1, c2, c3, c4⟩ := remCase2_valid f rest n hb hr hsr
      exact remFixBody_valid _ _ none n c1 c2 c3 (fun h => by rw [c4] at h; cases h)
    · rw [if_neg hsr]
      refine remFixBody_valid f rest _ n hb hr (Color.ne_R.mp hsr) (fun hfc => ?_)
      simp [hfc] at hb hr
      exact ih (n + 1) hb.2.2 hr.2

/-! ### Tree_Rem -/

theorem maxLoc_append (t : T α β) (p q : Path α β) :
    maxLoc t (p ++ q) = (maxLoc t p).map (fun x => { x with path := x.path ++ q }) := by
  induction t generalizing p with
  | nil => rfl
  | node c l k v r ihl ihr =>
    unfold maxLoc
    split
    · rfl
    · rw [← List.cons_append, ihr]

theorem maxLoc_zip (t : T α β) (p : Path α β) (x : Loc α β) (hz : ZipOK t p) (h : maxLoc t p = some x) :
    ZipOK x.tree x.path := by
  induction t generalizing p with
  | nil => simp [maxLoc] at h
  | node c l k v r ihl ihr =>
    unfold maxLoc at h
    split at h
    · simp at h; subst h; exact hz
    · exact ihr _ hz.right h

theorem validT_setColor_B (t : T α β) (hb : Bal t) (hr : RRt t) : ValidT (setColor .B t) :=
  ⟨color_setColor_B t, RRt_setColor_B t hr, by rw [Bal_setColor]; exact hb⟩

/-- unlinking a node with at most one child from a well-formed position: no NULL dereference, red-black tree again -/
theorem spliceOut_valid (x : Loc α β) (hz : ZipOK x.tree x.path) :
    ∃ t', spliceOut x = some t' ∧ ValidT t' := by
  obtain ⟨hb, hr, hpb, hpr, htop⟩ := hz
  simp [Loc.tree] at hb hr hpb htop
  have hch : bh x.child = bh x.l ∧ Bal x.child ∧ RRt x.child ∧ (x.c = .R → color x.child = .B) := by
    unfold Loc.child
    split
    · exact ⟨rfl, hb.2.1, hr.2.1, fun h => (hr.1 h).1⟩
    · rename_i hxr
      exact ⟨hb.1.symm, hb.2.2, hr.2.2, fun h => (hr.1 h).2⟩
  obtain ⟨c1, c2, c3, c4⟩ := hch
  unfold spliceOut
  simp only
  cases hc : x.c with
  | R =>
    simp only [reduceCtorEq, if_false]
    rw [hc] at hpb; simp at hpb
    cases hp : x.path with
    | nil => exact ⟨_, rfl, validT_setColor_B _ c2 c3⟩
    | cons f rest =>
      refine ⟨_, rfl, plug_valid _ _ c2 c3 ?_ ?_ ?_⟩
      · rw [c1, ← hp]; exact hpb
      · rw [← hp]; exact hpr
      · intro h; rw [c4 hc] at h; cases h
  | B =>
    simp only [if_true]
    rw [hc] at hpb; simp at hpb
    obtain ⟨p', e, f1, f2, f3⟩ := remFix_valid x.path (bh x.l) hpb hpr
    rw [e]
    cases p' with
    | nil => exact ⟨_, rfl, validT_setColor_B _ c2 c3⟩
    | cons f rest =>
      refine ⟨_, rfl, plug_valid _ _ c2 c3 (by rw [c1]; exact f1) f2 ?_⟩
      intro _
      rcases f3 with f3 | f3
      · cases f3
      · exact f3

theorem zipOK_rekey {c : Color} {l : T α β} {k : α} {v : β} {r : T α β} {p : Path α β} (k' : α) (v' : β)
    (h : ZipOK (.node c l k v r) p) : ZipOK (.node c l k' v' r) p :=
  ⟨h.bal, h.rr, h.pbal, h.prr, h.top⟩

/-- `Tree_Rem` at the node found -/
theorem remHere_valid (c : Color) (l : T α β) (nk : α) (nv : β) (r : T α β) (p : Path α β)
    (hz : ZipOK (.node c l nk nv r) p) : ∃ t', remHereA c l nk nv r p = some t' ∧ ValidT t' := by
  unfold remHereA
  split
  · rename_i lc ll lk lv lr rc rl rk rv rr
    obtain ⟨pr, hpr⟩ : ∃ pr, maxLoc (T.node lc ll lk lv lr) ([] : Path α β) = some pr := by
      cases h : maxLoc (T.node lc ll lk lv lr) ([] : Path α β) with
      | some pr => exact ⟨pr, rfl⟩
      | none =>
        exfalso
        have : ∀ (t : T α β) (q : Path α β), t ≠ .nil → maxLoc t q ≠ none := by
          intro t
          induction t with
          | nil => intro _ h; exact absurd rfl h
          | node c l k v r ihl ihr =>
            intro q _
            unfold maxLoc
            split
            · simp
            · exact ihr _ (by simp)
        exact this _ _ (by simp) h
    rw [hpr]
    simp only
    have hl := (zipOK_rekey pr.k pr.v hz).left
    have happ := maxLoc_append (T.node lc ll lk lv lr) []
      ({ dir := .L, c := c, k := pr.k, v := pr.v, sib := T.node rc rl rk rv rr } :: p)
    rw [hpr] at happ
    simp only [List.nil_append, Option.map_some] at happ
    have hzz := maxLoc_zip _ _ _ hl happ
    exact spliceOut_valid _ hzz
  · exact spliceOut_valid ⟨c, l, nk, nv, r, p⟩ hz

/-- `Tree_Rem` from a well-formed position: it never dereferences NULL, and what it returns is a red-black tree -/
theorem remAt_valid (cmp : α → α → Ordering) (t : T α β) (p : Path α β) (k : α) (hz : ZipOK t p) :
    ∃ r, remAtA cmp t p k = some r ∧ ∀ t', r = some t' → ValidT t' := by
  induction t generalizing p with
  | nil => exact ⟨none, rfl, fun _ h => by cases h⟩
  | node c l nk nv r ihl ihr =>
    simp only [remAtA]
    cases cmp nk k with
    | eq =>
      obtain ⟨t', e, hv⟩ := remHere_valid c l nk nv r p hz
      exact ⟨some t', by simp [e], fun t'' h => by cases h; exact hv⟩
    | lt => exact ihl _ hz.left
    | gt => exact ihr _ hz.right

end Cello.RB
