/-
  C04 helper lemmas: one step of the Array model against the abstract step; observations; capacity.
-/
import CelloProofs.Lemmas.SeqBasic
import CelloProofs.Lemmas.SortPerm

namespace Cello.Seq
variable {α : Type}

namespace Arr

/-- the push loop of `Array_Assign` from an iterator-only source (and of any `foreach … push`): contents -/
theorem foldl_push_items (ys : List α) : ∀ (a : Arr α),
    (ys.foldl (fun a y => (a.push y).1) a).items = a.items ++ ys := by
  induction ys with
  | nil => intro a; simp
  | cons y ys ih => intro a; rw [List.foldl_cons, ih]; simp [push]

theorem step_refines [BEq α] (a : Arr α) (op : Op α) (l' : List α)
    (h : Spec.arrStep a.items op = some l') : (a.step op).2 = .ok () ∧ (a.step op).1.items = l' := by
  cases op with
  | push x => simp [Spec.arrStep] at h; simp [step, push, h]
  | append x => simp [Spec.arrStep] at h; simp [step, push, h]
  | pop =>
    simp only [Spec.arrStep] at h
    split at h
    · cases h
    · rename_i hne
      cases h
      have : a.nitems ≠ 0 := by simpa [nitems, List.isEmpty_iff] using hne
      simp [step, pop, this]
  | pushAt x i =>
    simp only [Spec.arrStep, Option.map_eq_some_iff] at h
    obtain ⟨k, hk, rfl⟩ := h
    obtain ⟨h1, h2, h3⟩ := arrInsIdx_some _ _ _ hk
    have h1' : ¬ (pushIdx a.nitems i < 0 ∨ pushIdx a.nitems i > (a.nitems : Int)) := h1
    have h2' : (pushIdx a.nitems i).toNat = k := h2
    simp only [step, pushAt]
    rw [if_neg h1']
    simp [h2', take_cons_drop_eq_insertIdx _ _ _ h3]
  | popAt i =>
    simp only [Spec.arrStep, Option.map_eq_some_iff] at h
    obtain ⟨k, hk, rfl⟩ := h
    obtain ⟨h1, h2, _⟩ := idx_some _ _ _ hk
    have h1' : ¬ (normIdx a.nitems i < 0 ∨ normIdx a.nitems i ≥ (a.nitems : Int)) := h1
    have h2' : (normIdx a.nitems i).toNat = k := h2
    simp only [step, popAt]
    rw [if_neg h1']
    simp [h2', take_drop_succ_eq_eraseIdx]
  | set i x =>
    simp only [Spec.arrStep, Option.map_eq_some_iff] at h
    obtain ⟨k, hk, rfl⟩ := h
    obtain ⟨h1, h2, _⟩ := idx_some _ _ _ hk
    have h1' : ¬ (normIdx a.nitems i < 0 ∨ normIdx a.nitems i ≥ (a.nitems : Int)) := h1
    have h2' : (normIdx a.nitems i).toNat = k := h2
    simp only [step, set]
    rw [if_neg h1']
    simp [h2']
  | rem x =>
    simp only [Spec.arrStep] at h
    by_cases hm0 : Spec.mem a.items x = true
    · rw [if_pos hm0] at h
      have hm : a.items.any (· == x) = true := hm0
      cases h
      simp only [step, rem]
      cases hf : a.items.findIdx? (· == x) with
      | none => rw [(findIdx?_none_any _ _).1 hf] at hm; cases hm
      | some i =>
        obtain ⟨hi, he⟩ := findIdx?_erase _ _ _ hf
        have hn : normIdx a.nitems (i : Int) = (i : Int) := by
          unfold normIdx; rw [if_neg (by omega)]
        have hlen : a.nitems = a.items.length := rfl
        simp only [popAt, hn]
        rw [if_neg (by omega)]
        simp [take_drop_succ_eq_eraseIdx, he]
    · rw [if_neg hm0] at h; cases h
  | concat ys => simp [Spec.arrStep] at h; simp [step, concat, h]
  | resize n =>
    simp [Spec.arrStep] at h
    simp only [step, resize]
    split
    · subst h; simp_all [clear]
    · simp [h]
  | sort f => simp [Spec.arrStep] at h; simp [step, sortBy, h]
  | assign ys b =>
    simp [Spec.arrStep] at h; subst h
    cases b <;> simp [step, assign, foldl_push_items, clear]

/-- an argument that is out of range for the abstract operation raises and leaves the Array as it was -/
theorem step_out_of_range [BEq α] (a : Arr α) (op : Op α) (h : Spec.arrStep a.items op = none) :
    (a.step op).1 = a ∧ ∃ e, (a.step op).2 = .raised e := by
  cases op with
  | push x => simp [Spec.arrStep] at h
  | append x => simp [Spec.arrStep] at h
  | pop =>
    simp only [Spec.arrStep] at h
    split at h
    · rename_i he
      have : a.nitems = 0 := by simpa [nitems, List.isEmpty_iff] using he
      simp [step, pop, this]
    · cases h
  | pushAt x i =>
    simp only [Spec.arrStep, Option.map_eq_none_iff] at h
    have hc : pushIdx a.nitems i < 0 ∨ pushIdx a.nitems i > (a.nitems : Int) := arrInsIdx_none _ _ h
    simp only [step, pushAt]
    rw [if_pos hc]; simp
  | popAt i =>
    simp only [Spec.arrStep, Option.map_eq_none_iff] at h
    have hc : normIdx a.nitems i < 0 ∨ normIdx a.nitems i ≥ (a.nitems : Int) := idx_none _ _ h
    simp only [step, popAt]
    rw [if_pos hc]; simp
  | set i x =>
    simp only [Spec.arrStep, Option.map_eq_none_iff] at h
    have hc : normIdx a.nitems i < 0 ∨ normIdx a.nitems i ≥ (a.nitems : Int) := idx_none _ _ h
    simp only [step, set]
    rw [if_pos hc]; simp
  | rem x =>
    simp only [Spec.arrStep] at h
    by_cases hm0 : Spec.mem a.items x = true
    · rw [if_pos hm0] at h; cases h
    · have hm' : a.items.any (· == x) = false := by simpa [Spec.mem] using hm0
      simp [step, rem, (findIdx?_none_any _ _).2 hm']
  | concat ys => simp [Spec.arrStep] at h
  | resize n => simp [Spec.arrStep] at h
  | sort f => simp [Spec.arrStep] at h
  | assign ys b => simp [Spec.arrStep] at h

/-- get with positive and negative indices -/
theorem get_eq (a : Arr α) (i : Int) :
    a.get i = match Spec.get a.items i with
      | some x => .ok x
      | none => .raised .indexOutOfBounds := by
  unfold get Spec.get
  cases hk : Spec.idx a.items.length i with
  | none =>
    have hc : normIdx a.nitems i < 0 ∨ normIdx a.nitems i ≥ (a.nitems : Int) := idx_none _ _ hk
    simp only [Option.bind_none]
    rw [if_pos hc]
  | some k =>
    obtain ⟨h1, h2, h3⟩ := idx_some _ _ _ hk
    have h1' : ¬ (normIdx a.nitems i < 0 ∨ normIdx a.nitems i ≥ (a.nitems : Int)) := h1
    have h2' : (normIdx a.nitems i).toNat = k := h2
    simp only [Option.bind_some]
    rw [if_neg h1', h2']
    simp [List.getElem?_eq_getElem h3]

theorem iterFwd_eq (a : Arr α) : a.iterFwd = some a.items := by
  unfold iterFwd iterInit nitems
  by_cases h0 : a.items.length = 0
  · simp [h0, collect_none, List.eq_nil_of_length_eq_zero h0]
  · simp only [h0, if_false]
    have := collect_fwd a.items a.iterNext (by
      intro k hk; unfold iterNext nitems
      by_cases h : k + 1 < a.items.length
      · rw [if_neg (by omega), if_pos h]
      · rw [if_pos (by omega), if_neg h]) (a.items.length + 1) 0 (by omega) (by omega)
    simpa using this

theorem iterBwd_eq (a : Arr α) : a.iterBwd = some a.items.reverse := by
  unfold iterBwd iterLast nitems
  by_cases h0 : a.items.length = 0
  · simp [h0, collect_none, List.eq_nil_of_length_eq_zero h0]
  · simp only [h0, if_false]
    have := collect_bwd a.items a.iterPrev (by
      intro k; unfold iterPrev
      by_cases h : k = 0
      · simp [h]
      · rw [if_neg (by omega), if_neg h]) (a.items.length + 1) (a.items.length - 1) (by omega) (by omega)
    rw [this]
    have : a.items.length - 1 + 1 = a.items.length := by omega
    simp [this]

/-! capacity -/

/-- the capacity invariant: no element record lies outside the backing store -/
def CapOk (a : Arr α) : Prop := a.items.length ≤ a.nslots

theorem reserveMore_ge (n s : Nat) : n ≤ reserveMore n s := by unfold reserveMore; split <;> omega
theorem reserveLess_ge (n s : Nat) (h : n ≤ s) : n ≤ reserveLess n s := by unfold reserveLess; split <;> omega

theorem popAt_capOk (a : Arr α) (i : Int) (h : a.CapOk) : (a.popAt i).1.CapOk := by
  unfold CapOk at *
  have hlen : a.nitems = a.items.length := rfl
  simp only [popAt]
  by_cases hc : normIdx a.nitems i < 0 ∨ normIdx a.nitems i ≥ (a.nitems : Int)
  · rw [if_pos hc]; exact h
  · rw [if_neg hc]
    have := reserveLess_ge (a.nitems - 1) a.nslots (by omega)
    simp only [List.length_append, List.length_take, List.length_drop]
    omega

theorem foldl_push_capOk (ys : List α) : ∀ (a : Arr α), a.CapOk →
    (ys.foldl (fun a y => (a.push y).1) a).CapOk := by
  induction ys with
  | nil => intro a h; exact h
  | cons y ys ih =>
    intro a _
    rw [List.foldl_cons]
    apply ih
    unfold CapOk
    simpa [push, nitems] using reserveMore_ge (a.items.length + 1) a.nslots

theorem step_capOk [BEq α] (a : Arr α) (op : Op α) (h : a.CapOk) : (a.step op).1.CapOk := by
  have hlen : a.nitems = a.items.length := rfl
  cases op with
  | push x => unfold CapOk; simpa [step, push, nitems] using reserveMore_ge (a.items.length + 1) a.nslots
  | append x => unfold CapOk; simpa [step, push, nitems] using reserveMore_ge (a.items.length + 1) a.nslots
  | pop =>
    unfold CapOk at *
    simp only [step, pop]
    by_cases hc : a.nitems = 0
    · rw [if_pos hc]; exact h
    · rw [if_neg hc]
      have := reserveLess_ge (a.nitems - 1) a.nslots (by omega)
      simp only [List.length_dropLast]
      omega
  | pushAt x i =>
    unfold CapOk at *
    simp only [step, pushAt]
    by_cases hc : pushIdx a.nitems i < 0 ∨ pushIdx a.nitems i > (a.nitems : Int)
    · rw [if_pos hc]; exact h
    · rw [if_neg hc]
      have := reserveMore_ge (a.nitems + 1) a.nslots
      simp only [List.length_append, List.length_take, List.length_cons, List.length_drop]
      omega
  | popAt i => exact popAt_capOk a i h
  | set i x =>
    unfold CapOk at *
    simp only [step, set]
    by_cases hc : normIdx a.nitems i < 0 ∨ normIdx a.nitems i ≥ (a.nitems : Int)
    · rw [if_pos hc]; exact h
    · rw [if_neg hc]; simpa using h
  | rem x =>
    simp only [step, rem]
    split
    · exact popAt_capOk a _ h
    · exact h
  | concat ys => unfold CapOk; simpa [step, concat, nitems] using reserveMore_ge (a.items.length + ys.length) a.nslots
  | resize n =>
    unfold CapOk at *
    simp only [step, resize]
    by_cases hc : n = 0
    · rw [if_pos hc]; simp [clear]
    · rw [if_neg hc]; simp only [List.length_take]; omega
  | sort f =>
    unfold CapOk at *
    simp only [step, sortBy, Sort.sortList_length]
    exact h
  | assign ys b =>
    cases b
    · simp only [step, assign, Bool.false_eq_true, if_false]
      exact foldl_push_capOk ys _ (by simp [CapOk, clear])
    · unfold CapOk; simp [step, assign]

end Arr
end Cello.Seq
