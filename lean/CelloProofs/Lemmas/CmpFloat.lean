/-
  Helper lemmas for C09, part 4: IEEE-754 binary64 at the level of (sign, exponent, mantissa).

    fval_lt_iff_fkey_lt   the order of the VALUES `(-1)^s · (2^52·[e≠0] + m) · 2^(max e 1 - 1)` is the sign-magnitude order of the bits
    rounding_trunc        round-toward-zero (an actual IEEE rounding direction) is a `Rounding`
    rounding_sign         so is `signRound` (what the driver runs)
    subSign_rounded       subtraction = "round the exact difference" under any `Rounding` has the sign of the exact difference,
                          and is zero only for equal values: `SubSign (roundedOps rnd)`
-/
import Cello.Cmp
import CelloGen.Cmp
import CelloProofs.Lemmas.Cmp
import CelloProofs.Lemmas.CmpVal

set_option linter.unusedSimpArgs false
set_option linter.unusedVariables false

namespace Cello.Cmp
open CelloGen.Cmp (FloatOps)

/-! ### the three fields as arithmetic on `toNat` -/

theorem fMant_eq (b : UInt64) : fMant b = b.toNat % 4503599627370496 := by
  unfold fMant
  rw [UInt64.toNat_and]
  exact Nat.and_two_pow_sub_one_eq_mod b.toNat 52

theorem fExp_eq (b : UInt64) : fExp b = b.toNat / 4503599627370496 % 2048 := by
  unfold fExp
  rw [UInt64.toNat_and, UInt64.toNat_shiftRight]
  have h : (0x7ff : UInt64).toNat = 2 ^ 11 - 1 := by decide
  have h52 : (52 : UInt64).toNat % 64 = 52 := by decide
  rw [h, h52, Nat.and_two_pow_sub_one_eq_mod, Nat.shiftRight_eq_div_pow]

theorem fNeg_iff (b : UInt64) : fNeg b = true ↔ 9223372036854775808 ≤ b.toNat := by
  unfold fNeg
  rw [decide_eq_true_eq]
  show (0x8000000000000000 : UInt64) ≤ b ↔ _
  rw [UInt64.le_iff_toNat_le]; rfl

theorem low63_eq (b : UInt64) : (b &&& 0x7fffffffffffffff).toNat = b.toNat % 9223372036854775808 := by
  rw [UInt64.toNat_and]
  exact Nat.and_two_pow_sub_one_eq_mod b.toNat 63

theorem fIsNaN_iff (b : UInt64) : fIsNaN b = false ↔ b.toNat % 9223372036854775808 ≤ 9218868437227405312 := by
  unfold fIsNaN
  rw [decide_eq_false_iff_not]
  show ¬ ((0x7ff0000000000000 : UInt64) < (b &&& 0x7fffffffffffffff)) ↔ _
  rw [UInt64.lt_iff_toNat_lt, low63_eq]
  have : (0x7ff0000000000000 : UInt64).toNat = 9218868437227405312 := by decide
  rw [this]; omega

theorem fIsInf_iff (b : UInt64) : fIsInf b = true ↔ b.toNat % 9223372036854775808 = 9218868437227405312 := by
  unfold fIsInf
  rw [beq_iff_eq, ← UInt64.toNat_inj, low63_eq]
  have : (0x7ff0000000000000 : UInt64).toNat = 9218868437227405312 := by decide
  rw [this]

/-- the low 63 bits are exponent and mantissa side by side -/
theorem mag_fields (b : UInt64) :
    b.toNat % 9223372036854775808 = fExp b * 4503599627370496 + fMant b ∧ fMant b < 4503599627370496 := by
  rw [fExp_eq, fMant_eq]; omega

/-! ### the magnitude formula is strictly monotone in (exponent, mantissa) -/

theorem two_pow_pos (n : Nat) : 0 < 2 ^ n := Nat.pow_pos (by decide)

theorem fmagOf_lt {e m e' m' : Nat} (hm : m < 4503599627370496) (hm' : m' < 4503599627370496)
    (h : e * 4503599627370496 + m < e' * 4503599627370496 + m') : fmagOf e m < fmagOf e' m' := by
  unfold fmagOf
  by_cases he : e = e'
  · subst he
    have hmm : m < m' := by omega
    by_cases h0 : e = 0
    · simp [h0]; exact hmm
    · simp only [h0, if_false]
      exact Nat.mul_lt_mul_of_pos_right (by omega) (two_pow_pos _)
  · have hlt : e < e' := by
      rcases Nat.lt_or_gt_of_ne he with h1 | h1
      · exact h1
      · exfalso
        have : (e' + 1) * 4503599627370496 ≤ e * 4503599627370496 := Nat.mul_le_mul_right _ h1
        rw [Nat.add_mul] at this; omega
    have he' : ¬ e' = 0 := by omega
    simp only [he', if_false]
    have hp1 : 1 ≤ 2 ^ (e' - 1) := two_pow_pos _
    by_cases h0 : e = 0
    · simp only [h0, if_true]
      calc m < 4503599627370496 + m' := by omega
        _ = (4503599627370496 + m') * 1 := by omega
        _ ≤ (4503599627370496 + m') * 2 ^ (e' - 1) := Nat.mul_le_mul_left _ hp1
    · simp only [h0, if_false]
      -- (2^52 + m) 2^(e-1) < 2^53 2^(e-1) = 2^52 2^e ≤ 2^52 2^(e'-1) ≤ (2^52 + m') 2^(e'-1)
      have hpe : 2 ^ e = 2 * 2 ^ (e - 1) := by
        have : e = (e - 1) + 1 := by omega
        conv => lhs; rw [this, Nat.pow_succ]
        omega
      have hmono : 2 ^ e ≤ 2 ^ (e' - 1) := Nat.pow_le_pow_right (by decide) (by omega)
      calc (4503599627370496 + m) * 2 ^ (e - 1)
          < 9007199254740992 * 2 ^ (e - 1) := Nat.mul_lt_mul_of_pos_right (by omega) (two_pow_pos _)
        _ = 4503599627370496 * 2 ^ e := by rw [hpe]; omega
        _ ≤ 4503599627370496 * 2 ^ (e' - 1) := Nat.mul_le_mul_left _ hmono
        _ ≤ (4503599627370496 + m') * 2 ^ (e' - 1) := Nat.mul_le_mul_right _ (by omega)

/-- … hence the magnitudes of two bit patterns are ordered as their low 63 bits are -/
theorem fmag_lt_iff (a b : UInt64) :
    fmag a < fmag b ↔ a.toNat % 9223372036854775808 < b.toNat % 9223372036854775808 := by
  obtain ⟨ha, hma⟩ := mag_fields a
  obtain ⟨hb, hmb⟩ := mag_fields b
  unfold fmag
  constructor
  · intro h
    rcases Nat.lt_trichotomy (a.toNat % 9223372036854775808) (b.toNat % 9223372036854775808) with h1 | h1 | h1
    · exact h1
    · exfalso
      have e : fExp a * 4503599627370496 + fMant a = fExp b * 4503599627370496 + fMant b := by omega
      have e1 : fExp a = fExp b := by omega
      have e2 : fMant a = fMant b := by omega
      rw [e1, e2] at h; omega
    · exfalso
      have := fmagOf_lt hmb hma (by omega : fExp b * 4503599627370496 + fMant b < fExp a * 4503599627370496 + fMant a)
      omega
  · intro h
    exact fmagOf_lt hma hmb (by omega)

theorem fmag_eq_iff (a b : UInt64) :
    fmag a = fmag b ↔ a.toNat % 9223372036854775808 = b.toNat % 9223372036854775808 := by
  have h1 := fmag_lt_iff a b
  have h2 := fmag_lt_iff b a
  omega

theorem fmag_zero : fmag 0 = 0 := by decide

theorem fmag_eq_zero_iff (a : UInt64) : fmag a = 0 ↔ a.toNat % 9223372036854775808 = 0 := by
  have := fmag_eq_iff a 0
  rw [fmag_zero] at this
  simpa using this

theorem fval_eq (b : UInt64) :
    fval b = if 9223372036854775808 ≤ b.toNat then -((fmag b : Nat) : Int) else ((fmag b : Nat) : Int) := by
  unfold fval
  by_cases h : 9223372036854775808 ≤ b.toNat
  · rw [if_pos ((fNeg_iff b).2 h), if_pos h]
  · have : ¬ fNeg b = true := fun q => h ((fNeg_iff b).1 q)
    rw [if_neg this, if_neg h]

/-- **the numeric order of the values is the sign-magnitude order of the bit patterns** (no hypothesis: the formula is
    monotone over all 2^64 patterns; for NaN patterns `fval` is a number without meaning) -/
theorem fval_lt_iff_fkey_lt (a b : UInt64) : fval a < fval b ↔ fkey a < fkey b := by
  have l1 := fmag_lt_iff a b
  have l2 := fmag_lt_iff b a
  have z1 := fmag_eq_zero_iff a
  have z2 := fmag_eq_zero_iff b
  rw [fval_eq a, fval_eq b, fkey_eq a, fkey_eq b]
  split <;> split <;> omega

theorem fval_eq_iff_fkey_eq (a b : UInt64) : fval a = fval b ↔ fkey a = fkey b := by
  have h1 := fval_lt_iff_fkey_lt a b
  have h2 := fval_lt_iff_fkey_lt b a
  omega

theorem fval_zero : fval 0 = 0 := by decide

theorem fval_pos_iff (a : UInt64) : 0 < fval a ↔ 0 < fkey a := by
  have := fval_lt_iff_fkey_lt 0 a
  rw [fval_zero, fkey_zero] at this; exact this

theorem fval_neg_iff (a : UInt64) : fval a < 0 ↔ fkey a < 0 := by
  have := fval_lt_iff_fkey_lt a 0
  rw [fval_zero, fkey_zero] at this; exact this

/-- numerically equal non-NaN doubles are the same bit pattern, or both are zeros -/
theorem fval_eq_iff_bits (a b : UInt64) :
    fval a = fval b ↔ (a = b ∨ (fval a = 0 ∧ fval b = 0)) := by
  rw [fval_eq_iff_fkey_eq]
  constructor
  · intro h
    by_cases hz : fkey a = 0
    · right
      have ha : fval a = fval 0 := (fval_eq_iff_fkey_eq a 0).2 (by rw [hz, fkey_zero])
      have hb : fval b = fval 0 := (fval_eq_iff_fkey_eq b 0).2 (by rw [← h, hz, fkey_zero])
      rw [fval_zero] at ha hb; exact ⟨ha, hb⟩
    · left; exact fkey_inj h hz
  · rintro (rfl | ⟨h1, h2⟩)
    · rfl
    · have ha : fkey a = fkey 0 := (fval_eq_iff_fkey_eq a 0).1 (by rw [h1, fval_zero])
      have hb : fkey b = fkey 0 := (fval_eq_iff_fkey_eq b 0).1 (by rw [h2, fval_zero])
      rw [ha, hb]

/-! ### rounding functions -/

theorem rounding_sign : Rounding signRound where
  mono x y h := by
    have p : fval 0x0000000000000001 = 1 := by decide
    have n : fval 0x8000000000000001 = -1 := by decide
    have z := fval_zero
    unfold signRound
    split <;> split <;> (try split) <;> (try split) <;> omega
  notNaN x := by
    unfold signRound
    split
    · decide
    · split <;> decide
  zero := by decide
  one := by decide
  negOne := by decide

theorem truncBits_small {n : Nat} (h : n < 9007199254740992) : truncBits n = n := by
  rw [truncBits]; simp [h]

theorem truncBits_big {n : Nat} (h : ¬ n < 9007199254740992) : truncBits n = truncBits (n / 2) + 4503599627370496 := by
  rw [truncBits]; simp [h]

theorem truncBits_mono : ∀ m n : Nat, n ≤ m → truncBits n ≤ truncBits m := by
  intro m
  induction m using Nat.strongRecOn with
  | _ m ih =>
    intro n hnm
    by_cases hm : m < 9007199254740992
    · rw [truncBits_small hm, truncBits_small (by omega : n < 9007199254740992)]; exact hnm
    · rw [truncBits_big hm]
      by_cases hn : n < 9007199254740992
      · rw [truncBits_small hn]
        have h52 := ih (m / 2) (by omega) 4503599627370496 (by omega)
        rw [truncBits_small (by decide : (4503599627370496 : Nat) < 9007199254740992)] at h52
        omega
      · rw [truncBits_big hn]
        have := ih (m / 2) (by omega) (n / 2) (by omega)
        omega

/-- the magnitude part of `truncRound` -/
def truncMag (n : Nat) : Nat := Nat.min (truncBits n) 0x7fefffffffffffff

theorem truncMag_mono {n m : Nat} (h : n ≤ m) : truncMag n ≤ truncMag m := by
  have := truncBits_mono m n h
  unfold truncMag
  simp only [Nat.min_def]
  split <;> split <;> omega

theorem truncMag_lt (n : Nat) : truncMag n ≤ 9218868437227405311 := by
  unfold truncMag
  simp only [Nat.min_def]
  split <;> omega

theorem truncRound_toNat (x : Int) :
    (truncRound x).toNat = if x < 0 then 9223372036854775808 + truncMag x.natAbs else truncMag x.natAbs := by
  have hl := truncMag_lt x.natAbs
  unfold truncRound
  show (UInt64.ofNat (if x < 0 then 0x8000000000000000 + truncMag x.natAbs else truncMag x.natAbs)).toNat = _
  rw [UInt64.toNat_ofNat']
  split <;> omega

theorem fkey_truncRound (x : Int) :
    fkey (truncRound x) = if x < 0 then -((truncMag x.natAbs : Nat) : Int) else ((truncMag x.natAbs : Nat) : Int) := by
  have hl := truncMag_lt x.natAbs
  rw [fkey_eq, truncRound_toNat]
  split <;> split <;> omega

theorem rounding_trunc : Rounding truncRound where
  mono x y h := by
    have key : fkey (truncRound x) ≤ fkey (truncRound y) := by
      rw [fkey_truncRound, fkey_truncRound]
      by_cases hx : x < 0
      · by_cases hy : y < 0
        · simp only [hx, hy, if_true]
          have := truncMag_mono (show y.natAbs ≤ x.natAbs by omega)
          omega
        · simp only [hx, hy, if_true, if_false]; omega
      · have hy : ¬ y < 0 := by omega
        simp only [hx, hy, if_false]
        have := truncMag_mono (show x.natAbs ≤ y.natAbs by omega)
        omega
    have := fval_lt_iff_fkey_lt (truncRound y) (truncRound x)
    omega
  notNaN x := by
    have hl := truncMag_lt x.natAbs
    rw [fIsNaN_iff, truncRound_toNat]
    split <;> omega
  zero := by
    have : truncRound 0 = 0 := by
      apply UInt64.toNat_inj.mp
      rw [truncRound_toNat]
      simp [truncMag, truncBits_small]
    rw [this]; exact fval_zero
  one := by
    have : truncRound 1 = 1 := by
      apply UInt64.toNat_inj.mp
      rw [truncRound_toNat]
      simp [truncMag, truncBits_small]
    rw [this]; decide
  negOne := by
    have : truncRound (-1) = 0x8000000000000001 := by
      apply UInt64.toNat_inj.mp
      rw [truncRound_toNat]
      simp [truncMag, truncBits_small]
    rw [this]; decide

/-! ### subtraction as "round the exact difference" has the sign of the exact difference -/

/-- the sign of a rounded value is the sign of what was rounded: a non-zero exact difference of two doubles is at least one
    unit (2^-1074) in magnitude, and the unit is representable -/
theorem Rounding.sign {rnd : Int → UInt64} (h : Rounding rnd) (x : Int) :
    (0 < fval (rnd x) ↔ 0 < x) ∧ (fval (rnd x) < 0 ↔ x < 0) := by
  rcases Int.lt_trichotomy x 0 with hx | hx | hx
  · have := h.mono x (-1) (by omega)
    have := h.negOne
    omega
  · subst hx
    have := h.zero
    omega
  · have := h.mono 1 x (by omega)
    have := h.one
    omega

theorem fkey_cases (b : UInt64) :
    (9223372036854775808 ≤ b.toNat ∧ fkey b = -((b.toNat % 9223372036854775808 : Nat) : Int)) ∨
    (b.toNat < 9223372036854775808 ∧ fkey b = ((b.toNat % 9223372036854775808 : Nat) : Int)) := by
  rw [fkey_eq]
  by_cases h : 9223372036854775808 ≤ b.toNat
  · left; simp [h]
  · right; simp [h]; omega

/-- adding 2^63 modulo 2^64 flips the sign bit: the key changes sign -/
theorem fkey_neg_flip (b : UInt64) : fkey (b + 0x8000000000000000) = - fkey b := by
  have hb := b.toNat_lt
  have e : (b + 0x8000000000000000).toNat = (b.toNat + 9223372036854775808) % 18446744073709551616 := by
    rw [UInt64.toNat_add]; rfl
  rw [fkey_eq, fkey_eq, e]
  split <;> split <;> omega

theorem subSign_rounded {rnd : Int → UInt64} (h : Rounding rnd) : SubSign (roundedOps rnd) := by
  have key : ∀ a b, fIsNaN a = false → fIsNaN b = false →
      ((roundedOps rnd).lt (roundedOps rnd).zero ((roundedOps rnd).sub a b) = true ↔ fkey b < fkey a) ∧
      ((roundedOps rnd).lt ((roundedOps rnd).sub a b) (roundedOps rnd).zero = true ↔ fkey a < fkey b) := by
    intro a b na nb
    have hz : fIsNaN (0 : UInt64) = false := by decide
    have hdn : fIsNaN fDefaultNaN = true := by decide
    have na' := (fIsNaN_iff a).1 na
    have nb' := (fIsNaN_iff b).1 nb
    have ka := fkey_cases a
    have kb := fkey_cases b
    simp only [roundedOps, na, nb, hz, Bool.false_or, Bool.not_false, Bool.true_and, Bool.and_true, Bool.false_eq_true,
      if_false]
    by_cases ia : fIsInf a = true
    · have ia' := (fIsInf_iff a).1 ia
      simp only [ia, if_true, Bool.true_and]
      by_cases ib : (fIsInf b && (fNeg a == fNeg b)) = true
      · -- the same infinity twice: NaN, neither `<` holds, and the two are equal
        simp only [ib, if_true, hdn, Bool.not_true, Bool.false_and, Bool.false_eq_true, false_iff]
        rw [Bool.and_eq_true, beq_iff_eq] at ib
        have ib' := (fIsInf_iff b).1 ib.1
        have hs : (9223372036854775808 ≤ a.toNat ↔ 9223372036854775808 ≤ b.toNat) := by
          rw [← fNeg_iff, ← fNeg_iff, ib.2]
        constructor <;> omega
      · simp only [ib, Bool.false_eq_true, if_false, na, Bool.not_false, Bool.true_and, decide_eq_true_eq]
        rw [fval_zero, fval_pos_iff, fval_neg_iff]
        have ib2 : ¬ (fIsInf b = true ∧ fNeg a = fNeg b) := by
          intro q; apply ib; rw [Bool.and_eq_true, beq_iff_eq]; exact q
        have hs : fIsInf b = true → ¬ (9223372036854775808 ≤ a.toNat ↔ 9223372036854775808 ≤ b.toNat) := by
          intro q hh; apply ib2; refine ⟨q, ?_⟩
          rw [Bool.eq_iff_iff, fNeg_iff, fNeg_iff]; exact hh
        rw [fIsInf_iff b] at hs
        constructor <;> omega
    · simp only [ia, Bool.false_eq_true, if_false]
      have ia' : ¬ a.toNat % 9223372036854775808 = 9218868437227405312 := fun q => ia ((fIsInf_iff a).2 q)
      by_cases ib : fIsInf b = true
      · have ib' := (fIsInf_iff b).1 ib
        have hflip := fkey_neg_flip b
        have nn : fIsNaN (b + 0x8000000000000000) = false := by
          have hb := b.toNat_lt
          have e : (b + 0x8000000000000000).toNat = (b.toNat + 9223372036854775808) % 18446744073709551616 := by
            rw [UInt64.toNat_add]; rfl
          rw [fIsNaN_iff, e]; omega
        simp only [ib, if_true, nn, Bool.not_false, Bool.true_and, decide_eq_true_eq]
        rw [fval_zero, fval_pos_iff, fval_neg_iff, hflip]
        constructor <;> omega
      · simp only [ib, Bool.false_eq_true, if_false, h.notNaN, Bool.not_false, Bool.true_and, decide_eq_true_eq]
        have s := h.sign (fval a - fval b)
        have o1 := fval_lt_iff_fkey_lt a b
        have o2 := fval_lt_iff_fkey_lt b a
        rw [fval_zero]
        constructor <;> omega
  exact ⟨fun a b na nb => (key a b na nb).1, fun a b na nb => (key a b na nb).2⟩

end Cello.Cmp
