/-
  CelloProofs/Lemmas/OwnHist.lean — C05: histories (`run`) of in-contract operations; final deletion of all containers.
-/
import CelloProofs.Lemmas.OwnStep
set_option linter.unusedVariables false
set_option linter.unusedSimpArgs false

namespace Cello.Own
open List

/-- every operation of the history is outside the territory of the known findings in the world it is applied to -/
def allNKF : World → List Op → Prop
  | _, [] => True
  | w, op :: ops => noKnownFinding w op = true ∧ allNKF (step w op).1 ops

@[simp] theorem run_nil (w : World) : run w [] = (w, []) := rfl
theorem run_cons (w : World) (op : Op) (ops : List Op) :
    run w (op :: ops) = ((run (step w op).1 ops).1, (step w op).2 :: (run (step w op).1 ops).2) := by
  simp [run]

theorem run_append (w : World) (ops ops' : List Op) :
    (run w (ops ++ ops')).1 = (run (run w ops).1 ops').1 := by
  induction ops generalizing w with
  | nil => rfl
  | cons op ops ih => simp [run_cons, ih]

theorem allNKF_append {w : World} {ops ops' : List Op} :
    allNKF w (ops ++ ops') ↔ allNKF w ops ∧ allNKF (run w ops).1 ops' := by
  induction ops generalizing w with
  | nil => simp [allNKF]
  | cons op ops ih => simp [allNKF, run_cons, ih, and_assoc]

theorem run_inv {w : World} (hinv : Inv w) (ops : List Op) (h : allNKF w ops) : Inv (run w ops).1 := by
  induction ops generalizing w with
  | nil => exact hinv
  | cons op ops ih =>
    rw [run_cons]
    exact ih (step_ok hinv op h.1).inv h.2

/-- the finalised identities only accumulate -/
theorem run_retired_mono {w : World} (hinv : Inv w) (ops : List Op) (h : allNKF w ops) :
    ∀ i ∈ w.retiredLog, i ∈ (run w ops).1.retiredLog := by
  induction ops generalizing w with
  | nil => intro i hi; exact hi
  | cons op ops ih =>
    intro i hi
    rw [run_cons]
    have hs := step_ok hinv op h.1
    exact ih hs.inv h.2 i (by rw [hs.retired]; exact List.mem_append_right _ hi)

theorem run_issued_mono {w : World} (hinv : Inv w) (ops : List Op) (h : allNKF w ops) :
    ∀ i ∈ w.issuedLog, i ∈ (run w ops).1.issuedLog := by
  induction ops generalizing w with
  | nil => intro i hi; exact hi
  | cons op ops ih =>
    intro i hi
    rw [run_cons]
    have hs := step_ok hinv op h.1
    exact ih hs.inv h.2 i (by rw [hs.issued]; exact List.mem_append_right _ hi)

theorem delAll_nkf (objs : List (Nat × Cont)) (w : World) :
    allNKF w (objs.map (fun cx => Op.del cx.1)) := by
  induction objs generalizing w with
  | nil => trivial
  | cons cx rest ih => exact ⟨rfl, ih _⟩

/-- deleting every container, lowest name first, empties the world and keeps the invariant -/
theorem run_delAll (w : World) (hinv : Inv w) :
    Inv (run w (delAllOps w)).1 ∧ (run w (delAllOps w)).1.objs = [] := by
  have key : ∀ (objs : List (Nat × Cont)) (w : World), w.objs = objs → Inv w →
      Inv (run w (objs.map (fun cx => Op.del cx.1))).1 ∧ (run w (objs.map (fun cx => Op.del cx.1))).1.objs = [] := by
    intro objs
    induction objs with
    | nil => intro w hw hinv; exact ⟨hinv, hw⟩
    | cons cx rest ih =>
      intro w hw hinv
      obtain ⟨c, x⟩ := cx
      simp only [List.map_cons, run_cons]
      have hl : lookup w.objs c = some x := by simp [hw, lookup]
      have hobjs : (step w (.del c)).1.objs = rest := by
        simp only [step, hl, commit_objs, objsAfter]
        simp [hw, erase]
      exact ih _ hobjs (step_ok hinv (.del c) rfl).inv
  exact key w.objs w rfl hinv

/-- a history that never applies an operation to container `d` leaves `d` as it is -/
theorem run_frame (w : World) (ops : List Op) (d : Nat) (h : ∀ op ∈ ops, op.target ≠ d) :
    lookup (run w ops).1.objs d = lookup w.objs d := by
  induction ops generalizing w with
  | nil => rfl
  | cons op ops ih =>
    rw [run_cons]
    rw [ih _ (fun o ho => h o (List.mem_cons_of_mem _ ho))]
    exact step_frame w op (fun he => h op (by simp) he.symm)

/-- the identities of one container are among the identities of all -/
theorem ids_sub_allIds {objs : List (Nat × Cont)} {c : Nat} {x : Cont} (h : lookup objs c = some x) :
    ∀ i ∈ ids x.toks, i ∈ allIds objs := by
  intro i hi
  exact (ids_perm (allToks_erase h)).mem_iff.mpr (by simp [hi])

/-- under the invariant: contents and finalised identities are disjoint -/
theorem inv_disjoint {w : World} (hinv : Inv w) : ∀ i ∈ w.retiredLog, i ∉ allIds w.objs := by
  intro i hi hc
  exact (List.disjoint_of_nodup_append (hinv.cons.nodup_iff.mp hinv.nodup)) hi hc

theorem inv_retired_nodup {w : World} (hinv : Inv w) : w.retiredLog.Nodup :=
  (List.nodup_append.mp (hinv.cons.nodup_iff.mp hinv.nodup)).1

theorem inv_contents_nodup {w : World} (hinv : Inv w) : (allIds w.objs).Nodup :=
  (List.nodup_append.mp (hinv.cons.nodup_iff.mp hinv.nodup)).2.1

/-! ### in-contract histories: no known-finding territory and no ill-formed operation -/

/-- every operation of the history is in contract in the world it is applied to -/
def allInContract : World → List Op → Prop
  | _, [] => True
  | w, op :: ops => inContract w op = true ∧ allInContract (step w op).1 ops

theorem inContract_nkf {w : World} {op : Op} (h : inContract w op = true) : noKnownFinding w op = true := by
  simp only [inContract, Bool.and_eq_true] at h; exact h.1

theorem inContract_notBad {w : World} {op : Op} (h : inContract w op = true) : (step w op).2.bad = false := by
  simp only [inContract, Bool.and_eq_true, Bool.not_eq_true'] at h; exact h.2

theorem allInContract.nkf {w : World} {ops : List Op} (h : allInContract w ops) : allNKF w ops := by
  induction ops generalizing w with
  | nil => trivial
  | cons op ops ih => exact ⟨inContract_nkf h.1, ih h.2⟩

theorem allInContract_append {w : World} {ops ops' : List Op} :
    allInContract w (ops ++ ops') ↔ allInContract w ops ∧ allInContract (run w ops).1 ops' := by
  induction ops generalizing w with
  | nil => simp [allInContract]
  | cons op ops ih => simp [allInContract, run_cons, ih, and_assoc]

/-- in an in-contract history every operation was executed: none was skipped as ill-formed -/
theorem allInContract_noBad {w : World} {ops : List Op} (h : allInContract w ops) : ∀ o ∈ (run w ops).2, o.bad = false := by
  induction ops generalizing w with
  | nil => intro o ho; simp [run] at ho
  | cons op ops ih =>
    intro o ho
    rw [run_cons] at ho
    rcases List.mem_cons.mp ho with rfl | ho
    · exact inContract_notBad h.1
    · exact ih h.2 o ho

/-- the final deletions are in contract: every remaining name is bound -/
theorem delAll_inContract (w : World) : allInContract w (delAllOps w) := by
  have key : ∀ (objs : List (Nat × Cont)) (w : World), w.objs = objs →
      allInContract w (objs.map (fun cx => Op.del cx.1)) := by
    intro objs
    induction objs with
    | nil => intro w _; trivial
    | cons cx rest ih =>
      intro w hw
      obtain ⟨c, x⟩ := cx
      have hl : lookup w.objs c = some x := by simp [hw, lookup]
      refine ⟨by simp [inContract, noKnownFinding, step, hl, commit], ih _ ?_⟩
      simp only [step, hl, commit_objs, objsAfter]
      simp [hw, erase]
  exact key w.objs w rfl

end Cello.Own
