/-
  Helper lemmas for C08, heap level: several type objects, class objects that are themselves (re-constructible,
  deletable) type objects whose address is memoised by other type objects, casts; histories over all of them.
-/
import CelloProofs.Lemmas.Disp
import CelloProofs.Lemmas.DispWorld
import CelloProofs.Lemmas.DispNew

namespace Cello.Dispatch

/-! ### which `cls` words a lookup can write -/

theorem scanName_memos (cls : Cls) : ∀ es : List Entry, ∀ c ∈ (scanName cls es).1.filterMap (·.memo),
    c ∈ es.filterMap (·.memo) ∨ c = cls
  | [], c, h => by simp [scanName] at h
  | e :: es, c, h => by
    simp only [scanName] at h
    split at h
    · simp only [List.filterMap_cons] at h
      simp only [List.mem_cons] at h
      rcases h with h | h
      · exact Or.inr h
      · left
        simp only [List.filterMap_cons]
        cases e.memo <;> simp [h]
    · simp only [List.filterMap_cons] at h ⊢
      cases hm : e.memo with
      | none =>
        simp only [hm] at h
        exact scanName_memos cls es c h
      | some c0 =>
        simp only [hm, List.mem_cons] at h ⊢
        rcases h with h | h
        · exact Or.inl (Or.inl h)
        · rcases scanName_memos cls es c h with h' | h'
          · exact Or.inl (Or.inr h')
          · exact Or.inr h'

theorem scan_memos (t : TypeRec) (cls : Cls) : ∀ c ∈ memosOf (scan t cls).1, c ∈ memosOf t ∨ c = cls := by
  intro c hc
  unfold scan at hc
  simp only at hc
  cases hp : scanPtr cls t.entries with
  | some i => rw [hp] at hc; exact Or.inl hc
  | none =>
    rw [hp] at hc
    exact scanName_memos cls t.entries c hc

theorem instanceOf_memos (slots : List (Nat × Cls)) (t : TypeRec) (cls : Cls) :
    ∀ c ∈ memosOf (instanceOf slots t cls).1, c ∈ memosOf t ∨ c = cls := by
  intro c hc
  unfold instanceOf at hc
  cases hso : slotOf slots cls with
  | none => rw [hso] at hc; exact scan_memos t cls c hc
  | some p =>
    obtain ⟨i, lit⟩ := p
    obtain ⟨_, rfl⟩ := slotOf_some hso
    rw [hso] at hc
    simp only at hc
    by_cases hlt : i < t.cache.length
    · simp only [hlt, dite_true] at hc
      cases hci : t.cache[i] with
      | some inst => rw [hci] at hc; exact Or.inl hc
      | none => rw [hci] at hc; exact scan_memos t lit c hc
    · simp only [hlt, dite_false] at hc
      exact Or.inl hc

theorem scan_sentinel (t : TypeRec) (cls : Cls) : (scan t cls).1.sentinel = t.sentinel := by
  unfold scan
  simp only
  cases scanPtr cls t.entries <;> rfl

theorem instanceOf_sentinel (slots : List (Nat × Cls)) (t : TypeRec) (cls : Cls) :
    (instanceOf slots t cls).1.sentinel = t.sentinel := by
  unfold instanceOf
  cases slotOf slots cls with
  | none => exact scan_sentinel t cls
  | some p =>
    obtain ⟨i, lit⟩ := p
    simp only
    by_cases hlt : i < t.cache.length
    · simp only [hlt, dite_true]
      cases t.cache[i] with
      | some inst => rfl
      | none => exact scan_sentinel t lit
    · simp only [hlt, dite_false]

theorem methodAt_fst (slots : List (Nat × Cls)) (t : TypeRec) (cls : Cls) (k : Nat) :
    (methodAt slots t cls k).1 = (instanceOf slots t cls).1 := by
  unfold methodAt
  rcases instanceOf slots t cls with ⟨t1, o⟩
  cases o with
  | ok r =>
    cases r with
    | none => rfl
    | some inst => simp only; cases memberAt inst k with
      | ok b => cases b <;> rfl
      | raised e => rfl
      | ub => rfl
  | raised e => rfl
  | ub => rfl

theorem implementsMethodAt_fst (t : TypeRec) (cls : Cls) (k : Nat) :
    (implementsMethodAt t cls k).1 = (scan t cls).1 := by
  unfold implementsMethodAt
  rcases scan t cls with ⟨t1, o⟩
  cases o <;> rfl

/-- a record-level step: the invariant (relative to any declaration) survives, the `Terminal` flag stays, and the only
    `cls` word values that can appear are the old ones and the class that was looked up -/
def RecStep (slots : List (Nat × Cls)) (n : Nat) (cls : Cls) (t t' : TypeRec) : Prop :=
  (∀ D, Inv D slots n t → Inv D slots n t') ∧ t'.sentinel = t.sentinel ∧ ∀ c ∈ memosOf t', c ∈ memosOf t ∨ c = cls

theorem RecStep.trans {slots n cls t t' t''} (h1 : RecStep slots n cls t t') (h2 : RecStep slots n cls t' t'') :
    RecStep slots n cls t t'' := by
  refine ⟨fun D h => h2.1 D (h1.1 D h), h2.2.1.trans h1.2.1, ?_⟩
  intro c hc
  rcases h2.2.2 c hc with h | h
  · exact h1.2.2 c h
  · exact Or.inr h

theorem RecStep.hdr (slots : List (Nat × Cls)) (n : Nat) (cls : Cls) (t : TypeRec) (b : Bool) :
    RecStep slots n cls t { t with hdr := b } :=
  ⟨fun _ h => h.hdr b, rfl, fun _ hc => Or.inl hc⟩

theorem look_recStep {slots : List (Nat × Cls)} {n : Nat} (hs : SlotsOK slots n) (t : TypeRec) (l : Look) (cls : Cls) :
    RecStep slots n cls t (applyOp slots t (l.op cls)).1 := by
  refine ⟨fun D h => (applyOp_spec hs h (l.op cls)).2.1, ?_, ?_⟩
  · cases l with
    | inst => exact instanceOf_sentinel slots t cls
    | impl => exact scan_sentinel t cls
    | meth k => simp only [Look.op, applyOp, methodAt_fst]; exact instanceOf_sentinel slots t cls
    | implMeth k => simp only [Look.op, applyOp, implementsMethodAt_fst]; exact scan_sentinel t cls
  · cases l with
    | inst => exact instanceOf_memos slots t cls
    | impl => exact scan_memos t cls
    | meth k => simp only [Look.op, applyOp, methodAt_fst]; exact instanceOf_memos slots t cls
    | implMeth k => simp only [Look.op, applyOp, implementsMethodAt_fst]; exact scan_memos t cls

theorem reset_recStep (slots : List (Nat × Cls)) (n : Nat) (cls : Cls) (t : TypeRec) : RecStep slots n cls t (reset t) := by
  refine ⟨fun D h => reset_spec h, rfl, ?_⟩
  intro c hc
  simp only [memosOf, reset, List.mem_filterMap, List.mem_map] at hc
  obtain ⟨e, ⟨e0, _, rfl⟩, hm⟩ := hc
  simp at hm

/-! ### world-level steps -/

/-- a world-level step: the same type objects exist before and after, each related by a record-level step -/
def WStep (n : Nat) (cls : Cls) (w w' : World) : Prop :=
  w'.slots = w.slots ∧ w'.theType = w.theType ∧
  ∀ x, (w.get x = none → w'.get x = none) ∧ ∀ t, w.get x = some t → ∃ t', w'.get x = some t' ∧ RecStep w.slots n cls t t'

theorem RecStep.refl (slots : List (Nat × Cls)) (n : Nat) (cls : Cls) (t : TypeRec) : RecStep slots n cls t t :=
  ⟨fun _ h => h, rfl, fun _ hc => Or.inl hc⟩

theorem WStep.refl (n : Nat) (cls : Cls) (w : World) : WStep n cls w w :=
  ⟨rfl, rfl, fun _ => ⟨fun h => h, fun t h => ⟨t, h, RecStep.refl _ _ _ _⟩⟩⟩

theorem WStep.trans {n cls w w' w''} (h1 : WStep n cls w w') (h2 : WStep n cls w' w'') : WStep n cls w w'' := by
  refine ⟨h2.1.trans h1.1, h2.2.1.trans h1.2.1, ?_⟩
  intro x
  refine ⟨fun hn => (h2.2.2 x).1 ((h1.2.2 x).1 hn), ?_⟩
  intro t ht
  obtain ⟨t', ht', r1⟩ := (h1.2.2 x).2 t ht
  obtain ⟨t'', ht'', r2⟩ := (h2.2.2 x).2 t' ht'
  rw [h1.1] at r2
  exact ⟨t'', ht'', r1.trans r2⟩

theorem put_slots (w : World) (tid : Nat) (t : TypeRec) : (w.put tid t).slots = w.slots ∧ (w.put tid t).theType = w.theType := by
  unfold World.put
  split <;> exact ⟨rfl, rfl⟩

theorem WStep.put {n : Nat} {cls : Cls} {w : World} {tid : Nat} {t t' : TypeRec} (hget : w.get tid = some t)
    (hr : RecStep w.slots n cls t t') : WStep n cls w (w.put tid t') := by
  refine ⟨(put_slots w tid t').1, (put_slots w tid t').2, ?_⟩
  intro x
  by_cases hx : x = tid
  · subst hx
    refine ⟨fun hn => (by rw [hget] at hn; cases hn), ?_⟩
    intro t0 ht0
    rw [hget] at ht0
    cases ht0
    exact ⟨t', get_put_same w x t', hr⟩
  · rw [get_put_other w tid x t' hx]
    exact ⟨fun hn => hn, fun t0 ht0 => ⟨t0, ht0, RecStep.refl _ _ _ _⟩⟩

theorem typeOfW_typeObj {w : World} {tid : Nat} {t : TypeRec} (hget : w.get tid = some t) :
    typeOfW w (.typeObj tid) = (w.put tid { t with hdr := true }, .ok w.theType) := by
  simp [typeOfW, hget]

theorem scan_hdr (t : TypeRec) (cls : Cls) : scan { t with hdr := true } cls = scan t cls := rfl

theorem typeScanW_typeObj {w : World} {tid : Nat} {t : TypeRec} (hget : w.get tid = some t) (cls : Cls) :
    typeScanW w (.typeObj tid) cls = ((w.put tid { t with hdr := true }).put tid (scan t cls).1, .ok (scan t cls).2) := by
  simp only [typeScanW, typeOfW_typeObj hget, get_put_same, scan_hdr]

theorem typeInstanceW_typeObj {w : World} {tid : Nat} {t : TypeRec} (hget : w.get tid = some t) (cls : Cls) :
    typeInstanceW w (.typeObj tid) cls = (w.put tid (instanceOf w.slots t cls).1, (instanceOf w.slots t cls).2) := by
  simp [typeInstanceW, hget]

/-- **every type-level entry point is the record-level function on the type's record, stored back** -/
theorem lookW_spec {n : Nat} {w : World} (hs : SlotsOK w.slots n) {tid : Nat} {t : TypeRec} (hget : w.get tid = some t)
    (l : Look) (cls : Cls) :
    (lookW w tid l cls).2 = (applyOp w.slots t (l.op cls)).2 ∧ WStep n cls w (lookW w tid l cls).1 ∧
    (lookW w tid l cls).1.get tid = some (applyOp w.slots t (l.op cls)).1 := by
  have hsc : WStep n cls w ((w.put tid { t with hdr := true }).put tid (scan t cls).1) ∧
      ((w.put tid { t with hdr := true }).put tid (scan t cls).1).get tid = some (scan t cls).1 := by
    refine ⟨?_, get_put_same _ _ _⟩
    refine (WStep.put hget (RecStep.hdr _ n cls t true)).trans ?_
    refine WStep.put (get_put_same _ _ _) ?_
    rw [(put_slots w tid _).1]
    have := look_recStep hs { t with hdr := true } .impl cls
    simpa [Look.op, applyOp, implementsT, scan_hdr] using this
  cases l with
  | inst =>
    simp only [lookW, typeInstanceW_typeObj hget, Look.op, applyOp]
    exact ⟨by first | rfl | trivial, WStep.put hget (look_recStep hs t .inst cls), get_put_same _ _ _⟩
  | impl =>
    simp only [lookW, typeScanW_typeObj hget, Look.op, applyOp, implementsT]
    exact ⟨by first | rfl | trivial, hsc.1, hsc.2⟩
  | meth k =>
    have hsent : w.isSentinel tid = t.sentinel := by simp [World.isSentinel, hget]
    have hw : (typeMethodAtW w (.typeObj tid) cls k).1 = w.put tid (instanceOf w.slots t cls).1 := by
      simp only [typeMethodAtW, typeInstanceW_typeObj hget]
      rcases instanceOf w.slots t cls with ⟨t1, o⟩
      cases o with
      | ok r =>
        cases r with
        | none => rfl
        | some inst => simp only; cases memberAt inst k with
          | ok b => cases b <;> rfl
          | raised e => rfl
          | ub => rfl
      | raised e => rfl
      | ub => rfl
    have ho : (typeMethodAtW w (.typeObj tid) cls k).2 = (methodAt w.slots t cls k).2 := by
      simp only [typeMethodAtW, typeInstanceW_typeObj hget, methodAt, hsent]
      rcases instanceOf w.slots t cls with ⟨t1, o⟩
      cases o with
      | ok r =>
        cases r with
        | none => rfl
        | some inst => simp only; cases memberAt inst k with
          | ok b => cases b <;> rfl
          | raised e => rfl
          | ub => rfl
      | raised e => rfl
      | ub => rfl
    simp only [lookW, Look.op, applyOp, hw, ho, methodAt_fst]
    exact ⟨by first | rfl | trivial, WStep.put hget (look_recStep hs t .inst cls), get_put_same _ _ _⟩
  | implMeth k =>
    have hw : (typeImplementsMethodAtW w (.typeObj tid) cls k).1 = (w.put tid { t with hdr := true }).put tid (scan t cls).1 := by
      simp only [typeImplementsMethodAtW, typeScanW_typeObj hget]
      cases (scan t cls).2 <;> rfl
    have ho : (typeImplementsMethodAtW w (.typeObj tid) cls k).2 = (implementsMethodAt t cls k).2 := by
      simp only [typeImplementsMethodAtW, typeScanW_typeObj hget, implementsMethodAt]
      rcases scan t cls with ⟨t1, o⟩
      cases o <;> rfl
    simp only [lookW, Look.op, applyOp, hw, ho, implementsMethodAt_fst]
    exact ⟨by first | rfl | trivial, hsc.1, hsc.2⟩

theorem isSentinel_wstep {n cls w w'} (h : WStep n cls w w') (x : Nat) : w'.isSentinel x = w.isSentinel x := by
  unfold World.isSentinel
  cases hx : w.get x with
  | none => rw [(h.2.2 x).1 hx]
  | some t =>
    obtain ⟨t', ht', r⟩ := (h.2.2 x).2 t hx
    rw [ht']; simp [r.2.1]

/-- **cast of an object**, every branch: the answer is `specCast` of the declaration of the object's type -/
theorem castW_obj_spec {n : Nat} {w : World} (hs : SlotsOK w.slots n) {D : String → Option Inst} {tid : Nat} {t : TypeRec}
    (hget : w.get tid = some t) (h : Inv D w.slots n t) (ty : Nat) :
    (castW castClsLib w (.obj .good tid) ty).2 = specCast D t.sentinel (w.isSentinel ty) tid ty ∧
    WStep n castClsLib w (castW castClsLib w (.obj .good tid) ty).1 := by
  have sp := instanceOf_spec hs h castClsLib
  have hst : WStep n castClsLib w (w.put tid (instanceOf w.slots t castClsLib).1) :=
    WStep.put hget (look_recStep hs t .inst castClsLib)
  have hsent := isSentinel_wstep hst
  have hsT : w.isSentinel tid = t.sentinel := by simp [World.isSentinel, hget]
  simp only [castW, instanceW, typeOfW, typeInstanceW_typeObj hget, specCast]
  rcases hio : instanceOf w.slots t castClsLib with ⟨t1, o⟩
  rw [hio] at sp hst hsent
  simp only at sp hst hsent
  obtain ⟨ho, _, _⟩ := sp
  subst ho
  cases hD : D castClsLib.name with
  | none =>
    simp only
    by_cases hty : tid = ty
    · simp only [hty, if_true]; exact ⟨trivial, by simpa [hty] using hst⟩
    · simp only [hty, if_false, hsent, hsT]; exact ⟨trivial, hst⟩
  | some c =>
    simp only
    cases hm : memberAt c 0 with
    | ok b =>
      cases b with
      | true => exact ⟨rfl, hst⟩
      | false =>
        simp only
        by_cases hty : tid = ty
        · simp only [hty, if_true]; exact ⟨trivial, by simpa [hty] using hst⟩
        · simp only [hty, if_false, hsent, hsT]; exact ⟨trivial, hst⟩
    | raised e => exact ⟨rfl, hst⟩
    | ub => exact ⟨rfl, hst⟩

/-- **cast of a type object** (`cast(Int, Type)`, `cast(Int, Int)`): `type_of` of a type object is `Type`, so the lookup of
    `Cast` happens in `Type`'s record and the answer is `self` exactly for `ty = Type` -/
theorem castW_typeObj_spec {n : Nat} {w : World} (hs : SlotsOK w.slots n) (hall : ∀ x t, w.get x = some t → Inv (declared t.entries) w.slots n t)
    {tid : Nat} {t tT : TypeRec} (hget : w.get tid = some t) (hgetT : w.get w.theType = some tT) (ty : Nat) :
    (castW castClsLib w (.typeObj tid) ty).2 = specCast (declared tT.entries) tT.sentinel (w.isSentinel ty) w.theType ty ∧
    WStep n castClsLib w (castW castClsLib w (.typeObj tid) ty).1 := by
  -- step 1: type_of(self) fills the header word
  have st1 : WStep n castClsLib w (w.put tid { t with hdr := true }) := WStep.put hget (RecStep.hdr _ n _ t true)
  obtain ⟨tT1, hgetT1, rT1⟩ := (st1.2.2 w.theType).2 tT hgetT
  have hinvT1 : Inv (declared tT.entries) w.slots n tT1 := rT1.1 _ (hall _ _ hgetT)
  -- step 2: the lookup of Cast in Type's record
  let w1 := w.put tid { t with hdr := true }
  have hw1s : w1.slots = w.slots := st1.1
  have hw1t : w1.theType = w.theType := st1.2.1
  have hinvT1' : Inv (declared tT.entries) w1.slots n tT1 := by rw [hw1s]; exact hinvT1
  have hs1 : SlotsOK w1.slots n := by rw [hw1s]; exact hs
  have sp := instanceOf_spec hs1 hinvT1' castClsLib
  have st2 : WStep n castClsLib w1 (w1.put w.theType (instanceOf w1.slots tT1 castClsLib).1) :=
    WStep.put hgetT1 (look_recStep hs1 tT1 .inst castClsLib)
  let w2 := w1.put w.theType (instanceOf w1.slots tT1 castClsLib).1
  have st12 : WStep n castClsLib w w2 := st1.trans st2
  -- step 3: type_of(self) again
  obtain ⟨t2, hget2, _⟩ := (st12.2.2 tid).2 t hget
  have st3 : WStep n castClsLib w2 (w2.put tid { t2 with hdr := true }) := WStep.put hget2 (RecStep.hdr _ n _ t2 true)
  have st123 := st12.trans st3
  have hsent2 := isSentinel_wstep st123
  have hsT : w.isSentinel w.theType = tT.sentinel := by simp [World.isSentinel, hgetT]
  have hw2t : w2.theType = w.theType := st12.2.1
  have e1 : typeOfW w (.typeObj tid) = (w1, .ok w.theType) := typeOfW_typeObj hget
  have e2 : typeInstanceW w1 (.typeObj w.theType) castClsLib = (w2, (instanceOf w1.slots tT1 castClsLib).2) :=
    typeInstanceW_typeObj hgetT1 castClsLib
  have e3 : typeOfW w2 (.typeObj tid) = (w2.put tid { t2 with hdr := true }, .ok w.theType) := by
    rw [typeOfW_typeObj hget2, hw2t]
  simp only [castW, instanceW, e1, e2, specCast]
  rw [sp.1]
  cases hD : declared tT.entries castClsLib.name with
  | none =>
    simp only [e3]
    by_cases hty : w.theType = ty
    · simp only [hty, if_true]; exact ⟨trivial, by simpa [hty] using st123⟩
    · simp only [hty, if_false, hsent2, hsT]; exact ⟨trivial, st123⟩
  | some c =>
    simp only
    cases hm : memberAt c 0 with
    | ok b =>
      cases b with
      | true => exact ⟨rfl, st12⟩
      | false =>
        simp only [e3]
        by_cases hty : w.theType = ty
        · simp only [hty, if_true]; exact ⟨trivial, by simpa [hty] using st123⟩
        · simp only [hty, if_false, hsent2, hsT]; exact ⟨trivial, st123⟩
    | raised e => exact ⟨rfl, st12⟩
    | ub => exact ⟨rfl, st12⟩

/-! ### the heap: names of class objects, aliases, coherence -/

/-- every `cls` word of every record reads as the class that lives at its address NOW, or its pointee is dead -/
def Coherent (h : Heap) : Prop :=
  ∀ tid t, h.w.get tid = some t → ∀ c ∈ memosOf t, c.id ≠ 0 →
    h.nameAt (c.id - 1) = some c.name ∨ h.nameAt (c.id - 1) = none

/-- **Invariant of a heap**: every type object satisfies the lookup invariant relative to its own declaration, and the
    `cls` words are coherent with the names of the class objects -/
structure HeapOK (n : Nat) (h : Heap) : Prop where
  inv : ∀ tid t, h.w.get tid = some t → Inv (declared t.entries) h.w.slots n t
  coh : Coherent h

/-- pointer equality of a `cls` word and a class argument, in terms of the numbering of the model -/
def ptrEq (c d : Cls) : Prop := c.id = d.id ∧ (c.id = 0 → c.name = d.name)

theorem resolve_coherent {h : Heap} {r : CRef} {cls : Cls} (hr : h.resolve r = some cls) :
    cls.id = 0 ∨ h.nameAt (cls.id - 1) = some cls.name := by
  cases r with
  | lib nm => simp only [Heap.resolve, Option.some.injEq] at hr; subst hr; exact Or.inl rfl
  | rt a =>
    simp only [Heap.resolve, Option.map_eq_some_iff] at hr
    obtain ⟨nm, hn, rfl⟩ := hr
    right; simpa using hn

/-- **value equality of `Cls` is pointer equality** for every `cls` word of a coherent heap and every class a reference
    denotes: the comparison `t->cls is cls` of `Type_Scan`'s first loop is what `scanPtr` computes -/
theorem ptrEq_iff_eq {h : Heap} (hc : Coherent h) {tid : Nat} {t : TypeRec} (hget : h.w.get tid = some t)
    {c : Cls} (hmem : c ∈ memosOf t) {r : CRef} {cls : Cls} (hr : h.resolve r = some cls) : ptrEq c cls ↔ c = cls := by
  constructor
  · intro ⟨hid, hnm⟩
    by_cases h0 : c.id = 0
    · cases c; cases cls; simp_all
    · have hcl := resolve_coherent hr
      rw [← hid] at hcl
      rcases hcl with hcl | hcl
      · exact absurd hcl h0
      · rcases hc tid t hget c hmem h0 with h1 | h1
        · rw [hcl] at h1
          cases c; cases cls; simp_all
        · rw [hcl] at h1; cases h1
  · intro e; subst e; exact ⟨rfl, fun _ => rfl⟩

theorem HeapOK.wstep {n : Nat} {h : Heap} (hok : HeapOK n h) {cls : Cls} {w' : World} (hst : WStep n cls h.w w')
    (hcls : cls.id = 0 ∨ h.nameAt (cls.id - 1) = some cls.name) : HeapOK n { h with w := w' } := by
  constructor
  · intro x t' ht'
    simp only at ht'
    cases hx : h.w.get x with
    | none => rw [(hst.2.2 x).1 hx] at ht'; cases ht'
    | some t =>
      obtain ⟨t'', ht'', r⟩ := (hst.2.2 x).2 t hx
      rw [ht''] at ht'; cases ht'
      have hi := r.1 _ (hok.inv x t hx)
      have hd : declared t'.entries = declared t.entries := funext hi.decl
      show Inv (declared t'.entries) w'.slots n t'
      rw [hd, hst.1]; exact hi
  · intro x t' ht' c hc h0
    simp only at ht'
    show Heap.nameAt h (c.id - 1) = some c.name ∨ Heap.nameAt h (c.id - 1) = none
    cases hx : h.w.get x with
    | none => rw [(hst.2.2 x).1 hx] at ht'; cases ht'
    | some t =>
      obtain ⟨t'', ht'', r⟩ := (hst.2.2 x).2 t hx
      rw [ht''] at ht'; cases ht'
      rcases r.2.2 c hc with hm | hm
      · exact hok.coh x t hx c hm h0
      · subst hm
        rcases hcls with hcls | hcls
        · exact absurd hcls h0
        · exact Or.inl hcls

/-- what the spec reads of a heap is unchanged by a world-level step -/
theorem abs_wstep {n : Nat} {h : Heap} (hok : HeapOK n h) {cls : Cls} {w' : World} (hst : WStep n cls h.w w') (x : Nat) :
    (Heap.abs { h with w := w' }).decl x = h.abs.decl x := by
  simp only [Heap.abs]
  cases hx : h.w.get x with
  | none => rw [(hst.2.2 x).1 hx]
  | some t =>
    obtain ⟨t', ht', r⟩ := (hst.2.2 x).2 t hx
    rw [ht']
    have hi := r.1 _ (hok.inv x t hx)
    have hd : declared t'.entries = declared t.entries := funext hi.decl
    simp [hd, r.2.1]

/-! ### names -/

theorem find_filter_ne {α : Type} (l : List (Nat × α)) (addr x : Nat) :
    (l.filter (fun p => p.1 ≠ addr)).find? (fun p => p.1 = x) = if x = addr then none else l.find? (fun p => p.1 = x) := by
  induction l with
  | nil => simp
  | cons p ps ih =>
    by_cases hp : p.1 = addr
    · have hf : (p :: ps).filter (fun p => p.1 ≠ addr) = ps.filter (fun p => p.1 ≠ addr) := by
        rw [List.filter_cons]; simp [hp]
      rw [hf, ih]
      by_cases hx : x = addr
      · simp only [hx, if_true]
      · have hpx : ¬ p.1 = x := fun e => hx (e ▸ hp)
        simp only [hx, if_false, List.find?_cons, hpx, decide_false]
    · have hf : (p :: ps).filter (fun p => p.1 ≠ addr) = p :: ps.filter (fun p => p.1 ≠ addr) := by
        rw [List.filter_cons]; simp [hp]
      rw [hf]
      by_cases hpx : p.1 = x
      · have hx : ¬ x = addr := fun e => hp (hpx ▸ e)
        simp only [List.find?_cons, hpx, decide_true, hx, if_false]
      · simp only [List.find?_cons, hpx, decide_false, ih]

theorem nameAt_cons_filter (names : List (Nat × String)) (addr : Nat) (name : String) (x : Nat) :
    (((addr, name) :: names.filter (fun p => p.1 ≠ addr)).find? (fun p => p.1 = x)).map (·.2) =
      if x = addr then some name else (names.find? (fun p => p.1 = x)).map (·.2) := by
  by_cases hx : x = addr
  · subst hx; simp
  · have hx' : ¬ addr = x := fun e => hx e.symm
    simp only [List.find?_cons, hx', decide_false, hx, if_false, find_filter_ne]

theorem nameAt_filter (names : List (Nat × String)) (addr : Nat) (x : Nat) :
    ((names.filter (fun p => p.1 ≠ addr)).find? (fun p => p.1 = x)).map (·.2) =
      if x = addr then none else (names.find? (fun p => p.1 = x)).map (·.2) := by
  rw [find_filter_ne]; split <;> rfl

theorem get_filter (types : List (Nat × TypeRec)) (addr x : Nat) :
    ((types.filter (fun p => p.1 ≠ addr)).find? (fun p => p.1 = x)).map (·.2) =
      if x = addr then none else (types.find? (fun p => p.1 = x)).map (·.2) := by
  rw [find_filter_ne]; split <;> rfl

/-! ### a harmless write of `__Name` changes no `cls` word's reading -/

theorem retargetRec_id {id : Nat} {name : String} {t : TypeRec}
    (h : ∀ c ∈ memosOf t, c.id ≠ id ∨ c.name = name) : retargetRec id name t = t := by
  unfold retargetRec
  have : t.entries.map (retargetEntry id name) = t.entries := by
    conv => rhs; rw [← List.map_id t.entries]
    apply List.map_congr_left
    intro e he
    unfold retargetEntry
    cases hm : e.memo with
    | none => rfl
    | some c =>
      simp only [id_eq]
      have hc : c ∈ memosOf t := by
        simp only [memosOf, List.mem_filterMap]
        exact ⟨e, he, hm⟩
      by_cases hid : c.id = id
      · simp only [hid, if_true]
        rcases h c hc with h' | h'
        · exact absurd hid h'
        · have : (⟨id, name⟩ : Cls) = c := by cases c; simp_all
          rw [this, ← hm]
      · simp [hid]
  rw [this]

theorem retarget_safe {h : Heap} {addr : Nat} {name : String} (hsafe : h.nameWriteSafe addr name = true) :
    h.retarget addr name = h := by
  unfold Heap.retarget
  have : h.w.types.map (fun p => (p.1, retargetRec (addr + 1) name p.2)) = h.w.types := by
    conv => rhs; rw [← List.map_id h.w.types]
    apply List.map_congr_left
    intro p hp
    simp only [Heap.nameWriteSafe, List.all_eq_true] at hsafe
    have hp' := hsafe p hp
    rw [retargetRec_id]
    · rfl
    · intro c hc
      have := hp' c hc
      simp only [Bool.or_eq_true, decide_eq_true_eq, ne_eq] at this
      exact this
  rw [this]

theorem safe_of_get {h : Heap} {addr : Nat} {name : String} (hsafe : h.nameWriteSafe addr name = true)
    {x : Nat} {t : TypeRec} (hget : h.w.get x = some t) : ∀ c ∈ memosOf t, c.id = addr + 1 → c.name = name := by
  intro c hc hid
  simp only [Heap.nameWriteSafe, List.all_eq_true] at hsafe
  unfold World.get at hget
  simp only [Option.map_eq_some_iff] at hget
  obtain ⟨p, hp, rfl⟩ := hget
  have := hsafe p (List.mem_of_find?_eq_some hp) c hc
  simp only [Bool.or_eq_true, decide_eq_true_eq, ne_eq] at this
  rcases this with h' | h'
  · exact absurd hid h'
  · exact h'

/-! ### histories -/

/-- the spec state `a` describes the heap `h` -/
def AbsRel (h : Heap) (a : Abs) : Prop := (∀ x, a.decl x = h.abs.decl x) ∧ (∀ x, a.name x = h.abs.name x)

theorem abs_resolve {h : Heap} {a : Abs} (hr : AbsRel h a) (c : CRef) : a.resolve c = h.resolve c := by
  cases c with
  | lib n => rfl
  | rt x => simp only [Abs.resolve, Heap.resolve, hr.2 x, Heap.abs]

theorem abs_sent {h : Heap} {a : Abs} (hr : AbsRel h a) (x : Nat) : a.sent x = h.w.isSentinel x := by
  simp only [Abs.sent, World.isSentinel, hr.1 x, Heap.abs]
  cases h.w.get x <;> rfl

theorem specObs_congr {s : Bool} {D D' : String → Option Inst} (h : ∀ nm, D nm = D' nm) (op : Op) :
    specObs s D op = specObs s D' op := by
  have : D = D' := funext h
  rw [this]

/-- the side condition of one operation (see `Heap.safe`) -/
def HOp.safeIn (L : Layout) (h : Heap) : HOp → Bool
  | .construct addr name es => es.length > L.maxInstances || h.nameWriteSafe addr name
  | _ => true

theorem memosOf_mkType (n : Nat) (hdr sent : Bool) (es : List (String × Inst)) : memosOf (mkType n hdr es sent) = [] := by
  simp only [memosOf, mkType, List.filterMap_map]
  induction es with
  | nil => rfl
  | cons p ps ih => simp

/-- **one operation of a history**: what it answers is the head of the spec, the heap invariant and the relation to the
    spec state survive -/
theorem Heap.step_spec {L : Layout} {h : Heap} (hs : SlotsOK h.w.slots L.cacheNum) (hok : HeapOK L.cacheNum h)
    {a : Abs} (hr : AbsRel h a) (op : HOp) (hsafe : op.safeIn L h = true) (ops : List HOp) :
    ∃ a', specHeap L.maxInstances h.w.theType a (op :: ops) = (h.step L op).2 :: specHeap L.maxInstances h.w.theType a' ops ∧
      HeapOK L.cacheNum (h.step L op).1 ∧ AbsRel (h.step L op).1 a' ∧
      (h.step L op).1.w.slots = h.w.slots ∧ (h.step L op).1.w.theType = h.w.theType := by
  cases op with
  | look tid l c =>
    refine ⟨a, ?_⟩
    simp only [specHeap, Heap.step, hr.1 tid, abs_resolve hr c, Heap.abs]
    cases hget : h.w.get tid with
    | none => exact ⟨rfl, hok, hr, rfl, rfl⟩
    | some t =>
      cases hres : h.resolve c with
      | none => exact ⟨rfl, hok, hr, rfl, rfl⟩
      | some cls =>
        simp only [Option.map_some]
        have sp := lookW_spec hs hget l cls
        have ao := applyOp_spec hs (hok.inv tid t hget) (l.op cls)
        refine ⟨by rw [sp.1, ao.1], hok.wstep sp.2.1 (resolve_coherent hres), ⟨?_, fun x => hr.2 x⟩, sp.2.1.1, sp.2.1.2.1⟩
        intro x
        rw [hr.1 x]; exact (abs_wstep hok sp.2.1 x).symm
  | reset tid =>
    refine ⟨a, ?_⟩
    simp only [specHeap, Heap.step, hr.1 tid, Heap.abs]
    cases hget : h.w.get tid with
    | none => exact ⟨rfl, hok, hr, rfl, rfl⟩
    | some t =>
      have st : WStep L.cacheNum castClsLib h.w (h.w.put tid (reset t)) := WStep.put hget (reset_recStep _ _ _ t)
      refine ⟨rfl, hok.wstep st (Or.inl rfl), ⟨?_, fun x => hr.2 x⟩, st.1, st.2.1⟩
      intro x
      rw [hr.1 x]; exact (abs_wstep hok st x).symm
  | cast tid ty =>
    refine ⟨a, ?_⟩
    simp only [specHeap, Heap.step, hr.1 tid, Heap.abs]
    cases hget : h.w.get tid with
    | none => exact ⟨rfl, hok, hr, rfl, rfl⟩
    | some t =>
      simp only [Option.map_some]
      have sp := castW_obj_spec hs hget (hok.inv tid t hget) ty
      refine ⟨by rw [sp.1, abs_sent hr ty], hok.wstep sp.2 (Or.inl rfl), ⟨?_, fun x => hr.2 x⟩, sp.2.1, sp.2.2.1⟩
      intro x
      rw [hr.1 x]; exact (abs_wstep hok sp.2 x).symm
  | castType tid ty =>
    refine ⟨a, ?_⟩
    simp only [specHeap, Heap.step, hr.1 tid, hr.1 h.w.theType, Heap.abs]
    cases hget : h.w.get tid with
    | none => exact ⟨rfl, hok, hr, rfl, rfl⟩
    | some t =>
      cases hgetT : h.w.get h.w.theType with
      | none => exact ⟨rfl, hok, hr, rfl, rfl⟩
      | some tT =>
        simp only [Option.map_some]
        have sp := castW_typeObj_spec hs hok.inv hget hgetT ty
        refine ⟨by rw [sp.1, abs_sent hr ty], hok.wstep sp.2 (Or.inl rfl), ⟨?_, fun x => hr.2 x⟩, sp.2.1, sp.2.2.1⟩
        intro x
        rw [hr.1 x]; exact (abs_wstep hok sp.2 x).symm
  | construct addr name es =>
    by_cases hbig : es.length > L.maxInstances
    · refine ⟨a, ?_⟩
      simp only [specHeap, Heap.step, Heap.construct, hbig, if_true]
      exact ⟨trivial, hok, hr, trivial, trivial⟩
    · have hsf : h.nameWriteSafe addr name = true := by
        simp only [HOp.safeIn, Bool.or_eq_true, decide_eq_true_eq] at hsafe
        rcases hsafe with h' | h'
        · exact absurd h' hbig
        · exact h'
      let hsv : Bool × Bool := match h.w.get addr with
        | some t => (t.hdr, t.sentinel)
        | none => (true, false)
      have hsent : hsv.2 = h.w.isSentinel addr := by
        simp only [hsv, World.isSentinel]
        cases h.w.get addr <;> rfl
      refine ⟨{ decl := fun x => if x = addr then some (a.sent addr, declOf es) else a.decl x,
                name := fun x => if x = addr then some name else a.name x }, ?_⟩
      have hstep : h.step L (.construct addr name es) =
          ({ w := h.w.put addr (mkType L.cacheNum hsv.1 es hsv.2), names := (addr, name) :: h.names.filter (fun p => p.1 ≠ addr) },
           .constructed (.ok ())) := by
        simp only [Heap.step, Heap.construct, hbig, if_false, retarget_safe hsf]
        rfl
      rw [hstep]
      have hslots := (put_slots h.w addr (mkType L.cacheNum hsv.1 es hsv.2)).1
      refine ⟨by simp only [specHeap, hbig, if_false], ⟨?_, ?_⟩, ⟨?_, ?_⟩, hslots, (put_slots h.w addr _).2⟩
      · intro x t' ht'
        simp only at ht' ⊢
        rw [hslots]
        by_cases hx : x = addr
        · subst hx
          rw [get_put_same] at ht'; cases ht'
          exact mkType_inv _ _ _ _ _
        · rw [get_put_other _ _ _ _ hx] at ht'
          exact hok.inv x t' ht'
      · intro x t' ht' c hc h0
        simp only at ht'
        simp only [Heap.nameAt, nameAt_cons_filter]
        by_cases hx : x = addr
        · subst hx
          rw [get_put_same] at ht'; cases ht'
          rw [memosOf_mkType] at hc; cases hc
        · rw [get_put_other _ _ _ _ hx] at ht'
          by_cases hca : c.id - 1 = addr
          · have hid : c.id = addr + 1 := by omega
            simp only [hca, if_true]
            exact Or.inl (by rw [safe_of_get hsf ht' c hc hid])
          · simp only [hca, if_false]
            exact hok.coh x t' ht' c hc h0
      · intro x
        simp only [Heap.abs]
        by_cases hx : x = addr
        · subst hx
          simp only [if_true, get_put_same, Option.map_some, declOf_mk, abs_sent hr, hsent]
          rfl
        · simp only [hx, if_false, get_put_other _ _ _ _ hx, hr.1 x, Heap.abs]
      · intro x
        simp only [Heap.abs, Heap.nameAt, nameAt_cons_filter]
        by_cases hx : x = addr
        · simp [hx]
        · simp only [hx, if_false, hr.2 x, Heap.abs, Heap.nameAt]
  | delete addr =>
    refine ⟨{ decl := fun x => if x = addr then none else a.decl x, name := fun x => if x = addr then none else a.name x }, ?_⟩
    have hgetd : ∀ x, (h.delete addr).w.get x = if x = addr then none else h.w.get x := by
      intro x
      simp only [Heap.delete, World.get]
      exact get_filter h.w.types addr x
    have hnamed : ∀ x, (h.delete addr).nameAt x = if x = addr then none else h.nameAt x := by
      intro x
      simp only [Heap.delete, Heap.nameAt]
      exact nameAt_filter h.names addr x
    refine ⟨by simp only [specHeap, Heap.step], ⟨?_, ?_⟩, ⟨?_, ?_⟩, rfl, rfl⟩
    · intro x t' ht'
      simp only [Heap.step] at ht' ⊢
      rw [hgetd] at ht'
      by_cases hx : x = addr
      · simp [hx] at ht'
      · simp only [hx, if_false] at ht'
        exact hok.inv x t' ht'
    · intro x t' ht' c hc h0
      simp only [Heap.step] at ht' ⊢
      rw [hgetd] at ht'
      rw [hnamed]
      by_cases hx : x = addr
      · simp [hx] at ht'
      · simp only [hx, if_false] at ht'
        by_cases hca : c.id - 1 = addr
        · simp [hca]
        · simp only [hca, if_false]
          exact hok.coh x t' ht' c hc h0
    · intro x
      simp only [Heap.step, Heap.abs, hgetd]
      by_cases hx : x = addr
      · simp [hx]
      · simp only [hx, if_false, hr.1 x, Heap.abs]
    · intro x
      simp only [Heap.step, Heap.abs, hnamed]
      by_cases hx : x = addr
      · simp [hx]
      · simp only [hx, if_false, hr.2 x, Heap.abs]

theorem Heap.safe_cons (L : Layout) (h : Heap) (op : HOp) (ops : List HOp) :
    Heap.safe L h (op :: ops) = (op.safeIn L h && Heap.safe L (h.step L op).1 ops) := by
  cases op <;> rfl

/-- **histories over several type objects** -/
theorem Heap.run_spec {L : Layout} : ∀ (ops : List HOp) (h : Heap) (a : Abs), SlotsOK h.w.slots L.cacheNum →
    HeapOK L.cacheNum h → AbsRel h a → Heap.safe L h ops = true →
      (Heap.run L h ops).2 = specHeap L.maxInstances h.w.theType a ops ∧ HeapOK L.cacheNum (Heap.run L h ops).1
  | [], _, _, _, hok, _, _ => ⟨rfl, hok⟩
  | op :: ops, h, a, hs, hok, hr, hsafe => by
    rw [Heap.safe_cons, Bool.and_eq_true] at hsafe
    obtain ⟨a', hspec, hok', hr', hsl, htt⟩ := Heap.step_spec hs hok hr op hsafe.1 ops
    have hs' : SlotsOK (h.step L op).1.w.slots L.cacheNum := by rw [hsl]; exact hs
    have ih := Heap.run_spec ops (h.step L op).1 a' hs' hok' hr' hsafe.2
    simp only [Heap.run]
    rw [hspec, ih.1, htt]
    exact ⟨rfl, ih.2⟩

theorem absRel_self (h : Heap) : AbsRel h h.abs := ⟨fun _ => rfl, fun _ => rfl⟩

theorem Heap.run_append (L : Layout) : ∀ (pre rest : List HOp) (h : Heap),
    Heap.run L h (pre ++ rest) = ((Heap.run L (Heap.run L h pre).1 rest).1, (Heap.run L h pre).2 ++ (Heap.run L (Heap.run L h pre).1 rest).2)
  | [], _, _ => rfl
  | op :: pre, rest, h => by
    simp only [List.cons_append, Heap.run]
    rw [Heap.run_append L pre rest (h.step L op).1]


/-- the executable heap invariant is the invariant of the theorems -/
theorem heapOK_of_okb {n : Nat} {h : Heap} (hb : h.okb n = true) : HeapOK n h := by
  simp only [Heap.okb, List.all_eq_true, Bool.and_eq_true, beq_iff_eq] at hb
  have hmem : ∀ tid t, h.w.get tid = some t → (tid, t) ∈ h.w.types := by
    intro tid t hget
    unfold World.get at hget
    simp only [Option.map_eq_some_iff] at hget
    obtain ⟨p, hp, rfl⟩ := hget
    have h1 := List.find?_some hp
    have h2 := List.mem_of_find?_eq_some hp
    simp only [decide_eq_true_eq] at h1
    rw [← h1]; exact h2
  constructor
  · intro tid t hget
    obtain ⟨⟨hi, hl⟩, _⟩ := hb _ (hmem tid t hget)
    have := inv_of_invb hi
    simp only at hl
    rw [hl] at this; exact this
  · intro tid t hget c hc h0
    obtain ⟨_, hm⟩ := hb _ (hmem tid t hget)
    have := hm c hc
    simp only [Bool.or_eq_true, beq_iff_eq] at this
    rcases this with (h' | h') | h'
    · exact absurd h' h0
    · exact Or.inl h'
    · exact Or.inr h'

end Cello.Dispatch
