/-
  CelloProofs/Lemmas/StrBytes.lean — helper lemmas for C16, part 4: the block-level libc operations of the model are
  the byte loops with one explicit index per byte (`storeBytes`, `strlenLoop`).
-/
import CelloProofs.Lemmas.Str
namespace Cello.Str

theorem storeBytes_eq_writeAt : ∀ (bs buf : List Byte) (off : Nat), off + bs.length ≤ buf.length →
    storeBytes buf off bs = writeAt buf off bs
  | [], buf, off, h => by simp [storeBytes, writeAt]
  | b :: bs, buf, off, h => by
    simp only [List.length_cons] at h
    have hlt : off < buf.length := by omega
    rw [storeBytes, storeBytes_eq_writeAt bs (buf.set off b) (off + 1) (by simp; omega)]
    simp only [writeAt, List.length_set, List.length_cons]
    rw [if_pos (by omega), if_pos (by omega)]
    rw [List.set_eq_take_append_cons_drop]
    simp only [hlt, if_true]
    have e1 : (buf.take off ++ b :: buf.drop (off + 1)).take (off + 1) = buf.take off ++ [b] := by
      have : (buf.take off ++ b :: buf.drop (off + 1)) = (buf.take off ++ [b]) ++ buf.drop (off + 1) := by simp
      rw [this, List.take_left' (by simp [Nat.min_eq_left (Nat.le_of_lt hlt)])]
    have e2 : (buf.take off ++ b :: buf.drop (off + 1)).drop (off + 1 + bs.length) = buf.drop (off + (bs.length + 1)) := by
      have : (buf.take off ++ b :: buf.drop (off + 1)) = (buf.take off ++ [b]) ++ buf.drop (off + 1) := by simp
      rw [this, List.drop_append]
      have hl : (buf.take off ++ [b]).length = off + 1 := by simp [Nat.min_eq_left (Nat.le_of_lt hlt)]
      rw [hl, List.drop_of_length_le (by omega), List.drop_drop]
      simp; congr 1; omega
    rw [e1, e2]; simp

theorem strlenLoop_eq : ∀ (fuel : Nat) (buf : List Byte) (off : Nat), buf.length - off ≤ fuel →
    strlenLoop buf off fuel = strlen buf off
  | 0, buf, off, h => by
    have : buf.drop off = [] := List.drop_of_length_le (by omega)
    simp [strlenLoop, strlen, cstrAt, this]
  | fuel + 1, buf, off, h => by
    simp only [strlenLoop]
    by_cases hlt : off < buf.length
    · rw [List.getElem?_eq_getElem hlt]
      simp only [strlen, cstrAt]
      rw [List.drop_eq_getElem_cons hlt, List.takeWhile_cons]
      by_cases hb : buf[off] = 0
      · simp [hb]
      · have := strlenLoop_eq fuel buf (off + 1) (by omega)
        simp only [strlen, cstrAt] at this
        simp [hb, this]; omega
    · have : buf.drop off = [] := List.drop_of_length_le (by omega)
      rw [List.getElem?_eq_none (by omega)]
      simp [strlen, cstrAt, this]

end Cello.Str
