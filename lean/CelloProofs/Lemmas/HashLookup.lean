/-
  Lemmas for C10, look-ups: `Tree_Get` / `Tree_Mem` on any search-tree shape find exactly the entry whose key is eq to the
  argument (the first — and, the keys descending strictly, the only — such entry of the iteration sequence).
-/
import Cello.Hash
import CelloProofs.Lemmas.HashVal
import CelloProofs.Lemmas.HashObj
import CelloProofs.Lemmas.HashOrder
import CelloProofs.Lemmas.HashTreeInv
import CelloProofs.Lemmas.HashShape
set_option linter.unusedSimpArgs false
set_option linter.unusedVariables false

namespace Cello.Hash

/-- the reference: the value of the first entry whose key is eq to `k` -/
def seqGet (addr : Nat → Bytes) (es : List (Scalar × Scalar)) (k : Scalar) : Option Scalar :=
  (es.find? (fun e => keyEq addr e.1 k)).map (·.2)

theorem seqGet_append (addr : Nat → Bytes) (xs ys : List (Scalar × Scalar)) (k : Scalar) :
    seqGet addr (xs ++ ys) k = (seqGet addr xs k).or (seqGet addr ys k) := by
  unfold seqGet
  rw [List.find?_append]
  cases List.find? (fun e => keyEq addr e.1 k) xs <;> simp

theorem seqGet_none_of_ne (addr : Nat → Bytes) (xs : List (Scalar × Scalar)) (k : Scalar)
    (h : ∀ x ∈ xs, keyEq addr x.1 k = false) : seqGet addr xs k = none := by
  unfold seqGet
  rw [List.find?_eq_none.mpr (fun x hx => by simp [h x hx])]
  rfl

/-- `e < k` and `e > y`: then `y < k` -/
theorem scalarCmp_below (addr : Nat → Bytes) (e y k : Scalar) (c p : Int)
    (hc : scalarCmp addr e k = some c) (hneg : c < 0) (hp : scalarCmp addr e y = some p) (hpos : 0 < p) :
    ∃ z, scalarCmp addr y k = some z ∧ z < 0 := by
  have h1 : scalarCmp addr k e = some (-c) := scalarCmp_neg_of_swap hc
  obtain ⟨z, hz, hzpos⟩ := scalarCmp_trans addr k e y (-c) p h1 (by omega) hp hpos
  exact ⟨-z, scalarCmp_neg_of_swap hz, by omega⟩

/-- **`Tree_Get` / `Tree_Mem` on any search-tree shape**: the descent finds the value stored under the key eq to `k` when the
    iteration sequence holds one, and nothing otherwise -/
theorem toList_shGet (addr : Nat → Bytes) (k : Scalar) (hk : k.isNaN = false) :
    ∀ (t : Sh), TreeSeq addr t.toList → (∀ e ∈ t.toList, e.1.ty = k.ty) → shGet addr t k = seqGet addr t.toList k := by
  intro t
  induction t with
  | nil => intro _ _; rfl
  | node l e r ihl ihr =>
    intro hseq hty
    simp only [Sh.toList] at hseq hty
    obtain ⟨hl, her, hlr⟩ := List.pairwise_append.mp hseq
    obtain ⟨he, hr⟩ := List.pairwise_cons.mp her
    obtain ⟨c, hc⟩ := scalarCmp_isSome_of_ty addr e.1 k (hty e (by simp))
    simp only [shGet, hc, Sh.toList]
    rw [seqGet_append]
    have hcons : seqGet addr (e :: r.toList) k = if keyEq addr e.1 k then some e.2 else seqGet addr r.toList k := by
      unfold seqGet; simp only [List.find?_cons]; cases keyEq addr e.1 k <;> simp
    by_cases h0 : c = 0
    · subst h0
      have hlno : seqGet addr l.toList k = none := seqGet_none_of_ne addr _ k (fun x hx => by
        obtain ⟨p, hp, hpos⟩ := hlr x hx e (by simp)
        obtain ⟨z, hz, hzpos⟩ := scalarCmp_congr_right addr x.1 e.1 k p hk hp hpos hc
        exact keyEq_false_of_pos hz hzpos)
      have hke : keyEq addr e.1 k = true := by simp [keyEq, hc]
      simp [hlno, hcons, hke]
    · by_cases hneg : c < 0
      · simp only [h0, hneg, if_false, if_true]
        rw [ihl hl (fun x hx => hty x (by simp [hx]))]
        have hke : keyEq addr e.1 k = false := keyEq_false_of_neg hc hneg
        have hrno : seqGet addr r.toList k = none := seqGet_none_of_ne addr _ k (fun y hy => by
          obtain ⟨p, hp, hpos⟩ := he y hy
          obtain ⟨z, hz, hzneg⟩ := scalarCmp_below addr e.1 y.1 k c p hc hneg hp hpos
          exact keyEq_false_of_neg hz hzneg)
        rw [hcons, hke, hrno]
        cases seqGet addr l.toList k <;> simp
      · simp only [h0, hneg, if_false]
        have hpos : 0 < c := by omega
        have hlno : seqGet addr l.toList k = none := seqGet_none_of_ne addr _ k (fun x hx => by
          obtain ⟨p, hp, hppos⟩ := hlr x hx e (by simp)
          obtain ⟨z, hz, hzpos⟩ := scalarCmp_trans addr x.1 e.1 k p c hp hppos hc hpos
          exact keyEq_false_of_pos hz hzpos)
        have hke : keyEq addr e.1 k = false := keyEq_false_of_pos hc hpos
        rw [hlno, hcons, hke, ihr hr (fun x hx => hty x (by simp [hx]))]
        simp

end Cello.Hash

namespace Cello.Hash

/-- `Tree_Set` under a key eq to a stored one overwrites that entry — no second entry; under any other key it adds one -/
theorem treeSet_length (addr : Nat → Bytes) (k v : Scalar) :
    ∀ (es : List (Scalar × Scalar)), TreeSeq addr es → (∀ e ∈ es, e.1.ty = k.ty) →
      (treeSet addr es k v).length = if es.any (fun e => keyEq addr e.1 k) then es.length else es.length + 1 := by
  intro es
  induction es with
  | nil => intro _ _; rfl
  | cons e rest ih =>
    intro hseq hty
    obtain ⟨he, hrest⟩ := List.pairwise_cons.mp hseq
    obtain ⟨c, hc⟩ := scalarCmp_isSome_of_ty addr e.1 k (hty e (by simp))
    simp only [treeSet, hc, List.any_cons]
    by_cases h0 : c = 0
    · subst h0
      have : keyEq addr e.1 k = true := by simp [keyEq, hc]
      simp [this]
    · by_cases hneg : c < 0
      · have hke : keyEq addr e.1 k = false := keyEq_false_of_neg hc hneg
        have hno : rest.any (fun e => keyEq addr e.1 k) = false := by
          rw [List.any_eq_false]
          intro y hy
          obtain ⟨p, hp, hpos⟩ := he y hy
          obtain ⟨z, hz, hzneg⟩ := scalarCmp_below addr e.1 y.1 k c p hc hneg hp hpos
          simp [keyEq_false_of_neg hz hzneg]
        simp [h0, hneg, hke, hno]
      · have hke : keyEq addr e.1 k = false := keyEq_false_of_pos hc (by omega)
        simp only [h0, hneg, if_false, List.length_cons, hke, Bool.false_or]
        rw [ih hrest (fun x hx => hty x (by simp [hx]))]
        split <;> rfl

end Cello.Hash
