/-
  Lemmas for the block-level layer of engine `fmt` (C14): `String_Format_To`'s two-pass sizing, `File_Format_To`, argument types.
-/
import Cello.FmtSize
import CelloGen.Fmt
import CelloProofs.Lemmas.FmtNow

namespace Cello.Fmt

/-- `String_Format_To` as the translator reads it from src/String.c -/
def sftNow : SftProg :=
  SftProg.ofGen CelloGen.Fmt.stringFormatToSteps CelloGen.Fmt.stringFormatToReallocSize CelloGen.Fmt.stringFormatToWriteOffset

/-- the program the block-level lemmas were proved about: measure, guard, alloc check, `realloc(val, pos + size + 1)`, NULL check,
    `vsprintf(val + pos, …)` -/
def sftModelled : SftProg :=
  ⟨[.measure, .guard, .allocCheck, .realloc, .memCheck, .write], [.pos, .size, .lit 1], [.pos]⟩

/-- the variant without room for the terminator: `realloc(val, pos + size)` -/
def sftNoTerminator : SftProg := { sftModelled with reallocSize := [.pos, .size] }

/-- the variant that writes one byte late: `vsprintf(val + pos + 1, …)` -/
def sftLate : SftProg := { sftModelled with writeOff := [.pos, .lit 1] }

def fftNow : List FStep := CelloGen.Fmt.fileFormatToSteps.map FStep.ofCode

theorem reallocBlk_length (b : List Cell) (m : Nat) : (reallocBlk b m).length = m := by
  simp [reallocBlk, List.length_take]; omega

theorem reallocBlk_take (b : List Cell) (m k : Nat) (hk : k ≤ b.length) (hm : k ≤ m) : (reallocBlk b m).take k = b.take k := by
  unfold reallocBlk
  rw [List.take_append_of_le_length (by simp [List.length_take]; omega), List.take_take]
  congr 1; omega

theorem writeAt_exact (b : List Cell) (off : Nat) (bytes : Str) (h : b.length = off + bytes.length) :
    writeAt b off bytes = some (b.take off ++ bytes.map some) := by
  unfold writeAt
  rw [if_pos (by omega), List.drop_of_length_le (by omega)]; simp

theorem writeAt_short (b : List Cell) (off : Nat) (bytes : Str) (h : b.length < off + bytes.length) : writeAt b off bytes = none := by
  unfold writeAt; rw [if_neg (by omega)]

/-- **the two-pass sizing, block level**: on any block that reaches the start position, an accepted call with text `t` leaves exactly the first
    `pos` bytes, then `t`, then the terminator — a block of `pos + |t| + 1` bytes — and returns `|t|`; for every `pos`, every length of `t` -/
theorem run_modelled (b : List Cell) (pos : Nat) (t : Str) (h : pos ≤ b.length) :
    sftModelled.run b pos t = .ret (b.take pos ++ (t ++ [NUL]).map some) t.length := by
  have hl : (reallocBlk b (pos + (t.length + (1 + 0)))).length = pos + (t.length + (1 + 0)) := reallocBlk_length _ _
  have hne : reallocBlk b (pos + (t.length + (1 + 0))) ≠ [] := by
    intro h0; rw [h0] at hl; simp at hl
  have hw := writeAt_exact (reallocBlk b (pos + (t.length + (1 + 0)))) (pos + 0) (t ++ [NUL]) (by rw [hl]; simp)
  rw [reallocBlk_take b _ (pos + 0) (by omega) (by omega)] at hw
  simp only [SftProg.run, sftModelled, sftAccept, szEval, List.foldr, SzAtom.eval, if_neg hne, hw]
  simp

/-- without the `+ 1` no accepted call comes back: the terminator lands outside the block (or, at `pos + |t| = 0`, `realloc(val, 0)` has freed
    it and the NULL check raises) -/
theorem run_noTerminator (b : List Cell) (pos : Nat) (t : Str) :
    (∃ b', sftNoTerminator.run b pos t = .ub b') ∨ (∃ b', sftNoTerminator.run b pos t = .raised b' .OutOfMemoryError) := by
  have hl : (reallocBlk b (pos + (t.length + 0))).length = pos + (t.length + 0) := reallocBlk_length _ _
  have hw := writeAt_short (reallocBlk b (pos + (t.length + 0))) (pos + 0) (t ++ [NUL]) (by rw [hl]; simp)
  by_cases hne : reallocBlk b (pos + (t.length + 0)) = []
  · right; refine ⟨[], ?_⟩
    simp only [SftProg.run, sftNoTerminator, sftModelled, sftAccept, szEval, List.foldr, SzAtom.eval, hne]
    simp
  · left; refine ⟨reallocBlk b (pos + (t.length + 0)), ?_⟩
    simp only [SftProg.run, sftNoTerminator, sftModelled, sftAccept, szEval, List.foldr, SzAtom.eval, if_neg hne, hw]

/-- one byte late: the terminator lands outside the block -/
theorem run_late (b : List Cell) (pos : Nat) (t : Str) : ∃ b', sftLate.run b pos t = .ub b' := by
  have hl : (reallocBlk b (pos + (t.length + (1 + 0)))).length = pos + (t.length + (1 + 0)) := reallocBlk_length _ _
  have hne : reallocBlk b (pos + (t.length + (1 + 0))) ≠ [] := by
    intro h0; rw [h0] at hl; simp at hl
  have hw := writeAt_short (reallocBlk b (pos + (t.length + (1 + 0)))) (pos + (1 + 0)) (t ++ [NUL]) (by rw [hl]; simp)
  refine ⟨reallocBlk b (pos + (t.length + (1 + 0))), ?_⟩
  simp only [SftProg.run, sftLate, sftModelled, sftAccept, szEval, List.foldr, SzAtom.eval, if_neg hne, hw]

/-! ## the C string in the block -/

theorem cstrCells_text (t : Str) (rest : List Cell) (h : ∀ c ∈ t, c ≠ NUL) : cstrCells (t.map some ++ some NUL :: rest) = some t := by
  induction t with
  | nil => simp [cstrCells]
  | cons c r ih =>
    have hc : c ≠ NUL := h c (by simp)
    simp only [List.map_cons, List.cons_append, cstrCells, if_neg hc, ih (fun x hx => h x (by simp [hx]))]
    rfl

/-- the C string of the block that holds `v` and its terminator is `v` (texts free of NUL bytes) -/
theorem cstr_blockOf (v : Str) (hv : ∀ c ∈ v, c ≠ NUL) : cstrCells (blockOf v) = some v := by
  have := cstrCells_text v [] hv
  simpa [blockOf] using this

/-! ## the whole call log replayed on the block -/

/-- the block follows the abstract String sink: invariant `b[0..pos) = v[0..pos)`, `pos ≤ |v|`, `pos ≤ |b|` -/
structure Follows (b : List Cell) (v : Str) (pos : Nat) : Prop where
  hb : pos ≤ b.length
  hv : pos ≤ v.length
  eq : b.take pos = (v.take pos).map some

theorem follows_blockOf (v : Str) (pos : Nat) (h : pos ≤ v.length) : Follows (blockOf v) v pos := by
  refine ⟨by simp [blockOf]; omega, h, ?_⟩
  simp only [blockOf, List.map_append, List.map_take]
  rw [List.take_append_of_le_length (by simp; exact h)]

/-- one accepted call: block = cells of (sink bytes ++ NUL) exactly, and the invariant holds at the new position -/
theorem follows_step (b : List Cell) (v : Str) (pos : Nat) (t : Str) (h : Follows b v pos) :
    sftModelled.run b pos t = .ret (blockOf (v.take pos ++ t)) t.length ∧ Follows (blockOf (v.take pos ++ t)) (v.take pos ++ t) (pos + t.length) := by
  refine ⟨?_, ?_⟩
  · rw [run_modelled b pos t h.hb, h.eq]; simp [blockOf]
  · exact follows_blockOf _ _ (by have := h.hv; simp [List.length_take]; omega)

/-- **the block follows the sink over a whole run**: replaying any call log (until the first call libc rejects) from a block that agrees with the
    String up to the start position never leaves the block, ends at the sink's position, and — once a call was accepted — the block is exactly the
    sink's bytes and one terminator -/
theorem replay_follows (prim : Prim) (cs : List Call) (b : List Cell) (o : Out) (v : Str) (ho : o.sink = .str v) (h : Follows b v o.pos) :
    ∃ b' p', replayBlock sftModelled prim cs b o.pos = (b', p', true) ∧
      (p' = o.pos ∧ b' = b ∨ ∃ v', b' = blockOf v' ∧ p' = v'.length) := by
  induction cs generalizing b o v with
  | nil => exact ⟨b, o.pos, rfl, .inl ⟨rfl, rfl⟩⟩
  | cons c r ih =>
    unfold replayBlock
    by_cases hr : prim.rej c.frag c.val = true
    · rw [if_pos hr]; exact ⟨b, o.pos, rfl, .inl ⟨rfl, rfl⟩⟩
    · rw [if_neg hr]
      obtain ⟨hrun, hf⟩ := follows_step b v o.pos (prim.text c.frag c.val) h
      rw [hrun]
      have := ih (blockOf (v.take o.pos ++ prim.text c.frag c.val))
        ⟨.str (v.take o.pos ++ prim.text c.frag c.val), o.pos + (prim.text c.frag c.val).length, o.calls⟩ _ rfl hf
      obtain ⟨b', p', he, hc⟩ := this
      refine ⟨b', p', he, .inr ?_⟩
      rcases hc with ⟨hp, hb⟩ | hc
      · refine ⟨_, hb, ?_⟩
        rw [hp]; simp [List.length_take]; have := h.hv; omega
      · exact hc

theorem emitAll_cons (prim : Prim) (o : Out) (c : Call) (r : List Call) :
    emitAll prim o (c :: r) = emitAll prim (o.formatTo prim c.frag c.val) r := rfl

/-- **block and abstract sink agree over a whole log of accepted calls**: the block replay ends exactly where `emitAll` (the fold the closed-form
    theorems are stated with) ends; after at least one call the block is the sink's bytes and one terminator, `|bytes| + 1` long -/
theorem replay_emitAll (prim : Prim) (cs : List Call) (hacc : ∀ c ∈ cs, prim.rej c.frag c.val = false)
    (b : List Cell) (o : Out) (v : Str) (ho : o.sink = .str v) (h : Follows b v o.pos) :
    ∃ v' b', (emitAll prim o cs).sink = .str v' ∧ replayBlock sftModelled prim cs b o.pos = (b', (emitAll prim o cs).pos, true) ∧
      Follows b' v' (emitAll prim o cs).pos ∧ (cs ≠ [] → b' = blockOf v' ∧ v'.length = (emitAll prim o cs).pos) := by
  induction cs generalizing b o v with
  | nil => exact ⟨v, b, ho, rfl, h, fun hne => absurd rfl hne⟩
  | cons c r ih =>
    have hr : prim.rej c.frag c.val = false := hacc c (by simp)
    obtain ⟨hrun, hf⟩ := follows_step b v o.pos (prim.text c.frag c.val) h
    have hs : (o.formatTo prim c.frag c.val).sink = .str (v.take o.pos ++ prim.text c.frag c.val) := by
      simp [Out.formatTo, hr, ho, Sink.write]
    have hp : (o.formatTo prim c.frag c.val).pos = o.pos + (prim.text c.frag c.val).length := by
      simp [Out.formatTo, hr]
    obtain ⟨v', b', h1, h2, h3, h4⟩ := ih (fun x hx => hacc x (by simp [hx])) (blockOf (v.take o.pos ++ prim.text c.frag c.val))
      (o.formatTo prim c.frag c.val) _ hs (by rw [hp]; exact hf)
    refine ⟨v', b', by rw [emitAll_cons]; exact h1, ?_, by rw [emitAll_cons]; exact h3, fun _ => ?_⟩
    · rw [emitAll_cons]; unfold replayBlock; simp only [hr, Bool.false_eq_true, if_false, hrun]; rw [← hp]; exact h2
    · rw [emitAll_cons]
      by_cases hrn : r = []
      · subst hrn
        simp only [emitAll, List.foldl] at h1 h2 h3 ⊢
        rw [hs] at h1; cases h1
        simp only [replayBlock] at h2
        refine ⟨(Prod.mk.inj h2).1.symm, ?_⟩
        rw [hp]; have := h.hv; simp [List.length_take]; omega
      · exact h4 hrn

/-! ## `File_Format_To` -/

theorem fftNow_eq : fftNow = [.nullCheck, .write] := by decide

/-- on an open stream the text is appended and its length comes back — the count `String_Format_To` returns for the same call -/
theorem fft_open (c t : Str) : fftAccept t [.nullCheck, .write] (some c) = .ret (some (c ++ t)) t.length := by
  simp [fftAccept]

theorem fft_closed (t : Str) : fftAccept t [.nullCheck, .write] none = .ioError none := by
  simp [fftAccept]

/-! ## argument types -/

/-- for conversion `c` under length modifier `lm`: exactly one dispatch arm fires, the value it passes lives in the register class `printf` fetches
    from, and is at least as wide as what `printf` fetches -/
def argTypeOK (types : List (String × String)) (cfg : Cfg) (lm : Str) (c : Char) : Bool :=
  match firing cfg c, printfReads lm c with
  | [k], some (cls, rb, _) =>
    match passedSlot types k with
    | some (pc, pb) => pc == cls && decide (rb ≤ pb)
    | none => false
  | _, _ => false

/-- every length modifier of C (and none) -/
def allLens : List Str := [[], ['h', 'h'], ['h'], ['l'], ['l', 'l'], ['j'], ['z'], ['t'], ['L']]

end Cello.Fmt
