/-
  C04 helper lemmas: one step of the List model against the abstract step; `List_At`; observations.
-/
import CelloProofs.Lemmas.SeqBasic

namespace Cello.Seq
variable {α : Type}

namespace Lst

/-- the counter field agrees with the chain -/
def Inv (l : Lst α) : Prop := l.nitems = l.items.length

/-- `List_At` reaches the node of the abstract index whichever end it starts from -/
theorem nodeAt_some (l : Lst α) (h : l.Inv) (i : Int) (k : Nat) (hk : Spec.idx l.items.length i = some k) :
    ∃ x, l.items[k]? = some x ∧ l.nodeAt i = .ok (k, x) := by
  obtain ⟨h1, h2, h3⟩ := idx_some _ _ _ hk
  unfold Inv at h
  have h1' : ¬ (normIdx l.nitems i < 0 ∨ normIdx l.nitems i ≥ (l.nitems : Int)) := by rw [h]; exact h1
  have h2' : (normIdx l.nitems i).toNat = k := by rw [h]; exact h2
  refine ⟨l.items[k], List.getElem?_eq_getElem h3, ?_⟩
  unfold nodeAt
  simp only
  rw [if_neg h1', h2']
  by_cases hhalf : k ≤ l.nitems / 2
  · rw [if_pos hhalf, walk_eq, List.getElem?_eq_getElem h3]
  · rw [if_neg hhalf, walk_eq]
    have hb : l.nitems - k - 1 < l.items.reverse.length := by simp; omega
    rw [List.getElem?_eq_getElem hb]
    simp only [List.getElem_reverse]
    have e1 : l.items.length - 1 - (l.nitems - k - 1) = k := by omega
    simp only [e1]

theorem nodeAt_none (l : Lst α) (h : l.Inv) (i : Int) (hk : Spec.idx l.items.length i = none) :
    l.nodeAt i = .raised .indexOutOfBounds := by
  unfold Inv at h
  have hc : normIdx l.nitems i < 0 ∨ normIdx l.nitems i ≥ (l.nitems : Int) := by rw [h]; exact idx_none _ _ hk
  unfold nodeAt
  simp only
  rw [if_pos hc]

theorem foldl_push (ys : List α) : ∀ (l : Lst α),
    ys.foldl (fun l y => (l.push y).1) l = ⟨l.items ++ ys, l.nitems + ys.length⟩ := by
  induction ys with
  | nil => intro l; simp
  | cons y ys ih =>
    intro l
    rw [List.foldl_cons, ih]
    simp only [push, List.append_assoc, List.singleton_append, List.length_cons]
    congr 1; omega

theorem step_refines [BEq α] [ZeroIsValue α] (l : Lst α) (hinv : l.Inv) (op : Op α) (l' : List α)
    (h : Spec.lstStep l.items op = some l') :
    (l.step op).2 = .ok () ∧ (l.step op).1.items = l' ∧ (l.step op).1.Inv := by
  have hi : l.nitems = l.items.length := hinv
  cases op with
  | push x => simp [Spec.lstStep] at h; subst h; simp [step, push, Inv, hi]
  | append x => simp [Spec.lstStep] at h; subst h; simp [step, push, Inv, hi]
  | pop =>
    simp only [Spec.lstStep] at h
    by_cases he : l.items.isEmpty = true
    · rw [if_pos he] at h; cases h
    · rw [if_neg he] at h; cases h
      have hne : l.nitems ≠ 0 := by
        rw [hi]; intro h0; exact he (by simp [List.eq_nil_of_length_eq_zero h0])
      simp only [step, pop]
      rw [if_neg hne]
      simp [Inv, hi]
  | pushAt x i =>
    simp only [Spec.lstStep] at h
    simp only [step, pushAt]
    by_cases h0 : i = 0
    · rw [if_pos h0] at h ⊢; cases h; simp [Inv, hi]
    · rw [if_neg h0] at h ⊢
      simp only [Option.map_eq_some_iff] at h
      obtain ⟨k, hk, rfl⟩ := h
      obtain ⟨x0, _, hn⟩ := nodeAt_some l hinv i k hk
      obtain ⟨_, _, h3⟩ := idx_some _ _ _ hk
      rw [hn]
      simp only [take_cons_drop_eq_insertIdx _ _ _ (Nat.le_of_lt h3), true_and]
      simp [Inv, hi, List.length_insertIdx, Nat.le_of_lt h3]
  | popAt i =>
    simp only [Spec.lstStep, Option.map_eq_some_iff] at h
    obtain ⟨k, hk, rfl⟩ := h
    obtain ⟨x0, _, hn⟩ := nodeAt_some l hinv i k hk
    obtain ⟨_, _, h3⟩ := idx_some _ _ _ hk
    simp only [step, popAt, hn, take_drop_succ_eq_eraseIdx, true_and]
    simp [Inv, hi, List.length_eraseIdx, h3]
  | set i x =>
    simp only [Spec.lstStep, Option.map_eq_some_iff] at h
    obtain ⟨k, hk, rfl⟩ := h
    obtain ⟨x0, _, hn⟩ := nodeAt_some l hinv i k hk
    simp only [step, set, hn, true_and]
    simp [Inv, hi]
  | rem x =>
    simp only [Spec.lstStep] at h
    by_cases hm0 : Spec.mem l.items x = true
    · rw [if_pos hm0] at h
      have hm : l.items.any (· == x) = true := hm0
      cases h
      simp only [step, rem]
      cases hf : l.items.findIdx? (· == x) with
      | none => rw [(findIdx?_none_any _ _).1 hf] at hm; cases hm
      | some k =>
        obtain ⟨hk, he⟩ := findIdx?_erase _ _ _ hf
        simp only [take_drop_succ_eq_eraseIdx, he, true_and]
        simp [Inv, hi, ← he, List.length_eraseIdx, hk]
    · rw [if_neg hm0] at h; cases h
  | concat ys =>
    simp [Spec.lstStep] at h
    subst h
    simp only [step, concat, foldl_push, true_and]
    simp [Inv, hi]
  | resize n =>
    simp only [Spec.lstStep] at h
    have hc : (ZeroIsValue.zeroOk α || decide (n ≤ l.items.length)) = true := by
      by_cases hc : (ZeroIsValue.zeroOk α || decide (n ≤ l.items.length)) = true
      · exact hc
      · rw [if_neg hc] at h; cases h
    rw [if_pos hc] at h
    simp only [Option.some.injEq] at h
    have hrg : l.rawGrow (.resize n) = false := by
      simp only [rawGrow, hi]
      simp only [Bool.or_eq_true, decide_eq_true_eq] at hc
      rcases hc with hz | hle
      · simp [hz]
      · simp; intro _; omega
    simp only [step, hrg, Bool.false_eq_true, if_false, resize]
    by_cases hn : n = 0
    · rw [if_pos hn]; subst hn; simp at h; subst h; simp [clear, Inv]
    · rw [if_neg hn]
      subst h
      simp only [true_and, Inv, hi]
      by_cases hle : n ≤ l.items.length
      · have eA : l.items.length - (l.items.length - n) = n := by omega
        have eB : n - (l.items.length - (l.items.length - n)) = 0 := by omega
        have eC : n - l.items.length = 0 := by omega
        simp only [eA, eB, eC]
        simp; omega
      · have eA : l.items.length - (l.items.length - n) = l.items.length := by omega
        have eB : n - (l.items.length - (l.items.length - n)) = n - l.items.length := by omega
        simp only [eA, eB]
        rw [List.take_of_length_le (Nat.le_refl _), List.take_of_length_le (by omega)]
        simp
  | sort f => simp [Spec.lstStep] at h
  | assign ys b =>
    cases b
    · simp [Spec.lstStep] at h
    · simp [Spec.lstStep] at h
      subst h
      simp only [step, assign, concat, clear, foldl_push, true_and, if_true]
      simp [Inv]

theorem step_out_of_range [BEq α] [ZeroIsValue α] (l : Lst α) (hinv : l.Inv) (op : Op α) (hop : op.iterAssign = false)
    (hrg : l.rawGrow op = false) (h : Spec.lstStep l.items op = none) : (l.step op).1 = l ∧ ∃ e, (l.step op).2 = .raised e := by
  have hi : l.nitems = l.items.length := hinv
  cases op with
  | push x => simp [Spec.lstStep] at h
  | append x => simp [Spec.lstStep] at h
  | pop =>
    simp only [Spec.lstStep] at h
    by_cases he : l.items.isEmpty = true
    · have h0 : l.nitems = 0 := by rw [hi]; simpa [List.isEmpty_iff] using he
      simp [step, pop, h0]
    · rw [if_neg he] at h; cases h
  | pushAt x i =>
    simp only [Spec.lstStep] at h
    by_cases h0 : i = 0
    · rw [if_pos h0] at h; cases h
    · rw [if_neg h0] at h
      simp only [Option.map_eq_none_iff] at h
      simp [step, pushAt, h0, nodeAt_none l hinv i h]
  | popAt i =>
    simp only [Spec.lstStep, Option.map_eq_none_iff] at h
    simp [step, popAt, nodeAt_none l hinv i h]
  | set i x =>
    simp only [Spec.lstStep, Option.map_eq_none_iff] at h
    simp [step, set, nodeAt_none l hinv i h]
  | rem x =>
    simp only [Spec.lstStep] at h
    by_cases hm0 : Spec.mem l.items x = true
    · rw [if_pos hm0] at h; cases h
    · have hm' : l.items.any (· == x) = false := by simpa [Spec.mem] using hm0
      simp [step, rem, (findIdx?_none_any _ _).2 hm']
  | concat ys => simp [Spec.lstStep] at h
  | resize n =>
    simp only [Spec.lstStep] at h
    by_cases hc : (ZeroIsValue.zeroOk α || decide (n ≤ l.items.length)) = true
    · rw [if_pos hc] at h; cases h
    · exfalso
      simp only [rawGrow, hi] at hrg
      simp only [Bool.or_eq_true, decide_eq_true_eq, not_or] at hc
      obtain ⟨hz, hle⟩ := hc
      have hz' : ZeroIsValue.zeroOk α = false := by simpa using hz
      rw [hz'] at hrg
      simp at hrg
      omega
  | sort f => simp [step, sortBy]
  | assign ys b =>
    cases b
    · simp [Op.iterAssign] at hop
    · simp [Spec.lstStep] at h

/-- in the territory of KF-C04-list-resize-raw the List is grown and the outcome is `.ub` -/
theorem step_rawGrow [BEq α] [ZeroIsValue α] (l : Lst α) (op : Op α) (hrg : l.rawGrow op = true) :
    (l.step op).2 = .ub ∧ ∃ n, op = .resize n ∧ (l.step op).1 = (l.resize n).1 := by
  cases op with
  | resize n => exact ⟨by simp [step, hrg], n, rfl, by simp [step, hrg]⟩
  | _ => simp [rawGrow] at hrg

theorem get_eq (l : Lst α) (hinv : l.Inv) (i : Int) :
    l.get i = match Spec.get l.items i with
      | some x => .ok x
      | none => .raised .indexOutOfBounds := by
  unfold get Spec.get
  cases hk : Spec.idx l.items.length i with
  | none => simp [nodeAt_none l hinv i hk]
  | some k =>
    obtain ⟨x, hx, hn⟩ := nodeAt_some l hinv i k hk
    simp [hn, hx]

theorem iterFwd_eq (l : Lst α) (hinv : l.Inv) : l.iterFwd = some l.items := by
  have hi : l.nitems = l.items.length := hinv
  unfold iterFwd iterInit
  by_cases h0 : l.items.length = 0
  · simp [hi, h0, collect_none, List.eq_nil_of_length_eq_zero h0]
  · rw [if_neg (by omega)]
    have := collect_fwd l.items l.iterNext (by intro k hk; rfl) (l.items.length + 1) 0 (by omega) (by omega)
    simpa using this

theorem iterBwd_eq (l : Lst α) (hinv : l.Inv) : l.iterBwd = some l.items.reverse := by
  have hi : l.nitems = l.items.length := hinv
  unfold iterBwd iterLast
  by_cases h0 : l.items.length = 0
  · simp [hi, h0, collect_none, List.eq_nil_of_length_eq_zero h0]
  · rw [if_neg (by omega)]
    have := collect_bwd l.items l.iterPrev (by intro k; rfl) (l.items.length + 1) (l.items.length - 1) (by omega) (by omega)
    rw [this]
    have : l.items.length - 1 + 1 = l.items.length := by omega
    simp [this]

end Lst
end Cello.Seq
