import Cello.Fail
import CelloProofs.Lemmas.Fail
import CelloProofs.Lemmas.FailSpec
import CelloProofs.Lemmas.FailAux
/-
  C12: lemmas about containers whose elements are containers (`Nest`): what `assign` into a container slot does.
-/
namespace Cello.Fail

/-- `assign` into a container slot from a container object never raises (same kind: succeeds; another kind: not modelled) -/
theorem Inner.assign_cont (slot c : Inner) : ∀ e, (slot.assign (.cont c)).2 ≠ .raised e := by
  intro e
  cases slot <;> cases c <;> simp [Inner.assign]

theorem Inner.assign_kind (slot : Inner) (src : NSrc) : (slot.assign src).1.kind = slot.kind := by
  cases slot <;> cases src with
  | val v => simp only [Inner.assign]; rfl
  | cont c => cases c <;> simp [Inner.assign, Inner.kind]

/-- the exception of `assign(slot, src)` for a slot of kind `ek` -/
theorem Inner.assign_exc (slot : Inner) (src : NSrc) (hs : src.argOk) :
    (slot.assign src).2.exc? = srcExc slot.kind src := by
  cases src with
  | cont c => cases slot <;> cases c <;> simp [Inner.assign, srcExc, R.exc?]
  | val v =>
    cases v with
    | int i => cases slot <;> simp [Inner.assign, Arr.assign, Lst.assign, Tab.assign, srcExc, Inner.kind, R.exc?]
    | plain p => cases slot <;> simp [Inner.assign, Arr.assign, Lst.assign, Tab.assign, srcExc, Inner.kind, R.exc?]
    | null => cases slot <;> simp [Inner.assign, Arr.assign, Lst.assign, Tab.assign, srcExc, Inner.kind, R.exc?]
    | str s => simp [NSrc.argOk] at hs
    | nullstr => simp [NSrc.argOk] at hs

theorem Inner.zero_kind (ek : IK) : (Inner.zero ek).kind = ek := by cases ek <;> rfl

theorem getD_kind (n : Nest) (hw : ∀ e ∈ n.items, e.kind = n.ek) (i : Nat) : (n.items.getD i (Inner.zero n.ek)).kind = n.ek := by
  by_cases h : i < n.items.length
  · have e : n.items[i]? = some n.items[i] := List.getElem?_eq_getElem h
    simp only [List.getD, e, Option.getD_some]; exact hw _ (List.getElem_mem h)
  · have e : n.items[i]? = none := List.getElem?_eq_none (by omega)
    simp only [List.getD, e, Option.getD_none]; exact Inner.zero_kind _


theorem Inner.mem_set_kind (n : Nest) (hw : ∀ e ∈ n.items, e.kind = n.ek) (i : Nat) (e' : Inner) (he : e'.kind = n.ek) :
    ∀ x ∈ n.items.set i e', x.kind = n.ek := by
  intro x hx
  rcases mem_set' _ _ _ _ hx with h | h
  · subst h; exact he
  · exact hw x h

end Cello.Fail
