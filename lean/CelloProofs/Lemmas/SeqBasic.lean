/-
  Helper lemmas for C04 (engine `seq`): list surgery = abstract list operations, index normalisation,
  the iterator protocol driven over positions.  Core Lean only.
-/
import Cello.Seq

namespace Cello.Seq
variable {α : Type}

/-! ### list surgery -/

theorem take_cons_drop_eq_insertIdx (l : List α) (k : Nat) (x : α) (h : k ≤ l.length) :
    l.take k ++ x :: l.drop k = l.insertIdx k x := by
  induction l generalizing k with
  | nil => cases k <;> simp_all
  | cons y ys ih =>
    cases k with
    | zero => simp
    | succ k => simp at h; simp [ih k h]

theorem take_drop_succ_eq_eraseIdx (l : List α) (k : Nat) : l.take k ++ l.drop (k + 1) = l.eraseIdx k :=
  (List.eraseIdx_eq_take_drop_succ l k).symm

/-- the first position with `eq(item, x)`: erasing it is `List.erase` -/
theorem findIdx?_erase [BEq α] (l : List α) (x : α) (i : Nat) (h : l.findIdx? (· == x) = some i) :
    i < l.length ∧ l.eraseIdx i = l.erase x := by
  induction l generalizing i with
  | nil => simp at h
  | cons y ys ih =>
    simp only [List.findIdx?_cons] at h
    by_cases hy : (y == x) = true
    · simp [hy] at h; subst h; simp [List.erase_cons, hy]
    · simp [hy] at h
      obtain ⟨j, hj, rfl⟩ := h
      have := ih j hj
      simp [hy, this.2]; exact this.1

/-- the same for an arbitrary predicate (Tuple_Rem tests `eq(x, item)`) -/
theorem findIdx?_eraseP (p : α → Bool) (l : List α) (i : Nat) (h : l.findIdx? p = some i) :
    i < l.length ∧ l.eraseIdx i = l.eraseP p := by
  induction l generalizing i with
  | nil => simp at h
  | cons y ys ih =>
    simp only [List.findIdx?_cons] at h
    by_cases hy : p y = true
    · simp [hy] at h; subst h; simp [hy]
    · simp [hy] at h
      obtain ⟨j, hj, rfl⟩ := h
      have := ih j hj
      simp [hy, this.2]; exact this.1

theorem findIdx?_none_any (p : α → Bool) (l : List α) : l.findIdx? p = none ↔ l.any p = false := by
  simp [List.findIdx?_eq_none_iff]

theorem findIdx?_some_any (p : α → Bool) (l : List α) (i : Nat) (h : l.findIdx? p = some i) : l.any p = true := by
  cases hn : l.any p with
  | true => rfl
  | false => rw [(findIdx?_none_any p l).2 hn] at h; cases h

theorem walk_eq (l : List α) (k : Nat) : walk l k = l[k]? := by
  induction l generalizing k with
  | nil => simp [walk]
  | cons y ys ih => cases k <;> simp [walk, ih]

/-! ### index normalisation -/

/-- `normIdx` + the bounds check of the C code = the abstract index -/
theorem idx_some (n : Nat) (i : Int) (k : Nat) (h : Spec.idx n i = some k) :
    ¬ (normIdx n i < 0 ∨ normIdx n i ≥ (n : Int)) ∧ (normIdx n i).toNat = k ∧ k < n := by
  unfold Spec.idx at h
  unfold normIdx
  split at h
  · cases h; omega
  · split at h
    · cases h; omega
    · cases h

theorem idx_none (n : Nat) (i : Int) (h : Spec.idx n i = none) :
    normIdx n i < 0 ∨ normIdx n i ≥ (n : Int) := by
  unfold Spec.idx at h
  unfold normIdx
  split at h
  · cases h
  · split at h
    · cases h
    · omega

theorem arrInsIdx_some (n : Nat) (i : Int) (k : Nat) (h : Spec.arrInsIdx n i = some k) :
    ¬ (pushIdx n i < 0 ∨ pushIdx n i > (n : Int)) ∧ (pushIdx n i).toNat = k ∧ k ≤ n := by
  unfold Spec.arrInsIdx at h
  unfold pushIdx
  split at h
  · cases h; omega
  · split at h
    · cases h; omega
    · cases h

theorem arrInsIdx_none (n : Nat) (i : Int) (h : Spec.arrInsIdx n i = none) :
    pushIdx n i < 0 ∨ pushIdx n i > (n : Int) := by
  unfold Spec.arrInsIdx at h
  unfold pushIdx
  split at h
  · cases h
  · split at h
    · cases h
    · omega

/-! ### the iterator protocol over positions (Array: element addresses; List: nodes) -/

theorem collect_none {σ : Type} (next : σ → Option σ) (read : σ → Option α) (fuel : Nat) :
    collect next read fuel none = some [] := by cases fuel <;> rfl

/-- forward: from position `k`, stepping `+1` until the last position -/
theorem collect_fwd (l : List α) (next : Nat → Option Nat)
    (hnext : ∀ k, k < l.length → next k = if k + 1 < l.length then some (k + 1) else none) :
    ∀ (fuel k : Nat), k < l.length → l.length - k ≤ fuel →
      collect next (fun k => l[k]?) fuel (some k) = some (l.drop k) := by
  intro fuel
  induction fuel with
  | zero => intro k hk hf; omega
  | succ fuel ih =>
    intro k hk hf
    simp only [collect, List.getElem?_eq_getElem hk, hnext k hk]
    by_cases hlast : k + 1 < l.length
    · simp only [hlast, if_true, ih (k + 1) hlast (by omega), Option.map_some]
      rw [← List.getElem_cons_drop hk]
    · simp only [hlast, if_false, collect_none, Option.map_some]
      rw [List.drop_eq_getElem_cons hk, List.drop_eq_nil_of_le (by omega)]

/-- backward: from position `k`, stepping `-1` until position 0 -/
theorem collect_bwd (l : List α) (prev : Nat → Option Nat)
    (hprev : ∀ k, prev k = if k = 0 then none else some (k - 1)) :
    ∀ (fuel k : Nat), k < l.length → k + 1 ≤ fuel →
      collect prev (fun k => l[k]?) fuel (some k) = some ((l.take (k + 1)).reverse) := by
  intro fuel
  induction fuel with
  | zero => intro k hk hf; omega
  | succ fuel ih =>
    intro k hk hf
    simp only [collect, List.getElem?_eq_getElem hk, hprev k]
    cases k with
    | zero =>
      simp only [if_true, collect_none, Option.map_some]
      rw [List.take_succ_eq_append_getElem hk]
      rfl
    | succ k =>
      simp only [Nat.add_one_ne_zero, if_false, Nat.add_sub_cancel, ih k (by omega) (by omega), Option.map_some]
      have h2 := List.take_succ_eq_append_getElem hk
      rw [h2, List.reverse_append]
      rfl

end Cello.Seq
