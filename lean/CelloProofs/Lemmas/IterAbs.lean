/- helper lemmas for C11: iterables that ABSORB a Terminal cursor (`Traces`: Terminal is answered again at every further call) —
   Tuple, Range, and Map / Filter / Slice over them; the stride lemma behind Slice iteration over such iterables -/
import CelloProofs.Lemmas.IterRun
import CelloProofs.Lemmas.IterRange
import CelloProofs.Lemmas.IterContainers

namespace Cello.Iter

variable {σ α β : Type}

/-! ### stepN -/

theorem stepN_undef (step : σ → σ × Res α) (s : σ) : ∀ k, stepN step k (s, .undef) = (s, .undef)
  | 0 => rfl
  | _ + 1 => rfl

theorem stepN_hang (step : σ → σ × Res α) (s : σ) : ∀ k, stepN step k (s, .hang) = (s, .hang)
  | 0 => rfl
  | _ + 1 => rfl

@[simp] theorem stepN_zero (step : σ → σ × Res α) (r : σ × Res α) : stepN step 0 r = r := rfl

theorem stepN_succ_item (step : σ → σ × Res α) (k : Nat) (s : σ) (a : α) :
    stepN step (k + 1) (s, .item a) = stepN step k (step s) := rfl

theorem stepN_succ_term (step : σ → σ × Res α) (k : Nat) (s : σ) :
    stepN step (k + 1) (s, .term) = stepN step k (step s) := rfl

theorem stepN_add (step : σ → σ × Res α) : ∀ (a b : Nat) (r : σ × Res α),
    stepN step (a + b) r = stepN step b (stepN step a r)
  | 0, b, r => by simp
  | a + 1, b, (s, .item x) => by
    have : a + 1 + b = (a + b) + 1 := by omega
    rw [this, stepN_succ_item, stepN_succ_item]; exact stepN_add step a b _
  | a + 1, b, (s, .term) => by
    have : a + 1 + b = (a + b) + 1 := by omega
    rw [this, stepN_succ_term, stepN_succ_term]; exact stepN_add step a b _
  | a + 1, b, (s, .undef) => by rw [stepN_undef, stepN_undef, stepN_undef]
  | a + 1, b, (s, .hang) => by rw [stepN_hang, stepN_hang, stepN_hang]

/-- a result that is an item or Terminal is handed on as a cursor: `c` further calls = one call and `c-1` more -/
theorem stepN_pos_of_ok (step : σ → σ × Res α) (c : Nat) (hc : 1 ≤ c) (r : σ × Res α)
    (hr : r.2 ≠ .undef ∧ r.2 ≠ .hang) : stepN step c r = stepN step (c - 1) (step r.1) := by
  obtain ⟨s, x⟩ := r
  obtain ⟨c', rfl⟩ : ∃ c', c = c' + 1 := ⟨c - 1, by omega⟩
  cases x with
  | item a => rfl
  | term => rfl
  | undef => exact absurd rfl hr.1
  | hang => exact absurd rfl hr.2

/-! ### resAt / Traces -/

@[simp] theorem resAt_nil (k : Nat) : resAt ([] : List α) k = .term := by simp [resAt]
@[simp] theorem resAt_cons_zero (a : α) (t : List α) : resAt (a :: t) 0 = .item a := by simp [resAt]
@[simp] theorem resAt_cons_succ (a : α) (t : List α) (k : Nat) : resAt (a :: t) (k + 1) = resAt t k := by simp [resAt]

theorem resAt_ok (l : List α) (k : Nat) : resAt l k ≠ .undef ∧ resAt l k ≠ .hang := by
  unfold resAt; cases l[k]? <;> simp

theorem resAt_map (f : α → β) (l : List α) (k : Nat) : resAt (l.map f) k = (resAt l k).map f := by
  unfold resAt; rw [List.getElem?_map]; cases l[k]? <;> rfl

theorem resAt_of_getElem? {l l' : List α} {k k' : Nat} (h : l[k]? = l'[k']?) : resAt l k = resAt l' k' := by
  unfold resAt; rw [h]

theorem Traces.head {step : σ → σ × Res α} {r : σ × Res α} {l : List α} (h : Traces step r l) : r.2 = resAt l 0 := h 0

theorem Traces.tail {step : σ → σ × Res α} {s : σ} {a : α} {t : List α} (h : Traces step (s, .item a) (a :: t)) :
    Traces step (step s) t := by
  intro k
  have := h (k + 1)
  rwa [stepN_succ_item, resAt_cons_succ] at this

/-- a traced walk is a walk -/
theorem Traces.run {step : σ → σ × Res α} : ∀ {l : List α} {r : σ × Res α}, Traces step r l → Run step r l
  | [], r, h => Run.of_term (by have := h 0; rwa [stepN_zero, resAt_nil] at this)
  | a :: t, (s, x), h => by
    have h0 : x = .item a := by have := h 0; rwa [stepN_zero, resAt_cons_zero] at this
    subst h0
    exact Run.item s a t (Traces.run h.tail)

/-- the `k`-th call along a traced walk -/
theorem Traces.drop {step : σ → σ × Res α} {r : σ × Res α} {l : List α} (h : Traces step r l) (a : Nat) :
    Traces step (stepN step a r) (l.drop a) := by
  intro k
  rw [← stepN_add, h (a + k)]
  exact resAt_of_getElem? (by rw [List.getElem?_drop])

/-- a walk that ends in a state from which every further call answers Terminal (and stays in such states) is traced -/
theorem Run.traces {step : σ → σ × Res α} (P : σ → Prop) (hP : ∀ s, P s → (step s).2 = .term ∧ P (step s).1)
    (hend : ∀ s, (step s).2 = .term → P (step s).1) {r : σ × Res α} {l : List α} (h : Run step r l)
    (hr : r.2 = .term → P r.1) : Traces step r l := by
  induction h with
  | term s =>
    have hs : P s := hr rfl
    intro k
    rw [resAt_nil]
    induction k generalizing s with
    | zero => rfl
    | succ k ih =>
      rw [stepN_succ_term]
      obtain ⟨h1, h2⟩ := hP s hs
      have e : step s = ((step s).1, .term) := by rw [← h1]
      rw [e]; exact ih _ (fun _ => h2) h2
  | item s a l _ ih =>
    intro k
    cases k with
    | zero => rw [stepN_zero, resAt_cons_zero]
    | succ k =>
      rw [stepN_succ_item, resAt_cons_succ]
      exact ih (hend s) k

/-! ### Map / embedding -/

theorem stepN_map (f : α → β) (step : σ → σ × Res α) : ∀ (k : Nat) (r : σ × Res α),
    stepN (fun s => ((step s).1, (step s).2.map f)) k (r.1, r.2.map f) =
      ((stepN step k r).1, (stepN step k r).2.map f)
  | 0, _ => rfl
  | k + 1, (s, .item a) => by
    show stepN _ k (_, _) = _
    rw [stepN_succ_item]; exact stepN_map f step k (step s)
  | k + 1, (s, .term) => by
    show stepN _ k (_, _) = _
    rw [stepN_succ_term]; exact stepN_map f step k (step s)
  | k + 1, (s, .undef) => by simp [Res.map, stepN_undef]
  | k + 1, (s, .hang) => by simp [Res.map, stepN_hang]

theorem Traces.map (f : α → β) {step : σ → σ × Res α} {r : σ × Res α} {l : List α} (h : Traces step r l) :
    Traces (fun s => ((step s).1, (step s).2.map f)) (r.1, r.2.map f) (l.map f) := by
  intro k
  rw [stepN_map, resAt_map, h k]

/-! ### Filter -/

/-- from a state in which Terminal is answered for ever, the skipping loop answers Terminal for ever -/
theorem sticky_skip (p : α → Bool) (step : σ → σ × Res α) (fuel : Nat) (hfuel : 0 < fuel) :
    ∀ (k : Nat) (s : σ), Traces step (s, .term) [] →
      (stepN (fun s => skipLoop p step fuel (step s)) k (s, .term)).2 = .term
  | 0, _, _ => rfl
  | k + 1, s, h => by
    rw [stepN_succ_term]
    have h1 : (step s).2 = .term := by have := h 1; rwa [stepN_succ_term, stepN_zero, resAt_nil] at this
    have e : step s = ((step s).1, .term) := by rw [← h1]
    obtain ⟨f', rfl⟩ : ∃ f', fuel = f' + 1 := ⟨fuel - 1, by omega⟩
    have hs : skipLoop p step (f' + 1) (step s) = ((step s).1, .term) := by rw [e]; rfl
    rw [hs]
    refine sticky_skip p step (f' + 1) hfuel k _ ?_
    intro j
    have := h (j + 1)
    rw [stepN_succ_term, e] at this
    simpa using this

theorem Traces.skip (p : α → Bool) (step : σ → σ × Res α) (fuel : Nat) {r : σ × Res α} {l : List α}
    (h : Run step r l) : Traces step r l → l.length < fuel → ∀ k, l.length < k →
    Traces (fun s => skipLoop p step fuel (step s)) (skipLoop p step k r) (l.filter p) := by
  induction h with
  | term s =>
    intro ht hf k hk
    obtain ⟨k', rfl⟩ : ∃ k', k = k' + 1 := ⟨k - 1, by simp at hk; omega⟩
    intro j
    have : skipLoop p step (k' + 1) (s, .term) = (s, .term) := rfl
    rw [this, List.filter_nil, resAt_nil]
    exact sticky_skip p step fuel (by omega) j s ht
  | item s a l _ ih =>
    intro ht hf k hk
    obtain ⟨k', rfl⟩ : ∃ k', k = k' + 1 := ⟨k - 1, by simp at hk; omega⟩
    simp only [List.length_cons] at hf hk
    by_cases hp : p a = true
    · simp only [skipLoop, hp, if_true, List.filter_cons_of_pos]
      intro j
      cases j with
      | zero => rw [stepN_zero, resAt_cons_zero]
      | succ j =>
        rw [stepN_succ_item, resAt_cons_succ]
        exact ih ht.tail (by omega) fuel (by omega) j
    · simp only [skipLoop, hp, List.filter_cons_of_neg, Bool.false_eq_true, if_false, not_false_eq_true]
      exact ih ht.tail (by omega) k' (by omega)

/-! ### the stride lemma (Slice over an absorbing iterable) -/

/-- stepping `c` at a time from the `a`-th call of a traced walk: the `k`-th stride is the `(a + k*c)`-th call — whether or
    not the walk has ended in between -/
theorem stride_stepN (step : σ → σ × Res α) (c : Nat) (hc : 1 ≤ c) {r : σ × Res α} {l : List α} (h : Traces step r l) :
    ∀ (k a : Nat), stepN (fun s => stepN step (c - 1) (step s)) k (stepN step a r) = stepN step (a + k * c) r
  | 0, a => by simp
  | k + 1, a => by
    have hok : (stepN step a r).2 ≠ .undef ∧ (stepN step a r).2 ≠ .hang := by rw [h a]; exact resAt_ok l a
    have e1 : stepN (fun s => stepN step (c - 1) (step s)) (k + 1) (stepN step a r) =
        stepN (fun s => stepN step (c - 1) (step s)) k (stepN step (c - 1) (step (stepN step a r).1)) := by
      rcases hx : stepN step a r with ⟨s, x⟩
      rw [hx] at hok
      cases x with
      | item y => rfl
      | term => rfl
      | undef => exact absurd rfl hok.1
      | hang => exact absurd rfl hok.2
    rw [e1, ← stepN_pos_of_ok step c hc _ hok, ← stepN_add, stride_stepN step c hc h k (a + c)]
    congr 1
    rw [Nat.succ_mul]; omega

theorem Traces.stride (step : σ → σ × Res α) (c : Nat) (hc : 1 ≤ c) {r : σ × Res α} {l : List α} (h : Traces step r l)
    (a : Nat) (m : List α) (hm : ∀ k, m[k]? = l[a + k * c]?) :
    Traces (fun s => stepN step (c - 1) (step s)) (stepN step a r) m := by
  intro k
  rw [stride_stepN step c hc h k a, h (a + k * c)]
  exact resAt_of_getElem? (hm k).symm

/-! ### the iterables that absorb a Terminal cursor: Tuple and Range -/

theorem idRes_term_state {o : Option Nat} (h : (idRes o).2 = .term) : (idRes o).1 = none := by
  cases o with
  | none => rfl
  | some x => simp [idRes] at h

theorem tuple_next_sticky (ids : List Nat) :
    (∀ s, s = none → ((tupleI ids).next s).2 = .term ∧ ((tupleI ids).next s).1 = none) ∧
    (∀ s, ((tupleI ids).next s).2 = .term → ((tupleI ids).next s).1 = none) ∧
    (∀ s, s = none → ((tupleI ids).prev s).2 = .term ∧ ((tupleI ids).prev s).1 = none) ∧
    (∀ s, ((tupleI ids).prev s).2 = .term → ((tupleI ids).prev s).1 = none) := by
  refine ⟨?_, ?_, ?_, ?_⟩
  · rintro s rfl; exact ⟨rfl, rfl⟩
  · intro s h
    cases s with
    | none => rfl
    | some c => exact idRes_term_state h
  · rintro s rfl; exact ⟨rfl, rfl⟩
  · intro s h
    cases s with
    | none => rfl
    | some c =>
      simp only [tupleI] at h ⊢
      split
      · rfl
      · next hne => rw [if_neg hne] at h; exact idRes_term_state h

/-- **Tuple** (no object twice) absorbs a Terminal cursor in both directions: Tuple_Iter_Next / _Prev search for the
    pointer, find nothing and answer Terminal -/
theorem tuple_abs (ids : List Nat) (hnd : ids.Nodup) : AbsFwdAs (tupleI ids) ids ∧ AbsBwdAs (tupleI ids) ids := by
  obtain ⟨h1, h2, h3, h4⟩ := tuple_next_sticky ids
  have hl := tuple_lawfulAs ids hnd
  refine ⟨⟨hl.fwd, fun _ s => ?_⟩, ⟨hl.bwd, fun _ s => ?_⟩⟩
  · refine Run.traces (fun s => s = none) h1 h2 (hl.fwd s) ?_
    intro h; exact idRes_term_state h
  · refine Run.traces (fun s => s = none) h3 h4 (hl.bwd s) ?_
    intro h
    simp only [tupleI] at h ⊢
    split
    · rfl
    · next hne => rw [if_neg hne] at h; exact idRes_term_state h

/-- **Range** absorbs a Terminal cursor: the cursor argument is ignored and the arithmetic stays beyond the end -/
theorem range_abs (a b c : Int) :
    AbsFwdAs (rangeI a b c) (rangeList a b c) ∧ AbsBwdAs (rangeI a b c) (rangeList a b c) := by
  have hl := range_lawfulAs a b c
  refine ⟨⟨hl.fwd, fun _ s => ?_⟩, ⟨hl.bwd, fun hne s => ?_⟩⟩
  · refine Run.traces (fun v => c = 0 ∨ (c > 0 ∧ v ≥ b) ∨ (c < 0 ∧ v < a)) ?_ ?_ (hl.fwd s) ?_
    · intro v hv
      simp only [rangeI]
      rcases Int.lt_trichotomy c 0 with hc | hc | hc
      · have h1 : v + c < a := by rcases hv with h | h | h <;> omega
        have h2 : ¬ (c = 0) := by omega
        have h3 : ¬ (c > 0) := by omega
        simp [h2, h3, hc, h1]
      · subst hc; simp
      · have h1 : v + c ≥ b := by rcases hv with h | h | h <;> omega
        have h2 : ¬ (c = 0) := by omega
        simp [h2, hc, h1]
    · intro v h
      simp only [rangeI] at h ⊢
      by_cases h0 : c = 0
      · exact Or.inl h0
      · rw [if_neg h0] at h ⊢
        by_cases h1 : c > 0 ∧ v + c ≥ b
        · rw [if_pos h1]; exact Or.inr (Or.inl h1)
        · rw [if_neg h1] at h ⊢
          by_cases h2 : c < 0 ∧ v + c < a
          · rw [if_pos h2]; exact Or.inr (Or.inr h2)
          · rw [if_neg h2] at h; simp at h
    · intro h
      simp only [rangeI] at h ⊢
      by_cases h0 : c = 0
      · exact Or.inl h0
      · rw [if_neg h0] at h ⊢
        by_cases h1 : c > 0 ∧ (if c > 0 then a else b - 1) ≥ b
        · rw [if_pos h1]; exact Or.inr (Or.inl h1)
        · rw [if_neg h1] at h ⊢
          by_cases h2 : c < 0 ∧ (if c > 0 then a else b - 1) < a
          · rw [if_pos h2]; exact Or.inr (Or.inr h2)
          · rw [if_neg h2] at h; simp at h
  · have hn : rangeLen a b c ≠ 0 := by
      intro e; apply hne; simp [rangeList, e]
    refine Run.traces (fun v => c = 0 ∨ (c > 0 ∧ v < a) ∨ (c < 0 ∧ v ≥ b)) ?_ ?_ (hl.bwd s) ?_
    · intro v hv
      simp only [rangeI]
      rcases Int.lt_trichotomy c 0 with hc | hc | hc
      · have h1 : v - c ≥ b := by rcases hv with h | h | h <;> omega
        have h2 : ¬ (c = 0) := by omega
        have h3 : ¬ (c > 0) := by omega
        simp [h2, h3, hc, h1]
      · subst hc; simp
      · have h1 : v - c < a := by rcases hv with h | h | h <;> omega
        have h2 : ¬ (c = 0) := by omega
        simp [h2, hc, h1]
    · intro v h
      simp only [rangeI] at h ⊢
      by_cases h0 : c = 0
      · exact Or.inl h0
      · rw [if_neg h0] at h ⊢
        by_cases h1 : c > 0 ∧ v - c < a
        · rw [if_pos h1]; exact Or.inr (Or.inl h1)
        · rw [if_neg h1] at h ⊢
          by_cases h2 : c < 0 ∧ v - c ≥ b
          · rw [if_pos h2]; exact Or.inr (Or.inr h2)
          · rw [if_neg h2] at h; simp at h
    · intro h
      simp [rangeI, hn] at h

end Cello.Iter
