/-
  Lemmas for the allocating-Assign layer of Cello/HeapMid.lean (C01): `DMach` runs the statement lists of the container operations and
  records, for every `assign` of an element, what the container's Mark instance presents at each allocation point of the element type's
  Assign instance (`AView`).  Here: the `Mach` component of a `DMach` run is the `Mach` run; the safety notion `DeepSafe`; what the
  operations that assign in place leave behind (computed on literal statement lists, as in MarkMid.lean); the heap-level step.

  Nothing here depends on the statement ORDER of the source: the theorems that do are in CelloProofs/Props/C01.lean.
-/
import Cello.Heap
import Cello.HeapMid
import CelloProofs.Lemmas.Mark
import CelloProofs.Lemmas.MarkMid

namespace Cello.Heap.Mid
open CelloGen.GcMid

variable {α : Type}

/-! ### the `Mach` component -/

theorem DMach.step_m (D : Deep α) (env : Env α) (st : DMach α) (e : Ev) : (st.step D env e).m = st.m.step env e := rfl

theorem DMach.run_m (D : Deep α) (env : Env α) : ∀ (evs : List Ev) (st : DMach α), (st.run D env evs).m = st.m.run env evs
  | [], _ => rfl
  | e :: es, st => by
    show (DMach.run D env es (st.step D env e)).m = Mach.run env es (st.m.step env e)
    rw [DMach.run_m D env es]; rfl

theorem DMach.eachLoop_m (D : Deep α) (env : Env α) (body : List Ev) :
    ∀ (js : List Nat) (st : DMach α), (DMach.eachLoop D env body js st).m = Mach.eachLoop env body js st.m
  | [], _ => rfl
  | j :: js, st => by
    show (DMach.eachLoop D env body js (st.run D { env with j := j } body)).m = Mach.eachLoop env body js (st.m.run { env with j := j } body)
    rw [DMach.eachLoop_m D env body js, DMach.run_m]

theorem DMach.whileLoop_m (D : Deep α) (env : Env α) (body : List Ev) :
    ∀ (fuel : Nat) (st : DMach α), (DMach.whileLoop D env body fuel st).m = Mach.whileLoop env body fuel st.m
  | 0, _ => rfl
  | fuel + 1, st => by
    unfold DMach.whileLoop Mach.whileLoop
    split
    · rw [DMach.whileLoop_m D env body fuel, DMach.run_m]
    · rfl

theorem DMach.instr_m (D : Deep α) (env : Env α) (st : DMach α) (ins : Instr) : (st.instr D env ins).m = st.m.instr env ins := by
  cases ins with
  | seq evs => exact DMach.run_m D env evs st
  | each body => exact DMach.eachLoop_m D env body _ st
  | whileLen body => exact DMach.whileLoop_m D env body _ st
  | fill body => exact DMach.eachLoop_m D env body _ st

/-- **the `Mach` component of a `DMach` run is the `Mach` run**: the two layers run the same statements on the same container state -/
theorem DMach.exec_m (D : Deep α) (env : Env α) : ∀ (prog : List Instr) (st : DMach α), (st.exec D env prog).m = st.m.exec env prog
  | [], _ => rfl
  | i :: is, st => by
    show (DMach.exec D env is (st.instr D env i)).m = Mach.exec env is (st.m.instr env i)
    rw [DMach.exec_m D env is, DMach.instr_m]

/-- a statement that is no `assign` of an element records nothing -/
theorem DMach.step_aviews_of_not_assign (D : Deep α) (env : Env α) (st : DMach α) (e : Ev)
    (h1 : ∀ s, e ≠ .assign s) (h2 : e ≠ .assignPend) : (st.step D env e).aviews = st.aviews := by
  cases e <;> simp_all [DMach.step]

/-! ### the safety notion -/

/-- **deep-safe allocation points**: at every allocation point of every element assignment of the operation, the container's Mark instance
    reads only constructed elements, presents the element under assignment as soon as one of its new fields is stored (`k > 0`), and presents
    every element the container holds when the operation completes — except the copies of operand elements that are not completely assigned yet
    (`env.src.drop v.j`: round `j` is the one in progress; their objects do not exist yet, or are covered by the clause about `part`) and zeroed
    elements -/
def DeepSafe (env : Env α) (r : DMach α) : Prop :=
  ∀ v ∈ r.aviews,
    (∀ c ∈ v.cells, c ≠ none) ∧ (v.k = 0 ∨ some v.part ∈ v.cells) ∧
    ∀ x ∈ r.m.final env, some x ∈ v.cells ∨ x ∈ env.src.drop v.j ∨ x = env.zero

theorem mem_avs {D : Deep α} {env : Env α} {old : α} {f : α → List (Cell α)} {v : AView α} (h : v ∈ DMach.avs D env old f) :
    v.j = env.j ∧ v.cells = f v.part := by
  simp only [DMach.avs, List.mem_map] at h
  obtain ⟨qk, _, rfl⟩ := h
  exact ⟨rfl, rfl⟩

theorem val_mem_drop_or_zero (env : Env α) : env.val ∈ env.src.drop env.j ∨ env.val = env.zero := by
  unfold Env.val
  by_cases h : env.j < env.src.length
  · left
    rw [List.getD_eq_getElem?_getD, List.getElem?_eq_getElem h, Option.getD_some]
    exact List.mem_drop_iff_getElem.mpr ⟨0, by simpa using h, by simp⟩
  · right
    rw [List.getD_eq_getElem?_getD, List.getElem?_eq_none (Nat.le_of_not_lt h), Option.getD_none]

/-- an element of a list with one position overwritten is the new value or an element of the list with that position overwritten by anything else -/
theorem mem_set_other {β : Type} {l : List β} {i : Nat} {v q x : β} (h : x ∈ l.set i v) : x = v ∨ x ∈ l.set i q := by
  obtain ⟨n, hn⟩ := List.mem_iff_getElem?.mp h
  rw [List.getElem?_set] at hn
  split at hn
  · split at hn
    · left; exact (Option.some.inj hn).symm
    · cases hn
  · right
    rename_i hne
    refine List.mem_iff_getElem?.mpr ⟨n, ?_⟩
    rw [List.getElem?_set, if_neg hne]; exact hn

theorem self_mem_set {β : Type} {l : List β} {i : Nat} (q : β) (hi : i < l.length) : q ∈ l.set i q :=
  List.mem_iff_getElem?.mpr ⟨i, by rw [List.getElem?_set]; simp [hi]⟩

theorem all_some_set {l : List α} {i : Nat} {q : α} : ∀ c ∈ (l.map some).set i (some q), c ≠ none := by
  intro c hc
  rcases List.mem_or_eq_of_mem_set hc with h | h
  · exact all_some_map l c h
  · rw [h]; simp

/-! ### what the operations that assign in place leave behind -/

/-- `Array_Push` after `nitems++; Array_Reserve_More`: `Array_Alloc(last); assign(last, x)` — every allocation point of the Assign instance
    sees the old elements and the new element in its partly assigned state -/
theorem array_push_dstate (D : Deep α) (elems : List α) (rest : List (Cell α)) (env : Env α) (hs : env.shape = Shape.array) :
    (DMach.run D env [.alloc .last, .assign .last] { m := { cells := elems.map some ++ none :: rest, n := elems.length + 1 } }).aviews =
      DMach.avs D env env.zero (fun q => elems.map some ++ [some q]) := by
  have hget : ((elems.map some) ++ some env.zero :: rest)[elems.length]? = some (some env.zero) := by
    rw [List.getElem?_append_right (by simp)]; simp
  have hset1 : (elems.map some ++ none :: rest).set elems.length (some env.zero) = elems.map some ++ some env.zero :: rest := by
    rw [List.set_append_right _ _ (by simp)]; simp
  have hset2 : ∀ q : α, (elems.map some ++ some env.zero :: rest).set elems.length (some q) = elems.map some ++ some q :: rest := by
    intro q; rw [List.set_append_right _ _ (by simp)]; simp
  have htake : ∀ q : α, takePad (elems.length + 1) (elems.map some ++ some q :: rest) = elems.map some ++ [some q] := by
    intro q
    rw [takePad_of_le (by simp)]
    simp [List.take_append, List.take_of_length_le]
  simp only [DMach.run, List.foldl, DMach.step, Mach.step, Mach.pos, hs, Shape.array, if_true, Nat.add_sub_cancel, List.length_append,
    List.length_map, List.length_cons, Nat.lt_add_right_iff_pos, Nat.zero_lt_succ, hset1, hget, hset2, presented, Bool.false_and,
    Bool.false_eq_true, if_false, htake, List.append_nil, List.nil_append]

/-- … and the Array when the operation completes: the old elements and the new one -/
theorem array_push_final (elems : List α) (rest : List (Cell α)) (env : Env α) (hs : env.shape = Shape.array) :
    (Mach.run env [.alloc .last, .assign .last] { cells := elems.map some ++ none :: rest, n := elems.length + 1 }).final env =
      elems ++ [env.val] := by
  have hget : ((elems.map some) ++ some env.zero :: rest)[elems.length]? = some (some env.zero) := by
    rw [List.getElem?_append_right (by simp)]; simp
  have hset1 : (elems.map some ++ none :: rest).set elems.length (some env.zero) = elems.map some ++ some env.zero :: rest := by
    rw [List.set_append_right _ _ (by simp)]; simp
  have hset2 : (elems.map some ++ some env.zero :: rest).set elems.length (some env.val) = elems.map some ++ some env.val :: rest := by
    rw [List.set_append_right _ _ (by simp)]; simp
  have htake : takePad (elems.length + 1) (elems.map some ++ some env.val :: rest) = elems.map some ++ [some env.val] := by
    rw [takePad_of_le (by simp)]
    simp [List.take_append, List.take_of_length_le]
  simp only [Mach.final, Mach.run, List.foldl, Mach.step, Mach.pos, hs, Shape.array, if_true, Nat.add_sub_cancel, List.length_append,
    List.length_map, List.length_cons, Nat.lt_add_right_iff_pos, Nat.zero_lt_succ, hset1, hget, hset2, Mach.view, Mach.presented, presented,
    Bool.false_and, Bool.false_eq_true, if_false, htake]
  simp [List.filterMap_append]

/-- the block after `memmove(data + i + 1, data + i, B.length)`: the slot at `i` is duplicated -/
theorem moveUp_split (A B rest : List (Cell α)) :
    ∃ x0, moveUp (A ++ B ++ none :: rest) A.length B.length = A ++ x0 :: B ++ rest := by
  cases B with
  | nil => exact ⟨none, by simp [moveUp, List.take_append, List.drop_append, List.take_of_length_le, List.drop_of_length_le]⟩
  | cons b B' =>
    refine ⟨b, ?_⟩
    simp only [moveUp, List.append_assoc, List.cons_append]
    have h1 : List.take (A.length + 1) (A ++ (b :: (B' ++ none :: rest))) = A ++ [b] := by
      rw [List.take_append]; simp [List.take_of_length_le]
    have h2 : List.drop A.length (A ++ (b :: (B' ++ none :: rest))) = b :: (B' ++ none :: rest) := by simp
    have h3 : List.take (b :: B').length (b :: (B' ++ none :: rest)) = b :: B' := by
      rw [show b :: (B' ++ none :: rest) = (b :: B') ++ none :: rest by simp, List.take_left' rfl]
    have h4 : List.drop (A.length + 1 + (b :: B').length) (A ++ (b :: (B' ++ none :: rest))) = rest := by
      rw [show A ++ (b :: (B' ++ none :: rest)) = (A ++ b :: B') ++ none :: rest by simp]
      rw [List.drop_append]
      have h5 : A.length + 1 + (b :: B').length - (A ++ b :: B').length = 1 := by simp; omega
      rw [List.drop_of_length_le (by simp), h5]
      rfl
    rw [h1, h2, h3, h4]; simp

/-- `Array_Push_At` after `nitems++; Array_Reserve_More`: `memmove(i+1 ← i); Array_Alloc(i); assign(i, x)` — every allocation point sees the
    `i` elements in front, the new element in its partly assigned state, the elements from `i` on -/
theorem array_push_at_dstate (D : Deep α) (A B rest : List (Cell α)) (env : Env α) (hs : env.shape = Shape.array) (hi : env.i = A.length) :
    (DMach.run D env [.moveUp (-1), .alloc .idx, .assign .idx] { m := { cells := A ++ B ++ none :: rest, n := A.length + B.length + 1 } }).aviews =
      DMach.avs D env env.zero (fun q => A ++ some q :: B) := by
  have hcnt : moveCount (A.length + B.length + 1) A.length (-1) = B.length := by unfold moveCount; omega
  obtain ⟨x0, hmove⟩ := moveUp_split A B rest
  have hlt : A.length < (A ++ x0 :: B ++ rest).length := by simp
  have hset1 : (A ++ x0 :: B ++ rest).set A.length (some env.zero) = A ++ some env.zero :: B ++ rest := by
    rw [List.append_assoc, List.set_append_right _ _ (Nat.le_refl _)]; simp
  have hget : (A ++ some env.zero :: B ++ rest)[A.length]? = some (some env.zero) := by
    rw [List.append_assoc, List.getElem?_append_right (Nat.le_refl _)]; simp
  have hset2 : ∀ q : α, (A ++ some env.zero :: B ++ rest).set A.length (some q) = A ++ some q :: B ++ rest := by
    intro q; rw [List.append_assoc, List.set_append_right _ _ (Nat.le_refl _)]; simp
  have htake : ∀ q : α, takePad (A.length + B.length + 1) (A ++ some q :: B ++ rest) = A ++ some q :: B := by
    intro q
    rw [takePad_of_le (by simp; omega)]
    apply List.take_left'
    simp; omega
  simp only [DMach.run, List.foldl, DMach.step, Mach.step, Mach.pos, hi, hcnt, hmove, hlt, if_true, hset1, hget, hset2, presented,
    hs, Shape.array, Bool.false_and, Bool.false_eq_true, if_false, htake, List.append_nil, List.nil_append]

theorem array_push_at_final (A B rest : List (Cell α)) (env : Env α) (hs : env.shape = Shape.array) (hi : env.i = A.length) :
    (Mach.run env [.moveUp (-1), .alloc .idx, .assign .idx] { cells := A ++ B ++ none :: rest, n := A.length + B.length + 1 }).presented env =
      A ++ some env.val :: B := by
  have hcnt : moveCount (A.length + B.length + 1) A.length (-1) = B.length := by unfold moveCount; omega
  obtain ⟨x0, hmove⟩ := moveUp_split A B rest
  have hlt : A.length < (A ++ x0 :: B ++ rest).length := by simp
  have hset1 : (A ++ x0 :: B ++ rest).set A.length (some env.zero) = A ++ some env.zero :: B ++ rest := by
    rw [List.append_assoc, List.set_append_right _ _ (Nat.le_refl _)]; simp
  have hget : (A ++ some env.zero :: B ++ rest)[A.length]? = some (some env.zero) := by
    rw [List.append_assoc, List.getElem?_append_right (Nat.le_refl _)]; simp
  have hset2 : (A ++ some env.zero :: B ++ rest).set A.length (some env.val) = A ++ some env.val :: B ++ rest := by
    rw [List.append_assoc, List.set_append_right _ _ (Nat.le_refl _)]; simp
  have htake : takePad (A.length + B.length + 1) (A ++ some env.val :: B ++ rest) = A ++ some env.val :: B := by
    rw [takePad_of_le (by simp; omega)]
    apply List.take_left'
    simp; omega
  simp only [Mach.run, List.foldl, Mach.step, Mach.pos, hi, hcnt, hmove, hlt, if_true, hset1, hget, hset2, Mach.view, Mach.presented, presented,
    hs, Shape.array, Bool.false_and, Bool.false_eq_true, if_false, htake]

/-- `assign(item i, x)` in place (Array_Set, List_Set, Tree_Set on a key that exists) on a container whose Mark instance presents all its
    cells: every allocation point sees the container with element `i` in its partly assigned state -/
theorem set_dstate (D : Deep α) (elems : List α) (env : Env α) (hi : env.i < elems.length) (st : DMach α)
    (hc : st.m.cells = elems.map some) (hn : st.m.n = elems.length) (hav : st.aviews = [])
    (hp : ∀ cells : List (Cell α), cells.length = elems.length → presented env.shape cells elems.length = cells) :
    (DMach.run D env [.assign .idx] st).aviews =
      DMach.avs D env elems[env.i] (fun q => (elems.map some).set env.i (some q)) ∧
    (DMach.run D env [.assign .idx] st).m.presented env = (elems.map some).set env.i (some env.val) := by
  have hget : (elems.map some)[env.i]? = some (some elems[env.i]) := by simp [hi]
  have hpq : ∀ q : α, presented env.shape ((elems.map some).set env.i (some q)) elems.length = (elems.map some).set env.i (some q) :=
    fun q => hp _ (by simp)
  constructor
  · simp only [DMach.run, List.foldl, DMach.step, Mach.pos, hc, hn, hav, hget, List.nil_append]
    congr 1
    funext q
    exact hpq q
  · simp only [DMach.run, List.foldl, DMach.step, Mach.step, Mach.pos, hc, hn, hget, Mach.view, Mach.presented]
    exact hpq env.val

theorem presented_array_full (cells : List (Cell α)) (n : Nat) (h : cells.length = n) : presented Shape.array cells n = cells := by
  subst h
  simp [presented, Shape.array, takePad]

theorem presented_tree_full (cells : List (Cell α)) (n : Nat) (hn : 0 < n) : presented Shape.tree cells n = cells := by
  unfold presented
  split
  · rename_i hb
    simp only [Bool.and_eq_true, beq_iff_eq] at hb
    omega
  · simp [Shape.tree]

/-- from the states to `DeepSafe`: the allocation points of ONE in-place assignment whose target the Mark instance presents -/
theorem deepSafe_of_avs {D : Deep α} {env : Env α} {r : DMach α} {old : α} {f : α → List (Cell α)}
    (hav : r.aviews = DMach.avs D env old f)
    (hall : ∀ q, ∀ c ∈ f q, c ≠ none) (hself : ∀ q, some q ∈ f q)
    (hfin : ∀ q, ∀ x ∈ r.m.final env, x = env.val ∨ some x ∈ f q) : DeepSafe env r := by
  intro v hv
  rw [hav] at hv
  obtain ⟨hj, hc⟩ := mem_avs hv
  rw [hc]
  refine ⟨hall _, Or.inr (hself _), fun x hx => ?_⟩
  rcases hfin v.part x hx with h | h
  · right
    rw [h, hj]
    exact val_mem_drop_or_zero env
  · exact Or.inl h

end Cello.Heap.Mid
