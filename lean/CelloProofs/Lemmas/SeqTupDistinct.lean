/-
  C04 helper lemmas: a Tuple history that never stores a pointer that is already in the Tuple keeps the stored pointers
  pairwise distinct (so that the iteration theorem applies in every state of such a history).
-/
import CelloProofs.Lemmas.SeqTup
import CelloProofs.Lemmas.SortPerm

namespace Cello.Seq
variable {α : Type}

/-- the operation does not store a pointer that the sequence already holds (what the harness and the driver enforce) -/
def FreshOp (ident : α → Nat) (l : List α) : Op α → Prop
  | .push x => ident x ∉ l.map ident
  | .append x => ident x ∉ l.map ident
  | .pushAt x _ => ident x ∉ l.map ident
  | .set i x => ∀ k, Spec.idx l.length i = some k → ident x ∉ (l.eraseIdx k).map ident   -- `x` may be the pointer it replaces
  | .concat ys => (ys.map ident).Nodup ∧ ∀ y ∈ ys, ident y ∉ l.map ident
  | .assign ys _ => (ys.map ident).Nodup
  | _ => True

theorem nodup_map_of_sublist (ident : α → Nat) {l1 l2 : List α} (h : l1.Sublist l2) (hn : (l2.map ident).Nodup) :
    (l1.map ident).Nodup := (h.map ident).nodup hn

theorem nodup_insert (ident : α → Nat) (l : List α) (k : Nat) (x : α) (hk : k ≤ l.length)
    (hn : (l.map ident).Nodup) (hx : ident x ∉ l.map ident) : ((l.insertIdx k x).map ident).Nodup := by
  rw [← take_cons_drop_eq_insertIdx l k x hk]
  have hp : (l.take k ++ x :: l.drop k).Perm (x :: l) := by
    have := List.perm_middle (a := x) (l₁ := l.take k) (l₂ := l.drop k)
    rwa [List.take_append_drop] at this
  rw [(hp.map ident).nodup_iff, List.map_cons, List.nodup_cons]
  exact ⟨hx, hn⟩

theorem nodup_set (ident : α → Nat) (l : List α) (k : Nat) (x : α) (hk : k < l.length)
    (hn : (l.map ident).Nodup) (hx : ident x ∉ (l.eraseIdx k).map ident) : ((l.set k x).map ident).Nodup := by
  rw [List.set_eq_take_append_cons_drop, if_pos hk]
  have hp : (l.take k ++ x :: l.drop (k + 1)).Perm (x :: (l.take k ++ l.drop (k + 1))) := List.perm_middle
  rw [(hp.map ident).nodup_iff, List.map_cons, List.nodup_cons, take_drop_succ_eq_eraseIdx]
  have hs := List.eraseIdx_sublist l k
  exact ⟨hx, nodup_map_of_sublist ident hs hn⟩

/-- the abstract Tuple step keeps pointers distinct when the operation stores only fresh pointers -/
theorem tupStep_distinct [BEq α] (ident : α → Nat) (l l' : List α) (op : Op α)
    (hn : (l.map ident).Nodup) (hf : FreshOp ident l op) (h : Spec.tupStep l op = some l') : (l'.map ident).Nodup := by
  cases op with
  | push x =>
    simp [Spec.tupStep] at h; subst h
    have := nodup_insert ident l l.length x (Nat.le_refl _) hn hf
    rwa [List.insertIdx_length_self] at this
  | append x =>
    simp [Spec.tupStep] at h; subst h
    have := nodup_insert ident l l.length x (Nat.le_refl _) hn hf
    rwa [List.insertIdx_length_self] at this
  | pop =>
    simp only [Spec.tupStep] at h
    split at h
    · cases h
    · cases h; exact nodup_map_of_sublist ident (List.dropLast_sublist l) hn
  | pushAt x i =>
    simp only [Spec.tupStep, Option.map_eq_some_iff] at h
    obtain ⟨k, hk, rfl⟩ := h
    exact nodup_insert ident l k x (Nat.le_of_lt (idx_some _ _ _ hk).2.2) hn hf
  | popAt i =>
    simp only [Spec.tupStep, Option.map_eq_some_iff] at h
    obtain ⟨k, _, rfl⟩ := h
    exact nodup_map_of_sublist ident (List.eraseIdx_sublist l k) hn
  | set i x =>
    simp only [Spec.tupStep, Option.map_eq_some_iff] at h
    obtain ⟨k, hk, rfl⟩ := h
    exact nodup_set ident l k x (idx_some _ _ _ hk).2.2 hn (hf k hk)
  | rem x =>
    simp only [Spec.tupStep] at h
    split at h
    · cases h; exact nodup_map_of_sublist ident (List.eraseP_sublist) hn
    · cases h
  | concat ys =>
    simp [Spec.tupStep] at h; subst h
    rw [List.map_append, List.nodup_append]
    refine ⟨hn, hf.1, ?_⟩
    intro a ha b hb hab
    obtain ⟨y, hy, rfl⟩ := List.mem_map.1 hb
    exact hf.2 y hy (hab ▸ ha)
  | resize n =>
    simp only [Spec.tupStep] at h
    split at h
    · cases h; exact nodup_map_of_sublist ident (List.take_sublist n l) hn
    · cases h
  | sort f =>
    simp [Spec.tupStep] at h; subst h
    exact ((Sort.sortList_perm f l).map ident).nodup_iff.2 hn
  | assign ys b =>
    simp only [Spec.tupStep] at h
    split at h
    · cases h; exact hf
    · cases h

end Cello.Seq
