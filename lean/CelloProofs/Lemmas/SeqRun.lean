/-
  C04 helper lemmas: from one step to whole histories.
-/
import CelloProofs.Lemmas.SeqArr
import CelloProofs.Lemmas.SeqLst
import CelloProofs.Lemmas.SeqTup

namespace Cello.Seq
variable {α : Type}

/-- a step-wise refinement with an invariant lifts to histories -/
theorem runOps_refines {σ : Type} (step : σ → Op α → σ × Res Unit) (specStep : List α → Op α → Option (List α))
    (abs : σ → List α) (Inv : σ → Prop)
    (hstep : ∀ s op l', Inv s → specStep (abs s) op = some l' →
      (step s op).2 = .ok () ∧ abs (step s op).1 = l' ∧ Inv (step s op).1) :
    ∀ (ops : List (Op α)) (s : σ) (l' : List α), Inv s → Spec.run specStep (abs s) ops = some l' →
      (runOps step s ops).2 = .ok () ∧ abs (runOps step s ops).1 = l' ∧ Inv (runOps step s ops).1 := by
  intro ops
  induction ops with
  | nil => intro s l' hi h; simp [Spec.run] at h; simp [runOps, h, hi]
  | cons op ops ih =>
    intro s l' hi h
    simp only [Spec.run] at h
    cases hs : specStep (abs s) op with
    | none => rw [hs] at h; simp at h
    | some l1 =>
      rw [hs] at h; simp only [Option.bind_some] at h
      obtain ⟨h1, h2, h3⟩ := hstep s op l1 hi hs
      have hr : runOps step s (op :: ops) = runOps step (step s op).1 ops := by
        rw [runOps]
        rcases hst : step s op with ⟨s', r⟩
        rw [hst] at h1; simp only at h1; subst h1
        rfl
      rw [hr]
      exact ih (step s op).1 l' h3 (by rw [h2]; exact h)

/-- `rem` removes the first element equal to the argument, and nothing else -/
theorem erase_first [BEq α] (pre post : List α) (y x : α) (hpre : ∀ z ∈ pre, (z == x) = false) (hy : (y == x) = true) :
    (pre ++ y :: post).erase x = pre ++ post := by
  induction pre with
  | nil => simp [List.erase_cons, hy]
  | cons z zs ih =>
    have hz : (z == x) = false := hpre z (by simp)
    simp only [List.cons_append, List.erase_cons, hz, Bool.false_eq_true, if_false]
    rw [ih (fun w hw => hpre w (by simp [hw]))]

theorem any_first [BEq α] (pre post : List α) (y x : α) (hy : (y == x) = true) :
    (pre ++ y :: post).any (· == x) = true := by simp [hy]

end Cello.Seq
