/-
  Lemmas about typed containers and the re-typing operations (`Obj.assignFrom`, `Obj.cleared`, `Obj.copyOf`):
  what `fields` yields for a container is determined by its CURRENT element / key / value types; after
  `assign(dst, src)` the target presents to the marker exactly what the source presents.
-/
import Cello.Heap
import Cello.HeapRec
import CelloProofs.Lemmas.Mark
import CelloProofs.Lemmas.MarkRec

namespace Cello.Heap

variable (c : Cfg)

/-- the words an embedded element of type `ety` with struct words `ws` presents to `GC_Mark_Item`: none when the type is
    a leaf type of `GC_Recurse` (or has its own Mark instance, which a plain struct representation does not use), all
    (scanned) words otherwise -/
def elemWords (ety : String) (ws : List Word) : List Word :=
  if c.isLeaf ety || c.hasMark ety then [] else scanWords c ws

theorem fields_raw (ety : String) (ws : List Word) : fields c (.raw ety ws) = elemWords c ety ws := by
  unfold fields elemWords
  cases c.isLeaf ety <;> cases c.hasMark ety <;> simp

theorem fieldsL_append (xs ys : List Obj) : fieldsL c (xs ++ ys) = fieldsL c xs ++ fieldsL c ys := by
  induction xs with
  | nil => simp [fieldsL]
  | cons x xs ih => simp [fieldsL, ih, List.append_assoc]

/-- **typed sequence**: an Array / List whose current element type is `ety` -/
theorem fieldsL_seqElems (ety : String) (vals : List (List Word)) :
    fieldsL c (seqElems ety vals) = vals.flatMap (elemWords c ety) := by
  induction vals with
  | nil => simp [seqElems, fieldsL]
  | cons v vs ih =>
    have : seqElems ety (v :: vs) = Obj.raw ety v :: seqElems ety vs := rfl
    rw [this, fieldsL, fields_raw, ih, List.flatMap_cons]

/-- **typed map**: a Table / Tree whose current key type is `kty` and value type `vty` -/
theorem fieldsL_mapElems (kty vty : String) (kvs : List (List Word × List Word)) :
    fieldsL c (mapElems kty vty kvs) = kvs.flatMap (fun kv => elemWords c kty kv.1 ++ elemWords c vty kv.2) := by
  induction kvs with
  | nil => simp [mapElems, fieldsL]
  | cons kv kvs ih =>
    have : mapElems kty vty (kv :: kvs) = Obj.raw kty kv.1 :: Obj.raw vty kv.2 :: mapElems kty vty kvs := by
      simp [mapElems, List.flatMap_cons]
    rw [this, fieldsL, fieldsL, fields_raw, fields_raw, ih, List.flatMap_cons, List.append_assoc]

theorem elemWords_leaf {ety : String} (hl : c.isLeaf ety = true) (ws : List Word) : elemWords c ety ws = [] := by
  simp [elemWords, hl]

theorem elemWords_scan {ety : String} (hl : c.isLeaf ety = false) (hm : c.hasMark ety = false) (hs : c.scanInclusive = true)
    (ws : List Word) : elemWords c ety ws = ws := by
  simp [elemWords, hl, hm, scanWords, hs]

theorem fields_cont {ty : String} (hl : c.isLeaf ty = false) (hm : c.hasMark ty = true) (es : List Obj) :
    fields c (.cont ty es) = fieldsL c es := by
  simp [fields, hl, hm]

theorem fields_tup {ty : String} (hl : c.isLeaf ty = false) (hm : c.hasMark ty = true) (items : List Word) :
    fields c (.tup ty items) = items := by
  simp [fields, hl, hm]

/-- **re-typing**: after `assign(dst, src)` between containers that the marker traces, the target presents exactly the
    words the source presents — whatever the target held, and whatever its element types were, before -/
theorem fields_assignFrom_cont (h : Heap) {ty ty' : String} (hl : c.isLeaf ty = false) (hm : c.hasMark ty = true)
    (hl' : c.isLeaf ty' = false) (hm' : c.hasMark ty' = true) (es0 es : List Obj) :
    fields c (Obj.assignFrom h (.cont ty es0) (.cont ty' es)) = fields c (.cont ty' es) := by
  show fields c (.cont ty es) = _
  rw [fields_cont c hl hm, fields_cont c hl' hm']

theorem fields_assignFrom_tup (h : Heap) {ty ty' : String} (hl : c.isLeaf ty = false) (hm : c.hasMark ty = true)
    (hl' : c.isLeaf ty' = false) (hm' : c.hasMark ty' = true) (i0 items : List Word) :
    fields c (Obj.assignFrom h (.tup ty i0) (.tup ty' items)) = fields c (.tup ty' items) := by
  show fields c (.tup ty items) = _
  rw [fields_tup c hl hm, fields_tup c hl' hm']

/-- Array / List assigned from a heap Tuple: element type Ref, every element `Ref_Assign`ed from the stored pointer -/
theorem fields_assignFrom_cont_tup (h : Heap) {ty ty' : String} (hl : c.isLeaf ty = false) (hm : c.hasMark ty = true)
    (es0 : List Obj) (items : List Word) :
    fields c (Obj.assignFrom h (.cont ty es0) (.tup ty' items)) = items.flatMap (fun w => elemWords c "Ref" [h.derefIfPtr w]) := by
  show fields c (.cont ty (seqElems "Ref" (items.map fun w => [h.derefIfPtr w]))) = _
  rw [fields_cont c hl hm, fieldsL_seqElems, List.flatMap_map]

theorem fields_cleared_cont {ty : String} (es : List Obj) : fields c (Obj.cleared (.cont ty es)) = [] := by
  show fields c (.cont ty []) = []
  unfold fields
  cases c.isLeaf ty <;> cases c.hasMark ty <;> simp [fieldsL]

/-- `copy(src)` presents what `src` presents -/
theorem fields_copyOf_cont (h : Heap) (ty : String) (es : List Obj) : Obj.copyOf h (.cont ty es) = .cont ty es := rfl
theorem fields_copyOf_tup (h : Heap) (ty : String) (items : List Word) : Obj.copyOf h (.tup ty items) = .tup ty items := rfl

/-! ### lookups after the heap operations -/

theorem write_lookup_self {h : Heap} {a : Addr} {e : Entry} (hl : h.lookup a = some e) (o : Obj) :
    (h.write a o).lookup a = some { e with obj := o } := by
  simp [Heap.write, hl]

theorem write_lookup_ne {h : Heap} {a x : Addr} (hx : x ≠ a) (o : Obj) : (h.write a o).lookup x = h.lookup x := by
  simp [Heap.write, hx]

theorem remove_lookup_ne {h : Heap} {b x : Addr} (hx : x ≠ b) : (h.remove b).lookup x = h.lookup x := by
  simp [Heap.remove, hx]

theorem write_isSome {h : Heap} (a x : Addr) (o : Obj) : ((h.write a o).lookup x).isSome = (h.lookup x).isSome := by
  by_cases hx : x = a
  · subst hx
    cases hl : h.lookup x with
    | none => simp [Heap.write, hl]
    | some e => simp [Heap.write, hl]
  · rw [write_lookup_ne hx]

/-! ### a Tuple whose first stored pointer is not a registered object (what `Tuple_Assign` from an Array / List produces) -/

theorem tuple_unregistered_item_ub {σ : Type} (S : MarkSet σ) (c : Cfg) (h : Heap) (wf : h.WF)
    (hl : c.isLeaf "Tuple" = false) (hk : c.hasMark "Tuple" = true) (hg : c.guarded = true)
    (a w : Addr) (rest : List Word) (r : Bool)
    (ha : h.lookup a = some ⟨.tup "Tuple" (w :: rest), r⟩) (hw : h.lookup w = none) (d : Nat) :
    (level S c h (d + 2)).item a S.empty = .ub := by
  rw [level_item_succ]
  have h1 := wf.aligned a _ ha
  have h2 := wf.inRange a _ ha
  have hchk : (a % 8 == 0 && decide (h.minptr ≤ a) && decide (a ≤ h.maxptr)) = true := by
    simp [h1, h2.1, h2.2]
  simp only [hchk, if_true, ha, S.mem_empty]
  rw [level_recurse_succ]
  simp only [Obj.ty, hl, hk, if_true, markInst, foldRes, callback, hg, hw]
  rfl

/-! ### a concrete heap for the non-vacuity examples -/

/-- 4096 ↦ a Table constructed as String → Int (one entry), 4160 ↦ a Table String → Ref whose value points to 4224,
    4224 ↦ a Probe; nothing is root-flagged -/
def retypeHeap : Heap where
  lookup a :=
    if a = 4096 then some ⟨.cont "Table" (mapElems "String" "Int" [([0], [4224])]), false⟩
    else if a = 4160 then some ⟨.cont "Table" (mapElems "String" "Ref" [([0], [4224])]), false⟩
    else if a = 4224 then some ⟨.raw "Probe" [7], false⟩
    else none
  regs := [4096, 4160, 4224]
  minptr := 4096
  maxptr := 4224
  complete := by
    intro a e he
    by_cases h1 : a = 4096; · simp [h1]
    by_cases h2 : a = 4160; · simp [h2]
    by_cases h3 : a = 4224; · simp [h3]
    simp [h1, h2, h3] at he

theorem retypeHeap_wf : retypeHeap.WF := by
  constructor <;> intro a e he <;> simp only [retypeHeap] at he ⊢ <;>
    (repeat' split at he) <;> first | (cases he) | (subst_vars; decide) | skip
  all_goals simp_all

end Cello.Heap
