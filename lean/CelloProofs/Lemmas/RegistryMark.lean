/-
  CelloProofs/Lemmas/RegistryMark.lean — the probe of GC_Mark_Item (`markLoop`): under the invariant it sets the mark bit of
  the entry of `p` when there is one that is unmarked, and changes nothing otherwise.  Also: the invariant and the number
  of occupied slots depend only on the (key, home) content of the slots, so changing payloads preserves them.
-/
import Cello.Registry
import CelloProofs.Lemmas.RegistryLookup
import CelloProofs.Lemmas.RegistryIns
set_option linter.unusedSectionVars false
set_option linter.unusedVariables false
namespace RH
variable {κ ε : Type} [DecidableEq κ] {n : Nat}

/-- replacing the payload of the entry in slot `q` -/
theorem inv0_set_payload (hash : κ → Nat) (s : Slots κ ε n) (inv : Inv0 hash s) (q : Nat) (hq : q < n) (e e' : Entry κ ε)
    (he : s[q] = some e) (hk : e'.key = e.key) (hh : e'.home = e.home) : Inv0 hash (s.set q (some e') hq) := by
  refine ⟨?_, ?_, ?_⟩
  · intro i hi x hx
    rw [Vector.getElem_set] at hx; split at hx
    · cases hx; rw [hh, hk]; exact inv.home_ok q hq e he
    · exact inv.home_ok i hi x hx
  · intro a b ha hb x y hx hy hxy
    rw [Vector.getElem_set] at hx hy
    split at hx <;> split at hy
    · omega
    · cases hx; rename_i h1 h2; subst h1
      exact inv.distinct q b hq hb e y he hy (by rw [← hk]; exact hxy)
    · cases hy; rename_i h1 h2; subst h2
      exact inv.distinct a q ha hq x e hx he (by rw [← hk]; exact hxy)
    · exact inv.distinct a b ha hb x y hx hy hxy
  · intro i hi x hx hpos
    have key : ∀ (k : Nat) (hk' : k < n) (y : Entry κ ε), (s.set q (some e') hq)[k] = some y →
        ∃ y0, s[k] = some y0 ∧ y0.home = y.home := by
      intro k hk' y hy
      rw [Vector.getElem_set] at hy; split at hy
      · cases hy; rename_i h; subst h; exact ⟨e, he, hh.symm⟩
      · exact ⟨y, hy, rfl⟩
    obtain ⟨x0, hx0, hxh⟩ := key i hi x hx
    rw [← hxh] at hpos
    obtain ⟨p0, hp0, hle⟩ := inv.loc i hi x0 hx0 hpos
    by_cases hqp : q = prev n i
    · subst hqp
      rw [he] at hp0; cases hp0
      exact ⟨e', by rw [Vector.getElem_set_self], by rw [hh, ← hxh]; exact hle⟩
    · exact ⟨p0, by rw [Vector.getElem_set, if_neg hqp]; exact hp0, by rw [← hxh]; exact hle⟩

theorem occ_set_payload (s : Slots κ ε n) (q : Nat) (hq : q < n) (e e' : Entry κ ε) (he : s[q] = some e) :
    occ (s.set q (some e') hq) = occ s := occ_set_occupied s q hq e he e'

/-- mapping the payloads -/
theorem inv0_map_payload (hash : κ → Nat) (s : Slots κ ε n) (inv : Inv0 hash s) (f : Entry κ ε → Entry κ ε)
    (hk : ∀ e, (f e).key = e.key) (hh : ∀ e, (f e).home = e.home) : Inv0 hash (s.map (fun o => o.map f)) := by
  have get : ∀ (i : Nat) (hi : i < n) (y : Entry κ ε), (s.map (fun o => o.map f))[i] = some y → ∃ y0, s[i] = some y0 ∧ y = f y0 := by
    intro i hi y hy
    rw [Vector.getElem_map] at hy
    cases hsi : s[i] with
    | none => rw [hsi] at hy; simp at hy
    | some y0 => rw [hsi] at hy; simp at hy; exact ⟨y0, rfl, hy.symm⟩
  refine ⟨?_, ?_, ?_⟩
  · intro i hi x hx
    obtain ⟨x0, hx0, rfl⟩ := get i hi x hx
    rw [hh, hk]; exact inv.home_ok i hi x0 hx0
  · intro a b ha hb x y hx hy hxy
    obtain ⟨x0, hx0, rfl⟩ := get a ha x hx
    obtain ⟨y0, hy0, rfl⟩ := get b hb y hy
    rw [hk, hk] at hxy
    exact inv.distinct a b ha hb x0 y0 hx0 hy0 hxy
  · intro i hi x hx hpos
    obtain ⟨x0, hx0, rfl⟩ := get i hi x hx
    rw [hh] at hpos
    obtain ⟨p0, hp0, hle⟩ := inv.loc i hi x0 hx0 hpos
    refine ⟨f p0, by rw [Vector.getElem_map, hp0]; rfl, by rw [hh, hh]; exact hle⟩

theorem occ_map_payload (s : Slots κ ε n) (f : Entry κ ε → Entry κ ε) : occ (s.map (fun o => o.map f)) = occ s := by
  unfold occ
  rw [Vector.countP_map]
  congr 1
  funext o; cases o <;> rfl

theorem mem_map_payload (s : Slots κ ε n) (f : Entry κ ε → Entry κ ε) (e' : Entry κ ε) :
    Mem (s.map (fun o => o.map f)) e' ↔ ∃ e, Mem s e ∧ e' = f e := by
  constructor
  · rintro ⟨q, hq, h⟩
    rw [Vector.getElem_map] at h
    cases hsq : s[q] with
    | none => rw [hsq] at h; simp at h
    | some e => rw [hsq] at h; simp at h; exact ⟨e, ⟨q, hq, hsq⟩, h.symm⟩
  · rintro ⟨e, ⟨q, hq, h⟩, rfl⟩
    exact ⟨q, hq, by rw [Vector.getElem_map, h]; rfl⟩

theorem getElem_map_none (s : Slots κ ε n) (f : Entry κ ε → Entry κ ε) (z : Nat) (hz : z < n) (h : s[z] = none) :
    (s.map (fun o => o.map f))[z] = none := by rw [Vector.getElem_map, h]; rfl

end RH

namespace Cello.Registry
open RH

def setMark (e : Ent) : Ent := { e with val := { e.val with marked := true } }

/-- whatever happens, the loop stops within `dist z i + 1` iterations and either changes nothing or marks one unmarked
    entry of `p` -/
theorem markLoop_res {n : Nat} (s : Slots Nat Payload n) (p : Nat) (z : Nat) (hz : z < n) (hze : s[z] = none) :
    ∀ (fuel i j : Nat) (hi : i < n), dist n z i < fuel →
      ∃ s', markLoop s p fuel i j hi = some s' ∧
        (s' = s ∨ ∃ q, ∃ hq : q < n, ∃ e, s[q] = some e ∧ e.key = p ∧ e.val.marked = false ∧ s' = s.set q (some (setMark e)) hq) := by
  intro fuel
  induction fuel with
  | zero => intro i j hi h; omega
  | succ fuel ih =>
    intro i j hi hf
    simp only [markLoop]
    split
    · exact ⟨s, rfl, Or.inl rfl⟩
    · rename_i e he
      split
      · exact ⟨s, rfl, Or.inl rfl⟩
      · split
        · rename_i hk
          exact ⟨_, rfl, Or.inr ⟨i, hi, e, he, hk.1, hk.2, rfl⟩⟩
        · have hne : i ≠ z := ne_of_occ_empty s hi hz he hze
          have := dist_next_fwd hi hz hne
          exact ih _ _ (next_lt hi) (by omega)

/-- walking from slot `i` (offset `j` from p's home) to the slot `q` that holds an unmarked entry of `p` -/
theorem markLoop_finds {n : Nat} (hash : Nat → Nat) (s : Slots Nat Payload n) (inv : Inv hash s) (p : Nat)
    (q : Nat) (hq : q < n) (e : Ent) (hqe : s[q] = some e) (hk : e.key = p) (hm : e.val.marked = false) :
    ∀ (m : Nat) (i j : Nat) (hi : i < n) (fuel : Nat),
      dist n q i = m → j + m = dist n q e.home → m < fuel →
      markLoop s p fuel i j hi = some (s.set q (some (setMark e)) hq) := by
  intro m
  induction m with
  | zero =>
    intro i j hi fuel hm' hj hf
    have hiq : i = q := by unfold dist at hm'; split at hm' <;> omega
    subst hiq
    match fuel, hf with
    | fuel+1, _ =>
      simp only [markLoop, hqe]
      have h1 : ¬ j > dist n i e.home := by omega
      simp [h1, hk, hm, setMark]
  | succ m ih =>
    intro i j hi fuel hm' hj hf
    match fuel, hf with
    | fuel+1, hf =>
      obtain ⟨e', he', hD⟩ := chain hash s inv q hq e hqe (m+1) i hi hm' (by omega)
      simp only [markLoop, he']
      have h1 : ¬ j > dist n i e'.home := by omega
      have hne : i ≠ q := by
        intro h; subst h
        have : dist n i i = 0 := dist_self
        omega
      have h2 : ¬ (e'.key = p ∧ e'.val.marked = false) := by
        intro h
        exact hne (inv.distinct i q hi hq e' e he' hqe (by rw [h.1, hk]))
      simp only [h1, h2, if_false]
      exact ih (next n i) (j+1) (next_lt hi) fuel (dist_next hq hi hm') (by omega) (by omega)

/-- **GC_Mark_Item's probe.** -/
theorem markLoop_spec {n : Nat} (hash : Nat → Nat) (s : Slots Nat Payload n) (inv : Inv hash s) (hn : 0 < n) (p : Nat) :
    ∃ s', markLoop s p n (hash p % n) 0 (Nat.mod_lt _ hn) = some s' ∧ Inv0 hash s' ∧ occ s' = occ s ∧
      (∀ z (hz : z < n), s[z] = none → s'[z] = none) ∧
      (∀ e', Mem s' e' ↔ ∃ e, Mem s e ∧ e' = if e.key = p then setMark e else e) := by
  obtain ⟨z, hz, hze⟩ := inv.has_empty
  have hhome : hash p % n < n := Nat.mod_lt _ hn
  obtain ⟨s', hs', hres⟩ := markLoop_res s p z hz hze n (hash p % n) 0 hhome (dist_lt hz hhome)
  -- the table with the entry at `q` marked
  have marked_case : ∀ q (hq : q < n) e, s[q] = some e → e.key = p →
      Inv0 hash (s.set q (some (setMark e)) hq) ∧ occ (s.set q (some (setMark e)) hq) = occ s ∧
      (∀ z (hz : z < n), s[z] = none → (s.set q (some (setMark e)) hq)[z] = none) ∧
      (∀ e', Mem (s.set q (some (setMark e)) hq) e' ↔ ∃ e0, Mem s e0 ∧ e' = if e0.key = p then setMark e0 else e0) := by
    intro q hq e he hk
    refine ⟨inv0_set_payload hash s inv.toInv0 q hq e _ he rfl rfl, occ_set_payload s q hq e _ he, ?_, ?_⟩
    · intro z hz hze
      rw [Vector.getElem_set]; split
      · rename_i h; subst h; rw [he] at hze; cases hze
      · exact hze
    · intro e'
      constructor
      · rintro ⟨k, hk', h⟩
        rw [Vector.getElem_set] at h; split at h
        · cases h; exact ⟨e, ⟨q, hq, he⟩, by rw [if_pos hk]⟩
        · rename_i hne
          refine ⟨e', ⟨k, hk', h⟩, ?_⟩
          have : ¬ e'.key = p := by
            intro h'; exact hne (inv.distinct q k hq hk' e e' he h (by rw [hk, h']))
          rw [if_neg this]
      · rintro ⟨e0, ⟨k, hk', h⟩, rfl⟩
        by_cases hkp : e0.key = p
        · have : q = k := inv.distinct q k hq hk' e e0 he h (by rw [hk, hkp])
          subst this
          rw [he] at h; cases h
          rw [if_pos hkp]; exact ⟨q, hq, by rw [Vector.getElem_set_self]⟩
        · rw [if_neg hkp]
          have hne : q ≠ k := by
            intro h'; subst h'; rw [he] at h; cases h; exact hkp hk
          exact ⟨k, hk', by rw [Vector.getElem_set, if_neg hne]; exact h⟩
  rcases hres with h | ⟨q, hq, e, he, hk, hm, h⟩
  · subst h
    refine ⟨s', hs', inv.toInv0, rfl, fun _ _ h => h, ?_⟩
    -- nothing changed: any entry of `p` is already marked
    have hmarked : ∀ e, Mem s' e → e.key = p → e.val.marked = true := by
      intro e ⟨q, hq, he⟩ hk
      cases hm : e.val.marked with
      | true => rfl
      | false =>
        have hh : e.home = hash p % n := by rw [← hk]; exact inv.home_ok q hq e he
        have hfind := markLoop_finds hash s' inv p q hq e he hk hm (dist n q (hash p % n)) (hash p % n) 0 hhome n rfl
          (by rw [hh]; omega) (dist_lt hq hhome)
        rw [hs'] at hfind
        have hx : (s'.set q (some (setMark e)) hq)[q] = s'[q] := by rw [← Option.some.inj hfind]
        rw [Vector.getElem_set_self, he] at hx
        have := congrArg (fun o => o.map (fun x => x.val.marked)) hx
        simp [setMark, hm] at this
    intro e'
    constructor
    · intro h
      refine ⟨e', h, ?_⟩
      by_cases hk : e'.key = p
      · rw [if_pos hk]
        have := hmarked e' h hk
        cases e' with | mk k h' v => cases v with | mk r m => simp [setMark] at this ⊢; exact this
      · rw [if_neg hk]
    · rintro ⟨e, h, rfl⟩
      by_cases hk : e.key = p
      · rw [if_pos hk]
        have := hmarked e h hk
        have heq : setMark e = e := by
          cases e with | mk k h' v => cases v with | mk r m => simp [setMark] at this ⊢; exact this
        rw [heq]; exact h
      · rw [if_neg hk]; exact h
  · subst h
    obtain ⟨a, b, c, d⟩ := marked_case q hq e he hk
    exact ⟨_, hs', a, b, c, d⟩

end Cello.Registry
