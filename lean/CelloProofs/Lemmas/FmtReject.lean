/-
  C14 helper lemmas: a `format_to` call that libc rejects (negative result).  The statement list of `String_Format_To` read
  from the source has the guard `if (size < 0) { return size; }` right after the measuring `vsnprintf`; with it a rejected
  call leaves both sinks as they were and `print_to_with` raises FormatError — after the segments before it were written.
-/
import CelloProofs.Lemmas.FmtRefine
import CelloProofs.Lemmas.FmtCalls

namespace Cello.Fmt

/-- the guard is in the code that is in /repo now (fails to check when `if (size < 0) { return size; }` is removed from
    `String_Format_To` or moved behind the `realloc`) -/
theorem primNow_guarded (libc : Libc) : (primNow libc).Guarded := by
  intro v pos
  rfl

theorem accepted_of_allAcc (prim : Prim) (cs : List Call) (h : AllAcc prim cs) : accepted prim cs = cs := by
  unfold accepted
  rw [List.filter_eq_self]
  intro c hc
  simp [h c hc]

variable (cfg : Cfg) (prim : Prim) (shw : Obj → Out → Out × Outcome) (args : List Obj)

/-- the reference semantics of a concatenation: the first part, then — if it completed — the second part with the
    argument index advanced by the specifications of the first -/
theorem refRun_append : ∀ (pre rest : List Seg) (k : Nat) (o : Out),
    refRun cfg prim shw args (pre ++ rest) k o =
      match refRun cfg prim shw args pre k o with
      | (o', .ok) => refRun cfg prim shw args rest (k + nspecs pre) o'
      | bad => bad := by
  intro pre
  induction pre with
  | nil => intro rest k o; simp [refRun, nspecs]
  | cons s r ih =>
    intro rest k o
    cases s with
    | lit s =>
      simp only [List.cons_append, refRun, nspecs]
      rcases o.call prim s .none with ⟨o', oc⟩
      cases oc with
      | ok => exact ih rest k o'
      | raised e => rfl
      | oob => rfl
    | pct =>
      simp only [List.cons_append, refRun, nspecs]
      rcases o.call prim ['%', '%'] .none with ⟨o', oc⟩
      cases oc with
      | ok => exact ih rest k o'
      | raised e => rfl
      | oob => rfl
    | spec b c =>
      simp only [List.cons_append, refRun, nspecs]
      cases args[k]? with
      | none => rfl
      | some a =>
        simp only []
        rcases dispatch prim shw cfg.disp c ('%' :: (b ++ [c])) a o with ⟨o', oc⟩
        cases oc with
        | ok =>
          have := ih rest (k + 1) o'
          have hk : k + 1 + nspecs r = k + (nspecs r + 1) := by omega
          simpa [hk] using this
        | raised e => rfl
        | oob => rfl

/-- **a rejected specification after an accepted prefix** (reference semantics, code as it is now): the prefix `pre` makes
    its calls `cs`, all accepted; the next specification fetches an argument of its class and libc rejects the call: the
    destination is what the prefix left, the rejected call is in the log, FormatError is raised, the rest is not run. -/
theorem refRun_reject (libc : Libc)
    (ht : (∀ c ∈ intConvs, firing cfgNow c = [.cint]) ∧ (∀ c ∈ fltConvs, firing cfgNow c = [.cfloat]) ∧
      firing cfgNow 'c' = [.cint] ∧ firing cfgNow 's' = [.cstr] ∧ firing cfgNow 'p' = [.obj] ∧ firing cfgNow '$' = [.show])
    (showCalls : Obj → List Call) (hs : ∀ a ∈ args, ∀ o, shw a o = (emitAll (primNow libc) o (showCalls a), .ok))
    (pre : List Seg) (b : Str) (c : Char) (post : List Seg) (cs : List Call)
    (hcs : expectCalls showCalls args pre 0 = some cs) (hacc : AllAcc (primNow libc) cs)
    (a : Obj) (ha : args[nspecs pre]? = some a) (v : PVal) (hv : specVal c a = some v)
    (hrej : libc.rej ('%' :: (b ++ [c])) v = true) (o : Out) :
    refRun cfgNow (primNow libc) shw args (pre ++ .spec b c :: post) 0 o =
      ({ emitAll (primNow libc) o cs with calls := o.calls ++ cs ++ [⟨'%' :: (b ++ [c]), v⟩] }, .raised .FormatError) := by
  have hg := primNow_guarded libc
  have hr : (primNow libc).rej ('%' :: (b ++ [c])) v = true := hrej
  rw [refRun_append, refRun_typed (primNow libc) shw ht showCalls args hs pre 0 cs o hcs hacc]
  simp only [Nat.zero_add, refRun, ha]
  rw [dispatch_now_typed (primNow libc) shw ht c _ a v hv, call_guarded _ hg, formatTo_rej _ hg _ hr]
  simp [callOutcome, hr, emitAll_calls]

/-! ### who raises FormatError: too few arguments, or a call libc rejects -/

/-- libc accepts every call the format makes itself: each literal run, each `%%`, and each specification with the C value
    of its argument (if it has one of its class; the calls made inside `show` for `%$` are not the format's) -/
def NoReject (prim : Prim) (args : List Obj) : List Seg → Nat → Prop
  | [], _ => True
  | .lit s :: r, k => prim.rej s .none = false ∧ NoReject prim args r k
  | .pct :: r, k => prim.rej ['%', '%'] .none = false ∧ NoReject prim args r k
  | .spec b c :: r, k =>
    (∀ a v, args[k]? = some a → specVal c a = some v → prim.rej ('%' :: (b ++ [c])) v = false) ∧ NoReject prim args r (k + 1)

theorem specVal_show (a : Obj) : specVal '$' a = none := by
  have h1 : ¬ ('$' ∈ intConvs ∨ '$' = 'c') := by decide
  have h2 : '$' ∉ fltConvs := by decide
  have h3 : ('$' : Char) ≠ 's' := by decide
  have h4 : ('$' : Char) ≠ 'p' := by decide
  unfold specVal
  rw [if_neg h1, if_neg h2, if_neg h3, if_neg h4]

theorem refRun_outcome_typed (hg : prim.Guarded)
    (ht : (∀ c ∈ intConvs, firing cfgNow c = [.cint]) ∧ (∀ c ∈ fltConvs, firing cfgNow c = [.cfloat]) ∧
      firing cfgNow 'c' = [.cint] ∧ firing cfgNow 's' = [.cstr] ∧ firing cfgNow 'p' = [.obj] ∧ firing cfgNow '$' = [.show])
    (hs : ∀ a ∈ args, ∀ o, (shw a o).2 = .ok) :
    ∀ (segs : List Seg) (k : Nat) (o : Out), Typed args segs k → k ≤ args.length →
    ((refRun cfgNow prim shw args segs k o).2 = .ok ∧ k + nspecs segs ≤ args.length ∧ NoReject prim args segs k) ∨
    ((refRun cfgNow prim shw args segs k o).2 = .raised .FormatError ∧
      (args.length < k + nspecs segs ∨ ¬ NoReject prim args segs k)) := by
  intro segs
  induction segs with
  | nil => intro k o _ hk; left; exact ⟨rfl, by simpa [nspecs] using hk, trivial⟩
  | cons s r ih =>
    intro k o hty hkl
    cases s with
    | lit s =>
      simp only [refRun, nspecs, NoReject]
      by_cases hr : prim.rej s .none = true
      · right
        rw [call_guarded prim hg]
        simp [callOutcome, hr]
      · have hr' : prim.rej s .none = false := by simpa using hr
        rw [call_acc prim o hr']
        rcases ih k (o.formatTo prim s .none) hty hkl with h | h
        · left; exact ⟨h.1, h.2.1, hr', h.2.2⟩
        · right; refine ⟨h.1, ?_⟩
          rcases h.2 with h2 | h2
          · exact Or.inl h2
          · exact Or.inr (fun hn => h2 hn.2)
    | pct =>
      simp only [refRun, nspecs, NoReject]
      by_cases hr : prim.rej ['%', '%'] .none = true
      · right
        rw [call_guarded prim hg]
        simp [callOutcome, hr]
      · have hr' : prim.rej ['%', '%'] .none = false := by simpa using hr
        rw [call_acc prim o hr']
        rcases ih k (o.formatTo prim ['%', '%'] .none) hty hkl with h | h
        · left; exact ⟨h.1, h.2.1, hr', h.2.2⟩
        · right; refine ⟨h.1, ?_⟩
          rcases h.2 with h2 | h2
          · exact Or.inl h2
          · exact Or.inr (fun hn => h2 hn.2)
    | spec b c =>
      simp only [refRun, nspecs, NoReject]
      cases hk : args[k]? with
      | none =>
        right
        have : args.length ≤ k := by simpa using hk
        exact ⟨rfl, Or.inl (by omega)⟩
      | some a =>
        have hlt : k < args.length := by
          rcases Nat.lt_or_ge k args.length with h | h
          · exact h
          · have := List.getElem?_eq_none h; rw [this] at hk; cases hk
        have hmem : a ∈ args := List.mem_of_getElem? hk
        simp only []
        -- the rest of the format, from any destination
        have rest : ∀ o', (∀ a' v, some a = some a' → specVal c a' = some v → prim.rej ('%' :: (b ++ [c])) v = false) →
            ((refRun cfgNow prim shw args r (k + 1) o').2 = .ok ∧ k + (nspecs r + 1) ≤ args.length ∧
              ((∀ a' v, some a = some a' → specVal c a' = some v → prim.rej ('%' :: (b ++ [c])) v = false) ∧
                NoReject prim args r (k + 1))) ∨
            ((refRun cfgNow prim shw args r (k + 1) o').2 = .raised .FormatError ∧
              (args.length < k + (nspecs r + 1) ∨
                ¬ ((∀ a' v, some a = some a' → specVal c a' = some v → prim.rej ('%' :: (b ++ [c])) v = false) ∧
                  NoReject prim args r (k + 1)))) := by
          intro o' hacc
          rcases ih (k + 1) o' hty.2 hlt with h | h
          · left; exact ⟨h.1, by omega, hacc, h.2.2⟩
          · right; refine ⟨h.1, ?_⟩
            rcases h.2 with h2 | h2
            · exact Or.inl (by omega)
            · exact Or.inr (fun hn => h2 hn.2)
        rcases hty.1 a hk with hc | hv
        · subst hc
          have hd : dispatch prim shw cfgNow.disp '$' ('%' :: (b ++ ['$'])) a o = shw a o := by
            rw [dispatch_eq_runKinds]
            change runKinds prim shw (firing cfgNow '$') _ a o = _
            rw [ht.2.2.2.2.2, runKinds_single]; rfl
          have hok := hs a hmem o
          rcases hsh : shw a o with ⟨o', oc⟩
          rw [hsh] at hok
          simp only at hok
          subst hok
          simp only [hd, hsh]
          exact rest o' (fun a' v _ hv => by rw [specVal_show] at hv; cases hv)
        · obtain ⟨v, hv⟩ := Option.isSome_iff_exists.1 hv
          rw [dispatch_now_typed prim shw ht c _ a v hv o]
          by_cases hr : prim.rej ('%' :: (b ++ [c])) v = true
          · right
            rw [call_guarded prim hg]
            simp only [callOutcome, hr, if_true]
            refine ⟨trivial, Or.inr (fun hn => ?_)⟩
            have := hn.1 a v rfl hv
            rw [hr] at this; cases this
          · have hr' : prim.rej ('%' :: (b ++ [c])) v = false := by simpa using hr
            rw [call_acc prim o hr']
            exact rest _ (fun a' v' ha' hv' => by
              cases ha'
              rw [hv] at hv'; cases hv'; exact hr')

end Cello.Fmt
