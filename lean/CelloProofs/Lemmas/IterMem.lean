/- helper lemmas for C11: `mem` of the Get instances of src/Iter.c — the two loops (Slice_Mem's `while (curr)`, the `foreach`
   of Zip_Mem / Filter_Mem / Map_Mem) over a terminating walk, and Range_Mem's arithmetic -/
import CelloProofs.Lemmas.IterRange

namespace Cello.Iter

/-- Slice_Mem's loop over a walk that yields `l` and then Terminal: true when the key is among `l`, and otherwise — never
    false — Terminal is compared with the key -/
theorem memLoop_of_run {σ α : Type} (eq : α → Bool) (step : σ → σ × Res α) :
    ∀ (r : σ × Res α) (l : List α), Run step r l → ∀ fuel, l.length < fuel →
      memLoop eq step fuel r = if l.any eq then .yes else .undef := by
  intro r l h
  induction h with
  | term s =>
    intro fuel hf
    cases fuel with
    | zero => simp at hf
    | succ n => simp [memLoop]
  | item s a l _ ih =>
    intro fuel hf
    cases fuel with
    | zero => simp at hf
    | succ n =>
      have hn : l.length < n := by simpa using hf
      simp only [memLoop, List.any_cons]
      by_cases he : eq a = true
      · simp [he]
      · have he' : eq a = false := by simpa using he
        simp only [he', Bool.false_or]
        exact ih n hn

/-- the `foreach` loop (and Slice_Mem's with `while (curr isnt Terminal)`): the key is among `l` or it is not -/
theorem memForeach_of_run {σ α : Type} (eq : α → Bool) (step : σ → σ × Res α) :
    ∀ (r : σ × Res α) (l : List α), Run step r l → ∀ fuel, l.length < fuel →
      memForeach eq step fuel r = if l.any eq then .yes else .no := by
  intro r l h
  induction h with
  | term s =>
    intro fuel hf
    cases fuel with
    | zero => simp at hf
    | succ n => simp [memForeach]
  | item s a l _ ih =>
    intro fuel hf
    cases fuel with
    | zero => simp at hf
    | succ n =>
      have hn : l.length < n := by simpa using hf
      simp only [memForeach, List.any_cons]
      by_cases he : eq a = true
      · simp [he]
      · have he' : eq a = false := by simpa using he
        simp only [he', Bool.false_or]
        exact ih n hn

/-- whatever the walk does, Slice_Mem's loop never answers false -/
theorem memLoop_ne_no {σ α : Type} (eq : α → Bool) (step : σ → σ × Res α) :
    ∀ fuel (r : σ × Res α), memLoop eq step fuel r ≠ .no := by
  intro fuel
  induction fuel with
  | zero => intro r; simp [memLoop]
  | succ n ih =>
    intro r
    obtain ⟨s, x⟩ := r
    cases x with
    | item a =>
      simp only [memLoop]
      split
      · simp
      · exact ih _
    | term => simp [memLoop]
    | undef => simp [memLoop]
    | hang => simp [memLoop]

/-- the members of a Range (as `C11_rangeList_mem`) -/
theorem rangeList_mem (start stop step x : Int) :
    x ∈ rangeList start stop step ↔
      (step > 0 ∧ ∃ j : Nat, x = start + step * j ∧ x < stop) ∨
      (step < 0 ∧ ∃ j : Nat, x = stop - 1 + step * j ∧ x ≥ start) := by
  simp only [rangeList, List.mem_map, List.mem_range]
  rcases Int.lt_trichotomy step 0 with hc | hc | hc
  · have hnc : ¬ (step > 0) := by omega
    simp only [hnc, if_false, false_and, false_or, hc, true_and]
    constructor
    · rintro ⟨j, hj, rfl⟩; exact ⟨j, rfl, (rangeLen_neg_iff start stop step hc j).mpr hj⟩
    · rintro ⟨j, rfl, hx⟩; exact ⟨j, (rangeLen_neg_iff start stop step hc j).mp hx, rfl⟩
  · subst hc; simp [rangeLen]
  · have hnc : ¬ (step < 0) := by omega
    simp only [hc, if_true, true_and, hnc, false_and, or_false]
    constructor
    · rintro ⟨j, hj, rfl⟩; exact ⟨j, rfl, (rangeLen_pos_iff start stop step hc j).mpr hj⟩
    · rintro ⟨j, rfl, hx⟩; exact ⟨j, (rangeLen_pos_iff start stop step hc j).mp hx, rfl⟩

/-- the value test of Range_Mem (without the index normalisation) is membership, for EVERY integer -/
theorem rangeMemFix_iff (a b c k : Int) : rangeMemFix a b c k = true ↔ k ∈ rangeList a b c := by
  rw [rangeList_mem]
  rcases Int.lt_trichotomy c 0 with hc | hc | hc
  · have hc0 : c ≠ 0 := by omega
    have hnc : ¬ (c > 0) := by omega
    simp only [rangeMemFix, hc0, if_false, hnc, decide_eq_true_eq, false_and, false_or, hc, true_and]
    constructor
    · rintro ⟨h1, h2, h3⟩
      obtain ⟨q, hq⟩ := Int.dvd_of_tmod_eq_zero h3
      have hq0 : q ≤ 0 := by
        rcases Int.lt_or_le 0 q with hp | hp
        · have : 0 < (-c) * q := Int.mul_pos (by omega) hp
          omega
        · exact hp
      refine ⟨(-q).toNat, ?_, h1⟩
      have e : ((-q).toNat : Int) = -q := Int.toNat_of_nonneg (by omega)
      rw [e, Int.mul_neg, ← Int.neg_mul]; omega
    · rintro ⟨j, rfl, h1⟩
      have hcj : 0 ≤ (-c) * (j : Int) := Int.mul_nonneg (by omega) (by omega)
      have hneg : (-c) * (j : Int) = -(c * (j : Int)) := Int.neg_mul _ _
      refine ⟨h1, by omega, ?_⟩
      apply Int.tmod_eq_zero_of_dvd
      refine ⟨-(j : Int), ?_⟩
      rw [Int.neg_mul_neg]; omega
  · subst hc; simp [rangeMemFix]
  · have hc0 : c ≠ 0 := by omega
    have hnc : ¬ (c < 0) := by omega
    simp only [rangeMemFix, hc0, if_false, hc, if_true, decide_eq_true_eq, true_and, hnc, false_and, or_false]
    constructor
    · rintro ⟨h1, h2, h3⟩
      obtain ⟨q, hq⟩ := Int.dvd_of_tmod_eq_zero h3
      have hq0 : 0 ≤ q := by
        rcases Int.lt_or_le q 0 with hp | hp
        · have : c * q < 0 := Int.mul_neg_of_pos_of_neg hc hp
          omega
        · exact hp
      refine ⟨q.toNat, ?_, h2⟩
      have e : (q.toNat : Int) = q := Int.toNat_of_nonneg hq0
      rw [e]; omega
    · rintro ⟨j, rfl, h1⟩
      have hcj : 0 ≤ c * (j : Int) := Int.mul_nonneg (by omega) (by omega)
      refine ⟨by omega, h1, ?_⟩
      apply Int.tmod_eq_zero_of_dvd
      exact ⟨(j : Int), by omega⟩

/-- Range_Mem as it is: the value test applied to `key + len` for a negative key -/
theorem rangeMem_eq_fix (a b c k : Int) :
    rangeMem a b c k = rangeMemFix a b c (if k < 0 then (rangeLen a b c : Int) + k else k) := by
  simp only [rangeMem, rangeMemFix]

end Cello.Iter
