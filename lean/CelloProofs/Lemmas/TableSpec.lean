/-
  CelloProofs/Lemmas/TableSpec.lean — facts about the association-list specification (`Spec.get/set/rem`).
-/
import Cello.Table
import Mathlib.Data.List.Nodup
set_option linter.unusedSectionVars false
set_option linter.unusedVariables false
namespace Cello.Table
variable {κ ν : Type} [DecidableEq κ]

theorem mem_spec_rem (m : Spec κ ν) (k k' : κ) (v' : ν) : (k', v') ∈ Spec.rem m k ↔ k' ≠ k ∧ (k', v') ∈ m := by
  simp [Spec.rem, List.mem_filter, and_comm]

theorem mem_spec_set (m : Spec κ ν) (k k' : κ) (v v' : ν) :
    (k', v') ∈ Spec.set m k v ↔ (k' = k ∧ v' = v) ∨ (k' ≠ k ∧ (k', v') ∈ m) := by
  simp [Spec.set, mem_spec_rem]

theorem spec_get_none (m : Spec κ ν) (k : κ) : Spec.get m k = none ↔ ∀ v, (k, v) ∉ m := by
  unfold Spec.get
  rw [Option.map_eq_none_iff, List.find?_eq_none]
  constructor
  · intro h v hv; exact h (k, v) hv (by simp)
  · intro h p hp hpk
    simp at hpk
    apply h p.2
    rw [← hpk]; exact hp

theorem spec_get_some_mem (m : Spec κ ν) (k : κ) (v : ν) (h : Spec.get m k = some v) : (k, v) ∈ m := by
  unfold Spec.get at h
  rw [Option.map_eq_some_iff] at h
  obtain ⟨p, hp, hv⟩ := h
  have h1 := List.find?_some hp
  have h2 := List.mem_of_find?_eq_some hp
  simp at h1
  rw [← h1, ← hv]; exact h2

theorem nodup_keys_unique (m : Spec κ ν) (hnd : (m.map Prod.fst).Nodup) (k : κ) (v v' : ν)
    (h : (k, v) ∈ m) (h' : (k, v') ∈ m) : v = v' := by
  induction m with
  | nil => cases h
  | cons p m ih =>
    rw [List.map_cons, List.nodup_cons] at hnd
    rcases List.mem_cons.mp h with h1 | h1 <;> rcases List.mem_cons.mp h' with h2 | h2
    · rw [← h1] at h2; exact (Prod.mk.inj h2).2.symm
    · exfalso; apply hnd.1; rw [← h1]; exact List.mem_map.mpr ⟨(k, v'), h2, rfl⟩
    · exfalso; apply hnd.1; rw [← h2]; exact List.mem_map.mpr ⟨(k, v), h1, rfl⟩
    · exact ih hnd.2 h1 h2

theorem spec_get_some (m : Spec κ ν) (hnd : (m.map Prod.fst).Nodup) (k : κ) (v : ν) :
    Spec.get m k = some v ↔ (k, v) ∈ m := by
  constructor
  · exact spec_get_some_mem m k v
  · intro h
    cases hg : Spec.get m k with
    | none => exact absurd h ((spec_get_none m k).mp hg v)
    | some v' => rw [nodup_keys_unique m hnd k v v' h (spec_get_some_mem m k v' hg)]

theorem nodup_spec_rem (m : Spec κ ν) (hnd : (m.map Prod.fst).Nodup) (k : κ) :
    ((Spec.rem m k).map Prod.fst).Nodup :=
  hnd.sublist (List.filter_sublist.map _)

theorem not_mem_keys_spec_rem (m : Spec κ ν) (k : κ) : k ∉ (Spec.rem m k).map Prod.fst := by
  intro h
  obtain ⟨p, hp, hpk⟩ := List.mem_map.mp h
  have := (mem_spec_rem m k p.1 p.2).mp hp
  exact this.1 hpk

theorem nodup_spec_set (m : Spec κ ν) (hnd : (m.map Prod.fst).Nodup) (k : κ) (v : ν) :
    ((Spec.set m k v).map Prod.fst).Nodup := by
  unfold Spec.set
  rw [List.map_cons, List.nodup_cons]
  exact ⟨not_mem_keys_spec_rem m k, nodup_spec_rem m hnd k⟩

theorem spec_rem_absent (m : Spec κ ν) (k : κ) (h : ∀ v, (k, v) ∉ m) : Spec.rem m k = m := by
  unfold Spec.rem
  rw [List.filter_eq_self]
  intro p hp
  simp
  intro hpk
  apply h p.2; rw [← hpk]; exact hp

theorem length_spec_rem_present (m : Spec κ ν) (hnd : (m.map Prod.fst).Nodup) (k : κ) (v : ν) (h : (k, v) ∈ m) :
    (Spec.rem m k).length + 1 = m.length := by
  induction m with
  | nil => cases h
  | cons p m ih =>
    rw [List.map_cons, List.nodup_cons] at hnd
    rcases List.mem_cons.mp h with h1 | h1
    · -- the head is the binding of k; the tail has no k
      have htail : ∀ v', (k, v') ∉ m := by
        intro v' hv'; apply hnd.1; rw [← h1]; exact List.mem_map.mpr ⟨(k, v'), hv', rfl⟩
      have : Spec.rem (p :: m) k = Spec.rem m k := by
        unfold Spec.rem; rw [List.filter_cons]; simp [← h1]
      rw [this, spec_rem_absent m k htail]; rfl
    · have hpk : p.1 ≠ k := by
        intro hpk; apply hnd.1; rw [hpk]; exact List.mem_map.mpr ⟨(k, v), h1, rfl⟩
      have : Spec.rem (p :: m) k = p :: Spec.rem m k := by
        unfold Spec.rem; rw [List.filter_cons]; simp [hpk]
      rw [this, List.length_cons, List.length_cons, ih hnd.2 h1]

end Cello.Table
