/-
  CelloProofs/Lemmas/TableSpec.lean — facts about the association-list specification (`Spec.get/set/rem`).
-/
import Cello.Table
import Mathlib.Data.List.Nodup
set_option linter.unusedSectionVars false
set_option linter.unusedVariables false
namespace Cello.Table
variable {κ ν : Type} [DecidableEq κ]

theorem mem_spec_rem (m : Spec κ ν) (k k' : κ) (v' : ν) : (k', v') ∈ Spec.rem m k ↔ k' ≠ k ∧ (k', v') ∈ m := by
  simp [Spec.rem, List.mem_filter, and_comm]

theorem mem_spec_set (m : Spec κ ν) (k k' : κ) (v v' : ν) :
    (k', v') ∈ Spec.set m k v ↔ (k' = k ∧ v' = v) ∨ (k' ≠ k ∧ (k', v') ∈ m) := by
  simp [Spec.set, mem_spec_rem]

theorem spec_get_none (m : Spec κ ν) (k : κ) : Spec.get m k = none ↔ ∀ v, (k, v) ∉ m := by
  unfold Spec.get
  rw [Option.map_eq_none_iff, List.find?_eq_none]
  constructor
  · intro h v hv; exact h (k, v) hv (by simp)
  · intro h p hp hpk
    simp at hpk
    apply h p.2
    rw [← hpk]; exact hp

theorem spec_get_some_mem (m : Spec κ ν) (k : κ) (v : ν) (h : Spec.get m k = some v) : (k, v) ∈ m := by
  unfold Spec.get at h
  rw [Option.map_eq_some_iff] at h
  obtain ⟨p, hp, hv⟩ := h
  have h1 := List.find?_some hp
  have h2 := List.mem_of_find?_eq_some hp
  simp at h1
  rw [← h1, ← hv]; exact h2

theorem nodup_keys_unique (m : Spec κ ν) (hnd : (m.map Prod.fst).Nodup) (k : κ) (v v' : ν)
    (h : (k, v) ∈ m) (h' : (k, v') ∈ m) : v = v' := by
  induction m with
  | nil => cases h
  | cons p m ih =>
    rw [List.map_cons, List.nodup_cons] at hnd
    rcases List.mem_cons.mp h with h1 | h1 <;> rcases List.mem_cons.mp h' with h2 | h2
    · rw [← h1] at h2; exact (Prod.mk.inj h2).2.symm
    · exfalso; apply hnd.1; rw [← h1]; exact List.mem_map.mpr ⟨(k, v'), h2, rfl⟩
    · exfalso; apply hnd.1; rw [← h2]; exact List.mem_map.mpr ⟨(k, v), h1, rfl⟩
    · exact ih hnd.2 h1 h2

theorem spec_get_some (m : Spec κ ν) (hnd : (m.map Prod.fst).Nodup) (k : κ) (v : ν) :
    Spec.get m k = some v ↔ (k, v) ∈ m := by
  constructor
  · exact spec_get_some_mem m k v
  · intro h
    cases hg : Spec.get m k with
    | none => exact absurd h ((spec_get_none m k).mp hg v)
    | some v' => rw [nodup_keys_unique m hnd k v v' h (spec_get_some_mem m k v' hg)]

theorem nodup_spec_rem (m : Spec κ ν) (hnd : (m.map Prod.fst).Nodup) (k : κ) :
    ((Spec.rem m k).map Prod.fst).Nodup :=
  hnd.sublist (List.filter_sublist.map _)

theorem not_mem_keys_spec_rem (m : Spec κ ν) (k : κ) : k ∉ (Spec.rem m k).map Prod.fst := by
  intro h
  obtain ⟨p, hp, hpk⟩ := List.mem_map.mp h
  have := (mem_spec_rem m k p.1 p.2).mp hp
  exact this.1 hpk

theorem nodup_spec_set (m : Spec κ ν) (hnd : (m.map Prod.fst).Nodup) (k : κ) (v : ν) :
    ((Spec.set m k v).map Prod.fst).Nodup := by
  unfold Spec.set
  rw [List.map_cons, List.nodup_cons]
  exact ⟨not_mem_keys_spec_rem m k, nodup_spec_rem m hnd k⟩

theorem spec_rem_absent (m : Spec κ ν) (k : κ) (h : ∀ v, (k, v) ∉ m) : Spec.rem m k = m := by
  unfold Spec.rem
  rw [List.filter_eq_self]
  intro p hp
  simp
  intro hpk
  apply h p.2; rw [← hpk]; exact hp

theorem length_spec_rem_present (m : Spec κ ν) (hnd : (m.map Prod.fst).Nodup) (k : κ) (v : ν) (h : (k, v) ∈ m) :
    (Spec.rem m k).length + 1 = m.length := by
  induction m with
  | nil => cases h
  | cons p m ih =>
    rw [List.map_cons, List.nodup_cons] at hnd
    rcases List.mem_cons.mp h with h1 | h1
    · -- the head is the binding of k; the tail has no k
      have htail : ∀ v', (k, v') ∉ m := by
        intro v' hv'; apply hnd.1; rw [← h1]; exact List.mem_map.mpr ⟨(k, v'), hv', rfl⟩
      have : Spec.rem (p :: m) k = Spec.rem m k := by
        unfold Spec.rem; rw [List.filter_cons]; simp [← h1]
      rw [this, spec_rem_absent m k htail]; rfl
    · have hpk : p.1 ≠ k := by
        intro hpk; apply hnd.1; rw [hpk]; exact List.mem_map.mpr ⟨(k, v), h1, rfl⟩
      have : Spec.rem (p :: m) k = p :: Spec.rem m k := by
        unfold Spec.rem; rw [List.filter_cons]; simp [hpk]
      rw [this, List.length_cons, List.length_cons, ih hnd.2 h1]

/-! ### the specification means "the last `set` of each key not since removed" -/

theorem spec_get_set (m : Spec κ ν) (k k' : κ) (v : ν) :
    Spec.get (Spec.set m k v) k' = if k' = k then some v else Spec.get m k' := by
  unfold Spec.get Spec.set Spec.rem
  by_cases h : k' = k
  · subst h; simp
  · have h' : ¬ k = k' := fun e => h e.symm
    simp only [List.find?_cons, h', decide_false, if_neg h, List.find?_filter]
    congr 2
    funext p
    by_cases hp : p.1 = k' <;> simp [hp, h]

theorem spec_get_rem (m : Spec κ ν) (k k' : κ) :
    Spec.get (Spec.rem m k) k' = if k' = k then none else Spec.get m k' := by
  unfold Spec.get Spec.rem
  by_cases h : k' = k
  · subst h
    simp only [if_true, Option.map_eq_none_iff, List.find?_eq_none]
    intro p hp
    simp [List.mem_filter] at hp
    simpa using hp.2
  · simp only [if_neg h, List.find?_filter]
    congr 2
    funext p
    by_cases hp : p.1 = k' <;> simp [hp, h]

/-! ### the map a pair list denotes (`Table_New` with pairs, `Table_Assign` from another kind of map) -/

theorem foldl_set_get (k : κ) : ∀ (kvs : List (κ × ν)) (m : Spec κ ν),
    Spec.get (kvs.foldl (fun m p => Spec.set m p.1 p.2) m) k =
      match kvs.reverse.find? (fun p => decide (p.1 = k)) with
      | some p => some p.2
      | none => Spec.get m k := by
  intro kvs
  induction kvs with
  | nil => intro m; rfl
  | cons p kvs ih =>
    intro m
    rw [List.foldl_cons, ih, List.reverse_cons, List.find?_append]
    cases h : kvs.reverse.find? (fun p => decide (p.1 = k)) with
    | some q => rfl
    | none =>
      simp only [Option.none_or, spec_get_set, List.find?_cons, List.find?_nil]
      by_cases e : p.1 = k
      · simp [e]
      · have e' : ¬ k = p.1 := fun h => e h.symm
        simp [e, e']

/-- **a later pair wins**: the map of a pair list binds `k` to the value of the last pair whose key is `k` -/
theorem ofPairs_get (kvs : List (κ × ν)) (k : κ) :
    Spec.get (Spec.ofPairs kvs) k = (kvs.reverse.find? (fun p => decide (p.1 = k))).map (·.2) := by
  unfold Spec.ofPairs
  rw [foldl_set_get]
  cases kvs.reverse.find? (fun p => decide (p.1 = k)) <;> rfl

theorem foldl_set_of_nodup : ∀ (kvs : List (κ × ν)) (m : Spec κ ν), (kvs.map Prod.fst).Nodup →
    (∀ p ∈ kvs, ∀ v, (p.1, v) ∉ m) → kvs.foldl (fun m p => Spec.set m p.1 p.2) m = kvs.reverse ++ m := by
  intro kvs
  induction kvs with
  | nil => intro m _ _; rfl
  | cons p kvs ih =>
    intro m hnd hfresh
    rw [List.map_cons, List.nodup_cons] at hnd
    have hset : Spec.set m p.1 p.2 = p :: m := by
      unfold Spec.set
      rw [spec_rem_absent m p.1 (hfresh p List.mem_cons_self)]
    rw [List.foldl_cons, hset, ih (p :: m) hnd.2, List.reverse_cons, List.append_assoc]; rfl
    intro q hq v hv
    rcases List.mem_cons.mp hv with h | h
    · apply hnd.1
      have : q.1 = p.1 := by rw [← h]
      rw [← this]; exact List.mem_map.mpr ⟨q, hq, rfl⟩
    · exact hfresh q (List.mem_cons_of_mem _ hq) v h

/-- a source map (distinct keys, in its iteration order) denotes itself, reversed -/
theorem ofPairs_of_nodup (kvs : List (κ × ν)) (hnd : (kvs.map Prod.fst).Nodup) : Spec.ofPairs kvs = kvs.reverse := by
  unfold Spec.ofPairs
  rw [foldl_set_of_nodup kvs [] hnd (fun _ _ _ h => by cases h), List.append_nil]

/-- what one operation does to the binding of key `k` in table variable `t` -/
def writeStep (t : Nat) (k : κ) : Op κ ν → Option ν → Option ν
  | .set t' k' v, acc => if t' = t ∧ k' = k then some v else acc
  | .rem t' k', acc => if t' = t ∧ k' = k then none else acc
  | .resize t' n, acc => if t' = t ∧ n = 0 then none else acc      -- `resize(t, 0)` clears; any other resize binds nothing anew
  | .new t', acc => if t' = t then none else acc
  | _, acc => acc

/-- what a history of writes to table variable `t` leaves bound to key `k`: the value of the last `set t k _` unless a
    `rem t k` came after it -/
def lastWrite (t : Nat) (k : κ) (ops : List (Op κ ν)) (acc : Option ν) : Option ν :=
  ops.foldl (fun a op => writeStep t k op a) acc

/-- histories made of `new / set / rem / get / mem / len / iter / riter / resize` (also refused and growing resizes, and
    `resize(t, 0)`); `assign`, `copy`, `newWith`, `assignMap` bring in the bindings of another map -/
def Op.isPlain : Op κ ν → Prop
  | .set .. | .rem .. | .get .. | .mem .. | .len .. | .iter .. | .riter .. | .resize .. | .new .. => True
  | _ => False

theorem specStep_write (t : Nat) (k : κ) (ms : List (Spec κ ν)) (op : Op κ ν) (hop : op.isPlain) :
    ((specStep ms op).1[t]?).map (fun m => Spec.get m k) = (ms[t]?).map (fun m => writeStep t k op (Spec.get m k)) := by
  cases op with
  | set t' k' v =>
    simp only [specStep, writeStep]
    cases hm : ms[t']? with
    | none =>
      by_cases e : t' = t
      · subst e; simp [hm]
      · simp [e]
    | some m =>
      obtain ⟨h1, h2⟩ := List.getElem?_eq_some_iff.mp hm
      simp only [List.getElem?_set, h1, if_true]
      by_cases e : t' = t
      · subst e
        simp only [if_true, hm, Option.map_some, true_and, spec_get_set]
        by_cases ek : k = k' <;> simp [ek, eq_comm]
      · simp [e]
  | rem t' k' =>
    simp only [specStep, writeStep]
    cases hm : ms[t']? with
    | none =>
      by_cases e : t' = t
      · subst e; simp [hm]
      · simp [e]
    | some m =>
      obtain ⟨h1, h2⟩ := List.getElem?_eq_some_iff.mp hm
      cases hg : Spec.get m k' with
      | none =>
        simp only [hg]
        by_cases e : t' = t
        · subst e
          simp only [hm, Option.map_some, true_and]
          by_cases ek : k' = k
          · subst ek; simp [hg]
          · simp [ek]
        · simp [e]
      | some v0 =>
        simp only [hg, List.getElem?_set, h1, if_true]
        by_cases e : t' = t
        · subst e
          simp only [if_true, hm, Option.map_some, true_and, spec_get_rem]
          by_cases ek : k = k' <;> simp [ek, eq_comm]
        · simp [e]
  | get t' k' => simp only [specStep, writeStep]; (repeat' split) <;> rfl
  | mem t' k' => simp only [specStep, writeStep]; (repeat' split) <;> rfl
  | len t' => simp only [specStep, writeStep]; (repeat' split) <;> rfl
  | iter t' => simp only [specStep, writeStep]; (repeat' split) <;> rfl
  | riter t' => simp only [specStep, writeStep]; (repeat' split) <;> rfl
  | new t' =>
    simp only [specStep, writeStep]
    by_cases hl : t' < ms.length
    · simp only [hl, if_true, List.getElem?_set]
      by_cases e : t' = t
      · subst e; simp [hl, Spec.get]
      · simp [e]
    · simp only [hl, if_false]
      by_cases e : t' = t
      · subst e; simp [List.getElem?_eq_none (Nat.le_of_not_lt hl)]
      · simp [e]
  | resize t' n =>
    simp only [specStep, writeStep]
    cases hm : ms[t']? with
    | none =>
      by_cases e : t' = t
      · subst e; simp [hm]
      · simp [e]
    | some m =>
      obtain ⟨h1, h2⟩ := List.getElem?_eq_some_iff.mp hm
      by_cases h0 : n = 0
      · simp only [h0, if_true, List.getElem?_set, h1, and_true]
        by_cases e : t' = t
        · subst e; simp [hm, Spec.get]
        · simp [e]
      · simp only [h0, if_false, and_false]
        split <;> simp
  | assign d s => exact absurd hop (by simp [Op.isPlain])
  | copy d s => exact absurd hop (by simp [Op.isPlain])
  | newWith t' kvs odd => exact absurd hop (by simp [Op.isPlain])
  | assignMap d kvs => exact absurd hop (by simp [Op.isPlain])

/-- **the specification is "last write wins"**: after a plain history, table variable `t` binds `k` to the value of the last
    `set t k _` not followed by a `rem t k` (and to what it bound before if the history never wrote `k`) -/
theorem spec_last_write (t : Nat) (k : κ) :
    ∀ (ops : List (Op κ ν)) (ms : List (Spec κ ν)), (∀ op ∈ ops, op.isPlain) →
      ((specRun ms ops).1[t]?).map (fun m => Spec.get m k) = (ms[t]?).map (fun m => lastWrite t k ops (Spec.get m k)) := by
  intro ops
  induction ops with
  | nil => intro ms _; simp [specRun, lastWrite]
  | cons op ops ih =>
    intro ms hplain
    have hrest : ∀ o ∈ ops, o.isPlain := fun o ho => hplain o (List.mem_cons_of_mem _ ho)
    have hop := hplain op List.mem_cons_self
    have hrun : (specRun ms (op :: ops)).1 = (specRun (specStep ms op).1 ops).1 := rfl
    rw [hrun, ih (specStep ms op).1 hrest]
    have h1 := specStep_write t k ms op hop
    cases hA : (specStep ms op).1[t]? with
    | none =>
      rw [hA] at h1
      cases hB : ms[t]? with
      | none => rfl
      | some m => rw [hB] at h1; cases h1
    | some m1 =>
      rw [hA] at h1
      cases hB : ms[t]? with
      | none => rw [hB] at h1; cases h1
      | some m =>
        rw [hB] at h1
        simp only [Option.map_some, Option.some.injEq] at h1 ⊢
        rw [h1]; rfl

/-! ### "last write wins" for EVERY history: `assign` / `copy` take over the pending writes of the source variable,
    `new` with pairs and `assign` from another kind of map bind the last pair that names the key -/

/-- the value of the last pair of a pair list that names `k` -/
def pairsLast (kvs : List (κ × ν)) (k : κ) : Option ν := (kvs.reverse.find? (fun p => decide (p.1 = k))).map (·.2)

/-- what one operation does to the pending writes `w` (per table variable and key) of `N` table variables.  For the plain
    operations this is `writeStep`, for every variable and key at once. -/
def writeAll (N : Nat) (w : Nat → κ → Option ν) : Op κ ν → Nat → κ → Option ν
  | .set t' k' v => fun t k => if t' = t ∧ k' = k then some v else w t k
  | .rem t' k' => fun t k => if t' = t ∧ k' = k then none else w t k
  | .resize t' n => fun t k => if t' = t ∧ n = 0 then none else w t k
  | .new t' => fun t k => if t' = t then none else w t k
  | .assign d s => if d < N ∧ s < N then (fun t k => if d = t then w s k else w t k) else w
  | .copy d s => if d < N ∧ s < N then (fun t k => if d = t then w s k else w t k) else w
  | .newWith t' kvs odd => if odd then w else (fun t k => if t' = t then pairsLast kvs k else w t k)
  | .assignMap d kvs => fun t k => if d = t then pairsLast kvs k else w t k
  | _ => w

/-- what a history leaves bound to key `k` in table variable `t`, starting from empty tables -/
def lastBinding (N : Nat) (ops : List (Op κ ν)) : Nat → κ → Option ν := ops.foldl (writeAll N) (fun _ _ => none)

theorem writeAll_plain (N : Nat) (w : Nat → κ → Option ν) (op : Op κ ν) (hop : op.isPlain) (t : Nat) (k : κ) :
    writeAll N w op t k = writeStep t k op (w t k) := by
  cases op <;> first | rfl | exact absurd hop (by simp [Op.isPlain])

/-- on plain histories `lastBinding` is the single-key reading `lastWrite` -/
theorem foldl_writeAll_plain (N : Nat) (t : Nat) (k : κ) : ∀ (ops : List (Op κ ν)) (w : Nat → κ → Option ν),
    (∀ op ∈ ops, op.isPlain) → ops.foldl (writeAll N) w t k = lastWrite t k ops (w t k) := by
  intro ops
  induction ops with
  | nil => intro w _; rfl
  | cons op ops ih =>
    intro w hplain
    rw [List.foldl_cons, ih _ (fun o ho => hplain o (List.mem_cons_of_mem _ ho)),
      writeAll_plain N w op (hplain op List.mem_cons_self)]
    rfl

theorem specStep_length (ms : List (Spec κ ν)) (op : Op κ ν) : (specStep ms op).1.length = ms.length := by
  cases op <;> simp only [specStep] <;> (repeat' split) <;> simp

private theorem getElem?_of_lt {α : Type} {l : List α} {i : Nat} (h : i < l.length) : l[i]? = some l[i] :=
  List.getElem?_eq_getElem h

theorem specStep_writeAll (N : Nat) (ms : List (Spec κ ν)) (hN : ms.length = N) (w : Nat → κ → Option ν)
    (hw : ∀ t k, t < N → (ms[t]?).map (fun m => Spec.get m k) = some (w t k)) (op : Op κ ν) :
    ∀ t k, t < N → ((specStep ms op).1[t]?).map (fun m => Spec.get m k) = some (writeAll N w op t k) := by
  intro t k ht
  by_cases hop : op.isPlain
  · rw [specStep_write t k ms op hop, writeAll_plain N w op hop]
    have := hw t k ht
    cases hm : ms[t]? with
    | none => rw [hm] at this; cases this
    | some m =>
      rw [hm] at this
      simp only [Option.map_some, Option.some.injEq] at this ⊢
      rw [this]
  · have copyCase : ∀ d s, ((match ms[d]?, ms[s]? with
          | some _, some m => (ms.set d m, (Obs.done : Obs κ ν))
          | _, _ => (ms, .badOp)).1[t]?).map (fun m => Spec.get m k)
        = some ((if d < N ∧ s < N then (fun t k => if d = t then w s k else w t k) else w) t k) := by
      intro d s
      by_cases hds : d < N ∧ s < N
      · rw [if_pos hds]
        have hd : d < ms.length := hN ▸ hds.1
        have hs : s < ms.length := hN ▸ hds.2
        simp only [getElem?_of_lt hd, getElem?_of_lt hs, List.getElem?_set, hd, if_true]
        by_cases e : d = t
        · subst e
          have := hw s k hds.2
          rw [getElem?_of_lt hs] at this
          simpa using this
        · simp only [e, if_false]; exact hw t k ht
      · rw [if_neg hds]
        have : ms[d]? = none ∨ ms[s]? = none := by
          by_cases hd : d < N
          · right; rw [List.getElem?_eq_none_iff]; have := fun h => hds ⟨hd, h⟩; omega
          · left; rw [List.getElem?_eq_none_iff]; omega
        rcases this with h | h
        · simp only [h]; exact hw t k ht
        · cases hd : ms[d]? <;> simp only [h] <;> exact hw t k ht
    have pairsCase : ∀ (t' : Nat) (kvs : List (κ × ν)),
        ((if t' < ms.length then (ms.set t' (Spec.ofPairs kvs), (Obs.done : Obs κ ν)) else (ms, .badOp)).1[t]?).map
          (fun m => Spec.get m k) = some (if t' = t then pairsLast kvs k else w t k) := by
      intro t' kvs
      by_cases e : t' = t
      · subst e
        have hl : t' < ms.length := hN ▸ ht
        simp only [hl, if_true, List.getElem?_set, Option.map_some, ofPairs_get, pairsLast]
      · simp only [e, if_false]
        split
        · simp only [List.getElem?_set, e, if_false]; exact hw t k ht
        · exact hw t k ht
    cases op with
    | assign d s => simp only [specStep, writeAll]; exact copyCase d s
    | copy d s => simp only [specStep, writeAll]; exact copyCase d s
    | newWith t' kvs odd =>
      cases odd with
      | true =>
        simp only [specStep, writeAll, if_true]
        split <;> exact hw t k ht
      | false =>
        simp only [specStep, writeAll, Bool.false_eq_true, if_false]
        exact pairsCase t' kvs
    | assignMap d kvs => simp only [specStep, writeAll]; exact pairsCase d kvs
    | _ => exact absurd (by simp [Op.isPlain]) hop

/-- **the specification is "last write wins", for every history**: table variable `t` binds `k` to what `lastBinding`
    computes from the operations alone -/
theorem spec_last_binding (N : Nat) : ∀ (ops : List (Op κ ν)) (ms : List (Spec κ ν)) (w : Nat → κ → Option ν),
    ms.length = N → (∀ t k, t < N → (ms[t]?).map (fun m => Spec.get m k) = some (w t k)) →
    ∀ t k, t < N → ((specRun ms ops).1[t]?).map (fun m => Spec.get m k) = some (ops.foldl (writeAll N) w t k) := by
  intro ops
  induction ops with
  | nil => intro ms w _ hw t k ht; simpa [specRun] using hw t k ht
  | cons op ops ih =>
    intro ms w hN hw t k ht
    have hrun : (specRun ms (op :: ops)).1 = (specRun (specStep ms op).1 ops).1 := rfl
    rw [hrun, List.foldl_cons]
    exact ih (specStep ms op).1 (writeAll N w op) (by rw [specStep_length, hN]) (specStep_writeAll N ms hN w hw op) t k ht

end Cello.Table
