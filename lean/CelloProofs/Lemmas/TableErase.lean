/-
  CelloProofs/Lemmas/TableErase.lean — `Table_Rem`: the model's backward-shift loop is the shared `RH.shiftLoop`, whose
  specification (`RH.eraseAt_spec`, Lemmas/RHErase.lean: invariant kept, exactly the removed entry gone, one occupied slot
  fewer) gives the refinement of `rem`.
-/
import CelloProofs.Lemmas.TableOps
import CelloProofs.Lemmas.RHErase
set_option linter.unusedSectionVars false
set_option linter.unusedVariables false
namespace Cello.Table
open RH
variable {κ ν : Type} [DecidableEq κ]

theorem shiftBack_eq {n : Nat} : ∀ (fuel : Nat) (s : Slots κ ν n) (i : Nat) (hi : i < n),
    shiftBack fuel s i hi = RH.shiftLoop fuel s i hi := by
  intro fuel
  induction fuel with
  | zero => intro s i hi; rfl
  | succ fuel ih =>
    intro s i hi
    simp only [shiftBack, RH.shiftLoop, ih]
    split <;> rename_i h <;> simp only [h]

/-- removing the entry stored at slot `p` -/
theorem erase_spec {n : Nat} (hash : κ → Nat) (s : Slots κ ν n) (inv : Inv0 hash s) (p : Nat) (hp : p < n)
    (x : Entry κ ν) (hx : s[p] = some x) (z : Nat) (hz : z < n) (hze : s[z] = none) :
    ∃ s', shiftBack n (s.set p none hp) p hp = some s' ∧ Inv0 hash s' ∧
      (∀ e, Mem s' e ↔ Mem s e ∧ e ≠ x) ∧ count s' + 1 = count s := by
  obtain ⟨s', h1, h2, _, h4, h5, _⟩ := RH.eraseAt_spec hash s inv p hp x hx z hz hze
  exact ⟨s', by rw [shiftBack_eq]; exact h1, h2, h4, h5⟩

/-- `Table_Rem` -/
theorem rem_rep (cfg : Cfg) (g : GoodCfg cfg) (hash : κ → Nat) (t : Tab κ ν) (m : Spec κ ν) (r : Rep hash t m) (k : κ) :
    ∃ t', rem cfg hash t k = .ok (t', match Spec.get m k with | none => .raised .KeyError | some _ => .done) ∧
      Rep hash t' (match Spec.get m k with | none => m | some _ => Spec.rem m k) := by
  rcases find_rep hash t m r k with ⟨h1, h2⟩ | ⟨v, p, hp, x, h1, h2, h3, h4, h5⟩
  · exact ⟨t, by simp only [rem, h2, h1], by simp only [h1]; exact r⟩
  · have room : t.nitems < t.n := by
      rcases r.room with h | h
      · exact h
      · omega
    obtain ⟨z, hz, hze⟩ := r.toWF.exists_empty room
    obtain ⟨s', e1, inv', hmem, hcnt⟩ := erase_spec hash t.slots r.inv0 p hp x h3 z hz hze
    have hkv : (k, v) ∈ m := (spec_get_some m r.nodup k v).mp h1
    have hlen := length_spec_rem_present m r.nodup k v hkv
    have hpos : 0 < t.nitems := by rw [← r.cnt]; omega
    have r1 : Rep hash ⟨t.n, s', t.nitems - 1⟩ (Spec.rem m k) := by
      refine ⟨⟨⟨inv', by simp only; rw [← r.cnt]; omega⟩, nodup_spec_rem m r.nodup k, by simp only; rw [← r.len]; omega, ?_⟩,
        Or.inl (by simp only; omega)⟩
      intro k' v'
      rw [mem_spec_rem, ← r.has]
      constructor
      · rintro ⟨e, he, hk, hv⟩
        obtain ⟨hes, hne⟩ := (hmem e).mp he
        refine ⟨?_, e, hes, hk, hv⟩
        intro hkk
        apply hne
        exact mem_key_unique hash t.slots r.inv0 e x hes ⟨p, hp, h3⟩ (by rw [hk, hkk, h4])
      · rintro ⟨hne, e, hes, hk, hv⟩
        refine ⟨e, (hmem e).mpr ⟨hes, ?_⟩, hk, hv⟩
        intro hex; subst hex
        exact hne (hk.symm.trans h4)
    obtain ⟨t', e2, r2⟩ := resizeLess_rep cfg g hash _ _ r1
    refine ⟨t', ?_, by simp only [h1]; exact r2⟩
    simp only [rem, h2, h1]
    simp only [e1, e2]

end Cello.Table
