/-
  Helper lemmas for C08 (type-class dispatch), life cycle of run-time type objects: `Type_New` word by word on a storage
  with ANY previous contents writes exactly the words of a fresh type object (`typeNewRaw_eq_toRaw`), a storage reads
  back as the type object it holds (`ofRaw_toRaw`), hence construction in place re-establishes the invariant of the
  lookups relative to the NEW declaration, whatever the cache words, memoised class pointers and triples held before.
-/
import Cello.Dispatch
import CelloProofs.Lemmas.Disp

namespace Cello.Dispatch

/-! ### word stores -/

theorem writeCell_length (mem : List Word) (k : Nat) (a b c : Word) : (writeCell mem k a b c).length = mem.length := by
  simp [writeCell]

theorem clearCells_length : ∀ (cnt i : Nat) (mem : List Word), (clearCells i cnt mem).length = mem.length
  | 0, _, _ => rfl
  | cnt + 1, i, mem => by simp [clearCells, clearCells_length cnt, writeCell_length]

theorem writeInsts_length (nb : Nat) : ∀ (es : List (String × Inst)) (j : Nat) (mem : List Word),
    (writeInsts nb j es mem).length = mem.length
  | [], _, _ => rfl
  | (nm, ins) :: es, j, mem => by simp [writeInsts, writeInsts_length nb es, writeCell_length]

theorem typeNewRaw_length (L : Layout) (mem : List Word) (name : String) (size : Nat) (es : List (String × Inst)) :
    (typeNewRaw L mem name size es).1.length = mem.length := by
  unfold typeNewRaw
  split
  · rfl
  · split
    · rfl
    · simp [writeCell_length, writeInsts_length, clearCells_length]

/-- one cell store overwrites exactly the three words of that cell, whatever they were -/
theorem writeCell_append (pre old tail : List Word) (k : Nat) (a b c : Word)
    (hp : pre.length = 3 * k) (ho : old.length = 3) :
    writeCell (pre ++ (old ++ tail)) k a b c = pre ++ ([a, b, c] ++ tail) := by
  match old, ho with
  | [x, y, z], _ =>
    simp only [writeCell, ← hp]
    simp

/-- the clearing loop overwrites exactly `cnt` cells with NULL words, whatever they held -/
theorem clearCells_append : ∀ (cnt i : Nat) (pre old tail : List Word), pre.length = 3 * i → old.length = 3 * cnt →
    clearCells i cnt (pre ++ (old ++ tail)) = pre ++ (List.replicate (3 * cnt) Word.null ++ tail)
  | 0, _, pre, old, tail, _, ho => by
    have : old = [] := List.eq_nil_of_length_eq_zero (by simpa using ho)
    subst this; simp [clearCells]
  | cnt + 1, i, pre, old, tail, hp, ho => by
    have h3 : (old.take 3).length = 3 := by simp [List.length_take]; omega
    have hsplit : old = old.take 3 ++ old.drop 3 := (List.take_append_drop 3 old).symm
    have hd : (old.drop 3).length = 3 * cnt := by simp [List.length_drop]; omega
    rw [hsplit, List.append_assoc]
    simp only [clearCells]
    rw [writeCell_append pre (old.take 3) (old.drop 3 ++ tail) i _ _ _ hp h3]
    rw [← List.append_assoc pre]
    rw [clearCells_append cnt (i + 1) (pre ++ [Word.null, .null, .null]) (old.drop 3) tail (by simp [hp]; omega) hd]
    have : List.replicate (3 * (cnt + 1)) Word.null = Word.null :: .null :: .null :: List.replicate (3 * cnt) .null := by
      rw [show 3 * (cnt + 1) = 3 * cnt + 1 + 1 + 1 by omega]; rfl
    rw [this]
    simp

def tripleWords (p : String × Inst) : List Word := [.null, .str p.1, .inst p.2]

/-- the instance loop overwrites exactly one cell per instance, from cell `nb + j` on, whatever they held -/
theorem writeInsts_append (nb : Nat) : ∀ (es : List (String × Inst)) (j : Nat) (pre old tail : List Word),
    pre.length = 3 * (nb + j) → old.length = 3 * es.length →
    writeInsts nb j es (pre ++ (old ++ tail)) = pre ++ (es.flatMap tripleWords ++ tail)
  | [], _, pre, old, tail, _, ho => by
    have : old = [] := List.eq_nil_of_length_eq_zero (by simpa using ho)
    subst this; simp [writeInsts]
  | (nm, ins) :: es, j, pre, old, tail, hp, ho => by
    have hl : old.length = 3 * es.length + 3 := by simpa [Nat.mul_add] using ho
    have h3 : (old.take 3).length = 3 := by simp [List.length_take]; omega
    have hsplit : old = old.take 3 ++ old.drop 3 := (List.take_append_drop 3 old).symm
    have hd : (old.drop 3).length = 3 * es.length := by simp [List.length_drop]; omega
    rw [hsplit, List.append_assoc]
    simp only [writeInsts]
    rw [writeCell_append pre (old.take 3) (old.drop 3 ++ tail) (nb + j) _ _ _ hp h3]
    rw [← List.append_assoc pre]
    rw [writeInsts_append nb es (j + 1) (pre ++ [Word.null, .str nm, .inst ins]) (old.drop 3) tail (by simp [hp]; omega) hd]
    simp [tripleWords]

theorem flatMap_tripleWords_length (es : List (String × Inst)) : (es.flatMap tripleWords).length = 3 * es.length := by
  induction es with
  | nil => rfl
  | cons p es ih => simp [List.flatMap_cons, tripleWords, ih]; omega

/-! ### layout -/

/-- the layout facts `Type_New` relies on: the cache words are whole cells, and the instance triples start right after
    the `__Name` and `__Size` cells -/
structure LayoutOK (L : Layout) : Prop where
  whole : L.cacheNum % 3 = 0
  first : L.nBuiltins = L.cacheNum / 3 + 2

theorem LayoutOK.cache3 {L : Layout} (h : LayoutOK L) : 3 * (L.cacheNum / 3) = L.cacheNum := by
  have := h.whole; omega

/-- a freshly constructed type object with `rest` after its terminator -/
def freshStore (L : Layout) (hdr sent : Bool) (name : String) (size : Nat) (es : List (String × Inst)) (rest : List Word) : Store :=
  { trec := mkType L.cacheNum hdr es sent, name := name, size := size, rest := rest }

theorem flatMap_words_mk (es : List (String × Inst)) :
    (es.map (fun p => (⟨none, p.1, p.2⟩ : Entry))).flatMap Entry.words = es.flatMap tripleWords := by
  induction es with
  | nil => rfl
  | cons p es ih => simp [List.flatMap_cons, Entry.words, Word.ofCls, tripleWords, ih]

theorem freshStore_toRaw (L : Layout) (hdr sent : Bool) (name : String) (size : Nat) (es : List (String × Inst)) (rest : List Word) :
    (freshStore L hdr sent name size es rest).toRaw =
      List.replicate L.cacheNum Word.null ++ ([.null, .str "__Name", .str name, .null, .str "__Size", .num size] ++
        (es.flatMap tripleWords ++ ([.null, .null, .null] ++ rest))) := by
  simp [freshStore, Store.toRaw, mkType, flatMap_words_mk, Word.ofInst]

/-- **`Type_New` from ANY previous contents.** On every storage `mem` that is large enough — its words may be anything:
    zeroes, junk, or the warmed cache words, memoised class pointers and triples of a previous incarnation — `Type_New`
    with at most CELLO_MAX_INSTANCES instances leaves exactly the words of a fresh type object: all cache words NULL,
    `__Name`/`__Size` cells, the argument triples with NULL `cls` words, the NULL terminator; the words after the
    terminator are the old ones. -/
theorem typeNewRaw_eq_toRaw {L : Layout} (hL : LayoutOK L) (hdr sent : Bool) (mem : List Word) (name : String) (size : Nat)
    (es : List (String × Inst)) (hn : es.length ≤ L.maxInstances) (hlen : 3 * (L.nBuiltins + es.length + 1) ≤ mem.length) :
    typeNewRaw L mem name size es =
      ((freshStore L hdr sent name size es (mem.drop (3 * (L.nBuiltins + es.length + 1)))).toRaw, .ok ()) := by
  have hc3 := hL.cache3
  have hnb := hL.first
  generalize hce : L.cacheNum / 3 = ce at hc3 hnb
  -- cut the storage into the regions Type_New writes
  let o1 := mem.take (3 * ce)
  let r1 := mem.drop (3 * ce)
  let o2 := r1.take 3
  let r2 := r1.drop 3
  let o3 := r2.take 3
  let r3 := r2.drop 3
  let o4 := r3.take (3 * es.length)
  let r4 := r3.drop (3 * es.length)
  let o5 := r4.take 3
  let r5 := r4.drop 3
  have hmem : mem = o1 ++ (o2 ++ (o3 ++ (o4 ++ (o5 ++ r5)))) := by
    simp only [o1, o2, o3, o4, o5, r1, r2, r3, r4, r5, List.take_append_drop]
  have l1 : o1.length = 3 * ce := by simp only [o1, List.length_take]; omega
  have lr1 : r1.length = mem.length - 3 * ce := by simp only [r1, List.length_drop]
  have l2 : o2.length = 3 := by simp only [o2, List.length_take]; omega
  have lr2 : r2.length = mem.length - 3 * ce - 3 := by simp only [r2, List.length_drop]; omega
  have l3 : o3.length = 3 := by simp only [o3, List.length_take]; omega
  have lr3 : r3.length = mem.length - 3 * ce - 6 := by simp only [r3, List.length_drop]; omega
  have l4 : o4.length = 3 * es.length := by simp only [o4, List.length_take]; omega
  have lr4 : r4.length = mem.length - 3 * ce - 6 - 3 * es.length := by simp only [r4, List.length_drop]; omega
  have l5 : o5.length = 3 := by simp only [o5, List.length_take]; omega
  have hr5 : r5 = mem.drop (3 * (L.nBuiltins + es.length + 1)) := by
    simp only [r5, r4, r3, r2, r1, List.drop_drop]
    congr 1; omega
  have hcond1 : ¬ es.length > L.maxInstances := by omega
  have hcond2 : (decide (mem.length < 3 * (L.nBuiltins + es.length + 1)) || decide (mem.length < 3 * (ce + 2))) = false := by
    simp; omega
  unfold typeNewRaw
  rw [if_neg hcond1, hce, hcond2]
  simp only [Bool.false_eq_true, if_false]
  rw [freshStore_toRaw, ← hr5, ← hc3]
  congr 1
  -- the five stores, region by region
  have s1 : clearCells 0 ce mem = List.replicate (3 * ce) Word.null ++ (o2 ++ (o3 ++ (o4 ++ (o5 ++ r5)))) := by
    have := clearCells_append ce 0 [] o1 (o2 ++ (o3 ++ (o4 ++ (o5 ++ r5)))) (by simp) l1
    simpa [← hmem] using this
  rw [s1]
  rw [writeCell_append _ o2 _ ce _ _ _ (by simp) l2]
  rw [← List.append_assoc (List.replicate (3 * ce) Word.null)]
  rw [writeCell_append _ o3 _ (ce + 1) _ _ _ (by simp; omega) l3]
  rw [← List.append_assoc (List.replicate (3 * ce) Word.null ++ _)]
  rw [writeInsts_append L.nBuiltins es 0 _ o4 _ (by simp; omega) l4]
  rw [← List.append_assoc (_ ++ _ ++ _)]
  rw [writeCell_append _ o5 _ (L.nBuiltins + es.length) _ _ _ (by simp only [List.length_append, List.length_replicate, List.length_cons, List.length_nil, flatMap_tripleWords_length]; omega) l5]
  simp [List.append_assoc]

/-! ### reading a storage back -/

theorem viewCache_map : ∀ cache : List (Option Inst), viewCache (cache.map Word.ofInst) = some cache
  | [] => rfl
  | none :: cs => by simp [viewCache, Word.ofInst, viewCache_map cs]
  | some i :: cs => by simp [viewCache, Word.ofInst, viewCache_map cs]

theorem viewEntries_words (rest : List Word) : ∀ es : List Entry,
    viewEntries (es.flatMap Entry.words ++ (Word.null :: .null :: .null :: rest)) = some (es, rest)
  | [] => by simp [viewEntries]
  | e :: es => by
    obtain ⟨memo, nm, i⟩ := e
    cases memo with
    | none => simp [List.flatMap_cons, Entry.words, Word.ofCls, viewEntries, viewEntries_words rest es]
    | some c => simp [List.flatMap_cons, Entry.words, Word.ofCls, viewEntries, viewEntries_words rest es]

/-- a storage reads back as the type object whose words it holds -/
theorem ofRaw_toRaw {L : Layout} (hL : LayoutOK L) (s : Store) (hc : s.trec.cache.length = L.cacheNum) :
    Store.ofRaw L s.trec.hdr s.trec.sentinel s.toRaw = some s := by
  have hc3 := hL.cache3
  have hnb := hL.first
  generalize hce : L.cacheNum / 3 = ce at hc3 hnb
  have hlen : (s.trec.cache.map Word.ofInst).length = L.cacheNum := by simp [hc]
  unfold Store.ofRaw
  simp only [hce]
  have h1 : s.toRaw.take L.cacheNum = s.trec.cache.map Word.ofInst := by
    unfold Store.toRaw; exact List.take_left' hlen
  have h2 : s.toRaw[3 * ce + 2]? = some (.str s.name) := by
    unfold Store.toRaw
    rw [List.getElem?_append_right (by rw [hlen]; omega), hlen, hc3]
    simp
  have h3 : s.toRaw[3 * (ce + 1) + 2]? = some (.num s.size) := by
    unfold Store.toRaw
    rw [List.getElem?_append_right (by rw [hlen]; omega), hlen]
    have : 3 * (ce + 1) + 2 - L.cacheNum = 5 := by omega
    rw [this]; simp
  have h4 : s.toRaw.drop (3 * L.nBuiltins) = s.trec.entries.flatMap Entry.words ++ ([Word.null, .null, .null] ++ s.rest) := by
    unfold Store.toRaw
    have e6 : 3 * L.nBuiltins = (s.trec.cache.map Word.ofInst ++ [Word.null, .str "__Name", .str s.name, .null, .str "__Size", .num s.size]).length := by
      rw [List.length_append, hlen]; simp; omega
    rw [← List.append_assoc, e6]
    exact List.drop_left' rfl
  rw [h1, h2, h3, h4, viewCache_map]
  have := viewEntries_words s.rest s.trec.entries
  simp only [List.cons_append, List.nil_append] at this ⊢
  rw [this]

/-! ### construction in place -/

/-- what the lookups need of a type object's storage: the invariant of its record relative to the declaration in force,
    and the size `Type_Alloc` gives it -/
structure StoreOK (L : Layout) (D : String → Option Inst) (slots : List (Nat × Cls)) (s : Store) : Prop where
  inv : Inv D slots L.cacheNum s.trec
  len : s.toRaw.length = 3 * L.cells

theorem declOf_mk (n : Nat) (hdr sent : Bool) (es : List (String × Inst)) :
    declared (mkType n hdr es sent).entries = declOf es :=
  funext (fun nm => declared_mkEntries es nm)

/-- **construction on any storage** of the right size: from ANY words, the result is the fresh type object of the new
    instance list, and it satisfies the lookup invariant relative to the NEW declaration -/
theorem constructAt_spec {L : Layout} (hL : LayoutOK L) (slots : List (Nat × Cls)) (hdr sent : Bool) (mem : List Word)
    (name : String) (size : Nat) (es : List (String × Inst)) (hlen : mem.length = 3 * L.cells) :
    (es.length ≤ L.maxInstances →
      constructAt L hdr sent mem name size es =
        (some (freshStore L hdr sent name size es (mem.drop (3 * (L.nBuiltins + es.length + 1)))), .ok ()) ∧
      StoreOK L (declOf es) slots (freshStore L hdr sent name size es (mem.drop (3 * (L.nBuiltins + es.length + 1))))) ∧
    (L.maxInstances < es.length → constructAt L hdr sent mem name size es = (none, .raised .OutOfMemoryError)) := by
  constructor
  · intro hn
    have hfit : 3 * (L.nBuiltins + es.length + 1) ≤ mem.length := by rw [hlen]; unfold Layout.cells; omega
    have heq := typeNewRaw_eq_toRaw hL hdr sent mem name size es hn hfit
    have hcl : (freshStore L hdr sent name size es (mem.drop (3 * (L.nBuiltins + es.length + 1)))).trec.cache.length = L.cacheNum := by
      simp [freshStore, mkType]
    refine ⟨?_, ?_, ?_⟩
    · unfold constructAt
      rw [heq]
      simp only
      have := ofRaw_toRaw hL (freshStore L hdr sent name size es (mem.drop (3 * (L.nBuiltins + es.length + 1)))) hcl
      simpa [freshStore, mkType] using this
    · have := mkType_inv slots L.cacheNum hdr sent es
      rw [declOf_mk] at this
      exact this
    · have := typeNewRaw_length L mem name size es
      rw [heq] at this
      rw [this, hlen]
  · intro hn
    unfold constructAt typeNewRaw
    rw [if_pos hn]

/-- **re-construction IN PLACE** (`destruct(T); construct(T, …)`): whatever the cache words, memoised class pointers and
    triples of the previous incarnation hold — no hypothesis on them at all, only the size of the storage — the object
    becomes the fresh type object of the new instance list and satisfies the lookup invariant relative to the NEW
    declaration; a refused construction (more than CELLO_MAX_INSTANCES instances) changes nothing. -/
theorem constructIn_spec {L : Layout} (hL : LayoutOK L) (slots : List (Nat × Cls)) (s : Store) (name : String) (size : Nat)
    (es : List (String × Inst)) (hlen : s.toRaw.length = 3 * L.cells) :
    (es.length ≤ L.maxInstances →
      (constructIn L s name size es).2 = .ok () ∧
      (constructIn L s name size es).1.trec = mkType L.cacheNum s.trec.hdr es s.trec.sentinel ∧
      StoreOK L (declOf es) slots (constructIn L s name size es).1) ∧
    (L.maxInstances < es.length → constructIn L s name size es = (s, .raised .OutOfMemoryError)) := by
  have sp := constructAt_spec hL slots s.trec.hdr s.trec.sentinel s.toRaw name size es hlen
  constructor
  · intro hn
    obtain ⟨h1, h2⟩ := sp.1 hn
    unfold constructIn
    rw [h1]
    exact ⟨rfl, rfl, h2⟩
  · intro hn
    unfold constructIn
    rw [sp.2 hn]

/-! ### life-cycle histories -/

theorem scan_skel (t : TypeRec) (cls : Cls) : (scan t cls).1.entries.map Entry.skel = t.entries.map Entry.skel := by
  unfold scan
  simp only
  cases scanPtr cls t.entries with
  | some i => rfl
  | none => exact scanName_skel cls t.entries

theorem instanceOf_skel (slots : List (Nat × Cls)) (t : TypeRec) (cls : Cls) :
    (instanceOf slots t cls).1.entries.map Entry.skel = t.entries.map Entry.skel := by
  unfold instanceOf
  cases slotOf slots cls with
  | none => exact scan_skel t cls
  | some p =>
    obtain ⟨i, lit⟩ := p
    simp only
    split
    · split
      · rfl
      · exact scan_skel t lit
    · rfl

theorem applyOp_skel (slots : List (Nat × Cls)) (t : TypeRec) (op : Op) :
    (applyOp slots t op).1.entries.map Entry.skel = t.entries.map Entry.skel := by
  cases op with
  | lookup cls => exact instanceOf_skel slots t cls
  | implements cls => exact scan_skel t cls
  | methodAt cls k =>
    simp only [applyOp, methodAt]
    have := instanceOf_skel slots t cls
    rcases hio : instanceOf slots t cls with ⟨t1, o⟩
    rw [hio] at this
    simp only at this ⊢
    cases o with
    | ok r =>
      cases r with
      | none => exact this
      | some inst =>
        simp only
        cases memberAt inst k with
        | ok b => cases b <;> exact this
        | raised e => exact this
        | ub => exact this
    | raised e => exact this
    | ub => exact this
  | implementsMethodAt cls k =>
    simp only [applyOp, implementsMethodAt]
    have := scan_skel t cls
    rcases hsc : scan t cls with ⟨t1, o⟩
    rw [hsc] at this
    simp only at this ⊢
    cases o with
    | none => exact this
    | some inst => exact this
  | reset => simp [applyOp, reset, Entry.skel, Function.comp_def]

theorem applyOp_entries_length (slots : List (Nat × Cls)) (t : TypeRec) (op : Op) :
    (applyOp slots t op).1.entries.length = t.entries.length := by
  have := congrArg List.length (applyOp_skel slots t op)
  simpa using this

theorem applyLife_spec {L : Layout} (hL : LayoutOK L) {slots : List (Nat × Cls)} (hs : SlotsOK slots L.cacheNum)
    {D : String → Option Inst} {s : Store} (h : StoreOK L D slots s) (op : LOp) :
    [(applyLife L slots s op).2] = specLife L.maxInstances s.trec.sentinel D [op] ∧
    StoreOK L (declAfter L.maxInstances D [op]) slots (applyLife L slots s op).1 ∧
    (applyLife L slots s op).1.trec.sentinel = s.trec.sentinel := by
  cases op with
  | look op =>
    have sp := applyOp_spec hs h.inv op
    simp only [applyLife, specLife, declAfter]
    refine ⟨by rw [sp.1], ⟨sp.2.1, ?_⟩, sp.2.2⟩
    -- the words outside the record are untouched and the record keeps its shape
    have hl := h.len
    have hc : (applyOp slots s.trec op).1.cache.length = s.trec.cache.length := by rw [sp.2.1.len, h.inv.len]
    have he : ((applyOp slots s.trec op).1.entries.flatMap Entry.words).length = (s.trec.entries.flatMap Entry.words).length := by
      have hsk : ∀ es : List Entry, (es.flatMap Entry.words).length = 3 * es.length := by
        intro es; induction es with
        | nil => rfl
        | cons e es ih => simp [List.flatMap_cons, Entry.words, ih]; omega
      rw [hsk, hsk]
      have := applyOp_entries_length slots s.trec op
      rw [this]
    simp only [Store.toRaw, List.length_append, List.length_map] at hl ⊢
    rw [hc, he]; exact hl
  | construct name size es =>
    have sp := constructIn_spec hL slots s name size es h.len
    simp only [applyLife, specLife, declAfter]
    by_cases hn : es.length > L.maxInstances
    · have := sp.2 hn
      rw [if_pos hn, if_pos hn, this]
      exact ⟨rfl, h, rfl⟩
    · have hle : es.length ≤ L.maxInstances := by omega
      obtain ⟨h1, h2, h3⟩ := sp.1 hle
      rw [if_neg hn, if_neg hn, h1]
      refine ⟨rfl, h3, ?_⟩
      rw [h2]; rfl

theorem runLife_spec {L : Layout} (hL : LayoutOK L) {slots : List (Nat × Cls)} (hs : SlotsOK slots L.cacheNum) :
    ∀ (ops : List LOp) (D : String → Option Inst) (s : Store), StoreOK L D slots s →
      (runLife L slots s ops).2 = specLife L.maxInstances s.trec.sentinel D ops ∧
      StoreOK L (declAfter L.maxInstances D ops) slots (runLife L slots s ops).1
  | [], _, _, h => ⟨rfl, h⟩
  | op :: ops, D, s, h => by
    have sp := applyLife_spec hL hs h op
    have ih := runLife_spec hL hs ops (declAfter L.maxInstances D [op]) (applyLife L slots s op).1 sp.2.1
    rw [sp.2.2] at ih
    simp only [runLife]
    refine ⟨?_, ?_⟩
    · rw [ih.1]
      have h1 := sp.1
      cases op with
      | look o => simp only [specLife, declAfter, List.cons.injEq, and_true] at h1 ⊢; exact h1
      | construct name size es =>
        simp only [specLife, declAfter] at h1 ⊢
        by_cases hn : es.length > L.maxInstances
        · simp only [if_pos hn, List.cons.injEq, and_true] at h1 ⊢; exact h1
        · simp only [if_neg hn, List.cons.injEq, and_true] at h1 ⊢; exact h1
    · have : declAfter L.maxInstances D (op :: ops) = declAfter L.maxInstances (declAfter L.maxInstances D [op]) ops := by
        cases op with
        | look o => rfl
        | construct name size es =>
          simp only [declAfter]
          by_cases hn : es.length > L.maxInstances
          · simp [if_pos hn]
          · simp [if_neg hn]
      rw [this]; exact ih.2

end Cello.Dispatch
