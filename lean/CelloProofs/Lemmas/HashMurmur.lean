/-
  Lemmas for C10: the interpreter `hashData` over the step lists extracted from src/Hash.c computes MurmurHash64A.
-/
import Cello.Hash
set_option linter.unusedSimpArgs false

namespace Cello.Hash
open CelloGen.Hash

/-- the extracted body of the block loop is the MurmurHash64A block mix -/
theorem blockSteps_eq_refBlock (h k : UInt64) :
    runSteps CelloGen.Hash.m CelloGen.Hash.r CelloGen.Hash.blockSteps h k = refBlock h k := by
  simp [runSteps, runStep, CelloGen.Hash.blockSteps, refBlock, CelloGen.Hash.m, CelloGen.Hash.r]

/-- the extracted statements after the switch are the MurmurHash64A finaliser -/
theorem finalSteps_eq (h : UInt64) :
    runSteps CelloGen.Hash.m CelloGen.Hash.r CelloGen.Hash.finalSteps h 0 =
      (let h1 := h ^^^ (h >>> 47); let h2 := h1 * 0xc6a4a7935bd1e995; h2 ^^^ (h2 >>> 47)) := by
  simp [runSteps, runStep, CelloGen.Hash.finalSteps, CelloGen.Hash.m, CelloGen.Hash.r]

/-- the extracted tail switch, entered at `case d.length`, is the MurmurHash64A tail -/
theorem tail_eq_refTail (d : Bytes) (h : UInt64) (hd : d.length < 8) :
    runTail CelloGen.Hash.m CelloGen.Hash.tail d.length d h = refTail h d := by
  match d, hd with
  | [], _ => simp [runTail, CelloGen.Hash.tail, refTail, List.dropWhile, List.takeWhile, List.flatMap, isBrk]
  | [a], _ =>
    simp [runTail, CelloGen.Hash.tail, refTail, List.dropWhile, List.takeWhile, List.flatMap, runTailStmt, isBrk, CelloGen.Hash.m]
  | [a, b], _ =>
    simp [runTail, CelloGen.Hash.tail, refTail, List.dropWhile, List.takeWhile, List.flatMap, runTailStmt, isBrk, CelloGen.Hash.m]
  | [a, b, c], _ =>
    simp [runTail, CelloGen.Hash.tail, refTail, List.dropWhile, List.takeWhile, List.flatMap, runTailStmt, isBrk, CelloGen.Hash.m]
  | [a, b, c, e], _ =>
    simp [runTail, CelloGen.Hash.tail, refTail, List.dropWhile, List.takeWhile, List.flatMap, runTailStmt, isBrk, CelloGen.Hash.m]
  | [a, b, c, e, f], _ =>
    simp [runTail, CelloGen.Hash.tail, refTail, List.dropWhile, List.takeWhile, List.flatMap, runTailStmt, isBrk, CelloGen.Hash.m]
  | [a, b, c, e, f, g], _ =>
    simp [runTail, CelloGen.Hash.tail, refTail, List.dropWhile, List.takeWhile, List.flatMap, runTailStmt, isBrk, CelloGen.Hash.m]
  | [a, b, c, e, f, g, i], _ =>
    simp [runTail, CelloGen.Hash.tail, refTail, List.dropWhile, List.takeWhile, List.flatMap, runTailStmt, isBrk, CelloGen.Hash.m]
  | _ :: _ :: _ :: _ :: _ :: _ :: _ :: _ :: _, hd => simp at hd; omega

theorem blockLoop_congr (f g : UInt64 → UInt64 → UInt64) (hfg : ∀ h k, f h k = g h k) :
    ∀ (n : Nat) (h : UInt64) (bs : Bytes), blockLoop f n h bs = blockLoop g n h bs := by
  intro n
  induction n with
  | zero => intro h bs; rfl
  | succ n ih => intro h bs; simp [blockLoop, hfg, ih]

theorem hashData_eq_murmur (bytes : Bytes) : hashData bytes = murmur64A 0xCe110 bytes := by
  have hlen : (bytes.drop (8 * (bytes.length / 8))).length = bytes.length % 8 := by
    rw [List.length_drop]; omega
  have hlt : (bytes.drop (8 * (bytes.length / 8))).length < 8 := by rw [hlen]; omega
  unfold hashData hashDataWith murmur64A
  simp only []
  rw [blockLoop_congr _ refBlock blockSteps_eq_refBlock]
  rw [← hlen, tail_eq_refTail _ _ hlt, finalSteps_eq]
  simp [CelloGen.Hash.m, CelloGen.Hash.seed]

end Cello.Hash
